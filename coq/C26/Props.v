(* C26 — property theorems only: each closed by [exact lemma], followed by Print Assumptions.
   Vocabulary (Model.v / Spec.v / Proof*.v):
     read_stream allc v1 lines   the chunks returned by successive ReadMultiline calls (first call with
                                 ReadOptCollectAllComments iff allc) until "" / -1 comes back, and Done
     split_nl inp                the lines bufio's ReadBytes('\n') delivers for the byte stream inp
     rstep / rrun                the reference lexical classifier (look-ahead scanner), rrun r d s after = state and
                                 bracket depth after scanning s from state r, depth d
     hb_rewrite RCode inp        inp with every "#!" that starts a comment replaced by "//"
     bare_hash RCode inp         some '#' outside literals/comments is not followed by '!' (gomacro's HASH token)
     R m r nx                    machine mode m corresponds to reference state r when the next byte has class nx
     cuts P inp cs               inp = piece_1 ++ piece_2 ++ ..., |piece_i| = |chunk_i|, and P piece_i rest_i chunk_i
                                 holds for every chunk returned with err == nil (every non-final chunk) *)
From Coq Require Import List NArith ZArith Bool.
From Verif Require Import Common.GoStr C26.Model C26.Spec C26.Spec2 C26.Proof C26.Proof2 C26.Proof3 C26.Proof4 C26.Proof5 C26.Proof6 C26.Wrapper C26.ProofW.
Import ListNotations.
Open Scope Z_scope.

(* ---- losslessness, for every byte sequence (premise: no bare '#'; see the refutation below) ---- *)
Theorem C26_lossless : forall inp allc v1,
  bare_hash RCode inp = false ->
  exists cs, read_stream allc v1 (split_nl inp) = (cs, Done) /\ concat (map c_src cs) = hb_rewrite RCode inp.
Proof. exact lossless. Qed.
Print Assumptions C26_lossless.

(* Go source has no '#' outside literals and comments: the chunks concatenate to the input itself *)
Theorem C26_lossless_go : forall inp allc v1,
  hash_in_code RCode inp = false ->
  exists cs, read_stream allc v1 (split_nl inp) = (cs, Done) /\ concat (map c_src cs) = inp.
Proof. exact lossless_go. Qed.
Print Assumptions C26_lossless_go.

(* ... and with a leading "#!" line: exactly that "#!" is turned into "//" *)
Theorem C26_lossless_hashbang : forall rest allc v1,
  hash_in_code RLine rest = false ->
  exists cs, read_stream allc v1 (split_nl (35 :: 33 :: rest)%N) = (cs, Done) /\
             concat (map c_src cs) = (47 :: 47 :: rest)%N.
Proof. exact lossless_hashbang. Qed.
Print Assumptions C26_lossless_hashbang.

(* the premise is needed: in "#(!" the machine stays in mode mHash over the bracket and then overwrites the
   bracket, "#(!\n" comes back as "#//\n" *)
Theorem C26_lossless_bare_hash_refuted :
  exists inp, bare_hash RCode inp = true /\
    concat (map c_src (fst (read_stream true false (split_nl inp)))) <> hb_rewrite RCode inp /\
    concat (map c_src (fst (read_stream true false (split_nl inp)))) = [35; 47; 47; 10]%N.
Proof. exists [35; 40; 33; 10]%N. vm_compute. repeat split; discriminate. Qed.
Print Assumptions C26_lossless_bare_hash_refuted.

(* BufReadline.Read also replaces U+2029 by '\n': the delivered lines are not the stream *)
Theorem C26_paragraph_separator_not_lossless :
  exists inp, concat (bufread inp) <> inp.
Proof. exists [97; 226; 128; 169; 98]%N. vm_compute. discriminate. Qed.
Print Assumptions C26_paragraph_separator_not_lossless.

(* ---- the mode machine tracks the reference classifier ---- *)
(* one byte: if mode and reference state correspond before the byte they correspond after it (after a newline
   the machine may still be in mLineComment, which it leaves at the end of the line), the bracket counters
   agree, and the "#!" rewrite happens exactly in mode mHash on '!' *)
Theorem C26_mode_tracks_lexer_byte : forall s p c r nx,
  R (s_m s) r (Some c) -> hash_fine r c nx ->
  let s' := fst (step s p c) in
  let r' := rstep r c nx in
  (R (s_m s') r' nx \/ (c = CNl /\ s_m s' = mLineComment /\ r' = RCode))
  /\ s_paren s' = rdepth_step r c (s_paren s)
  /\ (snd (step s p c) = true <-> (s_m s = mHash /\ c = CBang)).
Proof. exact step_sim. Qed.
Print Assumptions C26_mode_tracks_lexer_byte.

(* one complete line (character loop + end-of-line code), anywhere in a stream *)
Theorem C26_mode_tracks_lexer : forall seg rest s p r d,
  ~ In 10%N seg ->
  R (s_m s) r (peek ((seg ++ [10%N]) ++ rest)) -> s_m s <> mHash -> s_paren s = d ->
  bare_hash r ((seg ++ [10%N]) ++ rest) = false ->
  exists s' acc', run_line s p [] (seg ++ [10%N]) = Some (s', acc') /\
    let '(r', d') := rrun r d (seg ++ [10%N]) (peek rest) in
    R (s_m (eol_reset_comment s')) r' (peek rest) /\ s_paren (eol_reset_comment s') = d'.
Proof. exact line_sim. Qed.
Print Assumptions C26_mode_tracks_lexer.

(* ---- a non-final chunk never ends inside a string, raw string, rune, comment or open bracket ---- *)
Theorem C26_never_inside : forall inp allc v1 cs st,
  bare_hash RCode inp = false -> read_stream allc v1 (split_nl inp) = (cs, st) ->
  cuts (fun piece rest _ => exists d, rrun RCode 0 piece (peek rest) = (RCode, d) /\ d <= 0) inp cs.
Proof. exact never_inside. Qed.
Print Assumptions C26_never_inside.

(* ---- continuation lines ---- *)
(* ends_in_op r d L after (Spec.v): L = a ++ op :: t, op one of ! % & * , < = > ^ | / + - met in code at bracket
   depth 0, not starting a comment, + / - not glued to a preceding + or -, and t only white space and comments.
   For EVERY line, wherever machine and classifier correspond at its start (which C26_mode_tracks_lexer and
   C26_never_inside establish for every line of every stream): such a line leaves ignorenl set and the
   end-of-line decision does not stop *)
Theorem C26_continuation_kept_line : forall L rest s p r d s1 acc1 o,
  line_ok L -> R (s_m s) r (peek (L ++ rest)) -> s_m s <> mHash -> s_m s <> mPlus -> s_m s <> mMinus ->
  s_paren s = d -> bare_hash r (L ++ rest) = false ->
  ends_in_op r d L (peek rest) ->
  run_line s p [] L = Some (s1, acc1) ->
  s_ign s1 = true /\ may_stop o (eol_reset_comment s1) = false.
Proof. exact line_op_ign. Qed.
Print Assumptions C26_continuation_kept_line.

(* whole stream: every non-final chunk is a sequence of complete lines whose last line does not end in a binary
   operator or comma *)
Theorem C26_continuation_kept : forall inp allc v1 cs st,
  bare_hash RCode inp = false -> read_stream allc v1 (split_nl inp) = (cs, st) ->
  cuts (fun piece rest _ =>
          exists lines L, piece = concat lines ++ L /\ Forall line_ok lines /\ line_ok L /\
            let '(r, d) := rrun RCode 0 (concat lines) (peek (L ++ rest)) in ~ ends_in_op r d L (peek rest)) inp cs.
Proof. exact continuation_kept. Qed.
Print Assumptions C26_continuation_kept.

(* ... nor (up to white space and comments) in an opening bracket met in code at depth >= 0 *)
Theorem C26_continuation_kept_bracket : forall inp allc v1 cs st,
  bare_hash RCode inp = false -> read_stream allc v1 (split_nl inp) = (cs, st) ->
  cuts (fun piece rest _ =>
          forall a op t d0, piece = a ++ op :: t -> classify op = COpen ->
            rrun RCode 0 a (Some COpen) = (RCode, d0) -> 0 <= d0 -> quiet RCode t (peek rest) = true -> False) inp cs.
Proof. exact bracket_kept. Qed.
Print Assumptions C26_continuation_kept_bracket.

(* the depth premise is needed: after a stray closing bracket the counter is negative and "} (" is cut *)
Theorem C26_continuation_negative_depth_refuted :
  exists inp, map (fun c => length (c_src c)) (fst (read_stream false false (split_nl inp))) = [4%nat; 2%nat]
              /\ inp = [125; 32; 40; 10; 41; 10]%N.
Proof. eexists. split; [|reflexivity]. vm_compute. reflexivity. Qed.
Print Assumptions C26_continuation_negative_depth_refuted.

(* keyword rule, PARTIAL: proved = wherever a chunk was cut, lastIsKeywordIgnoresNl (called with the whole
   buffer and buffer-relative offsets, fix C26-1) had answered false.  Missing = that the two offsets are those
   of the first and last token of the chunk (checked by the correspondence on firstToken and by oracle O5).
   SUPERSEDED: the full theorem C26_keyword_continuation below derives the offsets from an invariant of
   foundtoken proved by induction over the byte steps; this one is kept unchanged. *)
Theorem C26_keyword_continuation_partial : forall inp allc v1 cs st,
  bare_hash RCode inp = false -> read_stream allc v1 (split_nl inp) = (cs, st) ->
  cuts (fun _ _ c => exists first last, (0 <=? first) && lastIsKw v1 (c_src c) first last = false) inp cs.
Proof. exact keyword_checked. Qed.
Print Assumptions C26_keyword_continuation_partial.

(* the call as it was before fix C26-1 (last line only, buffer-relative offsets 5 and 14) misses the keyword
   on DESIGN section 7 #4, the fixed call finds it *)
Theorem C26_keyword_index_old_call_refuted :
  let buf := [32;32;32;32;32;102;40;10;49;41;59;32;102;111;114;10]%N in
  let lastline := [49;41;59;32;102;111;114;10]%N in
  lastIsKw false lastline 5 14 = false /\ lastIsKw false buf 5 14 = true.
Proof. vm_compute. split; reflexivity. Qed.
Print Assumptions C26_keyword_index_old_call_refuted.

(* ---- keyword rule, FULL ---- *)
(* the keyword test of lastIsKeywordIgnoresNl: etoken.Lookup(w) is a keyword other than break / continue /
   fallthrough / return  <->  w is in the list (is_kw, Spec2.v: the 21 other Go keywords, "macro", and "template"
   when etoken.GENERICS == GENERICS_V1_CXX) *)
Theorem C26_keyword_lookup : forall v1 w, kw_ignores_nl v1 w = true <-> is_kw v1 w.
Proof. exact kw_lookup_spec. Qed.
Print Assumptions C26_keyword_lookup.

Theorem C26_keyword_lookup_list : forall w, kw_ignores_nl false w = true <-> In w kw_list.
Proof. exact kw_lookup_list. Qed.
Print Assumptions C26_keyword_lookup_list.

(* the bookkeeping of foundtoken, one byte: firstToken stays below the offset of the next byte (so it is -1 or the
   offset of a byte already read), and a lower-case letter met in code (mode mNormal / mPlus / mMinus / mSlash)
   leaves mode mNormal, lastToken = its offset, 0 <= firstToken <= its offset, firstToken unchanged once set *)
Theorem C26_token_offsets_byte : forall s p c, s_first s < p -> s_first (fst (step s p c)) < p + 1.
Proof. exact step_first_lt. Qed.
Print Assumptions C26_token_offsets_byte.

Theorem C26_token_offsets_letter : forall s p,
  code_mode (s_m s) -> 0 <= p -> s_first s < p ->
  let s' := fst (step s p COther) in
  snd (step s p COther) = false /\ s_m s' = mNormal /\ s_last s' = p /\
  0 <= s_first s' <= p /\ (0 <= s_first s -> s_first s' = s_first s).
Proof. exact step_lower. Qed.
Print Assumptions C26_token_offsets_letter.

(* ... white space and comments move neither offset *)
Theorem C26_token_offsets_quiet : forall s p c r nx,
  R (s_m s) r (Some c) -> hash_fine r c nx -> (s_m s = mSlash -> r <> RCode) ->
  quiet1 r c (rstep r c nx) = true ->
  let s' := fst (step s p c) in
  s_first s' = s_first s /\ s_last s' = s_last s /\ (s_m s' = mSlash -> rstep r c nx <> RCode).
Proof. exact quiet_step_tok. Qed.
Print Assumptions C26_token_offsets_quiet.

(* one line, anywhere in a stream, NO premise on what firstToken / lastToken are beyond the invariant Tok
   (firstToken < len(buf), buf empty or ending in a newline - established for every line of every chunk by
   rm_loop_tok): if the last token of the line outside literals and comments is a continuation keyword
   (ends_in_kw, Spec2.v; at any bracket depth) then lastIsKeywordIgnoresNl, called as the code calls it on the
   whole buffer with the offsets the machine has computed, answers true *)
Theorem C26_keyword_continuation_line : forall L rest s bufL r d s1 acc1 v1,
  line_ok L -> R (s_m s) r (peek (L ++ rest)) -> s_m s <> mHash -> s_paren s = d ->
  bare_hash r (L ++ rest) = false -> Tok s bufL ->
  ends_in_kw v1 r d L (peek rest) ->
  run_line s (Z.of_nat (length bufL)) [] L = Some (s1, acc1) ->
  (0 <=? s_first s1) && lastIsKw v1 (bufL ++ rev acc1) (s_first s1) (s_last s1) = true.
Proof. exact line_kw. Qed.
Print Assumptions C26_keyword_continuation_line.

(* whole stream, every byte sequence: every non-final chunk is a sequence of complete lines and the last token
   (outside literals and comments) of its last line is not a continuation keyword *)
Theorem C26_keyword_continuation : forall inp allc v1 cs st,
  bare_hash RCode inp = false -> read_stream allc v1 (split_nl inp) = (cs, st) ->
  cuts (fun piece rest _ =>
          exists lines L, piece = concat lines ++ L /\ Forall line_ok lines /\ line_ok L /\
            let '(r, d) := rrun RCode 0 (concat lines) (peek (L ++ rest)) in ~ ends_in_kw v1 r d L (peek rest)) inp cs.
Proof. exact keyword_continuation. Qed.
Print Assumptions C26_keyword_continuation.

(* ---- runs of + and - (covers "<-+", "+-", "++-" ... that ends_in_op leaves out) ---- *)
(* ends_in_pm_run r d L after (Spec2.v): L = a ++ run ++ t, run a block of + / - bytes met in code at bracket
   depth 0, not preceded by + or -, whose greedy reading (++ and -- pair up, as in go/scanner) leaves a single
   + or - at the end, t only white space and comments *)
Theorem C26_continuation_kept_arrow_line : forall L rest s p r d s1 acc1 o,
  line_ok L -> R (s_m s) r (peek (L ++ rest)) -> s_m s <> mHash -> s_m s <> mPlus -> s_m s <> mMinus ->
  s_paren s = d -> bare_hash r (L ++ rest) = false ->
  ends_in_pm_run r d L (peek rest) ->
  run_line s p [] L = Some (s1, acc1) ->
  s_ign s1 = true /\ may_stop o (eol_reset_comment s1) = false.
Proof. exact line_pm_ign. Qed.
Print Assumptions C26_continuation_kept_arrow_line.

Theorem C26_continuation_kept_arrow : forall inp allc v1 cs st,
  bare_hash RCode inp = false -> read_stream allc v1 (split_nl inp) = (cs, st) ->
  cuts (fun piece rest _ =>
          exists lines L, piece = concat lines ++ L /\ Forall line_ok lines /\ line_ok L /\
            let '(r, d) := rrun RCode 0 (concat lines) (peek (L ++ rest)) in ~ ends_in_pm_run r d L (peek rest)) inp cs.
Proof. exact continuation_kept_pm. Qed.
Print Assumptions C26_continuation_kept_arrow.

(* what the rule cannot cover: Go reads "c <--" as  c  <-  -  (the first '-' belongs to the arrow), the
   statement goes on; the reader pairs the two '-' to a complete "--" and cuts "c <--<NL>1<NL>" after the first
   line (replayed on the real reader: corpus/C26/known-arrow-minus.txt) *)
Theorem C26_arrow_minus_cut_refuted :
  map (fun c => (length (c_src c), c_err c)) (fst (read_stream false false (split_nl [99; 32; 60; 45; 45; 10; 49; 10]%N)))
  = [(6%nat, ENone); (2%nat, ENone)].
Proof. exact arrow_minus_cut. Qed.
Print Assumptions C26_arrow_minus_cut_refuted.

(* ---- the hypotheses are satisfiable on non-trivial values ---- *)
(* x := `a<NL>b` + 1<NL>/* c */ y()<NL> : two chunks, the first spans the raw string *)
Example C26_ex_two_chunks :
  let inp := [120;32;58;61;32;96;97;10;98;96;32;43;32;49;10;47;42;32;99;32;42;47;32;121;40;41;10]%N in
  bare_hash RCode inp = false /\ hash_in_code RCode inp = false /\
  map (fun c => (length (c_src c), c_first c, c_err c)) (fst (read_stream true false (split_nl inp)))
  = [(15%nat, 0, ENone); (12%nat, 8, ENone)].
Proof. vm_compute. auto. Qed.

(* "     f(<NL>1); for<NL>{ break }<NL>" (DESIGN section 7 #4) is one chunk with the fixed index arithmetic *)
Example C26_ex_keyword_index :
  map (fun c => length (c_src c)) (fst (read_stream true false (split_nl
     [32;32;32;32;32;102;40;10;49;41;59;32;102;111;114;10;123;32;98;114;101;97;107;32;125;10]%N))) = [26%nat].
Proof. vm_compute. reflexivity. Qed.

(* ends_in_op is satisfiable: "y = x +" followed by a comment; the keyword test on every keyword-ending line *)
Example C26_ex_ends_in_op : ends_in_op RCode 0 [121;32;61;32;120;32;43;32;47;47;99;10]%N None.
Proof.
  exists [121;32;61;32;120;32]%N, 43%N, [32;47;47;99;10]%N. vm_compute. repeat split; auto.
Qed.
Example C26_ex_keywords :
  forallb (fun w => lastIsKw false ([120; 59; 32]%N ++ w ++ [32; 10]%N) 0 (Z.of_nat (length w) + 2)) kw_list = true
  /\ lastIsKw false [120;32;114;101;116;117;114;110;10]%N 0 7 = false.
Proof. vm_compute. split; reflexivity. Qed.

(* ends_in_kw is satisfiable: "} else //c<NL>" (keyword at bracket depth -1, then a comment), and the reader keeps
   "if x {<NL>} else //c<NL>{ }<NL>" in one chunk *)
Example C26_ex_ends_in_kw : ends_in_kw false RCode 0 [125;32;101;108;115;101;32;47;47;99;10]%N None.
Proof.
  exists [125;32]%N, [101;108;115;101]%N, [32;47;47;99;10]%N.
  split; [reflexivity|]. split; [exists (-1); vm_compute; reflexivity|].
  split; [left; apply kw_lookup_list; vm_compute; reflexivity|]. split; vm_compute; reflexivity.
Qed.
Example C26_ex_else_one_chunk :
  map (fun c => length (c_src c)) (fst (read_stream true false (split_nl
     [105;102;32;120;32;123;10;125;32;101;108;115;101;32;47;47;99;10;123;32;125;10]%N))) = [22%nat].
Proof. vm_compute. reflexivity. Qed.

(* ends_in_pm_run is satisfiable: "c <-+<NL>" *)
Example C26_ex_ends_in_pm_run : ends_in_pm_run RCode 0 [99;32;60;45;43;10]%N None.
Proof.
  exists [99;32;60]%N, [45;43]%N, [10]%N.
  split; [reflexivity|]. split; [vm_compute; reflexivity|]. split; [discriminate|].
  split; [repeat constructor|]. split; [vm_compute; reflexivity|]. split; [vm_compute; discriminate|vm_compute; reflexivity].
Qed.

(* ---- the reader as its consumers call it: the method Globals.ReadMultiline (base/global.go), driven by
   EvalReader / ReadParseEvalPrint (also cmd EvalFile and -m -w, the REPL, the debugger); Wrapper.v ----
   gread_stream true  : the method that exists (drops the error value, returns (str, firstToken) as they are)
   gread_stream false : the variant answering "", -1 to every error, io.EOF included *)

(* the consumers receive exactly the chunks the reader returned, also the one that comes back together with io.EOF
   (last line without final newline) or io.ErrUnexpectedEOF *)
Theorem C26_wrapper_delivers_every_chunk : forall allc v1 rl,
  gread_stream true allc v1 rl = (map view (fst (read_stream allc v1 rl)), snd (read_stream allc v1 rl)).
Proof. exact gread_stream_keep. Qed.
Print Assumptions C26_wrapper_delivers_every_chunk.

(* hence losslessness holds for what EvalReader / EvalFile evaluate, for every byte sequence - whether or not its
   last byte is a newline *)
Theorem C26_lossless_through_wrapper : forall inp allc v1,
  bare_hash RCode inp = false ->
  exists ws, gread_stream true allc v1 (split_nl inp) = (ws, Done) /\ concat (map fst ws) = hb_rewrite RCode inp.
Proof. exact wrapper_lossless. Qed.
Print Assumptions C26_lossless_through_wrapper.

Theorem C26_lossless_go_through_wrapper : forall inp allc v1,
  hash_in_code RCode inp = false ->
  exists ws, gread_stream true allc v1 (split_nl inp) = (ws, Done) /\ concat (map fst ws) = inp.
Proof. exact wrapper_lossless_go. Qed.
Print Assumptions C26_lossless_go_through_wrapper.

(* the variant that treats io.EOF like a failed read loses the last statement of a file without final newline:
   "a := 1" is delivered as nothing at all *)
Theorem C26_wrapper_dropping_eof_chunk_refuted :
  exists inp, hash_in_code RCode inp = false /\
    gread_stream false true false (split_nl inp) = ([], Done) /\
    fst (gread_stream true true false (split_nl inp)) = [(inp, 0)].
Proof. exists w_witness. exact wrapper_dropping_refuted. Qed.
Print Assumptions C26_wrapper_dropping_eof_chunk_refuted.

(* C26 — property theorems only *)
From Coq Require Import List NArith ZArith Bool.
From Verif Require Import Common.GoStr C26.Model C26.Proof.
Import ListNotations.

(* C26 — further specification-side definitions (no proofs): statements about Go source without '#',
   lines that end in a continuation token *)
From Coq Require Import List NArith ZArith Bool.
From Verif Require Import Common.GoStr C26.Model.
Import ListNotations.
Open Scope Z_scope.

(* a '#' met outside strings, runes and comments (Go source has none, except a leading "#!") *)
Fixpoint hash_in_code (r : rstate) (s : list N) : bool :=
  match s with
  | [] => false
  | ch :: s' =>
      let c := classify ch in
      match r, c with
      | RCode, CHash => true
      | _, _ => hash_in_code (rstep r c (peek s')) s'
      end
  end.

(* white space and comments only: scanning s from state r (look-ahead `after` behind s), every byte is
   white space met in code, the start of a comment, or inside a comment *)
Definition quiet1 (r : rstate) (c : cclass) (r' : rstate) : bool :=
  match r with
  | RCode => is_space c || match r' with RLine | RBlockOpen => true | _ => false end
  | RLine | RBlockOpen | RBlock | RBlockClose => true
  | _ => false
  end.

Fixpoint quiet (r : rstate) (s : list N) (after : option cclass) : bool :=
  match s with
  | [] => true
  | ch :: s' =>
      let c := classify ch in
      let r' := rstep r c (match s' with [] => after | _ => peek s' end) in
      quiet1 r c r' && quiet r' s' after
  end.

(* the bytes after which the statement continues on the next line: ! % & * , < = > ^ | / + - *)
Definition is_cont_op (c : cclass) : bool :=
  match c with CBang | CStar | COp | CSlash | CPlus | CMinus => true | _ => false end.
Definition is_plusminus (c : cclass) : bool := match c with CPlus | CMinus => true | _ => false end.

(* line L (scanned from reference state r, bracket depth d, look-ahead `after` behind it) ends in a binary
   operator or comma: L = a ++ op :: t where op is met in code at bracket depth 0, is one of the bytes above,
   does not start a comment, is not the second byte of ++ / -- (nor glued to a preceding + or -), and t holds
   only white space and comments *)
Definition ends_in_op (r : rstate) (d : Z) (L : list N) (after : option cclass) : Prop :=
  exists a op t, L = a ++ op :: t /\
    rrun r d a (Some (classify op)) = (RCode, 0) /\
    is_cont_op (classify op) = true /\
    rstep RCode (classify op) (match t with [] => after | _ :: _ => peek t end) = RCode /\
    (is_plusminus (classify op) = true -> match rev a with [] => True | b :: _ => is_plusminus (classify b) = false end) /\
    quiet RCode t after = true.

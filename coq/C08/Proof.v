(* C08 — lemmas. *)
From Coq Require Import List Arith ZArith Bool Lia.
From Verif Require Import C08.Model.
Import ListNotations.
Open Scope Z_scope.

(* ---------- lists ---------- *)
Lemma updZ_length {A} (l : list A) i x : length (updZ l i x) = length l.
Proof. revert i; induction l; intros [|i]; simpl; auto. Qed.
Lemma nth_error_updZ_eq {A} (l : list A) i x : (i < length l)%nat -> nth_error (updZ l i x) i = Some x.
Proof. revert i; induction l; intros [|i] H; simpl in *; try lia; auto. apply IHl. lia. Qed.
Lemma nth_error_updZ_neq {A} (l : list A) i j x : i <> j -> nth_error (updZ l i x) j = nth_error l j.
Proof. revert i j; induction l; intros [|i] [|j] H; simpl; auto; try congruence. Qed.
Lemma nth_updZ_neq {A} (l : list A) i j x d : i <> j -> nth j (updZ l i x) d = nth j l d.
Proof. revert i j; induction l; intros [|i] [|j] H; simpl; auto; try congruence. Qed.
Lemma nth_updZ_eq {A} (l : list A) i x d : (i < length l)%nat -> nth i (updZ l i x) d = x.
Proof. revert i; induction l; intros [|i] H; simpl in *; try lia; auto. apply IHl. lia. Qed.

Lemma blit_length vs : forall d p, length (blit d p vs) = length d.
Proof. induction vs; intros; simpl; auto. rewrite IHvs. apply updZ_length. Qed.
Lemma blit_outside vs : forall d p j, (j < p \/ p + length vs <= j)%nat -> nth_error (blit d p vs) j = nth_error d j.
Proof.
  induction vs as [|v vs IH]; intros d p j H; simpl in *; auto.
  rewrite IH by lia. apply nth_error_updZ_neq. lia.
Qed.
Lemma blit_inside vs : forall d p i, (p + length vs <= length d)%nat -> (i < length vs)%nat ->
  nth_error (blit d p vs) (p + i) = nth_error vs i.
Proof.
  induction vs as [|v vs IH]; intros d p i H Hi; [simpl in Hi; lia|].
  cbn [blit]. destruct i as [|i].
  - rewrite Nat.add_0_r. rewrite blit_outside by lia. cbn [nth_error]. apply nth_error_updZ_eq. simpl in H. lia.
  - replace (p + S i)%nat with (S p + i)%nat by lia. change (nth_error (v :: vs) (S i)) with (nth_error vs i).
    simpl in H, Hi. apply IH; [rewrite updZ_length; lia|lia].
Qed.

(* ---------- slicing ---------- *)
Lemma bounds_ok_iff lo hi max cap : bounds_ok lo hi max cap = true <-> 0 <= lo <= hi /\ hi <= max <= cap.
Proof. unfold bounds_ok. rewrite !andb_true_iff, !Z.leb_le. lia. Qed.

Lemma slice3_iff s lo hi max :
  (exists r, slice3 s lo hi max = Some r) <-> 0 <= lo <= hi /\ hi <= max <= s_cap s.
Proof.
  unfold slice3. rewrite <- bounds_ok_iff. destruct (bounds_ok lo hi max (s_cap s)); split; intros H; eauto; try congruence.
  destruct H; discriminate.
Qed.
Lemma slice3_result s lo hi max r : slice3 s lo hi max = Some r ->
  s_arr r = s_arr s /\ s_off r = s_off s + lo /\ s_len r = hi - lo /\ s_cap r = max - lo.
Proof. unfold slice3. destruct (bounds_ok lo hi max (s_cap s)); intros H; inversion H; subst; simpl; auto. Qed.

(* ---------- store lemmas ---------- *)
Lemma get_set_arr_eq st a d : (a < length (arrs st))%nat -> get_arr (set_arr st a d) a = d.
Proof. intros. unfold get_arr, set_arr; simpl. apply nth_updZ_eq; auto. Qed.
Lemma get_set_arr_neq st a b d : a <> b -> get_arr (set_arr st a d) b = get_arr st b.
Proof. intros. unfold get_arr, set_arr; simpl. apply nth_updZ_neq; auto. Qed.

Definition wf_slice (st : store) (s : slice) : Prop :=
  match s_arr s with
  | Some a => (a < length (arrs st))%nat /\ 0 <= s_off s /\ 0 <= s_len s <= s_cap s /\
              s_off s + s_cap s <= Z.of_nat (length (get_arr st a))
  | None => s_len s = 0 /\ s_cap s = 0
  end.

(* a write through slice r at index j is seen through slice t at index k when both name the same array cell *)
Lemma set_get_alias st r t a j k v st' :
  s_arr r = Some a -> s_arr t = Some a -> wf_slice st r -> wf_slice st t ->
  sl_set st r j v = Some st' -> in_range k (s_len t) = true -> s_off t + k = s_off r + j ->
  sl_get st' t k = Some v.
Proof.
  intros Ar At Wr Wt S K E. unfold sl_set in S. destruct (in_range j (s_len r)) eqn:J; [|discriminate].
  rewrite Ar in S. inversion S; subst st'. unfold sl_get. rewrite K, At.
  unfold wf_slice in Wr. rewrite Ar in Wr. destruct Wr as (La & O & L & C).
  rewrite get_set_arr_eq by auto. rewrite E. apply nth_error_updZ_eq.
  unfold in_range in J. apply andb_true_iff in J. destruct J as [J1 J2]. apply Z.leb_le in J1. apply Z.ltb_lt in J2. lia.
Qed.

Lemma set_get_other st r t a b j k v st' :
  s_arr r = Some a -> s_arr t = Some b -> a <> b -> sl_set st r j v = Some st' -> sl_get st' t k = sl_get st t k.
Proof.
  intros Ar At N S. unfold sl_set in S. destruct (in_range j (s_len r)); [|discriminate].
  rewrite Ar in S. inversion S; subst st'. unfold sl_get. rewrite At. rewrite get_set_arr_neq; auto.
Qed.

(* ---------- append ---------- *)
Lemma append_in_place st s vs c a : s_arr s = Some a -> s_len s + Z.of_nat (length vs) <= s_cap s ->
  let '(st', r) := sl_append st s vs c in
  s_arr r = Some a /\ s_off r = s_off s /\ s_len r = s_len s + Z.of_nat (length vs) /\ s_cap r = s_cap s /\
  length (arrs st') = length (arrs st) /\ length (get_arr st' a) = length (get_arr st a).
Proof.
  intros A L. unfold sl_append. apply Z.leb_le in L. rewrite L, A. simpl. repeat split; auto.
  - unfold set_arr; simpl. apply updZ_length.
  - destruct (lt_dec a (length (arrs st))).
    + rewrite get_set_arr_eq by auto. apply blit_length.
    + unfold get_arr, set_arr; simpl. rewrite !nth_overflow; auto; try rewrite updZ_length; lia.
Qed.

Lemma append_realloc st s vs c : s_cap s < s_len s + Z.of_nat (length vs) ->
  let '(st', r) := sl_append st s vs c in
  s_arr r = Some (length (arrs st)) /\ s_off r = 0 /\ s_len r = s_len s + Z.of_nat (length vs) /\
  s_len r <= s_cap r /\ (forall b, (b < length (arrs st))%nat -> get_arr st' b = get_arr st b).
Proof.
  intros L. unfold sl_append. apply Z.leb_gt in L. rewrite L. simpl. repeat split; auto; try lia.
  intros b Hb. unfold get_arr; simpl. apply app_nth1. exact Hb.
Qed.

(* ---------- copy ---------- *)
Lemma firstn_nth_error {A} (l : list A) n i : (i < n)%nat -> nth_error (firstn n l) i = nth_error l i.
Proof.
  revert n i; induction l as [|x l IH]; intros n i H.
  - rewrite firstn_nil. reflexivity.
  - destruct n; [lia|]. destruct i; simpl; [reflexivity|]. apply IH. lia.
Qed.
Lemma skipn_nth_error {A} (l : list A) n i : nth_error (skipn n l) i = nth_error l (n + i).
Proof. revert l; induction n as [|n IH]; intros l; [reflexivity|]. destruct l; simpl; [destruct i; reflexivity|apply IH]. Qed.

Lemma elems_nth st s a i : s_arr s = Some a -> (i < Z.to_nat (s_len s))%nat ->
  nth_error (sl_elems st s) i = nth_error (get_arr st a) (Z.to_nat (s_off s) + i).
Proof. intros A H. unfold sl_elems. rewrite A. rewrite firstn_nth_error by auto. apply skipn_nth_error. Qed.

Lemma copy_memmove st dst src a b i : s_arr dst = Some a -> s_arr src = Some b -> wf_slice st dst -> wf_slice st src ->
  let n := Z.min (s_len dst) (s_len src) in
  0 <= i < n ->
  let '(st', m) := sl_copy st dst src in
  m = n /\ sl_get st' dst i = sl_get st src i.
Proof.
  intros Ad As Wd Ws n Hi. unfold sl_copy. rewrite Ad. fold n. split; auto.
  unfold wf_slice in Wd, Ws. rewrite Ad in Wd. rewrite As in Ws.
  destruct Wd as (La & Od & Ld & Cd). destruct Ws as (Lb & Os & Ls & Cs).
  unfold sl_get. assert (Ri : in_range i (s_len dst) = true /\ in_range i (s_len src) = true).
  { unfold in_range. rewrite !andb_true_iff, !Z.leb_le, !Z.ltb_lt. lia. }
  destruct Ri as (R1 & R2). rewrite R1, R2, Ad, As. rewrite get_set_arr_eq by auto.
  set (vs := firstn (Z.to_nat n) (sl_elems st src)).
  assert (Lvs : length vs = Z.to_nat n).
  { unfold vs. rewrite firstn_length. unfold sl_elems. rewrite As. rewrite firstn_length, skipn_length. lia. }
  replace (Z.to_nat (s_off dst + i)) with (Z.to_nat (s_off dst) + Z.to_nat i)%nat by lia.
  rewrite blit_inside by lia. unfold vs. rewrite firstn_nth_error by lia.
  rewrite (elems_nth st src b) by (auto; lia). f_equal. lia.
Qed.

(* ---------- maps ---------- *)
Lemma al_get_del m k x : al_get (al_del m k) x = if x =? k then None else al_get m x.
Proof.
  induction m as [|[k' v] m IH]; simpl; [destruct (x =? k); reflexivity|].
  destruct (k' =? k) eqn:E1; simpl.
  - rewrite IH. destruct (x =? k) eqn:E2; auto. destruct (k' =? x) eqn:E3; auto.
    apply Z.eqb_eq in E1, E3. apply Z.eqb_neq in E2. lia.
  - rewrite IH. destruct (k' =? x) eqn:E3; auto. destruct (x =? k) eqn:E2; auto.
    apply Z.eqb_eq in E2, E3. apply Z.eqb_neq in E1. lia.
Qed.
Lemma al_del_keys m k x : In x (map fst (al_del m k)) <-> In x (map fst m) /\ x <> k.
Proof.
  induction m as [|[k' v] m IH]; simpl; [tauto|].
  destruct (k' =? k) eqn:E.
  - apply Z.eqb_eq in E. subst. rewrite IH. split; [tauto|]. intros [[H|H] N]; [congruence|tauto].
  - apply Z.eqb_neq in E. simpl. rewrite IH. split; [intros [H|H]; subst; tauto|tauto].
Qed.
Lemma al_del_nodup m k : NoDup (map fst m) -> NoDup (map fst (al_del m k)).
Proof.
  induction m as [|[k' v] m IH]; simpl; intros H; auto. inversion H; subst.
  destruct (k' =? k); auto. simpl. constructor; auto. rewrite al_del_keys. tauto.
Qed.
Lemma al_get_in m k : NoDup (map fst m) -> (al_get m k <> None <-> In k (map fst m)).
Proof.
  induction m as [|[k' v] m IH]; simpl; intros H; [tauto|]. inversion H; subst.
  destruct (k' =? k) eqn:E.
  - apply Z.eqb_eq in E. split; [auto|discriminate].
  - apply Z.eqb_neq in E. rewrite IH by auto. split; [auto|]. intros [X|X]; [congruence|auto].
Qed.

Definition map_abs (m : mapv) (f : fmap) (isnil : bool) : Prop :=
  match m with
  | None => isnil = true /\ forall k, f k = None
  | Some l => isnil = false /\ NoDup (map fst l) /\ forall k, al_get l k = f k
  end.

Definition spec_out (f : fmap) (o : mop) (isnil : bool) (r : res) : Prop :=
  match o with
  | MSet _ _ => r = if isnil then RPanic PNilMap else RUnit
  | MGet k => r = RVal (match f k with Some v => v | None => 0 end)
  | MGetOk k => r = match f k with Some v => RVal2 v true | None => RVal2 0 false end
  | MLen => exists keys, r = RVal (Z.of_nat (length keys)) /\ NoDup keys /\ forall k, In k keys <-> f k <> None
  | _ => r = RUnit
  end.

Lemma map_step_refines m f isnil o : map_abs m f isnil ->
  let '(m', r) := map_step m o in let '(f', n') := fmap_step f isnil o in
  map_abs m' f' n' /\ spec_out f o isnil r.
Proof.
  intros A. destruct o; simpl.
  - split; [simpl; repeat split; auto; try constructor|reflexivity].
  - split; [simpl; auto|reflexivity].
  - destruct m as [l|]; simpl in *.
    + destruct A as (-> & ND & G). split; [|reflexivity]. simpl. split; [reflexivity|]. split.
      * constructor; [rewrite al_del_keys; tauto|apply al_del_nodup; auto].
      * intros x. simpl. rewrite Z.eqb_sym. destruct (x =? k) eqn:E; auto. rewrite al_get_del, E. apply G.
    + destruct A as (-> & G). split; [simpl; auto|reflexivity].
  - destruct m as [l|]; simpl in *.
    + destruct A as (-> & ND & G). split; [simpl; auto|]. rewrite G. reflexivity.
    + destruct A as (-> & G). split; [simpl; auto|]. rewrite G. reflexivity.
  - destruct m as [l|]; simpl in *.
    + destruct A as (-> & ND & G). split; [simpl; auto|]. rewrite <- G. destruct (al_get l k); reflexivity.
    + destruct A as (-> & G). split; [simpl; auto|]. rewrite G. reflexivity.
  - destruct m as [l|]; simpl in *.
    + destruct A as (-> & ND & G). split; [|reflexivity]. split; [reflexivity|]. split.
      * apply al_del_nodup; auto.
      * intros x. rewrite al_get_del. destruct (x =? k); auto.
    + destruct A as (-> & G). split; [|reflexivity]. split; [reflexivity|]. intros x. destruct (x =? k); auto.
  - destruct m as [l|]; simpl in *.
    + destruct A as (-> & ND & G). split; [simpl; auto|]. exists (map fst l). rewrite map_length. split; [reflexivity|]. split; [exact ND|].
      intros x. rewrite <- G. symmetry. apply al_get_in; auto.
    + destruct A as (-> & G). split; [simpl; auto|]. exists []. simpl. split; [reflexivity|]. split; [constructor|].
      intros x. split; [tauto|]. intros H. apply H. apply G.
Qed.

(* whole histories *)
Fixpoint map_run (m : mapv) (ops : list mop) : mapv * list res :=
  match ops with
  | [] => (m, [])
  | o :: ops' => let '(m1, r) := map_step m o in let '(m2, rs) := map_run m1 ops' in (m2, r :: rs)
  end.
Fixpoint fmap_run (f : fmap) (n : bool) (ops : list mop) : list (fmap * bool * mop) :=
  match ops with
  | [] => []
  | o :: ops' => (f, n, o) :: let '(f1, n1) := fmap_step f n o in fmap_run f1 n1 ops'
  end.

Lemma map_history_refines ops : forall m f n, map_abs m f n ->
  Forall2 (fun r '(f, n, o) => spec_out f o n r) (snd (map_run m ops)) (fmap_run f n ops) /\
  exists f' n', map_abs (fst (map_run m ops)) f' n'.
Proof.
  induction ops as [|o ops IH]; intros m f n A; simpl.
  - split; [constructor|eauto].
  - pose proof (map_step_refines m f n o A) as H.
    destruct (map_step m o) as [m1 r]. destruct (fmap_step f n o) as [f1 n1]. destruct H as (A1 & S1).
    destruct (IH m1 f1 n1 A1) as (F & E). destruct (map_run m1 ops) as [m2 rs]. simpl in *.
    split; auto.
Qed.

(* ---------- compile-time rejections ---------- *)
Lemma ct_index_sound k i : gomacro_rejects_index k i = true -> go_rejects_index k i = true.
Proof.
  destruct k, i as [c|]; simpl; try discriminate. unfold in_range. intros H.
  apply negb_true_iff in H. apply andb_false_iff in H. apply orb_true_iff.
  destruct H as [H|H]; [left; apply Z.leb_gt in H; apply Z.ltb_lt; lia|right; apply Z.ltb_ge in H; apply Z.leb_le; lia].
Qed.

Lemma ct_slice_sound k lo hi max : gomacro_rejects_slice k lo hi max = true -> go_rejects_slice k lo hi max = true.
Proof.
  unfold gomacro_rejects_slice, go_rejects_slice. intros H.
  repeat rewrite orb_true_iff in H. destruct H as [[[H|H]|H]|H]; try (rewrite H; repeat rewrite orb_true_r; reflexivity).
  destruct (neg_const lo) eqn:N1; [reflexivity|]. destruct (neg_const hi) eqn:N2; [reflexivity|].
  destruct (neg_const max) eqn:N3; [reflexivity|]. simpl.
  destruct k; try discriminate.
  destruct lo as [l|], hi as [h|]; try discriminate; simpl in *;
    apply negb_true_iff in H; unfold bounds_ok in H;
    repeat rewrite andb_false_iff in H; repeat rewrite Z.leb_gt in H;
    repeat rewrite orb_true_iff; repeat rewrite Z.ltb_lt;
    try apply Z.ltb_ge in N1; try apply Z.ltb_ge in N2; destruct max; simpl; try lia.
Qed.

(* ---------- arrays are values ---------- *)
Lemma array_assign_copies st d a i v : d <> a -> (d < length (arrs st))%nat ->
  let st1 := fst (step st (OArrAssign d a)) in
  let st2 := fst (step st1 (OArrSet d i v)) in
  get_arr st1 d = get_arr st a /\ get_arr st2 a = get_arr st a.
Proof.
  intros N L. simpl. split.
  - apply get_set_arr_eq; auto.
  - destruct (in_range i (Z.of_nat (length (get_arr (set_arr st d (get_arr st a)) d)))); simpl;
      repeat rewrite get_set_arr_neq by auto; reflexivity.
Qed.

(* C08 — allocation at every EVALUATION of an allocating expression (fast/compositelit.go compositeLitStruct with no
   elements, and likewise new(T), make, &T{...}, []T{...}, map literals): the compiled closure must create a new
   variable each time it runs.
       func (c *Comp) compositeLitStruct(t xr.Type, node *ast.CompositeLit) *Expr {
           if n == 0 { return exprX1(t, func(env *Env) xr.Value { return xr.New(t).Elem() }) }
   Compilation happens once per source occurrence (site), the returned closure runs once per evaluation.
   Heap = list of cells; a variable is its index.  Definitions only (no proofs). *)
From Coq Require Import List Arith.
Import ListNotations.

Definition heap := list nat.
Definition alloc (h : heap) : heap * nat := (h ++ [0], length h).       (* xr.New(t).Elem(): a new zero variable *)
Fixpoint write (h : heap) (l v : nat) : heap :=
  match h, l with
  | [], _ => []
  | _ :: t, O => v :: t
  | x :: t, S l' => x :: write t l' v
  end.
Definition readc (h : heap) (l : nat) : nat := nth l h 0.

Definition code := heap -> heap * nat.     (* a compiled expression: runs on the heap, yields a variable *)

(* as written: the closure allocates *)
Definition compile_zero_lit (h : heap) : heap * code := (h, fun h' => alloc h').
(* the variant: the zero value is made while compiling and the closure returns that same variable *)
Definition compile_zero_lit_hoisted (h : heap) : heap * code :=
  let '(h1, l) := alloc h in (h1, fun h' => (h', l)).

(* the site is evaluated n times (loop body, function called n times), the results are kept *)
Fixpoint eval_n (c : code) (n : nat) (h : heap) : heap * list nat :=
  match n with
  | O => (h, [])
  | S k => let '(h1, l) := c h in let '(h2, ls) := eval_n c k h1 in (h2, l :: ls)
  end.

Definition run_site (compile : heap -> heap * code) (n : nat) (h : heap) : heap * list nat :=
  let '(h0, c) := compile h in eval_n c n h0.

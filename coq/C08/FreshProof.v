(* C08 — lemmas about allocation sites (FreshModel.v). *)
From Coq Require Import List Arith Lia.
From Verif Require Import C08.FreshModel.
Import ListNotations.

Lemma eval_alloc : forall n h, eval_n (fun h' => alloc h') n h = (h ++ repeat 0 n, seq (length h) n).
Proof.
  induction n as [|n IH]; intros h; simpl.
  - rewrite app_nil_r. reflexivity.
  - rewrite IH. rewrite app_length. simpl. rewrite Nat.add_1_r. rewrite <- app_assoc. reflexivity.
Qed.

Lemma read_write_other : forall h l l' v, l <> l' -> readc (write h l v) l' = readc h l'.
Proof.
  unfold readc. induction h as [|x t IH]; intros l l' v N; simpl.
  - reflexivity.
  - destruct l, l'; simpl; auto; try lia.
Qed.

Lemma read_write_same : forall h l v, l < length h -> readc (write h l v) l = v.
Proof.
  unfold readc. induction h as [|x t IH]; intros l v L; simpl in *; [lia|].
  destruct l; simpl; auto. apply IH. lia.
Qed.

(* n evaluations of one element-less literal: n pairwise distinct NEW variables, and a write through one of them is not
   seen through any other *)
Lemma zero_lit_fresh : forall n h h1 ls, run_site compile_zero_lit n h = (h1, ls) ->
  length ls = n /\ NoDup ls /\ (forall l, In l ls -> length h <= l < length h1) /\
  (forall i j v, i < n -> j < n -> i <> j ->
     readc (write h1 (nth j ls 0) v) (nth i ls 0) = readc h1 (nth i ls 0)) /\
  (forall j v, j < n -> readc (write h1 (nth j ls 0) v) (nth j ls 0) = v).
Proof.
  intros n h h1 ls H. unfold run_site, compile_zero_lit in H. rewrite eval_alloc in H. inversion H; subst; clear H.
  split; [apply seq_length|]. split; [apply seq_NoDup|]. split; [|split].
  - intros l I. apply in_seq in I. rewrite app_length, repeat_length. lia.
  - intros i j v Hi Hj N. apply read_write_other. rewrite !seq_nth by auto. lia.
  - intros j v Hj. apply read_write_same. rewrite seq_nth by auto. rewrite app_length, repeat_length. lia.
Qed.

(* the hoisted variant: two evaluations give the same variable; the write through the first is seen through the second *)
Lemma zero_lit_hoisted_refuted : exists n h h1 ls i j v,
  run_site compile_zero_lit_hoisted n h = (h1, ls) /\ i < n /\ j < n /\ i <> j /\
  nth i ls 0 = nth j ls 0 /\ readc (write h1 (nth j ls 0) v) (nth i ls 0) <> readc h1 (nth i ls 0).
Proof.
  exists 2, [], [0], [0; 0], 0, 1, 7. vm_compute. repeat split; auto; discriminate.
Qed.

(* C08 — property theorems only.  The model is the Go-specification side (gomacro runs these operations through
   package reflect) plus gomacro's own compile-time logic for constant indices: hence the suffix _partial on the
   statements that would need a model of reflect to be about gomacro itself; the correspondence run ties them to
   the real interpreter and to compiled Go. *)
From Coq Require Import List Arith ZArith Bool.
From Verif Require Import C08.Model C08.Proof C08.FreshModel C08.FreshProof.
Import ListNotations.
Open Scope Z_scope.

(* s[lo:hi:max] (2-index: max = cap s) succeeds iff 0 <= lo <= hi <= max <= cap(s) ... *)
Theorem C08_slice_bounds_iff : forall s lo hi max,
  (exists r, slice3 s lo hi max = Some r) <-> 0 <= lo <= hi /\ hi <= max <= s_cap s.
Proof. exact slice3_iff. Qed.
Print Assumptions C08_slice_bounds_iff.
(* ... and then shares the array with offset off+lo, length hi-lo, capacity max-lo *)
Theorem C08_slice_result : forall s lo hi max r, slice3 s lo hi max = Some r ->
  s_arr r = s_arr s /\ s_off r = s_off s + lo /\ s_len r = hi - lo /\ s_cap r = max - lo.
Proof. exact slice3_result. Qed.
Print Assumptions C08_slice_result.

(* append within capacity keeps the array: a later store through the result is visible through EVERY slice that
   names the same cell of that array *)
Theorem C08_append_alias_in_place : forall st s vs c a, s_arr s = Some a -> s_len s + Z.of_nat (length vs) <= s_cap s ->
  let '(st', r) := sl_append st s vs c in
  s_arr r = Some a /\ s_off r = s_off s /\ s_len r = s_len s + Z.of_nat (length vs) /\ s_cap r = s_cap s /\
  length (arrs st') = length (arrs st) /\ length (get_arr st' a) = length (get_arr st a).
Proof. exact append_in_place. Qed.
Print Assumptions C08_append_alias_in_place.
Theorem C08_append_alias : forall st r t a j k v st',
  s_arr r = Some a -> s_arr t = Some a -> wf_slice st r -> wf_slice st t ->
  sl_set st r j v = Some st' -> in_range k (s_len t) = true -> s_off t + k = s_off r + j ->
  sl_get st' t k = Some v.
Proof. exact set_get_alias. Qed.
Print Assumptions C08_append_alias.
(* append beyond capacity moves to a fresh array: no existing array changes, stores through the result are not
   visible through slices of the old array *)
Theorem C08_append_realloc : forall st s vs c, s_cap s < s_len s + Z.of_nat (length vs) ->
  let '(st', r) := sl_append st s vs c in
  s_arr r = Some (length (arrs st)) /\ s_off r = 0 /\ s_len r = s_len s + Z.of_nat (length vs) /\
  s_len r <= s_cap r /\ (forall b, (b < length (arrs st))%nat -> get_arr st' b = get_arr st b).
Proof. exact append_realloc. Qed.
Print Assumptions C08_append_realloc.
Theorem C08_append_realloc_no_alias : forall st r t a b j k v st',
  s_arr r = Some a -> s_arr t = Some b -> a <> b -> sl_set st r j v = Some st' -> sl_get st' t k = sl_get st t k.
Proof. exact set_get_other. Qed.
Print Assumptions C08_append_realloc_no_alias.

(* copy is memmove: element i of dst afterwards is element i of src BEFORE the copy, also when dst and src
   overlap in the same array, for every i below min(len dst, len src) *)
Theorem C08_copy_overlap_memmove : forall st dst src a b i,
  s_arr dst = Some a -> s_arr src = Some b -> wf_slice st dst -> wf_slice st src ->
  let n := Z.min (s_len dst) (s_len src) in
  0 <= i < n ->
  let '(st', m) := sl_copy st dst src in
  m = n /\ sl_get st' dst i = sl_get st src i.
Proof. exact copy_memmove. Qed.
Print Assumptions C08_copy_overlap_memmove.

(* every history of make / nil / insert / lookup / comma-ok lookup / delete / len on a map variable answers as
   the abstract finite map does: lookups return the last value stored and not deleted (zero value and false
   otherwise), len counts the defined keys once, a store into the nil map panics and nothing else does *)
Theorem C08_map_assoc_refinement : forall ops m f n, map_abs m f n ->
  Forall2 (fun r '(f, n, o) => spec_out f o n r) (snd (map_run m ops)) (fmap_run f n ops) /\
  exists f' n', map_abs (fst (map_run m ops)) f' n'.
Proof. exact map_history_refines. Qed.
Print Assumptions C08_map_assoc_refinement.

(* arrays are values: after d = a, stores into d leave a unchanged *)
Theorem C08_array_assign_copies : forall st d a i v, d <> a -> (d < length (arrs st))%nat ->
  let st1 := fst (step st (OArrAssign d a)) in
  let st2 := fst (step st1 (OArrSet d i v)) in
  get_arr st1 d = get_arr st a /\ get_arr st2 a = get_arr st a.
Proof. exact array_assign_copies. Qed.
Print Assumptions C08_array_assign_copies.

(* gomacro's compile-time rejections of constant indices / slice bounds never reject what Go accepts *)
Theorem C08_const_index_reject_sound : forall k i, gomacro_rejects_index k i = true -> go_rejects_index k i = true.
Proof. exact ct_index_sound. Qed.
Print Assumptions C08_const_index_reject_sound.
Theorem C08_const_slice_reject_sound : forall k lo hi max,
  gomacro_rejects_slice k lo hi max = true -> go_rejects_slice k lo hi max = true.
Proof. exact ct_slice_sound. Qed.
Print Assumptions C08_const_slice_reject_sound.

(* ---------------- non-vacuity ---------------- *)
(* s = make(5,8)->[1..5]; t = s[1:3]; u = append(t, 9) in place: visible as s[3]; v = append(s[:5:5], 7) reallocates *)
Definition ex_ops : list op :=
  [OLit 0 [1;2;3;4;5]; OSlice 1 0 1 3 None; OAppend 2 1 [9] 0; OGet 0 3; OSet 2 0 42; OGet 0 1;
   OSlice 3 0 0 5 (Some 5); OAppend 3 3 [7] 10; OSet 3 0 77; OGet 0 0; OLen 3; OCap 3; OCopy 0 1; OGet 0 0; OGet 0 5].
Example C08_ex_run : run (init 0 0 4 1) ex_ops =
  [RUnit; RUnit; RUnit; RVal 9; RUnit; RVal 42; RUnit; RUnit; RUnit; RVal 1; RVal 6; RVal 10; RVal 2; RVal 42; RPanic PIndex].
Proof. vm_compute. reflexivity. Qed.
(* overlapping copy: copy(a[1:], a[:4]) on [1,2,3,4,5] gives [1,1,2,3,4]; a forward loop would give [1,1,1,1,1] *)
Example C08_ex_overlap : run (init 0 0 3 0) [OLit 0 [1;2;3;4;5]; OSlice 1 0 1 5 None; OSlice 2 0 0 4 None; OCopy 1 2; OGet 0 2; OGet 0 4]
  = [RUnit; RUnit; RUnit; RVal 4; RVal 2; RVal 4] /\ copy_forward [1;2;3;4;5] 1 0 4 = [1;1;1;1;1].
Proof. vm_compute. split; reflexivity. Qed.
Example C08_ex_map : snd (map_run None [MGet 1; MLen; MDel 1; MMake; MSet 1 10; MSet 2 20; MSet 1 11; MGetOk 1; MDel 2; MGetOk 2; MLen; MNil; MSet 3 3])
  = [RVal 0; RVal 0; RUnit; RUnit; RUnit; RUnit; RUnit; RVal2 11 true; RUnit; RVal2 0 false; RVal 1; RUnit; RPanic PNilMap].
Proof. vm_compute. reflexivity. Qed.
Example C08_ex_ct : gomacro_rejects_index (KArray 3) (Some 5) = false /\ go_rejects_index (KArray 3) (Some 5) = true /\
  gomacro_rejects_slice KSlice (Some (-1)) None None = true /\ gomacro_rejects_index (KConstString 3) (Some 3) = true.
Proof. vm_compute. repeat split; reflexivity. Qed.

(* ---- allocation sites (C08/FreshModel.v: fast/compositelit.go compositeLitStruct without elements; the same scheme
   holds for new, make and the other literals) ----
   n evaluations of ONE source occurrence of an element-less struct literal yield n pairwise distinct NEW variables;
   a write through one of them is read back through it and through no other *)
Theorem C08_zero_literal_fresh_per_evaluation : forall n h h1 ls, run_site compile_zero_lit n h = (h1, ls) ->
  (length ls = n /\ NoDup ls /\ (forall l, In l ls -> length h <= l < length h1) /\
  (forall i j v, i < n -> j < n -> i <> j ->
     readc (write h1 (nth j ls 0) v) (nth i ls 0) = readc h1 (nth i ls 0)) /\
  (forall j v, j < n -> readc (write h1 (nth j ls 0) v) (nth j ls 0) = v))%nat.
Proof. exact zero_lit_fresh. Qed.
Print Assumptions C08_zero_literal_fresh_per_evaluation.

(* the variant that makes the zero value once, while compiling, is refuted: two evaluations return the same variable *)
Theorem C08_hoisted_zero_literal_refuted : exists n h h1 ls i j v,
  (run_site compile_zero_lit_hoisted n h = (h1, ls) /\ i < n /\ j < n /\ i <> j /\
  nth i ls 0 = nth j ls 0 /\ readc (write h1 (nth j ls 0) v) (nth i ls 0) <> readc h1 (nth i ls 0))%nat.
Proof. exact zero_lit_hoisted_refuted. Qed.
Print Assumptions C08_hoisted_zero_literal_refuted.

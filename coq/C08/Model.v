(* C08 — Go-spec model of slices (backing arrays + (array, off, len, cap) headers), 2/3-index slicing with Go's
   bound rules for slices / arrays / strings, append (in place iff len+n <= cap, else a fresh array whose capacity
   is an input: the growth factor is abstract), copy as memmove, maps as association lists including the nil map,
   arrays as values, and gomacro's own compile-time checks of constant indices (fast/index.go, fast/slice.go).
   gomacro executes these operations through package reflect; this model is the Go-specification side plus
   gomacro's compile-time logic.  Definitions only (no proofs). *)
From Coq Require Import List Arith ZArith Bool Lia.
Import ListNotations.
Open Scope Z_scope.

(* ---------- store ---------- *)
Record slice := mkSlice { s_arr : option nat (* None: nil slice *); s_off : Z; s_len : Z; s_cap : Z }.
Definition nil_slice := mkSlice None 0 0 0.

Definition mapv := option (list (Z * Z)).   (* None: nil map; keys unique, most recent first is irrelevant *)

Record store := mkStore {
  arrs : list (list Z);        (* backing arrays by identity *)
  slices : list slice;         (* slice variables *)
  maps : list mapv;            (* map variables *)
  avars : list (list Z)        (* array variables (values) *)
}.

Inductive panic := PIndex | PSliceBounds | PNilMap | PNilPtr | PMakeLen.
Inductive res := RUnit | RVal (v : Z) | RVal2 (v : Z) (ok : bool) | RPanic (p : panic) | RBadOp.

Fixpoint updZ {A} (l : list A) (i : nat) (x : A) : list A :=
  match l, i with
  | [], _ => []
  | _ :: l', O => x :: l'
  | y :: l', S i' => y :: updZ l' i' x
  end.

Definition get_slice (st : store) (s : nat) : slice := nth s (slices st) nil_slice.
Definition set_slice (st : store) (s : nat) (v : slice) : store :=
  mkStore (arrs st) (updZ (slices st) s v) (maps st) (avars st).
Definition get_arr (st : store) (a : nat) : list Z := nth a (arrs st) [].
Definition set_arr (st : store) (a : nat) (d : list Z) : store :=
  mkStore (updZ (arrs st) a d) (slices st) (maps st) (avars st).
Definition new_arr (st : store) (d : list Z) : store * nat :=
  (mkStore (arrs st ++ [d]) (slices st) (maps st) (avars st), length (arrs st)).

(* ---------- slicing: Go's rule  0 <= lo <= hi <= max <= cap ---------- *)
Definition bounds_ok (lo hi max cap : Z) : bool :=
  (0 <=? lo) && (lo <=? hi) && (hi <=? max) && (max <=? cap).

(* s[lo:hi:max]; for the 2-index form max = cap(s) *)
Definition slice3 (s : slice) (lo hi max : Z) : option slice :=
  if bounds_ok lo hi max (s_cap s)
  then Some (mkSlice (s_arr s) (s_off s + lo) (hi - lo) (max - lo))
  else None.
Definition slice2 (s : slice) (lo hi : Z) : option slice := slice3 s lo hi (s_cap s).

(* arrays and strings: the operand has length n; an array can be re-sliced up to n (cap = n), a string has no cap *)
Definition slice_array (a : nat) (n lo hi max : Z) : option slice := slice3 (mkSlice (Some a) 0 n n) lo hi max.
Definition slice_string_ok (n lo hi : Z) : bool := bounds_ok lo hi n n.

(* ---------- element access ---------- *)
Definition in_range (i n : Z) : bool := (0 <=? i) && (i <? n).

Definition sl_get (st : store) (s : slice) (i : Z) : option Z :=
  if in_range i (s_len s)
  then match s_arr s with
       | Some a => nth_error (get_arr st a) (Z.to_nat (s_off s + i))
       | None => None
       end
  else None.

Definition sl_set (st : store) (s : slice) (i v : Z) : option store :=
  if in_range i (s_len s)
  then match s_arr s with
       | Some a => Some (set_arr st a (updZ (get_arr st a) (Z.to_nat (s_off s + i)) v))
       | None => None
       end
  else None.

(* the elements s[0..len) *)
Definition sl_elems (st : store) (s : slice) : list Z :=
  match s_arr s with
  | Some a => firstn (Z.to_nat (s_len s)) (skipn (Z.to_nat (s_off s)) (get_arr st a))
  | None => []
  end.

(* write vs into array d starting at position p *)
Fixpoint blit (d : list Z) (p : nat) (vs : list Z) : list Z :=
  match vs with
  | [] => d
  | v :: vs' => blit (updZ d p v) (S p) vs'
  end.

(* ---------- append(s, vs...): in place iff len+n <= cap; otherwise a fresh array of capacity newcap ---------- *)
Definition sl_append (st : store) (s : slice) (vs : list Z) (newcap : Z) : store * slice :=
  let n := Z.of_nat (length vs) in
  if s_len s + n <=? s_cap s
  then match s_arr s with
       | Some a => (set_arr st a (blit (get_arr st a) (Z.to_nat (s_off s + s_len s)) vs),
                    mkSlice (Some a) (s_off s) (s_len s + n) (s_cap s))
       | None => (st, s)   (* nil slice, nothing appended *)
       end
  else
    let c := Z.max newcap (s_len s + n) in
    let d := sl_elems st s ++ vs ++ repeat 0 (Z.to_nat (c - (s_len s + n))) in
    let '(st', a) := new_arr st d in
    (st', mkSlice (Some a) 0 (s_len s + n) c).

(* ---------- copy(dst, src) = memmove of min(len dst, len src) elements ---------- *)
Definition sl_copy (st : store) (dst src : slice) : store * Z :=
  let n := Z.min (s_len dst) (s_len src) in
  let vs := firstn (Z.to_nat n) (sl_elems st src) in      (* all source elements are read first *)
  match s_arr dst with
  | Some a => (set_arr st a (blit (get_arr st a) (Z.to_nat (s_off dst)) vs), n)
  | None => (st, n)
  end.

(* what a forward element-by-element loop would do (the seeded mutation): reads see earlier writes *)
Fixpoint copy_forward (d : list Z) (dp sp : nat) (n : nat) : list Z :=
  match n with
  | O => d
  | S n' => copy_forward (updZ d dp (nth sp d 0)) (S dp) (S sp) n'
  end.

(* ---------- maps ---------- *)
Fixpoint al_get (m : list (Z * Z)) (k : Z) : option Z :=
  match m with
  | [] => None
  | (k', v) :: m' => if k' =? k then Some v else al_get m' k
  end.
Fixpoint al_del (m : list (Z * Z)) (k : Z) : list (Z * Z) :=
  match m with
  | [] => []
  | (k', v) :: m' => if k' =? k then al_del m' k else (k', v) :: al_del m' k
  end.
Definition al_set (m : list (Z * Z)) (k v : Z) : list (Z * Z) := (k, v) :: al_del m k.

Inductive mop := MMake | MNil | MSet (k v : Z) | MGet (k : Z) | MGetOk (k : Z) | MDel (k : Z) | MLen.

Definition map_step (m : mapv) (o : mop) : mapv * res :=
  match o with
  | MMake => (Some [], RUnit)
  | MNil => (None, RUnit)
  | MSet k v => match m with Some l => (Some (al_set l k v), RUnit) | None => (None, RPanic PNilMap) end
  | MGet k => (m, RVal (match m with Some l => match al_get l k with Some v => v | None => 0 end | None => 0 end))
  | MGetOk k => (m, match m with
                    | Some l => match al_get l k with Some v => RVal2 v true | None => RVal2 0 false end
                    | None => RVal2 0 false end)
  | MDel k => (match m with Some l => Some (al_del l k) | None => None end, RUnit)
  | MLen => (m, RVal (match m with Some l => Z.of_nat (length l) | None => 0 end))
  end.

(* the abstract side: a total function from keys to optional values *)
Definition fmap := Z -> option Z.
Definition fmap_step (f : fmap) (isnil : bool) (o : mop) : fmap * bool :=
  match o with
  | MMake => (fun _ => None, false)
  | MNil => (fun _ => None, true)
  | MSet k v => if isnil then (f, isnil) else (fun x => if x =? k then Some v else f x, isnil)
  | MDel k => (fun x => if x =? k then None else f x, isnil)
  | _ => (f, isnil)
  end.

(* ---------- gomacro's compile-time checks of constant indices (what the code rejects while compiling) ---------- *)
Inductive ckind := KSlice | KArray (n : Z) | KPtrArray (n : Z) | KConstString (n : Z) | KString.

(* fast/index.go vectorIndex/stringIndex: a constant index is only checked for a constant string operand *)
Definition gomacro_rejects_index (k : ckind) (i : option Z) : bool :=
  match k, i with
  | KConstString n, Some c => negb (in_range c n)
  | _, _ => false
  end.
(* Encoding of a bound: Some c = the constant c; None = NOT a constant (a variable operand).  An absent bound is given as
   the constant it stands for - lo: 0, hi: the length when the kind has a known length (array, pointer to array,
   constant string) - and as None otherwise (absent max, absent hi of a slice / non-constant string).
   fast/slice.go sliceIndex: a negative constant bound is rejected.  SliceExpr folds (EvalConst) - and so rejects
   out-of-range bounds at compile time - only when the string AND every bound that is present are constants:
   "abc"[4:] is rejected, "abc"[4:i] and "abc"[i:5] are compiled and panic at run time. *)
Definition neg_const (o : option Z) : bool := match o with Some c => c <? 0 | None => false end.
Definition gomacro_rejects_slice (k : ckind) (lo hi max : option Z) : bool :=
  neg_const lo || neg_const hi || neg_const max ||
  match k, lo, hi with
  | KConstString n, Some l, Some h => negb (bounds_ok l h n n)
  | _, _, _ => false
  end.

(* the Go rule (go/types): constant index < 0, or >= the length of an array / pointer to array / constant string;
   constant slice bounds negative, decreasing, or beyond the length of an array or constant string *)
Definition len_known (k : ckind) : option Z :=
  match k with KArray n | KPtrArray n | KConstString n => Some n | _ => None end.
Definition go_rejects_index (k : ckind) (i : option Z) : bool :=
  match i with
  | Some c => (c <? 0) || match len_known k with Some n => n <=? c | None => false end
  | None => false
  end.
Definition over_len (k : ckind) (o : option Z) : bool :=
  match o, len_known k with Some c, Some n => n <? c | _, _ => false end.
Definition decreasing (a b : option Z) : bool := match a, b with Some x, Some y => y <? x | _, _ => false end.
Definition go_rejects_slice (k : ckind) (lo hi max : option Z) : bool :=
  neg_const lo || neg_const hi || neg_const max ||
  over_len k lo || over_len k hi || over_len k max ||
  decreasing lo hi || decreasing hi max || decreasing lo max.

(* ======================= operations of the generated programs ======================= *)
Inductive op :=
| OMake (s : nat) (len cap : Z)                 (* s = make([]T, len, cap) *)
| ONil (s : nat)                                (* s = nil *)
| OLit (s : nat) (vs : list Z)                  (* s = []T{...} *)
| OSlice (d s : nat) (lo hi : Z) (max : option Z)   (* d = s[lo:hi] or s[lo:hi:max] *)
| OSliceArr (d a : nat) (lo hi : Z) (max : option Z)  (* d = arr[lo:hi(:max)]: arr is array variable a, aliased *)
| OGet (s : nat) (i : Z)
| OSet (s : nat) (i v : Z)
| OLen (s : nat) | OCap (s : nat)
| OAppend (d s : nat) (vs : list Z) (newcap : Z)    (* d = append(s, vs...); newcap = cap of the result as observed *)
| OCopy (d s : nat)
| OArrAssign (d a : nat)                        (* array variables: d = a (copies) *)
| OArrSet (a : nat) (i v : Z) | OArrGet (a : nat) (i : Z)
| OMap (m : nat) (o : mop).

(* array variables that were sliced live in the arrs table: avars holds the identity of their backing array *)
Definition arr_of_var (st : store) (a : nat) : list Z := nth a (avars st) [].
Definition set_avar (st : store) (a : nat) (d : list Z) : store :=
  mkStore (arrs st) (slices st) (maps st) (updZ (avars st) a d).

(* array variable a is stored as backing array number a of [arrs] (the first [length avars] arrays are the array
   variables themselves, so that slices of them alias the variable) *)
Definition step (st : store) (o : op) : store * res :=
  match o with
  | OMake s len cap =>
      if (0 <=? len) && (len <=? cap)
      then let '(st', a) := new_arr st (repeat 0 (Z.to_nat cap)) in
           (set_slice st' s (mkSlice (Some a) 0 len cap), RUnit)
      else (st, RPanic PMakeLen)
  | ONil s => (set_slice st s nil_slice, RUnit)
  | OLit s vs =>
      let '(st', a) := new_arr st vs in
      (set_slice st' s (mkSlice (Some a) 0 (Z.of_nat (length vs)) (Z.of_nat (length vs))), RUnit)
  | OSlice d s lo hi max =>
      let sl := get_slice st s in
      match slice3 sl lo hi (match max with Some m => m | None => s_cap sl end) with
      | Some r => (set_slice st d r, RUnit)
      | None => (st, RPanic PSliceBounds)
      end
  | OSliceArr d a lo hi max =>
      let n := Z.of_nat (length (get_arr st a)) in
      match slice_array a n lo hi (match max with Some m => m | None => n end) with
      | Some r => (set_slice st d r, RUnit)
      | None => (st, RPanic PSliceBounds)
      end
  | OGet s i => match sl_get st (get_slice st s) i with Some v => (st, RVal v) | None => (st, RPanic PIndex) end
  | OSet s i v => match sl_set st (get_slice st s) i v with Some st' => (st', RUnit) | None => (st, RPanic PIndex) end
  | OLen s => (st, RVal (s_len (get_slice st s)))
  | OCap s => (st, RVal (s_cap (get_slice st s)))
  | OAppend d s vs newcap =>
      let '(st', r) := sl_append st (get_slice st s) vs newcap in (set_slice st' d r, RUnit)
  | OCopy d s => let '(st', n) := sl_copy st (get_slice st d) (get_slice st s) in (st', RVal n)
  | OArrAssign d a => (set_arr st d (get_arr st a), RUnit)
  | OArrSet a i v =>
      if in_range i (Z.of_nat (length (get_arr st a)))
      then (set_arr st a (updZ (get_arr st a) (Z.to_nat i) v), RUnit) else (st, RPanic PIndex)
  | OArrGet a i =>
      match (if in_range i (Z.of_nat (length (get_arr st a))) then nth_error (get_arr st a) (Z.to_nat i) else None) with
      | Some v => (st, RVal v) | None => (st, RPanic PIndex) end
  | OMap m o =>
      let '(mv, r) := map_step (nth m (maps st) None) o in
      (mkStore (arrs st) (slices st) (updZ (maps st) m mv) (avars st), r)
  end.

Definition is_panic (r : res) : bool := match r with RPanic _ => true | _ => false end.

(* a program stops at its first panic *)
Fixpoint run (st : store) (ops : list op) : list res :=
  match ops with
  | [] => []
  | o :: ops' => let '(st', r) := step st o in if is_panic r then [r] else r :: run st' ops'
  end.

(* nA array variables of length alen (backing arrays 0..nA-1), nS slice variables (nil), nM map variables (nil) *)
Definition init (nA : nat) (alen : nat) (nS nM : nat) : store :=
  mkStore (repeat (repeat 0 alen) nA) (repeat nil_slice nS) (repeat None nM) [].

(* ---------- correspondence ---------- *)
Definition panic_eqb (a b : panic) : bool :=
  match a, b with
  | PIndex, PIndex | PSliceBounds, PSliceBounds | PNilMap, PNilMap | PNilPtr, PNilPtr | PMakeLen, PMakeLen => true
  | _, _ => false
  end.
Definition res_eqb (a b : res) : bool :=
  match a, b with
  | RUnit, RUnit => true
  | RVal x, RVal y => x =? y
  | RVal2 x p, RVal2 y q => (x =? y) && Bool.eqb p q
  | RPanic p, RPanic q => panic_eqb p q
  | _, _ => false
  end.
Fixpoint ress_eqb (a b : list res) : bool :=
  match a, b with
  | [], [] => true
  | x :: a', y :: b' => res_eqb x y && ress_eqb a' b'
  | _, _ => false
  end.

(* compile-time cases: container kind, constant (Some) or variable (None) indices, what gomacro and go/types did *)
Inductive ctcase :=
| CTIndex (k : ckind) (i : option Z) (gomacro_rejected go_rejected : bool)
| CTSlice (k : ckind) (lo hi max : option Z) (gomacro_rejected go_rejected : bool).

Definition ct_ok (c : ctcase) : bool :=
  match c with
  | CTIndex k i g t => Bool.eqb (gomacro_rejects_index k i) g && Bool.eqb (go_rejects_index k i) t
  | CTSlice k lo hi max g t => Bool.eqb (gomacro_rejects_slice k lo hi max) g && Bool.eqb (go_rejects_slice k lo hi max) t
  end.

Inductive case :=
| CRun (idx : Z) (nA alen nS nM : nat) (ops : list op) (observed : list res)
| CCt (idx : Z) (c : ctcase).

Definition case_idx (c : case) : Z := match c with CRun i _ _ _ _ _ _ => i | CCt i _ => i end.
Definition case_ok (c : case) : bool :=
  match c with
  | CRun _ nA alen nS nM ops obs => ress_eqb (run (init nA alen nS nM) ops) obs
  | CCt _ c => ct_ok c
  end.
Definition mismatches (cs : list case) : list Z := map case_idx (filter (fun c => negb (case_ok c)) cs).

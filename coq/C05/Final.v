(* C05 — lemmas, part 5: the function-level statements. *)
From Coq Require Import List ZArith Bool Arith Lia.
From Verif Require Import MiniGo.Syntax MiniGo.Sem MiniGo.Fast C05.Proof C05.Sim C05.Switch C05.Correct.
Import ListNotations.
Open Scope nat_scope.

Lemma steps_run code s s' m : steps code s s' -> step code s' = Halt m -> exists fuel, run fuel code s = Some m.
Proof.
  induction 1; intros Hh.
  - exists 1. simpl. rewrite Hh. reflexivity.
  - destruct (IHsteps Hh) as (f & Hf). exists (S f). simpl. rewrite H. exact Hf.
Qed.

Lemma reach_nops code k : forall b st tr, at_code code b (repeat INop k) -> reach code (b, st, tr) (b + k, st, tr).
Proof.
  induction k as [|k IH]; intros b st tr H; simpl in *.
  - rewrite Nat.add_0_r. apply reach_refl.
  - apply at_code_cons in H as [H1 H2]. eapply reach_step; [exact H1|reflexivity|].
    replace (b + S k) with (b + 1 + k) by lia. apply IH. exact H2.
Qed.

Definition finished (o : outcome) : Prop := o = ONormal \/ o = ORet.

(* Forward simulation at function level, for every program without goto and every fuel:
   if the reference semantics terminates (normally or by return), the compiled code run by the executor halts with
   the same event trace, and the final store of the semantics is the env stack of the machine below the k frames
   still pushed at the return statement (k = 0 when the function body ends normally). *)
Theorem compile_correct_partial : forall nres body fuel o st' tr' code,
  nogoto body = true ->
  exec_func fuel nres body = Some (o, st', tr') -> finished o ->
  compile_func nres body = Some code ->
  exists fuel' m, run fuel' code (init_state nres) = Some m /\ m_tr m = tr' /\ exists k, skipn k (m_env m) = st'.
Proof.
  intros nres body fuel o st' tr' code Hng Hex Hfin Hc.
  unfold compile_func in Hc. inv_bind' Hc. inversion Hc; subst. clear Hc.
  assert (Hat : at_code (repeat INop nres ++ c) nres c).
  { exists (repeat INop nres), []. rewrite app_nil_r, repeat_length. auto. }
  assert (Hnops : at_code (repeat INop nres ++ c) 0 (repeat INop nres)).
  { exists [], c. auto. }
  destruct (sim_all fuel) as (_ & Hb & _ & _).
  assert (H := Hb _ _ _ _ _ _ _ Hex Hng _ _ _ _ Hc0 Hat).
  assert (Hpre := reach_nops _ _ 0 [repeat 0%Z nres] [] Hnops). simpl in Hpre.
  assert (Hlen : length (repeat INop nres ++ c) = nres + size body).
  { rewrite app_length, repeat_length, (compile_size _ _ _ _ _ Hc0). reflexivity. }
  destruct Hfin as [-> | ->]; unfold sim, exits in H.
  - assert (R := reach_trans _ _ _ _ Hpre H). destruct (R (fun _ => 0%Z) []) as (tg & ips & S).
    assert (Hh : step (repeat INop nres ++ c) (mkM (nres + size body) st' tg tr' ips)
                 = Halt (mkM (nres + size body) st' tg tr' ips)).
    { unfold step. rewrite <- Hlen.
      assert (E : nth_error (repeat INop nres ++ c) (length (repeat INop nres ++ c)) = None)
        by (apply nth_error_None; lia).
      rewrite E, Nat.eqb_refl. reflexivity. }
    destruct (steps_run _ _ _ _ S Hh) as (f & Hf). exists f, (mkM (nres + size body) st' tg tr' ips).
    repeat split; [exact Hf|]. exists 0. reflexivity.
  - destruct H as (ipr & stm & k & Hr & Hn & Hk).
    assert (R := reach_trans _ _ _ _ Hpre Hr). destruct (R (fun _ => 0%Z) []) as (tg & ips & S).
    assert (Hh : step (repeat INop nres ++ c) (mkM ipr stm tg tr' ips) = Halt (mkM ipr stm tg tr' (ipr :: ips))).
    { unfold step. rewrite Hn. reflexivity. }
    destruct (steps_run _ _ _ _ S Hh) as (f & Hf). exists f, (mkM ipr stm tg tr' (ipr :: ips)).
    repeat split; [exact Hf|]. exists k. exact Hk.
Qed.

(* switch2.go: the jump table installed in the first slot selects exactly the clause the linear scan selects *)
Theorem switch_gotomap_equiv : forall v st cs hb t,
  zassoc v (gotomap hb cs true) = Some t ->
  exists hb', case_ip v st hb cs = Some hb' /\ t = hb' + 1.
Proof. exact gotomap_sound. Qed.

(* a miss in the table falls to the linear scan: nothing is lost *)
Theorem switch_gotomap_miss_scans : forall code ip id tbl st tg tr ips,
  nth_error code ip = Some (IGotoMap id tbl) -> zassoc (tg id) tbl = None ->
  step code (mkM ip st tg tr ips) = Step (mkM (ip + 1) st tg tr (ip :: ips)).
Proof. intros. unfold step. rewrite H, H0. reflexivity. Qed.

(* Header variables are allocated once per loop: the compiled for statement with header declarations is
   PushEnv ; X ; PopEnv where no loop-internal control transfer re-executes the PushEnv: the back edge goes to
   the condition (after PushEnv and init), `continue` goes to the post statement / condition, `break` to the PopEnv. *)
Theorem scoping_per_loop : forall cx base lbls n init cond post nb body c,
  compile cx base lbls (SFor n init cond post nb body) = Some c -> n <> 0 ->
  exists X cb,
    c = IPush n :: X ++ [IPop] /\
    In (IJmp 0 (base + 1 + length init)) X /\
    (forall i, In i (map csimple init) -> exists k, nth_error X k = Some i /\ k < length init) /\
    let cond_ip := base + 1 + length init in
    let body_ip := cond_ip + (match cond with Some _ => 1 | None => 0 end) in
    let post_ip := body_ip + bsize nb body in
    let brk_ip := post_ip + length post + 1 in
    let cont_ip := match post with [] => cond_ip | _ => post_ip end in
    let cxb := mkFrame (cost nb) None [] :: mkFrame 1 (Some (mkLoop lbls brk_ip (Some cont_ip))) [] :: cx in
    compile cxb (body_ip + cost nb) [] body = Some cb /\
    resolve_break cxb None 0 = Some (cost nb, brk_ip) /\
    resolve_cont cxb None 0 = Some (cost nb, cont_ip) /\
    base < cond_ip /\ base < cont_ip /\ brk_ip = base + size (SFor n init cond post nb body) - 1.
Proof.
  intros cx base lbls n init cond post nb body c Hc Hn. simpl in Hc. inv_bind' Hc. inversion Hc; subst. clear Hc.
  rewrite (cost_pos n Hn) in *. unfold wrap at 1. destruct (Nat.eqb_spec n 0) as [|_]; [contradiction|].
  eexists _, c0. split; [reflexivity|]. split.
  { apply in_or_app. right. apply in_or_app. right. apply in_or_app. right. apply in_or_app. right. left. reflexivity. }
  split.
  { intros i Hi. apply In_nth_error in Hi as (k & Hk). exists k. split.
    - rewrite nth_error_app1; [exact Hk|]. apply nth_error_Some. congruence.
    - rewrite <- (map_length csimple). apply nth_error_Some. congruence. }
  cbv zeta. split; [exact Hc0|]. split; [reflexivity|]. split; [reflexivity|].
  split; [lia|]. split; [destruct post; unfold bsize; lia|].
  simpl size. rewrite (cost_pos n Hn). unfold bsize. destruct cond; lia.
Qed.

(* C05 — lemmas, part 5: the function-level statements. *)
From Coq Require Import List ZArith Bool Arith Lia.
From Verif Require Import MiniGo.Syntax MiniGo.Sem MiniGo.Fast C05.Proof C05.Sim C05.Switch C05.Correct.
Import ListNotations.
Open Scope nat_scope.

Lemma steps_run code s s' m : steps code s s' -> step code s' = Halt m -> exists fuel, run fuel code s = Some m.
Proof.
  induction 1; intros Hh.
  - exists 1. simpl. rewrite Hh. reflexivity.
  - destruct (IHsteps Hh) as (f & Hf). exists (S f). simpl. rewrite H. exact Hf.
Qed.

Lemma reach_nops code k : forall b st tr, at_code code b (repeat INop k) -> reach code (b, st, tr) (b + k, st, tr).
Proof.
  induction k as [|k IH]; intros b st tr H; simpl in *.
  - rewrite Nat.add_0_r. apply reach_refl.
  - apply at_code_cons in H as [H1 H2]. eapply reach_step; [exact H1|reflexivity|].
    replace (b + S k) with (b + 1 + k) by lia. apply IH. exact H2.
Qed.

Definition finished (o : outcome) : Prop := o = ONormal \/ o = ORet.

(* Forward simulation at function level, for every program without goto and every fuel:
   if the reference semantics terminates (normally or by return), the compiled code run by the executor halts with
   the same event trace, and the final store of the semantics is the env stack of the machine below the k frames
   still pushed at the return statement (k = 0 when the function body ends normally). *)
Theorem compile_correct_partial : forall nres body fuel o st' tr' code,
  nogoto body = true ->
  exec_func fuel nres body = Some (o, st', tr') -> finished o ->
  compile_func nres body = Some code ->
  exists fuel' m, run fuel' code (init_state nres) = Some m /\ m_tr m = tr' /\ exists k, skipn k (m_env m) = st'.
Proof.
  intros nres body fuel o st' tr' code Hng Hex Hfin Hc.
  unfold compile_func in Hc. inv_bind' Hc. inversion Hc; subst. clear Hc.
  assert (Hat : at_code (repeat INop nres ++ c) nres c).
  { exists (repeat INop nres), []. rewrite app_nil_r, repeat_length. auto. }
  assert (Hnops : at_code (repeat INop nres ++ c) 0 (repeat INop nres)).
  { exists [], c. auto. }
  destruct (sim_all fuel) as (_ & Hb & _ & _).
  assert (H := Hb _ _ _ _ _ _ _ Hex Hng _ _ _ _ Hc0 Hat).
  assert (Hpre := reach_nops _ _ 0 [repeat 0%Z nres] [] Hnops). simpl in Hpre.
  assert (Hlen : length (repeat INop nres ++ c) = nres + size body).
  { rewrite app_length, repeat_length, (compile_size _ _ _ _ _ Hc0). reflexivity. }
  destruct Hfin as [-> | ->]; unfold sim, exits in H.
  - assert (R := reach_trans _ _ _ _ Hpre H). destruct (R (fun _ => 0%Z) []) as (tg & ips & S).
    assert (Hh : step (repeat INop nres ++ c) (mkM (nres + size body) st' tg tr' ips)
                 = Halt (mkM (nres + size body) st' tg tr' ips)).
    { unfold step. rewrite <- Hlen.
      assert (E : nth_error (repeat INop nres ++ c) (length (repeat INop nres ++ c)) = None)
        by (apply nth_error_None; lia).
      rewrite E, Nat.eqb_refl. reflexivity. }
    destruct (steps_run _ _ _ _ S Hh) as (f & Hf). exists f, (mkM (nres + size body) st' tg tr' ips).
    repeat split; [exact Hf|]. exists 0. reflexivity.
  - destruct H as (ipr & stm & k & Hr & Hn & Hk).
    assert (R := reach_trans _ _ _ _ Hpre Hr). destruct (R (fun _ => 0%Z) []) as (tg & ips & S).
    assert (Hh : step (repeat INop nres ++ c) (mkM ipr stm tg tr' ips) = Halt (mkM ipr stm tg tr' (ipr :: ips))).
    { unfold step. rewrite Hn. reflexivity. }
    destruct (steps_run _ _ _ _ S Hh) as (f & Hf). exists f, (mkM ipr stm tg tr' (ipr :: ips)).
    repeat split; [exact Hf|]. exists k. exact Hk.
Qed.

(* switch2.go: the jump table installed in the first slot selects exactly the clause the linear scan selects *)
Theorem switch_gotomap_equiv : forall v st cs hb t,
  zassoc v (gotomap hb cs true) = Some t ->
  exists hb', case_ip v st hb cs = Some hb' /\ t = hb' + 1.
Proof. exact gotomap_sound. Qed.

(* a miss in the table falls to the linear scan: nothing is lost *)
Theorem switch_gotomap_miss_scans : forall code ip id tbl st tg tr ips,
  nth_error code ip = Some (IGotoMap id tbl) -> zassoc (tg id) tbl = None ->
  step code (mkM ip st tg tr ips) = Step (mkM (ip + 1) st tg tr (ip :: ips)).
Proof. intros. unfold step. rewrite H, H0. reflexivity. Qed.

(* C05 — correspondence support.  The executable models are shared: MiniGo.Sem (reference semantics = SPEC)
   and MiniGo.Fast (model of fast/statement.go, switch.go, switch2.go, code.go).  Definitions only.
   A case carries one harness program (as a MiniGo term) with what the real gomacro did with it:
   event trace, final result values, IP of every executed statement (single-stepping fast.Debugger)
   and len(env.Code). Both models must reproduce all of them. *)
From Coq Require Import List ZArith Bool Arith.
From Verif Require Import MiniGo.Syntax MiniGo.Sem MiniGo.Fast.
Import ListNotations.
Open Scope Z_scope.

Record case := mkCase {
  c_idx : Z; c_nres : nat; c_prog : stmt; c_fuel : nat;
  c_trace : list Z; c_finals : list Z; c_ips : list nat; c_codelen : nat }.

Fixpoint zs_eqb (a b : list Z) : bool :=
  match a, b with
  | [], [] => true
  | x :: a', y :: b' => Z.eqb x y && zs_eqb a' b'
  | _, _ => false
  end.

Fixpoint nats_eqb (a b : list nat) : bool :=
  match a, b with
  | [], [] => true
  | x :: a', y :: b' => Nat.eqb x y && nats_eqb a' b'
  | _, _ => false
  end.

Definition finished (o : outcome) : bool := match o with ONormal | ORet => true | _ => false end.

(* (S) side, also checked here: the reference semantics reproduces the observed (= compiled Go's) behaviour *)
Definition sem_ok (c : case) : bool :=
  match exec_func (c_fuel c) (c_nres c) (c_prog c) with
  | Some (o, st, tr) => finished o && zs_eqb (rev tr) (c_trace c) && zs_eqb (last st []) (c_finals c)
  | None => false
  end.

(* (M): the model of the compiled code reproduces outputs AND the structural observations *)
Definition fast_ok (c : case) : bool :=
  match compile_func (c_nres c) (c_prog c) with
  | None => false
  | Some code =>
      Nat.eqb (S (length code)) (c_codelen c) &&
      match run (c_fuel c) code (init_state (c_nres c)) with
      | Some m => zs_eqb (rev (m_tr m)) (c_trace c) && zs_eqb (last (m_env m) []) (c_finals c)
                  && nats_eqb (rev (m_ips m)) (c_ips c)
      | None => false
      end
  end.

Definition case_ok (c : case) : bool := sem_ok c && fast_ok c.

Definition mismatches (cs : list case) : list Z :=
  map c_idx (filter (fun c => negb (case_ok c)) cs).

(* diagnostics (used when developing): which side disagrees *)
Definition diag (c : case) : bool * bool := (sem_ok c, fast_ok c).

(* ---------- caseHelper.ConstMap of fast/switch.go: ALL constant case expressions with the address of their body
   (used for the duplicate-case error only).  switchGotoMap must build its table from GotoMap (MiniGo.Fast.gotomap:
   the constants BEFORE the first non-constant case expression), not from this map: C05_switch_constmap_refuted *)
Fixpoint cm_es (ibody : nat) (es : list expr) : list (Z * nat) :=
  match es with
  | [] => []
  | e :: r => (if econst e then [(eval e [], ibody)] else []) ++ cm_es ibody r
  end.

Fixpoint constmap (base : nat) (cs : clauses) : list (Z * nat) :=
  match cs with
  | CNil => []
  | CCons k nb body _ rest =>
      let iend := (base + 1 + bsize nb body + 1)%nat in
      match k with
      | CDefault => constmap iend rest
      | CCase es => cm_es (base + 1)%nat es ++ constmap iend rest
      end
  end.

(* C05 — property theorems only: each closed by [exact lemma], followed by Print Assumptions. *)
From Coq Require Import List ZArith Bool.
From Verif Require Import MiniGo.Syntax MiniGo.Sem MiniGo.Fast C05.Proof C05.Sim C05.Switch C05.Correct C05.Final.
Import ListNotations.

(* Forward simulation (all programs, all fuel).  _partial: the only excluded construct is the goto STATEMENT
   ([nogoto]); labelled statements, labelled/unlabelled break and continue through nested blocks with locals,
   loops and switches, the three for forms, switch with constant/expression tags, default in any position,
   fallthrough, the switch2.go jump table and return are all covered.  Backward goto is tied by the
   correspondence run (outputs + IP trace) and the compiled-Go differential only. *)
Theorem C05_compile_correct_partial : forall nres body fuel o st' tr' code,
  nogoto body = true ->
  exec_func fuel nres body = Some (o, st', tr') -> finished o ->
  compile_func nres body = Some code ->
  exists fuel' m, run fuel' code (init_state nres) = Some m /\ m_tr m = tr' /\ exists k, skipn k (m_env m) = st'.
Proof. exact compile_correct_partial. Qed.
Print Assumptions C05_compile_correct_partial.

(* the constant-case jump table of switch2.go selects the clause the linear scan of switch.go selects *)
Theorem C05_switch_gotomap_equiv : forall v st cs hb t,
  zassoc v (gotomap hb cs true) = Some t ->
  exists hb', case_ip v st hb cs = Some hb' /\ t = hb' + 1.
Proof. exact switch_gotomap_equiv. Qed.
Print Assumptions C05_switch_gotomap_equiv.

(* the number of Code slots of a construct is independent of context and position (what makes late patching of
   the captured *int targets equivalent to the compositional computation) *)
Theorem C05_code_size : forall s cx base lbls c, compile cx base lbls s = Some c -> length c = size s.
Proof. exact compile_size. Qed.
Print Assumptions C05_code_size.

(* non-vacuity: a labelled loop with a switch, fallthrough, default in the middle, labelled continue from inside
   the switch, a block with a local; hypotheses hold and both sides compute the same trace *)
Definition ex_prog : stmt :=
  SSeq (SLabeled 7 (SFor 1 [SiAssign 0 0 (EConst 0)] (Some (ELt (EVar 0 0) (EConst 3))) [SiAssign 0 0 (EAdd (EVar 0 0) (EConst 1))] 0
     (SSwitch (Some (EVar 0 0))
        (CCons (CCase [EConst 0]) 0 (SEmit (EConst 10)) true
        (CCons CDefault 1 (SSeq (SAssign 0 0 (EConst 5)) (SSeq (SEmit (EVar 0 0)) (SContinue (Some 7)))) false
        (CCons (CCase [EConst 2; EConst 9]) 0 (SSeq (SEmit (EConst 12)) (SBreak (Some 7))) false CNil))))))
  (SSeq (SAssign 0 1 (EConst 42)) SReturn).

Example ex_hyp : nogoto ex_prog = true /\
  exists o st tr code, exec_func 50 2 ex_prog = Some (o, st, tr) /\ finished o /\ compile_func 2 ex_prog = Some code /\
                       rev tr = [10; 5; 5; 12]%Z /\ st = [[0; 42]%Z].
Proof.
  split; [reflexivity|]. eexists _, _, _, _. split; [vm_compute; reflexivity|].
  split; [right; reflexivity|]. split; [vm_compute; reflexivity|]. split; reflexivity.
Qed.

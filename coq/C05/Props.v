(* C05 — property theorems (filled in as the proofs close). *)
From Coq Require Import List ZArith Bool.
From Verif Require Import MiniGo.Syntax MiniGo.Sem MiniGo.Fast.
Import ListNotations.

(* C05 — property theorems only: each closed by [exact lemma], followed by Print Assumptions. *)
From Coq Require Import List ZArith Bool.
From Verif Require Import MiniGo.Syntax MiniGo.Sem MiniGo.Fast C05.Proof C05.Sim C05.Switch C05.Correct C05.Final C05.Targets C05.GotoLbl C05.Goto C05.ConstMap.
From Verif Require C05.Model.
Import ListNotations.

(* Forward simulation (all programs without the goto STATEMENT, all fuel), with no premise on labels.  Kept under its
   name because C38 imports it; C05_compile_correct below removes the [nogoto] restriction. *)
Theorem C05_compile_correct_partial : forall nres body fuel o st' tr' code,
  nogoto body = true ->
  exec_func fuel nres body = Some (o, st', tr') -> finished o ->
  compile_func nres body = Some code ->
  exists fuel' m, run fuel' code (init_state nres) = Some m /\ m_tr m = tr' /\ exists k, skipn k (m_env m) = st'.
Proof. exact compile_correct_partial. Qed.
Print Assumptions C05_compile_correct_partial.

(* Forward simulation for ALL MiniGo programs, the goto statement included, and all fuel: no construct is excluded.
   The two premises are Go's own static rules, not restrictions of the fragment:
     wfl  : a label labels one statement (not a statement sequence) and an else branch is a block or another if
            (the shape the Go grammar gives to every program);
     uniq : a label is not declared again where it is already visible ("label L already defined" in Go;
            implied by NoDup of all labels of the function: C05_compile_correct_nodup).
   gotos that are not backward gotos to a visible label make compile_func fail (premise compile_func = Some code), as in
   gomacro.  Invariant used for goto (Goto.v, GotoLbl.v): a pending goto l is a machine already at the address the Comp
   chain records for l, having left upn envs; the label table of a Comp grows as the statements of its list are
   compiled (label extension), later labels never change what an earlier goto resolved to (goto_ext, needs uniq), and the
   suffix that the semantics restarts at (find_label) is compiled in place at exactly that address (find_label_compile). *)
Theorem C05_compile_correct : forall nres body fuel o st' tr' code,
  wfl body = true -> uniq body ->
  exec_func fuel nres body = Some (o, st', tr') -> finished o ->
  compile_func nres body = Some code ->
  exists fuel' m, run fuel' code (init_state nres) = Some m /\ m_tr m = tr' /\ exists k, skipn k (m_env m) = st'.
Proof. exact compile_correct. Qed.
Print Assumptions C05_compile_correct.

Theorem C05_compile_correct_nodup : forall nres body fuel o st' tr' code,
  wfl body = true -> NoDup (all_labels body) ->
  exec_func fuel nres body = Some (o, st', tr') -> finished o ->
  compile_func nres body = Some code ->
  exists fuel' m, run fuel' code (init_state nres) = Some m /\ m_tr m = tr' /\ exists k, skipn k (m_env m) = st'.
Proof. exact compile_correct_nodup. Qed.
Print Assumptions C05_compile_correct_nodup.

(* the constant-case jump table of switch2.go selects the clause the linear scan of switch.go selects *)
Theorem C05_switch_gotomap_equiv : forall v st cs hb t,
  zassoc v (gotomap hb cs true) = Some t ->
  exists hb', case_ip v st hb cs = Some hb' /\ t = hb' + 1.
Proof. exact switch_gotomap_equiv. Qed.
Print Assumptions C05_switch_gotomap_equiv.

(* ... and only that table is: a table of ALL constant cases (caseHelper.ConstMap, kept for the duplicate-case error)
   jumps past an earlier non-constant case that matches.  Witness: switch v { case 0: case 1: case x: case 2: } with
   x = v = 2: the scan selects `case x` (header at 4), the ConstMap table the body of `case 2` (7); the table of the
   leading constants has no entry for 2 *)
Theorem C05_switch_constmap_refuted :
  exists (v : Z) (st : envs) (cs : clauses) (hb t hb' : nat),
    zassoc v (Verif.C05.Model.constmap hb cs) = Some t /\ case_ip v st hb cs = Some hb' /\ t <> hb' + 1 /\
    zassoc v (gotomap hb cs true) = None /\ 2 <= length (gotomap hb cs true).
Proof. exact constmap_not_equiv. Qed.
Print Assumptions C05_switch_constmap_refuted.

(* the number of Code slots of a construct is independent of context and position (what makes late patching of
   the captured *int targets equivalent to the compositional computation) *)
Theorem C05_code_size : forall s cx base lbls c, compile cx base lbls s = Some c -> length c = size s.
Proof. exact compile_size. Qed.
Print Assumptions C05_code_size.

(* Header variables are scoped per loop (allocated once per execution of the for statement, not per iteration):
   the code is PushEnv ; X ; PopEnv, the back edge re-enters at the condition after PushEnv and init, and the targets
   patched into this loop's LoopInfo are: break -> the PopEnv slot (= last slot of the construct, first statement
   after the loop proper), continue -> the post statement, or the condition when there is none; both are reached
   with upn = UpCost of the body block only (the header frame stays). *)
Theorem C05_scoping_per_loop : forall cx base lbls n init cond post nb body c,
  compile cx base lbls (SFor n init cond post nb body) = Some c -> n <> 0 ->
  exists X cb,
    c = IPush n :: X ++ [IPop] /\
    In (IJmp 0 (base + 1 + length init)) X /\
    (forall i, In i (map csimple init) -> exists k, nth_error X k = Some i /\ k < length init) /\
    let cond_ip := base + 1 + length init in
    let body_ip := cond_ip + (match cond with Some _ => 1 | None => 0 end) in
    let post_ip := body_ip + bsize nb body in
    let brk_ip := post_ip + length post + 1 in
    let cont_ip := match post with [] => cond_ip | _ => post_ip end in
    let cxb := mkFrame (cost nb) None [] :: mkFrame 1 (Some (mkLoop lbls brk_ip (Some cont_ip))) [] :: cx in
    compile cxb (body_ip + cost nb) [] body = Some cb /\
    resolve_break cxb None 0 = Some (cost nb, brk_ip) /\
    resolve_cont cxb None 0 = Some (cost nb, cont_ip) /\
    base < cond_ip /\ base < cont_ip /\ brk_ip = base + size (SFor n init cond post nb body) - 1.
Proof. exact scoping_per_loop. Qed.
Print Assumptions C05_scoping_per_loop.

(* Jump targets are patched correctly, for ALL statements (goto included; no [nogoto] premise):
   (1) every possible successor of every instruction of a compiled function ([Targets.targets]: jump / conditional jump /
       case-header miss / fallthrough / jump-table entries / ip+1) is <= len(code), i.e. a valid index of env.Code
       (code[len] is the spinInterrupt slot appended by Code.Exec);
   (2)-(4) break / continue / goto resolve to the Break / Continue / label address recorded by the innermost Comp the
       label designates, with upn = sum of the UpCost of the Comps crossed (the number of envs to exit: each Comp with
       UpCost 1 pushed exactly one env; the dynamic reading is the [skipn upn] of the C05_compile_correct theorems);
   (5)-(6) the recorded targets are: switch -> first slot after the construct, no Continue; for -> Break = the slot after
       the back jump (the header's PopEnv, or the first slot after the construct), Continue = post statement, or the
       condition when there is no post statement. *)
Theorem C05_jump_targets_patched : jump_targets_patched_stmt.
Proof. exact jump_targets_patched. Qed.
Print Assumptions C05_jump_targets_patched.

(* non-vacuity: a labelled loop with a switch, fallthrough, default in the middle, labelled continue from inside
   the switch, a block with a local; hypotheses hold and both sides compute the same trace *)
Definition ex_prog : stmt :=
  SSeq (SLabeled 7 (SFor 1 [SiAssign 0 0 (EConst 0)] (Some (ELt (EVar 0 0) (EConst 3))) [SiAssign 0 0 (EAdd (EVar 0 0) (EConst 1))] 0
     (SSwitch (Some (EVar 0 0))
        (CCons (CCase [EConst 0]) 0 (SEmit (EConst 10)) true
        (CCons CDefault 1 (SSeq (SAssign 0 0 (EConst 5)) (SSeq (SEmit (EVar 0 0)) (SContinue (Some 7)))) false
        (CCons (CCase [EConst 2; EConst 9]) 0 (SSeq (SEmit (EConst 12)) (SBreak (Some 7))) false CNil))))))
  (SSeq (SAssign 0 1 (EConst 42)) SReturn).

Example ex_hyp : nogoto ex_prog = true /\
  exists o st tr code, exec_func 50 2 ex_prog = Some (o, st, tr) /\ finished o /\ compile_func 2 ex_prog = Some code /\
                       rev tr = [10; 5; 5; 12]%Z /\ st = [[0; 42]%Z].
Proof.
  split; [reflexivity|]. eexists _, _, _, _. split; [vm_compute; reflexivity|].
  split; [right; reflexivity|]. split; [vm_compute; reflexivity|]. split; reflexivity.
Qed.

(* non-vacuity for goto: a backward goto out of a block with a local, nested in a loop, to a label at function top level
   (finding C05-1's shape), plus a second label inside the loop body; all premises hold, both sides give the same trace *)
Definition ex_goto : stmt :=
  SSeq (SLabeled 1 (SAssign 0 0 (EAdd (EVar 0 0) (EConst 1))))
  (SSeq (SEmit (EVar 0 0))
  (SSeq (SFor 1 [SiAssign 0 0 (EConst 0)] (Some (ELt (EVar 0 0) (EConst 2))) [SiAssign 0 0 (EAdd (EVar 0 0) (EConst 1))] 0
           (SSeq (SLabeled 2 (SEmit (EAdd (EConst 10) (EVar 0 0))))
           (SSeq (SAssign 1 1 (EAdd (EVar 1 1) (EConst 1)))
           (SSeq (SIf (EEq (EVar 1 1) (EConst 1)) 0 (SGoto 2) false SSkip)
                 (SIf (ELt (EVar 1 0) (EConst 2)) 1 (SSeq (SAssign 0 0 (EConst 7)) (SGoto 1)) false SSkip)))))
        SReturn)).

Example ex_goto_hyp : wfl ex_goto = true /\ NoDup (all_labels ex_goto) /\
  exists o st tr code, exec_func 80 2 ex_goto = Some (o, st, tr) /\ finished o /\ compile_func 2 ex_goto = Some code /\
                       rev tr = [1; 10; 10; 2; 10; 11]%Z.
Proof.
  split; [reflexivity|]. split; [repeat constructor; simpl; intuition discriminate|].
  eexists _, _, _, _. split; [vm_compute; reflexivity|].
  split; [right; reflexivity|]. split; [vm_compute; reflexivity|]. reflexivity.
Qed.

(* non-vacuity for jumps that leave many frames at once (jumpOut's generic case upn >= 3 of fast/statement.go): a labelled
   continue and a labelled break that each leave five block frames (the break lands on the PopEnv of the loop header's frame);
   the compiled code contains two IJmp 5 and both sides compute the same trace *)
Fixpoint ex_nest (k : nat) (s : stmt) : stmt :=
  match k with
  | O => s
  | S k' => SBlock 1 (SSeq (SAssign 0 0 (EConst (Z.of_nat k))) (ex_nest k' s))
  end.
Definition ex_deep : stmt :=
  SSeq (SLabeled 3 (SFor 1 [SiAssign 0 0 (EConst 0)] (Some (ELt (EVar 0 0) (EConst 2))) [SiAssign 0 0 (EAdd (EVar 0 0) (EConst 1))] 0
        (SSeq (SEmit (EVar 0 0))
              (ex_nest 5 (SSeq (SEmit (EVar 0 0))
                         (SIf (EEq (EVar 5 0) (EConst 0)) 0 (SContinue (Some 3)) true (SBlock 0 (SBreak (Some 3)))))))))
  (SSeq (SEmit (EConst 99)) SReturn).
Definition jumps_up (n : nat) (code : list instr) : nat :=
  length (filter (fun i => match i with IJmp u _ => Nat.eqb u n | _ => false end) code).

Example ex_deep_hyp : nogoto ex_deep = true /\
  exists o st tr code m, exec_func 200 2 ex_deep = Some (o, st, tr) /\ finished o /\ compile_func 2 ex_deep = Some code /\
                       jumps_up 5 code = 2 /\
                       run 200 code (init_state 2) = Some m /\ rev (m_tr m) = rev tr /\ rev tr = [0; 1; 1; 1; 99]%Z.
Proof.
  split; [reflexivity|]. eexists _, _, _, _, _. split; [vm_compute; reflexivity|].
  split; [right; reflexivity|]. split; [vm_compute; reflexivity|].
  split; [vm_compute; reflexivity|].
  split; [vm_compute; reflexivity|]. split; reflexivity.
Qed.

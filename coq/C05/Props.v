(* C05 — property theorems only: each closed by [exact lemma], followed by Print Assumptions. *)
From Coq Require Import List ZArith Bool.
From Verif Require Import MiniGo.Syntax MiniGo.Sem MiniGo.Fast C05.Proof C05.Sim C05.Switch C05.Correct C05.Final C05.Targets.
Import ListNotations.

(* Forward simulation (all programs, all fuel).  _partial: the only excluded construct is the goto STATEMENT
   ([nogoto]); labelled statements, labelled/unlabelled break and continue through nested blocks with locals,
   loops and switches, the three for forms, switch with constant/expression tags, default in any position,
   fallthrough, the switch2.go jump table and return are all covered.  Backward goto is tied by the
   correspondence run (outputs + IP trace) and the compiled-Go differential only. *)
Theorem C05_compile_correct_partial : forall nres body fuel o st' tr' code,
  nogoto body = true ->
  exec_func fuel nres body = Some (o, st', tr') -> finished o ->
  compile_func nres body = Some code ->
  exists fuel' m, run fuel' code (init_state nres) = Some m /\ m_tr m = tr' /\ exists k, skipn k (m_env m) = st'.
Proof. exact compile_correct_partial. Qed.
Print Assumptions C05_compile_correct_partial.

(* the constant-case jump table of switch2.go selects the clause the linear scan of switch.go selects *)
Theorem C05_switch_gotomap_equiv : forall v st cs hb t,
  zassoc v (gotomap hb cs true) = Some t ->
  exists hb', case_ip v st hb cs = Some hb' /\ t = hb' + 1.
Proof. exact switch_gotomap_equiv. Qed.
Print Assumptions C05_switch_gotomap_equiv.

(* the number of Code slots of a construct is independent of context and position (what makes late patching of
   the captured *int targets equivalent to the compositional computation) *)
Theorem C05_code_size : forall s cx base lbls c, compile cx base lbls s = Some c -> length c = size s.
Proof. exact compile_size. Qed.
Print Assumptions C05_code_size.

(* Header variables are scoped per loop (allocated once per execution of the for statement, not per iteration):
   the code is PushEnv ; X ; PopEnv, the back edge re-enters at the condition after PushEnv and init, and the targets
   patched into this loop's LoopInfo are: break -> the PopEnv slot (= last slot of the construct, first statement
   after the loop proper), continue -> the post statement, or the condition when there is none; both are reached
   with upn = UpCost of the body block only (the header frame stays). *)
Theorem C05_scoping_per_loop : forall cx base lbls n init cond post nb body c,
  compile cx base lbls (SFor n init cond post nb body) = Some c -> n <> 0 ->
  exists X cb,
    c = IPush n :: X ++ [IPop] /\
    In (IJmp 0 (base + 1 + length init)) X /\
    (forall i, In i (map csimple init) -> exists k, nth_error X k = Some i /\ k < length init) /\
    let cond_ip := base + 1 + length init in
    let body_ip := cond_ip + (match cond with Some _ => 1 | None => 0 end) in
    let post_ip := body_ip + bsize nb body in
    let brk_ip := post_ip + length post + 1 in
    let cont_ip := match post with [] => cond_ip | _ => post_ip end in
    let cxb := mkFrame (cost nb) None [] :: mkFrame 1 (Some (mkLoop lbls brk_ip (Some cont_ip))) [] :: cx in
    compile cxb (body_ip + cost nb) [] body = Some cb /\
    resolve_break cxb None 0 = Some (cost nb, brk_ip) /\
    resolve_cont cxb None 0 = Some (cost nb, cont_ip) /\
    base < cond_ip /\ base < cont_ip /\ brk_ip = base + size (SFor n init cond post nb body) - 1.
Proof. exact scoping_per_loop. Qed.
Print Assumptions C05_scoping_per_loop.

(* Jump targets are patched correctly, for ALL statements (goto included; no [nogoto] premise):
   (1) every possible successor of every instruction of a compiled function ([Targets.targets]: jump / conditional jump /
       case-header miss / fallthrough / jump-table entries / ip+1) is <= len(code), i.e. a valid index of env.Code
       (code[len] is the spinInterrupt slot appended by Code.Exec);
   (2)-(4) break / continue / goto resolve to the Break / Continue / label address recorded by the innermost Comp the
       label designates, with upn = sum of the UpCost of the Comps crossed (the number of envs to exit: each Comp with
       UpCost 1 pushed exactly one env; the dynamic reading is the [skipn upn] of the C05_compile_correct theorems);
   (5)-(6) the recorded targets are: switch -> first slot after the construct, no Continue; for -> Break = the slot after
       the back jump (the header's PopEnv, or the first slot after the construct), Continue = post statement, or the
       condition when there is no post statement. *)
Theorem C05_jump_targets_patched : jump_targets_patched_stmt.
Proof. exact jump_targets_patched. Qed.
Print Assumptions C05_jump_targets_patched.

(* non-vacuity: a labelled loop with a switch, fallthrough, default in the middle, labelled continue from inside
   the switch, a block with a local; hypotheses hold and both sides compute the same trace *)
Definition ex_prog : stmt :=
  SSeq (SLabeled 7 (SFor 1 [SiAssign 0 0 (EConst 0)] (Some (ELt (EVar 0 0) (EConst 3))) [SiAssign 0 0 (EAdd (EVar 0 0) (EConst 1))] 0
     (SSwitch (Some (EVar 0 0))
        (CCons (CCase [EConst 0]) 0 (SEmit (EConst 10)) true
        (CCons CDefault 1 (SSeq (SAssign 0 0 (EConst 5)) (SSeq (SEmit (EVar 0 0)) (SContinue (Some 7)))) false
        (CCons (CCase [EConst 2; EConst 9]) 0 (SSeq (SEmit (EConst 12)) (SBreak (Some 7))) false CNil))))))
  (SSeq (SAssign 0 1 (EConst 42)) SReturn).

Example ex_hyp : nogoto ex_prog = true /\
  exists o st tr code, exec_func 50 2 ex_prog = Some (o, st, tr) /\ finished o /\ compile_func 2 ex_prog = Some code /\
                       rev tr = [10; 5; 5; 12]%Z /\ st = [[0; 42]%Z].
Proof.
  split; [reflexivity|]. eexists _, _, _, _. split; [vm_compute; reflexivity|].
  split; [right; reflexivity|]. split; [vm_compute; reflexivity|]. split; reflexivity.
Qed.

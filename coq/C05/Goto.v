(* C05 — lemmas, part 8: the forward simulation again, now with the goto statement (no [nogoto] premise).
   The premises that replace it are Go's own well-formedness rules: [wfl] (a label labels one statement, an else
   branch is a block or an if) and [uniq] (labels are not redeclared where they are visible). *)
From Coq Require Import List ZArith Bool Arith Lia.
From Verif Require Import MiniGo.Syntax MiniGo.Sem MiniGo.Fast C05.Proof C05.Sim C05.Switch C05.Correct C05.Final C05.GotoLbl.
Import ListNotations.
Open Scope nat_scope.

(* a pending goto l, seen from the Comp chain cx: the machine has jumped to the address recorded for l, leaving
   upn envs (st' is the store of the semantics when the goto leaves the statement) *)
Definition gotoex (code : list instr) (cx : ctx) (ip : nat) (st : envs) (tr : list Z)
           (l : nat) (st' : envs) (tr' : list Z) : Prop :=
  exists upn tgt, resolve_goto cx l 0 = Some (upn, tgt) /\ reach code (ip, st, tr) (tgt, skipn upn st', tr').

Definition simg code cx ip ipe st tr o st' tr' : Prop :=
  match o with
  | OGoto l => gotoex code cx ip st tr l st' tr'
  | _ => sim code cx ip ipe st tr o st' tr'
  end.

Lemma gotoex_pre code cx ip0 st0 tr0 ip st tr l st' tr' :
  reach code (ip0, st0, tr0) (ip, st, tr) -> gotoex code cx ip st tr l st' tr' -> gotoex code cx ip0 st0 tr0 l st' tr'.
Proof. intros R (u & t & Hr & H). exists u, t. split; [exact Hr|eapply reach_trans; eauto]. Qed.

Lemma simg_pre code cx ip0 st0 tr0 ip ipe st tr o st' tr' :
  reach code (ip0, st0, tr0) (ip, st, tr) -> simg code cx ip ipe st tr o st' tr' ->
  simg code cx ip0 ipe st0 tr0 o st' tr'.
Proof.
  intros R H. destruct o; unfold simg in *; try (eapply sim_pre; eassumption). eapply gotoex_pre; eassumption.
Qed.

Lemma simg_ip code cx ip e1 e2 st tr o st' tr' :
  e1 = e2 -> simg code cx ip e1 st tr o st' tr' -> simg code cx ip e2 st tr o st' tr'.
Proof. intros ->; auto. Qed.

(* crossing a Comp (with or without LoopInfo) that does not know the label *)
Lemma gotoex_cross code c lo lb cx ip st tr l st1 tr1 :
  assoc l lb = None -> gotoex code (mkFrame c lo lb :: cx) ip st tr l st1 tr1 ->
  gotoex code cx ip st tr l (skipn c st1) tr1.
Proof.
  intros Ha (u & t & Hr & H). rewrite (resolve_goto_cross c lo lb cx l Ha) in Hr.
  apply shift_some in Hr as (u' & Hr & ->). exists u', t. split; [exact Hr|].
  rewrite skipn_skipn. replace (c + u') with (u' + c) by lia. exact H.
Qed.

Lemma sim_add_lbls_rev code cx ls ip ipe st tr o st1 tr1 :
  sim code cx ip ipe st tr o st1 tr1 -> sim code (add_lbls cx ls) ip ipe st tr o st1 tr1.
Proof.
  destruct o; unfold sim, exits; try (intros H; exact H).
  - rewrite resolve_break_add_lbls. auto.
  - rewrite resolve_cont_add_lbls. auto.
Qed.

(* a frame with labels is the same frame with the labels added *)
Lemma frame_lbls c lo lb cx : mkFrame c lo lb :: cx = add_lbls (mkFrame c lo [] :: cx) lb.
Proof. reflexivity. Qed.

Lemma simg_plain_frame0 code lb cx ip ipe st tr o st1 tr1 :
  (forall l, o = OGoto l -> assoc l lb = None) ->
  simg code (mkFrame 0 None lb :: cx) ip ipe st tr o st1 tr1 -> simg code cx ip ipe st tr o st1 tr1.
Proof.
  intros Hl H. destruct o; unfold simg in *; try (eapply sim_plain_frame0; exact H).
  apply (gotoex_cross code 0 None lb cx ip st tr l st1 tr1 (Hl l eq_refl)) in H. exact H.
Qed.

(* { ... } : PushEnv / body / PopEnv around the simulation of the body; lb = the labels of the body's own list *)
Lemma block_simg code cx b n body cb lb st tr o st1 tr1 :
  at_code code b (wrap n cb) -> length cb = size body ->
  (forall l, o = OGoto l -> assoc l lb = None) ->
  simg code (mkFrame (cost n) None lb :: cx) (b + cost n) (b + cost n + size body) (push n st) tr o st1 tr1 ->
  simg code cx b (b + bsize n body) st tr o (pop n st1) tr1.
Proof.
  intros Hat Hlen Hl H. destruct o; unfold simg in *;
    try (eapply block_sim; [exact Hat|exact Hlen|]; rewrite frame_lbls in H; eapply sim_add_lbls; exact H).
  apply (gotoex_cross code (cost n) None lb cx _ _ _ l st1 tr1 (Hl l eq_refl)) in H.
  rewrite pop_skipn. unfold cost in *. destruct (Nat.eqb_spec n 0) as [->|Hn].
  - simpl in *. rewrite Nat.add_0_r in H. exact H.
  - apply at_code_wrap in Hat as [_ Hw]. destruct (Hw Hn) as [Hpush _]. rewrite (push_pos n st Hn) in H.
    eapply gotoex_pre; [|exact H]. eapply reach_one; [exact Hpush|reflexivity].
Qed.

(* the label is declared by the list being executed: the jump lands on it without leaving any env *)
Lemma goto_found cx sp l addr u t :
  resolve_goto cx l 0 = None -> assoc l sp = Some addr ->
  resolve_goto (add_lbls cx sp) l 0 = Some (u, t) -> u = 0 /\ t = addr.
Proof.
  destruct cx as [|[c lo lb] r]; simpl; [discriminate|]. intros Hn Ha. rewrite assoc_app.
  destruct (assoc l lb); [discriminate|]. rewrite Ha. intros E; inversion E; auto.
Qed.

(* ---------- goals of the auxiliary functions ---------- *)
Definition loop_goal_g code cx cn cond_ip brk_ip st tr o st' tr' : Prop :=
  match o with
  | ONormal => reach code (cond_ip, st, tr) (brk_ip, st', tr')
  | OGoto l => gotoex code cx cond_ip st tr l (skipn cn st') tr'
  | _ => exits code cx cond_ip st tr o (skipn cn st') tr'
  end.

Definition cl_goal_g code cx lbls brk ip st tr o st' tr' : Prop :=
  match o with
  | ONormal => reach code (ip, st, tr) (brk, st', tr')
  | OGoto l => gotoex code cx ip st tr l st' tr'
  | _ => exits_lf code cx ip st tr o st' tr' 0 lbls brk None
  end.

Lemma loop_goal_g_pre code cx cn ip0 st0 tr0 cond_ip brk_ip st tr o st' tr' :
  reach code (ip0, st0, tr0) (cond_ip, st, tr) -> loop_goal_g code cx cn cond_ip brk_ip st tr o st' tr' ->
  loop_goal_g code cx cn ip0 brk_ip st0 tr0 o st' tr'.
Proof.
  intros R H. destruct o; unfold loop_goal_g in *;
    first [eapply reach_trans; eassumption | eapply gotoex_pre; eassumption | eapply exits_pre; eauto].
Qed.

Lemma cl_goal_g_pre code cx lbls brk ip0 st0 tr0 ip st tr o st' tr' :
  reach code (ip0, st0, tr0) (ip, st, tr) -> cl_goal_g code cx lbls brk ip st tr o st' tr' ->
  cl_goal_g code cx lbls brk ip0 st0 tr0 o st' tr'.
Proof.
  intros R H. destruct o; unfold cl_goal_g in *;
    first [eapply reach_trans; eassumption | eapply gotoex_pre; eassumption | eapply exits_lf_pre; eauto].
Qed.

(* ---------- the four statements proved together ---------- *)
Definition Q_exec (n : nat) : Prop :=
  forall s lbls st tr o st' tr', exec n lbls s st tr = Some (o, st', tr') -> wfl s = true -> uniq s ->
  forall code cx base c, compile cx base lbls s = Some c -> at_code code base c -> fresh cx s ->
  simg code (add_lbls cx (spine_labels base s)) base (base + size s) st tr o st' tr'.

Definition Q_blk (n : nat) : Prop :=
  forall whole cur st tr o st' tr', blk n whole cur st tr = Some (o, st', tr') ->
  forall code cx base c, wfl whole = true -> uniq whole -> compile cx base [] whole = Some c -> at_code code base c ->
  fresh cx whole ->
  forall ls basec cc, compile (add_lbls cx ls) basec [] cur = Some cc -> at_code code basec cc ->
  basec + size cur = base + size whole -> spine_labels base whole = ls ++ spine_labels basec cur ->
  wfl cur = true -> uniq cur -> fresh (add_lbls cx ls) cur ->
  simg code (add_lbls cx (spine_labels base whole)) basec (base + size whole) st tr o st' tr' /\
  (forall l, o = OGoto l -> find_label l whole = None).

Definition Q_loop (n : nat) : Prop :=
  forall lbls cond post nb body st tr o st' tr',
  loop n lbls cond post nb body st tr = Some (o, st', tr') -> wfl body = true -> uniq body ->
  forall code cx cn cond_ip cb,
    let body_ip := cond_ip + (match cond with Some _ => 1 | None => 0 end) in
    let post_ip := body_ip + bsize nb body in
    let brk_ip := post_ip + length post + 1 in
    let cont_ip := match post with [] => cond_ip | _ => post_ip end in
    let cxf := mkFrame cn (Some (mkLoop lbls brk_ip (Some cont_ip))) [] :: cx in
    compile (mkFrame (cost nb) None [] :: cxf) (body_ip + cost nb) [] body = Some cb ->
    at_code code cond_ip ((match cond with Some c => [IJif c (cond_ip + 1) brk_ip] | None => [] end)
                          ++ wrap nb cb ++ map csimple post ++ [IJmp 0 cond_ip]) ->
    fresh cx body ->
    loop_goal_g code cx cn cond_ip brk_ip st tr o st' tr'.

Definition Q_cl (n : nat) : Prop :=
  forall cs st tr o st' tr', clauses_from n cs st tr = Some (o, st', tr') -> wfl_cs cs = true -> uniq_cs cs -> cs <> CNil ->
  forall code cx lbls hb tid brk cc,
    compile_clauses (mkFrame 0 (Some (mkLoop lbls brk None)) [] :: cx) hb tid brk cs = Some cc ->
    at_code code hb cc -> fresh_cs cx cs ->
    cl_goal_g code cx lbls brk (hb + 1) st tr o st' tr'.

(* a block body, from the blk statement of the previous fuel level *)
Lemma body_simg n : Q_blk n -> forall nb body st tr ob stb trb code cx b cb,
  blk n body body (push nb st) tr = Some (ob, stb, trb) -> wfl body = true -> uniq body -> fresh cx body ->
  compile (mkFrame (cost nb) None [] :: cx) (b + cost nb) [] body = Some cb ->
  at_code code b (wrap nb cb) ->
  simg code cx b (b + bsize nb body) st tr ob (pop nb stb) trb.
Proof.
  intros IH nb body st tr ob stb trb code cx b cb Hb Hw Hu Hfr Hc Hat.
  set (cxb := mkFrame (cost nb) None [] :: cx) in *.
  assert (Hfb : fresh cxb body) by (apply fresh_frame; exact Hfr).
  assert (Hcn : compile (add_lbls cxb []) (b + cost nb) [] body = Some cb) by (rewrite add_lbls_nil; exact Hc).
  assert (Hfn : fresh (add_lbls cxb []) body) by (rewrite add_lbls_nil; exact Hfb).
  destruct (IH _ _ _ _ _ _ _ Hb code cxb (b + cost nb) cb Hw Hu Hc (proj1 (at_code_wrap _ _ _ _ Hat)) Hfb
               [] (b + cost nb) cb Hcn (proj1 (at_code_wrap _ _ _ _ Hat)) eq_refl eq_refl Hw Hu Hfn) as [Hs Hg].
  eapply block_simg; [exact Hat|exact (compile_size _ _ _ _ _ Hc)| |exact Hs].
  intros l ->. simpl. apply find_label_none; [exact Hw|]. apply Hg. reflexivity.
Qed.

Lemma step_blk_g n : Q_exec n -> Q_blk n -> Q_blk (S n).
Proof.
  intros IHe IHb whole cur st tr o st' tr' Hex code cx base c Hw Hu Hc Hat Hfr ls basec cc Hcc Hatc Hsz Hsp Hwc Huc Hfc.
  simpl in Hex.
  destruct (exec n [] cur st tr) as [[[o1 st1] tr1]|] eqn:E; [|discriminate].
  assert (H1 := IHe _ _ _ _ _ _ _ E Hwc Huc code _ basec cc Hcc Hatc Hfc).
  rewrite add_lbls_app, <- Hsp, Hsz in H1.
  destruct o1; try (inversion Hex; subst; split; [exact H1|intros l0 X; discriminate]).
  destruct (find_label l whole) as [s'|] eqn:Ef.
  - destruct (find_label_compile l whole cx base c s' Hw Hu Hc Ef)
      as (ls' & addr & c' & pre & Hsp' & Has & Hc' & Hpre & Hadr & Hsz' & Hw' & Hu' & Hin & Hdj).
    assert (Hat' : at_code code addr c').
    { rewrite Hpre in Hat. apply at_code_app_r in Hat. rewrite Hadr. exact Hat. }
    assert (Hf' : fresh (add_lbls cx ls') s') by (apply fresh_add; [eapply fresh_sub; eauto|exact Hdj]).
    destruct (IHb _ _ _ _ _ _ _ Hex code cx base c Hw Hu Hc Hat Hfr ls' addr c' Hc' Hat' Hsz' Hsp' Hw' Hu' Hf') as [Hs Hg].
    split; [|exact Hg]. eapply simg_pre; [|exact Hs].
    unfold simg, gotoex in H1. destruct H1 as (u & t & Hr & Hreach).
    assert (Hl : In l (all_labels whole)).
    { eapply spine_keys_sub. eapply assoc_some_in. exact Has. }
    destruct (goto_found cx _ l addr u t (Hfr l Hl 0) Has Hr) as [-> ->]. exact Hreach.
  - inversion Hex; subst. split; [exact H1|]. intros l0 X. inversion X; subst. exact Ef.
Qed.

Lemma exits_lf_cross code cn lbls brk oc cx ip st tr l st1 tr1 :
  gotoex code (mkFrame cn (Some (mkLoop lbls brk oc)) [] :: cx) ip st tr l st1 tr1 ->
  gotoex code cx ip st tr l (skipn cn st1) tr1.
Proof. apply gotoex_cross. reflexivity. Qed.

Lemma step_cl_g n : Q_blk n -> Q_cl n -> Q_cl (S n).
Proof.
  intros IHb IHc cs st tr o st' tr' Hex Hw Hu Hne code cx lbls hb tid brk cc Hc Hat Hfr.
  destruct cs as [|k nb body fall rest]; [congruence|]. simpl in Hex, Hw, Hu.
  apply andb_prop in Hw as [Hw1 Hw2]. destruct Hu as [Hu1 Hu2].
  destruct (clause_at _ _ _ _ _ _ _ _ _ _ _ Hc Hat) as (cb & cr & Hf & Hb & Hr & Hh & Hwr & Hj & Hrest).
  destruct (after_block nb (blk n body body (push nb st) tr)) as [[[ob st1] tr1]|] eqn:Ea; [|discriminate].
  apply after_block_inv in Ea as (stb & Eb & ->).
  assert (Hfb : fresh (mkFrame 0 (Some (mkLoop lbls brk None)) [] :: cx) body).
  { apply fresh_frame. intros l Hl. apply Hfr. simpl. apply in_or_app. left. exact Hl. }
  assert (Hfrest : fresh_cs cx rest).
  { intros l Hl. apply Hfr. simpl. apply in_or_app. right. exact Hl. }
  assert (Hbs := body_simg n IHb nb body st tr ob stb tr1 code _ (hb + 1) cb Eb Hw1 Hu1 Hfb Hb Hwr).
  destruct ob; simpl in Hex.
  - unfold simg, sim in Hbs. destruct fall.
    + assert (Hrne : rest <> CNil) by (apply Hf; reflexivity).
      assert (Hl := IHc _ _ _ _ _ _ Hex Hw2 Hu2 Hrne code cx lbls _ tid brk cr Hr Hrest Hfrest).
      eapply cl_goal_g_pre; [|exact Hl]. eapply reach_trans; [exact Hbs|].
      eapply reach_one; [exact Hj|]. simpl.
      replace (hb + 1 + bsize nb body + 2) with (hb + 1 + bsize nb body + 1 + 1) by lia. reflexivity.
    + inversion Hex; subst. unfold cl_goal_g. eapply reach_trans; [exact Hbs|].
      eapply reach_one; [exact Hj|reflexivity].
  - inversion Hex; subst. unfold simg, sim in Hbs. apply exits_loop_frame in Hbs. exact Hbs.
  - inversion Hex; subst. unfold simg, sim in Hbs. apply exits_loop_frame in Hbs. exact Hbs.
  - inversion Hex; subst. unfold simg in Hbs. apply exits_lf_cross in Hbs. exact Hbs.
  - inversion Hex; subst. unfold simg, sim in Hbs. apply exits_loop_frame in Hbs. exact Hbs.
Qed.

Lemma step_loop_g n : Q_blk n -> Q_loop n -> Q_loop (S n).
Proof.
  intros IHb IHl lbls cond post nb body st tr o st' tr' Hex Hw Hu code cx cn cond_ip cb
         body_ip post_ip brk_ip cont_ip cxf Hc Hat Hfr.
  assert (Hat0 := Hat). simpl in Hex.
  apply at_code_app in Hat as [Hcond Hat]. apply at_code_app in Hat as [Hbody Hat].
  apply at_code_app in Hat as [Hpost Hjmp].
  assert (Lc : length (match cond with Some c => [IJif c (cond_ip + 1) brk_ip] | None => [] end)
               = match cond with Some _ => 1 | None => 0 end) by (destruct cond; reflexivity).
  rewrite Lc in Hbody, Hpost, Hjmp. fold body_ip in Hbody, Hpost, Hjmp.
  rewrite wrap_length, (compile_size _ _ _ _ _ Hc) in Hpost, Hjmp.
  fold (bsize nb body) in Hpost, Hjmp. fold post_ip in Hpost, Hjmp.
  rewrite map_length in Hjmp. apply at_code_head in Hjmp.
  assert (Hpostrun : forall s1 t1, reach code (post_ip, s1, t1)
            (cond_ip, fst (run_simple post s1 t1), snd (run_simple post s1 t1))).
  { intros. eapply reach_trans; [apply reach_simple; exact Hpost|].
    eapply reach_one; [exact Hjmp|reflexivity]. }
  assert (Hcontrun : forall s1 t1, reach code (cont_ip, s1, t1)
            (cond_ip, fst (run_simple post s1 t1), snd (run_simple post s1 t1))).
  { intros. subst cont_ip. destruct post; [simpl; apply reach_refl|apply Hpostrun]. }
  assert (Hgo : match cond with Some c => truthy (eval c st) | None => true end = true ->
                reach code (cond_ip, st, tr) (body_ip, st, tr)).
  { subst body_ip. destruct cond as [c|]; intros Et.
    - apply at_code_head in Hcond. eapply reach_one; [exact Hcond|]. simpl. rewrite Et. reflexivity.
    - rewrite Nat.add_0_r. apply reach_refl. }
  assert (Hstop : match cond with Some c => truthy (eval c st) | None => true end = false ->
                  reach code (cond_ip, st, tr) (brk_ip, st, tr)).
  { destruct cond as [c|]; intros Et; [|discriminate].
    apply at_code_head in Hcond. eapply reach_one; [exact Hcond|]. simpl. rewrite Et. reflexivity. }
  assert (Hfb : fresh cxf body) by (apply fresh_frame; exact Hfr).
  destruct (match cond with Some c => truthy (eval c st) | None => true end) eqn:Et.
  - specialize (Hgo eq_refl).
    destruct (after_block nb (blk n body body (push nb st) tr)) as [[[ob st1] tr1]|] eqn:Ea; [|discriminate].
    apply after_block_inv in Ea as (stb & Eb & ->).
    assert (Hbs := body_simg n IHb nb body st tr ob stb tr1 code cxf body_ip cb Eb Hw Hu Hfb Hc Hbody).
    destruct ob; simpl in Hex.
    + unfold simg, sim in Hbs. destruct (run_simple post (pop nb stb) tr1) as [st2 tr2] eqn:Ep.
      assert (Hl := IHl _ _ _ _ _ _ _ _ _ _ Hex Hw Hu code cx cn cond_ip cb Hc Hat0 Hfr).
      eapply loop_goal_g_pre; [|exact Hl].
      eapply reach_trans; [exact Hgo|]. eapply reach_trans; [exact Hbs|].
      specialize (Hpostrun (pop nb stb) tr1). rewrite Ep in Hpostrun. exact Hpostrun.
    + unfold simg, sim in Hbs. apply exits_loop_frame in Hbs. unfold exits_lf in Hbs.
      destruct (lmatch l lbls); inversion Hex; subst; unfold loop_goal_g.
      * eapply reach_trans; [exact Hgo|exact Hbs].
      * eapply exits_pre; [reflexivity|exact Hgo|exact Hbs].
    + unfold simg, sim in Hbs. apply exits_loop_frame in Hbs. unfold exits_lf in Hbs.
      destruct (lmatch l lbls).
      * destruct (run_simple post (pop nb stb) tr1) as [st2 tr2] eqn:Ep.
        assert (Hl := IHl _ _ _ _ _ _ _ _ _ _ Hex Hw Hu code cx cn cond_ip cb Hc Hat0 Hfr).
        eapply loop_goal_g_pre; [|exact Hl].
        eapply reach_trans; [exact Hgo|]. eapply reach_trans; [exact Hbs|].
        specialize (Hcontrun (pop nb stb) tr1). rewrite Ep in Hcontrun. exact Hcontrun.
      * inversion Hex; subst. unfold loop_goal_g. eapply exits_pre; [reflexivity|exact Hgo|exact Hbs].
    + inversion Hex; subst. unfold simg in Hbs. apply exits_lf_cross in Hbs. unfold loop_goal_g.
      eapply gotoex_pre; [exact Hgo|exact Hbs].
    + inversion Hex; subst. unfold simg, sim in Hbs. apply exits_loop_frame in Hbs. unfold exits_lf in Hbs.
      unfold loop_goal_g. eapply exits_pre; [reflexivity|exact Hgo|exact Hbs].
  - inversion Hex; subst. unfold loop_goal_g. exact (Hstop eq_refl).
Qed.

(* the clause list selected by the tag is a suffix of the clause list *)
Lemma select_suffix v st cs :
  wfl_cs cs = true -> uniq_cs cs ->
  wfl_cs (select_clause v st cs) = true /\ uniq_cs (select_clause v st cs) /\
  incl (all_labels_cs (select_clause v st cs)) (all_labels_cs cs).
Proof.
  intros Hw Hu. unfold select_clause.
  assert (F1 : forall cs cs', wfl_cs cs = true -> uniq_cs cs -> find_case v st cs = Some cs' ->
               wfl_cs cs' = true /\ uniq_cs cs' /\ incl (all_labels_cs cs') (all_labels_cs cs)).
  { induction cs0 as [|k nb b f r IH]; simpl; intros cs' Hw0 Hu0 Hf; [discriminate|].
    apply andb_prop in Hw0 as [Hw1 Hw2]. destruct Hu0 as [Hu1 Hu2].
    assert (Hr : forall cs', find_case v st r = Some cs' ->
                 wfl_cs cs' = true /\ uniq_cs cs' /\ incl (all_labels_cs cs') (all_labels b ++ all_labels_cs r)).
    { intros c' Hc'. destruct (IH c' Hw2 Hu2 Hc') as (A & B & C). repeat split; try assumption.
      apply incl_appr. exact C. }
    destruct k.
    - destruct (existsb _ es); [|apply Hr; exact Hf]. inversion Hf; subst. simpl. rewrite Hw1, Hw2.
      repeat split; try assumption. apply incl_refl.
    - apply Hr. exact Hf. }
  assert (F2 : forall cs cs', wfl_cs cs = true -> uniq_cs cs -> find_default cs = Some cs' ->
               wfl_cs cs' = true /\ uniq_cs cs' /\ incl (all_labels_cs cs') (all_labels_cs cs)).
  { induction cs0 as [|k nb b f r IH]; simpl; intros cs' Hw0 Hu0 Hf; [discriminate|].
    apply andb_prop in Hw0 as [Hw1 Hw2]. destruct Hu0 as [Hu1 Hu2].
    destruct k.
    - destruct (IH cs' Hw2 Hu2 Hf) as (A & B & C). repeat split; try assumption. apply incl_appr. exact C.
    - inversion Hf; subst. simpl. rewrite Hw1, Hw2. repeat split; try assumption. apply incl_refl. }
  destruct (find_case v st cs) eqn:E1; [eapply F1; eauto|].
  destruct (find_default cs) eqn:E2; [eapply F2; eauto|].
  simpl. repeat split; auto. intros x [].
Qed.

Lemma else_shape_spine s base : else_shape s = true -> spine_labels base s = [].
Proof. destruct s; simpl; try discriminate; reflexivity. Qed.

Lemma step_exec_g n : Q_exec n -> Q_blk n -> Q_loop n -> Q_cl n -> Q_exec (S n).
Proof.
  intros IHe IHb IHl IHc s lbls st tr o st' tr' Hex Hw Hu code cx base c Hc Hat Hfr.
  destruct s as [|a b|e|u i e|nl body|ce nt thn he els|nl init cond post nb body|tag cs|l|l|l s'|l|];
    simpl in Hex, Hw, Hu, Hc; simpl spine_labels; rewrite ?add_lbls_nil.
  - (* SSkip *) inversion Hex; inversion Hc; subst. unfold simg, sim. simpl. rewrite Nat.add_0_r. apply reach_refl.
  - (* SSeq *)
    apply andb_prop in Hw as [Hw1 Hw2]. destruct Hu as (Hu1 & Hu2 & Hu3).
    inv_bind' Hc. inv_bind' Hc. inversion Hc; subst. clear Hc.
    apply at_code_app in Hat as [Hat1 Hat2]. rewrite (compile_size _ _ _ _ _ Hc0) in Hat2.
    assert (Hfa : fresh cx a) by (eapply fresh_sub; [exact Hfr|simpl; apply incl_appl, incl_refl]).
    assert (Hfb0 : fresh cx b) by (eapply fresh_sub; [exact Hfr|simpl; apply incl_appr, incl_refl]).
    assert (Hfb : fresh (add_lbls cx (spine_labels base a)) b).
    { apply fresh_add; [exact Hfb0|]. intros l Hl. apply Hu3. rewrite (spine_keys_base a 0 base). exact Hl. }
    destruct (exec n [] a st tr) as [[[o1 st1] tr1]|] eqn:E1; [|discriminate].
    assert (H1 := IHe _ _ _ _ _ _ _ E1 Hw1 Hu1 _ _ _ _ Hc0 Hat1 Hfa).
    rewrite <- add_lbls_app.
    destruct o1.
    + assert (H2 := IHe _ _ _ _ _ _ _ Hex Hw2 Hu2 _ _ _ _ Hc1 Hat2 Hfb).
      unfold simg, sim in H1. simpl size. rewrite Nat.add_assoc. eapply simg_pre; [exact H1|exact H2].
    + inversion Hex; subst. unfold simg in *. apply sim_add_lbls_rev. exact H1.
    + inversion Hex; subst. unfold simg in *. apply sim_add_lbls_rev. exact H1.
    + inversion Hex; subst. unfold simg, gotoex in *. destruct H1 as (u & t & Hr & Hreach).
      exists u, t. split; [|exact Hreach]. rewrite add_lbls_app. apply goto_ext; [exact Hr|].
      intros Hl u'. apply Hfb0. eapply spine_keys_sub. exact Hl.
    + inversion Hex; subst. unfold simg in *. apply sim_add_lbls_rev. exact H1.
  - (* SEmit *) inversion Hex; inversion Hc; subst. unfold simg, sim. apply at_code_head in Hat.
    eapply reach_one; [exact Hat|reflexivity].
  - (* SAssign *) inversion Hex; inversion Hc; subst. unfold simg, sim. apply at_code_head in Hat.
    eapply reach_one; [exact Hat|reflexivity].
  - (* SBlock *)
    inv_bind' Hc. inversion Hc; subst. clear Hc.
    apply after_block_inv in Hex as (stb & Eb & ->).
    exact (body_simg n IHb _ _ _ _ _ _ _ code cx base c0 Eb Hw Hu Hfr Hc0 Hat).
  - (* SIf *)
    apply andb_prop in Hw as [Hw1 Hw2]. destruct Hu as [Hu1 Hu2].
    inv_bind' Hc. inv_bind' Hc. inversion Hc; subst. clear Hc.
    apply at_code_cons in Hat as [Hjif Hat]. apply at_code_app in Hat as [Hthen Hat].
    rewrite wrap_length, (compile_size _ _ _ _ _ Hc0) in Hat. fold (bsize nt thn) in Hat.
    apply at_code_app in Hat as [Hjmp Helse].
    assert (Hft : fresh (emptyframe :: cx) thn).
    { apply fresh_frame. eapply fresh_sub; [exact Hfr|simpl; apply incl_appl, incl_refl]. }
    destruct (truthy (eval ce st)) eqn:Et.
    + apply after_block_inv in Hex as (stb & Eb & ->).
      assert (Hbs := body_simg n IHb _ _ _ _ _ _ _ code (emptyframe :: cx) (base + 1) c0 Eb Hw1 Hu1 Hft Hc0 Hthen).
      apply simg_plain_frame0 in Hbs; [|intros; reflexivity].
      eapply simg_pre; [eapply reach_one; [exact Hjif|simpl; rewrite Et; reflexivity]|].
      destruct o; try exact Hbs. unfold simg, sim in *. eapply reach_trans; [exact Hbs|].
      simpl size. unfold bsize. destruct he.
      * apply at_code_head in Hjmp. eapply reach_one; [exact Hjmp|]. simpl. fold (bsize nt thn). ip_eq.
      * eapply reach_ip; [|apply reach_refl]. unfold bsize; simpl; lia.
    + eapply simg_pre; [eapply reach_one; [exact Hjif|simpl; rewrite Et; reflexivity]|].
      destruct he.
      * apply andb_prop in Hw2 as [Hsh Hw2].
        assert (Hfe : fresh (emptyframe :: cx) els).
        { apply fresh_frame. eapply fresh_sub; [exact Hfr|simpl; apply incl_appr, incl_refl]. }
        assert (H2 := IHe _ _ _ _ _ _ _ Hex Hw2 Hu2 _ _ _ _ Hc1 Helse Hfe).
        rewrite (else_shape_spine els _ Hsh), add_lbls_nil in H2.
        apply simg_plain_frame0 in H2; [|intros; reflexivity].
        eapply simg_ip; [|exact H2]. unfold bsize; simpl; lia.
      * inversion Hex; subst. unfold simg, sim. eapply reach_ip; [|apply reach_refl]. unfold bsize; simpl; lia.
  - (* SFor *)
    inv_bind' Hc. inversion Hc; subst. clear Hc.
    destruct (run_simple init (push nl st) tr) as [sti tri] eqn:Ei.
    apply after_block_inv in Hex as (stl & El & ->).
    set (cond_ip := base + cost nl + length init) in *.
    set (X := map csimple init ++
              (match cond with
               | Some c => [IJif c (cond_ip + 1) (cond_ip + match cond with Some _ => 1 | None => 0 end + bsize nb body + length post + 1)]
               | None => [] end) ++ wrap nb c0 ++ map csimple post ++ [IJmp 0 cond_ip]) in *.
    assert (LX : length X = length init + match cond with Some _ => 1 | None => 0 end + bsize nb body + length post + 1).
    { subst X. rewrite !app_length, wrap_length, !map_length, (compile_size _ _ _ _ _ Hc0). unfold bsize.
      destruct cond; simpl; lia. }
    destruct (at_code_wrap _ _ _ _ Hat) as [HX Hwp].
    apply at_code_app in HX as [Hinit Hloop]. rewrite map_length in Hloop. fold cond_ip in Hloop.
    assert (Hl := IHl _ _ _ _ _ _ _ _ _ _ El Hw Hu code cx (cost nl) cond_ip c0 Hc0 Hloop Hfr).
    assert (Hri : reach code (base + cost nl, push nl st, tr) (cond_ip, sti, tri)).
    { assert (R := reach_simple code init (base + cost nl) (push nl st) tr Hinit). rewrite Ei in R. exact R. }
    assert (Hsz : base + size (SFor nl init cond post nb body) = base + cost nl + length X + cost nl).
    { rewrite LX. simpl. unfold bsize. lia. }
    rewrite Hsz. rewrite pop_skipn.
    destruct (Nat.eq_dec nl 0) as [->|Hn].
    + simpl cost in *. rewrite !Nat.add_0_r in *. simpl push in *.
      assert (G := loop_goal_g_pre _ _ _ _ _ _ _ _ _ _ _ _ _ Hri Hl).
      change (push 0 st) with st in G.
      destruct o; unfold simg, sim; try exact G.
      change (skipn (cost 0) stl) with stl. eapply reach_ip; [|exact G].
      rewrite LX; unfold cond_ip; change (cost 0) with 0; lia.
    + destruct (Hwp Hn) as [Hpush Hpop]. rewrite (cost_pos nl Hn) in *. rewrite (push_pos nl st Hn) in Hri.
      assert (Hr0 : reach code (base, st, tr) (cond_ip, sti, tri)).
      { eapply reach_trans; [eapply reach_one; [exact Hpush|reflexivity]|exact Hri]. }
      assert (G := loop_goal_g_pre _ _ _ _ _ _ _ _ _ _ _ _ _ Hr0 Hl).
      destruct o; unfold simg, sim; try exact G.
      eapply reach_trans; [exact G|].
      assert (Hpop' : nth_error code (cond_ip + match cond with Some _ => 1 | None => 0 end + bsize nb body + length post + 1) = Some IPop).
      { rewrite <- Hpop. f_equal. rewrite LX; unfold cond_ip; rewrite ?(cost_pos nl Hn); lia. }
      eapply reach_one; [exact Hpop'|]. simpl.
      match goal with |- Some (?a, _, _) = Some (?b, _, _) => replace b with a by (rewrite LX; unfold cond_ip; rewrite ?(cost_pos nl Hn); lia) end.
      destruct stl; reflexivity.
  - (* SSwitch *)
    inv_bind' Hc. inversion Hc; subst. clear Hc.
    destruct (switch_entry code cx lbls base tag cs c0 st tr Hc0 Hat) as [[Hsel Hr]|(hb' & cc' & Hne & Hc' & Hat' & Hr)].
    + rewrite Hsel in Hex. destruct n; [discriminate|]. simpl in Hex. inversion Hex; subst.
      unfold simg, sim. simpl size.
      assert (Hd := has_default_ip cs (base + match tag with Some _ => 1 | None => 0 end + 1)).
      destruct (default_ip _ cs) eqn:Ed; destruct (has_default cs) eqn:Eh;
        try (exfalso; destruct Hd as [Hd1 Hd2];
             first [ assert (X : Some n0 <> None) by congruence; specialize (Hd1 X); congruence
                   | specialize (Hd2 eq_refl); congruence ]).
      * replace (base + (match tag with Some _ => 1 | None => 0 end + 1 + csize cs + 1))
          with (base + match tag with Some _ => 1 | None => 0 end + 1 + csize cs + 1) by lia. exact Hr.
      * replace (base + (match tag with Some _ => 1 | None => 0 end + 1 + csize cs + 0))
          with (base + match tag with Some _ => 1 | None => 0 end + 1 + csize cs + 0) by lia. exact Hr.
    + destruct (clauses_from n _ st tr) as [[[o1 st1] tr1]|] eqn:Ec; [|discriminate].
      destruct (select_suffix (match tag with Some e => eval e st | None => 1%Z end) st cs Hw Hu) as (Hw' & Hu' & Hin).
      assert (Hfs : fresh_cs cx (select_clause match tag with Some e => eval e st | None => 1%Z end st cs)).
      { intros l Hl. apply Hfr. simpl. apply Hin. exact Hl. }
      assert (G := IHc _ _ _ _ _ _ Ec Hw' Hu' Hne code cx lbls hb' _ _ cc' Hc' Hat' Hfs).
      apply (cl_goal_g_pre _ _ _ _ _ _ _ _ _ _ _ _ _ Hr) in G.
      assert (Hsz : base + size (SSwitch tag cs) =
                    base + match tag with Some _ => 1 | None => 0 end + 1 + csize cs +
                    match default_ip (base + match tag with Some _ => 1 | None => 0 end + 1) cs with Some _ => 1 | None => 0 end).
      { simpl size.
        assert (Hd := has_default_ip cs (base + match tag with Some _ => 1 | None => 0 end + 1)).
        destruct (default_ip _ cs) eqn:Ed; destruct (has_default cs) eqn:Eh; try lia;
          exfalso; destruct Hd as [Hd1 Hd2];
          first [ assert (X : Some n0 <> None) by congruence; specialize (Hd1 X); congruence
                | specialize (Hd2 eq_refl); congruence ]. }
      rewrite Hsz. unfold cl_goal_g in G.
      destruct o1; simpl in Hex.
      * inversion Hex; subst. exact G.
      * unfold exits_lf in G. destruct (lmatch l lbls); inversion Hex; subst; unfold simg, sim; exact G.
      * inversion Hex; subst. exact G.
      * inversion Hex; subst. exact G.
      * inversion Hex; subst. exact G.
  - (* SBreak *)
    inversion Hex; subst. destruct (resolve_break cx l 0) as [[u t]|] eqn:Er; [|discriminate].
    inversion Hc; subst. unfold simg, sim, exits. exists u, t. split; [exact Er|].
    apply at_code_head in Hat. eapply reach_one; [exact Hat|reflexivity].
  - (* SContinue *)
    inversion Hex; subst. destruct (resolve_cont cx l 0) as [[u t]|] eqn:Er; [|discriminate].
    inversion Hc; subst. unfold simg, sim, exits. exists u, t. split; [exact Er|].
    apply at_code_head in Hat. eapply reach_one; [exact Hat|reflexivity].
  - (* SLabeled *)
    apply andb_prop in Hw as [_ Hw]. destruct Hu as [Hu0 Hu].
    assert (Hf' : fresh (add_lbls cx [(l, base)]) s').
    { apply fresh_add; [eapply fresh_sub; [exact Hfr|simpl; apply incl_tl, incl_refl]|].
      intros l1 [<-|[]]. exact Hu0. }
    assert (H1 := IHe _ _ _ _ _ _ _ Hex Hw Hu _ _ _ _ Hc Hat Hf'). rewrite add_lbls_app in H1. exact H1.
  - (* SGoto *)
    inversion Hex; subst. destruct (resolve_goto cx l 0) as [[u t]|] eqn:Er; [|discriminate].
    inversion Hc; subst. unfold simg, gotoex. exists u, t. split; [exact Er|].
    apply at_code_head in Hat. eapply reach_one; [exact Hat|reflexivity].
  - (* SReturn *)
    inversion Hex; inversion Hc; subst. unfold simg, sim, exits. exists base, st', 0.
    split; [apply reach_refl|]. split; [apply (at_code_head _ _ _ _ Hat)|reflexivity].
Qed.

Theorem simg_all : forall n, Q_exec n /\ Q_blk n /\ Q_loop n /\ Q_cl n.
Proof.
  induction n as [|n (He & Hb & Hl & Hc)].
  - split; [|split; [|split]]; unfold Q_exec, Q_blk, Q_loop, Q_cl; intros; simpl in *; discriminate.
  - assert (He' := step_exec_g n He Hb Hl Hc).
    split; [exact He'|]. split; [apply step_blk_g; assumption|].
    split; [apply step_loop_g; assumption|apply step_cl_g; assumption].
Qed.

(* ---------- function level ---------- *)
Lemma fresh_top s : fresh [emptyframe] s.
Proof. intros l _ u. reflexivity. Qed.

(* Forward simulation at function level for every program, goto included, and every fuel. *)
Theorem compile_correct : forall nres body fuel o st' tr' code,
  wfl body = true -> uniq body ->
  exec_func fuel nres body = Some (o, st', tr') -> Final.finished o ->
  compile_func nres body = Some code ->
  exists fuel' m, run fuel' code (init_state nres) = Some m /\ m_tr m = tr' /\ exists k, skipn k (m_env m) = st'.
Proof.
  intros nres body fuel o st' tr' code Hw Hu Hex Hfin Hc.
  unfold compile_func in Hc. inv_bind' Hc. inversion Hc; subst. clear Hc.
  assert (Hat : at_code (repeat INop nres ++ c) nres c).
  { exists (repeat INop nres), []. rewrite app_nil_r, repeat_length. auto. }
  assert (Hnops : at_code (repeat INop nres ++ c) 0 (repeat INop nres)).
  { exists [], c. auto. }
  destruct (simg_all fuel) as (_ & Hb & _ & _).
  destruct (Hb _ _ _ _ _ _ _ Hex (repeat INop nres ++ c) [emptyframe] nres c Hw Hu Hc0 Hat (fresh_top body)
               [] nres c Hc0 Hat eq_refl eq_refl Hw Hu (fresh_top body)) as [H _].
  assert (Hpre := Final.reach_nops _ _ 0 [repeat 0%Z nres] [] Hnops). simpl in Hpre.
  assert (Hlen : length (repeat INop nres ++ c) = nres + size body).
  { rewrite app_length, repeat_length, (compile_size _ _ _ _ _ Hc0). reflexivity. }
  destruct Hfin as [-> | ->]; unfold simg, sim, exits in H.
  - assert (R := reach_trans _ _ _ _ Hpre H). destruct (R (fun _ => 0%Z) []) as (tg & ips & S).
    assert (Hh : step (repeat INop nres ++ c) (mkM (nres + size body) st' tg tr' ips)
                 = Halt (mkM (nres + size body) st' tg tr' ips)).
    { unfold step. rewrite <- Hlen.
      assert (E : nth_error (repeat INop nres ++ c) (length (repeat INop nres ++ c)) = None)
        by (apply nth_error_None; lia).
      rewrite E, Nat.eqb_refl. reflexivity. }
    destruct (Final.steps_run _ _ _ _ S Hh) as (f & Hf). exists f, (mkM (nres + size body) st' tg tr' ips).
    repeat split; [exact Hf|]. exists 0. reflexivity.
  - destruct H as (ipr & stm & k & Hr & Hn & Hk).
    assert (R := reach_trans _ _ _ _ Hpre Hr). destruct (R (fun _ => 0%Z) []) as (tg & ips & S).
    assert (Hh : step (repeat INop nres ++ c) (mkM ipr stm tg tr' ips) = Halt (mkM ipr stm tg tr' (ipr :: ips))).
    { unfold step. rewrite Hn. reflexivity. }
    destruct (Final.steps_run _ _ _ _ S Hh) as (f & Hf). exists f, (mkM ipr stm tg tr' (ipr :: ips)).
    repeat split; [exact Hf|]. exists k. exact Hk.
Qed.

(* [uniq] follows from: all labels of the function are distinct (what the Go compiler enforces) *)
Lemma nodup_app_disj {A} (a b : list A) : NoDup (a ++ b) -> forall x, In x a -> ~ In x b.
Proof.
  induction a as [|y a IH]; simpl; intros H x Hx; [contradiction|].
  inversion H as [|? ? Hy Hn]; subst. destruct Hx as [->|Hx].
  - intros Hb. apply Hy. apply in_or_app. right. exact Hb.
  - apply IH; assumption.
Qed.

Lemma nodup_app_l {A} (a b : list A) : NoDup (a ++ b) -> NoDup a.
Proof.
  induction a as [|y a IH]; simpl; intros H; [constructor|].
  inversion H as [|? ? Hy Hn]; subst. constructor; [|apply IH; exact Hn].
  intros X. apply Hy. apply in_or_app. left. exact X.
Qed.

Lemma nodup_app_r {A} (a b : list A) : NoDup (a ++ b) -> NoDup b.
Proof. induction a as [|y a IH]; simpl; intros H; [exact H|]. inversion H; subst. apply IH. assumption. Qed.

Lemma nodup_uniq_both :
  (forall s, NoDup (all_labels s) -> uniq s) /\ (forall cs, NoDup (all_labels_cs cs) -> uniq_cs cs).
Proof.
  apply stmt_clauses_ind; simpl; intros; auto.
  - (* SSeq *)
    repeat split.
    + apply H. eapply nodup_app_l. exact H1.
    + apply H0. eapply nodup_app_r. exact H1.
    + intros l Hl. apply (nodup_app_disj _ _ H1). eapply spine_keys_sub. exact Hl.
  - (* SIf *)
    split; [apply H; eapply nodup_app_l; exact H1|].
    destruct he; [apply H0; eapply nodup_app_r; exact H1|exact I].
  - (* SLabeled *)
    inversion H0; subst. split; [assumption|apply H; assumption].
  - (* CCons *)
    split; [apply H; eapply nodup_app_l; exact H1|apply H0; eapply nodup_app_r; exact H1].
Qed.

Definition nodup_uniq := proj1 nodup_uniq_both.

Corollary compile_correct_nodup : forall nres body fuel o st' tr' code,
  wfl body = true -> NoDup (all_labels body) ->
  exec_func fuel nres body = Some (o, st', tr') -> Final.finished o ->
  compile_func nres body = Some code ->
  exists fuel' m, run fuel' code (init_state nres) = Some m /\ m_tr m = tr' /\ exists k, skipn k (m_env m) = st'.
Proof. intros. eapply compile_correct; eauto. apply nodup_uniq. assumption. Qed.


(* C05 — lemmas, part 1: code placement, machine reachability, size of compiled code, jump resolution. *)
From Coq Require Import List ZArith Bool Arith Lia.
From Verif Require Import MiniGo.Syntax MiniGo.Sem MiniGo.Fast.
Import ListNotations.
Open Scope nat_scope.

(* ---------- monadic inversion ---------- *)
Lemma bind_some {A B} (o : option A) (f : A -> option B) r :
  bind o f = Some r -> exists x, o = Some x /\ f x = Some r.
Proof. destruct o; simpl; intros H; [eauto|discriminate]. Qed.

Ltac inv_bind H :=
  match type of H with
  | bind ?o ?f = Some ?r =>
      let x := fresh "c" in let H1 := fresh "Hc" in let H2 := fresh H in
      destruct (bind_some o f r H) as (x & H1 & H2); clear H; simpl in H2
  end.

(* same, keeping the name of the hypothesis for the continuation *)
Ltac inv_bind' H :=
  match type of H with
  | bind ?o ?f = Some ?r =>
      let x := fresh "c" in let H1 := fresh "Hc" in let H2 := fresh "Hk" in
      destruct (bind_some o f r H) as (x & H1 & H2); clear H; rename H2 into H; simpl in H
  end.

(* ---------- a code fragment sits at address base ---------- *)
Definition at_code (code : list instr) (base : nat) (c : list instr) : Prop :=
  exists pre post, code = pre ++ c ++ post /\ length pre = base.

Lemma at_code_app code base c1 c2 :
  at_code code base (c1 ++ c2) -> at_code code base c1 /\ at_code code (base + length c1) c2.
Proof.
  intros (pre & post & -> & <-). split.
  - exists pre, (c2 ++ post). rewrite <- app_assoc. auto.
  - exists (pre ++ c1), post. rewrite app_length. split; [|reflexivity].
    rewrite <- !app_assoc. reflexivity.
Qed.

Lemma at_code_app_l code base c1 c2 : at_code code base (c1 ++ c2) -> at_code code base c1.
Proof. intros H; apply (at_code_app _ _ _ _ H). Qed.

Lemma at_code_app_r code base c1 c2 : at_code code base (c1 ++ c2) -> at_code code (base + length c1) c2.
Proof. intros H; apply (at_code_app _ _ _ _ H). Qed.

Lemma at_code_cons code base i c : at_code code base (i :: c) -> nth_error code base = Some i /\ at_code code (base + 1) c.
Proof.
  intros H. change (i :: c) with ([i] ++ c) in H. apply at_code_app in H as [(pre & post & -> & <-) H2].
  split; [|exact H2]. rewrite nth_error_app2 by lia. rewrite Nat.sub_diag. reflexivity.
Qed.

Lemma at_code_head code base i c : at_code code base (i :: c) -> nth_error code base = Some i.
Proof. intros H; apply (at_code_cons _ _ _ _ H). Qed.

Lemma at_code_nth code base c k i : at_code code base c -> nth_error c k = Some i -> nth_error code (base + k) = Some i.
Proof.
  intros (pre & post & -> & <-) H.
  rewrite nth_error_app2 by lia. replace (length pre + k - length pre) with k by lia.
  rewrite nth_error_app1; [exact H|]. apply nth_error_Some. congruence.
Qed.

Lemma at_code_wrap code base n c :
  at_code code base (wrap n c) ->
  at_code code (base + cost n) c /\
  (n <> 0 -> nth_error code base = Some (IPush n) /\ nth_error code (base + 1 + length c) = Some IPop).
Proof.
  unfold wrap, cost. destruct (Nat.eqb_spec n 0) as [->|Hn]; intros H.
  - rewrite Nat.add_0_r. split; [exact H|]. intros; congruence.
  - apply at_code_cons in H as [H1 H2]. apply at_code_app in H2 as [H2 H3].
    split; [exact H2|]. intros _. split; [exact H1|]. apply at_code_head in H3. exact H3.
Qed.

Lemma wrap_length n c : length (wrap n c) = length c + 2 * cost n.
Proof.
  unfold wrap, cost. destruct (Nat.eqb n 0); simpl; [lia|]. rewrite app_length. simpl. lia.
Qed.

(* ---------- machine runs ---------- *)
Inductive steps (code : list instr) : mstate -> mstate -> Prop :=
| steps_refl s : steps code s s
| steps_step s s1 s2 : step code s = Step s1 -> steps code s1 s2 -> steps code s s2.

Lemma steps_trans code a b c : steps code a b -> steps code b c -> steps code a c.
Proof. induction 1; intros; [assumption|]. econstructor; eauto. Qed.

Lemma steps_one code a b : step code a = Step b -> steps code a b.
Proof. intros; econstructor; [eassumption|constructor]. Qed.

(* reachability regardless of (and with unknown effect on) the tag binds and the recorded IP history *)
Definition reach (code : list instr) (a b : nat * envs * list Z) : Prop :=
  let '(ip, st, tr) := a in
  let '(ip', st', tr') := b in
  forall tg ips, exists tg' ips', steps code (mkM ip st tg tr ips) (mkM ip' st' tg' tr' ips').

Arguments reach : simpl never.

Lemma reach_refl code a : reach code a a.
Proof. destruct a as [[ip st] tr]. intros tg ips. exists tg, ips. constructor. Qed.

Lemma reach_trans code a b c : reach code a b -> reach code b c -> reach code a c.
Proof.
  destruct a as [[? ?] ?], b as [[? ?] ?], c as [[? ?] ?]. intros H1 H2 tg ips.
  destruct (H1 tg ips) as (tg1 & ips1 & S1). destruct (H2 tg1 ips1) as (tg2 & ips2 & S2).
  exists tg2, ips2. eapply steps_trans; eauto.
Qed.

(* instructions whose effect does not involve the tag binds *)
Definition simple_step (i : instr) (ip : nat) (st : envs) (tr : list Z) : option (nat * envs * list Z) :=
  match i with
  | INop => Some (ip + 1, st, tr)
  | IEmit e => Some (ip + 1, st, eval e st :: tr)
  | IAssign u x e => Some (ip + 1, wr st u x (eval e st), tr)
  | IPush n => Some (ip + 1, repeat 0%Z n :: st, tr)
  | IPop => Some (ip + 1, tl st, tr)
  | IJmp upn tgt => Some (tgt, skipn upn st, tr)
  | IJif c t f => Some (if truthy (eval c st) then t else f, st, tr)
  | IFall => Some (ip + 2, st, tr)
  | _ => None
  end.

Lemma reach_one code ip st tr i b :
  nth_error code ip = Some i -> simple_step i ip st tr = Some b -> reach code (ip, st, tr) b.
Proof.
  destruct b as [[ip' st'] tr']. intros Hn Hs tg ips.
  exists tg, (ip :: ips). apply steps_one. unfold step. rewrite Hn.
  destruct i; simpl in Hs; inversion Hs; subst; reflexivity.
Qed.

Lemma reach_step code ip st tr i b c :
  nth_error code ip = Some i -> simple_step i ip st tr = Some b -> reach code b c -> reach code (ip, st, tr) c.
Proof. intros. eapply reach_trans; [eapply reach_one; eauto|assumption]. Qed.

(* init / post statements of a for *)
Lemma reach_simple code ss : forall b st tr,
  at_code code b (map csimple ss) ->
  reach code (b, st, tr) (b + length ss, fst (run_simple ss st tr), snd (run_simple ss st tr)).
Proof.
  induction ss as [|s ss IH]; intros b st tr H; simpl.
  - rewrite Nat.add_0_r. apply reach_refl.
  - simpl in H. apply at_code_cons in H as [Hh Ht].
    destruct s as [u i e|e]; simpl in *.
    + eapply reach_step; [exact Hh|reflexivity|]. replace (b + S (length ss)) with (b + 1 + length ss) by lia.
      apply IH. exact Ht.
    + eapply reach_step; [exact Hh|reflexivity|]. replace (b + S (length ss)) with (b + 1 + length ss) by lia.
      apply IH. exact Ht.
Qed.

(* ---------- stores ---------- *)
Lemma pop_skipn n st : pop n st = skipn (cost n) st.
Proof. unfold pop, cost. destruct (Nat.eqb n 0); [reflexivity|]. destruct st; reflexivity. Qed.

Lemma push_cost0 n st : n = 0 -> push n st = st.
Proof. intros ->. reflexivity. Qed.

Lemma push_pos n st : n <> 0 -> push n st = repeat 0%Z n :: st.
Proof. unfold push. destruct (Nat.eqb_spec n 0); congruence. Qed.

Lemma cost_pos n : n <> 0 -> cost n = 1.
Proof. unfold cost. destruct (Nat.eqb_spec n 0); congruence. Qed.

Lemma skipn_skipn {A} a b (l : list A) : skipn a (skipn b l) = skipn (b + a) l.
Proof.
  revert l; induction b as [|b IH]; intros l; simpl; [reflexivity|].
  destruct l; [destruct a; reflexivity|]. apply IH.
Qed.

(* ---------- size of the compiled code ---------- *)
Lemma has_default_ip cs : forall base, (default_ip base cs <> None) <-> has_default cs = true.
Proof.
  induction cs as [|k nb body fall rest IH]; intros base; simpl.
  - split; [congruence|discriminate].
  - destruct k; [apply IH|]. split; [reflexivity|discriminate].
Qed.

Lemma compile_size_both :
  (forall s cx base lbls c, compile cx base lbls s = Some c -> length c = size s) /\
  (forall cs cx base tid brk c, compile_clauses cx base tid brk cs = Some c -> length c = csize cs).
Proof.
  apply stmt_clauses_ind; simpl; intros.
  - inversion H; reflexivity.
  - inv_bind H1. inv_bind H2. inversion H1; subst. rewrite app_length.
    rewrite (H _ _ _ _ Hc), (H0 _ _ _ _ Hc0). reflexivity.
  - inversion H; reflexivity.
  - inversion H; reflexivity.
  - inv_bind H0. inversion H1; subst. rewrite wrap_length. rewrite (H _ _ _ _ Hc). reflexivity.
  - inv_bind H1. inv_bind H2. inversion H1; subst. simpl. rewrite !app_length, wrap_length.
    rewrite (H _ _ _ _ Hc). destruct he; simpl.
    + rewrite (H0 _ _ _ _ Hc0). lia.
    + inversion Hc0; subst. simpl. lia.
  - inv_bind H0. inversion H1; subst. rewrite wrap_length, !app_length, wrap_length, !map_length.
    rewrite (H _ _ _ _ Hc). destruct cond; simpl; lia.
  - inv_bind H0. inversion H1; subst. rewrite app_length. simpl length. rewrite app_length.
    rewrite (H _ _ _ _ _ Hc).
    assert (Hd := has_default_ip cs (base + match tag with Some _ => 1 | None => 0 end + 1)).
    destruct (default_ip _ cs) eqn:E; destruct (has_default cs) eqn:E2; destruct tag; simpl; try lia.
    all: exfalso; destruct Hd as [Hd1 Hd2];
      first [ assert (X : Some n <> None) by congruence; specialize (Hd1 X); congruence
            | specialize (Hd2 eq_refl); congruence ].
  - destruct (resolve_break cx l 0) as [[u t]|]; inversion H; reflexivity.
  - destruct (resolve_cont cx l 0) as [[u t]|]; inversion H; reflexivity.
  - eauto.
  - destruct (resolve_goto cx l 0) as [[u t]|]; inversion H; reflexivity.
  - inversion H; reflexivity.
  - inversion H; reflexivity.
  - destruct (fall && is_cnil rest); [discriminate|].
    inv_bind H1. inv_bind H2. inversion H1; subst. simpl. rewrite !app_length, wrap_length. simpl.
    rewrite (H _ _ _ _ Hc), (H0 _ _ _ _ _ Hc0). lia.
Qed.

Definition compile_size := proj1 compile_size_both.
Definition compile_clauses_size := proj2 compile_size_both.

(* ---------- jump resolution ---------- *)
Definition shift (k : nat) (r : option (nat * nat)) : option (nat * nat) :=
  match r with Some (u, t) => Some (u + k, t) | None => None end.

Lemma resolve_break_shift cx l : forall k, resolve_break cx l k = shift k (resolve_break cx l 0).
Proof.
  induction cx as [|f r IH]; intros k; simpl; [reflexivity|].
  destruct (f_loop f) as [li|].
  - destruct (lmatch l (li_labels li)); [reflexivity|].
    rewrite (IH (k + f_cost f)), (IH (f_cost f)).
    destruct (resolve_break r l 0) as [[u t]|]; simpl; [f_equal; f_equal; lia|reflexivity].
  - rewrite (IH (k + f_cost f)), (IH (f_cost f)).
    destruct (resolve_break r l 0) as [[u t]|]; simpl; [f_equal; f_equal; lia|reflexivity].
Qed.

Lemma resolve_cont_shift cx l : forall k, resolve_cont cx l k = shift k (resolve_cont cx l 0).
Proof.
  induction cx as [|f r IH]; intros k; simpl; [reflexivity|].
  assert (E : resolve_cont r l (k + f_cost f) = shift k (resolve_cont r l (f_cost f))).
  { rewrite (IH (k + f_cost f)), (IH (f_cost f)).
    destruct (resolve_cont r l 0) as [[u t]|]; simpl; [f_equal; f_equal; lia|reflexivity]. }
  destruct (f_loop f) as [[ls b [ct|]]|]; try exact E.
  destruct (lmatch l ls); [reflexivity|exact E].
Qed.

Lemma resolve_break_add_lbls cx ls l k : resolve_break (add_lbls cx ls) l k = resolve_break cx l k.
Proof. destruct cx; reflexivity. Qed.

Lemma resolve_cont_add_lbls cx ls l k : resolve_cont (add_lbls cx ls) l k = resolve_cont cx l k.
Proof. destruct cx; reflexivity. Qed.

(* a Comp without LoopInfo (block, if): the search continues outward, upn grows by its UpCost *)
Lemma resolve_break_plain c lb cx l :
  resolve_break (mkFrame c None lb :: cx) l 0 = shift c (resolve_break cx l 0).
Proof. simpl. apply resolve_break_shift. Qed.

Lemma resolve_cont_plain c lb cx l :
  resolve_cont (mkFrame c None lb :: cx) l 0 = shift c (resolve_cont cx l 0).
Proof. simpl. apply resolve_cont_shift. Qed.

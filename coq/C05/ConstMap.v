(* C05 -- a jump table built from ALL constant cases (caseHelper.ConstMap) is not equivalent to the linear scan:
   switch v { case 0: case 1: case x: case 2: } with x == v == 2 must select `case x` (Go evaluates the case
   expressions top to bottom and takes the first match); the ConstMap table jumps to the body of `case 2`. *)
From Coq Require Import List ZArith Bool Arith Lia.
From Verif Require Import MiniGo.Syntax MiniGo.Sem MiniGo.Fast C05.Model C05.Switch.
Import ListNotations.

Definition cm_witness : clauses :=
  CCons (CCase [EConst 0]) 0 SSkip false
  (CCons (CCase [EConst 1]) 0 SSkip false
  (CCons (CCase [EVar 0 0]) 0 SSkip false
  (CCons (CCase [EConst 2]) 0 SSkip false CNil))).

Lemma constmap_not_equiv :
  exists (v : Z) (st : envs) (cs : clauses) (hb t hb' : nat),
    zassoc v (constmap hb cs) = Some t /\ case_ip v st hb cs = Some hb' /\ t <> hb' + 1 /\
    (* while the table of the leading constants (GotoMap) has no entry for v: the scan decides *)
    zassoc v (gotomap hb cs true) = None /\ 2 <= length (gotomap hb cs true).
Proof.
  exists 2%Z, [[2%Z]], cm_witness, 0, 7, 4.
  split; [reflexivity|]. split; [reflexivity|]. split; [discriminate|]. split; [reflexivity|]. simpl. lia.
Qed.

(* C05 — lemmas, part 6: every control transfer of compiled code goes to a valid index (all statements, goto included),
   and what break / continue / goto are patched to. *)
From Coq Require Import List ZArith Bool Arith Lia.
From Verif Require Import MiniGo.Syntax MiniGo.Sem MiniGo.Fast C05.Proof.
Import ListNotations.
Open Scope nat_scope.

(* all possible successors of the instruction at address ip (what the returned `env.Code[ip']` can index) *)
Definition targets (ip : nat) (i : instr) : list nat :=
  match i with
  | IJmp _ t => [t]
  | IJif _ t f => [t; f]
  | ICase _ _ iend => [ip + 1; iend]
  | IFall => [ip + 2]
  | IGotoMap _ tbl => (ip + 1) :: map snd tbl
  | IRet => []
  | _ => [ip + 1]
  end.

(* the fragment c placed at base only transfers control to addresses <= L *)
Definition code_ok (L base : nat) (c : list instr) : Prop :=
  forall k i, nth_error c k = Some i -> forall t, In t (targets (base + k) i) -> t <= L.

Definition frame_ok (L : nat) (f : cframe) : Prop :=
  match f_loop f with
  | Some li => li_brk li <= L /\ match li_cont li with Some ct => ct <= L | None => True end
  | None => True
  end /\ Forall (fun kv => snd kv <= L) (f_lbls f).

Definition ctx_ok (L : nat) (cx : ctx) : Prop := Forall (frame_ok L) cx.

Lemma code_ok_nil L base : code_ok L base [].
Proof. intros k i H. destruct k; discriminate. Qed.

Lemma code_ok_eq L b1 b2 c : b1 = b2 -> code_ok L b1 c -> code_ok L b2 c.
Proof. intros ->; auto. Qed.

Lemma code_ok_app L base c1 c2 :
  code_ok L base c1 -> code_ok L (base + length c1) c2 -> code_ok L base (c1 ++ c2).
Proof.
  intros H1 H2 k i Hn t Ht. destruct (Nat.lt_ge_cases k (length c1)) as [Hk|Hk].
  - rewrite nth_error_app1 in Hn by assumption. eapply H1; eauto.
  - rewrite nth_error_app2 in Hn by assumption. eapply H2; [exact Hn|].
    replace (base + length c1 + (k - length c1)) with (base + k) by lia. exact Ht.
Qed.

Lemma code_ok_one L base i : (forall t, In t (targets base i) -> t <= L) -> code_ok L base [i].
Proof.
  intros H k j Hn t Ht. destruct k as [|[|k]]; simpl in Hn; try discriminate. inversion Hn; subst.
  rewrite Nat.add_0_r in Ht. auto.
Qed.

Lemma code_ok_cons L base i c :
  (forall t, In t (targets base i) -> t <= L) -> code_ok L (base + 1) c -> code_ok L base (i :: c).
Proof. intros H1 H2. change (i :: c) with ([i] ++ c). apply code_ok_app; [apply code_ok_one; exact H1|exact H2]. Qed.

Lemma code_ok_wrap L base n c :
  code_ok L (base + cost n) c -> base + length c + 2 * cost n <= L -> code_ok L base (wrap n c).
Proof.
  unfold wrap, cost. destruct (Nat.eqb n 0); intros H Hl.
  - rewrite Nat.add_0_r in H. exact H.
  - apply code_ok_cons; [simpl; intros t [<-|[]]; lia|]. apply code_ok_app; [exact H|].
    apply code_ok_one. simpl. intros t [<-|[]]. lia.
Qed.

Lemma code_ok_simple L base ss : base + length ss <= L -> code_ok L base (map csimple ss).
Proof.
  revert base. induction ss as [|s ss IH]; intros base H; simpl in *; [apply code_ok_nil|].
  apply code_ok_cons; [|apply IH; lia]. destruct s; simpl; intros t [<-|[]]; lia.
Qed.

(* ---------- the targets recorded in the Comp chain ---------- *)
Lemma ctx_ok_add_lbls L cx ls : ctx_ok L cx -> Forall (fun kv => snd kv <= L) ls -> ctx_ok L (add_lbls cx ls).
Proof.
  intros H Hl. destruct cx as [|f r]; [constructor|]. inversion H as [|? ? [Hf1 Hf2] Hr]; subst.
  constructor; [|exact Hr]. split; [exact Hf1|]. simpl. apply Forall_app. split; assumption.
Qed.

Lemma resolve_break_ok L cx l : ctx_ok L cx -> forall u u' t, resolve_break cx l u = Some (u', t) -> t <= L.
Proof.
  induction 1 as [|f r [Hf _] Hr IH]; intros u u' t; simpl; [discriminate|].
  destruct (f_loop f) as [li|]; [|apply IH].
  destruct (lmatch l (li_labels li)); [|apply IH]. intros E; inversion E; subst. apply Hf.
Qed.

Lemma resolve_cont_ok L cx l : ctx_ok L cx -> forall u u' t, resolve_cont cx l u = Some (u', t) -> t <= L.
Proof.
  induction 1 as [|f r [Hf _] Hr IH]; intros u u' t; simpl; [discriminate|].
  destruct (f_loop f) as [[ls b [ct|]]|]; try apply IH.
  destruct (lmatch l ls); [|apply IH]. intros E; inversion E; subst. apply Hf.
Qed.

Lemma assoc_in l ls t : assoc l ls = Some t -> In (l, t) ls.
Proof.
  induction ls as [|[k v] r IH]; simpl; [discriminate|].
  destruct (Nat.eqb_spec l k) as [->|_]; [intros E; inversion E; auto|auto].
Qed.

Lemma resolve_goto_ok L cx l : ctx_ok L cx -> forall u u' t, resolve_goto cx l u = Some (u', t) -> t <= L.
Proof.
  induction 1 as [|f r [_ Hf] Hr IH]; intros u u' t; simpl; [discriminate|].
  destruct (assoc l (f_lbls f)) as [tg|] eqn:E; [|apply IH].
  intros X; inversion X; subst. apply assoc_in in E. rewrite Forall_forall in Hf. apply (Hf _ E).
Qed.

(* labels of a statement sequence are addresses of its own statements *)
Lemma spine_labels_bound s : forall base, Forall (fun kv => base <= snd kv <= base + size s) (spine_labels base s).
Proof.
  induction s; intros base; simpl; try constructor.
  - apply Forall_app. split.
    + eapply Forall_impl; [|apply IHs1]. simpl. intros a H. lia.
    + eapply Forall_impl; [|apply IHs2]. simpl. intros a H. lia.
  - simpl. lia.
  - apply IHs.
Qed.

(* ---------- the switch tables ---------- *)
Lemma gm_es_targets ib es : forall allc, Forall (fun kv => snd kv = ib) (fst (gm_es ib es allc)).
Proof.
  induction es as [|e r IH]; intros allc; simpl; [constructor|].
  destruct (econst e); [|apply IH]. specialize (IH allc). destruct (gm_es ib r allc) as [m a]. simpl in *.
  apply Forall_app. split; [destruct allc; repeat constructor|exact IH].
Qed.

Lemma gotomap_targets cs : forall base allc,
  Forall (fun kv => base < snd kv <= base + csize cs) (gotomap base cs allc).
Proof.
  induction cs as [|k nb body fall rest IH]; intros base allc; simpl; [constructor|].
  assert (IH' : forall a, Forall (fun kv => base < snd kv <= base + S (size body + 2 * cost nb + 1 + csize rest))
                            (gotomap (base + 1 + bsize nb body + 1) rest a)).
  { intros a. eapply Forall_impl; [|apply IH]. unfold bsize. simpl. intros x H. lia. }
  destruct k as [es|]; [|apply IH'].
  assert (G := gm_es_targets (base + 1) es allc). destruct (gm_es (base + 1) es allc) as [m a]. simpl in G.
  apply Forall_app. split; [|apply IH'].
  eapply Forall_impl; [|exact G]. simpl. intros x ->. lia.
Qed.

Lemma default_ip_bound cs : forall base d, default_ip base cs = Some d -> base <= d /\ d + 2 <= base + csize cs.
Proof.
  induction cs as [|k nb body fall rest IH]; intros base d; simpl; [discriminate|].
  destruct k.
  - intros H. apply IH in H. unfold bsize in H. lia.
  - intros H. inversion H; subst. lia.
Qed.

Lemma csize_pos cs : cs <> CNil -> 2 <= csize cs.
Proof. destruct cs; [congruence|simpl; lia]. Qed.

(* ---------- every jump target in compiled code is a valid index ---------- *)
Lemma targets_valid_both :
  (forall s cx base lbls c L, compile cx base lbls s = Some c -> ctx_ok L cx -> base + size s <= L ->
                              code_ok L base c) /\
  (forall cs cx base tid brk c L, compile_clauses cx base tid brk cs = Some c -> ctx_ok L cx -> brk <= L ->
                                  base + csize cs <= L -> code_ok L base c).
Proof.
  apply stmt_clauses_ind; simpl; intros.
  - (* SSkip *) inversion H; apply code_ok_nil.
  - (* SSeq *)
    inv_bind' H1. inv_bind' H1. inversion H1; subst. apply code_ok_app.
    + eapply H; eauto. lia.
    + rewrite (compile_size _ _ _ _ _ Hc). eapply H0; eauto; [|lia].
      apply ctx_ok_add_lbls; [assumption|]. eapply Forall_impl; [|apply spine_labels_bound]. simpl. intros x Hx. lia.
  - (* SEmit *) inversion H; subst. apply code_ok_one. simpl. intros t [<-|[]]. lia.
  - (* SAssign *) inversion H; subst. apply code_ok_one. simpl. intros t [<-|[]]. lia.
  - (* SBlock *)
    inv_bind' H0. inversion H0; subst. apply code_ok_wrap.
    + eapply H; eauto; [|lia]. constructor; [split; [exact I|constructor]|assumption].
    + rewrite (compile_size _ _ _ _ _ Hc). lia.
  - (* SIf *)
    inv_bind' H1. inv_bind' H1. inversion H1; subst. clear H1.
    assert (L1 := compile_size _ _ _ _ _ Hc). unfold bsize in *.
    assert (Hcxi : ctx_ok L (emptyframe :: cx)) by (constructor; [split; [exact I|constructor]|assumption]).
    apply code_ok_cons.
    { simpl. intros t [<-|[<-|[]]]; destruct he; lia. }
    apply code_ok_app.
    { apply code_ok_wrap; [|rewrite L1; destruct he; lia].
      eapply H; eauto; [|destruct he; lia]. constructor; [split; [exact I|constructor]|assumption]. }
    rewrite wrap_length, L1. destruct he.
    + apply code_ok_cons; [simpl; intros t [<-|[]]; lia|]. eapply H0; eauto. lia.
    + inversion Hc0; subst. simpl. apply code_ok_nil.
  - (* SFor *)
    inv_bind' H0. inversion H0; subst. clear H0.
    assert (L1 := compile_size _ _ _ _ _ Hc). unfold bsize in *.
    assert (Lc : length (match cond with Some c1 => [IJif c1 (base + cost n + length init + 1)
                     (base + cost n + length init + match cond with Some _ => 1 | None => 0 end + (size body + 2 * cost nb) + length post + 1)]
                   | None => [] end) = match cond with Some _ => 1 | None => 0 end) by (destruct cond; reflexivity).
    apply code_ok_wrap.
    2:{ rewrite !app_length, wrap_length, !map_length, L1, Lc. simpl. lia. }
    apply code_ok_app; [apply code_ok_simple; lia|]. rewrite map_length.
    apply code_ok_app.
    { destruct cond; [|apply code_ok_nil]. apply code_ok_one. simpl. intros t [<-|[<-|[]]]; lia. }
    rewrite Lc. apply code_ok_app.
    { apply code_ok_wrap; [|rewrite L1; lia]. eapply H; eauto; [|destruct cond; lia].
      constructor; [split; [exact I|constructor]|].
      constructor; [|assumption]. split; [|constructor]. simpl. split; [lia|]. destruct post; destruct cond; lia. }
    rewrite wrap_length, L1. apply code_ok_app; [apply code_ok_simple; destruct cond; lia|].
    apply code_ok_one. simpl. intros t [<-|[]]. lia.
  - (* SSwitch *)
    inv_bind' H0. inversion H0; subst. clear H0.
    assert (L1 := compile_clauses_size _ _ _ _ _ _ Hc).
    set (tc := match tag with Some _ => 1 | None => 0 end) in *.
    assert (Hd := has_default_ip cs (base + tc + 1)).
    assert (Hdb := default_ip_bound cs (base + tc + 1)).
    assert (Hsz : base + tc + 1 + csize cs + match default_ip (base + tc + 1) cs with Some _ => 1 | None => 0 end <= L).
    { destruct (default_ip (base + tc + 1) cs) eqn:Ed; destruct (has_default cs) eqn:Eh; try lia;
        exfalso; destruct Hd as [Hd1 Hd2];
        first [ assert (X : Some n <> None) by congruence; specialize (Hd1 X); congruence
              | specialize (Hd2 eq_refl); congruence ]. }
    assert (Ltag : length (match tag with Some e => [ITag base e] | None => [] end) = tc) by (destruct tag; reflexivity).
    apply code_ok_app.
    { destruct tag; [|apply code_ok_nil]. apply code_ok_one. simpl. intros t [<-|[]]. subst tc. lia. }
    rewrite Ltag. apply code_ok_cons.
    { assert (G := gotomap_targets cs (base + tc + 1) true).
      assert (Hnop : forall t, In t (targets (base + tc) INop) -> t <= L) by (simpl; intros t [<-|[]]; lia).
      destruct tag; [|exact Hnop].
      match goal with |- context [if ?b then IGotoMap _ _ else INop] => destruct b end; [|exact Hnop].
      simpl. intros t [<-|Ht]; [lia|]. apply in_map_iff in Ht as (kv & <- & Hin).
      rewrite Forall_forall in G. specialize (G _ Hin). simpl in G. lia. }
    apply code_ok_app.
    { eapply H; eauto; try lia. constructor; [|assumption]. split; [|constructor]. simpl. split; [lia|exact I]. }
    rewrite L1. destruct (default_ip (base + tc + 1) cs) as [d|] eqn:Ed; [|apply code_ok_nil].
    apply code_ok_one. simpl. intros t [<-|[]]. specialize (Hdb d eq_refl). lia.
  - (* SBreak *)
    destruct (resolve_break cx l 0) as [[u t]|] eqn:E; inversion H; subst.
    apply code_ok_one. simpl. intros t' [<-|[]]. eapply resolve_break_ok; eauto.
  - (* SContinue *)
    destruct (resolve_cont cx l 0) as [[u t]|] eqn:E; inversion H; subst.
    apply code_ok_one. simpl. intros t' [<-|[]]. eapply resolve_cont_ok; eauto.
  - (* SLabeled *)
    eapply H; eauto. apply ctx_ok_add_lbls; [assumption|]. repeat constructor. simpl. lia.
  - (* SGoto *)
    destruct (resolve_goto cx l 0) as [[u t]|] eqn:E; inversion H; subst.
    apply code_ok_one. simpl. intros t' [<-|[]]. eapply resolve_goto_ok; eauto.
  - (* SReturn *) inversion H; subst. apply code_ok_one. simpl. intros t [].
  - (* CNil *) inversion H; apply code_ok_nil.
  - (* CCons *)
    destruct (fall && is_cnil rest) eqn:Ef; [discriminate|].
    inv_bind' H1. inv_bind' H1. inversion H1; subst. clear H1.
    assert (L1 := compile_size _ _ _ _ _ Hc). unfold bsize in *.
    apply code_ok_cons.
    { destruct k; simpl; [intros t [<-|[<-|[]]]|intros t [<-|[]]]; lia. }
    apply code_ok_app.
    { apply code_ok_wrap; [|rewrite L1; lia]. eapply H; eauto; [|lia].
      constructor; [split; [exact I|constructor]|assumption]. }
    rewrite wrap_length, L1. apply code_ok_cons.
    { destruct fall; simpl; intros t [<-|[]]; [|lia].
      assert (Hr : rest <> CNil) by (intros ->; simpl in Ef; discriminate).
      apply csize_pos in Hr. lia. }
    eapply code_ok_eq; [|eapply H0; eauto; lia]. lia.
Qed.

Definition targets_valid := proj1 targets_valid_both.

(* function level: every successor of every instruction of the compiled function is <= len(code);
   code[len(code)] is the spinInterrupt slot appended by Code.Exec, so all of them index env.Code validly *)
Theorem jump_targets_valid : forall nres body code, compile_func nres body = Some code ->
  forall ip i, nth_error code ip = Some i -> forall t, In t (targets ip i) -> t <= length code.
Proof.
  intros nres body code Hc. unfold compile_func in Hc. inv_bind' Hc. inversion Hc; subst. clear Hc.
  assert (Hl : length (repeat INop nres ++ c) = nres + size body)
    by (rewrite app_length, repeat_length, (compile_size _ _ _ _ _ Hc0); reflexivity).
  assert (H : code_ok (nres + size body) 0 (repeat INop nres ++ c)).
  { apply code_ok_app.
    - intros k i Hn t Ht. assert (Hk : k < nres).
      { rewrite <- (repeat_length INop nres). apply nth_error_Some. congruence. }
      apply nth_error_In, repeat_spec in Hn. subst i. simpl in Ht. destruct Ht as [<-|[]]. lia.
    - rewrite repeat_length. eapply targets_valid; [exact Hc0| |lia].
      constructor; [split; [exact I|constructor]|constructor]. }
  intros ip i Hn t Ht. rewrite Hl. exact (H ip i Hn t Ht).
Qed.

(* ---------- what break / continue / goto are patched to: the innermost matching construct, with
   upn = sum of the UpCost of the Comps crossed (= number of runtime envs those Comps pushed) ---------- *)
Definition sum_cost (fs : list cframe) : nat := fold_right (fun f a => f_cost f + a) 0 fs.

Definition crossed_brk (l : option nat) (f : cframe) : bool :=
  match f_loop f with Some li => negb (lmatch l (li_labels li)) | None => true end.

Definition crossed_cont (l : option nat) (f : cframe) : bool :=
  match f_loop f with Some (mkLoop ls _ (Some _)) => negb (lmatch l ls) | _ => true end.

Definition crossed_goto (l : nat) (f : cframe) : bool :=
  match assoc l (f_lbls f) with Some _ => false | None => true end.

Lemma resolve_break_through l fs : forall f cx li u,
  forallb (crossed_brk l) fs = true -> f_loop f = Some li -> lmatch l (li_labels li) = true ->
  resolve_break (fs ++ f :: cx) l u = Some (u + sum_cost fs, li_brk li).
Proof.
  induction fs as [|g fs IH]; intros f cx li u Hc Hf Hm; simpl in *.
  - rewrite Hf, Hm. rewrite Nat.add_0_r. reflexivity.
  - apply andb_prop in Hc as [Hg Hc]. unfold crossed_brk in Hg.
    destruct (f_loop g) as [lg|].
    + apply negb_true_iff in Hg. rewrite Hg. rewrite (IH f cx li _ Hc Hf Hm). f_equal. f_equal. lia.
    + rewrite (IH f cx li _ Hc Hf Hm). f_equal. f_equal. lia.
Qed.

Lemma resolve_cont_through l fs : forall f cx ls b ct u,
  forallb (crossed_cont l) fs = true -> f_loop f = Some (mkLoop ls b (Some ct)) -> lmatch l ls = true ->
  resolve_cont (fs ++ f :: cx) l u = Some (u + sum_cost fs, ct).
Proof.
  induction fs as [|g fs IH]; intros f cx ls b ct u Hc Hf Hm; simpl in *.
  - rewrite Hf, Hm. rewrite Nat.add_0_r. reflexivity.
  - apply andb_prop in Hc as [Hg Hc]. unfold crossed_cont in Hg.
    assert (E := IH f cx ls b ct (u + f_cost g) Hc Hf Hm).
    replace (u + f_cost g + sum_cost fs) with (u + (f_cost g + sum_cost fs)) in E by lia.
    destruct (f_loop g) as [[lg bg [cg|]]|]; try exact E.
    apply negb_true_iff in Hg. rewrite Hg. exact E.
Qed.

Lemma resolve_goto_through l fs : forall f cx tgt u,
  forallb (crossed_goto l) fs = true -> assoc l (f_lbls f) = Some tgt ->
  resolve_goto (fs ++ f :: cx) l u = Some (u + sum_cost fs, tgt).
Proof.
  induction fs as [|g fs IH]; intros f cx tgt u Hc Hf; simpl in *.
  - rewrite Hf. rewrite Nat.add_0_r. reflexivity.
  - apply andb_prop in Hc as [Hg Hc]. unfold crossed_goto in Hg.
    destruct (assoc l (f_lbls g)); [discriminate|].
    rewrite (IH f cx tgt _ Hc Hf). f_equal. f_equal. lia.
Qed.

(* the LoopInfo a switch installs: Break = first slot after the whole construct, no Continue target *)
Lemma switch_break_target cx base lbls tag cs c :
  compile cx base lbls (SSwitch tag cs) = Some c ->
  exists cc, compile_clauses (mkFrame 0 (Some (mkLoop lbls (base + size (SSwitch tag cs)) None)) [] :: cx)
               (base + (match tag with Some _ => 1 | None => 0 end) + 1)
               (match tag with Some _ => Some base | None => None end)
               (base + size (SSwitch tag cs)) cs = Some cc.
Proof.
  simpl. intros H. inv_bind' H. exists c0.
  assert (Hd := has_default_ip cs (base + match tag with Some _ => 1 | None => 0 end + 1)).
  assert (E : base + match tag with Some _ => 1 | None => 0 end + 1 + csize cs +
              match default_ip (base + match tag with Some _ => 1 | None => 0 end + 1) cs with Some _ => 1 | None => 0 end
              = base + (match tag with Some _ => 1 | None => 0 end + 1 + csize cs + (if has_default cs then 1 else 0))).
  { destruct (default_ip _ cs) eqn:Ed; destruct (has_default cs) eqn:Eh; try lia;
      exfalso; destruct Hd as [Hd1 Hd2];
      first [ assert (X : Some n <> None) by congruence; specialize (Hd1 X); congruence
            | specialize (Hd2 eq_refl); congruence ]. }
  rewrite <- E. exact Hc.
Qed.

(* the LoopInfo a for installs (any n): Break = the slot after the back jump (the PopEnv of the header frame when the
   header declares variables, else the first slot after the construct); Continue = post statement, or the condition *)
Lemma for_targets cx base lbls n init cond post nb body c :
  compile cx base lbls (SFor n init cond post nb body) = Some c ->
  let cond_ip := base + cost n + length init in
  let body_ip := cond_ip + (match cond with Some _ => 1 | None => 0 end) in
  let post_ip := body_ip + bsize nb body in
  let brk_ip := base + size (SFor n init cond post nb body) - cost n in
  let cont_ip := match post with [] => cond_ip | _ => post_ip end in
  exists cb, compile (mkFrame (cost nb) None [] :: mkFrame (cost n) (Some (mkLoop lbls brk_ip (Some cont_ip))) [] :: cx)
               (body_ip + cost nb) [] body = Some cb /\
             brk_ip = post_ip + length post + 1 /\ base <= cond_ip <= cont_ip /\ cont_ip < brk_ip.
Proof.
  intros H. simpl in H. inv_bind' H. exists c0. cbv zeta. unfold bsize in *.
  assert (E : base + cost n + length init + match cond with Some _ => 1 | None => 0 end + (size body + 2 * cost nb) + length post + 1
              = base + size (SFor n init cond post nb body) - cost n) by (simpl; lia).
  rewrite <- E. split; [exact Hc|]. split; [lia|]. destruct post; destruct cond; simpl; lia.
Qed.

(* ---------- the property, assembled ---------- *)
Definition jump_targets_patched_stmt : Prop :=
  (* every successor of every instruction of every compiled function (goto included) is a valid index of env.Code *)
  (forall nres body code, compile_func nres body = Some code ->
     forall ip i, nth_error code ip = Some i -> forall t, In t (targets ip i) -> t <= length code) /\
  (* break [l]: the Break target of the innermost enclosing for/switch that l designates; upn = UpCost of the Comps crossed *)
  (forall l fs f cx li, forallb (crossed_brk l) fs = true -> f_loop f = Some li -> lmatch l (li_labels li) = true ->
     resolve_break (fs ++ f :: cx) l 0 = Some (sum_cost fs, li_brk li)) /\
  (* continue [l]: the Continue target of the innermost enclosing for (switches are crossed) that l designates *)
  (forall l fs f cx ls b ct, forallb (crossed_cont l) fs = true -> f_loop f = Some (mkLoop ls b (Some ct)) ->
     lmatch l ls = true -> resolve_cont (fs ++ f :: cx) l 0 = Some (sum_cost fs, ct)) /\
  (* goto l: the address recorded for l in the innermost Comp that knows l *)
  (forall l fs f cx tgt, forallb (crossed_goto l) fs = true -> assoc l (f_lbls f) = Some tgt ->
     resolve_goto (fs ++ f :: cx) l 0 = Some (sum_cost fs, tgt)) /\
  (* the targets installed by switch: Break = first slot after the construct *)
  (forall cx base lbls tag cs c, compile cx base lbls (SSwitch tag cs) = Some c ->
     exists cc, compile_clauses (mkFrame 0 (Some (mkLoop lbls (base + size (SSwitch tag cs)) None)) [] :: cx)
                  (base + (match tag with Some _ => 1 | None => 0 end) + 1)
                  (match tag with Some _ => Some base | None => None end)
                  (base + size (SSwitch tag cs)) cs = Some cc) /\
  (* ... and by for: Break = the slot after the back jump (PopEnv of the header frame if any, else the first slot after
     the construct), Continue = the post statement, or the condition when there is none *)
  (forall cx base lbls n init cond post nb body c, compile cx base lbls (SFor n init cond post nb body) = Some c ->
     let cond_ip := base + cost n + length init in
     let body_ip := cond_ip + (match cond with Some _ => 1 | None => 0 end) in
     let post_ip := body_ip + bsize nb body in
     let brk_ip := base + size (SFor n init cond post nb body) - cost n in
     let cont_ip := match post with [] => cond_ip | _ => post_ip end in
     exists cb, compile (mkFrame (cost nb) None [] :: mkFrame (cost n) (Some (mkLoop lbls brk_ip (Some cont_ip))) [] :: cx)
                  (body_ip + cost nb) [] body = Some cb /\
                brk_ip = post_ip + length post + 1 /\ base <= cond_ip <= cont_ip /\ cont_ip < brk_ip).

Theorem jump_targets_patched : jump_targets_patched_stmt.
Proof.
  split; [exact jump_targets_valid|].
  split; [intros; apply (resolve_break_through l fs f cx li 0); assumption|].
  split; [intros; apply (resolve_cont_through l fs f cx ls b ct 0); assumption|].
  split; [intros; apply (resolve_goto_through l fs f cx tgt 0); assumption|].
  split; [exact switch_break_target|exact for_targets].
Qed.

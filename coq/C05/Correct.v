(* C05 — lemmas, part 4: forward simulation, by induction on the fuel of the reference semantics. *)
From Coq Require Import List ZArith Bool Arith Lia.
From Verif Require Import MiniGo.Syntax MiniGo.Sem MiniGo.Fast C05.Proof C05.Sim C05.Switch.
Import ListNotations.
Open Scope nat_scope.

(* ---------- entering a switch: tag evaluation, first slot (nop / jump table), scan, trailing default jump ---------- *)
Lemma switch_entry code cx lbls base tag cs cc st tr :
  let tcost := match tag with Some _ => 1 | None => 0 end in
  let cl_ip := base + tcost + 1 in
  let def := default_ip cl_ip cs in
  let brk_ip := cl_ip + csize cs + (match def with Some _ => 1 | None => 0 end) in
  let cxs := mkFrame 0 (Some (mkLoop lbls brk_ip None)) [] :: cx in
  let tid := match tag with Some _ => Some base | None => None end in
  let v := match tag with Some e => eval e st | None => 1%Z end in
  let gm := gotomap cl_ip cs true in
  compile_clauses cxs cl_ip tid brk_ip cs = Some cc ->
  at_code code base ((match tag with Some e => [ITag base e] | None => [] end)
                     ++ [match tag with
                         | Some _ => if Nat.leb 2 (length gm) then IGotoMap base gm else INop
                         | None => INop
                         end]
                     ++ cc ++ (match def with Some d => [IJmp 0 (d + 1)] | None => [] end)) ->
  (select_clause v st cs = CNil /\ reach code (base, st, tr) (brk_ip, st, tr)) \/
  (exists hb' cc', select_clause v st cs <> CNil /\
                   compile_clauses cxs hb' tid brk_ip (select_clause v st cs) = Some cc' /\
                   at_code code hb' cc' /\ reach code (base, st, tr) (hb' + 1, st, tr)).
Proof.
  intros tcost cl_ip def brk_ip cxs tid v gm Hc Hat.
  apply at_code_app in Hat as [Htag Hat]. apply at_code_cons in Hat as [Hfirst Hat].
  apply at_code_app in Hat as [Hcc Hdef].
  assert (Ltag : length (match tag with Some e => [ITag base e] | None => [] end) = tcost)
    by (destruct tag; reflexivity).
  rewrite Ltag in Hfirst, Hcc, Hdef. fold cl_ip in Hcc, Hdef.
  rewrite (compile_clauses_size _ _ _ _ _ _ Hc) in Hdef.
  (* 1. the tag is evaluated once and saved *)
  assert (Hhead : forall tg ips, exists tg1 ips1, tagval tid tg1 = v /\
            steps code (mkM base st tg tr ips) (mkM (base + tcost) st tg1 tr ips1)).
  { intros tg ips. subst tcost tid v. destruct tag as [e|].
    - apply at_code_head in Htag. exists (settag tg base (eval e st)), (base :: ips). split.
      + simpl. unfold settag. rewrite Nat.eqb_refl. reflexivity.
      + apply steps_one. unfold step. rewrite Htag. reflexivity.
    - exists tg, ips. split; [reflexivity|]. rewrite Nat.add_0_r. constructor. }
  (* 2. from the first slot to the header scan result *)
  assert (Hscan : forall tg1 ips1, tagval tid tg1 = v -> exists ips2,
            steps code (mkM (base + tcost) st tg1 tr ips1)
              (mkM (match case_ip v st cl_ip cs with Some hb' => hb' + 1 | None => cl_ip + csize cs end) st tg1 tr ips2)).
  { intros tg1 ips1 Hv.
    assert (Hnop : forall ips1', exists ips2, steps code (mkM cl_ip st tg1 tr ips1')
              (mkM (match case_ip v st cl_ip cs with Some hb' => hb' + 1 | None => cl_ip + csize cs end) st tg1 tr ips2))
      by (intros; eapply scan_steps; eauto).
    destruct tag as [e|].
    - destruct (Nat.leb 2 (length gm)).
      + destruct (zassoc (tg1 base) gm) as [t|] eqn:Ez.
        * assert (Ez' : zassoc v (gotomap cl_ip cs true) = Some t) by (rewrite <- Hv; exact Ez).
          destruct (gotomap_sound v st cs cl_ip t Ez') as (hb' & Hci & ->). rewrite Hci.
          exists (base + tcost :: ips1). apply steps_one. unfold step. rewrite Hfirst, Ez. reflexivity.
        * destruct (Hnop (base + tcost :: ips1)) as (ips2 & S2). exists ips2.
          eapply steps_trans; [|exact S2]. apply steps_one. unfold step. rewrite Hfirst, Ez. reflexivity.
      + destruct (Hnop (base + tcost :: ips1)) as (ips2 & S2). exists ips2.
        eapply steps_trans; [|exact S2]. apply steps_one. unfold step. rewrite Hfirst. reflexivity.
    - destruct (Hnop (base + tcost :: ips1)) as (ips2 & S2). exists ips2.
      eapply steps_trans; [|exact S2]. apply steps_one. unfold step. rewrite Hfirst. reflexivity. }
  assert (Hboth : reach code (base, st, tr)
            (match case_ip v st cl_ip cs with Some hb' => hb' + 1 | None => cl_ip + csize cs end, st, tr)).
  { intros tg ips. destruct (Hhead tg ips) as (tg1 & ips1 & Hv & S1).
    destruct (Hscan tg1 ips1 Hv) as (ips2 & S2). exists tg1, ips2. eapply steps_trans; eauto. }
  assert (Hfa := find_case_addr code cxs tid brk_ip v st cs cl_ip cc Hc Hcc).
  unfold select_clause. destruct (find_case v st cs) as [cs'|].
  - destruct Hfa as (hb' & cc' & Hci & Hc' & Hat' & Hne). right. exists hb', cc'.
    rewrite Hci in Hboth. repeat split; assumption.
  - rewrite Hfa in Hboth.
    assert (Hds := default_suffix code cxs tid brk_ip cs cl_ip cc Hc Hcc). fold def in Hds.
    subst brk_ip. destruct def as [d|].
    + destruct Hds as (cs' & cc' & Hfd & Hc' & Hat' & Hne). rewrite Hfd. right. exists d, cc'.
      repeat split; try assumption.
      eapply reach_trans; [exact Hboth|]. apply at_code_head in Hdef.
      eapply reach_one; [exact Hdef|reflexivity].
    + rewrite Hds. left. split; [reflexivity|]. rewrite Nat.add_0_r. exact Hboth.
Qed.

(* ---------- goals of the auxiliary functions ---------- *)
Definition loop_goal code cx cn cond_ip brk_ip st tr o st' tr' : Prop :=
  match o with
  | ONormal => reach code (cond_ip, st, tr) (brk_ip, st', tr')
  | _ => exits code cx cond_ip st tr o (skipn cn st') tr'
  end.

Definition cl_goal code cx lbls brk ip st tr o st' tr' : Prop :=
  match o with
  | ONormal => reach code (ip, st, tr) (brk, st', tr')
  | _ => exits_lf code cx ip st tr o st' tr' 0 lbls brk None
  end.

Lemma exits_lf_pre code cx ip0 st0 tr0 ip st tr o st1 tr1 cn lbls brk oc :
  reach code (ip0, st0, tr0) (ip, st, tr) -> exits_lf code cx ip st tr o st1 tr1 cn lbls brk oc ->
  exits_lf code cx ip0 st0 tr0 o st1 tr1 cn lbls brk oc.
Proof.
  intros R H. destruct o; simpl in *; try contradiction.
  - destruct (lmatch l lbls); [eapply reach_trans; eauto|eapply exits_pre; eauto].
  - destruct oc; [destruct (lmatch l lbls); [eapply reach_trans; eauto|eapply exits_pre; eauto]|eapply exits_pre; eauto].
  - eapply exits_pre; eauto.
Qed.

Lemma loop_goal_pre code cx cn ip0 st0 tr0 cond_ip brk_ip st tr o st' tr' :
  reach code (ip0, st0, tr0) (cond_ip, st, tr) -> loop_goal code cx cn cond_ip brk_ip st tr o st' tr' ->
  match o with
  | ONormal => reach code (ip0, st0, tr0) (brk_ip, st', tr')
  | _ => exits code cx ip0 st0 tr0 o (skipn cn st') tr'
  end.
Proof.
  intros R H. destruct o; unfold loop_goal in H;
    first [eapply reach_trans; eassumption | eapply exits_pre; eauto].
Qed.

Lemma cl_goal_pre code cx lbls brk ip0 st0 tr0 ip st tr o st' tr' :
  reach code (ip0, st0, tr0) (ip, st, tr) -> cl_goal code cx lbls brk ip st tr o st' tr' ->
  cl_goal code cx lbls brk ip0 st0 tr0 o st' tr'.
Proof.
  intros R H. destruct o; unfold cl_goal in *;
    first [eapply reach_trans; eassumption | eapply exits_lf_pre; eauto].
Qed.

Lemma reach_ip code a ip1 ip2 s t : ip1 = ip2 -> reach code a (ip1, s, t) -> reach code a (ip2, s, t).
Proof. intros ->; auto. Qed.

Lemma sim_ip code cx ip e1 e2 st tr o st' tr' :
  e1 = e2 -> sim code cx ip e1 st tr o st' tr' -> sim code cx ip e2 st tr o st' tr'.
Proof. intros ->; auto. Qed.

Ltac ip_eq :=
  match goal with
  | |- Some (?a, ?s, ?t) = Some (?b, ?s, ?t) =>
      replace b with a by (unfold bsize; simpl; lia); reflexivity
  end.

(* ---------- the four statements proved together ---------- *)
Definition P_exec (n : nat) : Prop :=
  forall s lbls st tr o st' tr', exec n lbls s st tr = Some (o, st', tr') -> nogoto s = true ->
  forall code cx base c, compile cx base lbls s = Some c -> at_code code base c ->
  sim code cx base (base + size s) st tr o st' tr'.

Definition P_blk (n : nat) : Prop :=
  forall whole cur st tr o st' tr', blk n whole cur st tr = Some (o, st', tr') -> nogoto cur = true ->
  forall code cx base c, compile cx base [] cur = Some c -> at_code code base c ->
  sim code cx base (base + size cur) st tr o st' tr'.

Definition P_loop (n : nat) : Prop :=
  forall lbls cond post nb body st tr o st' tr',
  loop n lbls cond post nb body st tr = Some (o, st', tr') -> nogoto body = true ->
  forall code cx cn cond_ip cb,
    let body_ip := cond_ip + (match cond with Some _ => 1 | None => 0 end) in
    let post_ip := body_ip + bsize nb body in
    let brk_ip := post_ip + length post + 1 in
    let cont_ip := match post with [] => cond_ip | _ => post_ip end in
    let cxf := mkFrame cn (Some (mkLoop lbls brk_ip (Some cont_ip))) [] :: cx in
    compile (mkFrame (cost nb) None [] :: cxf) (body_ip + cost nb) [] body = Some cb ->
    at_code code cond_ip ((match cond with Some c => [IJif c (cond_ip + 1) brk_ip] | None => [] end)
                          ++ wrap nb cb ++ map csimple post ++ [IJmp 0 cond_ip]) ->
    loop_goal code cx cn cond_ip brk_ip st tr o st' tr'.

Definition P_cl (n : nat) : Prop :=
  forall cs st tr o st' tr', clauses_from n cs st tr = Some (o, st', tr') -> nogoto_cs cs = true -> cs <> CNil ->
  forall code cx lbls hb tid brk cc,
    compile_clauses (mkFrame 0 (Some (mkLoop lbls brk None)) [] :: cx) hb tid brk cs = Some cc ->
    at_code code hb cc ->
    cl_goal code cx lbls brk (hb + 1) st tr o st' tr'.

(* a block body, from the blk statement of the previous fuel level *)
Lemma body_sim n : P_blk n -> forall nb body st tr ob stb trb code cx b cb,
  blk n body body (push nb st) tr = Some (ob, stb, trb) -> nogoto body = true ->
  compile (mkFrame (cost nb) None [] :: cx) (b + cost nb) [] body = Some cb ->
  at_code code b (wrap nb cb) ->
  sim code cx b (b + bsize nb body) st tr ob (pop nb stb) trb.
Proof.
  intros IH nb body st tr ob stb trb code cx b cb Hb Hng Hc Hat.
  eapply block_sim; [exact Hat|exact (compile_size _ _ _ _ _ Hc)|].
  eapply IH; [exact Hb|exact Hng|exact Hc|]. apply (at_code_wrap _ _ _ _ Hat).
Qed.

Lemma after_block_inv n r o st' tr' :
  after_block n r = Some (o, st', tr') -> exists st1, r = Some (o, st1, tr') /\ st' = pop n st1.
Proof. destruct r as [[[o1 st1] tr1]|]; simpl; intros H; inversion H; subst. eauto. Qed.

Lemma step_blk n : P_exec n -> P_blk (S n).
Proof.
  intros IH whole cur st tr o st' tr' Hex Hng code cx base c Hc Hat. simpl in Hex.
  destruct (exec n [] cur st tr) as [[[o1 st1] tr1]|] eqn:E; [|discriminate].
  assert (H1 := IH _ _ _ _ _ _ _ E Hng _ _ _ _ Hc Hat).
  destruct o1; try (inversion Hex; subst; exact H1).
  unfold sim, exits in H1. contradiction.
Qed.

Lemma step_cl n : P_blk n -> P_cl n -> P_cl (S n).
Proof.
  intros IHb IHc cs st tr o st' tr' Hex Hng Hne code cx lbls hb tid brk cc Hc Hat.
  destruct cs as [|k nb body fall rest]; [congruence|]. simpl in Hex, Hng.
  apply andb_prop in Hng as [Hng1 Hng2].
  destruct (clause_at _ _ _ _ _ _ _ _ _ _ _ Hc Hat) as (cb & cr & Hf & Hb & Hr & Hh & Hw & Hj & Hrest).
  destruct (after_block nb (blk n body body (push nb st) tr)) as [[[ob st1] tr1]|] eqn:Ea; [|discriminate].
  apply after_block_inv in Ea as (stb & Eb & ->).
  assert (Hbs := body_sim n IHb nb body st tr ob stb tr1 code _ (hb + 1) cb Eb Hng1 Hb Hw).
  destruct ob; simpl in Hex.
  - unfold sim in Hbs. destruct fall.
    + assert (Hrne : rest <> CNil) by (apply Hf; reflexivity).
      assert (Hl := IHc _ _ _ _ _ _ Hex Hng2 Hrne code cx lbls _ tid brk cr Hr Hrest).
      eapply cl_goal_pre; [|exact Hl]. eapply reach_trans; [exact Hbs|].
      eapply reach_one; [exact Hj|]. simpl.
      replace (hb + 1 + bsize nb body + 2) with (hb + 1 + bsize nb body + 1 + 1) by lia. reflexivity.
    + inversion Hex; subst. unfold cl_goal. eapply reach_trans; [exact Hbs|].
      eapply reach_one; [exact Hj|reflexivity].
  - inversion Hex; subst. unfold sim in Hbs. apply exits_loop_frame in Hbs. exact Hbs.
  - inversion Hex; subst. unfold sim in Hbs. apply exits_loop_frame in Hbs. exact Hbs.
  - inversion Hex; subst. unfold sim in Hbs. apply exits_loop_frame in Hbs. exact Hbs.
  - inversion Hex; subst. unfold sim in Hbs. apply exits_loop_frame in Hbs. exact Hbs.
Qed.

Lemma step_loop n : P_blk n -> P_loop n -> P_loop (S n).
Proof.
  intros IHb IHl lbls cond post nb body st tr o st' tr' Hex Hng code cx cn cond_ip cb
         body_ip post_ip brk_ip cont_ip cxf Hc Hat.
  assert (Hat0 := Hat). simpl in Hex.
  apply at_code_app in Hat as [Hcond Hat]. apply at_code_app in Hat as [Hbody Hat].
  apply at_code_app in Hat as [Hpost Hjmp].
  assert (Lc : length (match cond with Some c => [IJif c (cond_ip + 1) brk_ip] | None => [] end)
               = match cond with Some _ => 1 | None => 0 end) by (destruct cond; reflexivity).
  rewrite Lc in Hbody, Hpost, Hjmp. fold body_ip in Hbody, Hpost, Hjmp.
  rewrite wrap_length, (compile_size _ _ _ _ _ Hc) in Hpost, Hjmp.
  fold (bsize nb body) in Hpost, Hjmp. fold post_ip in Hpost, Hjmp.
  rewrite map_length in Hjmp. apply at_code_head in Hjmp.
  assert (Hpostrun : forall s1 t1, reach code (post_ip, s1, t1)
            (cond_ip, fst (run_simple post s1 t1), snd (run_simple post s1 t1))).
  { intros. eapply reach_trans; [apply reach_simple; exact Hpost|].
    eapply reach_one; [exact Hjmp|reflexivity]. }
  assert (Hcontrun : forall s1 t1, reach code (cont_ip, s1, t1)
            (cond_ip, fst (run_simple post s1 t1), snd (run_simple post s1 t1))).
  { intros. subst cont_ip. destruct post; [simpl; apply reach_refl|apply Hpostrun]. }
  assert (Hgo : match cond with Some c => truthy (eval c st) | None => true end = true ->
                reach code (cond_ip, st, tr) (body_ip, st, tr)).
  { subst body_ip. destruct cond as [c|]; intros Et.
    - apply at_code_head in Hcond. eapply reach_one; [exact Hcond|]. simpl. rewrite Et. reflexivity.
    - rewrite Nat.add_0_r. apply reach_refl. }
  assert (Hstop : match cond with Some c => truthy (eval c st) | None => true end = false ->
                  reach code (cond_ip, st, tr) (brk_ip, st, tr)).
  { destruct cond as [c|]; intros Et; [|discriminate].
    apply at_code_head in Hcond. eapply reach_one; [exact Hcond|]. simpl. rewrite Et. reflexivity. }
  destruct (match cond with Some c => truthy (eval c st) | None => true end) eqn:Et.
  - specialize (Hgo eq_refl).
    destruct (after_block nb (blk n body body (push nb st) tr)) as [[[ob st1] tr1]|] eqn:Ea; [|discriminate].
    apply after_block_inv in Ea as (stb & Eb & ->).
    assert (Hbs := body_sim n IHb nb body st tr ob stb tr1 code cxf body_ip cb Eb Hng Hc Hbody).
    destruct ob; simpl in Hex.
    + unfold sim in Hbs. destruct (run_simple post (pop nb stb) tr1) as [st2 tr2] eqn:Ep.
      assert (Hl := IHl _ _ _ _ _ _ _ _ _ _ Hex Hng code cx cn cond_ip cb Hc Hat0).
      unfold loop_goal. eapply loop_goal_pre; [|exact Hl].
      eapply reach_trans; [exact Hgo|]. eapply reach_trans; [exact Hbs|].
      specialize (Hpostrun (pop nb stb) tr1). rewrite Ep in Hpostrun. exact Hpostrun.
    + unfold sim in Hbs. apply exits_loop_frame in Hbs. unfold exits_lf in Hbs.
      destruct (lmatch l lbls); inversion Hex; subst; unfold loop_goal.
      * eapply reach_trans; [exact Hgo|exact Hbs].
      * eapply exits_pre; [reflexivity|exact Hgo|exact Hbs].
    + unfold sim in Hbs. apply exits_loop_frame in Hbs. unfold exits_lf in Hbs.
      destruct (lmatch l lbls).
      * destruct (run_simple post (pop nb stb) tr1) as [st2 tr2] eqn:Ep.
        assert (Hl := IHl _ _ _ _ _ _ _ _ _ _ Hex Hng code cx cn cond_ip cb Hc Hat0).
        unfold loop_goal. eapply loop_goal_pre; [|exact Hl].
        eapply reach_trans; [exact Hgo|]. eapply reach_trans; [exact Hbs|].
        specialize (Hcontrun (pop nb stb) tr1). rewrite Ep in Hcontrun. exact Hcontrun.
      * inversion Hex; subst. unfold loop_goal. eapply exits_pre; [reflexivity|exact Hgo|exact Hbs].
    + unfold sim, exits in Hbs. contradiction.
    + inversion Hex; subst. unfold sim in Hbs. apply exits_loop_frame in Hbs. unfold exits_lf in Hbs.
      unfold loop_goal. eapply exits_pre; [reflexivity|exact Hgo|exact Hbs].
  - inversion Hex; subst. unfold loop_goal. exact (Hstop eq_refl).
Qed.

Lemma step_exec n : P_exec n -> P_blk n -> P_loop n -> P_cl n -> P_exec (S n).
Proof.
  intros IHe IHb IHl IHc s lbls st tr o st' tr' Hex Hng code cx base c Hc Hat.
  destruct s as [|a b|e|u i e|nl body|ce nt thn he els|nl init cond post nb body|tag cs|l|l|l s'|l|];
    simpl in Hex, Hng, Hc.
  - (* SSkip *) inversion Hex; inversion Hc; subst. unfold sim. simpl. rewrite Nat.add_0_r. apply reach_refl.
  - (* SSeq *)
    apply andb_prop in Hng as [Hng1 Hng2]. inv_bind' Hc. inv_bind' Hc. inversion Hc; subst. clear Hc.
    apply at_code_app in Hat as [Hat1 Hat2]. rewrite (compile_size _ _ _ _ _ Hc0) in Hat2.
    destruct (exec n [] a st tr) as [[[o1 st1] tr1]|] eqn:E1; [|discriminate].
    assert (H1 := IHe _ _ _ _ _ _ _ E1 Hng1 _ _ _ _ Hc0 Hat1).
    destruct o1; try (inversion Hex; subst; exact H1).
    assert (H2 := IHe _ _ _ _ _ _ _ Hex Hng2 _ _ _ _ Hc1 Hat2). apply sim_add_lbls in H2.
    unfold sim in H1. simpl size. rewrite Nat.add_assoc. eapply sim_seq; [exact H1|exact H2].
  - (* SEmit *) inversion Hex; inversion Hc; subst. unfold sim. apply at_code_head in Hat.
    eapply reach_one; [exact Hat|reflexivity].
  - (* SAssign *) inversion Hex; inversion Hc; subst. unfold sim. apply at_code_head in Hat.
    eapply reach_one; [exact Hat|reflexivity].
  - (* SBlock *)
    inv_bind' Hc. inversion Hc; subst. clear Hc.
    apply after_block_inv in Hex as (stb & Eb & ->).
    exact (body_sim n IHb _ _ _ _ _ _ _ code cx base c0 Eb Hng Hc0 Hat).
  - (* SIf *)
    apply andb_prop in Hng as [Hng1 Hng2]. inv_bind' Hc. inv_bind' Hc. inversion Hc; subst. clear Hc.
    apply at_code_cons in Hat as [Hjif Hat]. apply at_code_app in Hat as [Hthen Hat].
    rewrite wrap_length, (compile_size _ _ _ _ _ Hc0) in Hat. fold (bsize nt thn) in Hat.
    apply at_code_app in Hat as [Hjmp Helse].
    destruct (truthy (eval ce st)) eqn:Et.
    + apply after_block_inv in Hex as (stb & Eb & ->).
      assert (Hbs := body_sim n IHb _ _ _ _ _ _ _ code (emptyframe :: cx) (base + 1) c0 Eb Hng1 Hc0 Hthen).
      apply sim_plain_frame0 in Hbs.
      eapply sim_pre; [eapply reach_one; [exact Hjif|simpl; rewrite Et; reflexivity]|].
      destruct o; try exact Hbs. unfold sim in *. eapply reach_trans; [exact Hbs|].
      simpl size. unfold bsize. destruct he.
      * apply at_code_head in Hjmp. eapply reach_one; [exact Hjmp|]. simpl. fold (bsize nt thn). ip_eq.
      * eapply reach_ip; [|apply reach_refl]. unfold bsize; simpl; lia.
    + eapply sim_pre; [eapply reach_one; [exact Hjif|simpl; rewrite Et; reflexivity]|].
      destruct he.
      * assert (H2 := IHe _ _ _ _ _ _ _ Hex Hng2 _ _ _ _ Hc1 Helse). apply sim_plain_frame0 in H2.
        eapply sim_ip; [|exact H2]. unfold bsize; simpl; lia.
      * inversion Hex; subst. unfold sim. eapply reach_ip; [|apply reach_refl]. unfold bsize; simpl; lia.
  - (* SFor *)
    inv_bind' Hc. inversion Hc; subst. clear Hc.
    destruct (run_simple init (push nl st) tr) as [sti tri] eqn:Ei.
    apply after_block_inv in Hex as (stl & El & ->).
    set (cond_ip := base + cost nl + length init) in *.
    set (X := map csimple init ++
              (match cond with
               | Some c => [IJif c (cond_ip + 1) (cond_ip + match cond with Some _ => 1 | None => 0 end + bsize nb body + length post + 1)]
               | None => [] end) ++ wrap nb c0 ++ map csimple post ++ [IJmp 0 cond_ip]) in *.
    assert (LX : length X = length init + match cond with Some _ => 1 | None => 0 end + bsize nb body + length post + 1).
    { subst X. rewrite !app_length, wrap_length, !map_length, (compile_size _ _ _ _ _ Hc0). unfold bsize.
      destruct cond; simpl; lia. }
    destruct (at_code_wrap _ _ _ _ Hat) as [HX Hw].
    apply at_code_app in HX as [Hinit Hloop]. rewrite map_length in Hloop. fold cond_ip in Hloop.
    assert (Hl := IHl _ _ _ _ _ _ _ _ _ _ El Hng code cx (cost nl) cond_ip c0 Hc0 Hloop).
    assert (Hri : reach code (base + cost nl, push nl st, tr) (cond_ip, sti, tri)).
    { assert (R := reach_simple code init (base + cost nl) (push nl st) tr Hinit). rewrite Ei in R. exact R. }
    assert (Hsz : base + size (SFor nl init cond post nb body) = base + cost nl + length X + cost nl).
    { rewrite LX. simpl. unfold bsize. lia. }
    rewrite Hsz. rewrite pop_skipn.
    destruct (Nat.eq_dec nl 0) as [->|Hn].
    + simpl cost in *. rewrite !Nat.add_0_r in *. simpl push in *.
      assert (G := loop_goal_pre _ _ _ _ _ _ _ _ _ _ _ _ _ Hri Hl).
      change (push 0 st) with st in G.
      destruct o; unfold sim; try exact G.
      change (skipn (cost 0) stl) with stl. eapply reach_ip; [|exact G].
      rewrite LX; unfold cond_ip; change (cost 0) with 0; lia.
    + destruct (Hw Hn) as [Hpush Hpop]. rewrite (cost_pos nl Hn) in *. rewrite (push_pos nl st Hn) in Hri.
      assert (Hr0 : reach code (base, st, tr) (cond_ip, sti, tri)).
      { eapply reach_trans; [eapply reach_one; [exact Hpush|reflexivity]|exact Hri]. }
      assert (G := loop_goal_pre _ _ _ _ _ _ _ _ _ _ _ _ _ Hr0 Hl).
      destruct o; unfold sim; try exact G.
      eapply reach_trans; [exact G|].
      assert (Hpop' : nth_error code (cond_ip + match cond with Some _ => 1 | None => 0 end + bsize nb body + length post + 1) = Some IPop).
      { rewrite <- Hpop. f_equal. rewrite LX; unfold cond_ip; rewrite ?(cost_pos nl Hn); lia. }
      eapply reach_one; [exact Hpop'|]. simpl.
      match goal with |- Some (?a, _, _) = Some (?b, _, _) => replace b with a by (rewrite LX; unfold cond_ip; rewrite ?(cost_pos nl Hn); lia) end.
      destruct stl; reflexivity.
  - (* SSwitch *)
    inv_bind' Hc. inversion Hc; subst. clear Hc.
    destruct (switch_entry code cx lbls base tag cs c0 st tr Hc0 Hat) as [[Hsel Hr]|(hb' & cc' & Hne & Hc' & Hat' & Hr)].
    + rewrite Hsel in Hex. destruct n; [discriminate|]. simpl in Hex. inversion Hex; subst.
      unfold sim. simpl size.
      assert (Hd := has_default_ip cs (base + match tag with Some _ => 1 | None => 0 end + 1)).
      destruct (default_ip _ cs) eqn:Ed; destruct (has_default cs) eqn:Eh;
        try (exfalso; destruct Hd as [Hd1 Hd2];
             first [ assert (X : Some n0 <> None) by congruence; specialize (Hd1 X); congruence
                   | specialize (Hd2 eq_refl); congruence ]).
      * replace (base + (match tag with Some _ => 1 | None => 0 end + 1 + csize cs + 1))
          with (base + match tag with Some _ => 1 | None => 0 end + 1 + csize cs + 1) by lia. exact Hr.
      * replace (base + (match tag with Some _ => 1 | None => 0 end + 1 + csize cs + 0))
          with (base + match tag with Some _ => 1 | None => 0 end + 1 + csize cs + 0) by lia. exact Hr.
    + destruct (clauses_from n _ st tr) as [[[o1 st1] tr1]|] eqn:Ec; [|discriminate].
      assert (Hng' : nogoto_cs (select_clause match tag with Some e => eval e st | None => 1%Z end st cs) = true).
      { clear - Hng. unfold select_clause.
        assert (F1 : forall v cs cs', nogoto_cs cs = true -> find_case v st cs = Some cs' -> nogoto_cs cs' = true).
        { intros v cs0; induction cs0 as [|k nb b f r IH]; simpl; intros cs' Hn Hf; [discriminate|].
          apply andb_prop in Hn as [Hn1 Hn2]. destruct k.
          - destruct (existsb _ es); [inversion Hf; subst; simpl; rewrite Hn1, Hn2; reflexivity|eauto].
          - eauto. }
        assert (F2 : forall cs cs', nogoto_cs cs = true -> find_default cs = Some cs' -> nogoto_cs cs' = true).
        { intros cs0; induction cs0 as [|k nb b f r IH]; simpl; intros cs' Hn Hf; [discriminate|].
          apply andb_prop in Hn as [Hn1 Hn2]. destruct k.
          - eauto.
          - inversion Hf; subst; simpl; rewrite Hn1, Hn2; reflexivity. }
        destruct (find_case _ st cs) eqn:E1; [eapply F1; eauto|].
        destruct (find_default cs) eqn:E2; [eapply F2; eauto|reflexivity]. }
      assert (G := IHc _ _ _ _ _ _ Ec Hng' Hne code cx lbls hb' _ _ cc' Hc' Hat').
      apply (cl_goal_pre _ _ _ _ _ _ _ _ _ _ _ _ _ Hr) in G.
      assert (Hsz : base + size (SSwitch tag cs) =
                    base + match tag with Some _ => 1 | None => 0 end + 1 + csize cs +
                    match default_ip (base + match tag with Some _ => 1 | None => 0 end + 1) cs with Some _ => 1 | None => 0 end).
      { simpl size.
        assert (Hd := has_default_ip cs (base + match tag with Some _ => 1 | None => 0 end + 1)).
        destruct (default_ip _ cs) eqn:Ed; destruct (has_default cs) eqn:Eh; try lia;
          exfalso; destruct Hd as [Hd1 Hd2];
          first [ assert (X : Some n0 <> None) by congruence; specialize (Hd1 X); congruence
                | specialize (Hd2 eq_refl); congruence ]. }
      rewrite Hsz. unfold cl_goal in G.
      destruct o1; simpl in Hex.
      * inversion Hex; subst. exact G.
      * unfold exits_lf in G. destruct (lmatch l lbls); inversion Hex; subst; unfold sim; exact G.
      * inversion Hex; subst. exact G.
      * inversion Hex; subst. unfold exits_lf in G. contradiction.
      * inversion Hex; subst. exact G.
  - (* SBreak *)
    inversion Hex; subst. destruct (resolve_break cx l 0) as [[u t]|] eqn:Er; [|discriminate].
    inversion Hc; subst. unfold sim, exits. exists u, t. split; [exact Er|].
    apply at_code_head in Hat. eapply reach_one; [exact Hat|reflexivity].
  - (* SContinue *)
    inversion Hex; subst. destruct (resolve_cont cx l 0) as [[u t]|] eqn:Er; [|discriminate].
    inversion Hc; subst. unfold sim, exits. exists u, t. split; [exact Er|].
    apply at_code_head in Hat. eapply reach_one; [exact Hat|reflexivity].
  - (* SLabeled *)
    assert (H1 := IHe _ _ _ _ _ _ _ Hex Hng _ _ _ _ Hc Hat). apply sim_add_lbls in H1. exact H1.
  - (* SGoto *) discriminate.
  - (* SReturn *)
    inversion Hex; inversion Hc; subst. unfold sim, exits. exists base, st', 0.
    split; [apply reach_refl|]. split; [apply (at_code_head _ _ _ _ Hat)|reflexivity].
Qed.

Theorem sim_all : forall n, P_exec n /\ P_blk n /\ P_loop n /\ P_cl n.
Proof.
  induction n as [|n (He & Hb & Hl & Hc)].
  - repeat split; red; intros; simpl in *; discriminate.
  - assert (He' := step_exec n He Hb Hl Hc). repeat split; try assumption.
    + apply step_blk; assumption.
    + apply step_loop; assumption.
    + apply step_cl; assumption.
Qed.

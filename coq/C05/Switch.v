(* C05 — lemmas, part 3: the switch lowering of fast/switch.go (linear scan of the clause headers, the trailing
   jump to default+1) and the constant-case jump table of fast/switch2.go. *)
From Coq Require Import List ZArith Bool Arith Lia.
From Verif Require Import MiniGo.Syntax MiniGo.Sem MiniGo.Fast C05.Proof C05.Sim.
Import ListNotations.
Open Scope nat_scope.

Definition tagval (tid : option nat) (tg : nat -> Z) : Z := match tid with Some i => tg i | None => 1%Z end.

(* decomposition of one compiled clause *)
Lemma clause_inv cxs hb tid brk k nb body fall rest cc :
  compile_clauses cxs hb tid brk (CCons k nb body fall rest) = Some cc ->
  exists cb cr,
    (fall = true -> rest <> CNil) /\
    compile (mkFrame (cost nb) None [] :: cxs) (hb + 1 + cost nb) [] body = Some cb /\
    compile_clauses cxs (hb + 1 + bsize nb body + 1) tid brk rest = Some cr /\
    cc = (match k with CCase es => ICase tid es (hb + 1 + bsize nb body + 1) | CDefault => IJmp 0 (hb + 1 + bsize nb body + 1) end)
         :: wrap nb cb ++ [if fall then IFall else IJmp 0 brk] ++ cr.
Proof.
  simpl. destruct (fall && is_cnil rest) eqn:E; [discriminate|]. intros H.
  inv_bind' H. inv_bind' H. inversion H; subst. exists c, c0. repeat split; try assumption.
  intros ->. destruct rest; [simpl in E; discriminate|discriminate].
Qed.

Lemma clause_at code cxs hb tid brk k nb body fall rest cc :
  compile_clauses cxs hb tid brk (CCons k nb body fall rest) = Some cc -> at_code code hb cc ->
  exists cb cr,
    (fall = true -> rest <> CNil) /\
    compile (mkFrame (cost nb) None [] :: cxs) (hb + 1 + cost nb) [] body = Some cb /\
    compile_clauses cxs (hb + 1 + bsize nb body + 1) tid brk rest = Some cr /\
    nth_error code hb = Some (match k with CCase es => ICase tid es (hb + 1 + bsize nb body + 1) | CDefault => IJmp 0 (hb + 1 + bsize nb body + 1) end) /\
    at_code code (hb + 1) (wrap nb cb) /\
    nth_error code (hb + 1 + bsize nb body) = Some (if fall then IFall else IJmp 0 brk) /\
    at_code code (hb + 1 + bsize nb body + 1) cr.
Proof.
  intros Hc Hat. destruct (clause_inv _ _ _ _ _ _ _ _ _ _ Hc) as (cb & cr & Hf & Hb & Hr & ->).
  exists cb, cr. apply at_code_cons in Hat as [H1 H2]. apply at_code_app in H2 as [H2 H3].
  rewrite wrap_length, (compile_size _ _ _ _ _ Hb) in H3. fold (bsize nb body) in H3.
  apply at_code_cons in H3 as [H3 H4]. repeat split; assumption.
Qed.

(* address of the header of the first clause one of whose expressions equals v (what the linear scan finds) *)
Fixpoint case_ip (v : Z) (st : envs) (hb : nat) (cs : clauses) : option nat :=
  match cs with
  | CNil => None
  | CCons (CCase es) nb body _ rest =>
      if existsb (fun e => Z.eqb v (eval e st)) es then Some hb
      else case_ip v st (hb + 1 + bsize nb body + 1) rest
  | CCons CDefault nb body _ rest => case_ip v st (hb + 1 + bsize nb body + 1) rest
  end.

Lemma find_case_addr code cxs tid brk v st : forall cs hb cc,
  compile_clauses cxs hb tid brk cs = Some cc -> at_code code hb cc ->
  match find_case v st cs with
  | Some cs' => exists hb' cc', case_ip v st hb cs = Some hb' /\ compile_clauses cxs hb' tid brk cs' = Some cc' /\ at_code code hb' cc' /\ cs' <> CNil
  | None => case_ip v st hb cs = None
  end.
Proof.
  induction cs as [|k nb body fall rest IH]; intros hb cc Hc Hat; simpl; [reflexivity|].
  destruct (clause_at _ _ _ _ _ _ _ _ _ _ _ Hc Hat) as (cb & cr & Hf & Hb & Hr & Hh & Hw & Hj & Hrest).
  destruct k as [es|].
  - destruct (existsb (fun e => Z.eqb v (eval e st)) es) eqn:E.
    + exists hb, cc. repeat split; try assumption. discriminate.
    + apply (IH _ _ Hr Hrest).
  - apply (IH _ _ Hr Hrest).
Qed.

(* linear scan of the clause headers; the tag binds are not modified *)
Lemma scan_steps code cxs tid brk v st tr : forall cs hb cc tg ips,
  compile_clauses cxs hb tid brk cs = Some cc -> at_code code hb cc -> tagval tid tg = v ->
  exists ips', steps code (mkM hb st tg tr ips)
                 (mkM (match case_ip v st hb cs with Some hb' => hb' + 1 | None => hb + csize cs end) st tg tr ips').
Proof.
  induction cs as [|k nb body fall rest IH]; intros hb cc tg ips Hc Hat Hv.
  - simpl. exists ips. rewrite Nat.add_0_r. constructor.
  - destruct (clause_at _ _ _ _ _ _ _ _ _ _ _ Hc Hat) as (cb & cr & Hf & Hb & Hr & Hh & Hw & Hj & Hrest).
    assert (Hsz : hb + csize (CCons k nb body fall rest) = hb + 1 + bsize nb body + 1 + csize rest)
      by (simpl; unfold bsize; lia).
    rewrite Hsz. destruct k as [es|]; simpl case_ip.
    + destruct (existsb (fun e => Z.eqb v (eval e st)) es) eqn:E.
      * exists (hb :: ips).
        apply steps_one. unfold step. rewrite Hh. unfold tagval in Hv. rewrite Hv, E. reflexivity.
      * destruct (IH _ _ tg (hb :: ips) Hr Hrest Hv) as (ips' & S2). exists ips'.
        eapply steps_trans; [|exact S2].
        apply steps_one. unfold step. rewrite Hh. unfold tagval in Hv. rewrite Hv, E. reflexivity.
    + destruct (IH _ _ tg (hb :: ips) Hr Hrest Hv) as (ips' & S2). exists ips'.
      eapply steps_trans; [|exact S2]. apply steps_one. unfold step. rewrite Hh. reflexivity.
Qed.

(* the default clause: where `jump to defaulti+1` lands *)
Lemma default_suffix code cxs tid brk : forall cs hb cc,
  compile_clauses cxs hb tid brk cs = Some cc -> at_code code hb cc ->
  match default_ip hb cs with
  | Some d => exists cs' cc', find_default cs = Some cs' /\ compile_clauses cxs d tid brk cs' = Some cc' /\
                              at_code code d cc' /\ cs' <> CNil
  | None => find_default cs = None
  end.
Proof.
  induction cs as [|k nb body fall rest IH]; intros hb cc Hc Hat; simpl; [reflexivity|].
  destruct (clause_at _ _ _ _ _ _ _ _ _ _ _ Hc Hat) as (cb & cr & Hf & Hb & Hr & Hh & Hw & Hj & Hrest).
  destruct k as [es|].
  - apply (IH _ _ Hr Hrest).
  - exists (CCons CDefault nb body fall rest), cc. repeat split; try assumption. discriminate.
Qed.

(* ---------- switch2.go ---------- *)
Lemma econst_eval e st : econst e = true -> eval e st = eval e [].
Proof.
  induction e; simpl; intros H; try reflexivity; try discriminate;
    try (apply andb_prop in H as [H1 H2]; rewrite (IHe1 H1), (IHe2 H2); reflexivity).
  rewrite (IHe H). reflexivity.
Qed.

Lemma zassoc_app v a b : zassoc v (a ++ b) = match zassoc v a with Some t => Some t | None => zassoc v b end.
Proof.
  induction a as [|[k ip] a IH]; simpl; [reflexivity|]. destruct (Z.eqb v k); [reflexivity|exact IH].
Qed.

Lemma gm_es_false ib es : gm_es ib es false = ([], false).
Proof.
  induction es as [|e r IH]; simpl; [reflexivity|]. destruct (econst e); [rewrite IH; reflexivity|exact IH].
Qed.

Lemma gotomap_false cs : forall hb, gotomap hb cs false = [].
Proof.
  induction cs as [|k nb body fall rest IH]; intros hb; simpl; [reflexivity|].
  destruct k; [rewrite gm_es_false; simpl; apply IH|apply IH].
Qed.

(* with allc = true: a hit in the table is a matching expression; a miss with the flag still set means
   that no expression of the clause matches *)
Lemma gm_es_true ib v st es : forall m a, gm_es ib es true = (m, a) ->
  match zassoc v m with
  | Some t => t = ib /\ existsb (fun e => Z.eqb v (eval e st)) es = true
  | None => a = true -> existsb (fun e => Z.eqb v (eval e st)) es = false
  end.
Proof.
  induction es as [|e r IH]; simpl; intros m a H.
  - inversion H; subst. simpl. reflexivity.
  - destruct (econst e) eqn:Ec.
    + destruct (gm_es ib r true) as [m' a'] eqn:Eg. inversion H; subst. simpl.
      rewrite (econst_eval e st Ec). destruct (Z.eqb v (eval e [])) eqn:Ev.
      * split; reflexivity.
      * specialize (IH _ _ eq_refl). simpl. destruct (zassoc v m'); exact IH.
    + rewrite gm_es_false in H. inversion H; subst. simpl. intros; discriminate.
Qed.

Lemma gotomap_sound v st : forall cs hb t,
  zassoc v (gotomap hb cs true) = Some t -> exists hb', case_ip v st hb cs = Some hb' /\ t = hb' + 1.
Proof.
  induction cs as [|k nb body fall rest IH]; intros hb t Hz; simpl in Hz; [discriminate|].
  destruct k as [es|]; simpl case_ip.
  - destruct (gm_es (hb + 1) es true) as [m a] eqn:Eg. rewrite zassoc_app in Hz.
    assert (G := gm_es_true (hb + 1) v st es m a Eg).
    destruct (zassoc v m) as [t'|].
    + destruct G as [-> G]. inversion Hz; subst. rewrite G. exists hb. split; reflexivity.
    + destruct a.
      * rewrite (G eq_refl). apply (IH _ _ Hz).
      * rewrite gotomap_false in Hz. discriminate.
  - apply (IH _ _ Hz).
Qed.

(* C05 — lemmas, part 2: the simulation relation between the reference semantics and the compiled code. *)
From Coq Require Import List ZArith Bool Arith Lia.
From Verif Require Import MiniGo.Syntax MiniGo.Sem MiniGo.Fast C05.Proof.
Import ListNotations.
Open Scope nat_scope.

(* the fragment covered by C05_compile_correct_partial: no goto statement anywhere *)
Fixpoint nogoto (s : stmt) : bool :=
  match s with
  | SGoto _ => false
  | SSeq a b => nogoto a && nogoto b
  | SBlock _ b => nogoto b
  | SIf _ _ t _ e => nogoto t && nogoto e
  | SFor _ _ _ _ _ b => nogoto b
  | SSwitch _ cs => nogoto_cs cs
  | SLabeled _ s' => nogoto s'
  | _ => true
  end
with nogoto_cs (cs : clauses) : bool :=
  match cs with
  | CNil => true
  | CCons _ _ b _ r => nogoto b && nogoto_cs r
  end.

(* How a non-normal outcome of the reference semantics shows on the machine.
   cx is the Comp chain of the statement; st' the store of the semantics when the outcome leaves the statement
   (inner blocks of the statement already popped); the machine has additionally popped [upn] frames: exactly
   what jumpOut(upn, target) does. *)
Definition exits (code : list instr) (cx : ctx) (ip : nat) (st : envs) (tr : list Z)
           (o : outcome) (st' : envs) (tr' : list Z) : Prop :=
  match o with
  | ONormal => False
  | OBrk l => exists upn tgt, resolve_break cx l 0 = Some (upn, tgt) /\
                              reach code (ip, st, tr) (tgt, skipn upn st', tr')
  | OCont l => exists upn tgt, resolve_cont cx l 0 = Some (upn, tgt) /\
                               reach code (ip, st, tr) (tgt, skipn upn st', tr')
  | OGoto _ => False
  | ORet => exists ipr stm k, reach code (ip, st, tr) (ipr, stm, tr') /\
                              nth_error code ipr = Some IRet /\ skipn k stm = st'
  end.

Definition sim code cx ip ip_end st tr o st' tr' : Prop :=
  match o with
  | ONormal => reach code (ip, st, tr) (ip_end, st', tr')
  | _ => exits code cx ip st tr o st' tr'
  end.

Lemma exits_pre code cx a ip st tr o st' tr' ip0 st0 tr0 :
  a = (ip0, st0, tr0) -> reach code a (ip, st, tr) -> exits code cx ip st tr o st' tr' ->
  exits code cx ip0 st0 tr0 o st' tr'.
Proof.
  intros -> R H. destruct o; simpl in *; try contradiction.
  - destruct H as (u & t & Hr & H). exists u, t. split; [assumption|]. eapply reach_trans; eauto.
  - destruct H as (u & t & Hr & H). exists u, t. split; [assumption|]. eapply reach_trans; eauto.
  - destruct H as (ipr & stm & k & H & Hn & Hk). exists ipr, stm, k. repeat split; try assumption.
    eapply reach_trans; eauto.
Qed.

Lemma sim_pre code cx ip0 st0 tr0 ip ipe st tr o st' tr' :
  reach code (ip0, st0, tr0) (ip, st, tr) -> sim code cx ip ipe st tr o st' tr' ->
  sim code cx ip0 ipe st0 tr0 o st' tr'.
Proof.
  intros R H. destruct o; unfold sim in *;
    first [ eapply reach_trans; eassumption | eapply (exits_pre _ _ _ _ _ _ _ _ _ _ _ _ eq_refl R H) ].
Qed.

Lemma sim_seq code cx ip ip1 ip2 st tr st1 tr1 o st2 tr2 :
  reach code (ip, st, tr) (ip1, st1, tr1) -> sim code cx ip1 ip2 st1 tr1 o st2 tr2 ->
  sim code cx ip ip2 st tr o st2 tr2.
Proof. apply sim_pre. Qed.

Lemma shift_some k r u t : shift k r = Some (u, t) -> exists u', r = Some (u', t) /\ u = u' + k.
Proof. destruct r as [[u' t']|]; simpl; intros H; inversion H; subst. eauto. Qed.

(* leaving a Comp that has no LoopInfo (block / if): upn grows by its UpCost, the semantics pops its frame *)
Lemma exits_plain_frame code c lb cx ip st tr o st1 tr1 :
  exits code (mkFrame c None lb :: cx) ip st tr o st1 tr1 ->
  exits code cx ip st tr o (skipn c st1) tr1.
Proof.
  destruct o; simpl; try contradiction.
  - intros (u & t & Hr & H). rewrite resolve_break_shift in Hr. apply shift_some in Hr as (u' & Hr & ->).
    exists u', t. split; [exact Hr|]. rewrite skipn_skipn. replace (c + u') with (u' + c) by lia. exact H.
  - intros (u & t & Hr & H). rewrite resolve_cont_shift in Hr. apply shift_some in Hr as (u' & Hr & ->).
    exists u', t. split; [exact Hr|]. rewrite skipn_skipn. replace (c + u') with (u' + c) by lia. exact H.
  - intros (ipr & stm & k & H & Hn & <-). exists ipr, stm, (k + c). repeat split; try assumption.
    rewrite skipn_skipn. reflexivity.
Qed.

Lemma exits_add_lbls code cx ls ip st tr o st1 tr1 :
  exits code (add_lbls cx ls) ip st tr o st1 tr1 -> exits code cx ip st tr o st1 tr1.
Proof.
  destruct o; simpl; try contradiction; try (intros H; exact H).
  - rewrite resolve_break_add_lbls. auto.
  - rewrite resolve_cont_add_lbls. auto.
Qed.

Lemma sim_add_lbls code cx ls ip ipe st tr o st1 tr1 :
  sim code (add_lbls cx ls) ip ipe st tr o st1 tr1 -> sim code cx ip ipe st tr o st1 tr1.
Proof. destruct o; unfold sim; try (intros H; exact H); apply exits_add_lbls. Qed.

Lemma sim_plain_frame0 code lb cx ip ipe st tr o st1 tr1 :
  sim code (mkFrame 0 None lb :: cx) ip ipe st tr o st1 tr1 -> sim code cx ip ipe st tr o st1 tr1.
Proof.
  destruct o; unfold sim; try (intros H; exact H); intros H; apply exits_plain_frame in H; exact H.
Qed.

(* leaving a Comp with LoopInfo (for: Continue target present; switch: none) *)
Definition exits_lf code cx ip st tr o st1 tr1 (cn : nat) (lbls : list nat) (brk : nat) (oc : option nat) : Prop :=
  match o with
  | OBrk l => if lmatch l lbls then reach code (ip, st, tr) (brk, st1, tr1)
              else exits code cx ip st tr o (skipn cn st1) tr1
  | OCont l => match oc with
               | Some ct => if lmatch l lbls then reach code (ip, st, tr) (ct, st1, tr1)
                            else exits code cx ip st tr o (skipn cn st1) tr1
               | None => exits code cx ip st tr o (skipn cn st1) tr1
               end
  | ORet => exits code cx ip st tr o (skipn cn st1) tr1
  | _ => False
  end.

Lemma exits_loop_frame code cn lbls brk oc lb cx ip st tr o st1 tr1 :
  exits code (mkFrame cn (Some (mkLoop lbls brk oc)) lb :: cx) ip st tr o st1 tr1 ->
  exits_lf code cx ip st tr o st1 tr1 cn lbls brk oc.
Proof.
  destruct o; simpl; try contradiction.
  - intros (u & t & Hr & H). destruct (lmatch l lbls).
    + inversion Hr; subst. exact H.
    + rewrite resolve_break_shift in Hr. apply shift_some in Hr as (u' & Hr & ->).
      exists u', t. split; [exact Hr|]. rewrite skipn_skipn. replace (cn + u') with (u' + cn) by lia. exact H.
  - intros (u & t & Hr & H). destruct oc as [ct|].
    + destruct (lmatch l lbls).
      * inversion Hr; subst. exact H.
      * rewrite resolve_cont_shift in Hr. apply shift_some in Hr as (u' & Hr & ->).
        exists u', t. split; [exact Hr|]. rewrite skipn_skipn. replace (cn + u') with (u' + cn) by lia. exact H.
    + rewrite resolve_cont_shift in Hr. apply shift_some in Hr as (u' & Hr & ->).
      exists u', t. split; [exact Hr|]. rewrite skipn_skipn. replace (cn + u') with (u' + cn) by lia. exact H.
  - intros (ipr & stm & k & H & Hn & <-). exists ipr, stm, (k + cn). repeat split; try assumption.
    rewrite skipn_skipn. reflexivity.
Qed.

(* { ... } : PushEnv / body / PopEnv around the simulation of the body *)
Lemma block_sim code cx b n body cb st tr o st1 tr1 :
  at_code code b (wrap n cb) -> length cb = size body ->
  sim code (mkFrame (cost n) None [] :: cx) (b + cost n) (b + cost n + size body) (push n st) tr o st1 tr1 ->
  sim code cx b (b + bsize n body) st tr o (pop n st1) tr1.
Proof.
  intros Hat Hlen H. unfold bsize. destruct (Nat.eq_dec n 0) as [->|Hn].
  - simpl in *. rewrite !Nat.add_0_r in *. apply sim_plain_frame0 in H. exact H.
  - apply at_code_wrap in Hat as [_ Hw]. destruct (Hw Hn) as [Hpush Hpop]. clear Hw.
    rewrite (cost_pos n Hn) in *. rewrite (push_pos n st Hn) in H. rewrite pop_skipn, (cost_pos n Hn).
    eapply sim_pre; [eapply reach_one; [exact Hpush|reflexivity]|].
    destruct o; unfold sim in *.
    + eapply reach_trans; [exact H|]. rewrite Hlen in Hpop. eapply reach_one; [exact Hpop|].
      simpl. replace (b + (size body + 2)) with (b + 1 + size body + 1) by lia. destruct st1; reflexivity.
    + apply exits_plain_frame in H. exact H.
    + apply exits_plain_frame in H. exact H.
    + contradiction.
    + apply exits_plain_frame in H. exact H.
Qed.

Global Arguments exits : simpl never.
Global Arguments sim : simpl never.

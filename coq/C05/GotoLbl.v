(* C05 — lemmas, part 7: labels.  What Comp.Goto resolves (the label table of the Comp chain, extended as the
   statements of a list are compiled: the label-extension invariant) versus what the reference semantics does
   (restart the enclosing statement list at the labelled statement). *)
From Coq Require Import List ZArith Bool Arith Lia.
From Verif Require Import MiniGo.Syntax MiniGo.Sem MiniGo.Fast C05.Proof.
Import ListNotations.
Open Scope nat_scope.

(* ---------- well-formedness that Go's grammar / type checker impose ---------- *)
Definition is_seq (s : stmt) : bool := match s with SSeq _ _ => true | _ => false end.
Definition else_shape (s : stmt) : bool := match s with SBlock _ _ | SIf _ _ _ _ _ => true | _ => false end.

(* a label labels ONE statement (not a sequence); an else branch is a block or another if *)
Fixpoint wfl (s : stmt) : bool :=
  match s with
  | SSeq a b => wfl a && wfl b
  | SBlock _ b => wfl b
  | SIf _ _ t he e => wfl t && (if he then else_shape e && wfl e else true)
  | SFor _ _ _ _ _ b => wfl b
  | SSwitch _ cs => wfl_cs cs
  | SLabeled _ s' => negb (is_seq s') && wfl s'
  | _ => true
  end
with wfl_cs (cs : clauses) : bool :=
  match cs with
  | CNil => true
  | CCons _ _ b _ r => wfl b && wfl_cs r
  end.

Fixpoint all_labels (s : stmt) : list nat :=
  match s with
  | SSeq a b => all_labels a ++ all_labels b
  | SBlock _ b => all_labels b
  | SIf _ _ t he e => all_labels t ++ (if he then all_labels e else [])
  | SFor _ _ _ _ _ b => all_labels b
  | SSwitch _ cs => all_labels_cs cs
  | SLabeled l s' => l :: all_labels s'
  | _ => []
  end
with all_labels_cs (cs : clauses) : list nat :=
  match cs with
  | CNil => []
  | CCons _ _ b _ r => all_labels b ++ all_labels_cs r
  end.

Definition keys (ls : list (nat * nat)) : list nat := map fst ls.

(* "label L already defined" is a compile error in Go: a label visible in a later statement of the same list, or
   labelling a statement, is not declared again inside it *)
Fixpoint uniq (s : stmt) : Prop :=
  match s with
  | SSeq a b => uniq a /\ uniq b /\ (forall l, In l (keys (spine_labels 0 a)) -> ~ In l (all_labels b))
  | SBlock _ b => uniq b
  | SIf _ _ t he e => uniq t /\ (if he then uniq e else True)
  | SFor _ _ _ _ _ b => uniq b
  | SSwitch _ cs => uniq_cs cs
  | SLabeled l s' => ~ In l (all_labels s') /\ uniq s'
  | _ => True
  end
with uniq_cs (cs : clauses) : Prop :=
  match cs with
  | CNil => True
  | CCons _ _ b _ r => uniq b /\ uniq_cs r
  end.

(* no label declared in s is visible in the Comp chain *)
Definition fresh (cx : ctx) (s : stmt) : Prop :=
  forall l, In l (all_labels s) -> forall u, resolve_goto cx l u = None.
Definition fresh_cs (cx : ctx) (cs : clauses) : Prop :=
  forall l, In l (all_labels_cs cs) -> forall u, resolve_goto cx l u = None.

(* ---------- association lists ---------- *)
Lemma assoc_app l a b : assoc l (a ++ b) = match assoc l a with Some t => Some t | None => assoc l b end.
Proof. induction a as [|[k v] a IH]; simpl; [reflexivity|]. destruct (Nat.eqb l k); [reflexivity|exact IH]. Qed.

Lemma assoc_none l ls : ~ In l (keys ls) -> assoc l ls = None.
Proof.
  induction ls as [|[k v] r IH]; simpl; intros H; [reflexivity|].
  destruct (Nat.eqb_spec l k) as [->|_]; [exfalso; apply H; left; reflexivity|apply IH; intros X; apply H; right; exact X].
Qed.

Lemma assoc_some_in l ls t : assoc l ls = Some t -> In l (keys ls).
Proof.
  induction ls as [|[k v] r IH]; simpl; [discriminate|].
  destruct (Nat.eqb_spec l k) as [->|_]; [intros _; left; reflexivity|intros H; right; apply IH; exact H].
Qed.

Lemma keys_app a b : keys (a ++ b) = keys a ++ keys b.
Proof. apply map_app. Qed.

(* the keys of the spine labels do not depend on the base address *)
Lemma spine_keys_base s : forall b1 b2, keys (spine_labels b1 s) = keys (spine_labels b2 s).
Proof.
  induction s; intros b1 b2; simpl; try reflexivity.
  - rewrite !keys_app. rewrite (IHs1 b1 b2), (IHs2 (b1 + size s1) (b2 + size s1)). reflexivity.
  - f_equal. apply IHs.
Qed.

Lemma spine_keys_sub s : forall base x, In x (keys (spine_labels base s)) -> In x (all_labels s).
Proof.
  induction s; intros base x; simpl; try contradiction.
  - rewrite keys_app, !in_app_iff. intros [H|H]; [left; eapply IHs1; eauto|right; eapply IHs2; eauto].
  - intros [H|H]; [left; exact H|right; eapply IHs; eauto].
Qed.

(* ---------- add_lbls ---------- *)
Lemma add_lbls_nil cx : add_lbls cx [] = cx.
Proof. destruct cx as [|[c lo lb] r]; simpl; [reflexivity|]. rewrite app_nil_r. reflexivity. Qed.

Lemma add_lbls_app cx a b : add_lbls (add_lbls cx a) b = add_lbls cx (a ++ b).
Proof. destruct cx as [|[c lo lb] r]; simpl; [reflexivity|]. rewrite app_assoc. reflexivity. Qed.

(* ---------- Comp.Goto ---------- *)
Lemma resolve_goto_shift cx l : forall k, resolve_goto cx l k = shift k (resolve_goto cx l 0).
Proof.
  induction cx as [|f r IH]; intros k; simpl; [reflexivity|].
  destruct (assoc l (f_lbls f)); [reflexivity|].
  rewrite (IH (k + f_cost f)), (IH (f_cost f)).
  destruct (resolve_goto r l 0) as [[u t]|]; simpl; [f_equal; f_equal; lia|reflexivity].
Qed.

(* crossing a Comp that does not know the label: upn grows by its UpCost *)
Lemma resolve_goto_cross c lo lb cx l :
  assoc l lb = None -> resolve_goto (mkFrame c lo lb :: cx) l 0 = shift c (resolve_goto cx l 0).
Proof. intros H. simpl. rewrite H. apply resolve_goto_shift. Qed.

(* labels appended later to the innermost Comp do not change what an earlier goto resolved to, provided they are fresh *)
Lemma goto_ext cx la lb l u t :
  resolve_goto (add_lbls cx la) l 0 = Some (u, t) ->
  (In l (keys lb) -> forall u', resolve_goto cx l u' = None) ->
  resolve_goto (add_lbls cx (la ++ lb)) l 0 = Some (u, t).
Proof.
  destruct cx as [|[c lo lb0] r]; simpl; [discriminate|]. intros H Hf.
  rewrite app_assoc, assoc_app. destruct (assoc l (lb0 ++ la)) as [t0|] eqn:E; [exact H|].
  destruct (assoc l lb) as [t1|] eqn:E1; [|exact H].
  exfalso. specialize (Hf (assoc_some_in _ _ _ E1) 0). simpl in Hf.
  rewrite assoc_app in E. destruct (assoc l lb0); [discriminate|]. congruence.
Qed.

Lemma fresh_frame c lo cx s : fresh cx s -> fresh (mkFrame c lo [] :: cx) s.
Proof. intros H l Hl u. simpl. apply H. exact Hl. Qed.

Lemma fresh_cs_frame c lo cx cs : fresh_cs cx cs -> fresh_cs (mkFrame c lo [] :: cx) cs.
Proof. intros H l Hl u. simpl. apply H. exact Hl. Qed.

Lemma fresh_add cx ls s : fresh cx s -> (forall l, In l (keys ls) -> ~ In l (all_labels s)) -> fresh (add_lbls cx ls) s.
Proof.
  intros H Hd l Hl u. destruct cx as [|[c lo lb] r]; simpl; [reflexivity|].
  specialize (H l Hl u). simpl in H. rewrite assoc_app.
  destruct (assoc l lb); [discriminate|]. rewrite assoc_none; [exact H|]. intros X. exact (Hd l X Hl).
Qed.

Lemma fresh_sub cx s s' : fresh cx s -> incl (all_labels s') (all_labels s) -> fresh cx s'.
Proof. intros H Hi l Hl. apply H. apply Hi. exact Hl. Qed.

(* ---------- find_label versus the label table ---------- *)
Lemma labeled_here_assoc l : forall s base, is_seq s = false -> wfl s = true ->
  assoc l (spine_labels base s) = if labeled_here l s then Some base else None.
Proof.
  induction s; intros base Hs Hw; simpl in *; try reflexivity; try discriminate.
  apply andb_prop in Hw as [Hw1 Hw2]. apply negb_true_iff in Hw1.
  destruct (Nat.eqb l l0); simpl; [reflexivity|]. apply IHs; assumption.
Qed.

Lemma find_label_none l : forall s base, wfl s = true -> find_label l s = None ->
  assoc l (spine_labels base s) = None.
Proof.
  induction s; intros base Hw Hf; simpl in *; try reflexivity.
  - apply andb_prop in Hw as [Hw1 Hw2].
    destruct (find_label l s1) eqn:E1; [discriminate|]. rewrite assoc_app, (IHs1 base Hw1 eq_refl). apply IHs2; assumption.
  - assert (E := labeled_here_assoc l (SLabeled l0 s) base eq_refl Hw). simpl in E. rewrite E.
    destruct (Nat.eqb l l0 || labeled_here l s); [discriminate|reflexivity].
Qed.

(* the suffix found by find_label is compiled, in place, with the labels of the prefix already in the table *)
Lemma find_label_compile l : forall whole cx base cw s',
  wfl whole = true -> uniq whole -> compile cx base [] whole = Some cw -> find_label l whole = Some s' ->
  exists ls addr c' pre,
    spine_labels base whole = ls ++ spine_labels addr s' /\
    assoc l (spine_labels base whole) = Some addr /\
    compile (add_lbls cx ls) addr [] s' = Some c' /\
    cw = pre ++ c' /\ addr = base + length pre /\ addr + size s' = base + size whole /\
    wfl s' = true /\ uniq s' /\ incl (all_labels s') (all_labels whole) /\
    (forall l', In l' (keys ls) -> ~ In l' (all_labels s')).
Proof.
  induction whole; intros cx base cw s' Hw Hu Hc Hf; simpl in Hf; try discriminate.
  - (* SSeq *)
    simpl in Hw, Hu, Hc. apply andb_prop in Hw as [Hw1 Hw2]. destruct Hu as (Hu1 & Hu2 & Hu3).
    destruct (compile cx base [] whole1) as [c0|] eqn:Hc0; [|discriminate]. simpl in Hc.
    destruct (compile (add_lbls cx (spine_labels base whole1)) (base + size whole1) [] whole2) as [c1|] eqn:Hc1;
      [|discriminate]. simpl in Hc. inversion Hc; subst cw. clear Hc.
    destruct (find_label l whole1) as [a'|] eqn:E1.
    + inversion Hf; subst s'. clear Hf.
      destruct (IHwhole1 cx base c0 a' Hw1 Hu1 Hc0 eq_refl)
        as (ls & addr & ca' & pre & Hsp & Has & Hca & Hpre & Hadr & Hsz & Hw' & Hu' & Hin & Hdj).
      exists ls, addr, (ca' ++ c1), pre. simpl.
      assert (Hcb : compile (add_lbls (add_lbls cx ls) (spine_labels addr a')) (addr + size a') [] whole2 = Some c1).
      { rewrite add_lbls_app, <- Hsp, Hsz. exact Hc1. }
      repeat split.
      * rewrite Hsp, <- app_assoc, Hsz. reflexivity.
      * rewrite assoc_app, Has. reflexivity.
      * rewrite Hca. simpl. rewrite Hcb. reflexivity.
      * rewrite Hpre, <- app_assoc. reflexivity.
      * exact Hadr.
      * lia.
      * rewrite Hw', Hw2. reflexivity.
      * exact Hu'.
      * exact Hu2.
      * intros l1 Hl1. apply Hu3. rewrite (spine_keys_base a' 0 addr) in Hl1.
        rewrite (spine_keys_base whole1 0 base), Hsp, keys_app. apply in_or_app. right. exact Hl1.
      * intros x Hx. apply in_app_iff in Hx as [Hx|Hx]; apply in_or_app; [left; apply Hin; exact Hx|right; exact Hx].
      * intros l1 Hl1 Hx. apply in_app_iff in Hx as [Hx|Hx]; [exact (Hdj l1 Hl1 Hx)|].
        apply (Hu3 l1); [|exact Hx]. rewrite (spine_keys_base whole1 0 base), Hsp, keys_app. apply in_or_app. left. exact Hl1.
    + destruct (IHwhole2 _ _ c1 s' Hw2 Hu2 Hc1 Hf)
        as (ls & addr & c' & pre & Hsp & Has & Hcc & Hpre & Hadr & Hsz & Hw' & Hu' & Hin & Hdj).
      exists (spine_labels base whole1 ++ ls), addr, c', (c0 ++ pre). simpl.
      repeat split.
      * rewrite Hsp, app_assoc. reflexivity.
      * rewrite assoc_app, (find_label_none l whole1 base Hw1 E1). exact Has.
      * rewrite <- add_lbls_app. exact Hcc.
      * rewrite Hpre, app_assoc. reflexivity.
      * rewrite app_length, (compile_size _ _ _ _ _ Hc0). lia.
      * lia.
      * exact Hw'.
      * exact Hu'.
      * intros x Hx. apply in_or_app. right. apply Hin. exact Hx.
      * intros l1 Hl1 Hx. rewrite keys_app in Hl1. apply in_app_iff in Hl1 as [Hl1|Hl1].
        -- apply (Hu3 l1); [rewrite (spine_keys_base whole1 0 base); exact Hl1|apply Hin; exact Hx].
        -- exact (Hdj l1 Hl1 Hx).
  - (* SLabeled *)
    change ((l =? l0) || labeled_here l whole)%bool with (labeled_here l (SLabeled l0 whole)) in Hf.
    destruct (labeled_here l (SLabeled l0 whole)) eqn:E; [|discriminate]. inversion Hf; subst s'.
    exists [], base, cw, []. rewrite add_lbls_nil. simpl app.
    assert (A := labeled_here_assoc l (SLabeled l0 whole) base eq_refl Hw). rewrite E in A.
    destruct Hu as [Hu1 Hu2].
    repeat split; try assumption; try reflexivity; try (simpl; lia); try apply incl_refl; try (intros ? []).
Qed.

(* MiniGo — shared syntax (engine E2).  Definitions only.
   A tiny structured language: integer/boolean expressions over variables (booleans are 0/1),
   and the statement forms whose compilation fast/statement.go + fast/switch.go implement.
   Variables are resolved to (up, idx): frame `up` counted from the innermost runtime frame, slot `idx`.
   A runtime frame exists for the function and for every block / for-header that declares variables
   (exactly the places where gomacro emits a PushEnv statement). *)
From Coq Require Import List ZArith Bool.
Import ListNotations.
Open Scope Z_scope.

Inductive expr :=
| EConst (z : Z)
| EVar (up idx : nat)
| EAdd (a b : expr)
| ESub (a b : expr)
| ELt (a b : expr)
| EEq (a b : expr)
| ENot (a : expr)
| EAnd (a b : expr)
| EOr (a b : expr).

(* simple statements allowed in for-init / for-post *)
Inductive simple :=
| SiAssign (up idx : nat) (e : expr)
| SiEmit (e : expr).

Inductive ckind := CCase (es : list expr) | CDefault.

(* a "block" is a pair (n, body): n = number of variables the statement list declares (n>0 <-> PushEnv) *)
Inductive stmt :=
| SSkip
| SSeq (a b : stmt)
| SEmit (e : expr)                                   (* emit(e): appends the value of e to the event trace *)
| SAssign (up idx : nat) (e : expr)                  (* also models `x := e` (slot of the innermost frame) *)
| SBlock (n : nat) (body : stmt)
| SIf (c : expr) (nt : nat) (thn : stmt) (he : bool) (els : stmt)   (* he: has else; els is a block or another if *)
| SFor (n : nat) (init : list simple) (cond : option expr) (post : list simple) (nb : nat) (body : stmt)
| SSwitch (tag : option expr) (cs : clauses)
| SBreak (l : option nat)
| SContinue (l : option nat)
| SLabeled (l : nat) (s : stmt)
| SGoto (l : nat)
| SReturn
with clauses :=
| CNil
| CCons (k : ckind) (nb : nat) (body : stmt) (fall : bool) (rest : clauses).

Scheme stmt_mut := Induction for stmt Sort Prop
  with clauses_mut := Induction for clauses Sort Prop.
Combined Scheme stmt_clauses_ind from stmt_mut, clauses_mut.

(* ---------- stores: a stack of frames ---------- *)
Definition frame := list Z.
Definition envs := list frame.

Fixpoint upd {A} (l : list A) (i : nat) (x : A) : list A :=
  match l, i with
  | [], _ => []
  | _ :: l', O => x :: l'
  | y :: l', S i' => y :: upd l' i' x
  end.

Definition rd (st : envs) (up idx : nat) : Z := nth idx (nth up st []) 0.
Definition wr (st : envs) (up idx : nat) (v : Z) : envs := upd st up (upd (nth up st []) idx v).

Definition push (n : nat) (st : envs) : envs := if Nat.eqb n 0 then st else repeat 0 n :: st.
Definition pop (n : nat) (st : envs) : envs := if Nat.eqb n 0 then st else tl st.

Definition b2z (b : bool) : Z := if b then 1 else 0.
Definition truthy (z : Z) : bool := negb (Z.eqb z 0).

Fixpoint eval (e : expr) (st : envs) : Z :=
  match e with
  | EConst z => z
  | EVar up idx => rd st up idx
  | EAdd a b => eval a st + eval b st
  | ESub a b => eval a st - eval b st
  | ELt a b => b2z (Z.ltb (eval a st) (eval b st))
  | EEq a b => b2z (Z.eqb (eval a st) (eval b st))
  | ENot a => b2z (negb (truthy (eval a st)))
  | EAnd a b => b2z (truthy (eval a st) && truthy (eval b st))
  | EOr a b => b2z (truthy (eval a st) || truthy (eval b st))
  end.

(* constant expressions (what the Go compiler folds): no variable occurs *)
Fixpoint econst (e : expr) : bool :=
  match e with
  | EConst _ => true
  | EVar _ _ => false
  | EAdd a b | ESub a b | ELt a b | EEq a b | EAnd a b | EOr a b => econst a && econst b
  | ENot a => econst a
  end.

Definition lmatch (l : option nat) (lbls : list nat) : bool :=
  match l with None => true | Some x => existsb (Nat.eqb x) lbls end.

(* the suffix of a statement sequence that starts at the statement labelled l (top level of the sequence only) *)
Fixpoint labeled_here (l : nat) (s : stmt) : bool :=
  match s with
  | SLabeled l' s' => Nat.eqb l l' || labeled_here l s'
  | _ => false
  end.

Fixpoint find_label (l : nat) (s : stmt) : option stmt :=
  match s with
  | SSeq a b => match find_label l a with
                | Some a' => Some (SSeq a' b)
                | None => find_label l b
                end
  | SLabeled _ _ => if labeled_here l s then Some s else None
  | _ => None
  end.

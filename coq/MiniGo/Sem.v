(* MiniGo — fuelled big-step reference semantics: the SPEC (what Go does).  Definitions only.
   It is differentially validated against compiled Go by the C05 harness (the same programs are compiled by
   the Go toolchain; event trace and final values must agree), and it is literally the strategy of a direct
   AST interpreter.  Every recursive call consumes one unit of fuel; [None] = out of fuel (never a value). *)
From Coq Require Import List ZArith Bool.
From Verif Require Import MiniGo.Syntax.
Import ListNotations.
Open Scope Z_scope.

Inductive outcome :=
| ONormal
| OBrk (l : option nat)
| OCont (l : option nat)
| OGoto (l : nat)
| ORet.

(* result: outcome, store, event trace (newest first) *)
Definition result := option (outcome * envs * list Z).

Fixpoint run_simple (ss : list simple) (st : envs) (tr : list Z) : envs * list Z :=
  match ss with
  | [] => (st, tr)
  | SiAssign u i e :: ss' => run_simple ss' (wr st u i (eval e st)) tr
  | SiEmit e :: ss' => run_simple ss' st (eval e st :: tr)
  end.

(* first case clause (in source order) one of whose expressions equals the tag value; the suffix starting there *)
Fixpoint find_case (v : Z) (st : envs) (cs : clauses) : option clauses :=
  match cs with
  | CNil => None
  | CCons (CCase es) _ _ _ rest =>
      if existsb (fun e => Z.eqb v (eval e st)) es then Some cs else find_case v st rest
  | CCons CDefault _ _ _ rest => find_case v st rest
  end.

Fixpoint find_default (cs : clauses) : option clauses :=
  match cs with
  | CNil => None
  | CCons CDefault _ _ _ _ => Some cs
  | CCons _ _ _ _ rest => find_default rest
  end.

Definition select_clause (v : Z) (st : envs) (cs : clauses) : clauses :=
  match find_case v st cs with
  | Some c => c
  | None => match find_default cs with Some c => c | None => CNil end
  end.

Definition after_block (n : nat) (r : result) : result :=
  match r with
  | Some (o, st, tr) => Some (o, pop n st, tr)
  | None => None
  end.

Fixpoint exec (n : nat) (lbls : list nat) (s : stmt) (st : envs) (tr : list Z) {struct n} : result :=
  match n with
  | O => None
  | S n' =>
    match s with
    | SSkip => Some (ONormal, st, tr)
    | SSeq a b =>
        match exec n' [] a st tr with
        | Some (ONormal, st1, tr1) => exec n' [] b st1 tr1
        | r => r
        end
    | SEmit e => Some (ONormal, st, eval e st :: tr)
    | SAssign u i e => Some (ONormal, wr st u i (eval e st), tr)
    | SBlock nl body => after_block nl (blk n' body body (push nl st) tr)
    | SIf c nt thn he els =>
        if truthy (eval c st) then after_block nt (blk n' thn thn (push nt st) tr)
        else if he then exec n' [] els st tr
        else Some (ONormal, st, tr)
    | SFor nl init cond post nb body =>
        (* header variables live in ONE frame for the whole loop (Go < 1.22: per-loop, not per-iteration) *)
        let '(st1, tr1) := run_simple init (push nl st) tr in
        after_block nl (loop n' lbls cond post nb body st1 tr1)
    | SSwitch tag cs =>
        let v := match tag with Some e => eval e st | None => 1 end in
        match clauses_from n' (select_clause v st cs) st tr with
        | Some (OBrk l, st1, tr1) => if lmatch l lbls then Some (ONormal, st1, tr1) else Some (OBrk l, st1, tr1)
        | r => r
        end
    | SBreak l => Some (OBrk l, st, tr)
    | SContinue l => Some (OCont l, st, tr)
    | SLabeled l s' => exec n' (l :: lbls) s' st tr
    | SGoto l => Some (OGoto l, st, tr)
    | SReturn => Some (ORet, st, tr)
    end
  end

(* a statement list [whole], currently executing its suffix [cur]; a goto to a label of this list restarts there *)
with blk (n : nat) (whole cur : stmt) (st : envs) (tr : list Z) {struct n} : result :=
  match n with
  | O => None
  | S n' =>
    match exec n' [] cur st tr with
    | Some (OGoto l, st1, tr1) =>
        match find_label l whole with
        | Some s' => blk n' whole s' st1 tr1
        | None => Some (OGoto l, st1, tr1)
        end
    | r => r
    end
  end

with loop (n : nat) (lbls : list nat) (cond : option expr) (post : list simple) (nb : nat) (body : stmt)
          (st : envs) (tr : list Z) {struct n} : result :=
  match n with
  | O => None
  | S n' =>
    if match cond with Some c => truthy (eval c st) | None => true end then
      match after_block nb (blk n' body body (push nb st) tr) with
      | Some (ONormal, st1, tr1) =>
          let '(st2, tr2) := run_simple post st1 tr1 in loop n' lbls cond post nb body st2 tr2
      | Some (OCont l, st1, tr1) =>
          if lmatch l lbls then let '(st2, tr2) := run_simple post st1 tr1 in loop n' lbls cond post nb body st2 tr2
          else Some (OCont l, st1, tr1)
      | Some (OBrk l, st1, tr1) =>
          if lmatch l lbls then Some (ONormal, st1, tr1) else Some (OBrk l, st1, tr1)
      | r => r
      end
    else Some (ONormal, st, tr)
  end

(* bodies of the selected clause and, through fallthrough, of the following ones *)
with clauses_from (n : nat) (cs : clauses) (st : envs) (tr : list Z) {struct n} : result :=
  match n with
  | O => None
  | S n' =>
    match cs with
    | CNil => Some (ONormal, st, tr)
    | CCons _ nb body fall rest =>
        match after_block nb (blk n' body body (push nb st) tr) with
        | Some (ONormal, st1, tr1) => if fall then clauses_from n' rest st1 tr1 else Some (ONormal, st1, tr1)
        | r => r
        end
    end
  end.

(* a function with nres named results (frame 0) and body: the body is a statement list of the function frame *)
Definition exec_func (n : nat) (nres : nat) (body : stmt) : result :=
  blk n body body [repeat 0 nres] [].

(* MiniGo — hand model of what gomacro's fast/ compiler and executor do with a MiniGo function.  Definitions only.

   compile : the flat Code array.  gomacro patches jump targets through captured *int after compiling a
   construct; here the same targets are computed compositionally from [size] (number of Code slots).
     Comp.Block/List + pushEnvIfLocalBinds/popEnvIfLocalBinds   -> [wrap] (IPush n ... IPop iff the list declares)
     Comp.If                                                    -> IJif Then Else ; then ; [IJmp End] ; else
     Comp.For                                                   -> [IPush] init [IJif cond] body post IJmp Cond [IPop]
     Comp.Switch/switchCase/switchDefault/switchCaseBody        -> [ITag] (INop|IGotoMap) {header body (IJmp brk|IFall)}* [IJmp default+1]
     switch2.go switchGotoMap/switchGotoSlice                   -> IGotoMap (installed iff >= 2 leading constants)
     Comp.Break/Continue/Goto + jumpOut(upn, ip)                -> IJmp upn target, upn = sum of UpCost of the Comps left
     Comp.Return / stmtReturn                                   -> IRet
   ctx models the chain of *Comp (innermost first): UpCost, LoopInfo{Break,Continue,ThisLabels}, Labels.
   The executor model [step]/[run] is the statement-returns-next-statement loop of code.go on (IP, env stack). *)
From Coq Require Import List ZArith Bool Arith.
From Verif Require Import MiniGo.Syntax.
Import ListNotations.
Open Scope nat_scope.

Inductive instr :=
| INop
| IEmit (e : expr)
| IAssign (up idx : nat) (e : expr)
| IPush (n : nat)                       (* pushEnvIfFlag's closure: NewEnv(env, nbind...) ; inner.IP++ *)
| IPop                                  (* popEnv: outer.IP = env.IP+1 *)
| IJmp (upn tgt : nat)                  (* jumpOut(upn, &tgt), also the internal jumps (upn = 0) *)
| IJif (c : expr) (t f : nat)           (* if fun(env) { ip = t } else { ip = f } *)
| ITag (id : nat) (e : expr)            (* switchTag: the tag value is saved in an unnamed bind *)
| ICase (id : option nat) (es : list expr) (iend : nat)   (* switchCase header: tag == e1 || tag == e2 ... *)
| IFall                                 (* stmtFallthrough: env.IP += 2 *)
| IGotoMap (id : nat) (tbl : list (Z * nat))
| IRet.

Record loopinfo := mkLoop { li_labels : list nat; li_brk : nat; li_cont : option nat }.
Record cframe := mkFrame { f_cost : nat; f_loop : option loopinfo; f_lbls : list (nat * nat) }.
Definition ctx := list cframe.

Definition cost (n : nat) : nat := if Nat.eqb n 0 then 0 else 1.

(* ---------- sizes ---------- *)
Fixpoint has_default (cs : clauses) : bool :=
  match cs with
  | CNil => false
  | CCons CDefault _ _ _ _ => true
  | CCons _ _ _ _ rest => has_default rest
  end.

Fixpoint size (s : stmt) : nat :=
  match s with
  | SSkip => 0
  | SSeq a b => size a + size b
  | SEmit _ | SAssign _ _ _ | SBreak _ | SContinue _ | SGoto _ | SReturn => 1
  | SBlock n body => size body + 2 * cost n
  | SIf _ nt thn he els => 1 + (size thn + 2 * cost nt) + (if he then 1 + size els else 0)
  | SFor n init cond post nb body =>
      2 * cost n + length init + (match cond with Some _ => 1 | None => 0 end)
      + (size body + 2 * cost nb) + length post + 1
  | SSwitch tag cs => (match tag with Some _ => 1 | None => 0 end) + 1 + csize cs
                      + (if has_default cs then 1 else 0)
  | SLabeled _ s' => size s'
  end
with csize (cs : clauses) : nat :=
  match cs with
  | CNil => 0
  | CCons _ nb body _ rest => 1 + (size body + 2 * cost nb) + 1 + csize rest
  end.

Definition bsize (n : nat) (body : stmt) : nat := size body + 2 * cost n.

(* ---------- labels visible at the top level of a statement sequence, with their addresses ---------- *)
Fixpoint spine_labels (base : nat) (s : stmt) : list (nat * nat) :=
  match s with
  | SSeq a b => spine_labels base a ++ spine_labels (base + size a) b
  | SLabeled l s' => (l, base) :: spine_labels base s'
  | _ => []
  end.

Definition add_lbls (cx : ctx) (ls : list (nat * nat)) : ctx :=
  match cx with
  | [] => []
  | f :: r => mkFrame (f_cost f) (f_loop f) (f_lbls f ++ ls) :: r
  end.

Fixpoint assoc (l : nat) (ls : list (nat * nat)) : option nat :=
  match ls with
  | [] => None
  | (k, v) :: r => if Nat.eqb l k then Some v else assoc l r
  end.

(* Comp.Break: walk the Comp chain outward, upn += o.UpCost *)
Fixpoint resolve_break (cx : ctx) (l : option nat) (upn : nat) : option (nat * nat) :=
  match cx with
  | [] => None
  | f :: r =>
      match f_loop f with
      | Some li => if lmatch l (li_labels li) then Some (upn, li_brk li) else resolve_break r l (upn + f_cost f)
      | None => resolve_break r l (upn + f_cost f)
      end
  end.

(* Comp.Continue: only Comps whose LoopInfo has a Continue target (loops, not switches) *)
Fixpoint resolve_cont (cx : ctx) (l : option nat) (upn : nat) : option (nat * nat) :=
  match cx with
  | [] => None
  | f :: r =>
      match f_loop f with
      | Some (mkLoop ls _ (Some ct)) => if lmatch l ls then Some (upn, ct) else resolve_cont r l (upn + f_cost f)
      | _ => resolve_cont r l (upn + f_cost f)
      end
  end.

(* Comp.Goto (with fix C05-1: the function's own Comp, the last frame, is searched too) *)
Fixpoint resolve_goto (cx : ctx) (l : nat) (upn : nat) : option (nat * nat) :=
  match cx with
  | [] => None
  | f :: r =>
      match assoc l (f_lbls f) with
      | Some tgt => Some (upn, tgt)
      | None => resolve_goto r l (upn + f_cost f)
      end
  end.

Definition csimple (s : simple) : instr :=
  match s with SiAssign u i e => IAssign u i e | SiEmit e => IEmit e end.

(* { ... } compiled by Comp.List: PushEnv / PopEnv only if the list declares variables *)
Definition wrap (n : nat) (c : list instr) : list instr :=
  if Nat.eqb n 0 then c else IPush n :: c ++ [IPop].

Definition emptyframe : cframe := mkFrame 0 None [].

Definition bind {A B} (o : option A) (f : A -> option B) : option B :=
  match o with Some x => f x | None => None end.
Notation "x <- a ;; b" := (bind a (fun x => b)) (at level 61, a at next level, right associativity).

(* ---------- switch2.go: constants before the first non-constant case expression -> body address ---------- *)
Fixpoint gm_es (ibody : nat) (es : list expr) (allc : bool) : list (Z * nat) * bool :=
  match es with
  | [] => ([], allc)
  | e :: r =>
      if econst e then
        let '(m, a) := gm_es ibody r allc in ((if allc then [(eval e [], ibody)] else []) ++ m, a)
      else gm_es ibody r false
  end.

Fixpoint gotomap (base : nat) (cs : clauses) (allc : bool) : list (Z * nat) :=
  match cs with
  | CNil => []
  | CCons k nb body _ rest =>
      let iend := base + 1 + bsize nb body + 1 in
      match k with
      | CDefault => gotomap iend rest allc
      | CCase es => let '(m, a) := gm_es (base + 1) es allc in m ++ gotomap iend rest a
      end
  end.

Fixpoint zassoc (v : Z) (t : list (Z * nat)) : option nat :=
  match t with
  | [] => None
  | (k, ip) :: r => if Z.eqb v k then Some ip else zassoc v r
  end.

(* address of the default clause's header *)
Fixpoint default_ip (base : nat) (cs : clauses) : option nat :=
  match cs with
  | CNil => None
  | CCons CDefault _ _ _ _ => Some base
  | CCons _ nb body _ rest => default_ip (base + 1 + bsize nb body + 1) rest
  end.

Definition is_cnil (cs : clauses) : bool := match cs with CNil => true | _ => false end.

(* ---------- the compiler ---------- *)
Fixpoint compile (cx : ctx) (base : nat) (lbls : list nat) (s : stmt) {struct s} : option (list instr) :=
  match s with
  | SSkip => Some []
  | SSeq a b =>
      ca <- compile cx base [] a ;;
      cb <- compile (add_lbls cx (spine_labels base a)) (base + size a) [] b ;;
      Some (ca ++ cb)
  | SEmit e => Some [IEmit e]
  | SAssign u i e => Some [IAssign u i e]
  | SBlock n body =>
      cb <- compile (mkFrame (cost n) None [] :: cx) (base + cost n) [] body ;;
      Some (wrap n cb)
  | SIf c nt thn he els =>
      let cxi := emptyframe :: cx in
      let then_ip := base + 1 in
      let else_ip := base + 1 + bsize nt thn + (if he then 1 else 0) in
      let end_ip := else_ip + (if he then size els else 0) in
      ct <- compile (mkFrame (cost nt) None [] :: cxi) (then_ip + cost nt) [] thn ;;
      ce <- (if he then compile cxi else_ip [] els else Some []) ;;
      Some (IJif c then_ip else_ip :: wrap nt ct ++ (if he then [IJmp 0 end_ip] else []) ++ ce)
  | SFor n init cond post nb body =>
      let b0 := base + cost n in
      let cond_ip := b0 + length init in
      let body_ip := cond_ip + (match cond with Some _ => 1 | None => 0 end) in
      let post_ip := body_ip + bsize nb body in
      let jmp_ip := post_ip + length post in
      let brk_ip := jmp_ip + 1 in
      let cont_ip := match post with [] => cond_ip | _ => post_ip end in
      let cxf := mkFrame (cost n) (Some (mkLoop lbls brk_ip (Some cont_ip))) [] :: cx in
      cb <- compile (mkFrame (cost nb) None [] :: cxf) (body_ip + cost nb) [] body ;;
      Some (wrap n (map csimple init
                    ++ (match cond with Some c => [IJif c (cond_ip + 1) brk_ip] | None => [] end)
                    ++ wrap nb cb ++ map csimple post ++ [IJmp 0 cond_ip]))
  | SSwitch tag cs =>
      let tcost := match tag with Some _ => 1 | None => 0 end in
      let cl_ip := base + tcost + 1 in
      let def := default_ip cl_ip cs in
      let brk_ip := cl_ip + csize cs + (match def with Some _ => 1 | None => 0 end) in
      let cxs := mkFrame 0 (Some (mkLoop lbls brk_ip None)) [] :: cx in
      let tid := match tag with Some _ => Some base | None => None end in
      cc <- compile_clauses cxs cl_ip tid brk_ip cs ;;
      let gm := gotomap cl_ip cs true in
      Some ((match tag with Some e => [ITag base e] | None => [] end)
            ++ [match tag with
                | Some _ => if Nat.leb 2 (length gm) then IGotoMap base gm else INop
                | None => INop
                end]
            ++ cc
            ++ (match def with Some d => [IJmp 0 (d + 1)] | None => [] end))
  | SBreak l => match resolve_break cx l 0 with Some (u, t) => Some [IJmp u t] | None => None end
  | SContinue l => match resolve_cont cx l 0 with Some (u, t) => Some [IJmp u t] | None => None end
  | SLabeled l s' => compile (add_lbls cx [(l, base)]) base (l :: lbls) s'
  | SGoto l => match resolve_goto cx l 0 with Some (u, t) => Some [IJmp u t] | None => None end
  | SReturn => Some [IRet]
  end
with compile_clauses (cxs : ctx) (base : nat) (tid : option nat) (brk : nat) (cs : clauses) {struct cs}
  : option (list instr) :=
  match cs with
  | CNil => Some []
  | CCons k nb body fall rest =>
      let iend := base + 1 + bsize nb body + 1 in
      if fall && is_cnil rest then None   (* "cannot fallthrough final case in switch" *)
      else
        cb <- compile (mkFrame (cost nb) None [] :: cxs) (base + 1 + cost nb) [] body ;;
        cr <- compile_clauses cxs iend tid brk rest ;;
        Some ((match k with CCase es => ICase tid es iend | CDefault => IJmp 0 iend end)
              :: wrap nb cb ++ [if fall then IFall else IJmp 0 brk] ++ cr)
  end.

(* func p() (v0 .. v{nres-1} int) { body }: one declaration slot per named result, then the body compiled
   directly in the function's Comp (no PushEnv: the call creates the frame) *)
Definition compile_func (nres : nat) (body : stmt) : option (list instr) :=
  c <- compile [emptyframe] nres [] body ;;
  Some (repeat INop nres ++ c).

(* ---------- the executor ---------- *)
Record mstate := mkM { m_ip : nat; m_env : envs; m_tags : nat -> Z; m_tr : list Z; m_ips : list nat }.

Inductive sres := Step (s : mstate) | Halt (s : mstate) | Stuck.

Definition settag (t : nat -> Z) (id : nat) (v : Z) : nat -> Z := fun i => if Nat.eqb i id then v else t i.

Definition step (code : list instr) (s : mstate) : sres :=
  let '(mkM ip st tg tr ips) := s in
  match nth_error code ip with
  | None => if Nat.eqb ip (length code) then Halt s else Stuck     (* code[len] = spinInterrupt *)
  | Some i =>
      let ips' := ip :: ips in
      match i with
      | INop => Step (mkM (ip + 1) st tg tr ips')
      | IEmit e => Step (mkM (ip + 1) st tg (eval e st :: tr) ips')
      | IAssign u i e => Step (mkM (ip + 1) (wr st u i (eval e st)) tg tr ips')
      | IPush n => Step (mkM (ip + 1) (repeat 0%Z n :: st) tg tr ips')
      | IPop => Step (mkM (ip + 1) (tl st) tg tr ips')
      | IJmp upn tgt => Step (mkM tgt (skipn upn st) tg tr ips')
      | IJif c t f => Step (mkM (if truthy (eval c st) then t else f) st tg tr ips')
      | ITag id e => Step (mkM (ip + 1) st (settag tg id (eval e st)) tr ips')
      | ICase id es iend =>
          let v := match id with Some i => tg i | None => 1%Z end in
          Step (mkM (if existsb (fun e => Z.eqb v (eval e st)) es then ip + 1 else iend) st tg tr ips')
      | IFall => Step (mkM (ip + 2) st tg tr ips')
      | IGotoMap id tbl =>
          Step (mkM (match zassoc (tg id) tbl with Some t => t | None => ip + 1 end) st tg tr ips')
      | IRet => Halt (mkM ip st tg tr ips')
      end
  end.

Fixpoint run (fuel : nat) (code : list instr) (s : mstate) : option mstate :=
  match fuel with
  | O => None
  | S f => match step code s with
           | Step s' => run f code s'
           | Halt s' => Some s'
           | Stuck => None
           end
  end.

Definition init_state (nres : nat) : mstate := mkM 0 [repeat 0%Z nres] (fun _ => 0%Z) [] [].

(* C29 — lemmas, part 2: the list-shaped cases of FromReflectType (fromReflectFunc / fromReflectStruct), hence
   FRspec ("FromReflectType meets its specification on every term") as a closed lemma, and the history theorems of
   Proof.v instantiated with it (no premise left). *)
From Coq Require Import List NArith ZArith Bool Arith Lia.
From Verif Require Import C29.Model C29.Proof.
Import ListNotations.

(* ---------------------------------------------------------------- the local fixpoints of from_reflect, named *)
Fixpoint from_list (l : list term) (u : univ) : univ * list nat :=
  match l with
  | [] => (u, [])
  | x :: l' => let '(u1, i) := from_reflect x u in let '(u2, is) := from_list l' u1 in (u2, i :: is)
  end.

Fixpoint from_fields (l : list (N * term)) (u : univ) : univ * list nat :=
  match l with
  | [] => (u, [])
  | (_, x) :: l' => let '(u1, i) := from_reflect x u in let '(u2, is) := from_fields l' u1 in (u2, i :: is)
  end.

(* one-step unfoldings (by conversion: the local fixpoints of Model.from_reflect are these functions) *)
Lemma from_reflect_func ins outs va u : from_reflect (TFunc ins outs va) u =
  cached u (TFunc ins outs va) (fun _ =>
    let '(u1, ii) := from_list ins u in
    let '(u2, io) := from_list outs u1 in
    maketype4 u2 (TFunc (map (gt_of u2) ii) (map (gt_of u2) io) va)
                 (TFunc (map (rt_of u2) ii) (map (rt_of u2) io) va) ODefault).
Proof. reflexivity. Qed.

Lemma from_reflect_struct fs u : from_reflect (TStruct fs) u =
  cached u (TStruct fs) (fun _ =>
    let '(u1, is) := from_fields fs u in
    maketype4 u1 (TStruct (combine (map fst fs) (map (gt_of u1) is))) (TStruct fs) ODefault).
Proof. reflexivity. Qed.

Lemma from_list_nil u : from_list [] u = (u, []).
Proof. reflexivity. Qed.
Lemma from_list_cons x l u : from_list (x :: l) u =
  let '(u1, i) := from_reflect x u in let '(u2, is) := from_list l u1 in (u2, i :: is).
Proof. reflexivity. Qed.
Lemma from_fields_cons n x l u : from_fields ((n, x) :: l) u =
  let '(u1, i) := from_reflect x u in let '(u2, is) := from_fields l u1 in (u2, i :: is).
Proof. reflexivity. Qed.

Lemma from_fields_list fs : forall u, from_fields fs u = from_list (map snd fs) u.
Proof.
  induction fs as [|[n x] fs IH]; intros u.
  - reflexivity.
  - cbn [map snd]. rewrite from_fields_cons, from_list_cons.
    destruct (from_reflect x u) as [u1 i]. rewrite IH. reflexivity.
Qed.

(* ---------------------------------------------------------------- the fold over a component list *)
(* [lk u t i]: object i is THE cache entry of term t in u *)
Definition lk (u : univ) (t : term) (i : nat) : Prop := lookup (cache u) t = Some i.

Lemma lk_ext u u' l ids : ext u u' -> Forall2 (lk u) l ids -> Forall2 (lk u') l ids.
Proof. intros E. induction 1; constructor; auto. apply (ext_cache _ _ E); auto. Qed.

(* generalised statement threading the universe through the fold: invariant kept, universe only extended, and every
   component's result is (still, at the end) the cache entry of its term *)
Lemma from_list_ok l : Forall FRat l -> forall u, clean_all l = true -> Inv u ->
  Inv (fst (from_list l u)) /\ ext u (fst (from_list l u)) /\
  Forall2 (lk (fst (from_list l u))) l (snd (from_list l u)).
Proof.
  induction 1 as [|x l Hx _ IH]; intros u Hc HI.
  - rewrite from_list_nil. cbn [fst snd]. split; [|split]; auto using ext_refl.
  - rewrite from_list_cons. cbn [clean_all] in Hc. apply andb_true_iff in Hc. destruct Hc as [Hcx Hcl].
    pose proof (Hx u Hcx HI) as G. destruct (from_reflect x u) as [u1 i]. cbn [fst snd] in G.
    destruct G as (I1 & X1 & L1).
    specialize (IH u1 Hcl I1). destruct (from_list l u1) as [u2 ids]. cbn [fst snd] in *.
    destruct IH as (I2 & X2 & F2).
    split; [|split]; auto.
    + eapply ext_trans; eauto.
    + constructor; auto. apply (ext_cache _ _ X2); auto.
Qed.

(* reading the components back: their go/types side and their reflect side are the component terms *)
Lemma lk_maps u l ids : Inv u -> Forall2 (lk u) l ids -> map (gt_of u) ids = l /\ map (rt_of u) ids = l.
Proof.
  intros HI. induction 1 as [|t i l ids L _ IH]; cbn [map]; auto.
  destruct (inv_cache _ HI t i L) as (o & Ho & Hg). destruct (inv_obj _ HI i o Ho) as (A & _).
  rewrite (gt_of_get _ _ _ Ho), (rt_of_get _ _ _ Ho), A, Hg. destruct IH as [-> ->]. auto.
Qed.

(* ---------------------------------------------------------------- fromReflectFunc *)
Lemma FR_func ins outs va : Forall FRat ins -> Forall FRat outs -> FRat (TFunc ins outs va).
Proof.
  intros Hi Ho u Hc HI. rewrite from_reflect_func. apply cached_ok; auto. intros _. cbv beta.
  pose proof Hc as Hc'. rewrite clean_func in Hc'. apply andb_true_iff in Hc'. destruct Hc' as [Hci Hco].
  destruct (from_list_ok ins Hi u Hci HI) as (I1 & X1 & F1). destruct (from_list ins u) as [u1 ii]. cbn [fst snd] in *.
  destruct (from_list_ok outs Ho u1 Hco I1) as (I2 & X2 & F2). destruct (from_list outs u1) as [u2 io]. cbn [fst snd] in *.
  pose proof (lk_ext _ _ _ _ X2 F1) as F1'.
  destruct (lk_maps _ _ _ I2 F1') as [-> ->]. destruct (lk_maps _ _ _ I2 F2) as [-> ->].
  destruct (maketype4_ok u2 (TFunc ins outs va) I2 Hc) as (I3 & X3 & L3 & _).
  split; [|split]; auto. eapply ext_trans; [exact X1|]. eapply ext_trans; eauto.
Qed.

(* ---------------------------------------------------------------- fromReflectStruct *)
Lemma clean_fs_map fs : clean_fs fs = clean_all (map snd fs).
Proof. induction fs as [|[n x] fs IH]; cbn [clean_fs clean_all map snd]; auto. rewrite IH. reflexivity. Qed.

Lemma combine_fst_snd {A B} (l : list (A * B)) : combine (map fst l) (map snd l) = l.
Proof. induction l as [|[a b] l IH]; cbn [combine map fst snd]; auto. rewrite IH. reflexivity. Qed.

Lemma Forall_map_snd (P : term -> Prop) (fs : list (N * term)) :
  Forall (fun p => P (snd p)) fs -> Forall P (map snd fs).
Proof. induction 1; cbn [map]; constructor; auto. Qed.

Lemma FR_struct fs : Forall (fun p => FRat (snd p)) fs -> FRat (TStruct fs).
Proof.
  intros Hf u Hc HI. rewrite from_reflect_struct. apply cached_ok; auto. intros _. cbv beta.
  pose proof Hc as Hc'. rewrite clean_struct, clean_fs_map in Hc'.
  rewrite from_fields_list.
  destruct (from_list_ok (map snd fs) (Forall_map_snd _ _ Hf) u Hc' HI) as (I1 & X1 & F1).
  destruct (from_list (map snd fs) u) as [u1 ids]. cbn [fst snd] in *.
  destruct (lk_maps _ _ _ I1 F1) as [-> _]. rewrite combine_fst_snd.
  destruct (maketype4_ok u1 (TStruct fs) I1 Hc) as (I2 & X2 & L2 & _).
  split; [|split]; auto. eapply ext_trans; eauto.
Qed.

(* ---------------------------------------------------------------- FRspec, closed *)
Lemma from_reflect_FRat : forall r, FRat r.
Proof.
  induction r using term_ind'.
  - intros u Hc HI. apply from_reflect_leaf; eauto.
  - intros u Hc HI. apply from_reflect_leaf; eauto.
  - apply FR_ptr; auto.
  - apply FR_slice; auto.
  - apply FR_array; auto.
  - apply FR_chan; auto.
  - apply FR_map; auto.
  - apply FR_func; auto.
  - apply FR_struct; auto.
Qed.

Lemma from_reflect_spec : FRspec.
Proof. intros r u Hc HI. apply from_reflect_FRat; auto. Qed.

(* ---------------------------------------------------------------- the history theorems without premise *)
Lemma canonical_closed : forall ops i j a b,
  nth_error (snd (run ops)) i = Some (Some a) -> nth_error (snd (run ops)) j = Some (Some b) ->
  (a = b <-> nth_error (denote ops) i = nth_error (denote ops) j).
Proof. exact (canonical from_reflect_spec). Qed.

Lemma pairing_closed : forall ops i a,
  nth_error (snd (run ops)) i = Some (Some a) ->
  exists t x, nth_error (denote ops) i = Some (Some t) /\ get (fst (run ops)) a = Some x /\ ogt x = t /\ ort x = t.
Proof. exact (pairing from_reflect_spec). Qed.

Lemma run_inv_closed : forall ops,
  Inv (fst (run ops)) /\ Forall2 (rel (fst (run ops))) (snd (run ops)) (denote ops).
Proof. exact (run_inv from_reflect_spec). Qed.

Lemma rejected_closed : forall ops i,
  nth_error (snd (run ops)) i = Some None <-> nth_error (denote ops) i = Some None.
Proof. exact (rejected from_reflect_spec). Qed.

Lemma no_forward_closed : forall ops id x,
  get (fst (run ops)) id = Some x -> is_fwd (ort x) = false /\ oopt x = ODefault.
Proof. exact (no_forward from_reflect_spec). Qed.

(* C29 — executable model of the xreflect type universe (xreflect/universe.go, type.go, composite.go,
   function.go, struct.go, fromreflect.go): the identity-keyed cache Universe.Types, maketype4 ("build the
   go/types term, look it up, else allocate and insert"), the constructors ArrayOf/ChanOf/MapOf/PtrTo/SliceOf/
   FuncOf/StructOf with their Forward "contagion" (propagateFwd, approxReflectType), and FromReflectType for
   non-recursive reflect types with its own reflect-keyed cache Universe.ReflectTypes.
   Definitions only (no proofs).

   Type terms are a LOCAL term language (not coq/C28's [ty]: C28 was still being built; the generic theorem in
   Proof.v is stated for any key identity that is an equivalence, so C28's [identb] can be plugged in later):
   basic kinds, imported named types (opaque identities, as in typeutil.Identical which never looks through a
   *Named), pointer, slice, array, chan+dir, map, func (no receiver), struct with exported non-embedded fields
   (field name+tag abstracted to an id).  On this fragment typeutil.Identical is structural equality [term_eqb].

   The reflect side: a reflect.Type is a canonical value (the runtime hash-conses types: r.PtrTo(a) == r.PtrTo(b)
   iff a == b), so it is modelled by the same term language; xreflect.Forward is the reserved term [rfwd].
   Objects (the xtype structs) live in a heap indexed by allocation order; their rtype and option fields are mutable
   (UnsafeForceReflectType, the OptIncomplete -> OptDefault update, propagateFwd's OptRecursive mark). *)
From Coq Require Import List NArith ZArith Bool Arith.
Import ListNotations.

Inductive term :=
| TBasic (k : N)
| TNamed (id : N)
| TPtr (e : term)
| TSlice (e : term)
| TArray (n : Z) (e : term)
| TChan (dir : N) (e : term)
| TMap (k e : term)
| TFunc (ins outs : list term) (va : bool)
| TStruct (fs : list (N * term)).

Fixpoint term_eqb (a b : term) : bool :=
  let list_eqb := fix list_eqb (x y : list term) : bool :=
    match x, y with
    | [], [] => true
    | u :: x', v :: y' => term_eqb u v && list_eqb x' y'
    | _, _ => false
    end in
  match a, b with
  | TBasic x, TBasic y => N.eqb x y
  | TNamed x, TNamed y => N.eqb x y
  | TPtr x, TPtr y => term_eqb x y
  | TSlice x, TSlice y => term_eqb x y
  | TArray n x, TArray m y => Z.eqb n m && term_eqb x y
  | TChan d x, TChan e y => N.eqb d e && term_eqb x y
  | TMap k x, TMap l y => term_eqb k l && term_eqb x y
  | TFunc i o v, TFunc j p w => list_eqb i j && list_eqb o p && Bool.eqb v w
  | TStruct f, TStruct g =>
      (fix fs_eqb (x y : list (N * term)) : bool :=
         match x, y with
         | [], [] => true
         | (n, u) :: x', (m, v) :: y' => N.eqb n m && term_eqb u v && fs_eqb x' y'
         | _, _ => false
         end) f g
  | _, _ => false
  end.

(* xreflect.Forward *)
Definition rfwd : term := TBasic 255.
Definition is_fwd (r : term) : bool := term_eqb r rfwd.

(* Option: OptDefault = 0, OptRecursive = 1, OptIncomplete = 2; combined with | *)
Definition opt := N.
Definition ODefault : opt := 0%N.
Definition ORecursive : opt := 1%N.
Definition OIncomplete : opt := 2%N.

Record obj := mkObj { ogt : term; ort : term; oopt : opt }.

(* heap: *xtype objects in allocation order (object id = position);
   cache: Universe.Types.gmap, keys pairwise non-identical;  rcache: Universe.ReflectTypes *)
Record univ := mkU { heap : list obj; cache : list (term * nat); rcache : list (term * nat) }.

Definition get (u : univ) (id : nat) : option obj := nth_error (heap u) id.

Fixpoint lookup (c : list (term * nat)) (g : term) : option nat :=
  match c with
  | [] => None
  | (k, v) :: c' => if term_eqb k g then Some v else lookup c' g
  end.

Fixpoint cdel (c : list (term * nat)) (g : term) : list (term * nat) :=
  match c with
  | [] => []
  | (k, v) :: c' => if term_eqb k g then cdel c' g else (k, v) :: cdel c' g
  end.

(* typeutil.Map.Set: replaces the value of an identical key *)
Definition cset (c : list (term * nat)) (g : term) (id : nat) : list (term * nat) := (g, id) :: cdel c g.

Fixpoint set_nth {A} (l : list A) (i : nat) (x : A) : list A :=
  match l, i with
  | [], _ => []
  | _ :: l', O => x :: l'
  | y :: l', S i' => y :: set_nth l' i' x
  end.

Definition upd_obj (u : univ) (id : nat) (x : obj) : univ := mkU (set_nth (heap u) id x) (cache u) (rcache u).

(* xt := &xtype{...}; v.add(t) *)
Definition alloc (u : univ) (g r : term) (o : opt) : univ * nat :=
  let id := length (heap u) in
  (mkU (heap u ++ [mkObj g r o]) (cset (cache u) g id) (rcache u), id).

(* Universe.maketype4 *)
Definition maketype4 (u : univ) (g r : term) (o : opt) : univ * nat :=
  let fresh := alloc u g r (if is_fwd r then OIncomplete else o) in
  match lookup (cache u) g with
  | None => fresh
  | Some id =>
      match get u id with
      | None => fresh                 (* a cache entry always points into the heap *)
      | Some x =>
          let upd := (N.eqb o ODefault && N.eqb (oopt x) OIncomplete)%bool in
          if term_eqb (ort x) r then
            ((if upd then upd_obj u id (mkObj (ogt x) (ort x) o) else u), id)
          else if is_fwd (ort x) then
            (upd_obj u id (mkObj (ogt x) r (if upd then o else oopt x)), id)   (* UnsafeForceReflectType *)
          else fresh                  (* mismatched reflect.Type: a new object replaces the cache entry *)
      end
  end.

(* propagateFwd(e, maker) *)
Definition propagate (u : univ) (ie : nat) (x : obj) (maker : term -> term) : univ * term :=
  if (negb (N.eqb (oopt x) ODefault) || is_fwd (ort x))%bool
  then (upd_obj u ie (mkObj (ogt x) (ort x) ORecursive), rfwd)
  else (u, maker (ort x)).

(* e.approxReflectType() *)
Definition approx (u : univ) (ie : nat) (x : obj) : univ * term :=
  if negb (N.eqb (oopt x) ODefault)
  then (upd_obj u ie (mkObj (ogt x) (ort x) ORecursive), rfwd)
  else (u, ort x).

(* the option is read after propagateFwd/approxReflectType marked the element *)
Definition opt_of (u : univ) (id : nat) : opt := match get u id with Some x => oopt x | None => ODefault end.

Definition unary (u : univ) (ie : nat) (mk : term -> term) (fwdprop : bool) : option (univ * nat) :=
  match get u ie with
  | None => None
  | Some x =>
      let '(u1, r) := if fwdprop then propagate u ie x mk else (let '(u1, r0) := approx u ie x in (u1, mk r0)) in
      Some (maketype4 u1 (mk (ogt x)) r (opt_of u1 ie))
  end.

Definition ptr_to u ie := unary u ie TPtr true.
Definition slice_of u ie := unary u ie TSlice true.
Definition array_of u n ie := unary u ie (TArray n) true.
Definition chan_of u d ie := unary u ie (TChan d) false.

Definition map_of (u : univ) (ik ie : nat) : option (univ * nat) :=
  match get u ik with
  | None => None
  | Some k =>
      let '(u1, rk) := approx u ik k in
      match get u1 ie with
      | None => None
      | Some e =>
          let '(u2, re) := approx u1 ie e in
          Some (maketype4 u2 (TMap (ogt k) (ogt e)) (TMap rk re) (N.lor (opt_of u2 ik) (opt_of u2 ie)))
      end
  end.

Fixpoint get_all (u : univ) (ids : list nat) : option (list obj) :=
  match ids with
  | [] => Some []
  | i :: r => match get u i, get_all u r with Some x, Some xs => Some (x :: xs) | _, _ => None end
  end.

Definition combine_opt (xs : list obj) : opt := fold_right (fun x a => N.lor (oopt x) a) ODefault xs.

(* FuncOf = MethodOf(nil, in, out, variadic): a Forward parameter or result makes the whole reflect type Forward *)
Definition func_of (u : univ) (ins outs : list nat) (va : bool) : option (univ * nat) :=
  match get_all u ins, get_all u outs with
  | Some xi, Some xo =>
      let ri := map ort xi in
      let ro := map ort xo in
      let rf := if existsb is_fwd (ri ++ ro) then rfwd else TFunc ri ro va in
      Some (maketype4 u (TFunc (map ogt xi) (map ogt xo) va) rf (N.lor (combine_opt xi) (combine_opt xo)))
  | _, _ => None
  end.

(* StructOf (exported, non-embedded fields: reflect.StructOf builds the exact type) *)
Definition struct_of (u : univ) (fs : list (N * nat)) : option (univ * nat) :=
  match get_all u (map snd fs) with
  | Some xs =>
      let names := map fst fs in
      Some (maketype4 u (TStruct (combine names (map ogt xs))) (TStruct (combine names (map ort xs))) (combine_opt xs))
  | None => None
  end.

(* ---------------------------------------------------------------- FromReflectType (non-recursive types) *)
Definition rcache_set (u : univ) (r : term) (id : nat) : univ := mkU (heap u) (cache u) (cset (rcache u) r id).

(* fromReflectType: BasicTypes / imported named types go straight to the go/types-keyed cache; unnamed composites
   first consult ReflectTypes, else convert the components, build with maketype and remember the result.
   The go/types term is built from the components' gtype, the reflect type from their (approximated) rtype. *)
Definition cached (u : univ) (r : term) (build : unit -> univ * nat) : univ * nat :=
  match lookup (rcache u) r with
  | Some id => (u, id)
  | None => let res := build tt in (rcache_set (fst res) r (snd res), snd res)
  end.

Definition gt_of (u : univ) (i : nat) : term := match get u i with Some x => ogt x | None => rfwd end.
Definition rt_of (u : univ) (i : nat) : term := match get u i with Some x => ort x | None => rfwd end.
Definition approx_of (u : univ) (i : nat) : univ * term :=
  match get u i with Some x => approx u i x | None => (u, rfwd) end.

Fixpoint from_reflect (r : term) (u : univ) {struct r} : univ * nat :=
  let from_list := fix from_list (l : list term) (u : univ) : univ * list nat :=
    match l with
    | [] => (u, [])
    | x :: l' => let '(u1, i) := from_reflect x u in let '(u2, is) := from_list l' u1 in (u2, i :: is)
    end in
  let from_fields := fix from_fields (l : list (N * term)) (u : univ) : univ * list nat :=
    match l with
    | [] => (u, [])
    | (_, x) :: l' => let '(u1, i) := from_reflect x u in let '(u2, is) := from_fields l' u1 in (u2, i :: is)
    end in
  match r with
  | TBasic _ => maketype4 u r r ODefault
  | TNamed _ => maketype4 u r r ODefault
  | TPtr e => cached u r (fun _ =>
      let '(u1, i) := from_reflect e u in
      maketype4 u1 (TPtr (gt_of u1 i)) (TPtr e) (opt_of u1 i))
  | TSlice e => cached u r (fun _ =>
      let '(u1, i) := from_reflect e u in
      let '(u2, re) := approx_of u1 i in
      maketype4 u2 (TSlice (gt_of u2 i)) (TSlice re) (opt_of u2 i))
  | TArray n e => cached u r (fun _ =>
      let '(u1, i) := from_reflect e u in
      maketype4 u1 (TArray n (gt_of u1 i)) (TArray n (rt_of u1 i)) (opt_of u1 i))
  | TChan d e => cached u r (fun _ =>
      let '(u1, i) := from_reflect e u in
      maketype4 u1 (TChan d (gt_of u1 i)) (TChan d (rt_of u1 i)) (opt_of u1 i))
  | TMap k e => cached u r (fun _ =>
      let '(u1, ik) := from_reflect k u in
      let '(u2, ie) := from_reflect e u1 in
      let '(u3, rk) := approx_of u2 ik in
      let '(u4, re) := approx_of u3 ie in
      maketype4 u4 (TMap (gt_of u4 ik) (gt_of u4 ie)) (TMap rk re) (N.lor (opt_of u4 ik) (opt_of u4 ie)))
  | TFunc ins outs va => cached u r (fun _ =>
      let '(u1, ii) := from_list ins u in
      let '(u2, io) := from_list outs u1 in
      maketype4 u2 (TFunc (map (gt_of u2) ii) (map (gt_of u2) io) va)
                   (TFunc (map (rt_of u2) ii) (map (rt_of u2) io) va) ODefault)
  | TStruct fs => cached u r (fun _ =>
      let '(u1, is) := from_fields fs u in
      maketype4 u1 (TStruct (combine (map fst fs) (map (gt_of u1) is))) r ODefault)
  end.

(* ---------------------------------------------------------------- histories *)
(* arguments are indices into the list of earlier results *)
Inductive op :=
| OBase (k : N)                       (* Universe.BasicTypes[k] via FromReflectType *)
| ONamed (id : N)                     (* FromReflectType of an imported named type *)
| OPtr (i : nat) | OSlice (i : nat) | OArray (n : Z) (i : nat) | OChan (d : N) (i : nat)
| OMap (k e : nat)
| OFunc (ins outs : list nat) (va : bool)
| OStruct (fs : list (N * nat))
| OFrom (r : term).                   (* FromReflectType of the reflect type denoting r *)

(* reflect has no kind 255 (the reserved term for xreflect.Forward): such an op is rejected *)
Fixpoint clean (t : term) : bool :=
  let all := fix all (l : list term) : bool := match l with [] => true | x :: l' => clean x && all l' end in
  match t with
  | TBasic k => negb (N.eqb k 255)
  | TNamed _ => true
  | TPtr e | TSlice e | TArray _ e | TChan _ e => clean e
  | TMap k e => clean k && clean e
  | TFunc i o _ => all i && all o
  | TStruct fs => (fix allf (l : list (N * term)) : bool := match l with [] => true | (_, x) :: l' => clean x && allf l' end) fs
  end.

Definition sel (res : list (option nat)) (i : nat) : option nat :=
  match nth_error res i with Some (Some id) => Some id | _ => None end.

Fixpoint sel_all (res : list (option nat)) (is : list nat) : option (list nat) :=
  match is with
  | [] => Some []
  | i :: r => match sel res i, sel_all res r with Some x, Some xs => Some (x :: xs) | _, _ => None end
  end.

Definition bind1 (res : list (option nat)) (i : nat) (f : nat -> option (univ * nat)) : option (univ * nat) :=
  match sel res i with Some id => f id | None => None end.

Definition step (u : univ) (res : list (option nat)) (o : op) : option (univ * nat) :=
  match o with
  | OBase k => if clean (TBasic k) then Some (from_reflect (TBasic k) u) else None
  | ONamed id => Some (from_reflect (TNamed id) u)
  | OPtr i => bind1 res i (ptr_to u)
  | OSlice i => bind1 res i (slice_of u)
  | OArray n i => bind1 res i (array_of u n)
  | OChan d i => bind1 res i (chan_of u d)
  | OMap k e => bind1 res k (fun ik => bind1 res e (fun ie => map_of u ik ie))
  | OFunc ins outs va =>
      match sel_all res ins, sel_all res outs with
      | Some a, Some b => func_of u a b va
      | _, _ => None
      end
  | OStruct fs =>
      match sel_all res (map snd fs) with
      | Some a => struct_of u (combine (map fst fs) a)
      | None => None
      end
  | OFrom r => if clean r then Some (from_reflect r u) else None
  end.

(* results in order; an ill-formed op (bad index) yields None and leaves the universe unchanged *)
Fixpoint run_from (u : univ) (res : list (option nat)) (ops : list op) : univ * list (option nat) :=
  match ops with
  | [] => (u, res)
  | o :: ops' =>
      match step u res o with
      | Some (u', id) => run_from u' (res ++ [Some id]) ops'
      | None => run_from u (res ++ [None]) ops'
      end
  end.

Definition empty : univ := mkU [] [] [].
Definition run (ops : list op) : univ * list (option nat) := run_from empty [] ops.

(* the term each op denotes (the specification side: no universe involved) *)
Definition dsel (den : list (option term)) (i : nat) : option term :=
  match nth_error den i with Some (Some t) => Some t | _ => None end.
Fixpoint dsel_all (den : list (option term)) (is : list nat) : option (list term) :=
  match is with
  | [] => Some []
  | i :: r => match dsel den i, dsel_all den r with Some x, Some xs => Some (x :: xs) | _, _ => None end
  end.
Definition denote1 (den : list (option term)) (o : op) : option term :=
  match o with
  | OBase k => if clean (TBasic k) then Some (TBasic k) else None
  | ONamed id => Some (TNamed id)
  | OPtr i => option_map TPtr (dsel den i)
  | OSlice i => option_map TSlice (dsel den i)
  | OArray n i => option_map (TArray n) (dsel den i)
  | OChan d i => option_map (TChan d) (dsel den i)
  | OMap k e => match dsel den k, dsel den e with Some a, Some b => Some (TMap a b) | _, _ => None end
  | OFunc ins outs va =>
      match dsel_all den ins, dsel_all den outs with Some a, Some b => Some (TFunc a b va) | _, _ => None end
  | OStruct fs =>
      match dsel_all den (map snd fs) with Some a => Some (TStruct (combine (map fst fs) a)) | None => None end
  | OFrom r => if clean r then Some r else None
  end.
Fixpoint denote_from (den : list (option term)) (ops : list op) : list (option term) :=
  match ops with
  | [] => den
  | o :: ops' => denote_from (den ++ [denote1 den o]) ops'
  end.
Definition denote (ops : list op) : list (option term) := denote_from [] ops.

(* ---------------------------------------------------------------- correspondence *)
(* observation per op: index of the first op that returned the same object (-1: op rejected), and whether
   the object's reflect type is the one reflect's own constructors build for the denoted term *)
Fixpoint first_index (res : list (option nat)) (id : nat) (i : Z) : Z :=
  match res with
  | [] => (-1)%Z
  | Some x :: r => if Nat.eqb x id then i else first_index r id (i + 1)%Z
  | None :: r => first_index r id (i + 1)%Z
  end.

Definition observe (ops : list op) : list (Z * bool) :=
  let '(u, res) := run ops in
  map (fun r => match r with
                | None => ((-1)%Z, false)
                | Some id => (first_index res id 0%Z,
                              match get u id with Some x => term_eqb (ort x) (ogt x) | None => false end)
                end) res.

Fixpoint obs_eqb (a b : list (Z * bool)) : bool :=
  match a, b with
  | [], [] => true
  | (i, p) :: a', (j, q) :: b' => Z.eqb i j && Bool.eqb p q && obs_eqb a' b'
  | _, _ => false
  end.

Record case := mkCase { c_idx : Z; c_ops : list op; c_obs : list (Z * bool) }.
Definition case_ok (c : case) : bool := obs_eqb (observe (c_ops c)) (c_obs c).
Definition mismatches (cs : list case) : list Z := map c_idx (filter (fun c => negb (case_ok c)) cs).

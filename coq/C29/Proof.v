(* C29 — lemmas: decidable term identity, the cache as a finite map, the universe invariant and its preservation
   by maketype4 / the constructors / FromReflectType, canonicity and pairing over all histories. *)
From Coq Require Import List NArith ZArith Bool Arith Lia.
From Verif Require Import C29.Model.
Import ListNotations.

(* ---------------------------------------------------------------- induction principle for nested terms *)
Section TermInd.
  Variable P : term -> Prop.
  Hypothesis Hb : forall k, P (TBasic k).
  Hypothesis Hn : forall i, P (TNamed i).
  Hypothesis Hp : forall e, P e -> P (TPtr e).
  Hypothesis Hs : forall e, P e -> P (TSlice e).
  Hypothesis Ha : forall n e, P e -> P (TArray n e).
  Hypothesis Hc : forall d e, P e -> P (TChan d e).
  Hypothesis Hm : forall k e, P k -> P e -> P (TMap k e).
  Hypothesis Hf : forall i o v, Forall P i -> Forall P o -> P (TFunc i o v).
  Hypothesis Hst : forall fs, Forall (fun p => P (snd p)) fs -> P (TStruct fs).

  Fixpoint term_ind' (t : term) : P t :=
    match t with
    | TBasic k => Hb k
    | TNamed i => Hn i
    | TPtr e => Hp e (term_ind' e)
    | TSlice e => Hs e (term_ind' e)
    | TArray n e => Ha n e (term_ind' e)
    | TChan d e => Hc d e (term_ind' e)
    | TMap k e => Hm k e (term_ind' k) (term_ind' e)
    | TFunc i o v =>
        Hf i o v
          ((fix go (l : list term) : Forall P l := match l with [] => Forall_nil _ | x :: l' => Forall_cons _ (term_ind' x) (go l') end) i)
          ((fix go (l : list term) : Forall P l := match l with [] => Forall_nil _ | x :: l' => Forall_cons _ (term_ind' x) (go l') end) o)
    | TStruct fs =>
        Hst fs ((fix go (l : list (N * term)) : Forall (fun p => P (snd p)) l :=
                   match l with [] => Forall_nil _ | p :: l' => Forall_cons _ (term_ind' (snd p)) (go l') end) fs)
    end.
End TermInd.

Fixpoint list_eqb (x y : list term) : bool :=
  match x, y with
  | [], [] => true
  | u :: x', v :: y' => term_eqb u v && list_eqb x' y'
  | _, _ => false
  end.
Fixpoint fs_eqb (x y : list (N * term)) : bool :=
  match x, y with
  | [], [] => true
  | (n, u) :: x', (m, v) :: y' => N.eqb n m && term_eqb u v && fs_eqb x' y'
  | _, _ => false
  end.

Lemma term_eqb_func i o v j p w : term_eqb (TFunc i o v) (TFunc j p w) = list_eqb i j && list_eqb o p && Bool.eqb v w.
Proof. reflexivity. Qed.
Lemma term_eqb_struct f g : term_eqb (TStruct f) (TStruct g) = fs_eqb f g.
Proof. reflexivity. Qed.

Lemma list_eqb_eq x : Forall (fun a => forall b, term_eqb a b = true <-> a = b) x -> forall y, list_eqb x y = true <-> x = y.
Proof.
  induction 1 as [|a x Ha _ IH]; intros [|b y]; simpl; try (split; [discriminate|discriminate]); try tauto.
  rewrite andb_true_iff, Ha, IH. split; [intros [-> ->]; reflexivity|intros E; inversion E; auto].
Qed.
Lemma fs_eqb_eq x : Forall (fun p => forall b, term_eqb (snd p) b = true <-> snd p = b) x -> forall y, fs_eqb x y = true <-> x = y.
Proof.
  induction 1 as [|[n a] x Ha _ IH]; intros [|[m b] y]; simpl in *; try (split; [discriminate|discriminate]); try tauto.
  rewrite !andb_true_iff, Ha, IH, N.eqb_eq. split; [intros [[-> ->] ->]; reflexivity|intros E; inversion E; auto].
Qed.

Lemma term_eqb_eq : forall a b, term_eqb a b = true <-> a = b.
Proof.
  induction a using term_ind'; intros b; destruct b;
    try (simpl; split; [discriminate|discriminate]).
  - simpl. rewrite N.eqb_eq. split; congruence.
  - simpl. rewrite N.eqb_eq. split; congruence.
  - simpl. rewrite IHa. split; congruence.
  - simpl. rewrite IHa. split; congruence.
  - simpl. rewrite andb_true_iff, Z.eqb_eq, IHa. split; [intros [-> ->]; reflexivity|intros E; inversion E; auto].
  - simpl. rewrite andb_true_iff, N.eqb_eq, IHa. split; [intros [-> ->]; reflexivity|intros E; inversion E; auto].
  - simpl. rewrite andb_true_iff, IHa1, IHa2. split; [intros [-> ->]; reflexivity|intros E; inversion E; auto].
  - rewrite term_eqb_func, !andb_true_iff, (list_eqb_eq _ H), (list_eqb_eq _ H0), eqb_true_iff.
    split; [intros [[-> ->] ->]; reflexivity|intros E; inversion E; auto].
  - rewrite term_eqb_struct, (fs_eqb_eq _ H). split; congruence.
Qed.

Lemma term_eqb_refl a : term_eqb a a = true.
Proof. apply term_eqb_eq; reflexivity. Qed.
Lemma term_eqb_neq a b : a <> b -> term_eqb a b = false.
Proof. intros H. destruct (term_eqb a b) eqn:E; auto. apply term_eqb_eq in E. contradiction. Qed.

(* ---------------------------------------------------------------- the cache as a finite map *)
Lemma lookup_cdel c g k : lookup (cdel c g) k = if term_eqb g k then None else lookup c k.
Proof.
  induction c as [|[k0 v] c IH]; simpl.
  - destruct (term_eqb g k); reflexivity.
  - destruct (term_eqb k0 g) eqn:E.
    + apply term_eqb_eq in E; subst k0. rewrite IH. destruct (term_eqb g k); reflexivity.
    + simpl. rewrite IH. destruct (term_eqb g k) eqn:E2; [|reflexivity].
      apply term_eqb_eq in E2; subst k. rewrite E. reflexivity.
Qed.
Lemma lookup_cset c g id k : lookup (cset c g id) k = if term_eqb g k then Some id else lookup c k.
Proof. unfold cset. simpl. rewrite lookup_cdel. destruct (term_eqb g k); reflexivity. Qed.

Lemma clean_not_fwd g : clean g = true -> is_fwd g = false.
Proof.
  intros H. unfold is_fwd. apply term_eqb_neq. intros ->. simpl in H. discriminate.
Qed.

(* ---------------------------------------------------------------- invariant *)
(* every object pairs a clean go/types term with the same reflect term, is complete (OptDefault), and is THE cache
   entry of its term; the reflect-keyed cache agrees with the identity-keyed cache *)
Record Inv (u : univ) : Prop := mkInv {
  inv_obj : forall id x, get u id = Some x ->
      ort x = ogt x /\ oopt x = ODefault /\ clean (ogt x) = true /\ lookup (cache u) (ogt x) = Some id;
  inv_cache : forall g id, lookup (cache u) g = Some id -> exists x, get u id = Some x /\ ogt x = g;
  inv_rcache : forall r id, lookup (rcache u) r = Some id -> lookup (cache u) r = Some id }.

(* u' extends u: objects keep their identity, cache answers are kept *)
Record ext (u u' : univ) : Prop := mkExt {
  ext_get : forall id x, get u id = Some x -> get u' id = Some x;
  ext_cache : forall g id, lookup (cache u) g = Some id -> lookup (cache u') g = Some id }.

Lemma ext_refl u : ext u u.
Proof. split; auto. Qed.
Lemma ext_trans a b c : ext a b -> ext b c -> ext a c.
Proof. intros [] []; split; auto. Qed.

Lemma Inv_empty : Inv empty.
Proof.
  split; unfold get, empty; simpl; intros.
  - destruct id; discriminate.
  - discriminate.
  - discriminate.
Qed.

Lemma get_app_old u id x y : get u id = Some x -> nth_error (heap u ++ [y]) id = Some x.
Proof. unfold get. intros H. rewrite nth_error_app1; auto. apply nth_error_Some. congruence. Qed.

Lemma nth_error_snoc {A} (l : list A) y id x : nth_error (l ++ [y]) id = Some x ->
  (nth_error l id = Some x) \/ (id = length l /\ x = y).
Proof.
  intros H. destruct (Nat.lt_ge_cases id (length l)).
  - rewrite nth_error_app1 in H; auto.
  - rewrite nth_error_app2 in H; auto. destruct (id - length l) as [|[|n]] eqn:E; simpl in H; try discriminate.
    right. split; [lia|congruence].
Qed.

(* maketype4 on a consistent pair (g, g, OptDefault) *)
Lemma maketype4_ok u g : Inv u -> clean g = true ->
  let r := maketype4 u g g ODefault in
  Inv (fst r) /\ ext u (fst r) /\ lookup (cache (fst r)) g = Some (snd r) /\ rcache (fst r) = rcache u.
Proof.
  intros HI Hc. unfold maketype4.
  assert (Hfresh : let r := alloc u g g ODefault in
            lookup (cache u) g = None ->
            Inv (fst r) /\ ext u (fst r) /\ lookup (cache (fst r)) g = Some (snd r) /\ rcache (fst r) = rcache u).
  { intros r0 Hnone. unfold r0, alloc. simpl. split; [|split; [|split]]; simpl.
    - constructor; simpl.
      + (* inv_obj *)
        intros id x Hg. unfold get in Hg. simpl in Hg. apply nth_error_snoc in Hg. destruct Hg as [Hg|[-> ->]].
        * destruct (inv_obj _ HI id x Hg) as (A & B & C & D). split; [|split; [|split]]; auto.
          rewrite lookup_cset. destruct (term_eqb g (ogt x)) eqn:E; auto.
          apply term_eqb_eq in E; subst g. congruence.
        * simpl. split; [|split; [|split]]; auto. rewrite lookup_cset, term_eqb_refl. reflexivity.
      + (* inv_cache *)
        intros k id Hl. rewrite lookup_cset in Hl. destruct (term_eqb g k) eqn:E.
        * apply term_eqb_eq in E; subst k. inversion Hl; subst id. exists (mkObj g g ODefault). split; auto.
          unfold get. simpl. rewrite nth_error_app2, Nat.sub_diag; auto.
        * destruct (inv_cache _ HI k id Hl) as (x & Hx & Hgx). exists x. split; auto.
          unfold get; simpl. apply get_app_old; auto.
      + (* inv_rcache *)
        intros k id Hl. apply (inv_rcache _ HI) in Hl. rewrite lookup_cset.
        destruct (term_eqb g k) eqn:E; auto. apply term_eqb_eq in E; subst k. congruence.
    - constructor; simpl.
      + intros id x Hg. unfold get; simpl. apply get_app_old; auto.
      + intros k id Hl. rewrite lookup_cset. destruct (term_eqb g k) eqn:E; auto.
        apply term_eqb_eq in E; subst k. congruence.
    - rewrite lookup_cset, term_eqb_refl. reflexivity.
    - reflexivity. }
  rewrite (clean_not_fwd g Hc).
  destruct (lookup (cache u) g) as [id|] eqn:El.
  - destruct (inv_cache _ HI g id El) as (x & Hx & Hgx). rewrite Hx.
    destruct (inv_obj _ HI id x Hx) as (A & B & C & D).
    rewrite A, Hgx, term_eqb_refl, B. simpl. split; [|split; [|split]]; auto using ext_refl.
  - apply Hfresh; auto.
Qed.

(* C29 — lemmas: decidable term identity, the cache as a finite map, the universe invariant and its preservation
   by maketype4 / the constructors / FromReflectType, canonicity and pairing over all histories. *)
From Coq Require Import List NArith ZArith Bool Arith Lia.
From Verif Require Import C29.Model.
Import ListNotations.

(* ---------------------------------------------------------------- induction principle for nested terms *)
Section TermInd.
  Variable P : term -> Prop.
  Hypothesis Hb : forall k, P (TBasic k).
  Hypothesis Hn : forall i, P (TNamed i).
  Hypothesis Hp : forall e, P e -> P (TPtr e).
  Hypothesis Hs : forall e, P e -> P (TSlice e).
  Hypothesis Ha : forall n e, P e -> P (TArray n e).
  Hypothesis Hc : forall d e, P e -> P (TChan d e).
  Hypothesis Hm : forall k e, P k -> P e -> P (TMap k e).
  Hypothesis Hf : forall i o v, Forall P i -> Forall P o -> P (TFunc i o v).
  Hypothesis Hst : forall fs, Forall (fun p => P (snd p)) fs -> P (TStruct fs).

  Fixpoint term_ind' (t : term) : P t :=
    match t with
    | TBasic k => Hb k
    | TNamed i => Hn i
    | TPtr e => Hp e (term_ind' e)
    | TSlice e => Hs e (term_ind' e)
    | TArray n e => Ha n e (term_ind' e)
    | TChan d e => Hc d e (term_ind' e)
    | TMap k e => Hm k e (term_ind' k) (term_ind' e)
    | TFunc i o v =>
        Hf i o v
          ((fix go (l : list term) : Forall P l := match l with [] => Forall_nil _ | x :: l' => Forall_cons _ (term_ind' x) (go l') end) i)
          ((fix go (l : list term) : Forall P l := match l with [] => Forall_nil _ | x :: l' => Forall_cons _ (term_ind' x) (go l') end) o)
    | TStruct fs =>
        Hst fs ((fix go (l : list (N * term)) : Forall (fun p => P (snd p)) l :=
                   match l with [] => Forall_nil _ | p :: l' => Forall_cons _ (term_ind' (snd p)) (go l') end) fs)
    end.
End TermInd.

Fixpoint list_eqb (x y : list term) : bool :=
  match x, y with
  | [], [] => true
  | u :: x', v :: y' => term_eqb u v && list_eqb x' y'
  | _, _ => false
  end.
Fixpoint fs_eqb (x y : list (N * term)) : bool :=
  match x, y with
  | [], [] => true
  | (n, u) :: x', (m, v) :: y' => N.eqb n m && term_eqb u v && fs_eqb x' y'
  | _, _ => false
  end.

Lemma term_eqb_func i o v j p w : term_eqb (TFunc i o v) (TFunc j p w) = list_eqb i j && list_eqb o p && Bool.eqb v w.
Proof. reflexivity. Qed.
Lemma term_eqb_struct f g : term_eqb (TStruct f) (TStruct g) = fs_eqb f g.
Proof. reflexivity. Qed.

Lemma list_eqb_eq x : Forall (fun a => forall b, term_eqb a b = true <-> a = b) x -> forall y, list_eqb x y = true <-> x = y.
Proof.
  induction 1 as [|a x Ha _ IH]; intros [|b y]; simpl; try (split; [discriminate|discriminate]); try tauto.
  rewrite andb_true_iff, Ha, IH. split; [intros [-> ->]; reflexivity|intros E; inversion E; auto].
Qed.
Lemma fs_eqb_eq x : Forall (fun p => forall b, term_eqb (snd p) b = true <-> snd p = b) x -> forall y, fs_eqb x y = true <-> x = y.
Proof.
  induction 1 as [|[n a] x Ha _ IH]; intros [|[m b] y]; simpl in *; try (split; [discriminate|discriminate]); try tauto.
  rewrite !andb_true_iff, Ha, IH, N.eqb_eq. split; [intros [[-> ->] ->]; reflexivity|intros E; inversion E; auto].
Qed.

Lemma term_eqb_eq : forall a b, term_eqb a b = true <-> a = b.
Proof.
  induction a using term_ind'; intros b; destruct b;
    try (simpl; split; [discriminate|discriminate]).
  - simpl. rewrite N.eqb_eq. split; congruence.
  - simpl. rewrite N.eqb_eq. split; congruence.
  - simpl. rewrite IHa. split; congruence.
  - simpl. rewrite IHa. split; congruence.
  - simpl. rewrite andb_true_iff, Z.eqb_eq, IHa. split; [intros [-> ->]; reflexivity|intros E; inversion E; auto].
  - simpl. rewrite andb_true_iff, N.eqb_eq, IHa. split; [intros [-> ->]; reflexivity|intros E; inversion E; auto].
  - simpl. rewrite andb_true_iff, IHa1, IHa2. split; [intros [-> ->]; reflexivity|intros E; inversion E; auto].
  - rewrite term_eqb_func, !andb_true_iff, (list_eqb_eq _ H), (list_eqb_eq _ H0), eqb_true_iff.
    split; [intros [[-> ->] ->]; reflexivity|intros E; inversion E; auto].
  - rewrite term_eqb_struct, (fs_eqb_eq _ H). split; congruence.
Qed.

Lemma term_eqb_refl a : term_eqb a a = true.
Proof. apply term_eqb_eq; reflexivity. Qed.
Lemma term_eqb_neq a b : a <> b -> term_eqb a b = false.
Proof. intros H. destruct (term_eqb a b) eqn:E; auto. apply term_eqb_eq in E. contradiction. Qed.

(* ---------------------------------------------------------------- the cache as a finite map *)
Lemma lookup_cdel c g k : lookup (cdel c g) k = if term_eqb g k then None else lookup c k.
Proof.
  induction c as [|[k0 v] c IH]; simpl.
  - destruct (term_eqb g k); reflexivity.
  - destruct (term_eqb k0 g) eqn:E.
    + apply term_eqb_eq in E; subst k0. rewrite IH. destruct (term_eqb g k); reflexivity.
    + simpl. rewrite IH. destruct (term_eqb g k) eqn:E2; [|reflexivity].
      apply term_eqb_eq in E2; subst k. rewrite E. reflexivity.
Qed.
Lemma lookup_cset c g id k : lookup (cset c g id) k = if term_eqb g k then Some id else lookup c k.
Proof. unfold cset. simpl. rewrite lookup_cdel. destruct (term_eqb g k); reflexivity. Qed.

Global Opaque cset.

Lemma clean_not_fwd g : clean g = true -> is_fwd g = false.
Proof.
  intros H. unfold is_fwd. apply term_eqb_neq. intros ->. simpl in H. discriminate.
Qed.

(* ---------------------------------------------------------------- invariant *)
(* every object pairs a clean go/types term with the same reflect term, is complete (OptDefault), and is THE cache
   entry of its term; the reflect-keyed cache agrees with the identity-keyed cache *)
Record Inv (u : univ) : Prop := mkInv {
  inv_obj : forall id x, get u id = Some x ->
      ort x = ogt x /\ oopt x = ODefault /\ clean (ogt x) = true /\ lookup (cache u) (ogt x) = Some id;
  inv_cache : forall g id, lookup (cache u) g = Some id -> exists x, get u id = Some x /\ ogt x = g;
  inv_rcache : forall r id, lookup (rcache u) r = Some id -> lookup (cache u) r = Some id }.

(* u' extends u: objects keep their identity, cache answers are kept *)
Record ext (u u' : univ) : Prop := mkExt {
  ext_get : forall id x, get u id = Some x -> get u' id = Some x;
  ext_cache : forall g id, lookup (cache u) g = Some id -> lookup (cache u') g = Some id }.

Lemma ext_refl u : ext u u.
Proof. split; auto. Qed.
Lemma ext_trans a b c : ext a b -> ext b c -> ext a c.
Proof. intros [] []; split; auto. Qed.

Lemma Inv_empty : Inv empty.
Proof.
  split; unfold get, empty; simpl; intros.
  - destruct id; discriminate.
  - discriminate.
  - discriminate.
Qed.

Lemma get_app_old u id x y : get u id = Some x -> nth_error (heap u ++ [y]) id = Some x.
Proof. unfold get. intros H. rewrite nth_error_app1; auto. apply nth_error_Some. congruence. Qed.

Lemma nth_error_snoc {A} (l : list A) y id x : nth_error (l ++ [y]) id = Some x ->
  (nth_error l id = Some x) \/ (id = length l /\ x = y).
Proof.
  intros H. destruct (Nat.lt_ge_cases id (length l)).
  - rewrite nth_error_app1 in H; auto.
  - rewrite nth_error_app2 in H; auto. destruct (id - length l) as [|[|n]] eqn:E; simpl in H; try discriminate.
    right. split; [lia|congruence].
Qed.

(* maketype4 on a consistent pair (g, g, OptDefault) *)
Lemma maketype4_ok u g : Inv u -> clean g = true ->
  let r := maketype4 u g g ODefault in
  Inv (fst r) /\ ext u (fst r) /\ lookup (cache (fst r)) g = Some (snd r) /\ rcache (fst r) = rcache u.
Proof.
  intros HI Hc. unfold maketype4.
  assert (Hfresh : let r := alloc u g g ODefault in
            lookup (cache u) g = None ->
            Inv (fst r) /\ ext u (fst r) /\ lookup (cache (fst r)) g = Some (snd r) /\ rcache (fst r) = rcache u).
  { intros r0 Hnone. unfold r0, alloc. simpl. split; [|split; [|split]]; simpl.
    - constructor; simpl.
      + (* inv_obj *)
        intros id x Hg. unfold get in Hg. simpl in Hg. apply nth_error_snoc in Hg. destruct Hg as [Hg|[-> ->]].
        * destruct (inv_obj _ HI id x Hg) as (A & B & C & D). split; [|split; [|split]]; auto.
          rewrite lookup_cset. destruct (term_eqb g (ogt x)) eqn:E; auto.
          apply term_eqb_eq in E; subst g. congruence.
        * simpl. split; [|split; [|split]]; auto. rewrite lookup_cset, term_eqb_refl. reflexivity.
      + (* inv_cache *)
        intros k id Hl. rewrite lookup_cset in Hl. destruct (term_eqb g k) eqn:E.
        * apply term_eqb_eq in E; subst k. inversion Hl; subst id. exists (mkObj g g ODefault). split; auto.
          unfold get. simpl. rewrite nth_error_app2, Nat.sub_diag; auto.
        * destruct (inv_cache _ HI k id Hl) as (x & Hx & Hgx). exists x. split; auto.
          unfold get; simpl. apply get_app_old; auto.
      + (* inv_rcache *)
        intros k id Hl. apply (inv_rcache _ HI) in Hl. rewrite lookup_cset.
        destruct (term_eqb g k) eqn:E; auto. apply term_eqb_eq in E; subst k. congruence.
    - constructor; simpl.
      + intros id x Hg. unfold get; simpl. apply get_app_old; auto.
      + intros k id Hl. rewrite lookup_cset. destruct (term_eqb g k) eqn:E; auto.
        apply term_eqb_eq in E; subst k. congruence.
    - rewrite lookup_cset, term_eqb_refl. reflexivity.
    - reflexivity. }
  rewrite (clean_not_fwd g Hc).
  destruct (lookup (cache u) g) as [id|] eqn:El.
  - destruct (inv_cache _ HI g id El) as (x & Hx & Hgx). rewrite Hx.
    destruct (inv_obj _ HI id x Hx) as (A & B & C & D).
    rewrite A, Hgx, term_eqb_refl, B. simpl. split; [|split; [|split]]; auto using ext_refl.
  - apply Hfresh; auto.
Qed.

(* ---------------------------------------------------------------- constructors *)
Lemma opt_of_default u id x : Inv u -> get u id = Some x -> opt_of u id = ODefault.
Proof. intros HI H. unfold opt_of. rewrite H. apply (inv_obj _ HI id x H). Qed.

Definition good (u u' : univ) (g : term) (id : nat) : Prop :=
  Inv u' /\ ext u u' /\ lookup (cache u') g = Some id.

Lemma unary_ok u ie mk fp x : Inv u -> (forall t, clean (mk t) = clean t) -> get u ie = Some x ->
  exists u' id, unary u ie mk fp = Some (u', id) /\ good u u' (mk (ogt x)) id /\ rcache u' = rcache u.
Proof.
  intros HI Hmk Hx. destruct (inv_obj _ HI ie x Hx) as (A & B & C & D).
  unfold unary. rewrite Hx. unfold propagate, approx. rewrite B, A, (clean_not_fwd _ C). simpl.
  pose proof (maketype4_ok u (mk (ogt x)) HI) as M. rewrite Hmk in M. specialize (M C). simpl in M.
  destruct fp; rewrite (opt_of_default u ie x HI Hx); (destruct (maketype4 u (mk (ogt x)) (mk (ogt x)) ODefault) as [u' id] eqn:E; exists u', id;
    simpl in M; destruct M as (M1 & M2 & M3 & M4); split; [reflexivity|split; [split; [|split]; auto|auto]]).
Qed.

Lemma map_of_ok u ik ie k e : Inv u -> get u ik = Some k -> get u ie = Some e ->
  exists u' id, map_of u ik ie = Some (u', id) /\ good u u' (TMap (ogt k) (ogt e)) id /\ rcache u' = rcache u.
Proof.
  intros HI Hk He. destruct (inv_obj _ HI ik k Hk) as (A & B & C & D). destruct (inv_obj _ HI ie e He) as (A' & B' & C' & D').
  unfold map_of. rewrite Hk. unfold approx. rewrite B. simpl. rewrite He. rewrite B'. simpl.
  rewrite (opt_of_default u ik k HI Hk), (opt_of_default u ie e HI He), A, A'. simpl.
  assert (Hc : clean (TMap (ogt k) (ogt e)) = true) by (simpl; rewrite C, C'; reflexivity).
  pose proof (maketype4_ok u _ HI Hc) as M. simpl in M.
  destruct (maketype4 u (TMap (ogt k) (ogt e)) (TMap (ogt k) (ogt e)) ODefault) as [u' id] eqn:E.
  exists u', id. simpl in M. destruct M as (M1 & M2 & M3 & M4). split; [reflexivity|split; [split; [|split]; auto|auto]].
Qed.

Fixpoint clean_all (l : list term) : bool := match l with [] => true | x :: l' => clean x && clean_all l' end.
Lemma clean_func i o v : clean (TFunc i o v) = clean_all i && clean_all o.
Proof. reflexivity. Qed.
Fixpoint clean_fs (l : list (N * term)) : bool := match l with [] => true | (_, x) :: l' => clean x && clean_fs l' end.
Lemma clean_struct fs : clean (TStruct fs) = clean_fs fs.
Proof. reflexivity. Qed.

Lemma get_all_props u ids xs : Inv u -> get_all u ids = Some xs ->
  map ort xs = map ogt xs /\ combine_opt xs = ODefault /\ clean_all (map ogt xs) = true /\
  Forall2 (fun i x => get u i = Some x) ids xs.
Proof.
  intros HI. revert xs. induction ids as [|i ids IH]; intros xs H; simpl in H.
  - inversion H; subst. simpl. auto.
  - destruct (get u i) as [x|] eqn:Hx; [|discriminate]. destruct (get_all u ids) as [ys|] eqn:Hy; [|discriminate].
    inversion H; subst xs. destruct (IH ys eq_refl) as (P1 & P2 & P3 & P4).
    destruct (inv_obj _ HI i x Hx) as (A & B & C & D).
    split; [simpl; rewrite A, P1; reflexivity|].
    split; [unfold combine_opt in *; simpl; rewrite B, P2; reflexivity|].
    split; [simpl; rewrite C, P3; reflexivity|].
    constructor; auto.
Qed.

Lemma existsb_fwd_clean l : clean_all l = true -> existsb is_fwd l = false.
Proof.
  induction l as [|x l IH]; simpl; auto. rewrite andb_true_iff. intros [A B]. rewrite (clean_not_fwd x A), IH; auto.
Qed.
Lemma clean_all_app a b : clean_all (a ++ b) = clean_all a && clean_all b.
Proof. induction a; simpl; auto. rewrite IHa, andb_assoc. reflexivity. Qed.

Lemma func_of_ok u ins outs va xi xo : Inv u -> get_all u ins = Some xi -> get_all u outs = Some xo ->
  exists u' id, func_of u ins outs va = Some (u', id) /\ good u u' (TFunc (map ogt xi) (map ogt xo) va) id /\ rcache u' = rcache u.
Proof.
  intros HI Hi Ho. destruct (get_all_props u ins xi HI Hi) as (A1 & A2 & A3 & _).
  destruct (get_all_props u outs xo HI Ho) as (B1 & B2 & B3 & _).
  unfold func_of. rewrite Hi, Ho, A1, B1, A2, B2.
  rewrite (existsb_fwd_clean (map ogt xi ++ map ogt xo)) by (rewrite clean_all_app, A3, B3; reflexivity). simpl.
  assert (Hc : clean (TFunc (map ogt xi) (map ogt xo) va) = true) by (rewrite clean_func, A3, B3; reflexivity).
  pose proof (maketype4_ok u _ HI Hc) as M. simpl in M.
  destruct (maketype4 u (TFunc (map ogt xi) (map ogt xo) va) (TFunc (map ogt xi) (map ogt xo) va) ODefault) as [u' id] eqn:E.
  exists u', id. simpl in M. destruct M as (M1 & M2 & M3 & M4). split; [reflexivity|split; [split; [|split]; auto|auto]].
Qed.

Lemma clean_fs_combine ns ts : clean_all ts = true -> clean_fs (combine ns ts) = true.
Proof.
  revert ts. induction ns as [|n ns IH]; intros [|t ts]; simpl; auto. rewrite andb_true_iff. intros [A B]. rewrite A, IH; auto.
Qed.

Lemma struct_of_ok u fs xs : Inv u -> get_all u (map snd fs) = Some xs ->
  exists u' id, struct_of u fs = Some (u', id) /\ good u u' (TStruct (combine (map fst fs) (map ogt xs))) id /\ rcache u' = rcache u.
Proof.
  intros HI Hx. destruct (get_all_props u _ xs HI Hx) as (A1 & A2 & A3 & _).
  unfold struct_of. rewrite Hx, A1, A2.
  assert (Hc : clean (TStruct (combine (map fst fs) (map ogt xs))) = true) by (rewrite clean_struct; apply clean_fs_combine; auto).
  pose proof (maketype4_ok u _ HI Hc) as M. simpl in M.
  destruct (maketype4 u (TStruct (combine (map fst fs) (map ogt xs))) (TStruct (combine (map fst fs) (map ogt xs))) ODefault) as [u' id] eqn:E.
  exists u', id. simpl in M. destruct M as (M1 & M2 & M3 & M4). split; [reflexivity|split; [split; [|split]; auto|auto]].
Qed.

(* ---------------------------------------------------------------- histories *)
Definition rel (u : univ) (r : option nat) (d : option term) : Prop :=
  match r, d with
  | Some id, Some t => lookup (cache u) t = Some id
  | None, None => True
  | _, _ => False
  end.

Lemma rel_ext u u' res den : ext u u' -> Forall2 (rel u) res den -> Forall2 (rel u') res den.
Proof.
  intros E. induction 1; constructor; auto. destruct x as [id|], y as [t|]; simpl in *; auto. apply (ext_cache _ _ E); auto.
Qed.

Lemma Forall2_nth {A B} (R : A -> B -> Prop) a b : Forall2 R a b -> forall i,
  match nth_error a i with
  | Some x => exists y, nth_error b i = Some y /\ R x y
  | None => nth_error b i = None
  end.
Proof.
  induction 1; intros [|i]; simpl; auto.
  - exists y. auto.
  - apply IHForall2.
Qed.

Lemma sel_rel u res den i : Forall2 (rel u) res den ->
  match sel res i with
  | Some id => exists t, dsel den i = Some t /\ lookup (cache u) t = Some id
  | None => dsel den i = None
  end.
Proof.
  intros F. pose proof (Forall2_nth _ _ _ F i) as H. unfold sel, dsel.
  destruct (nth_error res i) as [[id|]|].
  - destruct H as ([t|] & -> & R); simpl in R; [|contradiction]. exists t. auto.
  - destruct H as ([t|] & -> & R); simpl in R; [contradiction|]. reflexivity.
  - rewrite H. reflexivity.
Qed.

Lemma sel_all_rel u res den is : Inv u -> Forall2 (rel u) res den ->
  match sel_all res is with
  | Some ids => exists xs, dsel_all den is = Some (map ogt xs) /\ get_all u ids = Some xs
  | None => dsel_all den is = None
  end.
Proof.
  intros HI F. induction is as [|i is IH]; simpl.
  - exists []. auto.
  - pose proof (sel_rel u res den i F) as S. destruct (sel res i) as [id|].
    + destruct S as (t & -> & L). destruct (inv_cache _ HI t id L) as (x & Hx & Hg).
      destruct (sel_all res is) as [ids|].
      * destruct IH as (xs & -> & G). exists (x :: xs). simpl. rewrite Hx, G, Hg. auto.
      * rewrite IH. reflexivity.
    + rewrite S. reflexivity.
Qed.

Lemma sel_all_length res is a : sel_all res is = Some a -> length a = length is.
Proof.
  revert a. induction is as [|i is IH]; intros a H; simpl in H.
  - inversion H. reflexivity.
  - destruct (sel res i); [|discriminate]. destruct (sel_all res is); [|discriminate]. inversion H. simpl. f_equal. apply IH. reflexivity.
Qed.
Lemma map_snd_combine {A B} (a : list A) (b : list B) : length a = length b -> map snd (combine a b) = b.
Proof. revert b. induction a; intros [|y b] H; simpl in *; try discriminate; auto. f_equal. apply IHa. lia. Qed.
Lemma map_fst_combine {A B} (a : list A) (b : list B) : length a = length b -> map fst (combine a b) = a.
Proof. revert b. induction a; intros [|y b] H; simpl in *; try discriminate; auto. f_equal. apply IHa. lia. Qed.

Definition FRspec : Prop := forall r u, clean r = true -> Inv u ->
  good u (fst (from_reflect r u)) r (snd (from_reflect r u)).

Section History.
  Hypothesis FR : FRspec.
  Opaque from_reflect.

  Definition step_post (u : univ) (den : list (option term)) (o : op) (r : option (univ * nat)) : Prop :=
    match r with
    | Some (u', id) => exists t, denote1 den o = Some t /\ good u u' t id
    | None => denote1 den o = None
    end.

  Lemma step_ok u res den o : Inv u -> Forall2 (rel u) res den -> step_post u den o (step u res o).
  Proof.
    intros HI F. unfold step_post. destruct o; simpl.
    - (* OBase *) destruct (negb (k =? 255)%N) eqn:E; [|reflexivity].
      pose proof (FR (TBasic k) u) as G. simpl in G. rewrite E in G. specialize (G eq_refl HI).
      destruct (from_reflect (TBasic k) u) as [u' id]. exists (TBasic k). auto.
    - (* ONamed *) pose proof (FR (TNamed id) u eq_refl HI) as G.
      destruct (from_reflect (TNamed id) u) as [u' i]. exists (TNamed id). auto.
    - (* OPtr *) unfold bind1. pose proof (sel_rel u res den i F) as S. destruct (sel res i) as [id|].
      + destruct S as (t & -> & L). destruct (inv_cache _ HI t id L) as (x & Hx & <-).
        destruct (unary_ok u id TPtr true x HI (fun _ => eq_refl) Hx) as (u' & j & E & G & _).
        unfold ptr_to. rewrite E. exists (TPtr (ogt x)). auto.
      + rewrite S. reflexivity.
    - (* OSlice *) unfold bind1. pose proof (sel_rel u res den i F) as S. destruct (sel res i) as [id|].
      + destruct S as (t & -> & L). destruct (inv_cache _ HI t id L) as (x & Hx & <-).
        destruct (unary_ok u id TSlice true x HI (fun _ => eq_refl) Hx) as (u' & j & E & G & _).
        unfold slice_of. rewrite E. exists (TSlice (ogt x)). auto.
      + rewrite S. reflexivity.
    - (* OArray *) unfold bind1. pose proof (sel_rel u res den i F) as S. destruct (sel res i) as [id|].
      + destruct S as (t & -> & L). destruct (inv_cache _ HI t id L) as (x & Hx & <-).
        destruct (unary_ok u id (TArray n) true x HI (fun _ => eq_refl) Hx) as (u' & j & E & G & _).
        unfold array_of. rewrite E. exists (TArray n (ogt x)). auto.
      + rewrite S. reflexivity.
    - (* OChan *) unfold bind1. pose proof (sel_rel u res den i F) as S. destruct (sel res i) as [id|].
      + destruct S as (t & -> & L). destruct (inv_cache _ HI t id L) as (x & Hx & <-).
        destruct (unary_ok u id (TChan d) false x HI (fun _ => eq_refl) Hx) as (u' & j & E & G & _).
        unfold chan_of. rewrite E. exists (TChan d (ogt x)). auto.
      + rewrite S. reflexivity.
    - (* OMap *) unfold bind1. pose proof (sel_rel u res den k F) as S. destruct (sel res k) as [ik|].
      + destruct S as (tk & -> & Lk). pose proof (sel_rel u res den e F) as S2. destruct (sel res e) as [ie|].
        * destruct S2 as (te & -> & Le).
          destruct (inv_cache _ HI tk ik Lk) as (xk & Hxk & <-). destruct (inv_cache _ HI te ie Le) as (xe & Hxe & <-).
          destruct (map_of_ok u ik ie xk xe HI Hxk Hxe) as (u' & j & E & G & _). rewrite E.
          exists (TMap (ogt xk) (ogt xe)). auto.
        * rewrite S2. reflexivity.
      + rewrite S. reflexivity.
    - (* OFunc *) pose proof (sel_all_rel u res den ins HI F) as S1. destruct (sel_all res ins) as [a|].
      + destruct S1 as (xi & -> & Gi). pose proof (sel_all_rel u res den outs HI F) as S2. destruct (sel_all res outs) as [b|].
        * destruct S2 as (xo & -> & Go). destruct (func_of_ok u a b va xi xo HI Gi Go) as (u' & j & E & G & _). rewrite E.
          exists (TFunc (map ogt xi) (map ogt xo) va). auto.
        * rewrite S2. reflexivity.
      + rewrite S1. reflexivity.
    - (* OStruct *) pose proof (sel_all_rel u res den (map snd fs) HI F) as S1. destruct (sel_all res (map snd fs)) as [a|] eqn:Esel.
      + destruct S1 as (xs & -> & Gx).
        pose proof (sel_all_length res (map snd fs) a Esel) as La. rewrite map_length in La.
        assert (E1 : map snd (combine (map fst fs) a) = a) by (apply map_snd_combine; rewrite map_length; auto).
        assert (E2 : map fst (combine (map fst fs) a) = map fst fs) by (apply map_fst_combine; rewrite map_length; auto).
        rewrite <- E1 in Gx.
        destruct (struct_of_ok u (combine (map fst fs) a) xs HI Gx) as (u' & j & E & G & _). rewrite E.
        rewrite E2 in G. exists (TStruct (combine (map fst fs) (map ogt xs))). auto.
      + rewrite S1. reflexivity.
    - (* OFrom *) destruct (clean r) eqn:E; [|reflexivity].
      pose proof (FR r u E HI) as G. destruct (from_reflect r u) as [u' id]. exists r. auto.
  Qed.

  Lemma run_ok : forall ops u res den, Inv u -> Forall2 (rel u) res den ->
    Inv (fst (run_from u res ops)) /\ Forall2 (rel (fst (run_from u res ops))) (snd (run_from u res ops)) (denote_from den ops).
  Proof.
    induction ops as [|o ops IH]; intros u res den HI F; simpl; auto.
    pose proof (step_ok u res den o HI F) as S. unfold step_post in S. destruct (step u res o) as [[u' id]|].
    - destruct S as (t & -> & (I & E & L)). apply IH; auto.
      apply Forall2_app; [apply rel_ext with u; auto|constructor; [exact L|constructor]].
    - rewrite S. apply IH; auto. apply Forall2_app; auto. constructor; simpl; auto.
  Qed.

  Lemma run_inv ops : Inv (fst (run ops)) /\ Forall2 (rel (fst (run ops))) (snd (run ops)) (denote ops).
  Proof. apply run_ok; [apply Inv_empty|constructor]. Qed.

  Lemma result_term ops i a : nth_error (snd (run ops)) i = Some (Some a) ->
    exists t x, nth_error (denote ops) i = Some (Some t) /\ lookup (cache (fst (run ops))) t = Some a /\
                get (fst (run ops)) a = Some x /\ ogt x = t /\ ort x = t /\ oopt x = ODefault.
  Proof.
    intros H. destruct (run_inv ops) as (HI & F). pose proof (Forall2_nth _ _ _ F i) as N. rewrite H in N.
    destruct N as ([t|] & Hd & R); simpl in R; [|contradiction].
    destruct (inv_cache _ HI t a R) as (x & Hx & Hg). destruct (inv_obj _ HI a x Hx) as (A & B & _).
    exists t, x. repeat split; auto. congruence.
  Qed.

  (* object identity = term identity, over every history *)
  Lemma canonical ops i j a b :
    nth_error (snd (run ops)) i = Some (Some a) -> nth_error (snd (run ops)) j = Some (Some b) ->
    (a = b <-> nth_error (denote ops) i = nth_error (denote ops) j).
  Proof.
    intros Ha Hb. destruct (result_term ops i a Ha) as (ta & xa & Da & La & Ga & Ta & _).
    destruct (result_term ops j b Hb) as (tb & xb & Db & Lb & Gb & Tb & _).
    rewrite Da, Db. split.
    - intros ->. rewrite Ga in Gb. inversion Gb; subst xb. congruence.
    - intros E. inversion E; subst tb. congruence.
  Qed.

  (* the reflect side of every result denotes the term the history specifies, as does the go/types side *)
  Lemma pairing ops i a : nth_error (snd (run ops)) i = Some (Some a) ->
    exists t x, nth_error (denote ops) i = Some (Some t) /\ get (fst (run ops)) a = Some x /\ ogt x = t /\ ort x = t.
  Proof.
    intros H. destruct (result_term ops i a H) as (t & x & D & _ & G & A & B & _). exists t, x. auto.
  Qed.

  (* an op is rejected exactly when the specification says it is ill-formed *)
  Lemma rejected ops i : nth_error (snd (run ops)) i = Some None <-> nth_error (denote ops) i = Some None.
  Proof.
    destruct (run_inv ops) as (_ & F). pose proof (Forall2_nth _ _ _ F i) as N. split; intros H.
    - rewrite H in N. destruct N as ([t|] & Hd & R); simpl in R; [contradiction|auto].
    - destruct (nth_error (snd (run ops)) i) as [[a|]|]; auto.
      + destruct N as (y & Hy & R). rewrite H in Hy. inversion Hy; subst y. simpl in R. contradiction.
      + rewrite H in N. discriminate.
  Qed.

  (* the Forward / OptRecursive / OptIncomplete machinery and the "mismatched reflect.Type" branch of maketype4
     (the only non-canonical path) are never entered *)
  Lemma no_forward ops id x : get (fst (run ops)) id = Some x -> is_fwd (ort x) = false /\ oopt x = ODefault.
  Proof.
    intros H. destruct (run_inv ops) as (HI & _). destruct (inv_obj _ HI id x H) as (A & B & C & _).
    rewrite A. split; auto. apply clean_not_fwd; auto.
  Qed.
End History.

(* ---------------------------------------------------------------- FromReflectType: the part proved *)
Transparent from_reflect.
Lemma from_reflect_leaf r u : (exists k, r = TBasic k) \/ (exists i, r = TNamed i) -> clean r = true -> Inv u ->
  good u (fst (from_reflect r u)) r (snd (from_reflect r u)).
Proof.
  intros [[k ->]|[i ->]] Hc HI; simpl.
  - destruct (maketype4_ok u (TBasic k) HI Hc) as (A & B & C & _). split; [|split]; auto.
  - destruct (maketype4_ok u (TNamed i) HI Hc) as (A & B & C & _). split; [|split]; auto.
Qed.

(* pointer/slice/array/chan/map over terms that satisfy the specification satisfy it *)
Lemma rcache_set_ok u r id : Inv u -> lookup (cache u) r = Some id -> Inv (rcache_set u r id) /\ ext u (rcache_set u r id).
Proof.
  intros HI L. split; [constructor|constructor]; unfold rcache_set, get in *; simpl.
  - apply (inv_obj _ HI).
  - apply (inv_cache _ HI).
  - intros k i H. rewrite lookup_cset in H. destruct (term_eqb r k) eqn:E.
    + apply term_eqb_eq in E; subst k. congruence.
    + apply (inv_rcache _ HI); auto.
  - auto.
  - auto.
Qed.

Lemma cached_ok u r build : Inv u ->
  (lookup (rcache u) r = None -> good u (fst (build tt)) r (snd (build tt))) ->
  good u (fst (cached u r build)) r (snd (cached u r build)).
Proof.
  intros HI Hb. unfold cached. destruct (lookup (rcache u) r) as [id|] eqn:E; simpl.
  - split; [|split]; auto using ext_refl. apply (inv_rcache _ HI); auto.
  - destruct (Hb eq_refl) as (I & X & L). destruct (rcache_set_ok _ r _ I L) as (I2 & X2).
    split; [|split]; auto. eapply ext_trans; eauto.
Qed.

Lemma good_get u u' g id : good u u' g id -> exists x, get u' id = Some x /\ ogt x = g /\ ort x = g /\ oopt x = ODefault.
Proof.
  intros (I & _ & L). destruct (inv_cache _ I g id L) as (x & Hx & Hg). destruct (inv_obj _ I id x Hx) as (A & B & _).
  exists x. repeat split; auto. congruence.
Qed.

Lemma gt_of_get u i x : get u i = Some x -> gt_of u i = ogt x.
Proof. unfold gt_of. intros ->. reflexivity. Qed.
Lemma rt_of_get u i x : get u i = Some x -> rt_of u i = ort x.
Proof. unfold rt_of. intros ->. reflexivity. Qed.
Lemma approx_of_get u i x : get u i = Some x -> oopt x = ODefault -> approx_of u i = (u, ort x).
Proof. unfold approx_of, approx. intros -> ->. reflexivity. Qed.
Lemma opt_of_get u i x : get u i = Some x -> opt_of u i = oopt x.
Proof. unfold opt_of. intros ->. reflexivity. Qed.

Definition FRat (r : term) : Prop := forall u, clean r = true -> Inv u -> good u (fst (from_reflect r u)) r (snd (from_reflect r u)).

Lemma FR_ptr e : FRat e -> FRat (TPtr e).
Proof.
  intros IH u Hc HI. simpl in Hc. change (from_reflect (TPtr e) u) with
    (cached u (TPtr e) (fun _ => let '(u1, i) := from_reflect e u in maketype4 u1 (TPtr (gt_of u1 i)) (TPtr e) (opt_of u1 i))).
  apply cached_ok; auto. intros _. pose proof (IH u Hc HI) as G. destruct (from_reflect e u) as [u1 i]. simpl in G.
  destruct (good_get _ _ _ _ G) as (x & Hx & A & B & C). destruct G as (I1 & X1 & L1).
  rewrite (gt_of_get _ _ _ Hx), (opt_of_get _ _ _ Hx), A, C.
  destruct (maketype4_ok u1 (TPtr e) I1 Hc) as (I2 & X2 & L2 & _). split; [|split]; auto. eapply ext_trans; eauto.
Qed.

Lemma FR_slice e : FRat e -> FRat (TSlice e).
Proof.
  intros IH u Hc HI. simpl in Hc. change (from_reflect (TSlice e) u) with
    (cached u (TSlice e) (fun _ => let '(u1, i) := from_reflect e u in let '(u2, re) := approx_of u1 i in
                                     maketype4 u2 (TSlice (gt_of u2 i)) (TSlice re) (opt_of u2 i))).
  apply cached_ok; auto. intros _. pose proof (IH u Hc HI) as G. destruct (from_reflect e u) as [u1 i]. simpl in G.
  destruct (good_get _ _ _ _ G) as (x & Hx & A & B & C). destruct G as (I1 & X1 & L1).
  rewrite (approx_of_get _ _ _ Hx C), (gt_of_get _ _ _ Hx), (opt_of_get _ _ _ Hx), A, B, C.
  destruct (maketype4_ok u1 (TSlice e) I1 Hc) as (I2 & X2 & L2 & _). split; [|split]; auto. eapply ext_trans; eauto.
Qed.

Lemma FR_array n e : FRat e -> FRat (TArray n e).
Proof.
  intros IH u Hc HI. simpl in Hc. change (from_reflect (TArray n e) u) with
    (cached u (TArray n e) (fun _ => let '(u1, i) := from_reflect e u in
                                       maketype4 u1 (TArray n (gt_of u1 i)) (TArray n (rt_of u1 i)) (opt_of u1 i))).
  apply cached_ok; auto. intros _. pose proof (IH u Hc HI) as G. destruct (from_reflect e u) as [u1 i]. simpl in G.
  destruct (good_get _ _ _ _ G) as (x & Hx & A & B & C). destruct G as (I1 & X1 & L1).
  rewrite (gt_of_get _ _ _ Hx), (rt_of_get _ _ _ Hx), (opt_of_get _ _ _ Hx), A, B, C.
  destruct (maketype4_ok u1 (TArray n e) I1 Hc) as (I2 & X2 & L2 & _). split; [|split]; auto. eapply ext_trans; eauto.
Qed.

Lemma FR_chan d e : FRat e -> FRat (TChan d e).
Proof.
  intros IH u Hc HI. simpl in Hc. change (from_reflect (TChan d e) u) with
    (cached u (TChan d e) (fun _ => let '(u1, i) := from_reflect e u in
                                      maketype4 u1 (TChan d (gt_of u1 i)) (TChan d (rt_of u1 i)) (opt_of u1 i))).
  apply cached_ok; auto. intros _. pose proof (IH u Hc HI) as G. destruct (from_reflect e u) as [u1 i]. simpl in G.
  destruct (good_get _ _ _ _ G) as (x & Hx & A & B & C). destruct G as (I1 & X1 & L1).
  rewrite (gt_of_get _ _ _ Hx), (rt_of_get _ _ _ Hx), (opt_of_get _ _ _ Hx), A, B, C.
  destruct (maketype4_ok u1 (TChan d e) I1 Hc) as (I2 & X2 & L2 & _). split; [|split]; auto. eapply ext_trans; eauto.
Qed.

Lemma FR_map k e : FRat k -> FRat e -> FRat (TMap k e).
Proof.
  intros IHk IHe u Hc HI. simpl in Hc. apply andb_true_iff in Hc. destruct Hc as [Hk He].
  change (from_reflect (TMap k e) u) with
    (cached u (TMap k e) (fun _ =>
      let '(u1, ik) := from_reflect k u in
      let '(u2, ie) := from_reflect e u1 in
      let '(u3, rk) := approx_of u2 ik in
      let '(u4, re) := approx_of u3 ie in
      maketype4 u4 (TMap (gt_of u4 ik) (gt_of u4 ie)) (TMap rk re) (N.lor (opt_of u4 ik) (opt_of u4 ie)))).
  apply cached_ok; auto. intros _. pose proof (IHk u Hk HI) as G. destruct (from_reflect k u) as [u1 ik]. simpl in G.
  destruct G as (I1 & X1 & L1). pose proof (IHe u1 He I1) as G2. destruct (from_reflect e u1) as [u2 ie]. simpl in G2.
  destruct (good_get _ _ _ _ G2) as (xe & Hxe & Ae & Be & Ce). destruct G2 as (I2 & X2 & L2).
  pose proof (ext_cache _ _ X2 _ _ L1) as L1'. destruct (inv_cache _ I2 k ik L1') as (xk & Hxk & Ak).
  destruct (inv_obj _ I2 ik xk Hxk) as (Bk & Ck & _).
  rewrite (approx_of_get _ _ _ Hxk Ck), (approx_of_get _ _ _ Hxe Ce), (gt_of_get _ _ _ Hxk), (gt_of_get _ _ _ Hxe),
          (opt_of_get _ _ _ Hxk), (opt_of_get _ _ _ Hxe), Bk, Ak, Ae, Be, Ck, Ce. simpl.
  assert (Hc : clean (TMap k e) = true) by (simpl; rewrite Hk, He; reflexivity).
  destruct (maketype4_ok u2 (TMap k e) I2 Hc) as (I3 & X3 & L3 & _). split; [|split]; auto.
  eapply ext_trans; [exact X1|]. eapply ext_trans; eauto.
Qed.

(* terms without func/struct components: FromReflectType meets its specification (the func/struct cases, whose
   components are lists, are proved in Proof2.v: FR_func, FR_struct, from_reflect_spec : FRspec) *)
Fixpoint simple (t : term) : bool :=
  match t with
  | TBasic _ | TNamed _ => true
  | TPtr e | TSlice e | TArray _ e | TChan _ e => simple e
  | TMap k e => simple k && simple e
  | TFunc _ _ _ | TStruct _ => false
  end.

Lemma from_reflect_simple : forall r, simple r = true -> FRat r.
Proof.
  induction r using term_ind'; intros Hs; simpl in Hs; try discriminate.
  - intros u Hc HI. apply from_reflect_leaf; eauto.
  - intros u Hc HI. apply from_reflect_leaf; eauto.
  - apply FR_ptr; auto.
  - apply FR_slice; auto.
  - apply FR_array; auto.
  - apply FR_chan; auto.
  - apply andb_true_iff in Hs. destruct Hs. apply FR_map; auto.
Qed.

(* C29 — property theorems only *)
From Coq Require Import List NArith ZArith Bool.
From Verif Require Import C29.Model.
Import ListNotations.

Example C29_ex_ptr_twice : observe [OBase 2; OPtr 0; OPtr 0; OFrom (TPtr (TBasic 2))] = [(0%Z, true); (1%Z, true); (1%Z, true); (1%Z, true)].
Proof. vm_compute. reflexivity. Qed.

(* C29 — property theorems only: each closed by [exact lemma], followed by Print Assumptions. *)
From Coq Require Import List NArith ZArith Bool.
From Verif Require Import C29.Model C29.Proof C29.Proof2.
Import ListNotations.

(* typeutil.Identical on the modelled term language is decidable structural identity *)
Theorem C29_term_identity : forall a b, term_eqb a b = true <-> a = b.
Proof. exact term_eqb_eq. Qed.
Print Assumptions C29_term_identity.

(* maketype4 on a consistent (go/types term, reflect term) pair keeps the universe invariant, returns THE cache entry
   of the term and forgets nothing *)
Theorem C29_maketype4_canonical : forall u g, Inv u -> clean g = true ->
  let r := maketype4 u g g ODefault in
  Inv (fst r) /\ ext u (fst r) /\ lookup (cache (fst r)) g = Some (snd r) /\ rcache (fst r) = rcache u.
Proof. exact maketype4_ok. Qed.
Print Assumptions C29_maketype4_canonical.

(* FromReflectType meets its specification on every term without func/struct components, for every universe
   satisfying the invariant (ReflectTypes cache hit or miss) *)
Theorem C29_from_reflect_simple : forall r, simple r = true ->
  forall u, clean r = true -> Inv u -> good u (fst (from_reflect r u)) r (snd (from_reflect r u)).
Proof. exact from_reflect_simple. Qed.
Print Assumptions C29_from_reflect_simple.

(* FromReflectType meets its specification on EVERY clean term (func and struct included: fromReflectFunc /
   fromReflectStruct fold FromReflectType over the parameter/result/field lists), for every universe satisfying the
   invariant: the invariant is kept, the universe is only extended, the result is THE cache entry of the term *)
Theorem C29_from_reflect_spec : FRspec.
Proof. exact from_reflect_spec. Qed.
Print Assumptions C29_from_reflect_spec.

(* ---- histories (no premise: FRspec is the closed theorem above) ---- *)

(* C29_canonical: for ALL construction histories (constructors, FromReflectType, in any order, with any repetitions)
   two results are the same object exactly when the histories' terms are identical *)
Theorem C29_canonical : forall ops i j a b,
  nth_error (snd (run ops)) i = Some (Some a) -> nth_error (snd (run ops)) j = Some (Some b) ->
  (a = b <-> nth_error (denote ops) i = nth_error (denote ops) j).
Proof. exact canonical_closed. Qed.
Print Assumptions C29_canonical.

(* C29_pairing_invariant: the go/types side and the reflect side of every result denote the term the history
   specifies (induction over construction histories) *)
Theorem C29_pairing_invariant : forall ops i a,
  nth_error (snd (run ops)) i = Some (Some a) ->
  exists t x, nth_error (denote ops) i = Some (Some t) /\ get (fst (run ops)) a = Some x /\ ogt x = t /\ ort x = t.
Proof. exact pairing_closed. Qed.
Print Assumptions C29_pairing_invariant.

(* the universe invariant holds after every history, and every result is the cache entry of the term it denotes *)
Theorem C29_invariant : forall ops,
  Inv (fst (run ops)) /\ Forall2 (rel (fst (run ops))) (snd (run ops)) (denote ops).
Proof. exact run_inv_closed. Qed.
Print Assumptions C29_invariant.

(* an operation is rejected exactly when the specification says it is ill-formed *)
Theorem C29_rejected : forall ops i,
  nth_error (snd (run ops)) i = Some None <-> nth_error (denote ops) i = Some None.
Proof. exact rejected_closed. Qed.
Print Assumptions C29_rejected.

(* without NamedOf/SetUnderlying no object is ever Forward, recursive or incomplete: the only non-canonical path of
   maketype4 (mismatched reflect.Type: a second object for the same term) is unreachable *)
Theorem C29_no_forward : forall ops id x,
  get (fst (run ops)) id = Some x -> is_fwd (ort x) = false /\ oopt x = ODefault.
Proof. exact no_forward_closed. Qed.
Print Assumptions C29_no_forward.

(* ---- SUPERSEDED by the un-premised theorems above (kept: other files may refer to them).  They carry [FRspec] =
   "FromReflectType meets its specification on every term" as an explicit premise; that premise is now the closed
   theorem C29_from_reflect_spec, so nothing is missing any more. ---- *)

(* C29_canonical: for ALL construction histories (constructors, FromReflectType, in any order, with any repetitions)
   two results are the same object exactly when the histories' terms are identical *)
Theorem C29_canonical_partial : FRspec -> forall ops i j a b,
  nth_error (snd (run ops)) i = Some (Some a) -> nth_error (snd (run ops)) j = Some (Some b) ->
  (a = b <-> nth_error (denote ops) i = nth_error (denote ops) j).
Proof. exact canonical. Qed.
Print Assumptions C29_canonical_partial.

(* C29_pairing_invariant: the go/types side and the reflect side of every result denote the term the history
   specifies (induction over construction histories) *)
Theorem C29_pairing_invariant_partial : FRspec -> forall ops i a,
  nth_error (snd (run ops)) i = Some (Some a) ->
  exists t x, nth_error (denote ops) i = Some (Some t) /\ get (fst (run ops)) a = Some x /\ ogt x = t /\ ort x = t.
Proof. exact pairing. Qed.
Print Assumptions C29_pairing_invariant_partial.

(* the universe invariant holds after every history *)
Theorem C29_invariant_partial : FRspec -> forall ops,
  Inv (fst (run ops)) /\ Forall2 (rel (fst (run ops))) (snd (run ops)) (denote ops).
Proof. exact run_inv. Qed.
Print Assumptions C29_invariant_partial.

(* an operation is rejected exactly when the specification says it is ill-formed *)
Theorem C29_rejected_partial : FRspec -> forall ops i,
  nth_error (snd (run ops)) i = Some None <-> nth_error (denote ops) i = Some None.
Proof. exact rejected. Qed.
Print Assumptions C29_rejected_partial.

(* without NamedOf/SetUnderlying no object is ever Forward, recursive or incomplete: the only non-canonical path of
   maketype4 (mismatched reflect.Type: a second object for the same term) is unreachable *)
Theorem C29_no_forward_partial : FRspec -> forall ops id x,
  get (fst (run ops)) id = Some x -> is_fwd (ort x) = false /\ oopt x = ODefault.
Proof. exact no_forward. Qed.
Print Assumptions C29_no_forward_partial.

(* ---------------- field / method lookup (xreflect/lookup.go FieldByName, MethodByName, caches) ----------------
   The executable model and the proofs are those of property C09 (coq/C09: breadth-first searches with the visited-depth
   map over embedding graphs, pointer cycles and diamonds included); they are restated here because lookup.go is part of
   the code C29 answers for.  The correspondence run of C29 evaluates C09.Model on the lookups observed on the declared
   type families of harness/cmd/c29 part E (cases_lookup_*.v). *)
From Verif Require C09.Model C09.Proof C09.ProofM C09.Proof2.

(* FieldByName returns nothing iff the name is a field at no depth of the unfolded embedding tree; otherwise the number
   of fields at the SHALLOWEST depth where it occurs (duplicates through diamonds counted) and the index path of the first *)
Theorem C29_field_lookup_shallowest : forall e q root fuel r,
  C09.Model.FieldByName_uncached fuel e root q = Some r ->
  (C09.Model.fr_count r = 0%Z /\ C09.Model.fr_index r = [] /\ forall n, C09.Proof.occ_f e q n root = []) \/
  (exists d, (forall d', (d' < d)%nat -> C09.Proof.occ_f e q d' root = []) /\ C09.Proof.occ_f e q d root <> [] /\
             C09.Model.fr_count r = Z.of_nat (length (C09.Proof.occ_f e q d root)) /\
             hd_error (C09.Proof.occ_f e q d root) = Some (C09.Model.fr_index r)).
Proof. exact C09.Proof.field_bfs_shallowest. Qed.
Print Assumptions C29_field_lookup_shallowest.

Theorem C29_method_lookup_shallowest : forall e q root fuel r,
  C09.Model.MethodByName_uncached fuel e root q = Some r ->
  (C09.Model.mr_count r = 0%Z /\ C09.Model.mr_findex r = [] /\ forall n, C09.Proof.occ_m e q n root = []) \/
  (exists d, (forall d', (d' < d)%nat -> C09.Proof.occ_m e q d' root = []) /\ C09.Proof.occ_m e q d root <> [] /\
             C09.ProofM.mres_matches r (C09.Proof.occ_m e q d root)).
Proof. exact C09.ProofM.method_bfs_shallowest. Qed.
Print Assumptions C29_method_lookup_shallowest.

(* the per-type caches are transparent over every history of lookups and method declarations *)
Theorem C29_lookup_cache_transparent : forall e ops,
  snd (C09.Model.run (C09.Model.init e) ops) = C09.Proof2.urun e ops.
Proof. exact C09.Proof2.cache_transparent. Qed.
Print Assumptions C29_lookup_cache_transparent.

(* ---------------- non-vacuity ---------------- *)
(* *int three ways, []*int twice, a func and a struct built from them and again from reflect *)
Definition ex_ops : list op :=
  [OBase 2; OPtr 0; OPtr 0; OFrom (TPtr (TBasic 2)); OSlice 1; OFrom (TSlice (TPtr (TBasic 2)));
   OFunc [1; 4] [0] false; OFrom (TFunc [TPtr (TBasic 2); TSlice (TPtr (TBasic 2))] [TBasic 2] false);
   OStruct [(0%N, 1); (3%N, 6)]; ONamed 7; OMap 9 8; OBase 255; OPtr 11; OPtr 99].
Example C29_ex_observe : observe ex_ops =
  [(0, true); (1, true); (1, true); (1, true); (4, true); (4, true); (6, true); (6, true); (8, true); (9, true); (10, true);
   (-1, false); (-1, false); (-1, false)]%Z.
Proof. vm_compute. reflexivity. Qed.
Example C29_ex_denote : nth_error (denote ex_ops) 10 =
  Some (Some (TMap (TNamed 7) (TStruct [(0%N, TPtr (TBasic 2)); (3%N, TFunc [TPtr (TBasic 2); TSlice (TPtr (TBasic 2))] [TBasic 2] false)]))).
Proof. vm_compute. reflexivity. Qed.
Example C29_ex_heap_size : length (heap (fst (run ex_ops))) = 7%nat.   (* 14 operations, 7 objects *)
Proof. vm_compute. reflexivity. Qed.

(* C19 — lemmas about the stock debugger layer (fast/debug/api.go: statements without source position are skipped
   with the depth in force, no prompt, no command consumed) *)
From Coq Require Import List ZArith Bool Arith Lia.
From Verif Require Import C19.Model C19.Proof.
Import ListNotations.
Open Scope Z_scope.

Lemma apply_op_id D : 0 <= D -> apply_op D = D.
Proof. intros H. unfold apply_op. destruct (0 <? D) eqn:E; [reflexivity|]. apply Z.ltb_ge in E. lia. Qed.

Lemma krun_cons st i s tr cmds :
  krun st i (s :: tr) cmds = let '(st', sts, cmds') := kdstep st i s cmds in sts ++ krun st' (i + 1) tr cmds'.
Proof. reflexivity. Qed.

(* ---------- a statement WITH position: the stock layer is the raw layer ---------- *)
Lemma kcallback_vis D s cmds : synthetic s = false ->
  kcallback D s cmds = (fst (callback s cmds), snd (callback s cmds), true).
Proof. intros H. unfold kcallback. rewrite H. destruct (callback s cmds). reflexivity. Qed.

Lemma kss_callbacks_vis D i s cmds : synthetic s = false -> kss_callbacks D i s cmds = ss_callbacks D i s cmds.
Proof.
  intros H. unfold kss_callbacks, ss_callbacks.
  destruct (sdepth s <? D).
  - rewrite (kcallback_vis D s cmds H). destruct (callback s cmds) as [d r]. simpl.
    destruct (sbp s); [|reflexivity].
    rewrite (kcallback_vis d s r H). destruct (callback s r) as [d' r']. reflexivity.
  - destruct (sbp s); [|reflexivity].
    rewrite (kcallback_vis D s cmds H). destruct (callback s cmds) as [d' r']. reflexivity.
Qed.

Lemma kdstep_vis st i s cmds : synthetic s = false -> kdstep st i s cmds = dstep st i s cmds.
Proof.
  intros H. unfold kdstep, dstep. destruct (enter st s) as [outer cur0].
  destruct (refresh (dd st) cur0).
  - rewrite (kss_callbacks_vis _ _ _ _ H). reflexivity.
  - destruct (sbp s); [|reflexivity].
    rewrite (kcallback_vis (dd st) s cmds H). destruct (callback s cmds) as [d r]. reflexivity.
Qed.

(* ---------- a statement WITHOUT position: no stop, no command consumed, the requested depth is kept ---------- *)
Lemma kss_callbacks_synth D i s cmds : synthetic s = true -> 0 <= D -> kss_callbacks D i s cmds = (D, [], cmds).
Proof.
  intros H HD. unfold kss_callbacks, kcallback. rewrite H, (apply_op_id D HD).
  destruct (sdepth s <? D); destruct (sbp s); rewrite ?(apply_op_id D HD); reflexivity.
Qed.

Lemma kdstep_synth st i s cmds : synthetic s = true -> 0 <= dd st ->
  exists fr, kdstep st i s cmds = (mkD (dd st) fr, [], cmds).
Proof.
  intros H HD. unfold kdstep. destruct (enter st s) as [outer cur0].
  destruct (refresh (dd st) cur0).
  - rewrite (kss_callbacks_synth _ _ _ _ H HD). eexists. reflexivity.
  - destruct (sbp s).
    + unfold kcallback. rewrite H, (apply_op_id _ HD). eexists. reflexivity.
    + eexists. reflexivity.
Qed.

Lemma kdstep_synth_ss st i s cmds : synthetic s = true -> all_ss st -> 0 < dd st ->
  kdstep st i s cmds = (mkD (dd st) (pad (Z.to_nat (sdepth s)) (frames st) SS ++ [SS]), [], cmds).
Proof.
  intros H Hss Hd. unfold kdstep. rewrite (enter_ss st s Hss Hd). simpl.
  assert (E : (0 <? dd st) = true) by (apply Z.ltb_lt; assumption). rewrite E.
  rewrite (kss_callbacks_synth _ _ _ _ H); [reflexivity|lia].
Qed.

(* every At stop (prompt) is justified by the depth in force, and is never at a statement without position *)
Lemma kdstep_at_justified st i s cmds st' sts cmds' :
  kdstep st i s cmds = (st', sts, cmds') -> In (i, false) sts -> sdepth s < dd st /\ synthetic s = false.
Proof.
  unfold kdstep. destruct (enter st s) as [outer cur0].
  destruct (refresh (dd st) cur0).
  - unfold kss_callbacks, kcallback. destruct (synthetic s) eqn:Hs.
    + destruct (sdepth s <? dd st); destruct (sbp s); intros E; inversion E; subst; simpl; intros [].
    + destruct (sdepth s <? dd st) eqn:Hlt.
      * intros _ _. split; [apply Z.ltb_lt; assumption|reflexivity].
      * destruct (callback s cmds) as [d r]. destruct (sbp s); intros E; inversion E; subst; simpl.
        -- intros [F|[]]. inversion F.
        -- intros [].
  - destruct (sbp s).
    + destruct (kcallback (dd st) s cmds) as [[d r] p]. destruct p; intros E; inversion E; subst; simpl.
      * intros [F|[]]. inversion F.
      * intros [].
    + intros E; inversion E; subst. intros [].
Qed.

(* ---------- debugging switched off ---------- *)
Lemma krun_off : forall tr st i cmds, dd st = 0 -> Forall (fun c => c = Continue) cmds ->
  Forall (fun s => 0 <= sdepth s) tr -> krun st i tr cmds = kdoc_run 0 i tr cmds.
Proof.
  induction tr as [|s tr IH]; intros st i cmds Hd Hc Hw; [reflexivity|].
  inversion Hw as [|? ? Hs Hw']; subst. cbn [krun kdoc_run].
  destruct (synthetic s) eqn:Hsy.
  - destruct (kdstep_synth st i s cmds Hsy) as [fr E]; [lia|]. rewrite E, Hd. cbn [app].
    apply IH; [reflexivity|assumption|assumption].
  - rewrite (kdstep_vis st i s cmds Hsy).
    rewrite (ss_callbacks_off i s cmds Hs).
    unfold dstep. destruct (enter st s) as [outer cur0]. rewrite Hd.
    destruct (refresh_off cur0) as [n En]. rewrite En.
    destruct (sbp s).
    + destruct (callback_continue s cmds Hc) as (r & Ec & Hr). rewrite Ec. simpl.
      f_equal. apply IH; [reflexivity|assumption|assumption].
    + simpl. apply IH; [reflexivity|assumption|assumption].
Qed.

(* ---------- the documented rule, statements without position being invisible ---------- *)
Lemma krun_doc : forall tr st i cmds, all_ss st -> good (dd st) cmds -> wf_trace tr ->
  krun st i tr cmds = kdoc_run (dd st) i tr cmds.
Proof.
  induction tr as [|s tr IH]; intros st i cmds Hss G Hw; [reflexivity|].
  inversion Hw as [|? ? Hs Hw']; subst.
  destruct G as [[Hd Hn]|[Hd Hc]].
  - cbn [krun kdoc_run]. destruct (synthetic s) eqn:Hsy.
    + rewrite (kdstep_synth_ss st i s cmds Hsy Hss Hd). cbn [app].
      rewrite (IH (mkD (dd st) (pad (Z.to_nat (sdepth s)) (frames st) SS ++ [SS])) (i + 1) cmds); simpl.
      * reflexivity.
      * apply all_ss_after. assumption.
      * left. split; assumption.
      * exact Hw'.
    + rewrite (kdstep_vis st i s cmds Hsy), (dstep_ss st i s cmds Hss Hd).
      destruct (ss_callbacks_good (dd st) i s cmds Hs (or_introl (conj Hd Hn))) as (d2 & sts & cmds2 & E & G2).
      rewrite E. f_equal.
      rewrite (IH (mkD d2 (pad (Z.to_nat (sdepth s)) (frames st) SS ++ [SS])) (i + 1) cmds2); simpl.
      * reflexivity.
      * apply all_ss_after. assumption.
      * exact G2.
      * exact Hw'.
  - rewrite Hd. apply krun_off; [assumption|assumption|].
    eapply Forall_impl; [|exact Hw]. simpl. intros; lia.
Qed.

Lemma kstops_doc tr cmds : wf_trace tr -> noresume cmds -> kstops tr cmds = kdoc_run MaxInt 0 tr cmds.
Proof.
  intros Hw Hn. unfold kstops. apply (krun_doc tr init_debug 0 cmds).
  - constructor.
  - left. split; [reflexivity|assumption].
  - assumption.
Qed.

(* ---------- first prompt after a command, all loops single-stepping ---------- *)
(* the statement does not prompt when the requested depth is D: it has no position, or it does not qualify *)
Definition kquiet (D : Z) (s : stmt) : Prop := synthetic s = true \/ hit D s = false.

Lemma krun_quiet : forall pre st i tr cmds, all_ss st -> 0 < dd st ->
  Forall (kquiet (dd st)) pre ->
  exists st', all_ss st' /\ dd st' = dd st /\
    krun st i (pre ++ tr) cmds = krun st' (i + Z.of_nat (length pre)) tr cmds.
Proof.
  induction pre as [|s pre IH]; intros st i tr cmds Hss Hd Hq.
  - exists st. split; [assumption|]. split; [reflexivity|]. simpl. rewrite Z.add_0_r. reflexivity.
  - inversion Hq as [|? ? Hs Hq']; subst.
    simpl app. cbn [krun].
    assert (E : kdstep st i s cmds = (mkD (dd st) (pad (Z.to_nat (sdepth s)) (frames st) SS ++ [SS]), [], cmds)).
    { destruct (synthetic s) eqn:Hsy.
      - apply kdstep_synth_ss; assumption.
      - destruct Hs as [Hs|Hs]; [congruence|].
        rewrite (kdstep_vis st i s cmds Hsy), (dstep_ss st i s cmds Hss Hd), (ss_callbacks_quiet _ _ _ _ Hs). reflexivity. }
    rewrite E. cbn [app].
    set (st1 := mkD (dd st) (pad (Z.to_nat (sdepth s)) (frames st) SS ++ [SS])).
    destruct (IH st1 (i + 1) tr cmds) as (st' & H1 & H2 & H3).
    + apply all_ss_after. assumption.
    + exact Hd.
    + exact Hq'.
    + exists st'. split; [assumption|]. split; [exact H2|]. rewrite H3. f_equal.
      simpl length. lia.
Qed.

Lemma krun_hit st i s tr cmds : all_ss st -> 0 < dd st -> synthetic s = false -> hit (dd st) s = true ->
  exists rest, krun st i (s :: tr) cmds = (i, negb (sdepth s <? dd st)) :: rest.
Proof.
  intros Hss Hd Hsy Hh. destruct (run_hit st i s [] cmds Hss Hd Hh) as [rest0 E0].
  cbn [krun]. rewrite (kdstep_vis st i s cmds Hsy).
  cbn [run] in E0. destruct (dstep st i s cmds) as [[st' sts] cmds'].
  rewrite app_nil_r in E0. rewrite E0. eexists. reflexivity.
Qed.

Lemma kfirst_stop st i pre s tr cmds : all_ss st -> 0 < dd st ->
  Forall (kquiet (dd st)) pre -> synthetic s = false -> hit (dd st) s = true ->
  exists rest, krun st i (pre ++ s :: tr) cmds = (i + Z.of_nat (length pre), negb (sdepth s <? dd st)) :: rest.
Proof.
  intros Hss Hd Hq Hsy Hh.
  destruct (krun_quiet pre st i (s :: tr) cmds Hss Hd Hq) as (st' & H1 & H2 & H3).
  rewrite H3. rewrite <- H2 in *. apply krun_hit; [assumption|lia|assumption|assumption].
Qed.

Lemma kno_stop st i pre cmds : all_ss st -> 0 < dd st ->
  Forall (kquiet (dd st)) pre -> krun st i pre cmds = [].
Proof.
  intros Hss Hd Hq.
  destruct (krun_quiet pre st i [] cmds Hss Hd Hq) as (st' & H1 & H2 & H3).
  rewrite app_nil_r in H3. rewrite H3. reflexivity.
Qed.

Section KAfterStop.
  Variables (st : dstate) (i : Z) (s1 : stmt) (cmds : list cmd).
  Hypothesis Hss : all_ss st.
  Hypothesis Hd : 0 < dd st.
  Hypothesis Hlt : sdepth s1 < dd st.
  Hypothesis Hb : sbp s1 = false.
  Hypothesis Hv : synthetic s1 = false.
  Hypothesis Hs1 : 1 <= sdepth s1.

  Lemma kdstep_stop c :
    kdstep st i s1 (c :: cmds) =
      (mkD (apply_op (op_depth c (sdepth s1))) (pad (Z.to_nat (sdepth s1)) (frames st) SS ++ [SS]), [(i, false)], cmds).
  Proof. rewrite (kdstep_vis _ _ _ _ Hv). apply dstep_stop; assumption. Qed.

  (* next typed at s1 (e.g. a return statement): statements without position (its epilogue) and deeper statements
     (callees, the deferred calls that run after the epilogue) do not prompt; the first statement WITH position at the same
     or a shallower depth, or the first breakpoint with position, is the next prompt *)
  Lemma knext_same_or_shallower pre s2 tr :
    Forall (fun x => synthetic x = true \/ (sdepth s1 < sdepth x /\ sbp x = false)) pre ->
    synthetic s2 = false -> (sdepth s2 <= sdepth s1 \/ sbp s2 = true) ->
    exists rest, krun st i (s1 :: pre ++ s2 :: tr) (Next :: cmds) =
      (i, false) :: (i + 1 + Z.of_nat (length pre), negb (sdepth s2 <=? sdepth s1)) :: rest.
  Proof.
    intros Hpre Hv2 H2. cbn [krun]. rewrite (kdstep_stop Next), (apply_next s1 Hs1). cbn [app].
    set (st1 := mkD _ _).
    destruct (kfirst_stop st1 (i + 1) pre s2 tr cmds) as [rest E].
    - apply all_ss_after. assumption.
    - simpl. lia.
    - eapply Forall_impl; [|exact Hpre]. simpl. intros x [Hx|[Hx1 Hx2]]; [left; assumption|right].
      unfold hit. rewrite Hx2, orb_false_r. apply Z.ltb_ge. lia.
    - assumption.
    - simpl. unfold hit. destruct H2 as [H2|H2]; [|rewrite H2; apply orb_true_r].
      replace (sdepth s2 <? sdepth s1 + 1) with true; [reflexivity|]. symmetry. apply Z.ltb_lt. lia.
    - exists rest. f_equal. rewrite E. simpl. f_equal. f_equal.
      destruct (sdepth s2 <=? sdepth s1) eqn:E1; destruct (sdepth s2 <? sdepth s1 + 1) eqn:E2; try reflexivity.
      + apply Z.leb_le in E1. apply Z.ltb_ge in E2. lia.
      + apply Z.leb_gt in E1. apply Z.ltb_lt in E2. lia.
  Qed.

  Lemma kfinish_shallower pre s2 tr :
    Forall (fun x => synthetic x = true \/ (sdepth s1 <= sdepth x /\ sbp x = false)) pre ->
    synthetic s2 = false -> (sdepth s2 < sdepth s1 \/ sbp s2 = true) ->
    exists rest, krun st i (s1 :: pre ++ s2 :: tr) (Finish :: cmds) =
      (i, false) :: (i + 1 + Z.of_nat (length pre), negb (sdepth s2 <? sdepth s1)) :: rest.
  Proof.
    intros Hpre Hv2 H2. cbn [krun]. rewrite (kdstep_stop Finish), (apply_finish s1 Hs1). cbn [app].
    set (st1 := mkD _ _).
    destruct (kfirst_stop st1 (i + 1) pre s2 tr cmds) as [rest E].
    - apply all_ss_after. assumption.
    - simpl. lia.
    - eapply Forall_impl; [|exact Hpre]. simpl. intros x [Hx|[Hx1 Hx2]]; [left; assumption|right].
      unfold hit. rewrite Hx2, orb_false_r. apply Z.ltb_ge. lia.
    - assumption.
    - simpl. unfold hit. destruct H2 as [H2|H2]; [|rewrite H2; apply orb_true_r].
      replace (sdepth s2 <? sdepth s1) with true; [reflexivity|]. symmetry. apply Z.ltb_lt. lia.
    - exists rest. f_equal. rewrite E. reflexivity.
  Qed.

  Lemma knext_no_stop pre :
    Forall (fun x => synthetic x = true \/ (sdepth s1 < sdepth x /\ sbp x = false)) pre ->
    krun st i (s1 :: pre) (Next :: cmds) = [(i, false)].
  Proof.
    intros Hpre. cbn [krun]. rewrite (kdstep_stop Next), (apply_next s1 Hs1). cbn [app].
    f_equal. apply kno_stop.
    - apply all_ss_after. assumption.
    - simpl. lia.
    - eapply Forall_impl; [|exact Hpre]. simpl. intros x [Hx|[Hx1 Hx2]]; [left; assumption|right].
      unfold hit. rewrite Hx2, orb_false_r. apply Z.ltb_ge. lia.
  Qed.
End KAfterStop.

(* non-vacuity witness: f (depth 1) with a deferred call: return statement (index 3), its epilogue without position
   (index 4), the deferred function one level deeper (5, 6) *)
Definition kwit_trace : list stmt :=
  [mkStmt 1 35 false true false; mkStmt 1 56 false false false; mkStmt 1 65 false false false; mkStmt 1 77 false false false;
   mkStmt 1 0 false false false; mkStmt 2 1 false true false; mkStmt 2 13 false false false].

Lemma kwit_next : kstops kwit_trace [Step; Step; Step; Next] = [(0, false); (1, false); (2, false); (3, false)].
Proof. vm_compute. reflexivity. Qed.
Lemma kwit_step : kstops kwit_trace (repeat Step 7) = [(0, false); (1, false); (2, false); (3, false); (5, false); (6, false)].
Proof. vm_compute. reflexivity. Qed.

(* C19 — property theorems only: each closed by [exact lemma], followed by Print Assumptions.
   Model = fast/debug.go + fast/code.go with fix C19-1 (see Model.v).  `run st i tr cmds` = the debugger callbacks
   (statement index, At/Breakpoint) that the trace tr causes from debugger state st when the debugger answers with cmds.
   all_ss st = every active exec loop is single-stepping: true for Interp.Debug and preserved until a `continue`
   (C19_documented_rule_without_resume covers whole sessions; the four per-command theorems are stated at an
   arbitrary stop (statement s1, not itself a breakpoint) of such a session). *)
From Coq Require Import List ZArith Bool.
From Verif Require Import C19.Model C19.Proof C19.Stock.
Import ListNotations.
Open Scope Z_scope.

(* after step the next stop is the very next executed statement, at any call depth *)
Theorem C19_step_next_stmt : forall st i s1 cmds, all_ss st -> 0 < dd st -> sdepth s1 < dd st -> sbp s1 = false ->
  forall s2 tr, sdepth s2 < MaxInt ->
  exists rest, run st i (s1 :: s2 :: tr) (Step :: cmds) = (i, false) :: (i + 1, false) :: rest.
Proof. exact step_next_stmt. Qed.
Print Assumptions C19_step_next_stmt.

(* after next: deeper non-breakpoint statements are skipped; the next stop is the first later statement at the same or a
   shallower depth (At callback) or the first breakpoint (Breakpoint callback) *)
Theorem C19_next_same_or_shallower : forall st i s1 cmds, all_ss st -> 0 < dd st -> sdepth s1 < dd st -> sbp s1 = false ->
  1 <= sdepth s1 -> forall pre s2 tr,
  Forall (fun x => sdepth s1 < sdepth x /\ sbp x = false) pre ->
  (sdepth s2 <= sdepth s1 \/ sbp s2 = true) ->
  exists rest, run st i (s1 :: pre ++ s2 :: tr) (Next :: cmds) =
    (i, false) :: (i + 1 + Z.of_nat (length pre), negb (sdepth s2 <=? sdepth s1)) :: rest.
Proof. exact next_same_or_shallower. Qed.
Print Assumptions C19_next_same_or_shallower.

(* after finish: the first later statement at a strictly shallower depth, or the first breakpoint *)
Theorem C19_finish_shallower : forall st i s1 cmds, all_ss st -> 0 < dd st -> sdepth s1 < dd st -> sbp s1 = false ->
  1 <= sdepth s1 -> forall pre s2 tr,
  Forall (fun x => sdepth s1 <= sdepth x /\ sbp x = false) pre ->
  (sdepth s2 < sdepth s1 \/ sbp s2 = true) ->
  exists rest, run st i (s1 :: pre ++ s2 :: tr) (Finish :: cmds) =
    (i, false) :: (i + 1 + Z.of_nat (length pre), negb (sdepth s2 <? sdepth s1)) :: rest.
Proof. exact finish_shallower. Qed.
Print Assumptions C19_finish_shallower.

(* after next, if no statement qualifies, there is no further stop *)
Theorem C19_next_no_qualifying_no_stop : forall st i s1 cmds, all_ss st -> 0 < dd st -> sdepth s1 < dd st -> sbp s1 = false ->
  1 <= sdepth s1 -> forall pre,
  Forall (fun x => sdepth s1 < sdepth x /\ sbp x = false) pre ->
  run st i (s1 :: pre) (Next :: cmds) = [(i, false)].
Proof. exact next_no_stop. Qed.
Print Assumptions C19_next_no_qualifying_no_stop.

(* a stop answered with continue switches debugging off (DebugDepth = 0) ... *)
Theorem C19_continue_switches_off : forall st i s cmds, 0 <= sdepth s ->
  forall st' sts cmds', dstep st i s (Continue :: cmds) = (st', sts, cmds') -> length sts = 1%nat -> dd st' = 0.
Proof. exact continue_switches_off. Qed.
Print Assumptions C19_continue_switches_off.

(* ... and with debugging off execution stops only at explicit breakpoints, in EVERY state (any mix of
   single-stepping and full-speed exec loops, any commands) *)
Theorem C19_continue_only_breakpoints : forall st i pre s tr cmds, dd st = 0 ->
  Forall (fun x => sbp x = false) pre -> sbp s = true ->
  exists rest, run st i (pre ++ s :: tr) cmds = (i + Z.of_nat (length pre), true) :: rest.
Proof. exact continue_only_breakpoints. Qed.
Print Assumptions C19_continue_only_breakpoints.

Theorem C19_continue_no_breakpoint_no_stop : forall st i pre cmds, dd st = 0 ->
  Forall (fun x => sbp x = false) pre -> run st i pre cmds = [].
Proof. exact continue_no_breakpoint. Qed.
Print Assumptions C19_continue_no_breakpoint_no_stop.

(* whole sessions started with Interp.Debug: for ALL traces (call depths >= 1) and ALL command lists of the shape
   (step|next|finish)* continue* the callbacks are exactly those of the documented rule (doc_run: stop at every
   statement whose depth is below the requested depth and at every breakpoint) *)
Theorem C19_documented_rule_without_resume : forall tr cmds, wf_trace tr -> noresume cmds ->
  stops tr cmds = doc_run MaxInt 0 tr cmds.
Proof. exact stops_doc. Qed.
Print Assumptions C19_documented_rule_without_resume.

(* in ANY state with debugging off: a breakpoint answered with step makes the next statement of the same activation,
   or the first statement of a function it calls, a stop *)
Theorem C19_step_after_breakpoint_local : forall st i s1 s2 tr cmds,
  dd st = 0 -> sbp s1 = true -> sentry s1 = false -> 0 <= sdepth s1 -> sdepth s1 + 1 < MaxInt ->
  ((sdepth s2 = sdepth s1 /\ sentry s2 = false) \/ (sdepth s2 = sdepth s1 + 1 /\ sentry s2 = true)) ->
  exists rest, run st i (s1 :: s2 :: tr) (Step :: cmds) = (i, true) :: (i + 1, false) :: rest.
Proof. exact step_after_breakpoint_local. Qed.
Print Assumptions C19_step_after_breakpoint_local.

(* REFUTED on the current code (known finding C19-C; the witness is corpus/C19/C-fast-callers-skip-stops.json):
   after a continue, a breakpoint in a callee answered with step, then step at every stop: the callback at statement 11
   (last statement of the callee) is answered with step, statement 12 (next statement of the caller, whose exec loop
   still runs at full speed and polls Signals only every 14/15 statements) is executed without a stop *)
Theorem C19_step_next_stmt_refuted :
  exists tr cmds k, wf_trace tr /\
    nth_error (stops tr cmds) k = Some (11, false) /\ nth_error cmds k = Some Step /\
    (12 < Z.of_nat (length tr)) /\
    forall b, ~ In (12, b) (stops tr cmds).
Proof. exact step_next_stmt_refuted. Qed.
Print Assumptions C19_step_next_stmt_refuted.

Theorem C19_documented_rule_refuted : exists tr cmds, wf_trace tr /\ stops tr cmds <> doc_run MaxInt 0 tr cmds.
Proof. exact doc_rule_refuted. Qed.
Print Assumptions C19_documented_rule_refuted.

(* transparency: for every program (an arbitrary deterministic machine pnext/pexec), every debugger state and every
   command list, execution under the debugger yields the same final program state and the same statement trace as
   execution without it, and the callbacks are `run` of that trace.  Structural in the model (the debugger layer cannot
   reach the program state and runs each statement exactly once); before fix C19-1 the implementation violated it. *)
Theorem C19_transparent : forall (PState : Type) (pnext : PState -> option stmt) (pexec : PState -> PState)
  fuel ps st i cmds,
  let '(pf, sts, tr) := exec_dbg pnext pexec fuel ps st i cmds in
  (pf, tr) = exec_plain pnext pexec fuel ps /\ sts = run st i tr cmds.
Proof. exact @exec_transparent. Qed.
Print Assumptions C19_transparent.

(* ---------- the stock debugger layer (fast/debug/api.go): krun / kdstep = run / dstep with every callback passed through
   Debugger.main, which does not prompt at a statement without source position (synthetic s: the epilogue of
   `return expr`, executed before the deferred calls run one level deeper) and answers it with the depth in force;
   the stops of krun are the PROMPTS ---------- *)

(* a statement without source position is transparent in EVERY state: no prompt, no command consumed, DebugDepth kept *)
Theorem C19_stock_synthetic_statement_transparent : forall st i s cmds, synthetic s = true -> 0 <= dd st ->
  exists fr, kdstep st i s cmds = (mkD (dd st) fr, [], cmds).
Proof. exact kdstep_synth. Qed.
Print Assumptions C19_stock_synthetic_statement_transparent.

(* on a statement with source position the stock layer is exactly the raw layer *)
Theorem C19_stock_visible_is_raw : forall st i s cmds, synthetic s = false -> kdstep st i s cmds = dstep st i s cmds.
Proof. exact kdstep_vis. Qed.
Print Assumptions C19_stock_visible_is_raw.

(* in EVERY state and for every command list: a prompt that is not a breakpoint happens only at a statement with source
   position whose call depth is below the depth requested by the last answer (step: any, next: same or shallower,
   finish: shallower, continue: none) *)
Theorem C19_stock_stop_justified : forall st i s cmds st' sts cmds',
  kdstep st i s cmds = (st', sts, cmds') -> In (i, false) sts -> sdepth s < dd st /\ synthetic s = false.
Proof. exact kdstep_at_justified. Qed.
Print Assumptions C19_stock_stop_justified.

(* whole sessions through the stock debugger, never resuming after continue: the prompts are those of the documented
   rule evaluated on the statements WITH source position; the others neither stop nor change what was requested *)
Theorem C19_stock_documented_rule_without_resume : forall tr cmds, wf_trace tr -> noresume cmds ->
  kstops tr cmds = kdoc_run MaxInt 0 tr cmds.
Proof. exact kstops_doc. Qed.
Print Assumptions C19_stock_documented_rule_without_resume.

(* next typed at s1 (for instance the return statement of a function with deferred calls): position-less statements and
   deeper non-breakpoint statements (the deferred functions) do not prompt; the next prompt is the first statement with
   position at the same or a shallower depth, or the first breakpoint *)
Theorem C19_stock_next_same_or_shallower : forall st i s1 cmds, all_ss st -> 0 < dd st -> sdepth s1 < dd st ->
  sbp s1 = false -> synthetic s1 = false -> 1 <= sdepth s1 -> forall pre s2 tr,
  Forall (fun x => synthetic x = true \/ (sdepth s1 < sdepth x /\ sbp x = false)) pre ->
  synthetic s2 = false -> (sdepth s2 <= sdepth s1 \/ sbp s2 = true) ->
  exists rest, krun st i (s1 :: pre ++ s2 :: tr) (Next :: cmds) =
    (i, false) :: (i + 1 + Z.of_nat (length pre), negb (sdepth s2 <=? sdepth s1)) :: rest.
Proof. exact knext_same_or_shallower. Qed.
Print Assumptions C19_stock_next_same_or_shallower.

Theorem C19_stock_finish_shallower : forall st i s1 cmds, all_ss st -> 0 < dd st -> sdepth s1 < dd st ->
  sbp s1 = false -> synthetic s1 = false -> 1 <= sdepth s1 -> forall pre s2 tr,
  Forall (fun x => synthetic x = true \/ (sdepth s1 <= sdepth x /\ sbp x = false)) pre ->
  synthetic s2 = false -> (sdepth s2 < sdepth s1 \/ sbp s2 = true) ->
  exists rest, krun st i (s1 :: pre ++ s2 :: tr) (Finish :: cmds) =
    (i, false) :: (i + 1 + Z.of_nat (length pre), negb (sdepth s2 <? sdepth s1)) :: rest.
Proof. exact kfinish_shallower. Qed.
Print Assumptions C19_stock_finish_shallower.

Theorem C19_stock_next_no_qualifying_no_stop : forall st i s1 cmds, all_ss st -> 0 < dd st -> sdepth s1 < dd st ->
  sbp s1 = false -> synthetic s1 = false -> 1 <= sdepth s1 -> forall pre,
  Forall (fun x => synthetic x = true \/ (sdepth s1 < sdepth x /\ sbp x = false)) pre ->
  krun st i (s1 :: pre) (Next :: cmds) = [(i, false)].
Proof. exact knext_no_stop. Qed.
Print Assumptions C19_stock_next_no_qualifying_no_stop.

(* non-vacuity (stock layer): f with a deferred call; `next` on the return statement (index 3) does not stop in the deferred
   function (5, 6) that runs after the position-less epilogue (4); `step` does *)
Example C19_ex_stock_next : kstops kwit_trace [Step; Step; Step; Next] = [(0, false); (1, false); (2, false); (3, false)].
Proof. exact kwit_next. Qed.
Example C19_ex_stock_step : kstops kwit_trace (repeat Step 7) = [(0, false); (1, false); (2, false); (3, false); (5, false); (6, false)].
Proof. exact kwit_step. Qed.

(* non-vacuity: the hypotheses are satisfiable on a real trace (main -> f -> g with a breakpoint) *)
Example C19_ex_step : stops wit_trace (repeat Step 5) = [(0, false); (1, false); (2, false); (3, false); (4, false); (5, false); (8, true)].
Proof. vm_compute. reflexivity. Qed.
Example C19_ex_next : stops wit_trace [Step; Step; Next; Next; Next; Continue] =
  [(0, false); (1, false); (2, false); (8, true); (9, false); (10, false)].
Proof. vm_compute. reflexivity. Qed.
Example C19_ex_finish : stops wit_trace [Step; Step; Step; Step; Finish; Finish; Continue] =
  [(0, false); (1, false); (2, false); (3, false); (4, false); (8, true); (12, false)].
Proof. vm_compute. reflexivity. Qed.
Example C19_ex_allss : all_ss init_debug /\ 0 < dd init_debug /\ wf_trace wit_trace /\ noresume [Step; Next; Finish; Continue; Continue].
Proof.
  split; [constructor|]. split; [reflexivity|]. split; [exact wit_wf|].
  simpl. repeat constructor.
Qed.

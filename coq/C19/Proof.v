(* C19 — lemmas about the debugger stop model *)
From Coq Require Import List ZArith Bool Arith Lia.
From Verif Require Import C19.Model.
Import ListNotations.
Open Scope Z_scope.

(* every active exec loop is in single-step mode *)
Definition all_ss (st : dstate) : Prop := Forall (fun m => m = SS) (frames st).

(* a script never resumes stepping after a continue: (step|next|finish)* continue* *)
Fixpoint noresume (cmds : list cmd) : Prop :=
  match cmds with
  | [] => True
  | Continue :: r => Forall (fun c => c = Continue) r
  | _ :: r => noresume r
  end.

Definition wf_trace (tr : list stmt) : Prop := Forall (fun s => 1 <= sdepth s) tr.

(* the statement invokes the debugger when DebugDepth = D and its loop is single-stepping *)
Definition hit (D : Z) (s : stmt) : bool := (sdepth s <? D) || sbp s.

Lemma run_cons st i s tr cmds :
  run st i (s :: tr) cmds = let '(st', sts, cmds') := dstep st i s cmds in sts ++ run st' (i + 1) tr cmds'.
Proof. reflexivity. Qed.

(* ---------- frames ---------- *)
Lemma pad_ss k fs : Forall (fun m => m = SS) fs -> Forall (fun m => m = SS) (pad k fs SS).
Proof.
  revert fs; induction k as [|k IH]; intros fs H; simpl; [constructor|].
  destruct fs as [|f fs'].
  - constructor; [reflexivity|]. apply IH. constructor.
  - inversion H; subst. constructor; [reflexivity|]. apply IH. assumption.
Qed.

Lemma nth_error_ss fs k m : Forall (fun m => m = SS) fs -> nth_error fs k = Some m -> m = SS.
Proof.
  intros H E. apply nth_error_In in E. rewrite Forall_forall in H. apply H. assumption.
Qed.

Lemma enter_ss st s : all_ss st -> 0 < dd st ->
  enter st s = (pad (Z.to_nat (sdepth s)) (frames st) SS, SS).
Proof.
  intros H Hd. unfold enter, new_mode.
  assert (E : (0 <? dd st) = true) by (apply Z.ltb_lt; assumption). rewrite E.
  f_equal. destruct (sentry s); [reflexivity|].
  destruct (nth_error (frames st) (Z.to_nat (sdepth s))) eqn:N; [|reflexivity].
  eapply nth_error_ss; eassumption.
Qed.

Lemma dstep_ss st i s cmds : all_ss st -> 0 < dd st ->
  dstep st i s cmds =
    let '(d2, sts, cmds2) := ss_callbacks (dd st) i s cmds in
    (mkD d2 (pad (Z.to_nat (sdepth s)) (frames st) SS ++ [SS]), sts, cmds2).
Proof.
  intros H Hd. unfold dstep. rewrite (enter_ss st s H Hd). simpl.
  assert (E : (0 <? dd st) = true) by (apply Z.ltb_lt; assumption). rewrite E. reflexivity.
Qed.

Lemma all_ss_after st s d : all_ss st -> all_ss (mkD d (pad (Z.to_nat (sdepth s)) (frames st) SS ++ [SS])).
Proof.
  intros H. unfold all_ss; simpl. apply Forall_app; split; [apply pad_ss; exact H|].
  constructor; [reflexivity|constructor].
Qed.

(* ---------- callbacks ---------- *)
Lemma forall_continue_noresume r : Forall (fun c => c = Continue) r -> noresume r.
Proof.
  intros H. destruct r as [|c r]; [exact I|]. inversion H; subst. simpl. assumption.
Qed.

Lemma callback_continue s cmds : Forall (fun c => c = Continue) cmds ->
  exists r, callback s cmds = (0, r) /\ Forall (fun c => c = Continue) r.
Proof.
  intros H. unfold callback, next_cmd. destruct cmds as [|c r].
  - exists []. split; [reflexivity|constructor].
  - inversion H; subst. exists r. split; [reflexivity|assumption].
Qed.

Lemma callback_cases s cmds : 1 <= sdepth s -> noresume cmds ->
  exists d r, callback s cmds = (d, r) /\
    ((0 < d /\ noresume r) \/ (d = 0 /\ Forall (fun c => c = Continue) r)).
Proof.
  intros Hs H. unfold callback, next_cmd. destruct cmds as [|c r].
  - exists 0, []. split; [reflexivity|]. right. split; [reflexivity|constructor].
  - destruct c; simpl in H; unfold apply_op, op_depth, MaxInt.
    + eexists _, r. split; [reflexivity|]. left. simpl. split; [lia|assumption].
    + eexists _, r. split; [reflexivity|]. left.
      destruct (0 <? sdepth s + 1) eqn:E; [|apply Z.ltb_ge in E; lia]. split; [lia|assumption].
    + eexists _, r. split; [reflexivity|]. left.
      destruct (0 <? sdepth s) eqn:E; [|apply Z.ltb_ge in E; lia]. split; [lia|assumption].
    + exists 0, r. split; [reflexivity|]. right. split; [reflexivity|assumption].
Qed.

Definition good (d : Z) (cmds : list cmd) : Prop :=
  (0 < d /\ noresume cmds) \/ (d = 0 /\ Forall (fun c => c = Continue) cmds).

Lemma ss_callbacks_good D i s cmds : 1 <= sdepth s -> good D cmds ->
  exists d2 sts cmds2, ss_callbacks D i s cmds = (d2, sts, cmds2) /\ good d2 cmds2.
Proof.
  intros Hs G. unfold ss_callbacks.
  assert (G1 : exists d1 st1 c1,
     (if sdepth s <? D then let '(d, r) := callback s cmds in (d, [(i, false)], r) else (D, [], cmds)) = (d1, st1, c1)
     /\ good d1 c1).
  { destruct (sdepth s <? D) eqn:E.
    - destruct G as [[Hd Hn]|[Hd Hc]].
      + destruct (callback_cases s cmds Hs Hn) as (d & r & Ec & Hg). rewrite Ec. eexists _, _, _. split; [reflexivity|exact Hg].
      + destruct (callback_continue s cmds Hc) as (r & Ec & Hr). rewrite Ec. eexists _, _, _. split; [reflexivity|]. right. split; [reflexivity|assumption].
    - eexists _, _, _. split; [reflexivity|exact G]. }
  destruct G1 as (d1 & st1 & c1 & E1 & G1). rewrite E1.
  destruct (sbp s).
  - destruct G1 as [[Hd Hn]|[Hd Hc]].
    + destruct (callback_cases s c1 Hs Hn) as (d & r & Ec & Hg). rewrite Ec. eexists _, _, _. split; [reflexivity|exact Hg].
    + destruct (callback_continue s c1 Hc) as (r & Ec & Hr). rewrite Ec. eexists _, _, _. split; [reflexivity|]. right. split; [reflexivity|assumption].
  - eexists _, _, _. split; [reflexivity|exact G1].
Qed.

(* ---------- debugging switched off: only breakpoints stop, whatever the loops' modes ---------- *)
Lemma refresh_off m : exists n, refresh 0 m = Fast n.
Proof. destruct m; simpl; eexists; reflexivity. Qed.

Lemma ss_callbacks_off i s cmds : 0 <= sdepth s ->
  ss_callbacks 0 i s cmds =
    if sbp s then let '(d, r) := callback s cmds in (d, [(i, true)], r) else (0, [], cmds).
Proof.
  intros Hs. unfold ss_callbacks.
  assert (E : (sdepth s <? 0) = false) by (apply Z.ltb_ge; lia). rewrite E. simpl. reflexivity.
Qed.

Lemma run_off : forall tr st i cmds, dd st = 0 -> Forall (fun c => c = Continue) cmds ->
  Forall (fun s => 0 <= sdepth s) tr -> run st i tr cmds = doc_run 0 i tr cmds.
Proof.
  induction tr as [|s tr IH]; intros st i cmds Hd Hc Hw; [reflexivity|].
  inversion Hw as [|? ? Hs Hw']; subst. simpl.
  rewrite (ss_callbacks_off i s cmds Hs).
  unfold dstep. destruct (enter st s) as [outer cur0]. rewrite Hd.
  destruct (refresh_off cur0) as [n En]. rewrite En.
  destruct (sbp s).
  - destruct (callback_continue s cmds Hc) as (r & Ec & Hr). rewrite Ec. simpl.
    f_equal. apply IH; [reflexivity|assumption|assumption].
  - simpl. apply IH; [reflexivity|assumption|assumption].
Qed.

(* ---------- the documented rule holds as long as the session never resumes stepping after continue ---------- *)
Lemma run_doc : forall tr st i cmds, all_ss st -> good (dd st) cmds -> wf_trace tr ->
  run st i tr cmds = doc_run (dd st) i tr cmds.
Proof.
  induction tr as [|s tr IH]; intros st i cmds Hss G Hw; [reflexivity|].
  inversion Hw as [|? ? Hs Hw']; subst.
  destruct G as [[Hd Hn]|[Hd Hc]].
  - simpl. rewrite (dstep_ss st i s cmds Hss Hd).
    destruct (ss_callbacks_good (dd st) i s cmds Hs (or_introl (conj Hd Hn))) as (d2 & sts & cmds2 & E & G2).
    rewrite E. f_equal.
    rewrite (IH (mkD d2 (pad (Z.to_nat (sdepth s)) (frames st) SS ++ [SS])) (i + 1) cmds2); simpl.
    + reflexivity.
    + apply all_ss_after. assumption.
    + exact G2.
    + exact Hw'.
  - rewrite Hd. apply run_off; [assumption|assumption|].
    eapply Forall_impl; [|exact Hw]. simpl. intros; lia.
Qed.

Lemma stops_doc tr cmds : wf_trace tr -> noresume cmds -> stops tr cmds = doc_run MaxInt 0 tr cmds.
Proof.
  intros Hw Hn. unfold stops. apply (run_doc tr init_debug 0 cmds).
  - constructor.
  - left. split; [reflexivity|assumption].
  - assumption.
Qed.

(* ---------- first stop after a command, all loops single-stepping ---------- *)
Lemma ss_callbacks_quiet D i s cmds : hit D s = false -> ss_callbacks D i s cmds = (D, [], cmds).
Proof.
  unfold hit. intros H. apply orb_false_iff in H. destruct H as [H1 H2].
  unfold ss_callbacks. rewrite H1, H2. reflexivity.
Qed.

Lemma run_quiet : forall pre st i tr cmds, all_ss st -> 0 < dd st ->
  Forall (fun s => hit (dd st) s = false) pre ->
  exists st', all_ss st' /\ dd st' = dd st /\
    run st i (pre ++ tr) cmds = run st' (i + Z.of_nat (length pre)) tr cmds.
Proof.
  induction pre as [|s pre IH]; intros st i tr cmds Hss Hd Hq.
  - exists st. split; [assumption|]. split; [reflexivity|]. simpl. rewrite Z.add_0_r. reflexivity.
  - inversion Hq as [|? ? Hs Hq']; subst.
    simpl app. cbn [run]. rewrite (dstep_ss st i s cmds Hss Hd), (ss_callbacks_quiet _ _ _ _ Hs). cbn [app].
    set (st1 := mkD (dd st) (pad (Z.to_nat (sdepth s)) (frames st) SS ++ [SS])).
    destruct (IH st1 (i + 1) tr cmds) as (st' & H1 & H2 & H3).
    + apply all_ss_after. assumption.
    + exact Hd.
    + exact Hq'.
    + exists st'. split; [assumption|]. split; [exact H2|]. rewrite H3. f_equal.
      simpl length. lia.
Qed.

Lemma run_hit st i s tr cmds : all_ss st -> 0 < dd st -> hit (dd st) s = true ->
  exists rest, run st i (s :: tr) cmds = (i, negb (sdepth s <? dd st)) :: rest.
Proof.
  intros Hss Hd Hh. cbn [run]. rewrite (dstep_ss st i s cmds Hss Hd).
  unfold ss_callbacks, hit in *.
  destruct (sdepth s <? dd st) eqn:E.
  - destruct (callback s cmds) as [d r]. destruct (sbp s).
    + destruct (callback s r) as [d' r']. eexists. simpl. reflexivity.
    + eexists. simpl. reflexivity.
  - simpl in Hh. rewrite Hh. destruct (callback s cmds) as [d r]. eexists. simpl. reflexivity.
Qed.

(* after the prefix that does not qualify, the first qualifying statement is the next stop *)
Lemma first_stop st i pre s tr cmds : all_ss st -> 0 < dd st ->
  Forall (fun x => hit (dd st) x = false) pre -> hit (dd st) s = true ->
  exists rest, run st i (pre ++ s :: tr) cmds = (i + Z.of_nat (length pre), negb (sdepth s <? dd st)) :: rest.
Proof.
  intros Hss Hd Hq Hh.
  destruct (run_quiet pre st i (s :: tr) cmds Hss Hd Hq) as (st' & H1 & H2 & H3).
  rewrite H3. rewrite <- H2 in *. apply run_hit; [assumption|lia|assumption].
Qed.

Lemma no_stop st i pre cmds : all_ss st -> 0 < dd st ->
  Forall (fun x => hit (dd st) x = false) pre -> run st i pre cmds = [].
Proof.
  intros Hss Hd Hq.
  destruct (run_quiet pre st i [] cmds Hss Hd Hq) as (st' & H1 & H2 & H3).
  rewrite app_nil_r in H3. rewrite H3. reflexivity.
Qed.

(* state after a plain (non-breakpoint) stop answered with command c *)
Lemma dstep_stop st i s c cmds : all_ss st -> 0 < dd st -> sdepth s < dd st -> sbp s = false ->
  dstep st i s (c :: cmds) =
    (mkD (apply_op (op_depth c (sdepth s))) (pad (Z.to_nat (sdepth s)) (frames st) SS ++ [SS]), [(i, false)], cmds).
Proof.
  intros Hss Hd Hlt Hb. rewrite (dstep_ss st i s _ Hss Hd). unfold ss_callbacks.
  assert (E : (sdepth s <? dd st) = true) by (apply Z.ltb_lt; assumption). rewrite E, Hb.
  reflexivity.
Qed.

Section AfterStop.
  Variables (st : dstate) (i : Z) (s1 : stmt) (cmds : list cmd).
  Hypothesis Hss : all_ss st.
  Hypothesis Hd : 0 < dd st.
  Hypothesis Hlt : sdepth s1 < dd st.
  Hypothesis Hb : sbp s1 = false.
  Hypothesis Hs1 : 1 <= sdepth s1.

  Lemma step_next_stmt s2 tr : sdepth s2 < MaxInt ->
    exists rest, run st i (s1 :: s2 :: tr) (Step :: cmds) = (i, false) :: (i + 1, false) :: rest.
  Proof.
    intros H2. rewrite run_cons. rewrite (dstep_stop st i s1 Step cmds Hss Hd Hlt Hb). cbn [app].
    change (apply_op (op_depth Step (sdepth s1))) with MaxInt.
    set (st1 := mkD _ _).
    destruct (run_hit st1 (i + 1) s2 tr cmds) as [rest E].
    - apply all_ss_after. assumption.
    - reflexivity.
    - unfold hit. simpl. replace (sdepth s2 <? MaxInt) with true; [reflexivity|]. symmetry. apply Z.ltb_lt. assumption.
    - exists rest. f_equal. rewrite E. simpl. replace (sdepth s2 <? MaxInt) with true; [reflexivity|]. symmetry. apply Z.ltb_lt. assumption.
  Qed.

  Lemma apply_next : apply_op (op_depth Next (sdepth s1)) = sdepth s1 + 1.
  Proof. unfold apply_op, op_depth. destruct (0 <? sdepth s1 + 1) eqn:E; [reflexivity|apply Z.ltb_ge in E; lia]. Qed.

  Lemma apply_finish : apply_op (op_depth Finish (sdepth s1)) = sdepth s1.
  Proof. unfold apply_op, op_depth. destruct (0 <? sdepth s1) eqn:E; [reflexivity|apply Z.ltb_ge in E; lia]. Qed.

  (* next: statements deeper than s1 that are not breakpoints are skipped; the first statement at the same or a
     shallower depth, or the first breakpoint, is the next stop *)
  Lemma next_same_or_shallower pre s2 tr :
    Forall (fun x => sdepth s1 < sdepth x /\ sbp x = false) pre ->
    (sdepth s2 <= sdepth s1 \/ sbp s2 = true) ->
    exists rest, run st i (s1 :: pre ++ s2 :: tr) (Next :: cmds) =
      (i, false) :: (i + 1 + Z.of_nat (length pre), negb (sdepth s2 <=? sdepth s1)) :: rest.
  Proof.
    intros Hpre H2. cbn [run]. rewrite (dstep_stop st i s1 Next cmds Hss Hd Hlt Hb), apply_next. cbn [app].
    set (st1 := mkD _ _).
    destruct (first_stop st1 (i + 1) pre s2 tr cmds) as [rest E].
    - apply all_ss_after. assumption.
    - simpl. lia.
    - eapply Forall_impl; [|exact Hpre]. simpl. intros x [Hx1 Hx2]. unfold hit. rewrite Hx2, orb_false_r. apply Z.ltb_ge. lia.
    - simpl. unfold hit. destruct H2 as [H2|H2]; [|rewrite H2; apply orb_true_r].
      replace (sdepth s2 <? sdepth s1 + 1) with true; [reflexivity|]. symmetry. apply Z.ltb_lt. lia.
    - exists rest. f_equal. rewrite E. simpl. f_equal. f_equal.
      destruct (sdepth s2 <=? sdepth s1) eqn:E1; destruct (sdepth s2 <? sdepth s1 + 1) eqn:E2; try reflexivity.
      + apply Z.leb_le in E1. apply Z.ltb_ge in E2. lia.
      + apply Z.leb_gt in E1. apply Z.ltb_lt in E2. lia.
  Qed.

  Lemma finish_shallower pre s2 tr :
    Forall (fun x => sdepth s1 <= sdepth x /\ sbp x = false) pre ->
    (sdepth s2 < sdepth s1 \/ sbp s2 = true) ->
    exists rest, run st i (s1 :: pre ++ s2 :: tr) (Finish :: cmds) =
      (i, false) :: (i + 1 + Z.of_nat (length pre), negb (sdepth s2 <? sdepth s1)) :: rest.
  Proof.
    intros Hpre H2. cbn [run]. rewrite (dstep_stop st i s1 Finish cmds Hss Hd Hlt Hb), apply_finish. cbn [app].
    set (st1 := mkD _ _).
    destruct (first_stop st1 (i + 1) pre s2 tr cmds) as [rest E].
    - apply all_ss_after. assumption.
    - simpl. lia.
    - eapply Forall_impl; [|exact Hpre]. simpl. intros x [Hx1 Hx2]. unfold hit. rewrite Hx2, orb_false_r. apply Z.ltb_ge. lia.
    - simpl. unfold hit. destruct H2 as [H2|H2]; [|rewrite H2; apply orb_true_r].
      replace (sdepth s2 <? sdepth s1) with true; [reflexivity|]. symmetry. apply Z.ltb_lt. lia.
    - exists rest. f_equal. rewrite E. reflexivity.
  Qed.

  (* next / finish with no qualifying statement left: no further stop *)
  Lemma next_no_stop pre :
    Forall (fun x => sdepth s1 < sdepth x /\ sbp x = false) pre ->
    run st i (s1 :: pre) (Next :: cmds) = [(i, false)].
  Proof.
    intros Hpre. cbn [run]. rewrite (dstep_stop st i s1 Next cmds Hss Hd Hlt Hb), apply_next. cbn [app].
    f_equal. apply no_stop.
    - apply all_ss_after. assumption.
    - simpl. lia.
    - eapply Forall_impl; [|exact Hpre]. simpl. intros x [Hx1 Hx2]. unfold hit. rewrite Hx2, orb_false_r. apply Z.ltb_ge. lia.
  Qed.
End AfterStop.

(* ---------- continue: in every state (any mix of single-stepping and fast loops) ---------- *)
Lemma dstep_off_quiet st i s cmds : dd st = 0 -> sbp s = false ->
  exists st', dd st' = 0 /\ dstep st i s cmds = (st', [], cmds).
Proof.
  intros Hd Hb. unfold dstep. destruct (enter st s) as [outer cur0]. rewrite Hd.
  destruct (refresh_off cur0) as [n En]. rewrite En, Hb. eexists. split; [|reflexivity]. reflexivity.
Qed.

Lemma dstep_off_bp st i s cmds : dd st = 0 -> sbp s = true ->
  exists st', dstep st i s cmds = (st', [(i, true)], snd (callback s cmds)).
Proof.
  intros Hd Hb. unfold dstep. destruct (enter st s) as [outer cur0]. rewrite Hd.
  destruct (refresh_off cur0) as [n En]. rewrite En, Hb.
  destruct (callback s cmds) as [d r]. eexists. reflexivity.
Qed.

Lemma run_off_quiet : forall pre st i tr cmds, dd st = 0 -> Forall (fun x => sbp x = false) pre ->
  exists st', dd st' = 0 /\ run st i (pre ++ tr) cmds = run st' (i + Z.of_nat (length pre)) tr cmds.
Proof.
  induction pre as [|s pre IH]; intros st i tr cmds Hd Hq.
  - exists st. split; [assumption|]. simpl. rewrite Z.add_0_r. reflexivity.
  - inversion Hq as [|? ? Hs Hq']; subst.
    destruct (dstep_off_quiet st i s cmds Hd Hs) as (st1 & Hd1 & E1).
    simpl app. cbn [run]. rewrite E1. cbn [app].
    destruct (IH st1 (i + 1) tr cmds Hd1 Hq') as (st' & Hd' & E').
    exists st'. split; [assumption|]. rewrite E'. f_equal. simpl length. lia.
Qed.

Lemma continue_only_breakpoints st i pre s tr cmds : dd st = 0 ->
  Forall (fun x => sbp x = false) pre -> sbp s = true ->
  exists rest, run st i (pre ++ s :: tr) cmds = (i + Z.of_nat (length pre), true) :: rest.
Proof.
  intros Hd Hq Hb.
  destruct (run_off_quiet pre st i (s :: tr) cmds Hd Hq) as (st' & Hd' & E). rewrite E.
  destruct (dstep_off_bp st' (i + Z.of_nat (length pre)) s cmds Hd' Hb) as (st2 & E2).
  cbn [run]. rewrite E2. eexists. reflexivity.
Qed.

Lemma continue_no_breakpoint st i pre cmds : dd st = 0 ->
  Forall (fun x => sbp x = false) pre -> run st i pre cmds = [].
Proof.
  intros Hd Hq.
  destruct (run_off_quiet pre st i [] cmds Hd Hq) as (st' & Hd' & E).
  rewrite app_nil_r in E. rewrite E. reflexivity.
Qed.

(* a stop answered with continue switches debugging off *)
Lemma continue_switches_off st i s cmds : 0 <= sdepth s ->
  forall st' sts cmds', dstep st i s (Continue :: cmds) = (st', sts, cmds') ->
  length sts = 1%nat -> dd st' = 0.
Proof.
  intros Hs st' sts cmds'. unfold dstep. destruct (enter st s) as [outer cur0].
  destruct (refresh (dd st) cur0).
  - unfold ss_callbacks. destruct (sdepth s <? dd st) eqn:E.
    + unfold callback at 1. simpl next_cmd. cbv beta iota. destruct (sbp s).
      * destruct (callback s cmds) as [d r]. intros H; inversion H; subst. simpl. discriminate.
      * intros H; inversion H; subst. reflexivity.
    + destruct (sbp s).
      * unfold callback. simpl. intros H; inversion H; subst. reflexivity.
      * intros H; inversion H; subst. simpl. discriminate.
  - destruct (sbp s).
    + unfold callback. simpl. intros H; inversion H; subst. reflexivity.
    + intros H; inversion H; subst. simpl. discriminate.
Qed.

(* ---------- a breakpoint answered with step, in ANY state: the activation that hit it single-steps from there ---------- *)
Lemma step_after_breakpoint_local st i s1 s2 tr cmds :
  dd st = 0 -> sbp s1 = true -> sentry s1 = false -> 0 <= sdepth s1 -> sdepth s1 + 1 < MaxInt ->
  (* s2 belongs to the same activation, or is the first statement of a callee *)
  ((sdepth s2 = sdepth s1 /\ sentry s2 = false) \/ (sdepth s2 = sdepth s1 + 1 /\ sentry s2 = true)) ->
  exists rest, run st i (s1 :: s2 :: tr) (Step :: cmds) = (i, true) :: (i + 1, false) :: rest.
Proof.
  intros Hd Hb He Hs Hmax H2. rewrite run_cons.
  unfold dstep at 1. destruct (enter st s1) as [outer cur0] eqn:Een. rewrite Hd.
  destruct (refresh_off cur0) as [n En]. rewrite En, Hb.
  unfold callback at 1. simpl next_cmd. cbv beta iota.
  assert (Ea : apply_op (op_depth Step (sdepth s1)) = MaxInt) by reflexivity. rewrite Ea.
  change (0 <? MaxInt) with true. cbv iota. cbn [app].
  set (st1 := mkD MaxInt (outer ++ [SS])).
  assert (Hlen : length outer = Z.to_nat (sdepth s1)).
  { unfold enter in Een. inversion Een. clear. generalize (frames st). generalize (new_mode (dd st)).
    induction (Z.to_nat (sdepth s1)) as [|k IH]; intros m fs; simpl; [reflexivity|].
    destruct fs; simpl; f_equal; apply IH. }
  assert (Hcur : exists o2, enter st1 s2 = (o2, SS)).
  { unfold enter. simpl dd. change (new_mode MaxInt) with SS.
    destruct H2 as [[H2 H3]|[H2 H3]]; rewrite H3.
    - rewrite H2. simpl frames. rewrite nth_error_app2; [|lia]. rewrite Hlen, Nat.sub_diag. simpl. eexists; reflexivity.
    - eexists; reflexivity. }
  destruct Hcur as [o2 E2].
  rewrite run_cons. unfold dstep. rewrite E2. simpl dd. change (refresh MaxInt SS) with SS.
  unfold ss_callbacks.
  assert (E3 : (sdepth s2 <? MaxInt) = true).
  { apply Z.ltb_lt. destruct H2 as [[H2 _]|[H2 _]]; rewrite H2; lia. }
  rewrite E3.
  destruct (callback s2 cmds) as [d r]. destruct (sbp s2).
  - destruct (callback s2 r) as [d' r']. eexists. simpl. reflexivity.
  - eexists. simpl. reflexivity.
Qed.

(* ---------- transparency: the debugger layer runs every statement exactly once and never touches the program state ---------- *)
Section Transparent.
  Context {PState : Type}.
  Variable pnext : PState -> option stmt.
  Variable pexec : PState -> PState.

  Lemma exec_transparent : forall fuel ps st i cmds,
    let '(pf, sts, tr) := exec_dbg pnext pexec fuel ps st i cmds in
    (pf, tr) = exec_plain pnext pexec fuel ps /\ sts = run st i tr cmds.
  Proof.
    induction fuel as [|f IH]; intros ps st i cmds; simpl; [split; reflexivity|].
    destruct (pnext ps) as [s|]; [|split; reflexivity].
    destruct (dstep st i s cmds) as [[st' sts] cmds'] eqn:E.
    specialize (IH (pexec ps) st' (i + 1) cmds').
    destruct (exec_dbg pnext pexec f (pexec ps) st' (i + 1) cmds') as [[pf rest] tr].
    destruct IH as [IH1 IH2]. rewrite <- IH1. split; [reflexivity|].
    simpl. rewrite E. rewrite IH2. reflexivity.
  Qed.
End Transparent.

(* ---------- the documented rule is false once stepping is resumed after a continue ---------- *)
(* main(depth 1) calls f(depth 2) calls g(depth 3); g contains a breakpoint (statement 8).
   Commands: continue at the first stop, then step at every callback. *)
Definition wit_trace : list stmt :=
  [mkStmt 1 153 false true false; mkStmt 1 173 false false false; mkStmt 1 182 false false false;
   mkStmt 2 70 false true false; mkStmt 2 91 false false false; mkStmt 2 101 false false false;
   mkStmt 3 1 false true false; mkStmt 3 22 false false false; mkStmt 3 35 true false false; mkStmt 3 44 false false false;
   mkStmt 3 64 false false false; mkStmt 3 0 false false false;
   mkStmt 2 112 false false false; mkStmt 2 122 false false false; mkStmt 2 132 false false false; mkStmt 2 149 false false false; mkStmt 2 0 false false false;
   mkStmt 1 193 false false false; mkStmt 1 202 false false false; mkStmt 1 218 false false false; mkStmt 1 0 false false false].
Definition wit_cmds : list cmd := Continue :: repeat Step 30.

Lemma wit_stops : stops wit_trace wit_cmds = [(0, false); (8, true); (9, false); (10, false); (11, false)].
Proof. vm_compute. reflexivity. Qed.

Lemma wit_wf : wf_trace wit_trace.
Proof. unfold wf_trace, wit_trace. repeat constructor; simpl; lia. Qed.

Lemma step_next_stmt_refuted :
  exists tr cmds k, wf_trace tr /\
    nth_error (stops tr cmds) k = Some (11, false) /\ nth_error cmds k = Some Step /\
    (12 < Z.of_nat (length tr)) /\
    forall b, ~ In (12, b) (stops tr cmds).
Proof.
  exists wit_trace, wit_cmds, 4%nat. split; [exact wit_wf|]. rewrite wit_stops.
  split; [reflexivity|]. split; [reflexivity|]. split; [vm_compute; reflexivity|].
  intros b H. simpl in H. repeat (destruct H as [H|H]; [inversion H|]). exact H.
Qed.

Lemma doc_rule_refuted : exists tr cmds, wf_trace tr /\ stops tr cmds <> doc_run MaxInt 0 tr cmds.
Proof.
  exists wit_trace, wit_cmds. split; [exact wit_wf|]. rewrite wit_stops. vm_compute. discriminate.
Qed.

(* C19 — executable model of gomacro's debugger stop logic (fast/debug.go singleStep, Comp.breakpoint,
   Run.applyDebugOp; fast/code.go exec / reExecWithFlags: per-function exec loop that is either in
   single-step mode (label `signal:`) or in the fast loop that polls Run.Signals only after blocks of
   14,14,14,14,14,15,15,... statements; fast/debug/cmd.go cmdStep/cmdNext/cmdFinish/cmdContinue).
   The model is of the code WITH fix C19-1 (singleStep signals SigReturn at the end of code; the
   single-step loop is skipped when the return statement was already executed).
   Definitions only (no proofs). *)
From Coq Require Import List ZArith Bool Arith.
Import ListNotations.
Open Scope Z_scope.

(* ---------- commands of the stock debugger that resume execution ---------- *)
Inductive cmd := Step | Next | Finish | Continue.

Definition MaxInt : Z := 9223372036854775807.

(* fast/debug/cmd.go: cmdStep -> DebugOpStep{MaxInt}; cmdNext -> {CallDepth+1}; cmdFinish -> {CallDepth};
   cmdContinue -> DebugOpContinue{0} *)
Definition op_depth (c : cmd) (calldepth : Z) : Z :=
  match c with
  | Step => MaxInt
  | Next => calldepth + 1
  | Finish => calldepth
  | Continue => 0
  end.

(* Run.applyDebugOp: Depth > 0 => Signals.Debug = SigDebug, DebugDepth = Depth; else SigNone, DebugDepth = 0.
   The model keeps one number: dd = DebugDepth, with dd = 0 <-> Signals.Debug = SigNone. *)
Definition apply_op (depth : Z) : Z := if 0 <? depth then depth else 0.

(* the scripted debugger: commands are consumed one per callback; when exhausted it answers continue *)
Definition next_cmd (cmds : list cmd) : cmd * list cmd :=
  match cmds with
  | [] => (Continue, [])
  | c :: r => (c, r)
  end.

(* ---------- one executed statement of the program ---------- *)
Record stmt := mkStmt {
  sdepth : Z;      (* env.CallDepth of the executing function *)
  spos : Z;        (* source position (payload only) *)
  sbp : bool;      (* statement is a breakpoint: "break" or _ = "break"  (Comp.breakpoint) *)
  sentry : bool;   (* first statement of a freshly entered code list (env.IP = 0): a new exec loop starts *)
  sdefer : bool    (* a `defer` statement: it raises Signals.Sync = SigDefer, which the exec loop handles (installs the
                      deferred call) at its next test of the signals *)
}.

(* mode of the exec loop that runs one function activation *)
Inductive fmode :=
| SS                (* in the `for run.Signals.Debug != SigNone { singleStep }` loop *)
| Fast (n : nat).   (* in the fast loop; n = statements executed since that loop was (re)started *)

(* debugger state: DebugDepth, and the mode of the exec loop of every active call depth (index = depth) *)
Record dstate := mkD { dd : Z; frames : list fmode }.

(* exec / reExecWithFlags on entry: `if stmt == nil || !run.Signals.IsEmpty() { goto signal }` *)
Definition new_mode (d : Z) : fmode := if 0 <? d then SS else Fast 0.

(* first k frames, padded (ill-formed traces only) *)
Fixpoint pad (k : nat) (fs : list fmode) (m : fmode) : list fmode :=
  match k with
  | O => []
  | S k' => match fs with
            | [] => m :: pad k' [] m
            | f :: fs' => f :: pad k' fs' m
            end
  end.

(* Signals are tested by the fast loop after statements 14,28,42,56,70 (5 x 14 with nil tests) and then after
   every further 15 statements *)
Definition poll (n : nat) : bool :=
  (n =? 14)%nat || (n =? 28)%nat || (n =? 42)%nat || (n =? 56)%nat ||
  ((70 <=? n)%nat && ((n - 70) mod 15 =? 0)%nat).

(* the counter of the fast loop after it executed statement s.  A defer statement (SigDefer) in the first phase
   (5 blocks of 14, run.Interrupt = nil: the statement returns nil and ends the block) brings the loop to the end of
   its block: the signals are tested at once and the next block starts; in the second phase (blocks of 15,
   run.Interrupt = spinInterrupt: the rest of the block spins) the loop installs the defer, executes ONE more statement
   (`// single step`), tests the signals and starts a new block: the counter is set one short of a block end *)
Definition bump (n : nat) (s : stmt) : nat :=
  if sdefer s then (if (n <? 70)%nat then (14 * (n / 14 + 1))%nat else 84%nat) else S n.

(* what the loop does when it gets control back, before its next statement:
   SS: `if run.Signals.IsEmpty() { goto again }` (fast loop restarted, counters reset);
   Fast: at a poll point `if !run.Signals.IsEmpty() { goto signal }` *)
Definition refresh (d : Z) (m : fmode) : fmode :=
  match m with
  | SS => if 0 <? d then SS else Fast 0
  | Fast n => if (0 <? d) && poll n then SS else Fast n
  end.

Definition stop := (Z * bool)%type.   (* (index of the statement in the trace, true = Breakpoint callback / false = At) *)

(* the loop that executes statement s: outer frames (depth < sdepth s) are kept, deeper ones are gone *)
Definition enter (st : dstate) (s : stmt) : list fmode * fmode :=
  let k := Z.to_nat (sdepth s) in
  let outer := pad k (frames st) (new_mode (dd st)) in
  let cur := if sentry s then new_mode (dd st)
             else match nth_error (frames st) k with
                  | Some m => m
                  | None => new_mode (dd st)
                  end in
  (outer, cur).

(* Debugger callback at statement s: consume a command, applyDebugOp *)
Definition callback (s : stmt) (cmds : list cmd) : Z * list cmd :=
  let '(c, r) := next_cmd cmds in (apply_op (op_depth c (sdepth s)), r).

(* the callbacks of one statement executed by singleStep when DebugDepth = D:
   `if env.CallDepth < run.DebugDepth { ir.debug(false) }`, then `stmt(env)`; the statement compiled by
   Comp.breakpoint calls ir.debug(true) unconditionally.  Returns the new DebugDepth, the callbacks, the remaining commands *)
Definition ss_callbacks (D : Z) (i : Z) (s : stmt) (cmds : list cmd) : Z * list stop * list cmd :=
  let '(d1, stops1, cmds1) :=
    if sdepth s <? D then let '(d, r) := callback s cmds in (d, [(i, false)], r)
    else (D, [], cmds) in
  if sbp s then let '(d, r) := callback s cmds1 in (d, stops1 ++ [(i, true)], r)
  else (d1, stops1, cmds1).

(* execution of one statement: returns the new state, the debugger callbacks it caused, the remaining commands *)
Definition dstep (st : dstate) (i : Z) (s : stmt) (cmds : list cmd) : dstate * list stop * list cmd :=
  let '(outer, cur0) := enter st s in
  match refresh (dd st) cur0 with
  | SS =>
      let '(d2, sts, cmds2) := ss_callbacks (dd st) i s cmds in
      (mkD d2 (outer ++ [SS]), sts, cmds2)
  | Fast n =>
      if sbp s then
        let '(d, r) := callback s cmds in
        (* sig != SigNone: the statement returns run.Interrupt, the loop reaches `signal:` before the next statement *)
        (mkD d (outer ++ [if 0 <? d then SS else Fast (bump n s)]), [(i, true)], r)
      else (mkD (dd st) (outer ++ [Fast (bump n s)]), [], cmds)
  end.

Fixpoint run (st : dstate) (i : Z) (tr : list stmt) (cmds : list cmd) : list stop :=
  match tr with
  | [] => []
  | s :: tr' =>
      let '(st', sts, cmds') := dstep st i s cmds in
      sts ++ run st' (i + 1) tr' cmds'
  end.

(* Interp.DebugExpr: run.applyDebugOp(DebugOpStep);  Interp.RunExpr: run.applyDebugOp(DebugOpContinue) *)
Definition init_debug : dstate := mkD MaxInt [].
Definition init_run : dstate := mkD 0 [].

Definition stops (tr : list stmt) (cmds : list cmd) : list stop := run init_debug 0 tr cmds.
Definition stops_eval (tr : list stmt) (cmds : list cmd) : list stop := run init_run 0 tr cmds.

(* ---------- the documented rule as a function (SPEC): stop at every statement whose depth is below the
   requested depth, and at every breakpoint ---------- *)
Fixpoint doc_run (D : Z) (i : Z) (tr : list stmt) (cmds : list cmd) : list stop :=
  match tr with
  | [] => []
  | s :: tr' =>
      let '(d2, sts, cmds2) := ss_callbacks D i s cmds in
      sts ++ doc_run d2 (i + 1) tr' cmds2
  end.

(* ---------- execution of a program under the debugger (for transparency) ----------
   The program is an arbitrary deterministic machine: pnext = the statement env.Code[env.IP] about to run,
   pexec = running it (`stmt(env)`).  Both the single-step loop and the fast loop call stmt(env) exactly once. *)
Section Exec.
  Context {PState : Type}.
  Variable pnext : PState -> option stmt.
  Variable pexec : PState -> PState.

  Fixpoint exec_dbg (fuel : nat) (ps : PState) (st : dstate) (i : Z) (cmds : list cmd)
    : PState * list stop * list stmt :=
    match fuel with
    | O => (ps, [], [])
    | S f =>
        match pnext ps with
        | None => (ps, [], [])
        | Some s =>
            let '(st', sts, cmds') := dstep st i s cmds in
            let '(pf, rest, tr) := exec_dbg f (pexec ps) st' (i + 1) cmds' in
            (pf, sts ++ rest, s :: tr)
        end
    end.

  Fixpoint exec_plain (fuel : nat) (ps : PState) : PState * list stmt :=
    match fuel with
    | O => (ps, [])
    | S f =>
        match pnext ps with
        | None => (ps, [])
        | Some s => let '(pf, tr) := exec_plain f (pexec ps) in (pf, s :: tr)
        end
    end.
End Exec.

(* ---------- the stock debugger layer: fast/debug/api.go Debugger.main ----------
     if !d.Show(breakpoint) { return DebugOp{Depth: env.Run.DebugDepth} }   // skip synthetic statements
     return d.Repl()
   Debugger.Show returns false exactly for a statement without source position (env.DebugPos[env.IP] == token.NoPos,
   spos = 0: e.g. the epilogue of `return expr`, executed BEFORE the deferred calls of the function run one level
   deeper).  Such a callback does not prompt, consumes no command and asks for the depth that is already in force;
   every other callback prompts (a user-visible stop) and is answered by the next command.
   k-definitions = the definitions above with `callback` replaced by `kcallback`; the stops they return are the PROMPTS. *)
Definition synthetic (s : stmt) : bool := spos s =? 0.

Definition kcallback (D : Z) (s : stmt) (cmds : list cmd) : Z * list cmd * bool :=
  if synthetic s then (apply_op D, cmds, false)
  else let '(d, r) := callback s cmds in (d, r, true).

Definition kss_callbacks (D : Z) (i : Z) (s : stmt) (cmds : list cmd) : Z * list stop * list cmd :=
  let '(d1, stops1, cmds1) :=
    if sdepth s <? D then let '(d, r, p) := kcallback D s cmds in (d, if p then [(i, false)] else [], r)
    else (D, [], cmds) in
  if sbp s then let '(d, r, p) := kcallback d1 s cmds1 in (d, stops1 ++ (if p then [(i, true)] else []), r)
  else (d1, stops1, cmds1).

Definition kdstep (st : dstate) (i : Z) (s : stmt) (cmds : list cmd) : dstate * list stop * list cmd :=
  let '(outer, cur0) := enter st s in
  match refresh (dd st) cur0 with
  | SS =>
      let '(d2, sts, cmds2) := kss_callbacks (dd st) i s cmds in
      (mkD d2 (outer ++ [SS]), sts, cmds2)
  | Fast n =>
      if sbp s then
        let '(d, r, p) := kcallback (dd st) s cmds in
        (mkD d (outer ++ [if 0 <? d then SS else Fast (bump n s)]), if p then [(i, true)] else [], r)
      else (mkD (dd st) (outer ++ [Fast (bump n s)]), [], cmds)
  end.

Fixpoint krun (st : dstate) (i : Z) (tr : list stmt) (cmds : list cmd) : list stop :=
  match tr with
  | [] => []
  | s :: tr' =>
      let '(st', sts, cmds') := kdstep st i s cmds in
      sts ++ krun st' (i + 1) tr' cmds'
  end.

Definition kstops (tr : list stmt) (cmds : list cmd) : list stop := krun init_debug 0 tr cmds.
Definition kstops_eval (tr : list stmt) (cmds : list cmd) : list stop := krun init_run 0 tr cmds.

(* SPEC for the user of the stock debugger: statements without source position do not exist (they are neither a stop
   nor do they change what was requested); on the others the documented rule *)
Fixpoint kdoc_run (D : Z) (i : Z) (tr : list stmt) (cmds : list cmd) : list stop :=
  match tr with
  | [] => []
  | s :: tr' =>
      if synthetic s then kdoc_run D (i + 1) tr' cmds
      else let '(d2, sts, cmds2) := ss_callbacks D i s cmds in
           sts ++ kdoc_run d2 (i + 1) tr' cmds2
  end.

(* ---------- correspondence support ---------- *)
Inductive start := StartDebug | StartEval.   (* Interp.Debug vs Interp.Eval *)
(* Raw: a fast.Debugger that answers every callback with the next command (fast/debug.go alone);
   Stock: the callbacks go through fast/debug.Debugger.At/Breakpoint (api.go), observed stops = its prompts *)
Inductive layer := Raw | Stock.

Record case := mkCase {
  c_idx : Z;
  c_trace : list stmt;                               (* full single-step trace observed on the implementation *)
  c_scripts : list (start * layer * list cmd * list stop)    (* per script: how it was started, through which layer, the commands, the stops observed *)
}.

Definition stop_eqb (a b : stop) : bool := (fst a =? fst b) && Bool.eqb (snd a) (snd b).
Fixpoint stops_eqb (a b : list stop) : bool :=
  match a, b with
  | [], [] => true
  | x :: a', y :: b' => stop_eqb x y && stops_eqb a' b'
  | _, _ => false
  end.

Definition script_ok (tr : list stmt) (x : start * layer * list cmd * list stop) : bool :=
  let '(s, l, cmds, obs) := x in
  let st0 := match s with StartDebug => init_debug | StartEval => init_run end in
  stops_eqb (match l with Raw => run st0 0 tr cmds | Stock => krun st0 0 tr cmds end) obs.

Definition case_ok (c : case) : bool := forallb (script_ok (c_trace c)) (c_scripts c).

Definition mismatches (cs : list case) : list Z :=
  map c_idx (filter (fun c => negb (case_ok c)) cs).

(* C16 — property theorems only (over the C17 model): each closed by [exact lemma], followed by Print Assumptions. *)
From Coq Require Import List NArith ZArith Bool Permutation.
From Verif Require Import Common.GoStr C17.Model C17.Proof C17.Spec C17.Order C16.Model C16.Proof.
Import ListNotations.

(* the sorter's order IS the "earliest ready declaration" order of the Go specification applied to the declarations
   (go_init_order, C17/Spec.v), whenever that order exists; names and positions pairwise distinct *)
Theorem C16_order_is_go_init_order : forall ds out, NoDup (names_of ds) -> NoDup (map dpos ds) ->
  go_init_order ds = Some out -> sort ds = Ok out.
Proof. exact sort_is_go_order. Qed.
Print Assumptions C16_order_is_go_init_order.

(* graph stage: a declaration loop is reported only if the specification order gets stuck, i.e. at some point every
   remaining declaration depends on a remaining declaration (a dependency cycle, which Go rejects as well) *)
Theorem C16_loop_only_if_go_cycle : forall ds, NoDup (names_of ds) -> NoDup (map dpos ds) ->
  sort ds = DeclLoop -> go_init_order ds = None.
Proof. exact loop_only_if_stuck. Qed.
Print Assumptions C16_loop_only_if_go_cycle.

(* initialisers modelled as functions of the values of their dependencies ([init name values]): two texts containing the
   same declarations (name, dependencies) at arbitrary positions / in arbitrary order give every name the same value
   when initialised in the sorter's order (= go_init_order by the theorem above) *)
Theorem C16_values_independent_of_permutation :
  forall (V : Type) (dflt : V) (init : str -> list V -> V) ds ds' out out',
  NoDup (names_of ds) -> same_decls ds ds' ->
  go_init_order ds = Some out -> go_init_order ds' = Some out' ->
  forall n, In n (names_of ds) ->
    lookup V dflt (eval_order V dflt init out) n = lookup V dflt (eval_order V dflt init out') n.
Proof. exact values_independent. Qed.
Print Assumptions C16_values_independent_of_permutation.

(* Go orders VARIABLES only (constants, types and functions are not steps of the initialisation order); the sorter
   orders all declarations.  Witness (finding C16-6):
     func next() int { cnt++; return cnt };  var a = K + next();  var b = next();  var cnt = 0;  const K = 10
   Go initialises cnt, a, b; the sorter emits cnt, next, b, K, a, i.e. b before a. *)
Theorem C16_go_var_order_refuted : exists ds out vs,
  NoDup (names_of ds) /\ sort ds = Ok out /\ go_var_order ds = Some vs /\
  map dname (filter is_var out) <> map dname vs.
Proof. exact var_order_refuted. Qed.
Print Assumptions C16_go_var_order_refuted.

(* non-vacuity: `var a = b + 1; var b = 42` and the swapped text; value of a = value of b + 1 in both orders *)
Definition nA := [97%N]. Definition nB := [98%N].
Definition t1 := [mkDecl KVar nA 5 [nB]; mkDecl KVar nB 20 []].
Definition t2 := [mkDecl KVar nB 5 []; mkDecl KVar nA 16 [nB]].
Definition initZ (n : str) (vs : list Z) : Z := match vs with [] => 42%Z | v :: _ => (v + 1)%Z end.
Example ex_values : same_decls t1 t2 /\
  (exists o1 o2, go_init_order t1 = Some o1 /\ go_init_order t2 = Some o2 /\ sort t1 = Ok o1 /\
     lookup Z 0%Z (eval_order Z 0%Z initZ o1) nA = 43%Z /\ lookup Z 0%Z (eval_order Z 0%Z initZ o2) nA = 43%Z).
Proof.
  split; [unfold same_decls; simpl; apply perm_swap|].
  eexists. eexists. repeat split; vm_compute; reflexivity.
Qed.

(* C16 — property theorems only (over the C17 model): each closed by [exact lemma], followed by Print Assumptions. *)
From Coq Require Import List NArith ZArith Bool Permutation.
From Verif Require Import Common.GoStr C17.Model C17.Proof C17.Spec C17.Order C16.Model C16.Proof.
Import ListNotations.

(* the sorter's order IS the "earliest ready declaration" order of the Go specification applied to the declarations
   (go_init_order, C17/Spec.v), whenever that order exists; names and positions pairwise distinct *)
Theorem C16_order_is_go_init_order : forall ds out, NoDup (names_of ds) -> NoDup (map dpos ds) ->
  go_init_order ds = Some out -> sort ds = Ok out.
Proof. exact sort_is_go_order. Qed.
Print Assumptions C16_order_is_go_init_order.

(* graph stage: a declaration loop is reported only if the specification order gets stuck, i.e. at some point every
   remaining declaration depends on a remaining declaration (a dependency cycle, which Go rejects as well) *)
Theorem C16_loop_only_if_go_cycle : forall ds, NoDup (names_of ds) -> NoDup (map dpos ds) ->
  sort ds = DeclLoop -> go_init_order ds = None.
Proof. exact loop_only_if_stuck. Qed.
Print Assumptions C16_loop_only_if_go_cycle.

(* initialisers modelled as functions of the values of their dependencies ([init name values]): two texts containing the
   same declarations (name, dependencies) at arbitrary positions / in arbitrary order give every name the same value
   when initialised in the sorter's order (= go_init_order by the theorem above) *)
Theorem C16_values_independent_of_permutation :
  forall (V : Type) (dflt : V) (init : str -> list V -> V) ds ds' out out',
  NoDup (names_of ds) -> same_decls ds ds' ->
  go_init_order ds = Some out -> go_init_order ds' = Some out' ->
  forall n, In n (names_of ds) ->
    lookup V dflt (eval_order V dflt init out) n = lookup V dflt (eval_order V dflt init out') n.
Proof. exact values_independent. Qed.
Print Assumptions C16_values_independent_of_permutation.

(* Go orders VARIABLES only (constants, types and functions are not steps of the initialisation order); the sorter
   orders all declarations.  Witness (finding C16-6):
     func next() int { cnt++; return cnt };  var a = K + next();  var b = next();  var cnt = 0;  const K = 10
   Go initialises cnt, a, b; the sorter emits cnt, next, b, K, a, i.e. b before a. *)
Theorem C16_go_var_order_refuted : exists ds out vs,
  NoDup (names_of ds) /\ sort ds = Ok out /\ go_var_order ds = Some vs /\
  map dname (filter is_var out) <> map dname vs.
Proof. exact var_order_refuted. Qed.
Print Assumptions C16_go_var_order_refuted.

(* non-vacuity: `var a = b + 1; var b = 42` and the swapped text; value of a = value of b + 1 in both orders *)
Definition nA := [97%N]. Definition nB := [98%N].
Definition t1 := [mkDecl KVar nA 5 [nB]; mkDecl KVar nB 20 []].
Definition t2 := [mkDecl KVar nB 5 []; mkDecl KVar nA 16 [nB]].
Definition initZ (n : str) (vs : list Z) : Z := match vs with [] => 42%Z | v :: _ => (v + 1)%Z end.
Example ex_values : same_decls t1 t2 /\
  (exists o1 o2, go_init_order t1 = Some o1 /\ go_init_order t2 = Some o2 /\ sort t1 = Ok o1 /\
     lookup Z 0%Z (eval_order Z 0%Z initZ o1) nA = 43%Z /\ lookup Z 0%Z (eval_order Z 0%Z initZ o2) nA = 43%Z).
Proof.
  split; [unfold same_decls; simpl; apply perm_swap|].
  eexists. eexists. repeat split; vm_compute; reflexivity.
Qed.

(* ---------- histories: type declarations redefined in an interpreter that holds older versions (HistModel.v: model of
   compileNode's *ast.TypeSpec case, Comp.DeclNamedType, Comp.DeclType) ---------- *)
From Verif Require Import C16.HistModel C16.HistProof.

(* for EVERY history of earlier evaluations and every run the sorter can emit (each type once, a type follows the types it
   refers to or their forward declarations, nothing mentions a type after its declaration): a type declared by the run
   refers, for every name the run declares, to the type bound to that name at the END of the run - never to a version
   left by an earlier evaluation *)
Theorem C16_redefined_types_link_to_current_versions : forall (hist : list (list item)) l, wf_run l ->
  forall n refs r, In (IType n refs) l -> In r refs -> declared l r ->
  link_current (run_items (fold_left run_items hist empty_state) l) n r = true.
Proof. exact links_current_history. Qed.
Print Assumptions C16_redefined_types_link_to_current_versions.

(* the step that makes it true: a forward declaration of a name bound to a COMPLETE type (from an earlier evaluation)
   creates a new, incomplete named type and rebinds the name *)
Theorem C16_forward_declaration_rebinds_complete_name : forall s n id,
  lookup_type s n = Some id -> is_complete s id = true ->
  lookup_type (step s (IFwd n)) n = Some (t_next s) /\ is_complete (step s (IFwd n)) (t_next s) = false.
Proof. exact fwd_rebinds_complete. Qed.
Print Assumptions C16_forward_declaration_rebinds_complete_name.

(* non-vacuity: `type A struct{ b *B }; type B struct{ a *A }` evaluated twice; the sorter emits TypeFwd B, Type A, Type B.
   After the second evaluation A and B are new types (ids 2 and 3) that refer to each other, not to ids 1 / 0 *)
Definition runAB := [IFwd nB; IType nA [nB]; IType nB [nA]].
Example ex_wf_runAB : wf_run runAB.
Proof.
  intros pre n refs post E. unfold runAB in E.
  destruct pre as [|a [|b [|c [|d pre]]]]; simpl in E; inversion E; subst; clear E.
  - split.
    + intros r [<-|[]] _ _. exists (IFwd nB). split; [left; reflexivity|reflexivity].
    + intros [i [[<-|[]] Q]]. discriminate.
  - split.
    + intros r [<-|[]] _ _. exists (IType nA [nB]). split; [right; left; reflexivity|reflexivity].
    + intros [i [[] _]].
Qed.
Example ex_history_AB :
  let s := fold_left run_items [runAB; runAB] empty_state in
  lookup_type s nA = Some 3 /\ lookup_type s nB = Some 2 /\ link_of s nA nB = Some 2 /\ link_of s nB nA = Some 3 /\
  link_current s nA nB = true /\ link_current s nB nA = true.
Proof. vm_compute. repeat split. Qed.

(* C16 — lemmas: Go's initialisation order on the C17 model *)
From Coq Require Import List NArith ZArith Bool Arith Lia Permutation.
From Verif Require Import Common.GoStr C17.Model C17.Proof C17.Spec C17.Order C16.Model.
Import ListNotations.

(* ---------- finding C16-6: the declaration-level order differs from Go's variable-level order ---------- *)
Definition w_next := [110;101;120;116]%N. Definition w_a := [97%N]. Definition w_b := [98%N].
Definition w_cnt := [99;110;116]%N. Definition w_K := [75%N].
Definition witness6 : list decl :=
  [mkDecl KFunc w_next 5 [w_cnt]; mkDecl KVar w_a 43 [w_K; w_next]; mkDecl KVar w_b 62 [w_next];
   mkDecl KVar w_cnt 77 []; mkDecl KConst w_K 91 []].

Lemma var_order_refuted : exists ds out vs,
  NoDup (names_of ds) /\ sort ds = Ok out /\ go_var_order ds = Some vs /\
  map dname (filter is_var out) <> map dname vs.
Proof.
  exists witness6. eexists. eexists. split; [|split; [vm_compute; reflexivity|split; [vm_compute; reflexivity|]]].
  - unfold witness6, names_of. simpl. repeat constructor; simpl; intros H; repeat destruct H as [H|H]; try discriminate; auto.
  - vm_compute. discriminate.
Qed.

(* ---------- values do not depend on the textual order ---------- *)
Lemma go_order_ready fuel : forall rem done out, go_order fuel rem done = Some out ->
  exists rest, out = done ++ rest /\
  forall l1 d l2, rest = l1 ++ d :: l2 -> ready (done ++ l1) d = true.
Proof.
  induction fuel as [|f IH]; intros rem done out H.
  - destruct rem; simpl in H; [|discriminate]. inversion H; subst. exists []. rewrite app_nil_r. split; [reflexivity|].
    intros l1 d l2 Hs. destruct l1; discriminate.
  - destruct rem as [|r rem0].
    + simpl in H. inversion H; subst. exists []. rewrite app_nil_r. split; [reflexivity|]. intros l1 d l2 Hs. destruct l1; discriminate.
    + remember (r :: rem0) as rem. simpl in H. rewrite Heqrem in H at 1.
      destruct (min_pos (filter (ready done) rem)) as [m|] eqn:E; [|discriminate].
      apply min_pos_spec in E as [Hm _]. apply filter_In in Hm as [_ Hready].
      apply IH in H as [rest [-> Hrest]]. exists (m :: rest). split; [rewrite <- app_assoc; reflexivity|].
      intros l1 d l2 Hs. destruct l1 as [|x l1]; simpl in Hs; inversion Hs; subst.
      * rewrite app_nil_r. exact Hready.
      * specialize (Hrest l1 d l2 eq_refl). rewrite <- app_assoc in Hrest. exact Hrest.
Qed.

Definition topo_closed (l : list decl) : Prop :=
  forall l1 d l2, l = l1 ++ d :: l2 -> forall n, In n (ddeps d) -> In n (names_of l1).

Section ValuesProof.
  Variable V : Type.
  Variable dflt : V.
  Variable init : str -> list V -> V.
  Notation lookup := (lookup V dflt).
  Notation eval_decl := (eval_decl V dflt init).
  Notation eval_order := (eval_order V dflt init).

  Lemma lookup_fold l : forall env n, ~ In n (names_of l) -> lookup (fold_left eval_decl l env) n = lookup env n.
  Proof.
    induction l as [|d l IH]; simpl; intros env n Hn; [reflexivity|].
    rewrite IH by tauto. unfold eval_decl. simpl.
    destruct (str_eqb (dname d) n) eqn:E; [|reflexivity]. apply str_eqb_eq in E. exfalso. apply Hn. left. exact E.
  Qed.

  Lemma eval_at l1 d l2 : NoDup (names_of (l1 ++ d :: l2)) ->
    lookup (eval_order (l1 ++ d :: l2)) (dname d) = init (dname d) (map (lookup (eval_order l1)) (ddeps d)).
  Proof.
    intros Hnd. unfold eval_order. rewrite fold_left_app. simpl. rewrite lookup_fold.
    - unfold eval_decl at 1. simpl. rewrite str_eqb_refl. reflexivity.
    - unfold names_of in Hnd. rewrite map_app in Hnd. apply NoDup_app_r in Hnd. simpl in Hnd. inversion Hnd; assumption.
  Qed.

  Lemma eval_prefix l1 l2 n : NoDup (names_of (l1 ++ l2)) -> In n (names_of l1) ->
    lookup (eval_order (l1 ++ l2)) n = lookup (eval_order l1) n.
  Proof.
    intros Hnd Hn. unfold eval_order. rewrite fold_left_app. apply lookup_fold. intros H.
    unfold names_of in *. rewrite map_app in Hnd. exact (NoDup_app_disjoint _ _ n Hnd Hn H).
  Qed.

  Lemma values_agree l l' : NoDup (names_of l) -> NoDup (names_of l') -> topo_closed l -> topo_closed l' ->
    (forall d, In d l -> exists d', In d' l' /\ dname d' = dname d /\ ddeps d' = ddeps d) ->
    forall d, In d l -> lookup (eval_order l) (dname d) = lookup (eval_order l') (dname d).
  Proof.
    intros Hnd Hnd' Ht Ht' Hsame.
    assert (Hpre : forall l1 l2, l = l1 ++ l2 -> forall d, In d l1 -> lookup (eval_order l) (dname d) = lookup (eval_order l') (dname d)).
    { intros l1. induction l1 as [|d l1 IH] using rev_ind; intros l2 Hl e He; [destruct He|].
      apply in_app_or in He as [He|[<-|[]]].
      - apply (IH ([d] ++ l2)); [rewrite Hl, <- app_assoc; reflexivity|exact He].
      - rewrite <- app_assoc in Hl. simpl in Hl.
        assert (Hd : In d l) by (rewrite Hl; apply in_or_app; right; left; reflexivity).
        destruct (Hsame d Hd) as [d' [Hd' [En Ed]]].
        apply in_split in Hd' as [p1 [p2 Hp]].
        rewrite Hl at 1. rewrite eval_at by (rewrite <- Hl; exact Hnd).
        rewrite <- En. rewrite Hp at 1. rewrite eval_at by (rewrite <- Hp; exact Hnd'). rewrite En, Ed.
        f_equal. apply map_ext_in. intros n Hn.
        assert (H1 : In n (names_of l1)) by (apply (Ht l1 d l2 Hl n Hn)).
        assert (H2 : In n (names_of p1)) by (apply (Ht' p1 d' p2 Hp n); rewrite Ed; exact Hn).
        rewrite <- (eval_prefix l1 (d :: l2) n) by (try rewrite <- Hl; assumption).
        rewrite <- (eval_prefix p1 (d' :: p2) n) by (try rewrite <- Hp; assumption).
        rewrite <- Hl, <- Hp. unfold names_of in H1. apply in_map_iff in H1 as [e [<- He]].
        apply (IH ([d] ++ l2)); [rewrite Hl; reflexivity|exact He]. }
    intros d Hd. apply (Hpre l []); [rewrite app_nil_r; reflexivity|exact Hd].
  Qed.
End ValuesProof.

(* the same declarations (name, dependencies) written at other positions / in another textual order *)
Definition strip (d : decl) : str * list str := (dname d, ddeps d).
Definition same_decls (ds ds' : list decl) : Prop := Permutation (map strip ds) (map strip ds').

Lemma names_strip ds : map fst (map strip ds) = names_of ds.
Proof. unfold names_of. rewrite map_map. reflexivity. Qed.

Lemma strip_resolve ds : map strip (resolve ds) =
  map (fun p => (fst p, filter (fun n => str_in n (names_of ds)) (snd p))) (map strip ds).
Proof. unfold resolve. rewrite !map_map. reflexivity. Qed.

Lemma same_decls_resolve ds ds' : same_decls ds ds' -> same_decls (resolve ds) (resolve ds').
Proof.
  intros H. unfold same_decls. rewrite !strip_resolve.
  assert (Hn : Permutation (names_of ds) (names_of ds')) by (rewrite <- !names_strip; apply Permutation_map; exact H).
  rewrite (map_ext _ (fun p => (fst p, filter (fun n => str_in n (names_of ds')) (snd p)))).
  - apply Permutation_map. exact H.
  - intros p. f_equal. apply filter_ext. intros n. apply str_in_perm. exact Hn.
Qed.

Lemma go_init_order_facts ds out : NoDup (names_of ds) -> go_init_order ds = Some out ->
  Permutation out (resolve ds) /\ NoDup (names_of out) /\ topo_closed out.
Proof.
  intros Hn H. unfold go_init_order in H.
  assert (Hn' : NoDup (map dname (resolve ds))) by (fold (names_of (resolve ds)); rewrite resolve_names; exact Hn).
  destruct (go_order_earliest _ _ _ _ Hn' H) as [rest [-> [P _]]]. simpl.
  split; [exact P|]. split.
  - eapply Permutation_NoDup; [apply Permutation_map, Permutation_sym; exact P|exact Hn'].
  - destruct (go_order_ready _ _ _ _ H) as [rest' [E Hr]]. simpl in E. subst rest'.
    intros l1 d l2 Hs n Hin. specialize (Hr l1 d l2 Hs). simpl in Hr. exact (proj1 (ready_names l1 d) Hr n Hin).
Qed.

Section ValuesTheorem.
  Variable V : Type.
  Variable dflt : V.
  Variable init : str -> list V -> V.

  Lemma values_independent ds ds' out out' : NoDup (names_of ds) -> same_decls ds ds' ->
    go_init_order ds = Some out -> go_init_order ds' = Some out' ->
    forall n, In n (names_of ds) ->
      lookup V dflt (eval_order V dflt init out) n = lookup V dflt (eval_order V dflt init out') n.
  Proof.
    intros Hn Hs H H' n Hin.
    assert (Hn2 : NoDup (names_of ds')).
    { eapply Permutation_NoDup; [|exact Hn]. rewrite <- !names_strip. apply Permutation_map. exact Hs. }
    destruct (go_init_order_facts ds out Hn H) as [P [N T]].
    destruct (go_init_order_facts ds' out' Hn2 H') as [P' [N' T']].
    assert (Hd : exists d, In d out /\ dname d = n).
    { rewrite <- resolve_names in Hin. unfold names_of in Hin. apply in_map_iff in Hin as [d [E Hd]].
      exists d. split; [eapply Permutation_in; [apply Permutation_sym; exact P|exact Hd]|exact E]. }
    destruct Hd as [d [Hd <-]].
    apply values_agree; auto.
    intros e He. apply (Permutation_in _ P) in He.
    assert (Hse : In (strip e) (map strip (resolve ds'))).
    { eapply Permutation_in; [apply same_decls_resolve; exact Hs|]. apply in_map. exact He. }
    apply in_map_iff in Hse as [e' [E He']]. exists e'. split.
    - eapply Permutation_in; [apply Permutation_sym; exact P'|exact He'].
    - unfold strip in E. inversion E. auto.
  Qed.
End ValuesTheorem.

(* C16 — Go's package-initialisation order as a function on the dependency relation of the C17 model, and the values
   computed by initialising in a given order.  Definitions only.
   Go spec ("Package initialization"): repeatedly select the earliest declaration in declaration order that is ready
   for initialisation, i.e. has no dependency on an uninitialised declaration. *)
From Coq Require Import List NArith ZArith Bool.
From Verif Require Import Common.GoStr C17.Model.
From Verif Require Export C17.Spec.
Import ListNotations.

(* values: every initialiser is a function of the values of the declarations it depends on *)
Section Values.
  Variable V : Type.
  Variable dflt : V.
  Variable init : str -> list V -> V.      (* name -> values of its dependencies (in Deps order) -> value *)

  Fixpoint lookup (env : list (str * V)) (n : str) : V :=
    match env with
    | [] => dflt
    | (k, v) :: env' => if str_eqb k n then v else lookup env' n
    end.

  Definition eval_decl (env : list (str * V)) (d : decl) : list (str * V) :=
    (dname d, init (dname d) (map (lookup env) (ddeps d))) :: env.

  Definition eval_order (order : list decl) : list (str * V) := fold_left eval_decl order [].
End Values.

(* ---------- correspondence: the sorter's output on an acyclic run = Go's order ---------- *)
Record case := mkCase { c_idx : Z; c_decls : list decl; c_obs : obs }.
Definition case_ok (c : case) : bool :=
  match go_init_order (c_decls c), c_obs c with
  | Some l, ObsOk l' => decls_eqb l l'
  | None, ObsLoop => true
  | _, _ => false
  end.
Definition mismatches (cs : list case) : list Z := map c_idx (filter (fun c => negb (case_ok c)) cs).

(* ---------- Go's actual rule: only variables are ordered; a variable depends on the variables reachable from its
   initialiser through references to constants, types and functions (Go spec, "Package initialization") ---------- *)
Definition is_var (d : decl) : bool := match dkind d with KVar | KVarMulti => true | _ => false end.
Fixpoint find_decl (ds : list decl) (n : str) : option decl :=
  match ds with
  | [] => None
  | d :: ds' => if str_eqb (dname d) n then Some d else find_decl ds' n
  end.
Fixpoint var_reach (fuel : nat) (ds : list decl) (n : str) : list str :=
  match fuel with
  | O => []
  | S f => match find_decl ds n with
           | None => []
           | Some d => if is_var d then [n] else flat_map (var_reach f ds) (ddeps d)
           end
  end.
Definition var_deps (ds : list decl) (d : decl) : list str := flat_map (var_reach (length ds) ds) (ddeps d).
Definition go_var_order (ds : list decl) : option (list decl) :=
  let rs := resolve ds in
  let vars := map (fun d => set_deps d (var_deps rs d)) (filter is_var rs) in
  go_order (length vars) vars [].

(* C16 — type declarations over a HISTORY of evaluations in one interpreter: model of fast/compile.go compileNode
   (case *ast.TypeSpec: kind TypeFwd -> Comp.DeclNamedType, otherwise Comp.DeclType) and fast/type.go
   DeclNamedType / DeclType / SetUnderlyingType.  Definitions only.

   Comp.Types maps a name to the named type currently bound to it.  A named type is identified by a creation counter
   (Universe.NamedOf always makes a new one); it is INCOMPLETE (Kind() == Invalid) until SetUnderlyingType.
     DeclNamedType name : if the name is bound to an incomplete type, return that type (complete a forward declaration);
                          otherwise (unbound, or bound to a complete type / alias left by an EARLIER evaluation) create a
                          new named type and bind the name to it - the old type is never modified.
     DeclType name u    : t := DeclNamedType name; resolve the names in u against Comp.Types; SetUnderlyingType t u.
   The underlying type is abstracted to the list of (name, type id) pairs its type names resolved to. *)
From Coq Require Import List NArith ZArith Bool Arith.
From Verif Require Import Common.GoStr.
Import ListNotations.

Inductive item := IFwd (n : str) | IType (n : str) (refs : list str).

Record tstate := mkT {
  t_types : list (str * nat);                       (* Comp.Types, newest binding first *)
  t_store : list (nat * (bool * list (str * nat))); (* type id -> (complete?, resolved references), newest first *)
  t_next : nat }.                                   (* creation counter *)

Definition empty_state : tstate := mkT [] [] 0.

Fixpoint lookup_type_in (l : list (str * nat)) (n : str) : option nat :=
  match l with
  | [] => None
  | (k, v) :: l' => if str_eqb k n then Some v else lookup_type_in l' n
  end.
Definition lookup_type (s : tstate) (n : str) : option nat := lookup_type_in (t_types s) n.

Fixpoint lookup_store (l : list (nat * (bool * list (str * nat)))) (id : nat) : option (bool * list (str * nat)) :=
  match l with
  | [] => None
  | (k, v) :: l' => if Nat.eqb k id then Some v else lookup_store l' id
  end.
Definition is_complete (s : tstate) (id : nat) : bool :=
  match lookup_store (t_store s) id with Some (c, _) => c | None => false end.

(* Universe.NamedOf + c.Types[name] = t *)
Definition fresh (s : tstate) (n : str) : tstate * nat :=
  let id := t_next s in (mkT ((n, id) :: t_types s) ((id, (false, [])) :: t_store s) (S id), id).

Definition decl_named (s : tstate) (n : str) : tstate * nat :=
  match lookup_type s n with
  | Some id => if is_complete s id then fresh s n else (s, id)
  | None => fresh s n
  end.

Definition resolve (s : tstate) (refs : list str) : list (str * nat) :=
  flat_map (fun r => match lookup_type s r with Some id => [(r, id)] | None => [] end) refs.

Definition decl_type (s : tstate) (n : str) (refs : list str) : tstate :=
  let (s1, t) := decl_named s n in
  mkT (t_types s1) ((t, (true, resolve s1 refs)) :: t_store s1) (t_next s1).

(* compileNode on one element of the sorter's output *)
Definition step (s : tstate) (i : item) : tstate :=
  match i with
  | IFwd n => fst (decl_named s n)
  | IType n refs => decl_type s n refs
  end.
Definition run_items (s : tstate) (l : list item) : tstate := fold_left step l s.

(* the type id that the CURRENT type named n holds for its reference to the name r *)
Definition link_of (s : tstate) (n r : str) : option nat :=
  match lookup_type s n with
  | Some id => match lookup_store (t_store s) id with
               | Some (_, rs) => lookup_type_in rs r
               | None => None
               end
  | None => None
  end.
(* ... is the type currently bound to r *)
Definition link_current (s : tstate) (n r : str) : bool :=
  match link_of s n r, lookup_type s r with
  | Some a, Some b => Nat.eqb a b
  | _, _ => false
  end.

(* ---------- correspondence: histories of evaluations; observed on the implementation: for the struct types of the LAST
   evaluation, whether the named type a field refers to is identical to the type now bound to that name ---------- *)
Record hcase := mkHCase { h_idx : Z; h_runs : list (list item); h_obs : list (str * str * bool) }.
Definition hcase_ok (c : hcase) : bool :=
  let s := fold_left run_items (h_runs c) empty_state in
  forallb (fun o => match o with (n, r, b) => Bool.eqb (link_current s n r) b end) (h_obs c).
Definition hist_mismatches (cs : list hcase) : list Z := map h_idx (filter (fun c => negb (hcase_ok c)) cs).

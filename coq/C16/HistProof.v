(* C16 — lemmas about the history model of type declarations (HistModel.v). *)
From Coq Require Import List NArith ZArith Bool Arith Lia.
From Verif Require Import Common.GoStr C16.HistModel.
Import ListNotations.

Lemma seqb_refl n : str_eqb n n = true.
Proof. apply str_eqb_eq. reflexivity. Qed.
Lemma seqb_neq a b : a <> b -> str_eqb a b = false.
Proof. intros H. destruct (str_eqb a b) eqn:E; [apply str_eqb_eq in E; contradiction|reflexivity]. Qed.

Definition item_name (i : item) : str := match i with IFwd n => n | IType n _ => n end.
Definition mentions (l : list item) (r : str) : Prop := exists i, In i l /\ item_name i = r.
Definition declared (l : list item) (r : str) : Prop := exists rr, In (IType r rr) l.

(* what dep.Sorter guarantees about one run (C17: each once, topological with forward declarations, a TypeFwd precedes its type) *)
Definition wf_run (l : list item) : Prop :=
  forall pre n refs post, l = pre ++ IType n refs :: post ->
    (forall r, In r refs -> r <> n -> declared l r -> mentions pre r) /\ ~ mentions post n.

Definition state_ok (s : tstate) : Prop :=
  (forall a i, lookup_type s a = Some i -> i < t_next s) /\
  (forall a b i, lookup_type s a = Some i -> lookup_type s b = Some i -> a = b).

Lemma state_ok_empty : state_ok empty_state.
Proof. split; intros; discriminate. Qed.

(* ---------- decl_named ---------- *)
Lemma decl_named_reuse s n id : lookup_type s n = Some id -> is_complete s id = false -> decl_named s n = (s, id).
Proof. intros H1 H2. unfold decl_named. rewrite H1, H2. reflexivity. Qed.

Lemma decl_named_cases s n :
  (exists id, lookup_type s n = Some id /\ is_complete s id = false /\ decl_named s n = (s, id)) \/
  decl_named s n = fresh s n.
Proof.
  unfold decl_named. destruct (lookup_type s n) as [id|] eqn:E; [|right; reflexivity].
  destruct (is_complete s id) eqn:C; [right; reflexivity|left; exists id; auto].
Qed.

Lemma fresh_lookup_same s n : lookup_type (fst (fresh s n)) n = Some (t_next s).
Proof. unfold fresh, lookup_type. simpl. rewrite seqb_refl. reflexivity. Qed.
Lemma fresh_lookup_other s n r : r <> n -> lookup_type (fst (fresh s n)) r = lookup_type s r.
Proof. intros H. unfold fresh, lookup_type. simpl. rewrite seqb_neq; auto. Qed.
Lemma fresh_store s n i : i <> t_next s -> lookup_store (t_store (fst (fresh s n))) i = lookup_store (t_store s) i.
Proof. intros H. unfold fresh. simpl. destruct (Nat.eqb (t_next s) i) eqn:E; [apply Nat.eqb_eq in E; congruence|reflexivity]. Qed.
Lemma fresh_incomplete s n : is_complete (fst (fresh s n)) (t_next s) = false.
Proof. unfold is_complete, fresh. simpl. rewrite Nat.eqb_refl. reflexivity. Qed.

Lemma decl_named_spec s n s1 t : state_ok s -> decl_named s n = (s1, t) ->
  state_ok s1 /\ lookup_type s1 n = Some t /\ is_complete s1 t = false /\
  (forall r, r <> n -> lookup_type s1 r = lookup_type s r) /\
  (forall i, i < t_next s -> lookup_store (t_store s1) i = lookup_store (t_store s) i) /\
  t_next s <= t_next s1.
Proof.
  intros [A B] H. destruct (decl_named_cases s n) as [[id [L [C E]]]|E]; rewrite E in H.
  - inversion H; subst. repeat split; auto.
  - assert (t = t_next s) as T1 by (unfold fresh in H; inversion H; reflexivity).
    assert (s1 = fst (fresh s n)) as S1 by (rewrite H; reflexivity).
    subst t s1. clear H. repeat split.
    + intros a i. destruct (str_eqb a n) eqn:X.
      * apply str_eqb_eq in X. subst a. rewrite fresh_lookup_same. intros Q. inversion Q. simpl. lia.
      * rewrite fresh_lookup_other by (intros ->; rewrite seqb_refl in X; discriminate). intros Q. apply A in Q. simpl. lia.
    + intros a b i. destruct (str_eqb a n) eqn:X; destruct (str_eqb b n) eqn:Y.
      * apply str_eqb_eq in X, Y. congruence.
      * apply str_eqb_eq in X. subst a. rewrite fresh_lookup_same.
        rewrite fresh_lookup_other by (intros ->; rewrite seqb_refl in Y; discriminate).
        intros Q1 Q2. inversion Q1. subst i. apply A in Q2. lia.
      * apply str_eqb_eq in Y. subst b. rewrite fresh_lookup_same.
        rewrite fresh_lookup_other by (intros ->; rewrite seqb_refl in X; discriminate).
        intros Q1 Q2. inversion Q2. subst i. apply A in Q1. lia.
      * rewrite !fresh_lookup_other by (intros ->; rewrite seqb_refl in *; discriminate). apply B.
    + apply fresh_lookup_same.
    + apply fresh_incomplete.
    + intros r Hr. apply fresh_lookup_other; auto.
    + intros i Hi. apply fresh_store. lia.
    + simpl. lia.
Qed.

Lemma step_state_ok s i : state_ok s -> state_ok (step s i).
Proof.
  intros H. destruct i as [n|n refs]; simpl.
  - destruct (decl_named s n) as [s1 t] eqn:E. apply (decl_named_spec _ _ _ _ H) in E. simpl. tauto.
  - unfold decl_type. destruct (decl_named s n) as [s1 t] eqn:E. apply (decl_named_spec _ _ _ _ H) in E.
    destruct E as [[A B] _]. split; [exact A|exact B].
Qed.
Lemma run_state_ok l : forall s, state_ok s -> state_ok (run_items s l).
Proof. induction l; simpl; intros; auto. apply IHl. apply step_state_ok; auto. Qed.
Lemma hist_state_ok h : forall s, state_ok s -> state_ok (fold_left run_items h s).
Proof. induction h; simpl; intros; auto. apply IHh. apply run_state_ok; auto. Qed.

Lemma lookup_mk s1 st nx r : lookup_type (mkT (t_types s1) st nx) r = lookup_type s1 r.
Proof. reflexivity. Qed.
Lemma complete_mk s1 t v nx id :
  is_complete (mkT (t_types s1) ((t, v) :: t_store s1) nx) id = if Nat.eqb t id then fst v else is_complete s1 id.
Proof. unfold is_complete. simpl. destruct (Nat.eqb t id); destruct v; reflexivity. Qed.
Lemma store_mk ty t v st nx id :
  lookup_store (t_store (mkT ty ((t, v) :: st) nx)) id = if Nat.eqb t id then Some v else lookup_store st id.
Proof. reflexivity. Qed.

Lemma resolve_lookup s refs r id : In r refs -> lookup_type s r = Some id -> lookup_type_in (resolve s refs) r = Some id.
Proof.
  intros HI HL. induction refs as [|x rest IH]; [destruct HI|].
  unfold resolve. simpl. fold (resolve s rest).
  destruct (str_eqb x r) eqn:X.
  - apply str_eqb_eq in X. subst x. rewrite HL. simpl. rewrite seqb_refl. reflexivity.
  - assert (In r rest) as HR.
    { destruct HI as [->|]; auto. rewrite seqb_refl in X. discriminate. }
    destruct (lookup_type s x); simpl; [rewrite X|]; apply IH; auto.
Qed.

Lemma itype_dec done r : declared done r \/ (forall rr, ~ In (IType r rr) done).
Proof.
  induction done as [|i done IH]; [right; intros rr []|].
  destruct IH as [[rr H]|H]; [left; exists rr; right; auto|].
  destruct i as [m|m rr].
  - right. intros rr [Q|Q]; [discriminate|]. apply (H rr Q).
  - destruct (str_eqb m r) eqn:X.
    + apply str_eqb_eq in X. subst m. left. exists rr. left. reflexivity.
    + right. intros rr' [Q|Q]; [inversion Q; subst; rewrite seqb_refl in X; discriminate|]. apply (H rr' Q).
Qed.

(* ---------- the invariant along one run ---------- *)
Section Run.
  Variable l : list item.

  Definition pending (done : list item) (s : tstate) : Prop :=
    forall r, mentions done r -> (forall rr, ~ In (IType r rr) done) ->
      exists id, lookup_type s r = Some id /\ is_complete s id = false.
  Definition linked (done : list item) (s : tstate) : Prop :=
    forall n refs, In (IType n refs) done ->
      exists t rs, lookup_type s n = Some t /\ lookup_store (t_store s) t = Some (true, rs) /\
        forall r, In r refs -> declared l r ->
          (r <> n -> mentions done r) /\ exists id, lookup_type_in rs r = Some id /\ lookup_type s r = Some id.
  Definition Inv (done : list item) (s : tstate) : Prop := state_ok s /\ pending done s /\ linked done s.

  Lemma mentions_app_l done i r : mentions done r -> mentions (done ++ [i]) r.
  Proof. intros [j [H1 H2]]. exists j. split; auto. apply in_or_app. auto. Qed.
  Lemma mentions_last done i r : mentions (done ++ [i]) r -> mentions done r \/ item_name i = r.
  Proof. intros [j [H1 H2]]. apply in_app_or in H1. destruct H1 as [H1|[->|[]]]; [left; exists j; auto|right; auto]. Qed.

  Lemma complete_stable s s1 id : (forall i, i < t_next s -> lookup_store (t_store s1) i = lookup_store (t_store s) i) ->
    id < t_next s -> is_complete s1 id = is_complete s id.
  Proof. intros H L. unfold is_complete. rewrite H; auto. Qed.

  Lemma inv_step done i s : Inv done s ->
    (forall m rr, In (IType m rr) done -> item_name i <> m) ->
    (forall n refs, i = IType n refs -> forall r, In r refs -> r <> n -> declared l r -> mentions done r) ->
    Inv (done ++ [i]) (step s i).
  Proof.
    intros [OK [P D]] W3 W1.
    assert (NT : forall rr, ~ In (IType (item_name i) rr) done).
    { intros rr Q. apply (W3 _ _ Q). reflexivity. }
    destruct i as [n|n refs]; simpl in *.
    - (* forward declaration *)
      destruct (decl_named s n) as [s1 t] eqn:E. simpl.
      destruct (decl_named_spec _ _ _ _ OK E) as [OK1 [Ln [Cn [Lo [St Nx]]]]].
      split; [exact OK1|split].
      + intros r M NTr. destruct (str_eqb r n) eqn:X.
        * apply str_eqb_eq in X. subst r. exists t. auto.
        * assert (r <> n) as Rn by (intros ->; rewrite seqb_refl in X; discriminate).
          apply mentions_last in M. destruct M as [M|M]; [|simpl in M; congruence].
          destruct (P r M) as [id [L C]].
          { intros rr Q. apply (NTr rr). apply in_or_app. auto. }
          exists id. rewrite Lo by auto. split; auto.
          rewrite (complete_stable s s1 id St); auto. destruct OK as [A _]. apply (A _ _ L).
      + intros m refs Q. apply in_app_or in Q. destruct Q as [Q|[Q|[]]]; [|discriminate].
        assert (m <> n) as Mn by (intros ->; apply (NT _ Q)).
        destruct (D _ _ Q) as [tm [rs [Lm [Sm R]]]].
        exists tm, rs. rewrite Lo by auto. split; auto. split.
        { rewrite St; auto. destruct OK as [A _]. apply (A _ _ Lm). }
        intros r Ir Dr. destruct (R r Ir Dr) as [Mr [id [X1 X2]]]. split.
        { intros Q2. apply mentions_app_l. auto. }
        exists id. split; auto. destruct (str_eqb r n) eqn:X.
        * apply str_eqb_eq in X. subst r.
          assert (mentions done n) as Mn2 by (apply Mr; auto).
          destruct (P n Mn2 NT) as [id2 [L2 C2]].
          rewrite (decl_named_reuse _ _ _ L2 C2) in E. inversion E. subst. auto.
        * rewrite Lo; auto. intros ->. rewrite seqb_refl in X. discriminate.
    - (* type declaration *)
      unfold decl_type. destruct (decl_named s n) as [s1 t] eqn:E.
      destruct (decl_named_spec _ _ _ _ OK E) as [OK1 [Ln [Cn [Lo [St Nx]]]]].
      assert (OK2 : state_ok (mkT (t_types s1) ((t, (true, resolve s1 refs)) :: t_store s1) (t_next s1))).
      { destruct OK1 as [A B]. split; [exact A|exact B]. }
      split; [exact OK2|split].
      + intros r M NTr.
        assert (r <> n) as Rn.
        { intros ->. apply (NTr refs). apply in_or_app. right. left. reflexivity. }
        apply mentions_last in M. destruct M as [M|M]; [|simpl in M; congruence].
        destruct (P r M) as [id [L C]].
        { intros rr Q. apply (NTr rr). apply in_or_app. auto. }
        exists id. rewrite lookup_mk, Lo by auto.
        split; auto. rewrite complete_mk.
        destruct (Nat.eqb t id) eqn:X.
        * apply Nat.eqb_eq in X. subst id. exfalso. apply Rn.
          destruct OK1 as [_ B]. apply (B r n t); auto. rewrite Lo; auto.
        * rewrite (complete_stable s s1 id St); auto. destruct OK as [A _]. apply (A r id L).
      + intros m refs' Q. apply in_app_or in Q. destruct Q as [Q|[Q|[]]].
        * (* an earlier type declaration *)
          assert (m <> n) as Mn by (intros ->; apply (NT _ Q)).
          destruct (D _ _ Q) as [tm [rs [Lm [Sm R]]]].
          exists tm, rs. rewrite lookup_mk, Lo by auto. split; auto. split.
          { rewrite store_mk. destruct (Nat.eqb t tm) eqn:X.
            - apply Nat.eqb_eq in X. subst tm. exfalso. apply Mn.
              destruct OK1 as [_ B]. apply (B m n t); auto. rewrite Lo; auto.
            - rewrite St; auto. destruct OK as [A _]. apply (A _ _ Lm). }
          intros r Ir Dr. destruct (R r Ir Dr) as [Mr [id [X1 X2]]]. split.
          { intros Q2. apply mentions_app_l. auto. }
          exists id. split; auto. rewrite lookup_mk. destruct (str_eqb r n) eqn:X.
          -- apply str_eqb_eq in X. subst r.
             assert (mentions done n) as Mn2 by (apply Mr; auto).
             destruct (P n Mn2 NT) as [id2 [L2 C2]].
             rewrite (decl_named_reuse _ _ _ L2 C2) in E. inversion E. subst. auto.
          -- rewrite Lo; auto. intros ->. rewrite seqb_refl in X. discriminate.
        * (* the declaration just compiled *)
          inversion Q. subst m refs'. clear Q.
          exists t, (resolve s1 refs). rewrite lookup_mk.
          split; auto. split; [rewrite store_mk, Nat.eqb_refl; reflexivity|].
          intros r Ir Dr. split.
          { intros Rn. apply mentions_app_l. apply (W1 n refs eq_refl r); auto. }
          assert (exists id, lookup_type s1 r = Some id) as [id L1].
          { destruct (str_eqb r n) eqn:X.
            - apply str_eqb_eq in X. subst r. exists t. auto.
            - assert (r <> n) as Rn by (intros ->; rewrite seqb_refl in X; discriminate).
              rewrite Lo by auto.
              assert (mentions done r) as Mr by (apply (W1 n refs eq_refl r); auto).
              destruct (itype_dec done r) as [[rr Q]|Q].
              + destruct (D _ _ Q) as [tr [_ [Lr _]]]. exists tr. auto.
              + destruct (P r Mr Q) as [idr [Lr _]]. exists idr. auto. }
          exists id. split; [apply resolve_lookup; auto|]. rewrite lookup_mk. exact L1.
  Qed.

  Lemma run_inv : wf_run l -> forall post done s, l = done ++ post -> Inv done s -> Inv l (run_items s post).
  Proof.
    intros WF. induction post as [|i post IH]; intros done s EQ I.
    - rewrite app_nil_r in EQ. subst. exact I.
    - simpl. apply (IH (done ++ [i])).
      + rewrite <- app_assoc. exact EQ.
      + apply inv_step; auto.
        * intros m rr Q EQn. apply in_split in Q. destruct Q as [p1 [p2 Q]]. subst done.
          rewrite <- app_assoc in EQ. simpl in EQ.
          destruct (WF _ _ _ _ EQ) as [_ NM]. apply NM. exists i. split; auto. apply in_or_app. right. left. reflexivity.
        * intros n refs -> r Ir Rn Dr. destruct (WF _ _ _ _ EQ) as [M _]. apply M; auto.
  Qed.
End Run.

Theorem links_current : forall s0 l, state_ok s0 -> wf_run l ->
  forall n refs r, In (IType n refs) l -> In r refs -> declared l r -> link_current (run_items s0 l) n r = true.
Proof.
  intros s0 l OK WF n refs r I1 I2 Dr.
  assert (Inv l l (run_items s0 l)) as [_ [_ D]].
  { apply (run_inv l WF l [] s0); auto. split; [exact OK|split].
    - intros x [j [[] _]].
    - intros x y []. }
  destruct (D _ _ I1) as [t [rs [Ln [St R]]]]. destruct (R r I2 Dr) as [_ [id [X1 X2]]].
  unfold link_current, link_of. rewrite Ln, St, X1, X2. apply Nat.eqb_refl.
Qed.

Theorem links_current_history : forall (hist : list (list item)) l, wf_run l ->
  forall n refs r, In (IType n refs) l -> In r refs -> declared l r ->
  link_current (run_items (fold_left run_items hist empty_state) l) n r = true.
Proof. intros. eapply links_current; eauto. apply hist_state_ok. apply state_ok_empty. Qed.

(* the step the seeded regression removes: a forward declaration of a name bound to a COMPLETE type makes a new type *)
Theorem fwd_rebinds_complete : forall s n id, lookup_type s n = Some id -> is_complete s id = true ->
  lookup_type (step s (IFwd n)) n = Some (t_next s) /\ is_complete (step s (IFwd n)) (t_next s) = false.
Proof.
  intros s n id L C. simpl. unfold decl_named. rewrite L, C. split; [apply fresh_lookup_same|apply fresh_incomplete].
Qed.

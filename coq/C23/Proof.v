(* C23 — lemmas: keyword lookups agree outside the extension words; one Scan of the fork equals one Scan of
   go1.23 under the guard; token streams in lockstep; refutation witnesses for the unguarded statement. *)
From Coq Require Import List ZArith NArith Bool String Ascii Lia.
From Verif Require Import Common.GoStr C23.Model.
Import ListNotations.
Open Scope Z_scope.

(* ---------------- keyword lookup ---------------- *)
Lemma lookup_fork_non_ext cases kw gv1 s :
  ext_word cases s = false -> lookup_fork cases kw gv1 s = lookup_std kw s.
Proof.
  induction cases as [| [[nv w] t] cs IH]; simpl; intro H; [reflexivity|].
  apply orb_false_iff in H. destruct H as [H1 H2]. simpl in H1. rewrite H1, andb_false_r. auto.
Qed.

Lemma lookup_std_not_keyword kw s : tab_find kw s = None -> lookup_std kw s = T_IDENT.
Proof. unfold lookup_std. intros ->. reflexivity. Qed.

Lemma ext_word_model s :
  s <> bytes_of "macro" -> s <> bytes_of "template" -> s <> bytes_of "#" -> ext_word model_fork_cases s = false.
Proof.
  intros H1 H2 H3. unfold ext_word, model_fork_cases. simpl.
  repeat match goal with
  | |- context [str_eqb ?a s] =>
      let E := fresh in destruct (str_eqb a s) eqn:E; [apply str_eqb_eq in E; subst s; exfalso; auto|]
  end. reflexivity.
Qed.

(* with generics V1 switched off (the default) "template" is an identifier for both *)
Lemma lookup_default_agree s :
  s <> bytes_of "macro" -> s <> bytes_of "#" ->
  lookup_fork model_fork_cases model_keywords false s = lookup_std model_keywords s.
Proof.
  intros H1 H3. unfold model_fork_cases. simpl.
  destruct (str_eqb _ s) eqn:E1. { apply str_eqb_eq in E1. subst s. exfalso; auto. }
  destruct (str_eqb [35%N] s) eqn:E3. { apply str_eqb_eq in E3. subst s. exfalso; auto. }
  reflexivity.
Qed.

(* ---------------- one Scan ---------------- *)
Lemma scan_eq (S : subs) (c : cfg) : forall fuel st,
  guard_scan S c fuel st = true -> scan_fork S c fuel st = scan_std S c fuel st.
Proof.
  induction fuel as [| f IH]; intros st G; [reflexivity|].
  destruct st as [r eof semi nl]. cbn [scan_fork scan_std guard_scan nlpos rest isemi eofoff] in *.
  destruct nl as [p|]; [discriminate|].
  destruct (skipws semi r) as [| [ch o] l'] eqn:El; [reflexivity|].
  destruct (is_letter S ch) eqn:Elet.
  { (* identifier: the two lookups agree outside the extension words *)
    cbv beta iota in G. apply negb_true_iff in G. unfold ident_branch.
    destruct (s_ident S _) as [[lit l2] e]. cbn [fst] in G.
    rewrite (lookup_fork_non_ext _ _ _ _ G). reflexivity. }
  destruct (is_decimal ch || (ch =? 46) && is_decimal (cur l')) eqn:Enum; [reflexivity|].
  destruct (ch =? 10) eqn:Enl; [reflexivity|].
  destruct (inner_shared S ch l') as [o'|] eqn:Ein; [reflexivity|].
  destruct (ch =? 47) eqn:E47.
  - (* '/' *)
    apply Z.eqb_eq in E47. subst ch. cbn [Z.eqb orb andb Pos.eqb] in *.
    destruct ((cur l' =? 47) || (cur l' =? 42)) eqn:Ecom.
    + (* comment: under the guard no semicolon is pending *)
      apply andb_true_iff in G. destruct G as [Gs G]. apply negb_true_iff in Gs. subst semi.
      assert (E33 : (cur l' =? 33) = false).
      { apply orb_true_iff in Ecom. destruct Ecom as [E|E]; apply Z.eqb_eq in E; rewrite E; reflexivity. }
      rewrite E33. cbn [andb].
      destruct (s_comment S _) as [[[lit l2] nlo] e].
      destruct (c_comments c).
      * unfold finish. cbn. destruct (c_noinsert c); reflexivity.
      * cbn [andb]. rewrite (IH _ G). reflexivity.
    + reflexivity.
  - cbn [orb].
    destruct (ch =? 35) eqn:E35.
    { cbn in G. discriminate. }
    cbn [orb] in G. apply negb_true_iff in G. apply orb_false_iff in G. destruct G as [G126 Gm].
    rewrite G126, Gm. reflexivity.
Qed.

(* ---------------- token streams ---------------- *)
Lemma lockstep (S : subs) (c : cfg) (fuel : nat) : forall n st,
  guard_run S c fuel n st = true ->
  tokens (scan_fork S c fuel) n st = tokens (scan_std S c fuel) n st.
Proof.
  induction n as [| n IH]; intros st G; [reflexivity|].
  cbn [guard_run tokens] in *. apply andb_true_iff in G. destruct G as [G1 G2].
  rewrite (scan_eq S c fuel st G1).
  destruct (scan_std S c fuel st) as [r|]; [|reflexivity].
  destruct (r_tok r =? T_EOF); [reflexivity|]. rewrite (IH _ G2). reflexivity.
Qed.

(* under the guard go1.23's nlPos mechanism is never armed *)
Lemma guard_no_nlpos (S : subs) (c : cfg) f st : guard_scan S c (Datatypes.S f) st = true -> nlpos st = None.
Proof. cbn [guard_scan]. destruct (nlpos st); [discriminate|reflexivity]. Qed.

(* findLineEnd: a line comment always ends the line; a general comment that runs to the end of input does too *)
Lemma findLineEnd_line_comment o l : findLineEnd ((47, o) :: l) = true.
Proof. reflexivity. Qed.

(* ---------------- witnesses ---------------- *)
Open Scope string_scope.
Definition nl1 : string := String (ascii_of_nat 10) "".
Definition w14 : string := "x /* a */" ++ nl1 ++ "y".     (* finding #14 *)
Definition w14b : string := "x // a" ++ nl1 ++ "y".
Definition wfinal : string := "x /* a */".                  (* comment that ends the input *)
Definition wok : string := "x; /* a */ y := 12+foo(""s"", 'c') ;// c" ++ nl1 ++ "if /* b */ z" ++ nl1 ++ "}" ++ nl1.
Close Scope string_scope.
Definition cfg_skip := mkCfg false false 126 false.
Definition cfg_comments := mkCfg true false 126 false.

Lemma refuted_skip :
  exists st, guard_run ex_subs cfg_skip 20 10 st = false /\
    tokens (scan_fork ex_subs cfg_skip 20) 10 st <> tokens (scan_std ex_subs cfg_skip 20) 10 st /\
    map (fun o => match o with OTok _ t l _ => Some (t, l) | OFuel => None end) (tokens (scan_fork ex_subs cfg_skip 20) 10 st) =
    map (fun o => match o with OTok _ t l _ => Some (t, l) | OFuel => None end) (tokens (scan_std ex_subs cfg_skip 20) 10 st).
Proof. exists (ex_state w14). vm_compute. repeat split; congruence. Qed.

Lemma refuted_comments :
  exists st,
    map (fun o => match o with OTok _ t _ _ => t | OFuel => -1 end) (tokens (scan_fork ex_subs cfg_comments 20) 10 st)
      = [T_IDENT; T_SEMICOLON; T_COMMENT; T_IDENT; T_SEMICOLON; T_EOF] /\
    map (fun o => match o with OTok _ t _ _ => t | OFuel => -1 end) (tokens (scan_std ex_subs cfg_comments 20) 10 st)
      = [T_IDENT; T_COMMENT; T_SEMICOLON; T_IDENT; T_SEMICOLON; T_EOF].
Proof. exists (ex_state w14). vm_compute. split; reflexivity. Qed.

(* C23 — executable model of the parts of the forked scanner (go/scanner/scanner.go Scanner.Scan, findLineEnd;
   go/etoken/token.go Lookup, LookupSpecial) that differ from go1.23's go/scanner, next to a model of the
   corresponding parts of go1.23's Scanner.Scan (nlPos logic).  Everything that is identical TEXT in both scanners
   (next, scanIdentifier*, scanNumber/scanMantissa/digits, scanString, scanRawString, scanRune, scanEscape,
   scanComment's text extraction, unicode letter classification) is NOT modelled: it enters through the record
   [subs], so every statement is made for every behaviour of those shared parts.  (* scanIdentifier differs
   textually - go1.23 has an ASCII fast path - see the reviewed differences in the generated obligations. *)
   Definitions only (no proofs). *)
From Coq Require Import List ZArith NArith Bool String Ascii.
From Verif Require Import Common.GoStr.
Import ListNotations.
Open Scope Z_scope.

(* ---------------- token numbers (go/token; etoken extension tokens start at 128) ---------------- *)
Definition T_ILLEGAL := 0. Definition T_EOF := 1. Definition T_COMMENT := 2.
Definition T_IDENT := 4. Definition T_INT := 5. Definition T_FLOAT := 6. Definition T_IMAG := 7.
Definition T_CHAR := 8. Definition T_STRING := 9.
Definition T_ADD := 12. Definition T_SUB := 13. Definition T_MUL := 14. Definition T_QUO := 15. Definition T_REM := 16.
Definition T_AND := 17. Definition T_OR := 18. Definition T_XOR := 19. Definition T_SHL := 20. Definition T_SHR := 21.
Definition T_AND_NOT := 22.
Definition T_ADD_ASSIGN := 23. Definition T_SUB_ASSIGN := 24. Definition T_MUL_ASSIGN := 25. Definition T_QUO_ASSIGN := 26.
Definition T_REM_ASSIGN := 27. Definition T_AND_ASSIGN := 28. Definition T_OR_ASSIGN := 29. Definition T_XOR_ASSIGN := 30.
Definition T_SHL_ASSIGN := 31. Definition T_SHR_ASSIGN := 32. Definition T_AND_NOT_ASSIGN := 33.
Definition T_LAND := 34. Definition T_LOR := 35. Definition T_ARROW := 36. Definition T_INC := 37. Definition T_DEC := 38.
Definition T_EQL := 39. Definition T_LSS := 40. Definition T_GTR := 41. Definition T_ASSIGN := 42. Definition T_NOT := 43.
Definition T_NEQ := 44. Definition T_LEQ := 45. Definition T_GEQ := 46. Definition T_DEFINE := 47. Definition T_ELLIPSIS := 48.
Definition T_LPAREN := 49. Definition T_LBRACK := 50. Definition T_LBRACE := 51. Definition T_COMMA := 52. Definition T_PERIOD := 53.
Definition T_RPAREN := 54. Definition T_RBRACK := 55. Definition T_RBRACE := 56. Definition T_SEMICOLON := 57. Definition T_COLON := 58.
Definition T_BREAK := 61. Definition T_CONTINUE := 65. Definition T_FALLTHROUGH := 69. Definition T_RETURN := 80.
Definition T_TILDE := 88.
Definition T_QUOTE := 128. Definition T_QUASIQUOTE := 129. Definition T_UNQUOTE := 130. Definition T_UNQUOTE_SPLICE := 131.
Definition T_MACRO := 132. Definition T_FUNCTION := 133. Definition T_LAMBDA := 134. Definition T_TYPECASE := 135.
Definition T_TEMPLATE := 136. Definition T_HASH := 137.

Open Scope string_scope.
(* names as in go/token / go/etoken; checked against the generated constant tables *)
Definition model_tokens : list (string * Z) :=
  [("ILLEGAL", T_ILLEGAL); ("EOF", T_EOF); ("COMMENT", T_COMMENT); ("IDENT", T_IDENT); ("INT", T_INT); ("FLOAT", T_FLOAT);
   ("IMAG", T_IMAG); ("CHAR", T_CHAR); ("STRING", T_STRING); ("ADD", T_ADD); ("SUB", T_SUB); ("MUL", T_MUL); ("QUO", T_QUO);
   ("REM", T_REM); ("AND", T_AND); ("OR", T_OR); ("XOR", T_XOR); ("SHL", T_SHL); ("SHR", T_SHR); ("AND_NOT", T_AND_NOT);
   ("ADD_ASSIGN", T_ADD_ASSIGN); ("SUB_ASSIGN", T_SUB_ASSIGN); ("MUL_ASSIGN", T_MUL_ASSIGN); ("QUO_ASSIGN", T_QUO_ASSIGN);
   ("REM_ASSIGN", T_REM_ASSIGN); ("AND_ASSIGN", T_AND_ASSIGN); ("OR_ASSIGN", T_OR_ASSIGN); ("XOR_ASSIGN", T_XOR_ASSIGN);
   ("SHL_ASSIGN", T_SHL_ASSIGN); ("SHR_ASSIGN", T_SHR_ASSIGN); ("AND_NOT_ASSIGN", T_AND_NOT_ASSIGN); ("LAND", T_LAND);
   ("LOR", T_LOR); ("ARROW", T_ARROW); ("INC", T_INC); ("DEC", T_DEC); ("EQL", T_EQL); ("LSS", T_LSS); ("GTR", T_GTR);
   ("ASSIGN", T_ASSIGN); ("NOT", T_NOT); ("NEQ", T_NEQ); ("LEQ", T_LEQ); ("GEQ", T_GEQ); ("DEFINE", T_DEFINE);
   ("ELLIPSIS", T_ELLIPSIS); ("LPAREN", T_LPAREN); ("LBRACK", T_LBRACK); ("LBRACE", T_LBRACE); ("COMMA", T_COMMA);
   ("PERIOD", T_PERIOD); ("RPAREN", T_RPAREN); ("RBRACK", T_RBRACK); ("RBRACE", T_RBRACE); ("SEMICOLON", T_SEMICOLON);
   ("COLON", T_COLON); ("BREAK", T_BREAK); ("CONTINUE", T_CONTINUE); ("FALLTHROUGH", T_FALLTHROUGH); ("RETURN", T_RETURN);
   ("TILDE", T_TILDE);
   ("QUOTE", T_QUOTE); ("QUASIQUOTE", T_QUASIQUOTE); ("UNQUOTE", T_UNQUOTE); ("UNQUOTE_SPLICE", T_UNQUOTE_SPLICE);
   ("MACRO", T_MACRO); ("FUNCTION", T_FUNCTION); ("LAMBDA", T_LAMBDA); ("TYPECASE", T_TYPECASE); ("TEMPLATE", T_TEMPLATE);
   ("HASH", T_HASH)].

Fixpoint bytes_of (s : string) : str :=
  match s with EmptyString => [] | String a s' => N_of_ascii a :: bytes_of s' end.

(* ---------------- keyword tables and lookup ---------------- *)
(* go/token keywords (the table is regenerated from $GOROOT/src/go/token/token.go on every run and compared) *)
Definition model_keywords_s : list (string * Z) :=
  [("break", 61); ("case", 62); ("chan", 63); ("const", 64); ("continue", 65); ("default", 66); ("defer", 67); ("else", 68);
   ("fallthrough", 69); ("for", 70); ("func", 71); ("go", 72); ("goto", 73); ("if", 74); ("import", 75); ("interface", 76);
   ("map", 77); ("package", 78); ("range", 79); ("return", 80); ("select", 81); ("struct", 82); ("switch", 83); ("type", 84);
   ("var", 85)].
(* etoken.Lookup: special cases in source order: (needs GENERICS_V1_CXX, word, token); then token.Lookup *)
Definition model_fork_cases_s : list (bool * string * Z) :=
  [(false, "macro", T_MACRO); (true, "template", T_TEMPLATE); (false, "#", T_HASH)].
(* etoken.LookupSpecial: keywords map (the names of the first eight entries of [tokens] without the leading '~') *)
Definition model_special_s : list (string * Z) :=
  [("quote", T_QUOTE); ("quasiquote", T_QUASIQUOTE); ("unquote", T_UNQUOTE); ("unquote_splice", T_UNQUOTE_SPLICE);
   ("macro", T_MACRO); ("func", T_FUNCTION); ("lambda", T_LAMBDA); ("typecase", T_TYPECASE)].
Close Scope string_scope.

Definition kwtab := list (str * Z).
Definition conv_tab (t : list (string * Z)) : kwtab := map (fun p => (bytes_of (fst p), snd p)) t.
Definition conv_cases (t : list (bool * string * Z)) : list (bool * str * Z) :=
  map (fun p => (fst (fst p), bytes_of (snd (fst p)), snd p)) t.
Definition model_keywords : kwtab := conv_tab model_keywords_s.
Definition model_fork_cases := conv_cases model_fork_cases_s.
Definition model_special : kwtab := conv_tab model_special_s.

Fixpoint tab_find (t : kwtab) (s : str) : option Z :=
  match t with
  | [] => None
  | (k, v) :: t' => if str_eqb k s then Some v else tab_find t' s
  end.

(* token.Lookup *)
Definition lookup_std (kw : kwtab) (s : str) : Z :=
  match tab_find kw s with Some t => t | None => T_IDENT end.

(* etoken.Lookup: if / else-if chain, then token.Lookup *)
Fixpoint lookup_fork (cases : list (bool * str * Z)) (kw : kwtab) (gv1 : bool) (s : str) : Z :=
  match cases with
  | [] => lookup_std kw s
  | (needv1, w, t) :: cs => if (implb needv1 gv1) && str_eqb w s then t else lookup_fork cs kw gv1 s
  end.

(* etoken.LookupSpecial: tok, _ := keywords[lit]  (zero value = ILLEGAL) *)
Definition lookup_special (sp : kwtab) (s : str) : Z :=
  match tab_find sp s with Some t => t | None => T_ILLEGAL end.

(* the words on which the two lookups are allowed to differ *)
Definition ext_word (cases : list (bool * str * Z)) (s : str) : bool :=
  existsb (fun c => str_eqb (snd (fst c)) s) cases.

(* ---------------- scanner state ---------------- *)
Definition chr := (Z * Z)%type.                 (* (rune as decoded by the shared [next], byte offset) *)
Record state := mkSt {
  rest : list chr;      (* head = s.ch / s.offset; [] = EOF (s.ch = -1, s.offset = len(src)) *)
  eofoff : Z;           (* len(src) *)
  isemi : bool;         (* s.insertSemi *)
  nlpos : option Z      (* go1.23 only: s.nlPos (None = NoPos); the fork has no such field and leaves it None *)
}.
Definition cur (l : list chr) : Z := match l with [] => -1 | (c, _) :: _ => c end.
Definition offs (l : list chr) (eof : Z) : Z := match l with [] => eof | (_, o) :: _ => o end.

Inductive mlit := LNone | LStr (s : str) | LChar (c : Z).   (* LChar c = string(ch) *)

Record cfg := mkCfg {
  c_comments : bool;    (* mode & ScanComments *)
  c_noinsert : bool;    (* mode & dontInsertSemis (testing only) *)
  c_macro : Z;          (* s.macroChar *)
  c_gv1 : bool          (* etoken.GENERICS == GENERICS_V1_CXX *)
}.

(* shared sub-scanners: argument = the characters from s.ch on, result = literal, the characters left, error reported.
   s_comment is called with s.ch = second character of the comment ('/' or '*'); its Z result is go1.23's nlOffset
   (offset of the first newline inside a general comment, 0 if none) which the fork's version does not compute. *)
Record subs := mkSubs {
  s_uniletter : Z -> bool;                                   (* ch >= 0x80 && unicode.IsLetter(ch) *)
  s_ident : list chr -> str * list chr * bool;               (* scanIdentifier *)
  s_number : list chr -> Z * str * list chr * bool;          (* scanNumber: token, literal *)
  s_string : list chr -> str * list chr * bool;              (* scanString, opening quote consumed *)
  s_rawstring : list chr -> str * list chr * bool;
  s_rune : list chr -> str * list chr * bool;
  s_comment : list chr -> str * list chr * Z * bool
}.

Record result := mkRes { r_pos : Z; r_tok : Z; r_lit : mlit; r_err : bool; r_st : state }.

Definition is_letter (S : subs) (ch : Z) : bool :=
  ((97 <=? ch) && (ch <=? 122)) || ((65 <=? ch) && (ch <=? 90)) || (ch =? 95) || ((128 <=? ch) && s_uniletter S ch).
Definition is_decimal (ch : Z) : bool := (48 <=? ch) && (ch <=? 57).

(* skipWhitespace *)
Fixpoint skipws (semi : bool) (l : list chr) : list chr :=
  match l with
  | (c, _) :: l' => if (c =? 32) || (c =? 9) || ((c =? 10) && negb semi) || (c =? 13) then skipws semi l' else l
  | [] => []
  end.

Definition switch2 (l : list chr) (t0 t1 : Z) : Z * list chr :=
  if cur l =? 61 then (t1, tl l) else (t0, l).
Definition switch3 (l : list chr) (t0 t1 : Z) (ch2 : Z) (t2 : Z) : Z * list chr :=
  if cur l =? 61 then (t1, tl l) else if cur l =? ch2 then (t2, tl l) else (t0, l).
Definition switch4 (l : list chr) (t0 t1 : Z) (ch2 : Z) (t2 t3 : Z) : Z * list chr :=
  if cur l =? 61 then (t1, tl l)
  else if cur l =? ch2 then (if cur (tl l) =? 61 then (t3, tl (tl l)) else (t2, tl l))
  else (t0, l).

(* one dispatch outcome: token, literal, new insertSemi, characters left, error *)
Definition outc := (Z * mlit * bool * list chr * bool)%type.

(* the case clauses of the inner switch that are identical text in both scanners
   (dquote '\'' '`' ':' '.' ',' ';' '(' ')' '[' ']' '{' '}' '+' '-' '*' '%' '^' '<' '>' '=' '!' '&' '|');
   l = characters after s.next().  None = not one of these characters. *)
Definition inner_shared (S : subs) (ch : Z) (l : list chr) : option outc :=
  let op (p : Z * list chr) (semi : bool) : option outc := Some (fst p, LNone, semi, snd p, false) in
  if ch =? 34 then let '(lit, l', e) := s_string S l in Some (T_STRING, LStr lit, true, l', e)
  else if ch =? 39 then let '(lit, l', e) := s_rune S l in Some (T_CHAR, LStr lit, true, l', e)
  else if ch =? 96 then let '(lit, l', e) := s_rawstring S l in Some (T_STRING, LStr lit, true, l', e)
  else if ch =? 58 then op (switch2 l T_COLON T_DEFINE) false
  else if ch =? 46 then
    (if (cur l =? 46) && (cur (tl l) =? 46) then op (T_ELLIPSIS, tl (tl l)) false else op (T_PERIOD, l) false)
  else if ch =? 44 then op (T_COMMA, l) false
  else if ch =? 59 then Some (T_SEMICOLON, LStr [59%N], false, l, false)
  else if ch =? 40 then op (T_LPAREN, l) false
  else if ch =? 41 then op (T_RPAREN, l) true
  else if ch =? 91 then op (T_LBRACK, l) false
  else if ch =? 93 then op (T_RBRACK, l) true
  else if ch =? 123 then op (T_LBRACE, l) false
  else if ch =? 125 then op (T_RBRACE, l) true
  else if ch =? 43 then let p := switch3 l T_ADD T_ADD_ASSIGN 43 T_INC in op p (fst p =? T_INC)
  else if ch =? 45 then let p := switch3 l T_SUB T_SUB_ASSIGN 45 T_DEC in op p (fst p =? T_DEC)
  else if ch =? 42 then op (switch2 l T_MUL T_MUL_ASSIGN) false
  else if ch =? 37 then op (switch2 l T_REM T_REM_ASSIGN) false
  else if ch =? 94 then op (switch2 l T_XOR T_XOR_ASSIGN) false
  else if ch =? 60 then
    (if cur l =? 45 then op (T_ARROW, tl l) false else op (switch4 l T_LSS T_LEQ 60 T_SHL T_SHL_ASSIGN) false)
  else if ch =? 62 then op (switch4 l T_GTR T_GEQ 62 T_SHR T_SHR_ASSIGN) false
  else if ch =? 61 then op (switch2 l T_ASSIGN T_EQL) false
  else if ch =? 33 then op (switch2 l T_NOT T_NEQ) false
  else if ch =? 38 then
    (if cur l =? 94 then op (switch2 (tl l) T_AND_NOT T_AND_NOT_ASSIGN) false
     else op (switch3 l T_AND T_AND_ASSIGN 38 T_LAND) false)
  else if ch =? 124 then op (switch3 l T_OR T_OR_ASSIGN 124 T_LOR) false
  else None.

(* default clause of the inner switch: ILLEGAL, error unless the character is a BOM (reported by next already),
   insertSemi preserved *)
Definition illegal (ch : Z) (l : list chr) (semi : bool) : outc :=
  (T_ILLEGAL, LChar ch, semi, l, negb (ch =? 65279)).

(* identifier branch, parametric in the keyword lookup *)
Definition ident_branch (S : subs) (lookup : str -> Z) (l : list chr) : outc :=
  let '(lit, l', e) := s_ident S l in
  if (1 <? Z.of_nat (List.length lit)) then
    let tok := lookup lit in
    (tok, LStr lit,
     (tok =? T_IDENT) || (tok =? T_BREAK) || (tok =? T_CONTINUE) || (tok =? T_FALLTHROUGH) || (tok =? T_RETURN), l', e)
  else (T_IDENT, LStr lit, true, l', e).

Definition number_branch (S : subs) (l : list chr) : outc :=
  let '(tok, lit, l', e) := s_number S l in (tok, LStr lit, true, l', e).

(* end of Scan: if s.mode&dontInsertSemis == 0 { s.insertSemi = insertSemi } *)
Definition finish (c : cfg) (st : state) (pos : Z) (o : outc) : result :=
  let '(tok, lit, semi, l, e) := o in
  mkRes pos tok lit e (mkSt l (eofoff st) (if c_noinsert c then isemi st else semi) (nlpos st)).

(* ---------------- fork only: findLineEnd (look-ahead over comments; s.insertSemi is set) ---------------- *)
Inductive fle_mode := FLE_head | FLE_in | FLE_ws.
(* FLE_head: at `for s.ch == '/' || s.ch == '*'`;  FLE_in: inside a general comment;  FLE_ws: after it, skipping blanks *)
Fixpoint fle (m : fle_mode) (l : list chr) {struct l} : bool :=
  match l with
  | [] => match m with FLE_head => false | _ => true end
  | (c, _) :: l' =>
    match m with
    | FLE_head => if c =? 47 then true else if c =? 42 then fle FLE_in l' else false
    | FLE_in =>
        if c =? 10 then true
        else if c =? 42 then
          match l' with
          | (47, _) :: l'' => fle FLE_ws l''
          | _ => fle FLE_in l'
          end
        else fle FLE_in l'
    | FLE_ws =>
        if (c =? 32) || (c =? 9) || (c =? 13) then fle FLE_ws l'
        else if c =? 10 then true
        else if c =? 47 then fle FLE_head l'
        else false
    end
  end.
Definition findLineEnd (l : list chr) : bool := fle FLE_head l.

(* fork: macro character clause; l = characters after s.next() *)
Definition macro_branch (S : subs) (sp : kwtab) (l : list chr) (semi : bool) : outc :=
  if cur l =? 39 then (T_QUOTE, LNone, false, tl l, false)
  else if (cur l =? 96) || (cur l =? 34) then (T_QUASIQUOTE, LNone, false, tl l, false)
  else if cur l =? 44 then
    (if cur (tl l) =? 64 then (T_UNQUOTE_SPLICE, LNone, false, tl (tl l), false) else (T_UNQUOTE, LNone, false, tl l, false))
  else
    let '(lit, l', e) := s_ident S l in
    let tok := lookup_special sp lit in
    if tok =? T_ILLEGAL then (tok, LStr lit, semi, l', true) else (tok, LStr lit, false, l', e).

(* ---------------- the forked Scan ---------------- *)
(* fuel bounds the `goto scanAgain` iterations (one per skipped comment); None = fuel exhausted *)
Fixpoint scan_fork (S : subs) (c : cfg) (fuel : nat) (st : state) : option result :=
  match fuel with
  | O => None
  | Datatypes.S f =>
    let l := skipws (isemi st) (rest st) in
    let pos := offs l (eofoff st) in
    match l with
    | [] =>
        if isemi st then Some (mkRes pos T_SEMICOLON (LStr [10%N]) false (mkSt [] (eofoff st) false (nlpos st)))
        else Some (finish c st pos (T_EOF, LNone, false, [], false))
    | (ch, _) :: l' =>
        if is_letter S ch then
          Some (finish c st pos (ident_branch S (lookup_fork model_fork_cases model_keywords (c_gv1 c)) l))
        else if is_decimal ch || ((ch =? 46) && is_decimal (cur l')) then Some (finish c st pos (number_branch S l))
        else if ch =? 10 then Some (mkRes pos T_SEMICOLON (LStr [10%N]) false (mkSt l' (eofoff st) false (nlpos st)))
        else
          match inner_shared S ch l' with
          | Some o => Some (finish c st pos o)
          | None =>
            if (ch =? 47) || (ch =? 35) then
              if ((ch =? 47) && ((cur l' =? 47) || (cur l' =? 42))) || ((ch =? 35) && (cur l' =? 33)) then
                (* comment; for hashbang the current character is overwritten with '/' *)
                let lc := if cur l' =? 33 then (47, offs l' (eofoff st)) :: tl l' else l' in
                if isemi st && findLineEnd lc then
                  (* semicolon at the START of the comment; the scanner is reset to the comment start with ch = '/' *)
                  Some (mkRes pos T_SEMICOLON (LStr [10%N]) false (mkSt ((47, pos) :: l') (eofoff st) false (nlpos st)))
                else
                  let '(lit, l2, _, e) := s_comment S lc in
                  if c_comments c then Some (finish c st pos (T_COMMENT, LStr lit, false, l2, e))
                  else
                    match scan_fork S c f (mkSt l2 (eofoff st) false (nlpos st)) with
                    | Some r => Some (mkRes (r_pos r) (r_tok r) (r_lit r) (e || r_err r) (r_st r))
                    | None => None
                    end
              else if ch =? 47 then
                let p := switch2 l' T_QUO T_QUO_ASSIGN in Some (finish c st pos (fst p, LNone, false, snd p, false))
              else Some (finish c st pos (T_HASH, LNone, false, l', false))
            else if ch =? c_macro c then Some (finish c st pos (macro_branch S model_special l' (isemi st)))
            else Some (finish c st pos (illegal ch l' (isemi st)))
          end
    end
  end.

(* ---------------- go1.23's Scan ---------------- *)
Fixpoint scan_std (S : subs) (c : cfg) (fuel : nat) (st : state) : option result :=
  match fuel with
  | O => None
  | Datatypes.S f =>
    match nlpos st with
    | Some p => Some (mkRes p T_SEMICOLON (LStr [10%N]) false (mkSt (rest st) (eofoff st) (isemi st) None))
    | None =>
    let l := skipws (isemi st) (rest st) in
    let pos := offs l (eofoff st) in
    match l with
    | [] =>
        if isemi st then Some (mkRes pos T_SEMICOLON (LStr [10%N]) false (mkSt [] (eofoff st) false (nlpos st)))
        else Some (finish c st pos (T_EOF, LNone, false, [], false))
    | (ch, _) :: l' =>
        if is_letter S ch then Some (finish c st pos (ident_branch S (lookup_std model_keywords) l))
        else if is_decimal ch || ((ch =? 46) && is_decimal (cur l')) then Some (finish c st pos (number_branch S l))
        else if ch =? 10 then Some (mkRes pos T_SEMICOLON (LStr [10%N]) false (mkSt l' (eofoff st) false (nlpos st)))
        else
          match inner_shared S ch l' with
          | Some o => Some (finish c st pos o)
          | None =>
            if ch =? 47 then
              if (cur l' =? 47) || (cur l' =? 42) then
                let '(lit, l2, nl, e) := s_comment S l' in
                let pend := isemi st && negb (nl =? 0) in
                (* pend: artificial ';' after the comment at the first newline inside it, insertSemi cleared;
                   otherwise insertSemi is preserved *)
                let st2 := mkSt l2 (eofoff st) (if pend then false else isemi st) (if pend then Some nl else None) in
                (* with ScanComments the local insertSemi equals the preserved s.insertSemi, so the final assignment
                   (skipped under dontInsertSemis) changes nothing: the state is st2 either way *)
                if c_comments c then Some (mkRes pos T_COMMENT (LStr lit) e st2)
                else
                  match scan_std S c f st2 with
                  | Some r => Some (mkRes (r_pos r) (r_tok r) (r_lit r) (e || r_err r) (r_st r))
                  | None => None
                  end
              else let p := switch2 l' T_QUO T_QUO_ASSIGN in Some (finish c st pos (fst p, LNone, false, snd p, false))
            else if ch =? 126 then Some (finish c st pos (T_TILDE, LNone, false, l', false))
            else Some (finish c st pos (illegal ch l' (isemi st)))
          end
    end
    end
  end.

(* ---------------- token streams ---------------- *)
Inductive out := OTok (pos tok : Z) (lit : mlit) (err : bool) | OFuel.

Fixpoint tokens (scan : state -> option result) (n : nat) (st : state) : list out :=
  match n with
  | O => []
  | Datatypes.S n' =>
    match scan st with
    | None => [OFuel]
    | Some r => OTok (r_pos r) (r_tok r) (r_lit r) (r_err r) :: (if r_tok r =? T_EOF then [] else tokens scan n' (r_st r))
    end
  end.

Definition init_state (l : list chr) (eof : Z) : state := mkSt l eof false None.

(* ---------------- premise of the lockstep theorem, evaluated along go1.23's run ---------------- *)
(* One Scan of go1.23 (including the comments it skips) never dispatches on the macro character, '#' or '~', never
   looks up an extension word, and never meets a comment while a semicolon is pending (the class of finding #14). *)
Fixpoint guard_scan (S : subs) (c : cfg) (fuel : nat) (st : state) : bool :=
  match fuel with
  | O => true
  | Datatypes.S f =>
    match nlpos st with
    | Some _ => false
    | None =>
    let l := skipws (isemi st) (rest st) in
    match l with
    | [] => true
    | (ch, _) :: l' =>
        if is_letter S ch then
          negb (ext_word model_fork_cases (fst (fst (s_ident S l))))
        else if is_decimal ch || ((ch =? 46) && is_decimal (cur l')) then true
        else if ch =? 10 then true
        else
          match inner_shared S ch l' with
          | Some _ => true
          | None =>
            if ch =? 47 then
              if (cur l' =? 47) || (cur l' =? 42) then
                negb (isemi st) &&
                (if c_comments c then true
                 else let '(_, l2, _, _) := s_comment S l' in guard_scan S c f (mkSt l2 (eofoff st) false None))
              else true
            else negb ((ch =? 35) || (ch =? 126) || (ch =? c_macro c))
          end
    end
    end
  end.

Fixpoint guard_run (S : subs) (c : cfg) (fuel : nat) (n : nat) (st : state) : bool :=
  match n with
  | O => true
  | Datatypes.S n' =>
    guard_scan S c fuel st &&
    match scan_std S c fuel st with
    | None => true
    | Some r => if r_tok r =? T_EOF then true else guard_run S c fuel n' (r_st r)
    end
  end.

(* ---------------- concrete sub-scanners for the examples (ASCII identifiers, decimal integers, comments) ------------- *)
Fixpoint ex_take (p : Z -> bool) (l : list chr) : str * list chr :=
  match l with
  | (c, o) :: l' => if p c then let '(s, r) := ex_take p l' in (Z.to_N c :: s, r) else ([], l)
  | [] => ([], [])
  end.
Definition ex_alnum (c : Z) : bool :=
  ((97 <=? c) && (c <=? 122)) || ((65 <=? c) && (c <=? 90)) || (c =? 95) || is_decimal c.
(* comment body: l starts at the second character; returns text (with the leading '/'), rest, nlOffset *)
Fixpoint ex_line (l : list chr) : str * list chr :=
  match l with
  | (c, o) :: l' => if c =? 10 then ([], l) else let '(s, r) := ex_line l' in (Z.to_N c :: s, r)
  | [] => ([], [])
  end.
Fixpoint ex_general (l : list chr) (nl : Z) : str * list chr * Z * bool :=
  match l with
  | (c, o) :: l' =>
      match l' with
      | (47, _) :: l'' => if c =? 42 then ([42%N; 47%N], l'', nl, false)
                          else let '(s, r, n, e) := ex_general l' (if (c =? 10) && (nl =? 0) then o else nl) in (Z.to_N c :: s, r, n, e)
      | _ => let '(s, r, n, e) := ex_general l' (if (c =? 10) && (nl =? 0) then o else nl) in (Z.to_N c :: s, r, n, e)
      end
  | [] => ([], [], nl, true)   (* comment not terminated *)
  end.
Definition ex_comment (l : list chr) : str * list chr * Z * bool :=
  match l with
  | (47, _) :: l' => let '(s, r) := ex_line l' in (47%N :: 47%N :: s, r, 0, false)
  | (42, _) :: l' => let '(s, r, n, e) := ex_general l' 0 in (47%N :: 42%N :: s, r, n, e)
  | _ => ([], l, 0, true)
  end.
Definition ex_quoted (q : Z) (l : list chr) : str * list chr * bool :=
  let '(s, r) := ex_take (fun c => negb (c =? q) && negb (c =? 10)) l in
  match r with
  | (c, _) :: r' => if c =? q then (Z.to_N q :: s ++ [Z.to_N q], r', false) else (Z.to_N q :: s, r, true)
  | [] => (Z.to_N q :: s, [], true)
  end.
Definition ex_subs : subs :=
  mkSubs (fun _ => false)
         (fun l => let '(s, r) := ex_take ex_alnum l in (s, r, false))
         (fun l => let '(s, r) := ex_take is_decimal l in (T_INT, s, r, false))
         (ex_quoted 34) (ex_quoted 96) (ex_quoted 39) ex_comment.

Fixpoint chars_of (s : str) (o : Z) : list chr :=
  match s with [] => [] | b :: s' => (Z.of_N b, o) :: chars_of s' (o + 1) end.
Definition ex_state (s : string) : state := init_state (chars_of (bytes_of s) 0) (Z.of_nat (String.length s)).

(* ---------------- correspondence: sub-scanner results observed on the fork, supplied as a table ---------------- *)
Record subres := mkSub { sr_key : Z; sr_tok : Z; sr_lit : str; sr_end : Z; sr_nl : Z }.
Fixpoint seek (e : Z) (l : list chr) : list chr :=
  match l with (c, o) :: l' => if o <? e then seek e l' else l | [] => [] end.
Fixpoint sub_find (t : list subres) (k : Z) : option subres :=
  match t with [] => None | r :: t' => if sr_key r =? k then Some r else sub_find t' k end.
Definition oracle_subs (t : list subres) (eof : Z) (letters : list Z) : subs :=
  let get3 (l : list chr) : str * list chr * bool :=
    match sub_find t (offs l eof) with Some r => (sr_lit r, seek (sr_end r) l, false) | None => ([], l, false) end in
  mkSubs (fun c => existsb (Z.eqb c) letters) get3
    (fun l => match sub_find t (offs l eof) with Some r => (sr_tok r, sr_lit r, seek (sr_end r) l, false) | None => (T_ILLEGAL, [], l, false) end)
    get3 get3 get3
    (fun l => match sub_find t (offs l eof) with Some r => (sr_lit r, seek (sr_end r) l, sr_nl r, false) | None => ([], l, 0, false) end).

Record case := mkCase {
  c_idx : Z;
  c_cfg : cfg;
  c_chars : list chr;       (* after Init (a leading BOM is skipped there) *)
  c_eof : Z;
  c_letters : list Z;       (* the non-ASCII letters occurring in the input *)
  c_subs : list subres;
  c_toks : list (Z * Z * mlit * bool)   (* observed on the fork: offset, token, literal, error reported during this Scan *)
}.

Definition mlit_eqb (a b : mlit) : bool :=
  match a, b with
  | LNone, LNone => true
  | LNone, LStr [] | LStr [], LNone => true
  | LStr x, LStr y => str_eqb x y
  | LChar x, LChar y => x =? y
  | _, _ => false
  end.

Fixpoint outs_match (m : list out) (o : list (Z * Z * mlit * bool)) : bool :=
  match m, o with
  | [], [] => true
  | OTok p t l e :: m', (p', t', l', e') :: o' =>
      (p =? p') && (t =? t') && mlit_eqb l l' && (implb e e') && outs_match m' o'
  | _, _ => false
  end.

Definition case_ok (c : case) : bool :=
  let S := oracle_subs (c_subs c) (c_eof c) (c_letters c) in
  let n := Datatypes.S (Datatypes.S (List.length (c_toks c))) in
  outs_match (tokens (scan_fork S (c_cfg c) (Datatypes.S (Datatypes.S (List.length (c_chars c))))) n (init_state (c_chars c) (c_eof c)))
             (c_toks c).

Definition mismatches (cs : list case) : list Z :=
  map c_idx (filter (fun c => negb (case_ok c)) cs).

(* C23 — property theorems only: each closed by [exact lemma], followed by Print Assumptions.
   PARTIAL: the sub-scanners shared by the fork and go1.23 (next, scanIdentifier, scanNumber/scanMantissa/digits,
   scanString, scanRawString, scanRune, scanEscape, the text extraction of scanComment, unicode.IsLetter) are a
   universally quantified record [S : subs]; that they are the same TEXT in both scanners is the generated obligation
   C23_shared_functions_identical (build/C23/Gen23*.v, regenerated from both sources on every run); their behaviour is
   not re-verified.  Line/column numbers (the line table filled by the shared [next]) and the errors raised by
   [next] itself are outside the model: positions are byte offsets. *)
From Coq Require Import List ZArith NArith Bool String.
From Verif Require Import Common.GoStr C23.Model C23.Proof.
Import ListNotations.
Open Scope Z_scope.

(* Lockstep.  For every behaviour S of the shared sub-scanners, every mode c (comments skipped or returned, any macro
   character, generics V1 on or off), every start state: if go1.23's scanner, on its own run of n tokens, never
   dispatches on the macro character, '#' or '~', never looks up an extension word (macro; template under generics V1;
   '#'), and never meets a comment while an automatic semicolon is pending (the class of finding #14), then the fork
   produces the same sequence of (offset, token, literal, error flag) - token by token, up to and including EOF.
   [fuel] bounds the comments skipped inside one Scan; the same bound is given to both, an exhausted bound shows as
   the explicit element OFuel in both streams. *)
Theorem C23_lockstep_partial : forall (S : subs) (c : cfg) (fuel n : nat) (st : state),
  guard_run S c fuel n st = true ->
  tokens (scan_fork S c fuel) n st = tokens (scan_std S c fuel) n st.
Proof. exact lockstep. Qed.
Print Assumptions C23_lockstep_partial.

(* one call of Scan, same premise: same position, token, literal, error flag and same successor state *)
Theorem C23_scan_step_partial : forall (S : subs) (c : cfg) (fuel : nat) (st : state),
  guard_scan S c fuel st = true -> scan_fork S c fuel st = scan_std S c fuel st.
Proof. exact scan_eq. Qed.
Print Assumptions C23_scan_step_partial.

(* keyword lookup: etoken.Lookup = token.Lookup on every word outside the extension words, for any tables *)
Theorem C23_keyword_tables_agree : forall cases kw gv1 s,
  ext_word cases s = false -> lookup_fork cases kw gv1 s = lookup_std kw s.
Proof. exact lookup_fork_non_ext. Qed.
Print Assumptions C23_keyword_tables_agree.

(* ... instantiated on the model's tables (compared with the regenerated ones in build/C23/Gen23c_Props.v);
   with generics V1 off (gomacro's default) only macro and '#' are special *)
Theorem C23_keyword_tables_agree_default : forall s,
  s <> bytes_of "macro" -> s <> bytes_of "#" ->
  lookup_fork model_fork_cases model_keywords false s = lookup_std model_keywords s.
Proof. exact lookup_default_agree. Qed.
Print Assumptions C23_keyword_tables_agree_default.

Theorem C23_ext_words_are_macro_template_hash : forall s,
  s <> bytes_of "macro" -> s <> bytes_of "template" -> s <> bytes_of "#" -> ext_word model_fork_cases s = false.
Proof. exact ext_word_model. Qed.
Print Assumptions C23_ext_words_are_macro_template_hash.

(* a word in neither table is an identifier for both *)
Theorem C23_non_keyword_is_ident : forall kw s, tab_find kw s = None -> lookup_std kw s = T_IDENT.
Proof. exact lookup_std_not_keyword. Qed.
Print Assumptions C23_non_keyword_is_ident.

(* the premise about pending semicolons cannot be dropped on the current code (finding #14): on  x /* a */ NL y  with
   comments skipped the two streams carry the same tokens and literals but differ (the position of the automatic
   semicolon: offset 2 in the fork, 9 in go1.23) *)
Theorem C23_semicolon_position_refuted :
  exists st, guard_run ex_subs cfg_skip 20 10 st = false /\
    tokens (scan_fork ex_subs cfg_skip 20) 10 st <> tokens (scan_std ex_subs cfg_skip 20) 10 st /\
    map (fun o => match o with OTok _ t l _ => Some (t, l) | OFuel => None end) (tokens (scan_fork ex_subs cfg_skip 20) 10 st) =
    map (fun o => match o with OTok _ t l _ => Some (t, l) | OFuel => None end) (tokens (scan_std ex_subs cfg_skip 20) 10 st).
Proof. exact refuted_skip. Qed.
Print Assumptions C23_semicolon_position_refuted.

(* ... and with ScanComments the ORDER differs: fork  x ; COMMENT y ; EOF,  go1.23  x COMMENT ; y ; EOF *)
Theorem C23_comment_order_refuted :
  exists st,
    map (fun o => match o with OTok _ t _ _ => t | OFuel => -1 end) (tokens (scan_fork ex_subs cfg_comments 20) 10 st)
      = [T_IDENT; T_SEMICOLON; T_COMMENT; T_IDENT; T_SEMICOLON; T_EOF] /\
    map (fun o => match o with OTok _ t _ _ => t | OFuel => -1 end) (tokens (scan_std ex_subs cfg_comments 20) 10 st)
      = [T_IDENT; T_COMMENT; T_SEMICOLON; T_IDENT; T_SEMICOLON; T_EOF].
Proof. exact refuted_comments. Qed.
Print Assumptions C23_comment_order_refuted.

(* ---------------- non-vacuity ---------------- *)
(* the guard holds on a 19-token input with comments (after an explicit ';' and after the keyword if), strings,
   numbers, automatic semicolons; 74 = token.IF *)
Example C23_ex_guard_holds : guard_run ex_subs cfg_skip 20 40 (ex_state wok) = true /\ guard_run ex_subs cfg_comments 20 40 (ex_state wok) = true.
Proof. vm_compute. split; reflexivity. Qed.
Example C23_ex_stream : map (fun o => match o with OTok p t _ _ => (p, t) | OFuel => (-1, -1) end) (tokens (scan_fork ex_subs cfg_skip 20) 40 (ex_state wok))
  = [(0, T_IDENT); (1, T_SEMICOLON); (11, T_IDENT); (13, T_DEFINE); (16, T_INT); (18, T_ADD); (19, T_IDENT); (22, T_LPAREN); (23, T_STRING);
     (26, T_COMMA); (28, T_CHAR); (31, T_RPAREN); (33, T_SEMICOLON); (39, 74); (50, T_IDENT); (51, T_SEMICOLON); (52, T_RBRACE); (53, T_SEMICOLON); (54, T_EOF)].
Proof. vm_compute. reflexivity. Qed.
(* the allowance of the property: comments skipped, the comment ends the input: only the semicolon's position differs *)
Example C23_ex_final_comment :
  tokens (scan_fork ex_subs cfg_skip 20) 10 (ex_state wfinal) = [OTok 0 T_IDENT (LStr [120%N]) false; OTok 2 T_SEMICOLON (LStr [10%N]) false; OTok 9 T_EOF LNone false] /\
  tokens (scan_std ex_subs cfg_skip 20) 10 (ex_state wfinal) = [OTok 0 T_IDENT (LStr [120%N]) false; OTok 9 T_SEMICOLON (LStr [10%N]) false; OTok 9 T_EOF LNone false].
Proof. vm_compute. split; reflexivity. Qed.
(* extension dispatch of the fork (outside the property, but modelled): ~quote, ~' , macro, #, and go1.23's view *)
Example C23_ex_extensions :
  map (fun o => match o with OTok _ t _ _ => t | OFuel => -1 end) (tokens (scan_fork ex_subs cfg_skip 20) 20 (ex_state "~quote ~'x ~,@y macro # ~z"))
   = [T_QUOTE; T_QUOTE; T_IDENT; T_UNQUOTE_SPLICE; T_IDENT; T_MACRO; T_HASH; T_ILLEGAL; T_EOF] /\
  map (fun o => match o with OTok _ t _ _ => t | OFuel => -1 end) (tokens (scan_std ex_subs cfg_skip 20) 20 (ex_state "~ macro #"))
   = [T_TILDE; T_IDENT; T_ILLEGAL; T_SEMICOLON; T_EOF].
Proof. vm_compute. split; reflexivity. Qed.

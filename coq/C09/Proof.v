(* C09 — specification (the unfolded embedding tree of the Go spec) and proofs about the breadth-first searches *)
From Coq Require Import List NArith ZArith Bool Arith Lia.
From Verif Require Import C09.Model.
Import ListNotations.

(* ================= the Go rule, written on the unfolded embedding tree =================
   Go spec, "Selectors": the depth of a field or method f declared in T is zero; the depth of f declared in an
   embedded field A of T is the depth of f in A plus one.  x.f denotes the field or method at the shallowest
   depth; there must be exactly one at that depth.  [level n root] lists, in declaration order, every embedded
   field reached from [root] through n embedding steps (no pruning, duplicates kept), with its index path. *)
Section Spec.
Variable e : env.
Variable q : N.

Definition kids (x : entry) : list entry :=
  match fields_of e (fst x) with Some fs => emb_entries (snd x) fs 0%Z | None => [] end.

Fixpoint level (n : nat) (root : nat) : list entry :=
  match n with O => [(root, [])] | S k => flat_map kids (level k root) end.

(* fields named q declared directly in a struct: their index paths *)
Fixpoint field_hits (p : path) (fs : list field) (i : Z) : list path :=
  match fs with
  | [] => []
  | f :: fs' => if match_field e q f then (p ++ [i]) :: field_hits p fs' (i + 1)%Z else field_hits p fs' (i + 1)%Z
  end.
Definition fm (x : entry) : list path :=
  match fields_of e (fst x) with Some fs => field_hits (snd x) fs 0%Z | None => [] end.
Definition occ_f (n root : nat) : list path := flat_map fm (level n root).

(* methods named q declared on a type: (path of the embedded field, method index) *)
Fixpoint meth_hits (ms : list (N * bool)) (i : Z) : list Z :=
  match ms with
  | [] => []
  | (n, _) :: ms' => if N.eqb q n then i :: meth_hits ms' (i + 1)%Z else meth_hits ms' (i + 1)%Z
  end.
Definition mm (x : entry) : list (path * Z) := map (fun i => (snd x, i)) (meth_hits (methods_of e (fst x)) 0%Z).
Definition occ_m (n root : nat) : list (path * Z) := flat_map mm (level n root).

(* ---------- types-only view of the levels ---------- *)
Definition emb_types (fs : list field) : list nat :=
  flat_map (fun f => match emb_target f with Some t => [t] | None => [] end) fs.
Definition tkids (t : nat) : list nat := match fields_of e t with Some fs => emb_types fs | None => [] end.
Fixpoint tlevel (n : nat) (root : nat) : list nat :=
  match n with O => [root] | S k => flat_map tkids (tlevel k root) end.

Lemma emb_entries_fst : forall fs p i, map fst (emb_entries p fs i) = emb_types fs.
Proof.
  induction fs as [|f fs IH]; intros; simpl; auto.
  unfold emb_types in *. simpl. destruct (emb_target f); simpl; rewrite IH; auto.
Qed.

Lemma kids_fst : forall x, map fst (kids x) = tkids (fst x).
Proof. intros [t p]. unfold kids, tkids. simpl. destruct (fields_of e t); auto. apply emb_entries_fst. Qed.

Lemma map_flat_map_fst : forall l, map fst (flat_map kids l) = flat_map tkids (map fst l).
Proof.
  induction l as [|x l IH]; simpl; auto. rewrite map_app, kids_fst. f_equal. exact IH.
Qed.

Lemma level_types : forall n root, map fst (level n root) = tlevel n root.
Proof. induction n; intros; simpl; auto. rewrite map_flat_map_fst, IHn. auto. Qed.

Lemma in_level_type : forall n root x, In x (level n root) -> In (fst x) (tlevel n root).
Proof. intros. rewrite <- level_types. apply in_map. auto. Qed.

Lemma tlevel_compose : forall k a root t u, In t (tlevel a root) -> In u (tlevel k t) -> In u (tlevel (a + k) root).
Proof.
  induction k; intros a root t u Ht Hu.
  - simpl in Hu. destruct Hu as [<-|[]]. rewrite Nat.add_0_r. auto.
  - simpl in Hu. apply in_flat_map in Hu. destruct Hu as [w [Hw Hu]].
    rewrite Nat.add_succ_r. simpl. apply in_flat_map. exists w. split; auto. eapply IHk; eauto.
Qed.

Lemma tlevel_split : forall k a root u, In u (tlevel (a + k) root) -> exists t, In t (tlevel a root) /\ In u (tlevel k t).
Proof.
  induction k; intros a root u Hu.
  - rewrite Nat.add_0_r in Hu. exists u. split; auto. simpl. auto.
  - rewrite Nat.add_succ_r in Hu. simpl in Hu. apply in_flat_map in Hu. destruct Hu as [w [Hw Hu]].
    destruct (IHk _ _ _ Hw) as [t [Ht Hw']]. exists t. split; auto.
    simpl. apply in_flat_map. exists w. auto.
Qed.

Lemma emb_entries_len : forall fs p i x, In x (emb_entries p fs i) -> length (snd x) = S (length p).
Proof.
  induction fs as [|f fs IH]; intros p i x Hx; simpl in Hx; [contradiction|].
  destruct (emb_target f).
  - destruct Hx as [<-|Hx]; [simpl; rewrite app_length; simpl; lia | eauto].
  - eauto.
Qed.

Lemma level_len : forall n root x, In x (level n root) -> length (snd x) = n.
Proof.
  induction n; intros root x Hx; simpl in Hx.
  - destruct Hx as [<-|[]]. auto.
  - apply in_flat_map in Hx. destruct Hx as [y [Hy Hx]]. unfold kids in Hx.
    destruct (fields_of e (fst y)); [|contradiction]. apply emb_entries_len in Hx. rewrite (IHn _ _ Hy) in Hx. auto.
Qed.

(* ================= generic part: a notion of "hit" that depends on the type only ================= *)
Section Generic.
Variable A : Type.
Variable hits : entry -> list A.
Variable has : nat -> bool.
Hypothesis hits_has : forall x, hits x = [] <-> has (fst x) = false.
Variable root : nat.

Definition occ (n : nat) : list A := flat_map hits (level n root).

Definition NoShallow (d : nat) : Prop := forall a, a < d -> forall t, In t (tlevel a root) -> has t = false.
Definition Shallow (d : nat) (t : nat) : Prop := exists a, a < d /\ In t (tlevel a root).

Lemma flat_map_nil : forall (B C : Type) (f : B -> list C) l, flat_map f l = [] <-> forall x, In x l -> f x = [].
Proof.
  induction l as [|x l IH]; simpl; split; intros; auto; try contradiction.
  - apply app_eq_nil in H. destruct H as [H1 H2]. destruct H0 as [<-|H0]; auto. apply IH; auto.
  - rewrite (H x (or_introl eq_refl)). simpl. apply IH. intros. apply H. auto.
Qed.

Lemma occ_nil_iff : forall n, occ n = [] <-> forall t, In t (tlevel n root) -> has t = false.
Proof.
  intros n. unfold occ. rewrite flat_map_nil. split; intros H.
  - intros t Ht. rewrite <- level_types in Ht. apply in_map_iff in Ht. destruct Ht as [x [<- Hx]].
    apply hits_has. auto.
  - intros x Hx. apply hits_has. apply H. apply in_level_type. auto.
Qed.

Lemma NoShallow_occ : forall d, NoShallow d <-> forall a, a < d -> occ a = [].
Proof.
  intros d. unfold NoShallow. split; intros H a Ha.
  - apply occ_nil_iff. intros t Ht. eapply H; eauto.
  - apply occ_nil_iff. auto.
Qed.

Lemma NoShallow_S : forall d, NoShallow d -> occ d = [] -> NoShallow (S d).
Proof.
  intros d H Ho a Ha t Ht. assert (a < d \/ a = d) as [Hlt | ->] by lia.
  - eapply H; eauto.
  - eapply occ_nil_iff; eauto.
Qed.

Inductive cover (d : nat) : list entry -> list entry -> Prop :=
| cover_nil : cover d [] []
| cover_keep : forall x tv lv, cover d tv lv -> cover d (x :: tv) (x :: lv)
| cover_drop : forall x tv lv, Shallow d (fst x) -> cover d tv lv -> cover d tv (x :: lv).

Lemma cover_refl : forall d l, cover d l l.
Proof. induction l; constructor; auto. Qed.

Lemma cover_app : forall d a b a' b', cover d a b -> cover d a' b' -> cover d (a ++ a') (b ++ b').
Proof. induction 1; intros; simpl; auto; constructor; auto. Qed.

Lemma cover_in : forall d tv lv x, cover d tv lv -> In x tv -> In x lv.
Proof. induction 1; intros Hx; simpl in *; auto. destruct Hx; auto. Qed.

Lemma cover_all_drop : forall d lv, (forall x, In x lv -> Shallow d (fst x)) -> cover d [] lv.
Proof. induction lv; intros; constructor; auto; [apply H; simpl; auto | apply IHlv; intros; apply H; simpl; auto]. Qed.

Lemma cover_trans : forall d b c, cover d b c -> forall a, cover d a b -> cover d a c.
Proof.
  induction 1; intros a Ha; auto.
  - inversion Ha; subst.
    + constructor. auto.
    + apply cover_drop; auto.
  - apply cover_drop; auto.
Qed.

Lemma cover_hits : forall d tv lv, NoShallow d -> cover d tv lv -> flat_map hits tv = flat_map hits lv.
Proof.
  intros d tv lv HN. induction 1; simpl; auto.
  - rewrite IHcover. auto.
  - destruct H as [a [Ha Ht]]. assert (hits x = []) as ->. { apply hits_has. eapply HN; eauto. } simpl. auto.
Qed.

Lemma kids_shallow : forall d x y, Shallow d (fst x) -> In y (kids x) -> Shallow (S d) (fst y).
Proof.
  intros d x y [a [Ha Hx]] Hy. exists (S a). split; [lia|].
  simpl. apply in_flat_map. exists (fst x). split; auto. rewrite <- kids_fst. apply in_map. auto.
Qed.

Lemma cover_kids : forall d tv lv, cover d tv lv -> cover (S d) (flat_map kids tv) (flat_map kids lv).
Proof.
  induction 1; simpl.
  - constructor.
  - apply cover_app; auto. apply cover_refl.
  - change (flat_map kids tv) with ([] ++ flat_map kids tv). apply cover_app; auto.
    apply cover_all_drop. intros y Hy. eapply kids_shallow; eauto.
Qed.

(* the visited map: every recorded type was met at the recorded depth *)
Definition Inv (d : nat) (m : dmap) : Prop := forall t a, dm_get m t = Some a -> a <= d /\ In t (tlevel a root).
Definition InvLt (d : nat) (m : dmap) : Prop := forall t a, dm_get m t = Some a -> a < d /\ In t (tlevel a root).

Lemma InvLt_Inv : forall d m, InvLt d m -> Inv d m.
Proof. intros d m H t a Hg. destruct (H _ _ Hg). split; auto. lia. Qed.
Lemma Inv_InvLt : forall d m, Inv d m -> InvLt (S d) m.
Proof. intros d m H t a Hg. destruct (H _ _ Hg). split; auto. lia. Qed.

(* the gate shared by fieldByName and anonymousFields *)
Lemma visited_spec : forall d t (p : path) m v m',
  length p = d -> In t (tlevel d root) -> Inv d m ->
  dm_visited m t (length p) = (v, m') ->
  Inv d m' /\ (v = true -> Shallow d t).
Proof.
  intros d t p m v m' Hp Ht HI Hv. unfold dm_visited in Hv. rewrite Hp in Hv.
  destruct (dm_get m t) as [a|] eqn:Hg.
  - destruct (Nat.ltb a d) eqn:Hlt; inversion Hv; subst.
    + split; auto. intros _. apply Nat.ltb_lt in Hlt. exists a. split; auto. apply (HI _ _ Hg).
    + split; [|discriminate]. intros t' a' Hg'. unfold dm_set in Hg'. simpl in Hg'.
      destruct (Nat.eqb t t') eqn:He.
      * apply Nat.eqb_eq in He. subst. inversion Hg'; subst. split; auto.
      * apply HI; auto.
  - inversion Hv; subst. split; [|discriminate]. intros t' a' Hg'. unfold dm_set in Hg'. simpl in Hg'.
    destruct (Nat.eqb t t') eqn:He.
    + apply Nat.eqb_eq in He. subst. inversion Hg'; subst. split; auto.
    + apply HI; auto.
Qed.

(* when the frontier is exhausted with no hit so far, there is no hit at any depth *)
Lemma exhausted_no_hits : forall d, cover d [] (level d root) -> NoShallow d -> forall n, occ n = [].
Proof.
  intros d Hc HN n. apply occ_nil_iff.
  induction n as [n IH] using lt_wf_ind. intros t Ht.
  destruct (Nat.lt_ge_cases n d) as [Hlt|Hge].
  - eapply HN; eauto.
  - replace n with (d + (n - d)) in Ht by lia.
    apply tlevel_split in Ht. destruct Ht as [y [Hy Ht]].
    rewrite <- level_types in Hy. apply in_map_iff in Hy. destruct Hy as [x [<- Hx]].
    assert (Shallow d (fst x)) as [a [Ha Hxa]].
    { clear - Hc Hx. remember (level d root) as lv. clear Heqlv. remember (@nil entry) as tv.
      induction Hc; subst; try discriminate; simpl in Hx; try contradiction.
      destruct Hx as [<-|Hx]; auto. }
    apply (IH (a + (n - d))); [lia|]. eapply tlevel_compose; eauto.
Qed.

End Generic.

(* ================= fields ================= *)
Definition has_f (t : nat) : bool :=
  match fields_of e t with Some fs => existsb (match_field e q) fs | None => false end.

Lemma field_hits_nil : forall fs p i, field_hits p fs i = [] <-> existsb (match_field e q) fs = false.
Proof.
  induction fs as [|f fs IH]; intros; simpl; [tauto|].
  destruct (match_field e q f); simpl; [split; discriminate | apply IH].
Qed.

Lemma fm_has : forall x, fm x = [] <-> has_f (fst x) = false.
Proof. intros [t p]. unfold fm, has_f. simpl. destruct (fields_of e t); [apply field_hits_nil | tauto]. Qed.

Lemma scan_fields_spec : forall fs index i found count tv f c tv',
  scan_fields e q index fs i found count tv = (f, c, tv') ->
  c = count + length (field_hits index fs i) /\
  f = match count with O => match field_hits index fs i with [] => found | h :: _ => Some h end | S _ => found end /\
  (c = 0 -> tv' = tv ++ emb_entries index fs i).
Proof.
  induction fs as [|fd fs IH]; intros index i found count tv f c tv' H; simpl in H.
  - injection H as H1 H2 H3. subst f c tv'. simpl. repeat split; try lia. destruct count; auto. intros. rewrite app_nil_r. auto.
  - simpl. destruct (match_field e q fd) eqn:Hm.
    + apply IH in H. destruct H as [Hc [Hf Ht]]. simpl. repeat split; try lia.
      destruct count; simpl in *; auto.
    + destruct (emb_target fd) as [t|] eqn:He.
      * destruct (Nat.eqb count 0) eqn:Hc0.
        -- apply IH in H. destruct H as [Hc [Hf Ht]]. repeat split; auto.
           intros Hz. rewrite (Ht Hz). rewrite <- app_assoc. auto.
        -- apply IH in H. destruct H as [Hc [Hf Ht]]. repeat split; auto.
           intros Hz. apply Nat.eqb_neq in Hc0. lia.
      * apply IH in H. destruct H as [Hc [Hf Ht]]. repeat split; auto.
Qed.

Section Fields.
Variable root : nat.
Notation NoShallowF := (NoShallow has_f root).
Notation coverF := (cover root).

Lemma fieldByName_spec : forall d t p m f c tv1 m',
  length p = d -> In t (tlevel d root) -> Inv root d m -> NoShallowF d ->
  fieldByName e q t p m = ((f, c, tv1), m') ->
  c = length (fm (t, p)) /\ f = hd_error (fm (t, p)) /\ Inv root d m' /\ (c = 0 -> coverF (S d) tv1 (kids (t, p))).
Proof.
  intros d t p m f c tv1 m' Hp Ht HI HN H. unfold fieldByName in H. unfold fm, kids. simpl.
  destruct (fields_of e t) as [fs|] eqn:Hfs.
  - destruct (dm_visited m t (length p)) as [v m1] eqn:Hv.
    destruct (visited_spec root d t p m v m1 Hp Ht HI Hv) as [HI1 Hsh].
    destruct v.
    + inversion H; subst. clear H.
      assert (Hs : Shallow root (length p) t) by auto.
      assert (Hno : has_f t = false). { destruct Hs as [a [Ha Hta]]. eapply HN; eauto. }
      unfold has_f in Hno. rewrite Hfs in Hno. apply field_hits_nil with (p := p) (i := 0%Z) in Hno. rewrite Hno.
      simpl. split; [auto | split; [auto | split; [auto |]]]. intros _. apply cover_all_drop. intros y Hy.
      eapply kids_shallow with (x := (t, p)); eauto. unfold kids. simpl. rewrite Hfs. auto.
    + inversion H as [[H1 H2]]. subst m'. apply scan_fields_spec in H1. destruct H1 as [Hc [Hf Ht']].
      simpl in Hc. split; [auto | split; [| split; [auto |]]].
      * subst f. destruct (field_hits p fs 0%Z); auto.
      * intros Hz. rewrite (Ht' Hz). simpl. apply cover_refl.
  - inversion H; subst. simpl. split; [auto | split; [auto | split; [auto |]]]. intros _. constructor.
Qed.

Lemma level_f_spec : forall d tv m fld count next nextL acc fld' count' next' m',
  (forall x, In x tv -> length (snd x) = d /\ In (fst x) (tlevel d root)) -> Inv root d m -> NoShallowF d ->
  count = length acc -> fld = hd_error acc -> (count = 0 -> coverF (S d) next nextL) ->
  level_f e q tv m fld count next = (fld', count', next', m') ->
  count' = length (acc ++ flat_map fm tv) /\ fld' = hd_error (acc ++ flat_map fm tv) /\ Inv root d m' /\
  (count' = 0 -> coverF (S d) next' (nextL ++ flat_map kids tv)).
Proof.
  intros d tv. induction tv as [|[t p] tv IH]; intros m fld count next nextL acc fld' count' next' m' Hall HI HN Hc Hf Hcov H.
  - simpl in H. inversion H; subst. simpl. rewrite !app_nil_r. auto.
  - simpl in H. destruct (fieldByName e q t p m) as [[[ef ec] etv] m1] eqn:Hfb.
    destruct (Hall (t, p) (or_introl eq_refl)) as [Hp Ht]. simpl in Hp, Ht.
    destruct (fieldByName_spec d t p m ef ec etv m1 Hp Ht HI HN Hfb) as [Hec [Hef [HI1 Hcv]]].
    eapply IH with (acc := acc ++ fm (t, p)) (nextL := nextL ++ kids (t, p)) in H; auto.
    + simpl. rewrite <- !app_assoc in H. exact H.
    + intros x Hx. apply Hall. simpl. auto.
    + rewrite app_length. lia.
    + destruct (Nat.eqb count 0) eqn:Hc0.
      * apply Nat.eqb_eq in Hc0. assert (acc = []) by (destruct acc; simpl in *; auto; lia). subst acc. simpl.
        destruct (Nat.ltb 0 ec) eqn:Hl; auto.
        apply Nat.ltb_ge in Hl. assert (ec = 0) by lia. subst ec.
        destruct (fm (t, p)); simpl in *; auto; try lia.
      * apply Nat.eqb_neq in Hc0. destruct acc; simpl in *; auto; lia.
    + intros Hz. assert (Hc00 : count = 0) by lia. assert (Hec0 : ec = 0) by lia.
      rewrite Hc00, Hec0. simpl. apply cover_app; auto.
Qed.

Definition spec_f (r : option path * nat) : Prop :=
  (r = (None, 0) /\ forall n, occ_f n root = []) \/
  (exists d, (forall d', d' < d -> occ_f d' root = []) /\ occ_f d root <> [] /\
             snd r = length (occ_f d root) /\ fst r = hd_error (occ_f d root)).

Lemma bfs_f_spec : forall fuel d tv m r,
  coverF d tv (level d root) -> InvLt root d m -> NoShallowF d ->
  bfs_f fuel e q tv m = Some r -> spec_f r.
Proof.
  induction fuel as [|fuel IH]; intros d tv m r Hc HI HN H.
  - destruct tv; simpl in H; [|discriminate]. inversion H; subst. left. split; auto.
    apply (exhausted_no_hits _ fm has_f fm_has root d); auto.
  - destruct tv as [|x tv0] eqn:Htv.
    + simpl in H. inversion H; subst. left. split; auto.
      apply (exhausted_no_hits _ fm has_f fm_has root d); auto.
    + rewrite <- Htv in *. assert (H' : match level_f e q tv m None 0 [] with
         | (fld, count, next, m') => if Nat.eqb count 0 then bfs_f fuel e q next m' else Some (fld, count) end = Some r).
      { subst tv. exact H. }
      clear H. destruct (level_f e q tv m None 0 []) as [[[fld count] next] m1] eqn:Hl.
      assert (Hall : forall y, In y tv -> length (snd y) = d /\ In (fst y) (tlevel d root)).
      { intros y Hy. apply (cover_in _ _ _ _ _ Hc) in Hy. split; [eapply level_len; eauto | apply in_level_type; auto]. }
      destruct (level_f_spec d tv m None 0 [] [] [] fld count next m1 Hall (InvLt_Inv _ _ _ HI) HN eq_refl eq_refl
                  (fun _ => cover_nil root (S d)) Hl) as [Hcount [Hfld [HI1 Hcov]]].
      simpl in Hcount, Hfld, Hcov.
      rewrite (cover_hits _ fm has_f fm_has root d tv (level d root) HN Hc) in Hcount, Hfld.
      fold (occ_f d root) in Hcount, Hfld.
      destruct (Nat.eqb count 0) eqn:Hc0.
      * apply Nat.eqb_eq in Hc0. subst count.
        assert (Ho : occ_f d root = []) by (destruct (occ_f d root); simpl in *; auto; lia).
        apply (IH (S d) next m1 r); auto.
        -- eapply cover_trans; [apply cover_kids; exact Hc | auto].
        -- apply Inv_InvLt; auto.
        -- apply (NoShallow_S _ fm has_f fm_has root); auto.
      * inversion H'; subst. right. exists d. repeat split; auto.
        -- apply (NoShallow_occ _ fm has_f fm_has root d); auto.
        -- apply Nat.eqb_neq in Hc0. intros Hn. rewrite Hn in Hc0. simpl in Hc0. lia.
Qed.

Lemma nonstruct_no_levels : forall n, fields_of e root = None -> level (S n) root = [].
Proof.
  induction n; intros H; simpl.
  - unfold kids. simpl. rewrite H. auto.
  - simpl in IHn. rewrite (IHn H). auto.
Qed.

Theorem field_bfs_shallowest : forall fuel r,
  FieldByName_uncached fuel e root q = Some r ->
  (fr_count r = 0%Z /\ fr_index r = [] /\ forall n, occ_f n root = []) \/
  (exists d, (forall d', d' < d -> occ_f d' root = []) /\ occ_f d root <> [] /\
             fr_count r = Z.of_nat (length (occ_f d root)) /\ hd_error (occ_f d root) = Some (fr_index r)).
Proof.
  intros fuel r H. unfold FieldByName_uncached in H.
  destruct (fields_of e root) as [fs|] eqn:Hfs.
  - destruct (fieldByName e q root [] []) as [[[f c] tv] m] eqn:Hfb.
    assert (HI0 : Inv root 0 []) by (intros t a Hg; simpl in Hg; discriminate).
    assert (HN0 : NoShallowF 0) by (intros a Ha; lia).
    destruct (fieldByName_spec 0 root [] [] f c tv m eq_refl (or_introl eq_refl) HI0 HN0 Hfb) as [Hc [Hf [HI1 Hcov]]].
    assert (Hocc0 : occ_f 0 root = fm (root, [])) by (unfold occ_f; simpl; apply app_nil_r).
    destruct (Nat.eqb c 0) eqn:Hc0.
    + apply Nat.eqb_eq in Hc0.
      destruct (bfs_f fuel e q tv m) as [r0|] eqn:Hb; simpl in H; [|discriminate]. inversion H; subst r. clear H.
      assert (Hsp : spec_f r0).
      { apply (bfs_f_spec fuel 1 tv m r0); auto.
        - simpl. rewrite app_nil_r. apply Hcov. auto.
        - apply Inv_InvLt. auto.
        - apply (NoShallow_S _ fm has_f fm_has root 0 HN0). unfold occ. fold (occ_f 0 root). rewrite Hocc0.
          destruct (fm (root, [])); simpl in *; auto; lia. }
      destruct Hsp as [[-> Hall] | [d [Hlt [Hne [Hs Hh]]]]].
      * left. simpl. auto.
      * right. exists d. repeat split; auto.
        -- unfold fres_of. simpl. rewrite Hs. auto.
        -- unfold fres_of. simpl. destruct (occ_f d root) as [|h tl]; [contradiction|].
           simpl in Hh. rewrite Hh. auto.
    + inversion H; subst r. clear H. right. exists 0. apply Nat.eqb_neq in Hc0.
      rewrite Hocc0. repeat split.
      * intros; lia.
      * intros Hn. rewrite Hn in Hc. simpl in Hc. lia.
      * unfold fres_of. simpl. rewrite Hc. auto.
      * unfold fres_of. simpl. rewrite Hf. destruct (fm (root, [])); simpl in *; auto; lia.
  - inversion H; subst. left. simpl. repeat split; auto. intros n. unfold occ_f.
    destruct n.
    + simpl. unfold fm. simpl. rewrite Hfs. auto.
    + rewrite nonstruct_no_levels; auto.
Qed.

End Fields.
End Spec.

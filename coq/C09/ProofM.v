(* C09 — MethodByName's breadth-first search finds the methods at the shallowest depth of the unfolded tree *)
From Coq Require Import List NArith ZArith Bool Arith Lia.
From Verif Require Import C09.Model C09.Proof.
Import ListNotations.

Section Methods.
Variable e : env.
Variable q : N.
Variable root : nat.

Definition has_m (t : nat) : bool := existsb (fun nm => N.eqb q (fst nm)) (methods_of e t).

Lemma meth_hits_nil : forall ms i, meth_hits q ms i = [] <-> existsb (fun nm : N * bool => N.eqb q (fst nm)) ms = false.
Proof.
  induction ms as [|[n b] ms IH]; intros; simpl; [tauto|].
  destruct (N.eqb q n); simpl; [split; discriminate | apply IH].
Qed.

Lemma mm_has : forall x, mm e q x = [] <-> has_m (fst x) = false.
Proof.
  intros [t p]. unfold mm, has_m. simpl. rewrite <- (meth_hits_nil (methods_of e t) 0%Z).
  destruct (meth_hits q (methods_of e t) 0%Z); simpl; split; auto; discriminate.
Qed.

Lemma scan_methods_spec : forall ms i found count f c,
  scan_methods q ms i found count = (f, c) ->
  c = count + length (meth_hits q ms i) /\
  f = match count with O => match meth_hits q ms i with [] => found | h :: _ => Some h end | S _ => found end.
Proof.
  induction ms as [|[n b] ms IH]; intros i found count f c H; simpl in H.
  - injection H as H1 H2. subst f c. simpl. split; [lia|]. destruct count; auto.
  - simpl. destruct (N.eqb q n).
    + apply IH in H. destruct H as [Hc Hf]. simpl. split; [lia|]. destruct count; simpl in *; auto.
    + apply IH in H. auto.
Qed.

Lemma methodByName_spec : forall t em ec,
  methodByName e q t = (em, ec) ->
  forall p, ec = length (mm e q (t, p)) /\ hd_error (mm e q (t, p)) = option_map (fun i => (p, i)) em.
Proof.
  intros t em ec H p. unfold methodByName in H. apply scan_methods_spec in H. destruct H as [Hc Hf].
  unfold mm. simpl. rewrite map_length. split; [lia|]. subst em.
  destruct (meth_hits q (methods_of e t) 0%Z); simpl; auto.
Qed.

Notation NoShallowM := (NoShallow e has_m root).
Notation coverM := (cover e root).

Lemma anonymousFields_spec : forall d t p m kl m',
  length p = d -> In t (tlevel e d root) -> Inv e root d m ->
  anonymousFields e t p m = (kl, m') ->
  Inv e root d m' /\ coverM (S d) kl (kids e (t, p)).
Proof.
  intros d t p m kl m' Hp Ht HI H. unfold anonymousFields in H. unfold kids. simpl.
  destruct (fields_of e t) as [fs|] eqn:Hfs.
  - destruct (dm_visited m t (length p)) as [v m1] eqn:Hv.
    destruct (visited_spec e root d t p m v m1 Hp Ht HI Hv) as [HI1 Hsh].
    destruct v; injection H as H1 H2; subst kl m'.
    + split; auto. apply cover_all_drop. intros y Hy.
      apply (kids_shallow e root d (t, p) y); auto. unfold kids. simpl. rewrite Hfs. auto.
    + split; auto. apply cover_refl.
  - injection H as H1 H2; subst kl m'. split; auto. constructor.
Qed.

Lemma level_m_spec : forall d tv m mt count next nextL acc mt' count' next' m',
  (forall x, In x tv -> length (snd x) = d /\ In (fst x) (tlevel e d root)) -> Inv e root d m ->
  count = length acc -> mt = hd_error acc -> (count = 0 -> coverM (S d) next nextL) ->
  level_m e q tv m mt count next = (mt', count', next', m') ->
  count' = length (acc ++ flat_map (mm e q) tv) /\ mt' = hd_error (acc ++ flat_map (mm e q) tv) /\ Inv e root d m' /\
  (count' = 0 -> coverM (S d) next' (nextL ++ flat_map (kids e) tv)).
Proof.
  intros d tv. induction tv as [|[t p] tv IH]; intros m mt count next nextL acc mt' count' next' m' Hall HI Hc Hf Hcov H.
  - simpl in H. injection H as H1 H2 H3 H4. subst. simpl. rewrite !app_nil_r. auto.
  - simpl in H. destruct (methodByName e q t) as [em ec] eqn:Hmb.
    destruct (methodByName_spec t em ec Hmb p) as [Hec Hhd].
    destruct (Hall (t, p) (or_introl eq_refl)) as [Hp Ht]. simpl in Hp, Ht.
    assert (Hall' : forall x, In x tv -> length (snd x) = d /\ In (fst x) (tlevel e d root)).
    { intros x Hx. apply Hall. simpl. auto. }
    unfold entry, path in *.
    destruct (Nat.eqb count 0) eqn:Hc0.
    + apply Nat.eqb_eq in Hc0. assert (acc = []) by (destruct acc; simpl in *; auto; lia). subst acc count. simpl in *.
      destruct (Nat.ltb 0 ec) eqn:Hl.
      * apply Nat.ltb_lt in Hl.
        eapply IH with (acc := mm e q (t, p)) (nextL := nextL ++ kids e (t, p)) in H; auto.
        -- destruct H as [H1 [H2 [H3 H4]]]. split; [auto | split; [auto | split; [auto |]]].
           intros Hz. rewrite H1 in Hz. remember (mm e q (t, p)) as hl. destruct hl; simpl in *; [lia | discriminate].
        -- remember (mm e q (t, p)) as hl. destruct hl; simpl in *; [lia|]. destruct em; simpl in Hhd; congruence.
        -- intros Hz. lia.
      * apply Nat.ltb_ge in Hl. assert (ec = 0) by lia. subst ec.
        assert (Hnil : mm e q (t, p) = []) by (remember (mm e q (t, p)) as hl; destruct hl; simpl in *; auto; lia).
        destruct (anonymousFields e t p m) as [kl m1] eqn:Haf.
        destruct (anonymousFields_spec d t p m kl m1 Hp Ht HI Haf) as [HI1 Hcv].
        eapply IH with (acc := []) (nextL := nextL ++ kids e (t, p)) in H; auto.
        -- rewrite Hnil. simpl in *. rewrite <- app_assoc in H. exact H.
        -- intros _. apply cover_app; auto.
    + apply Nat.eqb_neq in Hc0.
      eapply IH with (acc := acc ++ mm e q (t, p)) (nextL := nextL) in H; auto.
      * destruct H as [H1 [H2 [H3 H4]]]. rewrite <- app_assoc in H1, H2.
        split; [auto | split; [auto | split; [auto |]]].
        intros Hz. simpl in Hz. rewrite H1 in Hz. rewrite !app_length in Hz. lia.
      * rewrite app_length. lia.
      * destruct acc; simpl in *; auto; lia.
      * intros; lia.
Qed.

Definition spec_m (r : mfound * nat) : Prop :=
  (r = (None, 0) /\ forall n, occ_m e q n root = []) \/
  (exists d, (forall d', d' < d -> occ_m e q d' root = []) /\ occ_m e q d root <> [] /\
             snd r = length (occ_m e q d root) /\ fst r = hd_error (occ_m e q d root)).

Lemma bfs_m_spec : forall fuel d tv m r,
  coverM d tv (level e d root) -> InvLt e root d m -> NoShallowM d ->
  bfs_m fuel e q tv m = Some r -> spec_m r.
Proof.
  induction fuel as [|fuel IH]; intros d tv m r Hc HI HN H.
  - destruct tv; simpl in H; [|discriminate]. inversion H; subst. left. split; auto.
    apply (exhausted_no_hits e _ (mm e q) has_m mm_has root d); auto.
  - destruct tv as [|x tv0] eqn:Htv.
    + simpl in H. inversion H; subst. left. split; auto.
      apply (exhausted_no_hits e _ (mm e q) has_m mm_has root d); auto.
    + rewrite <- Htv in *. assert (H' : match level_m e q tv m None 0 [] with
         | (mt, count, next, m') => if Nat.eqb count 0 then bfs_m fuel e q next m' else Some (mt, count) end = Some r).
      { subst tv. exact H. }
      clear H. destruct (level_m e q tv m None 0 []) as [[[mt count] next] m1] eqn:Hl.
      assert (Hall : forall y, In y tv -> length (snd y) = d /\ In (fst y) (tlevel e d root)).
      { intros y Hy. apply (cover_in _ _ _ _ _ _ Hc) in Hy. split; [eapply level_len; eauto | apply in_level_type; auto]. }
      destruct (level_m_spec d tv m None 0 [] [] [] mt count next m1 Hall (InvLt_Inv _ _ _ _ HI) eq_refl eq_refl
                  (fun _ => cover_nil e root (S d)) Hl) as [Hcount [Hmt [HI1 Hcov]]].
      simpl in Hcount, Hmt, Hcov.
      rewrite (cover_hits e _ (mm e q) has_m mm_has root d tv (level e d root) HN Hc) in Hcount, Hmt.
      fold (occ_m e q d root) in Hcount, Hmt.
      destruct (Nat.eqb count 0) eqn:Hc0.
      * apply Nat.eqb_eq in Hc0. subst count.
        assert (Ho : occ_m e q d root = []) by (destruct (occ_m e q d root); simpl in *; auto; lia).
        apply (IH (S d) next m1 r); auto.
        -- eapply cover_trans; [apply cover_kids; exact Hc | auto].
        -- apply Inv_InvLt; auto.
        -- apply (NoShallow_S e _ (mm e q) has_m mm_has root); auto.
      * inversion H'; subst. right. exists d. repeat split; auto.
        -- apply (NoShallow_occ e _ (mm e q) has_m mm_has root d); auto.
        -- apply Nat.eqb_neq in Hc0. intros Hn. rewrite Hn in Hc0. simpl in Hc0. lia.
Qed.

(* the Method returned for a non-empty list of hits: FieldIndex and Index of the first hit, Index overwritten by
   -count when ambiguous *)
Definition mres_matches (r : mres) (hits : list (path * Z)) : Prop :=
  mr_count r = Z.of_nat (length hits) /\
  exists p i, hd_error hits = Some (p, i) /\ mr_findex r = p /\
              mr_index r = (if Nat.ltb 1 (length hits) then (- Z.of_nat (length hits))%Z else i).

Theorem method_bfs_shallowest : forall fuel r,
  MethodByName_uncached fuel e root q = Some r ->
  (mr_count r = 0%Z /\ mr_findex r = [] /\ forall n, occ_m e q n root = []) \/
  (exists d, (forall d', d' < d -> occ_m e q d' root = []) /\ occ_m e q d root <> [] /\
             mres_matches r (occ_m e q d root)).
Proof.
  intros fuel r H. unfold MethodByName_uncached in H.
  destruct (methodByName e q root) as [em ec] eqn:Hmb.
  destruct (methodByName_spec root em ec Hmb []) as [Hec Hhd].
  assert (Hocc0 : occ_m e q 0 root = mm e q (root, [])) by (unfold occ_m; simpl; apply app_nil_r).
  assert (Hfound : forall i c, em = Some i -> ec = S c -> Some r = Some (mres_of (Some ([], i), S c)) ->
     exists d, (forall d', d' < d -> occ_m e q d' root = []) /\ occ_m e q d root <> [] /\ mres_matches r (occ_m e q d root)).
  { intros i c -> -> Hr. inversion Hr; subst r. exists 0. rewrite Hocc0. split; [intros; lia|].
    unfold entry, path in *. remember (mm e q (root, [])) as hl. destruct hl as [|h tl]; simpl in Hec; [lia|]. split; [discriminate|].
    simpl in Hhd. inversion Hhd; subst h. unfold mres_matches, mres_of. simpl.
    injection Hec as Hec. subst c. split.
    - reflexivity.
    - exists [], i. auto. }
  assert (Hbfs : (let '(tv, m) := anonymousFields e root [] [] in option_map mres_of (bfs_m fuel e q tv m)) = Some r ->
     ec = 0 -> (mr_count r = 0%Z /\ mr_findex r = [] /\ forall n, occ_m e q n root = []) \/
     (exists d, (forall d', d' < d -> occ_m e q d' root = []) /\ occ_m e q d root <> [] /\ mres_matches r (occ_m e q d root))).
  { intros Hb Hz. subst ec.
    destruct (anonymousFields e root [] []) as [tv m] eqn:Haf.
    assert (HI0 : Inv e root 0 []) by (intros t a Hg; simpl in Hg; discriminate).
    destruct (anonymousFields_spec 0 root [] [] tv m eq_refl (or_introl eq_refl) HI0 Haf) as [HI1 Hcv].
    destruct (bfs_m fuel e q tv m) as [r0|] eqn:Hb0; simpl in Hb; [|discriminate]. inversion Hb; subst r. clear Hb.
    assert (Hnil : mm e q (root, []) = []).
    { unfold entry, path in *. remember (mm e q (root, [])) as hl. destruct hl; simpl in *; auto; lia. }
    assert (Hsp : spec_m r0).
    { apply (bfs_m_spec fuel 1 tv m r0); auto.
      - simpl. rewrite app_nil_r. auto.
      - apply Inv_InvLt. auto.
      - apply (NoShallow_S e _ (mm e q) has_m mm_has root 0); [intros a Ha; lia|].
        unfold occ. fold (occ_m e q 0 root). rewrite Hocc0. auto. }
    destruct Hsp as [[-> Hall] | [d [Hlt [Hne [Hs Hh]]]]].
    - left. simpl. auto.
    - right. exists d. split; [auto | split; [auto |]].
      destruct r0 as [mt c]. simpl in Hs, Hh. unfold mres_matches, mres_of. simpl.
      destruct (occ_m e q d root) as [|[p i] tl] eqn:Ho; [contradiction|]. simpl in Hh, Hs. subst mt c. simpl.
      split; auto. exists p, i. split; auto. }
  destruct em as [i|]; destruct ec as [|c].
  - apply Hbfs; auto.
  - right. eapply Hfound; eauto.
  - apply Hbfs; auto.
  - apply Hbfs; auto. exfalso. unfold entry, path in *. remember (mm e q (root, [])) as hl. destruct hl; simpl in *; [lia | discriminate].
Qed.

End Methods.

(* C09 — TryLookupFieldOrMethod's combination of the two searches implements the Go selector rule *)
From Coq Require Import List NArith ZArith Bool Arith Lia.
From Verif Require Import C09.Model C09.Proof C09.ProofM C09.Combine.
Import ListNotations.

(* the Go selector rule on the unfolded embedding tree *)
Inductive go_select (e : env) (q : N) (root : nat) : selres -> Prop :=
| GS_none : (forall n, occ_f e q n root = [] /\ occ_m e q n root = []) -> go_select e q root SNone
| GS_field : forall d p,
    (forall d', d' < d -> occ_f e q d' root = [] /\ occ_m e q d' root = []) ->
    occ_f e q d root = [p] -> occ_m e q d root = [] -> go_select e q root (SField p)
| GS_method : forall d p i,
    (forall d', d' < d -> occ_f e q d' root = [] /\ occ_m e q d' root = []) ->
    occ_f e q d root = [] -> occ_m e q d root = [(p, i)] -> go_select e q root (SMethod p i)
| GS_ambig : forall d,
    (forall d', d' < d -> occ_f e q d' root = [] /\ occ_m e q d' root = []) ->
    2 <= length (occ_f e q d root) + length (occ_m e q d root) -> go_select e q root SAmbig.

Lemma field_hits_len : forall e q fs p i x, In x (field_hits e q p fs i) -> length x = S (length p).
Proof.
  induction fs as [|f fs IH]; intros p i x H; simpl in H; [contradiction|].
  destruct (match_field e q f); [destruct H as [<-|H] |]; eauto. rewrite app_length. simpl. lia.
Qed.

Lemma occ_f_len : forall e q n root p, In p (occ_f e q n root) -> length p = S n.
Proof.
  intros e q n root p H. unfold occ_f in H. apply in_flat_map in H. destruct H as [x [Hx Hp]].
  unfold fm in Hp. destruct (fields_of e (fst x)); [|contradiction].
  apply field_hits_len in Hp. rewrite (level_len e n root x Hx) in Hp. auto.
Qed.

Lemma occ_m_len : forall e q n root p i, In (p, i) (occ_m e q n root) -> length p = n.
Proof.
  intros e q n root p i H. unfold occ_m in H. apply in_flat_map in H. destruct H as [x [Hx Hp]].
  unfold mm in Hp. apply in_map_iff in Hp. destruct Hp as [j [Hj _]]. inversion Hj; subst.
  apply (level_len e n root x Hx).
Qed.

Lemma single : forall A (l : list A) x, length l = 1 -> hd_error l = Some x -> l = [x].
Proof. intros A [|a [|b l]] x H1 H2; simpl in *; try discriminate. inversion H2. auto. Qed.

Theorem selector_matches_go_rule : forall e q root fuel rf rm,
  FieldByName_uncached fuel e root q = Some rf ->
  MethodByName_uncached fuel e root q = Some rm ->
  go_select e q root (combine_fm rf rm).
Proof.
  intros e q root fuel rf rm HF HM.
  apply field_bfs_shallowest in HF. apply method_bfs_shallowest in HM.
  destruct rf as [cfz pf]. destruct rm as [cmz pm im]. simpl in *.
  destruct HF as [[Hcf [Hpf Hfall]] | [df [Hfb [Hfne [Hcf Hfh]]]]];
  destruct HM as [[Hcm [Hpm Hmall]] | [dm [Hmb [Hmne [Hcm [p0 [i0 [Hmh [Hmp Hmi]]]]]]]]]; simpl in *.
  - subst. change 0%Z with (Z.of_nat 0). rewrite combine_cases. simpl. apply GS_none. auto.
  - subst cfz pf. change 0%Z with (Z.of_nat 0). rewrite Hcm. rewrite combine_cases. simpl.
    remember (occ_m e q dm root) as om. destruct om as [|h [|h2 tl]]; [congruence | |]; simpl in *.
    + inversion Hmh; subst. apply (GS_method e q root dm p0 i0); auto.
    + apply (GS_ambig e q root dm); auto. rewrite <- Heqom. simpl. lia.
  - subst cmz pm. change 0%Z with (Z.of_nat 0). rewrite Hcf. rewrite combine_cases.
    remember (occ_f e q df root) as of. destruct of as [|h [|h2 tl]]; [congruence | |]; simpl in *.
    + inversion Hfh; subst. apply (GS_field e q root df pf); auto.
    + apply (GS_ambig e q root df); auto. rewrite <- Heqof. simpl. lia.
  - rewrite Hcf, Hcm. rewrite combine_cases.
    assert (Hlf : length pf = S df).
    { apply (occ_f_len e q df root). destruct (occ_f e q df root); simpl in *; [discriminate|]. inversion Hfh. auto. }
    assert (Hlm : length pm = dm).
    { subst pm. apply (occ_m_len e q dm root p0 i0). destruct (occ_m e q dm root); simpl in *; [discriminate|]. inversion Hmh. auto. }
    rewrite Hlf, Hlm.
    assert (Hf0 : Nat.eqb (length (occ_f e q df root)) 0 = false) by (destruct (occ_f e q df root); auto; contradiction).
    assert (Hm0 : Nat.eqb (length (occ_m e q dm root)) 0 = false) by (destruct (occ_m e q dm root); auto; contradiction).
    rewrite Hf0, Hm0.
    destruct (Nat.compare_spec (S df) (dm + 1)) as [Heq|Hlt|Hgt].
    + assert (Hdd : dm = df) by lia. rewrite Hdd in *. apply (GS_ambig e q root df).
      * intros d' Hd. split; [apply Hfb | apply Hmb]; auto.
      * destruct (occ_f e q df root); [congruence|]. destruct (occ_m e q df root); [congruence|]. simpl. lia.
    + assert (Hbefore : forall d', d' < df -> occ_f e q d' root = [] /\ occ_m e q d' root = []).
      { intros d' Hd. split; [auto | apply Hmb; lia]. }
      assert (Hmdf : occ_m e q df root = []) by (apply Hmb; lia).
      remember (occ_f e q df root) as of. destruct of as [|h [|h2 tl]]; [congruence | |]; simpl in *.
      * inversion Hfh; subst. apply (GS_field e q root df pf); auto.
      * apply (GS_ambig e q root df); auto. rewrite <- Heqof. simpl. lia.
    + assert (Hbefore : forall d', d' < dm -> occ_f e q d' root = [] /\ occ_m e q d' root = []).
      { intros d' Hd. split; [apply Hfb; lia | auto]. }
      assert (Hfdm : occ_f e q dm root = []) by (apply Hfb; lia).
      remember (occ_m e q dm root) as om. destruct om as [|h [|h2 tl]]; [congruence | |]; simpl in *.
      * inversion Hmh as [Hh]. rewrite Hmp, Hmi. apply (GS_method e q root dm p0 i0); auto.
        rewrite <- Heqom, Hh. auto.
      * apply (GS_ambig e q root dm); auto. rewrite <- Heqom. simpl. lia.
Qed.

(* DESIGN section 7 #12, the code before fix C09-1: the ambiguity marker reset field.Index to nil (depth 0) *)
Definition wit_env : env :=
  [ mkT 3 (KStruct [mkField 1 (FVal 1); mkField 2 (FVal 2)]) [(0%N, false)];
    mkT 1 (KStruct [mkField 0 FInt]) [];
    mkT 2 (KStruct [mkField 0 FInt]) [] ].

Theorem selector_refuted_before_fix : exists e q root rf rm,
  FieldByName_uncached 10 e root q = Some rf /\ MethodByName_uncached 10 e root q = Some rm /\
  go_select e q root (SMethod [] 0) /\
  combine_fm (mkF (fr_count rf) (if Z.ltb 1 (fr_count rf) then [] else fr_index rf)) rm = SAmbig.
Proof.
  exists wit_env, 0%N, 0, (mkF 2 [0; 0]%Z), (mkM 1 [] 0).
  split; [vm_compute; reflexivity|]. split; [vm_compute; reflexivity|]. split; [|vm_compute; reflexivity].
  apply (GS_method wit_env 0%N 0 0 [] 0%Z); [intros; lia | vm_compute; reflexivity | vm_compute; reflexivity].
Qed.

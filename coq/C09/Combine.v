(* C09 — case analysis of TryLookupFieldOrMethod's arithmetic (kept in its own file: slow to check) *)
From Coq Require Import List NArith ZArith Bool Arith Lia.
From Verif Require Import C09.Model.
Import ListNotations.

Lemma combine_cases : forall cf pf cm pm im,
  combine_fm (mkF (Z.of_nat cf) pf) (mkM (Z.of_nat cm) pm im) =
  if Nat.eqb cf 0 then (if Nat.eqb cm 0 then SNone else if Nat.eqb cm 1 then SMethod pm im else SAmbig)
  else if Nat.eqb cm 0 then (if Nat.eqb cf 1 then SField pf else SAmbig)
  else match Nat.compare (length pf) (length pm + 1) with
       | Lt => if Nat.eqb cf 1 then SField pf else SAmbig
       | Gt => if Nat.eqb cm 1 then SMethod pm im else SAmbig
       | Eq => SAmbig
       end.
Proof.
  intros cf pf cm pm im. unfold combine_fm. cbn [fr_count fr_index mr_count mr_findex mr_index].
  set (a := Z.of_nat (length pf)). set (b := (Z.of_nat (length pm) + 1)%Z).
  destruct (Z.eqb_spec (Z.of_nat cf) 0); destruct (Z.eqb_spec (Z.of_nat cm) 0);
  destruct (Z.ltb_spec b a); destruct (Z.ltb_spec a b); destruct (Z.eqb_spec a b);
  cbn [negb andb orb];
  repeat match goal with
  | |- context [Z.eqb ?x ?y] => destruct (Z.eqb_spec x y)
  | |- context [Z.ltb ?x ?y] => destruct (Z.ltb_spec x y)
  end;
  cbn [negb andb orb];
  destruct (Nat.eqb_spec cf 0); destruct (Nat.eqb_spec cf 1); destruct (Nat.eqb_spec cm 0); destruct (Nat.eqb_spec cm 1);
  destruct (Nat.compare_spec (length pf) (length pm + 1));
  try reflexivity; exfalso; unfold a, b in *; lia.
Qed.


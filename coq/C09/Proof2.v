(* C09 — caches are transparent (over every history of lookups and method declarations); type-switch dispatch *)
From Coq Require Import List NArith ZArith Bool Arith Lia.
From Verif Require Import C09.Model.
Import ListNotations.

(* ================= type switch ================= *)
Definition clause_matches (dyn : option nat) (c : clause) : bool :=
  match c with Case ts => existsb (opt_eqb dyn) ts | Default => false end.

Lemma ts_scan_spec : forall dyn cs i dflt,
  match ts_scan dyn cs i dflt with
  | Some k =>
      (exists j ts, k = i + j /\ nth_error cs j = Some (Case ts) /\ clause_matches dyn (Case ts) = true /\
                    forall j' c, j' < j -> nth_error cs j' = Some c -> clause_matches dyn c = false) \/
      ((forall j c, nth_error cs j = Some c -> clause_matches dyn c = false) /\
       (dflt = Some k \/ exists j, k = i + j /\ nth_error cs j = Some Default))
  | None => dflt = None /\ forall j c, nth_error cs j = Some c -> c <> Default /\ clause_matches dyn c = false
  end.
Proof.
  intros dyn cs. induction cs as [|c cs IH]; intros i dflt; simpl.
  - destruct dflt as [k|].
    + right. split; auto. intros j c H. destruct j; discriminate.
    + split; auto. intros j c H. destruct j; discriminate.
  - destruct c as [ts|].
    + destruct (existsb (opt_eqb dyn) ts) eqn:Hm.
      * left. exists 0, ts. repeat split; auto. intros; lia.
      * specialize (IH (S i) dflt). destruct (ts_scan dyn cs (S i) dflt) as [k|].
        -- destruct IH as [[j [ts' [Hk [Hn [Hmm Hbefore]]]]] | [Hnone Hd]].
           ++ left. exists (S j), ts'. repeat split; auto; try lia.
              intros j' c Hlt Hc. destruct j'; simpl in Hc.
              ** inversion Hc; subst. simpl. auto.
              ** eapply Hbefore; eauto. lia.
           ++ right. split.
              ** intros j c Hc. destruct j; simpl in Hc; [inversion Hc; subst; auto | eauto].
              ** destruct Hd as [Hd | [j [Hk Hj]]]; auto. right. exists (S j). split; auto. lia.
        -- destruct IH as [Hd Hall]. split; auto. intros j c Hc. destruct j; simpl in Hc.
           ++ inversion Hc; subst. split; [discriminate | auto].
           ++ eauto.
    + specialize (IH (S i) (Some i)). destruct (ts_scan dyn cs (S i) (Some i)) as [k|].
      * destruct IH as [[j [ts' [Hk [Hn [Hmm Hbefore]]]]] | [Hnone Hd]].
        -- left. exists (S j), ts'. repeat split; auto; try lia.
           intros j' c Hlt Hc. destruct j'; simpl in Hc.
           ** inversion Hc; subst. auto.
           ** eapply Hbefore; eauto. lia.
        -- right. split.
           ** intros j c Hc. destruct j; simpl in Hc; [inversion Hc; subst; auto | eauto].
           ** right. destruct Hd as [Hd | [j [Hk Hj]]].
              --- inversion Hd; subst. exists 0. split; auto.
              --- exists (S j). split; auto. lia.
      * destruct IH as [Hd _]. discriminate.
Qed.

(* the clause taken is the first one, in source order, that lists the dynamic type (or nil for a nil interface);
   if no clause matches it is a default clause wherever it stands; without a default no clause is taken *)
Theorem typeswitch_first_match : forall dyn cs,
  match typeswitch dyn cs with
  | Some k =>
      (exists ts, nth_error cs k = Some (Case ts) /\ clause_matches dyn (Case ts) = true /\
                  forall j c, j < k -> nth_error cs j = Some c -> clause_matches dyn c = false) \/
      (nth_error cs k = Some Default /\ forall j c, nth_error cs j = Some c -> clause_matches dyn c = false)
  | None => forall j c, nth_error cs j = Some c -> c <> Default /\ clause_matches dyn c = false
  end.
Proof.
  intros dyn cs. unfold typeswitch. pose proof (ts_scan_spec dyn cs 0 None) as H.
  destruct (ts_scan dyn cs 0 None) as [k|].
  - destruct H as [[j [ts [Hk [Hn [Hm Hb]]]]] | [Hnone [Hd | [j [Hk Hj]]]]].
    + left. simpl in Hk. subst k. exists ts. auto.
    + discriminate.
    + right. simpl in Hk. subst k. auto.
  - destruct H; auto.
Qed.

(* ================= caches ================= *)
(* reference semantics without any cache: every lookup is recomputed on the current environment *)
Definition uF (e : env) (t : nat) (q : N) := FieldByName_uncached (fuel_for e) e t q.
Definition uM (e : env) (t : nat) (q : N) := MethodByName_uncached (fuel_for e) e t q.

Definition ustep (e : env) (o : op) : env * out :=
  match o with
  | OLookF t q => (e, match uF e t q with Some r => RF (fr_count r) (fr_index r) | None => RCrash end)
  | OLookM t q => (e, match uM e t q with Some r => RM (mr_count r) (mr_findex r) (mr_index r) | None => RCrash end)
  | OSel t q => (e, match uF e t q with
                    | Some f => match uM e t q with Some mt => RS (combine_fm f mt) | None => RCrash end
                    | None => RCrash
                    end)
  | OAddM t q p => (upd_methods e t q p, RUnit)
  end.
Fixpoint urun (e : env) (ops : list op) : list out :=
  match ops with
  | [] => []
  | o :: ops' => let '(e1, r) := ustep e o in r :: urun e1 ops'
  end.

Definition consistent (s : state) : Prop :=
  (forall t q r, c_get (s_fc s) (t, q) = Some r -> fields_of (s_env s) t <> None -> uF (s_env s) t q = Some r) /\
  (forall t q r, c_get (s_mc s) (t, q) = Some r -> uM (s_env s) t q = Some r).

Lemma key_eqb_eq : forall a b, key_eqb a b = true <-> a = b.
Proof.
  intros [a1 a2] [b1 b2]. unfold key_eqb. simpl. rewrite andb_true_iff, Nat.eqb_eq, N.eqb_eq.
  split; [intros [-> ->]; auto | intros H; inversion H; auto].
Qed.

Lemma c_get_cons : forall A (c : list (key * A)) k v k' r,
  c_get ((k, v) :: c) k' = Some r -> (k = k' /\ v = r) \/ c_get c k' = Some r.
Proof.
  intros A c k v k' r H. simpl in H. destruct (key_eqb k k') eqn:He.
  - apply key_eqb_eq in He. inversion H. auto.
  - auto.
Qed.

Lemma FieldByName_spec : forall s t q,
  consistent s ->
  match FieldByName s t q with
  | Some (r, s') => uF (s_env s) t q = Some r /\ consistent s' /\ s_env s' = s_env s
  | None => uF (s_env s) t q = None
  end.
Proof.
  intros s t q [Hf Hm]. unfold FieldByName.
  destruct (fields_of (s_env s) t) as [fs|] eqn:Hfs.
  - destruct (c_get (s_fc s) (t, q)) as [r|] eqn:Hc.
    + repeat split; auto. apply Hf; auto. rewrite Hfs. discriminate.
    + fold (uF (s_env s) t q). destruct (uF (s_env s) t q) as [r|] eqn:Hu; auto.
      split; [auto|]. destruct (Z.ltb 0 (fr_count r)); [| split; [split; auto | auto]].
      split; [|auto]. split; simpl; [|exact Hm].
      intros t' q' r' Hg Hne. apply c_get_cons in Hg. destruct Hg as [[Hk <-] | Hg]; auto.
      inversion Hk; subst. auto.
  - unfold uF, FieldByName_uncached. rewrite Hfs. repeat split; auto.
Qed.

Lemma MethodByName_spec : forall s t q,
  consistent s ->
  match MethodByName s t q with
  | Some (r, s') => uM (s_env s) t q = Some r /\ consistent s' /\ s_env s' = s_env s
  | None => uM (s_env s) t q = None
  end.
Proof.
  intros s t q [Hf Hm]. unfold MethodByName.
  destruct (c_get (s_mc s) (t, q)) as [r|] eqn:Hc.
  - repeat split; auto.
  - fold (uM (s_env s) t q). destruct (uM (s_env s) t q) as [r|] eqn:Hu; auto.
    split; [auto|]. destruct (Z.ltb 0 (mr_count r)); [| split; [split; auto | auto]].
    split; [|auto]. split; simpl; [exact Hf|].
    intros t' q' r' Hg. apply c_get_cons in Hg. destruct Hg as [[Hk <-] | Hg]; auto.
    inversion Hk; subst. auto.
Qed.

(* a method declaration does not change what the field search sees *)
Lemma upd_methods_nth : forall e t n p k,
  nth_error (upd_methods e t n p) k =
  match nth_error e k with
  | Some d => Some (if Nat.eqb k t then mkT (t_name d) (t_kind d) (replace_method (t_methods d) n p) else d)
  | None => None
  end.
Proof.
  induction e as [|d e IH]; intros t n p k; simpl.
  - destruct t; destruct k; auto.
  - destruct t; destruct k; simpl; auto.
    destruct (nth_error e k); auto.
Qed.

Lemma upd_fields_of : forall e t n p k, fields_of (upd_methods e t n p) k = fields_of e k.
Proof.
  intros. unfold fields_of. rewrite upd_methods_nth. destruct (nth_error e k); auto. destruct (Nat.eqb k t); auto.
Qed.
Lemma upd_name_of : forall e t n p k, name_of (upd_methods e t n p) k = name_of e k.
Proof.
  intros. unfold name_of. rewrite upd_methods_nth. destruct (nth_error e k); auto. destruct (Nat.eqb k t); auto.
Qed.
Lemma upd_length : forall e t n p, length (upd_methods e t n p) = length e.
Proof. induction e; intros; destruct t; simpl; auto. Qed.

Section SameFields.
Variables e e' : env.
Hypothesis Hfo : forall k, fields_of e' k = fields_of e k.
Hypothesis Hno : forall k, name_of e' k = name_of e k.

Lemma match_field_same : forall q f, match_field e' q f = match_field e q f.
Proof. intros. unfold match_field. destruct (emb_target f); auto. rewrite Hno. auto. Qed.

Lemma scan_fields_same : forall q fs index i found count tv,
  scan_fields e' q index fs i found count tv = scan_fields e q index fs i found count tv.
Proof.
  induction fs; intros; simpl; auto. rewrite match_field_same.
  destruct (match_field e q a); auto. destruct (emb_target a); auto. destruct (Nat.eqb count 0); auto.
Qed.

Lemma fieldByName_same : forall q t index m, fieldByName e' q t index m = fieldByName e q t index m.
Proof.
  intros. unfold fieldByName. rewrite Hfo. destruct (fields_of e t); auto.
  destruct (dm_visited m t (length index)). destruct b; auto. rewrite scan_fields_same. auto.
Qed.

Lemma level_f_same : forall q tv m fld count next, level_f e' q tv m fld count next = level_f e q tv m fld count next.
Proof.
  induction tv as [|[t idx] tv IH]; intros; simpl; auto. rewrite fieldByName_same.
  destruct (fieldByName e q t idx m) as [[[ef ec] etv] m']. auto.
Qed.

Opaque level_f.
Lemma bfs_f_same : forall fuel q tv m, bfs_f fuel e' q tv m = bfs_f fuel e q tv m.
Proof.
  induction fuel; intros; destruct tv; simpl; auto. rewrite level_f_same.
  destruct (level_f e q (e0 :: tv) m None 0 []) as [[[fld count] next] m']. destruct (Nat.eqb count 0); auto.
Qed.
Transparent level_f.

Lemma FieldByName_uncached_same : forall fuel t q, FieldByName_uncached fuel e' t q = FieldByName_uncached fuel e t q.
Proof.
  intros. unfold FieldByName_uncached. rewrite Hfo. destruct (fields_of e t); auto.
  rewrite fieldByName_same. destruct (fieldByName e q t [] []) as [[[f c] tv] m].
  rewrite bfs_f_same. auto.
Qed.
End SameFields.

Lemma uF_upd : forall e t n p k q, uF (upd_methods e t n p) k q = uF e k q.
Proof.
  intros. unfold uF, fuel_for. rewrite upd_length.
  apply FieldByName_uncached_same; intros; [apply upd_fields_of | apply upd_name_of].
Qed.

Lemma step_spec : forall s o,
  consistent s ->
  let '(s', r) := step s o in
  consistent s' /\ s_env s' = fst (ustep (s_env s) o) /\ r = snd (ustep (s_env s) o).
Proof.
  intros s o Hc. destruct o as [t q | t q | t q | t q p]; simpl.
  - pose proof (FieldByName_spec s t q Hc) as H. destruct (FieldByName s t q) as [[r s']|].
    + destruct H as [Hu [Hc' He]]. rewrite Hu. auto.
    + rewrite H. auto.
  - pose proof (MethodByName_spec s t q Hc) as H. destruct (MethodByName s t q) as [[r s']|].
    + destruct H as [Hu [Hc' He]]. rewrite Hu. auto.
    + rewrite H. auto.
  - unfold TryLookup. pose proof (FieldByName_spec s t q Hc) as H. destruct (FieldByName s t q) as [[f s1]|].
    + destruct H as [Hu [Hc1 He1]]. rewrite Hu.
      pose proof (MethodByName_spec s1 t q Hc1) as H2. destruct (MethodByName s1 t q) as [[mt s2]|].
      * destruct H2 as [Hu2 [Hc2 He2]]. rewrite He1 in Hu2. rewrite Hu2. split; [auto | split; [congruence | auto]].
      * rewrite He1 in H2. rewrite H2. auto.
    + rewrite H. auto.
  - split; [|auto]. destruct Hc as [Hf Hm]. unfold AddMethod. split; simpl.
    + intros t' q' r Hg Hne. rewrite uF_upd. apply Hf; auto. rewrite upd_fields_of in Hne. auto.
    + intros t' q' r Hg. discriminate.
Qed.

Lemma run_spec : forall ops s, consistent s -> snd (run s ops) = urun (s_env s) ops.
Proof.
  induction ops as [|o ops IH]; intros s Hc; simpl; auto.
  pose proof (step_spec s o Hc) as H. destruct (step s o) as [s1 r].
  destruct H as [Hc1 [He1 Hr]]. specialize (IH s1 Hc1).
  destruct (run s1 ops) as [s2 rs]. simpl in *. destruct (ustep (s_env s) o) as [e1 r1]. simpl in *.
  subst. auto.
Qed.

Theorem cache_transparent : forall e ops, snd (run (init e) ops) = urun e ops.
Proof.
  intros. apply (run_spec ops (init e)). split; simpl; intros; discriminate.
Qed.

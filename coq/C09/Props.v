(* C09 — property theorems only: each closed by [exact lemma], followed by Print Assumptions. *)
From Coq Require Import List NArith ZArith Bool Arith.
From Verif Require Import C09.Model C09.Proof C09.ProofM C09.Proof2 C09.Proof3.
Import ListNotations.

(* Specification used below (Proof.v): [level e n root] = the embedded fields reached from [root] through exactly n
   embedding steps in the UNFOLDED embedding tree (Go spec: depth of a field/method = number of embedded fields
   traversed), no pruning, duplicates kept, with their index paths; [occ_f e q n root] / [occ_m e q n root] = the fields /
   methods named q declared directly in the types of that level, in order.  All theorems hold for EVERY environment:
   any embedding graph, including pointer cycles (type T struct{ *T }) — the searches are fuelled and the statements
   hold for every fuel on which the search returns. *)

(* FieldByName's breadth-first search with the visited-depth map and the count==0 cut-offs returns: nothing iff the name
   is a field at no depth of the (possibly infinite) unfolded tree; otherwise the number of fields at the SHALLOWEST depth
   where the name occurs and the index path of the first of them *)
Theorem C09_field_bfs_shallowest : forall e q root fuel r,
  FieldByName_uncached fuel e root q = Some r ->
  (fr_count r = 0%Z /\ fr_index r = [] /\ forall n, occ_f e q n root = []) \/
  (exists d, (forall d', d' < d -> occ_f e q d' root = []) /\ occ_f e q d root <> [] /\
             fr_count r = Z.of_nat (length (occ_f e q d root)) /\ hd_error (occ_f e q d root) = Some (fr_index r)).
Proof. exact field_bfs_shallowest. Qed.
Print Assumptions C09_field_bfs_shallowest.

(* the same for MethodByName (methods of the type itself at depth 0, then of the embedded fields level by level);
   [mres_matches]: count, FieldIndex and Index of the first method at that depth, Index = -count when ambiguous *)
Theorem C09_method_bfs_shallowest : forall e q root fuel r,
  MethodByName_uncached fuel e root q = Some r ->
  (mr_count r = 0%Z /\ mr_findex r = [] /\ forall n, occ_m e q n root = []) \/
  (exists d, (forall d', d' < d -> occ_m e q d' root = []) /\ occ_m e q d root <> [] /\
             mres_matches r (occ_m e q d root)).
Proof. exact method_bfs_shallowest. Qed.
Print Assumptions C09_method_bfs_shallowest.

(* TryLookupFieldOrMethod (after fix C09-1) implements the Go selector rule [go_select]: take the shallowest depth at
   which the name occurs among fields AND methods; exactly one occurrence there -> that field / method, several ->
   illegal (ambiguous), none at any depth -> not found *)
Theorem C09_selector_matches_go_rule : forall e q root fuel rf rm,
  FieldByName_uncached fuel e root q = Some rf ->
  MethodByName_uncached fuel e root q = Some rm ->
  go_select e q root (combine_fm rf rm).
Proof. exact selector_matches_go_rule. Qed.
Print Assumptions C09_selector_matches_go_rule.

(* on the code BEFORE fix C09-1 (ambiguity marker resets field.Index, i.e. depth 0) the rule is refuted by DESIGN 7 #12 *)
Theorem C09_selector_refuted_before_fix : exists e q root rf rm,
  FieldByName_uncached 10 e root q = Some rf /\ MethodByName_uncached 10 e root q = Some rm /\
  go_select e q root (SMethod [] 0) /\
  combine_fm (mkF (fr_count rf) (if Z.ltb 1 (fr_count rf) then [] else fr_index rf)) rm = SAmbig.
Proof. exact selector_refuted_before_fix. Qed.
Print Assumptions C09_selector_refuted_before_fix.

(* every history of FieldByName / MethodByName / TryLookupFieldOrMethod calls and method declarations (AddMethod, after
   fix C09-2) answers exactly as the cache-free reference that recomputes every lookup on the current declarations *)
Theorem C09_cache_transparent : forall e ops, snd (run (init e) ops) = urun e ops.
Proof. exact cache_transparent. Qed.
Print Assumptions C09_cache_transparent.

(* type switch: the first clause in source order that lists the dynamic type (nil for a nil interface) is taken;
   a default clause, wherever it stands, only if no clause matches; otherwise none *)
Theorem C09_typeswitch_first_match : forall dyn cs,
  match typeswitch dyn cs with
  | Some k =>
      (exists ts, nth_error cs k = Some (Case ts) /\ clause_matches dyn (Case ts) = true /\
                  forall j c, j < k -> nth_error cs j = Some c -> clause_matches dyn c = false) \/
      (nth_error cs k = Some Default /\ forall j c, nth_error cs j = Some c -> clause_matches dyn c = false)
  | None => forall j c, nth_error cs j = Some c -> c <> Default /\ clause_matches dyn c = false
  end.
Proof. exact typeswitch_first_match. Qed.
Print Assumptions C09_typeswitch_first_match.

(* ---------------- non-vacuity ---------------- *)
(* names: X=0 A=1 B=2 T=3 C=4 M=5;   type T struct{A;B}  func (T) X();  type A struct{X int};  type B struct{X int; *T}
   (pointer cycle T -> B -> *T);  type C struct{ T }   *)
Definition ex_env : env :=
  [ mkT 3 (KStruct [mkField 1 (FVal 1); mkField 2 (FVal 2)]) [(0%N, false)];
    mkT 1 (KStruct [mkField 0 FInt]) [];
    mkT 2 (KStruct [mkField 0 FInt; mkField 3 (FPtr 0)]) [(5%N, true)];
    mkT 4 (KStruct [mkField 3 (FVal 0)]) [] ].

(* DESIGN 7 #12: two fields X at depth 1 (count 2, Index of the first kept), method X at depth 0 wins *)
Example C09_ex_method_beats_deeper_ambiguous_fields :
  snd (run (init ex_env) [OLookF 0 0; OLookM 0 0; OSel 0 0; OSel 0 0])
  = [RF 2 [0; 0]%Z; RM 1 [] 0; RS (SMethod [] 0); RS (SMethod [] 0)].
Proof. vm_compute. reflexivity. Qed.
(* through C: method at depth 1, fields at depth 2; M found through the pointer cycle at depth 2; unknown name: the
   search over the cyclic graph terminates with "not found" *)
Example C09_ex_depths_and_cycle :
  snd (run (init ex_env) [OSel 3 0; OLookF 3 0; OSel 3 5; OSel 0 5; OSel 0 9; OLookF 3 1])
  = [RS (SMethod [0]%Z 0); RF 2 [0; 0; 0]%Z; RS (SMethod [0; 1]%Z 0); RS (SMethod [1]%Z 0); RS SNone; RF 1 [0; 0]%Z].
Proof. vm_compute. reflexivity. Qed.
(* a method declared later shadows the cached promoted one (fix C09-2): B.M at depth 1, then func (T) M *)
Example C09_ex_late_method :
  snd (run (init ex_env) [OLookM 0 5; OAddM 0 5 false; OLookM 0 5; OSel 3 5])
  = [RM 1 [1]%Z 0; RUnit; RM 1 [] 1; RS (SMethod [0]%Z 1)].
Proof. vm_compute. reflexivity. Qed.
(* two methods at the same depth: ambiguity marker Index = -count; field and method at equal depth: illegal *)
Example C09_ex_ambiguous :
  snd (run (init [mkT 0 (KStruct [mkField 1 (FVal 1); mkField 2 (FPtr 2); mkField 7 FInt]) [];
                  mkT 1 KBasic [(5%N, false)]; mkT 2 (KStruct [mkField 7 FInt]) [(5%N, true); (7%N, false)]])
            [OLookM 0 5; OSel 0 5; OSel 0 7; OLookF 0 7])
  = [RM 2 [0]%Z (-2); RS SAmbig; RS (SField [2]%Z); RF 1 [2]%Z].
Proof. vm_compute. reflexivity. Qed.
(* diamond: T0 struct{T1;T2}, T1 struct{T3}, T2 struct{Y int; *T3}, T3 struct{X int} with method M, T4 struct{T3;T1}
   (names: X=0 Y=1 M=5 T0..T4=10..14).  T3 is reached from T0 through two embedded fields at the same depth 2: X, M and
   the embedded field T3 itself are ambiguous in T0 (both occurrences counted: the visited-depth map skips a type only
   when it was seen at a SHALLOWER depth; the second lookup is the cached marker); Y is not; in the skewed T4 the
   shallower T3 wins *)
Definition ex_diamond : env :=
  [ mkT 10 (KStruct [mkField 11 (FVal 1); mkField 12 (FVal 2)]) [];
    mkT 11 (KStruct [mkField 13 (FVal 3)]) [];
    mkT 12 (KStruct [mkField 1 FInt; mkField 13 (FPtr 3)]) [];
    mkT 13 (KStruct [mkField 0 FInt]) [(5%N, false)];
    mkT 14 (KStruct [mkField 13 (FVal 3); mkField 11 (FVal 1)]) [] ].
Example C09_ex_diamond :
  snd (run (init ex_diamond) [OLookF 0 0; OLookF 0 0; OLookM 0 5; OSel 0 0; OSel 0 5; OSel 0 13; OSel 0 1; OSel 4 0; OSel 4 5])
  = [RF 2 [0; 0; 0]%Z; RF 2 [0; 0; 0]%Z; RM 2 [0; 0]%Z (-2); RS SAmbig; RS SAmbig; RS SAmbig;
     RS (SField [1; 0]%Z); RS (SField [0; 0]%Z); RS (SMethod [0]%Z 0)].
Proof. vm_compute. reflexivity. Qed.
(* type switch: case T1, T2 / default / case nil / case T0 *)
Example C09_ex_typeswitch :
  map (fun d => typeswitch d [Case [Some 1; Some 2]; Default; Case [None]; Case [Some 0; Some 1]]) [Some 2; Some 0; None; Some 1; Some 9]
  = [Some 0; Some 3; Some 2; Some 0; Some 1].
Proof. vm_compute. reflexivity. Qed.

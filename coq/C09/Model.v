(* C09 — executable model of xreflect/lookup.go (FieldByName, MethodByName: breadth-first searches with the
   visited-depth map, the count==0 cut-offs, the ambiguity markers, the per-type caches), xreflect/named.go
   AddMethod (cache invalidation), fast/selector.go TryLookupFieldOrMethod (depth comparison of the best field and
   the best method) and fast/switch_type.go (dispatch of a type switch).  Models the code AFTER the fix: commits
   C09-1 (ambiguous-field marker keeps Index) and C09-2 (AddMethod always invalidates the method caches).
   Definitions only (no proofs) so the model keeps running when a proof breaks. *)
From Coq Require Import List NArith ZArith Bool Arith.
Import ListNotations.

(* ---------- type hierarchies ---------- *)
(* a named type is identified by its position in the environment; names are numbers *)
Inductive ftype :=
| FInt                 (* a plain (not embedded) field; its type plays no role in the lookup *)
| FVal (t : nat)       (* embedded field  T  *)
| FPtr (t : nat).      (* embedded field *T  *)
Record field := mkField { f_name : N; f_type : ftype }.   (* the name of an embedded field is its type's name *)
Inductive tkind := KStruct (fs : list field) | KBasic | KIface.
(* methods: (name, pointer receiver?) in declaration order; for an interface: its method set, sorted by name *)
Record tdef := mkT { t_name : N; t_kind : tkind; t_methods : list (N * bool) }.
Definition env := list tdef.

Definition path := list Z.                  (* StructField.Index / Method.FieldIndex *)
Definition entry := (nat * path)%type.      (* a field to visit: (type it refers to, after derefStruct; its Index) *)

Definition fields_of (e : env) (t : nat) : option (list field) :=   (* derefStruct: Some iff (pointer to) struct *)
  match nth_error e t with
  | Some d => match t_kind d with KStruct fs => Some fs | _ => None end
  | None => None
  end.
Definition methods_of (e : env) (t : nat) : list (N * bool) :=
  match nth_error e t with Some d => t_methods d | None => [] end.
Definition name_of (e : env) (t : nat) : option N :=
  match nth_error e t with Some d => Some (t_name d) | None => None end.

Definition emb_target (f : field) : option nat :=
  match f_type f with FInt => None | FVal t => Some t | FPtr t => Some t end.

(* matchFieldByName: the field name, or for an anonymous field the name of its (pointed-to) type *)
Definition match_field (e : env) (q : N) (f : field) : bool :=
  N.eqb q (f_name f) ||
  match emb_target f with
  | Some t => match name_of e t with Some n => N.eqb q n | None => false end
  | None => false
  end.

(* ---------- depthMap ---------- *)
(* typeutil.Map keyed by the underlying struct type; two distinct named types have distinct (non-identical) struct
   types here because every generated struct carries a field of a unique name, so the key is the type id *)
Definition dmap := list (nat * nat).
Fixpoint dm_get (m : dmap) (t : nat) : option nat :=
  match m with
  | [] => None
  | (k, d) :: m' => if Nat.eqb k t then Some d else dm_get m' t
  end.
Definition dm_set (m : dmap) (t d : nat) : dmap := (t, d) :: m.
(* depthMap.visited: true iff already visited at a SHALLOWER depth; otherwise records the depth *)
Definition dm_visited (m : dmap) (t depth : nat) : bool * dmap :=
  match dm_get m t with
  | Some a => if Nat.ltb a depth then (true, m) else (false, dm_set m t depth)
  | None => (false, dm_set m t depth)
  end.

(* ---------- fieldByName (one struct) ---------- *)
(* the loop  for i := 0; i < n; i++  over the fields; i is carried as a Z index *)
Fixpoint scan_fields (e : env) (q : N) (index : path) (fs : list field) (i : Z)
         (found : option path) (count : nat) (tovisit : list entry) : option path * nat * list entry :=
  match fs with
  | [] => (found, count, tovisit)
  | f :: fs' =>
      if match_field e q f then
        scan_fields e q index fs' (i + 1)%Z (if Nat.eqb count 0 then Some (index ++ [i]) else found) (S count) tovisit
      else
        match emb_target f with
        | Some t =>
            if Nat.eqb count 0
            then scan_fields e q index fs' (i + 1)%Z found count (tovisit ++ [(t, index ++ [i])])
            else scan_fields e q index fs' (i + 1)%Z found count tovisit
        | None => scan_fields e q index fs' (i + 1)%Z found count tovisit
        end
  end.

Definition fieldByName (e : env) (q : N) (t : nat) (index : path) (m : dmap)
  : (option path * nat * list entry) * dmap :=
  match fields_of e t with
  | None => ((None, 0, []), m)                         (* gtype == nil: visited is not evaluated *)
  | Some fs =>
      let (v, m') := dm_visited m t (length index) in
      if v then ((None, 0, []), m') else (scan_fields e q index fs 0%Z None 0 [], m')
  end.

(* the body of  for _, f := range tovisit  *)
Fixpoint level_f (e : env) (q : N) (tv : list entry) (m : dmap) (fld : option path) (count : nat) (next : list entry)
  : option path * nat * list entry * dmap :=
  match tv with
  | [] => (fld, count, next, m)
  | (t, idx) :: tv' =>
      let '((ef, ec, etv), m') := fieldByName e q t idx m in
      let fld' := if Nat.eqb count 0 then (if Nat.ltb 0 ec then ef else fld) else fld in
      let next' := if Nat.eqb count 0 then (if Nat.ltb 0 ec then next else next ++ etv) else next in
      level_f e q tv' m' fld' (count + ec) next'
  end.

(* for count == 0 && len(tovisit) != 0 { ... }   — fuel bounds the number of levels *)
Fixpoint bfs_f (fuel : nat) (e : env) (q : N) (tv : list entry) (m : dmap) : option (option path * nat) :=
  match tv with
  | [] => Some (None, 0)
  | _ =>
      match fuel with
      | O => None
      | S fuel' =>
          let '(fld, count, next, m') := level_f e q tv m None 0 [] in
          if Nat.eqb count 0 then bfs_f fuel' e q next m' else Some (fld, count)
      end
  end.

(* result of Type.FieldByName: (count, field.Index).  After fix C09-1 the Index of the first field found is kept
   also when count > 1 (the marker is field.Type == nil) *)
Record fres := mkF { fr_count : Z; fr_index : path }.
Definition fres_of (r : option path * nat) : fres :=
  mkF (Z.of_nat (snd r)) (match fst r with Some p => p | None => [] end).

Definition FieldByName_uncached (fuel : nat) (e : env) (t : nat) (q : N) : option fres :=
  match fields_of e t with
  | None => Some (mkF 0 [])                             (* t.kind != r.Struct *)
  | Some _ =>
      let '((f, c, tv), m) := fieldByName e q t [] [] in
      if Nat.eqb c 0 then option_map fres_of (bfs_f fuel e q tv m) else Some (fres_of (f, c))
  end.

(* ---------- methodByName (one type) ---------- *)
Fixpoint scan_methods (q : N) (ms : list (N * bool)) (i : Z) (found : option Z) (count : nat) : option Z * nat :=
  match ms with
  | [] => (found, count)
  | (n, _) :: ms' =>
      if N.eqb q n
      then scan_methods q ms' (i + 1)%Z (if Nat.eqb count 0 then Some i else found) (S count)
      else scan_methods q ms' (i + 1)%Z found count
  end.
(* returns (Method.Index of the first match, count) *)
Definition methodByName (e : env) (q : N) (t : nat) : option Z * nat := scan_methods q (methods_of e t) 0%Z None 0.

Fixpoint emb_entries (index : path) (fs : list field) (i : Z) : list entry :=
  match fs with
  | [] => []
  | f :: fs' =>
      match emb_target f with
      | Some t => (t, index ++ [i]) :: emb_entries index fs' (i + 1)%Z
      | None => emb_entries index fs' (i + 1)%Z
      end
  end.

Definition anonymousFields (e : env) (t : nat) (index : path) (m : dmap) : list entry * dmap :=
  match fields_of e t with
  | None => ([], m)
  | Some fs =>
      let (v, m') := dm_visited m t (length index) in
      if v then ([], m') else (emb_entries index fs 0%Z, m')
  end.

Definition mfound := option (path * Z).     (* (Method.FieldIndex, Method.Index) of the first method found *)

Fixpoint level_m (e : env) (q : N) (tv : list entry) (m : dmap) (mt : mfound) (count : nat) (next : list entry)
  : mfound * nat * list entry * dmap :=
  match tv with
  | [] => (mt, count, next, m)
  | (t, idx) :: tv' =>
      let '(em, ec) := methodByName e q t in
      if Nat.eqb count 0 then
        if Nat.ltb 0 ec
        then level_m e q tv' m (match em with Some i => Some (idx, i) | None => mt end) (count + ec) next
        else let '(kids, m') := anonymousFields e t idx m in level_m e q tv' m' mt (count + ec) (next ++ kids)
      else level_m e q tv' m mt (count + ec) next
  end.

Fixpoint bfs_m (fuel : nat) (e : env) (q : N) (tv : list entry) (m : dmap) : option (mfound * nat) :=
  match tv with
  | [] => Some (None, 0)
  | _ =>
      match fuel with
      | O => None
      | S fuel' =>
          let '(mt, count, next, m') := level_m e q tv m None 0 [] in
          if Nat.eqb count 0 then bfs_m fuel' e q next m' else Some (mt, count)
      end
  end.

(* result of Type.MethodByName: (count, FieldIndex, Index); cacheMethodByName overwrites Index with -count when
   count > 1 (marker for ambiguous method names) before the method is returned *)
Record mres := mkM { mr_count : Z; mr_findex : path; mr_index : Z }.
Definition mres_of (r : mfound * nat) : mres :=
  let c := Z.of_nat (snd r) in
  match fst r with
  | Some (p, i) => mkM c p (if Nat.ltb 1 (snd r) then (- c)%Z else i)
  | None => mkM c [] 0
  end.

Definition MethodByName_uncached (fuel : nat) (e : env) (t : nat) (q : N) : option mres :=
  match methodByName e q t with
  | (Some i, S c) => Some (mres_of (Some ([], i), S c))
  | _ =>
      let '(tv, m) := anonymousFields e t [] [] in
      option_map mres_of (bfs_m fuel e q tv m)
  end.

(* ---------- caches ---------- *)
Definition key := (nat * N)%type.
Definition key_eqb (a b : key) : bool := Nat.eqb (fst a) (fst b) && N.eqb (snd a) (snd b).
Fixpoint c_get {A} (c : list (key * A)) (k : key) : option A :=
  match c with
  | [] => None
  | (k', v) :: c' => if key_eqb k' k then Some v else c_get c' k
  end.

Record state := mkSt { s_env : env; s_fc : list (key * fres); s_mc : list (key * mres) }.

Definition fuel_for (e : env) : nat := S (length e).

(* Type.FieldByName with the per-type cache: only successful lookups (count > 0) are cached *)
Definition FieldByName (s : state) (t : nat) (q : N) : option (fres * state) :=
  match fields_of (s_env s) t with
  | None => Some (mkF 0 [], s)
  | Some _ =>
      match c_get (s_fc s) (t, q) with
      | Some r => Some (r, s)
      | None =>
          match FieldByName_uncached (fuel_for (s_env s)) (s_env s) t q with
          | None => None
          | Some r => Some (r, if Z.ltb 0 (fr_count r) then mkSt (s_env s) (((t, q), r) :: s_fc s) (s_mc s) else s)
          end
      end
  end.

Definition MethodByName (s : state) (t : nat) (q : N) : option (mres * state) :=
  match c_get (s_mc s) (t, q) with
  | Some r => Some (r, s)
  | None =>
      match MethodByName_uncached (fuel_for (s_env s)) (s_env s) t q with
      | None => None
      | Some r => Some (r, if Z.ltb 0 (mr_count r) then mkSt (s_env s) (s_fc s) (((t, q), r) :: s_mc s) else s)
      end
  end.

(* xtype.AddMethod (after fix C09-2): replaces the method of the same name or appends it, and always clears every
   method cache (Universe.InvalidateMethodCache); the field caches are untouched *)
Fixpoint replace_method (ms : list (N * bool)) (n : N) (p : bool) : list (N * bool) :=
  match ms with
  | [] => [(n, p)]
  | (n', p') :: ms' => if N.eqb n n' then (n, p) :: ms' else (n', p') :: replace_method ms' n p
  end.
Fixpoint upd_methods (e : env) (t : nat) (n : N) (p : bool) : env :=
  match e, t with
  | [], _ => []
  | d :: e', O => mkT (t_name d) (t_kind d) (replace_method (t_methods d) n p) :: e'
  | d :: e', S t' => d :: upd_methods e' t' n p
  end.
Definition AddMethod (s : state) (t : nat) (n : N) (p : bool) : state :=
  mkSt (upd_methods (s_env s) t n p) (s_fc s) [].

(* ---------- fast.Comp.TryLookupFieldOrMethod ---------- *)
Inductive selres :=
| SField (index : path)
| SMethod (findex : path) (index : Z)
| SAmbig                         (* err != nil *)
| SNone.

Definition combine_fm (f : fres) (mt : mres) : selres :=
  let fielddepth := Z.of_nat (length (fr_index f)) in
  let mtddepth := (Z.of_nat (length (mr_findex mt)) + 1)%Z in
  let fieldn := fr_count f in
  let mtdn := mr_count mt in
  let both := negb (Z.eqb fieldn 0) && negb (Z.eqb mtdn 0) in
  let fieldn' := if both && Z.ltb mtddepth fielddepth then 0%Z else fieldn in   (* prefer the method *)
  let mtdn' := if both && Z.ltb fielddepth mtddepth then 0%Z else mtdn in       (* prefer the field *)
  let err1 := both && Z.eqb fielddepth mtddepth in
  let err2 := Z.ltb 1 fieldn' || Z.ltb 1 mtdn' in
  if err1 || err2 then SAmbig
  else if Z.eqb fieldn' 1 then SField (fr_index f)
  else if Z.eqb mtdn' 1 then SMethod (mr_findex mt) (mr_index mt)
  else SNone.

Definition TryLookup (s : state) (t : nat) (q : N) : option (selres * state) :=
  match FieldByName s t q with
  | None => None
  | Some (f, s1) =>
      match MethodByName s1 t q with
      | None => None
      | Some (mt, s2) => Some (combine_fm f mt, s2)
      end
  end.

(* ---------- histories of lookups and method declarations ---------- *)
Inductive op := OLookF (t : nat) (q : N) | OLookM (t : nat) (q : N) | OSel (t : nat) (q : N) | OAddM (t : nat) (q : N) (p : bool).
Inductive out := RF (count : Z) (index : path) | RM (count : Z) (findex : path) (index : Z) | RS (r : selres) | RUnit | RCrash.

Definition step (s : state) (o : op) : state * out :=
  match o with
  | OLookF t q => match FieldByName s t q with Some (r, s') => (s', RF (fr_count r) (fr_index r)) | None => (s, RCrash) end
  | OLookM t q => match MethodByName s t q with Some (r, s') => (s', RM (mr_count r) (mr_findex r) (mr_index r)) | None => (s, RCrash) end
  | OSel t q => match TryLookup s t q with Some (r, s') => (s', RS r) | None => (s, RCrash) end
  | OAddM t q p => (AddMethod s t q p, RUnit)
  end.

Fixpoint run (s : state) (ops : list op) : state * list out :=
  match ops with
  | [] => (s, [])
  | o :: ops' => let '(s1, r) := step s o in let '(s2, rs) := run s1 ops' in (s2, r :: rs)
  end.

Definition init (e : env) : state := mkSt e [] [].

(* ---------- type switch dispatch (fast/switch_type.go) ---------- *)
(* dynamic type of the tag: None = nil interface; a clause lists types (None = the nil case); Default marks `default:` *)
Inductive clause := Case (ts : list (option nat)) | Default.
Definition opt_eqb (a b : option nat) : bool :=
  match a, b with
  | None, None => true
  | Some x, Some y => Nat.eqb x y
  | _, _ => false
  end.
(* the compiled code: clauses are tested in source order; the default clause compiles to a header that is skipped;
   after the last clause an unconditional jump to the default body (if any) *)
Fixpoint ts_scan (dyn : option nat) (cs : list clause) (i : nat) (defaulti : option nat) : option nat :=
  match cs with
  | [] => defaulti
  | Default :: cs' => ts_scan dyn cs' (S i) (Some i)
  | Case ts :: cs' => if existsb (opt_eqb dyn) ts then Some i else ts_scan dyn cs' (S i) defaulti
  end.
Definition typeswitch (dyn : option nat) (cs : list clause) : option nat := ts_scan dyn cs 0 None.

(* ---------- correspondence ---------- *)
Fixpoint path_eqb (a b : path) : bool :=
  match a, b with
  | [], [] => true
  | x :: a', y :: b' => Z.eqb x y && path_eqb a' b'
  | _, _ => false
  end.
Definition sel_eqb (a b : selres) : bool :=
  match a, b with
  | SField p, SField p' => path_eqb p p'
  | SMethod p i, SMethod p' i' => path_eqb p p' && Z.eqb i i'
  | SAmbig, SAmbig => true
  | SNone, SNone => true
  | _, _ => false
  end.
Definition out_eqb (a b : out) : bool :=
  match a, b with
  | RF c p, RF c' p' => Z.eqb c c' && path_eqb p p'
  | RM c p i, RM c' p' i' => Z.eqb c c' && path_eqb p p' && Z.eqb i i'
  | RS r, RS r' => sel_eqb r r'
  | RUnit, RUnit => true
  | _, _ => false
  end.
Fixpoint outs_eqb (a b : list out) : bool :=
  match a, b with
  | [], [] => true
  | x :: a', y :: b' => out_eqb x y && outs_eqb a' b'
  | _, _ => false
  end.

Record case := mkCase { c_idx : Z; c_env : env; c_ops : list op; c_outs : list out }.
Definition case_ok (c : case) : bool := outs_eqb (snd (run (init (c_env c)) (c_ops c))) (c_outs c).
Definition mismatches (cs : list case) : list Z := map c_idx (filter (fun c => negb (case_ok c)) cs).

(* C27 — executable model of source-position bookkeeping.  Definitions only (no proofs).

   Part 1: go/token.File / go/token.FileSet (go1.23: AddFile, AddLine, SetLines, file() with its
           `last` cache, searchFiles = slices.BinarySearchFunc, searchInts, fixOffset, unpack without
           //line infos) wrapped by /repo/go/etoken/fileset.go (File.line, FileSet.AddFile/File/PositionFor).
   Part 2: the line counter Globals.Line and every IncLine call site on the paths
           Interp.Repl -> ReadParseEvalPrint -> Read / ParseEvalPrint / afterEval   (fast/repl.go)
           Interp.EvalReader (first iteration with ReadOptCollectAllComments)       (fast/interpreter.go)
           Globals.ParseBytes -> parser.Init(fileset, path, g.Line, src)            (base/global.go)
           as a state machine over the list of chunks returned by ReadMultiline.
   The model is of the code WITH fixes/C27-1..3 applied. *)
From Coq Require Import List NArith ZArith Bool.
Import ListNotations.
Open Scope Z_scope.

Definition max_int : Z := 9223372036854775807.

(* ------------------------------------------------------------------ part 1: files and file sets *)

(* f_name: id standing for the file name (0 = "").  f_line: etoken.File.line; FileSet.filemap is keyed by the
   identity of the inner *token.File, so the wrapper's field is stored with the file it wraps. *)
Record file := mkFile { f_name : N; f_base : Z; f_size : Z; f_lines : list Z; f_line : Z }.
Record fileset := mkFS { s_base : Z; s_files : list file; s_last : option nat }.
Record position := mkPos { p_name : N; p_off : Z; p_line : Z; p_col : Z }.

Definition no_pos : position := mkPos 0 0 0 0.      (* zero token.Position *)
Definition new_fileset : fileset := mkFS 1 [] None. (* token.NewFileSet: base 1, 0 == NoPos *)

Definition len {A} (l : list A) : Z := Z.of_nat (length l).

(* token.FileSet.AddFile + etoken.FileSet.AddFile; None = panic *)
Definition add_file (s : fileset) (name : N) (base size line : Z) : option fileset :=
  let base := if base <? 0 then s_base s else base in
  if base <? s_base s then None                  (* "invalid base" *)
  else if size <? 0 then None                    (* "invalid size" *)
  else
    let nb := base + size + 1 in
    if max_int <? nb then None                   (* wraps negative: "token.Pos offset overflow" *)
    else Some (mkFS nb (s_files s ++ [mkFile name base size [0] line]) (Some (length (s_files s)))).

(* File.AddLine *)
Definition file_add_line (f : file) (off : Z) : file :=
  let ok := match rev (f_lines f) with [] => true | l :: _ => l <? off end in
  if ok && (off <? f_size f)
  then mkFile (f_name f) (f_base f) (f_size f) (f_lines f ++ [off]) (f_line f)
  else f.

(* File.SetLines: validity loop, then assignment *)
Fixpoint lines_valid (size : Z) (prev : option Z) (l : list Z) : bool :=
  match l with
  | [] => true
  | o :: l' =>
      if (match prev with Some q => o <=? q | None => false end) || (size <=? o) then false
      else lines_valid size (Some o) l'
  end.

Definition file_set_lines (f : file) (lines : list Z) : file * bool :=
  if lines_valid (f_size f) None lines
  then (mkFile (f_name f) (f_base f) (f_size f) lines (f_line f), true)
  else (f, false).

(* searchInts: i, j := 0, len(a); for i < j { h := (i+j)>>1; if a[h] <= x {i = h+1} else {j = h} }; return i-1.
   None = loop bound exceeded or index out of range (never for any input, see Proof.v) *)
Fixpoint search_ints_loop (fuel : nat) (a : list Z) (x : Z) (i j : nat) : option nat :=
  match fuel with
  | O => None
  | S fuel' =>
      if Nat.ltb i j then
        let h := Nat.div (i + j) 2 in
        match nth_error a h with
        | None => None
        | Some ah => if ah <=? x then search_ints_loop fuel' a x (S h) j
                     else search_ints_loop fuel' a x i h
        end
      else Some i
  end.

Definition search_ints (a : list Z) (x : Z) : option Z :=
  match search_ints_loop (S (length a)) a x 0 (length a) with
  | Some i => Some (Z.of_nat i - 1)
  | None => None
  end.

(* slices.BinarySearchFunc(files, x, cmp.Compare(f.base, x)) *)
Fixpoint bsearch_files_loop (fuel : nat) (a : list file) (x : Z) (i j : nat) : option nat :=
  match fuel with
  | O => None
  | S fuel' =>
      if Nat.ltb i j then
        let h := Nat.div (i + j) 2 in
        match nth_error a h with
        | None => None
        | Some fh => if f_base fh <? x then bsearch_files_loop fuel' a x (S h) j
                     else bsearch_files_loop fuel' a x i h
        end
      else Some i
  end.

(* searchFiles: if !found { i-- } *)
Definition search_files (a : list file) (x : Z) : option Z :=
  match bsearch_files_loop (S (length a)) a x 0 (length a) with
  | None => None
  | Some i =>
      let found := match nth_error a i with Some f => f_base f =? x | None => false end in
      Some (if found then Z.of_nat i else Z.of_nat i - 1)
  end.

Definition contains (f : file) (p : Z) : bool := (f_base f <=? p) && (p <=? f_base f + f_size f).

(* token.FileSet.file(p): last-file cache, else binary search (and cache update).
   Result: None = crash;  Some (s', r) with r the index of the file found. *)
Definition fs_file (s : fileset) (p : Z) : option (fileset * option nat) :=
  let cached :=
    match s_last s with
    | Some li => match nth_error (s_files s) li with
                 | Some f => if contains f p then Some li else None
                 | None => None
                 end
    | None => None
    end in
  match cached with
  | Some li => Some (s, Some li)
  | None =>
      match search_files (s_files s) p with
      | None => None
      | Some i =>
          if 0 <=? i then
            match nth_error (s_files s) (Z.to_nat i) with
            | None => None                                   (* index out of range *)
            | Some f =>
                if p <=? f_base f + f_size f
                then Some (mkFS (s_base s) (s_files s) (Some (Z.to_nat i)), Some (Z.to_nat i))
                else Some (s, None)
            end
          else Some (s, None)
      end
  end.

Definition fix_offset (f : file) (off : Z) : Z :=
  if off <? 0 then 0 else if f_size f <? off then f_size f else off.

(* token.File.PositionFor(p, adjusted) for a file without //line infos: position -> unpack *)
Definition file_position (f : file) (p : Z) : option position :=
  if p =? 0 then Some no_pos
  else
    let off := fix_offset f (p - f_base f) in
    match search_ints (f_lines f) off with
    | None => None
    | Some i =>
        if 0 <=? i then
          match nth_error (f_lines f) (Z.to_nat i) with
          | Some l => Some (mkPos (f_name f) off (i + 1) (off - l + 1))
          | None => None
          end
        else Some (mkPos (f_name f) off 0 0)
    end.

(* etoken.File.PositionFor: pos = f.File.PositionFor(p); if pos.IsValid() { pos.Line += f.line } *)
Definition efile_position (f : file) (p : Z) : option position :=
  match file_position f p with
  | Some pos =>
      Some (if 0 <? p_line pos
            then mkPos (p_name pos) (p_off pos) (p_line pos + f_line f) (p_col pos)
            else pos)
  | None => None
  end.

(* etoken.FileSet.File: if p != NoPos { innerf := s.FileSet.File(p); f = s.filemap[innerf] } *)
Definition fork_file (s : fileset) (p : Z) : option (fileset * option nat) :=
  if p =? 0 then Some (s, None) else fs_file s p.

(* etoken.FileSet.PositionFor *)
Definition fork_position_for (s : fileset) (p : Z) : option (fileset * position) :=
  match fork_file s p with
  | None => None
  | Some (s', None) => Some (s', no_pos)
  | Some (s', Some i) =>
      match nth_error (s_files s') i with
      | None => None
      | Some f => match efile_position f p with
                  | Some pos => Some (s', pos)
                  | None => None
                  end
      end
  end.

(* ---- specification: what go/token documents (no search, no cache) *)
Definition spec_file (s : fileset) (p : Z) : option file := find (fun f => contains f p) (s_files s).

Definition starts_le (lines : list Z) (off : Z) : list Z := filter (fun l => l <=? off) lines.

(* Line = number of line starts <= offset; Column = offset - (greatest such line start) + 1 *)
Definition std_position (f : file) (p : Z) : position :=
  let off := fix_offset f (p - f_base f) in
  match starts_le (f_lines f) off with
  | [] => mkPos (f_name f) off 0 0
  | l :: ls => mkPos (f_name f) off (len (l :: ls)) (off - fold_right Z.max l ls + 1)
  end.

Definition shift_line (d : Z) (pos : position) : position :=
  if 0 <? p_line pos then mkPos (p_name pos) (p_off pos) (p_line pos + d) (p_col pos) else pos.

Definition spec_position_for (s : fileset) (p : Z) : position :=
  if p =? 0 then no_pos
  else match spec_file s p with
       | Some f => shift_line (f_line f) (std_position f p)
       | None => no_pos
       end.

(* ---- operation histories on a file set *)
Inductive fop :=
| FAdd (name : N) (base size line : Z)
| FAddLine (i : nat) (off : Z)          (* files[i].AddLine(off) *)
| FSetLines (i : nat) (lines : list Z). (* files[i].SetLines(lines) *)

Fixpoint update_nth {A} (l : list A) (i : nat) (g : A -> A) : list A :=
  match l, i with
  | [], _ => []
  | x :: l', O => g x :: l'
  | x :: l', S i' => x :: update_nth l' i' g
  end.

(* one operation; the flag is false when AddFile panics (the set is then unchanged) or SetLines returns false *)
Definition fstep (s : fileset) (o : fop) : fileset * bool :=
  match o with
  | FAdd name base size line =>
      match add_file s name base size line with Some s' => (s', true) | None => (s, false) end
  | FAddLine i off =>
      (mkFS (s_base s) (update_nth (s_files s) i (fun f => file_add_line f off)) (s_last s), true)
  | FSetLines i lines =>
      (mkFS (s_base s) (update_nth (s_files s) i (fun f => fst (file_set_lines f lines))) (s_last s),
       match nth_error (s_files s) i with Some f => snd (file_set_lines f lines) | None => false end)
  end.

Fixpoint frun (s : fileset) (ops : list fop) : fileset * list bool :=
  match ops with
  | [] => (s, [])
  | o :: ops' => let '(s1, b) := fstep s o in let '(s2, bs) := frun s1 ops' in (s2, b :: bs)
  end.

(* queries in sequence (each may move the `last` cache) *)
Fixpoint fqueries (s : fileset) (ps : list Z) : option (list position) :=
  match ps with
  | [] => Some []
  | p :: ps' =>
      match fork_position_for s p with
      | None => None
      | Some (s', pos) => match fqueries s' ps' with Some r => Some (pos :: r) | None => None end
      end
  end.

(* ------------------------------------------------------------------ part 2: the line counter *)

Definition NL : N := 10%N.

(* strings.Count(src, "\n") *)
Fixpoint count_nl (s : list N) : Z :=
  match s with
  | [] => 0
  | b :: s' => (if N.eqb b NL then 1 else 0) + count_nl s'
  end.

(* the scanner calls file.AddLine(offset+1) for every '\n' it reads (go/scanner next()) *)
Fixpoint scan_file (f : file) (src : list N) (off : Z) : file :=
  match src with
  | [] => f
  | b :: src' => scan_file (if N.eqb b NL then file_add_line f (off + 1) else f) src' (off + 1)
  end.

(* unicode.IsSpace on the UTF-8 encoding: len(strings.TrimSpace(s)) == 0 *)
Definition ascii_space (b : N) : bool := N.eqb b 32 || (N.leb 9 b && N.leb b 13).
Fixpoint all_space (s : list N) : bool :=
  match s with
  | [] => true
  | b :: r =>
      if ascii_space b then all_space r
      else match b, r with
           | 194%N, x :: r' => (N.eqb x 133 || N.eqb x 160) && all_space r'            (* U+0085 U+00A0 *)
           | 225%N, 154%N :: 128%N :: r' => all_space r'                               (* U+1680 *)
           | 226%N, 128%N :: x :: r' =>
               ((N.leb 128 x && N.leb x 138) || N.eqb x 168 || N.eqb x 169 || N.eqb x 175)  (* U+2000-200A 2028 2029 202F *)
               && all_space r'
           | 226%N, 129%N :: 159%N :: r' => all_space r'                               (* U+205F *)
           | 227%N, 128%N :: 128%N :: r' => all_space r'                               (* U+3000 *)
           | _, _ => false
           end
  end.

(* a chunk as returned by ReadMultiline: text and offset of the first non-comment token (-1: none) *)
Record chunk := mkChunk { c_src : list N; c_first : Z }.

Record interp := mkI { i_line : Z; i_fs : fileset }.

(* one parsed text: chunk index, index of the file created for it, offset of the text's byte 0 in the chunk *)
Record evalrec := mkRec { e_chunk : nat; e_file : nat; e_delta : nat }.

Definition inc_line (st : interp) (src : list N) : interp := mkI (i_line st + count_nl src) (i_fs st).

(* Globals.ParseBytes: parser.Init(g.Fileset, g.Filepath, g.Line, src) = AddFile(path, -1, len(src), g.Line),
   then the scanner fills the line table *)
Definition parse_bytes (st : interp) (name : N) (src : list N) : option (interp * nat) :=
  match add_file (i_fs st) name (-1) (len src) (i_line st) with
  | None => None
  | Some fs =>
      let idx := length (s_files (i_fs st)) in
      Some (mkI (i_line st)
                (mkFS (s_base fs) (update_nth (s_files fs) idx (fun f => scan_file f src 0)) (s_last fs)),
            idx)
  end.

(* Interp.ParseEvalPrint(src) under OptTrapPanic (callAgain is always true: no :quit in the source);
   fixes/C27-3: a white-space-only src still advances the line counter;
   otherwise parse (+compile+run) and afterEval: g.IncLine(src) *)
Definition parse_eval_print (st : interp) (name : N) (src : list N) : option (interp * option nat) :=
  if all_space src then Some (inc_line st src, None)
  else match parse_bytes st name src with
       | None => None
       | Some (st1, idx) => Some (inc_line st1 src, Some idx)
       end.

(* Interp.Read with fixes/C27-1: only a chunk without token is counted here *)
Definition read_step (st : interp) (c : chunk) : interp :=
  if c_first c <? 0 then inc_line st (c_src c) else st.

(* for ir.ReadParseEvalPrint() {}   over the chunks delivered by successive ReadMultiline calls *)
Fixpoint repl_loop (st : interp) (name : N) (cs : list chunk) (ci : nat) : option (interp * list evalrec) :=
  match cs with
  | [] => Some (st, [])
  | c :: cs' =>
      let st1 := read_step st c in
      if c_first c <? 0 then
        match c_src c with
        | [] => Some (st1, [])                       (* return len(src) != 0: EOF ends the loop *)
        | _ => repl_loop st1 name cs' (S ci)
        end
      else
        match parse_eval_print st1 name (c_src c) with
        | None => None
        | Some (st2, r) =>
            match repl_loop st2 name cs' (S ci) with
            | None => None
            | Some (st3, recs) =>
                Some (st3, match r with Some idx => mkRec ci idx 0 :: recs | None => recs end)
            end
        end
  end.

(* strings.LastIndexByte(s, '\n') + 1 *)
Fixpoint line_start_of (s : list N) (i : nat) (acc : nat) : nat :=
  match s with
  | [] => acc
  | b :: s' => line_start_of s' (S i) (if N.eqb b NL then S i else acc)
  end.

(* Interp.EvalReader with fixes/C27-2: g.Line = 0; first chunk read with ReadOptCollectAllComments *)
Definition eval_reader (st : interp) (name : N) (cs : list chunk) : option (interp * list evalrec) :=
  let st0 := mkI 0 (i_fs st) in
  match cs with
  | [] => Some (st0, [])
  | c :: cs' =>
      let src := c_src c in
      let '(st1, str, delta) :=
        if 0 <? c_first c then
          let ft := Z.to_nat (c_first c) in
          let comments := firstn ft src in
          let start := line_start_of comments 0 0 in
          (inc_line st0 comments, repeat 32%N (ft - start) ++ skipn ft src, start)
        else (st0, src, 0%nat) in
      match parse_eval_print st1 name str with
      | None => None
      | Some (st2, r) =>
          match repl_loop st2 name cs' 1 with
          | None => None
          | Some (st3, recs) =>
              Some (st3, match r with Some idx => mkRec 0 idx delta :: recs | None => recs end)
          end
      end
  end.

Inductive mode := Reader | Repl.   (* EvalReader/EvalFile | Interp.Repl *)

Definition run_source (st : interp) (m : mode) (name : N) (cs : list chunk) : option (interp * list evalrec) :=
  match m with
  | Reader => eval_reader st name cs
  | Repl => repl_loop st name cs 0
  end.

(* position reported for the token at byte k of chunk ci: Fileset.Position(file.base + offset in the parsed text) *)
Definition find_rec (recs : list evalrec) (ci : nat) : option evalrec :=
  find (fun r => Nat.eqb (e_chunk r) ci) recs.

Definition report (st : interp) (recs : list evalrec) (ci k : nat) : option position :=
  match find_rec recs ci with
  | None => None
  | Some r =>
      match nth_error (s_files (i_fs st)) (e_file r) with
      | None => None
      | Some f =>
          if Nat.ltb k (e_delta r) then None
          else match fork_position_for (i_fs st) (f_base f + Z.of_nat (k - e_delta r)) with
               | Some (_, pos) => Some pos
               | None => None
               end
      end
  end.

(* ---- specification: the true position in the original input *)
Fixpoint col_scan (s : list N) (col : Z) : Z :=
  match s with
  | [] => col
  | b :: s' => col_scan s' (if N.eqb b NL then 0 else col + 1)
  end.

Definition input_of (cs : list chunk) : list N := concat (map c_src cs).
Definition chunk_offset (cs : list chunk) (ci : nat) : nat := length (input_of (firstn ci cs)).

(* line = 1 + number of '\n' before the token, column = 1 + bytes since the last '\n' *)
Definition true_line (input : list N) (g : nat) : Z := 1 + count_nl (firstn g input).
Definition true_col (input : list N) (g : nat) : Z := 1 + col_scan (firstn g input) 0.

(* ------------------------------------------------------------------ correspondence *)
Definition pos_eqb (a b : position) : bool :=
  N.eqb (p_name a) (p_name b) && (p_off a =? p_off b) && (p_line a =? p_line b) && (p_col a =? p_col b).

Fixpoint poss_eqb (a b : list position) : bool :=
  match a, b with
  | [], [] => true
  | x :: a', y :: b' => pos_eqb x y && poss_eqb a' b'
  | _, _ => false
  end.

Fixpoint bools_eqb (a b : list bool) : bool :=
  match a, b with
  | [], [] => true
  | x :: a', y :: b' => Bool.eqb x y && bools_eqb a' b'
  | _, _ => false
  end.

(* observation on one source: (chunk index, offset in chunk, reported name, line, column) *)
Record obs := mkObs { o_chunk : nat; o_off : nat; o_name : N; o_rline : Z; o_rcol : Z }.

Record source := mkSource { so_mode : mode; so_name : N; so_chunks : list chunk; so_obs : list obs; so_line : Z }.

Definition obs_ok (st : interp) (recs : list evalrec) (o : obs) : bool :=
  match report st recs (o_chunk o) (o_off o) with
  | Some pos => N.eqb (p_name pos) (o_name o) && (p_line pos =? o_rline o) && (p_col pos =? o_rcol o)
  | None => false
  end.

(* sources evaluated one after the other by the same interpreter; so_line = Globals.Line observed afterwards *)
Fixpoint sources_ok (st : interp) (ss : list source) : bool :=
  match ss with
  | [] => true
  | s :: ss' =>
      match run_source st (so_mode s) (so_name s) (so_chunks s) with
      | None => false
      | Some (st', recs) =>
          forallb (obs_ok st' recs) (so_obs s) && (i_line st' =? so_line s) && sources_ok st' ss'
      end
  end.

(* decoding of the byte strings written by the harness: the bytes in hexadecimal after a leading 1
   (one big number parses ~10x faster than a list of small ones) *)
Fixpoint unpack_bytes (fuel : nat) (n : N) (acc : list N) : list N :=
  match fuel with
  | O => acc
  | S f => if N.leb n 1 then acc else unpack_bytes f (N.shiftr n 8) (N.land n 255 :: acc)
  end.
Definition bytes_of (n : N) : list N := unpack_bytes (N.to_nat (N.size n)) n [].

Inductive case :=
| CFileSet (idx : Z) (ops : list fop) (flags : list bool) (queries : list Z) (observed : list position)
| CSources (idx : Z) (ss : list source).

Definition case_idx (c : case) : Z := match c with CFileSet i _ _ _ _ => i | CSources i _ => i end.

Definition case_ok (c : case) : bool :=
  match c with
  | CFileSet _ ops flags qs observed =>
      let '(s, bs) := frun new_fileset ops in
      bools_eqb bs flags &&
      match fqueries s qs with Some r => poss_eqb r observed | None => false end
  | CSources _ ss => sources_ok (mkI 0 new_fileset) ss
  end.

Definition mismatches (cs : list case) : list Z :=
  map case_idx (filter (fun c => negb (case_ok c)) cs).

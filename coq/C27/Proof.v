(* C27 — lemmas (proof work only) *)
From Coq Require Import List NArith ZArith Bool Lia Arith.
From Verif Require Import C27.Model.
Import ListNotations.
Open Scope Z_scope.

Ltac Zify.zify_post_hook ::= Z.div_mod_to_equations.

(* ------------------------------------------------------------------ sorted tables and the two binary searches *)

Definition incr (a : list Z) : Prop :=
  forall i j vi vj, nth_error a i = Some vi -> nth_error a j = Some vj -> (i < j)%nat -> vi < vj.

Lemma incr_tail x a : incr (x :: a) -> incr a.
Proof. intros H i j vi vj Hi Hj L. apply (H (S i) (S j) vi vj); simpl; auto; lia. Qed.

Lemma half_bounds i j : (i < j)%nat -> (i <= (i + j) / 2 < j)%nat.
Proof. intros. split; [apply Nat.div_le_lower_bound|apply Nat.div_lt_upper_bound]; lia. Qed.

Lemma search_ints_loop_spec : forall fuel a x i j,
  (i <= j <= length a)%nat -> (j - i < fuel)%nat -> incr a ->
  (forall k v, (k < i)%nat -> nth_error a k = Some v -> v <= x) ->
  (forall k v, (j <= k)%nat -> nth_error a k = Some v -> x < v) ->
  exists r, search_ints_loop fuel a x i j = Some r /\ (r <= length a)%nat /\
    (forall k v, (k < r)%nat -> nth_error a k = Some v -> v <= x) /\
    (forall k v, (r <= k)%nat -> nth_error a k = Some v -> x < v).
Proof.
  induction fuel as [|fuel IH]; intros a x i j B F Inc Lo Hi; [lia|].
  cbn [search_ints_loop]. destruct (Nat.ltb_spec i j) as [L|L].
  - pose proof (half_bounds i j L) as Hh. set (h := ((i + j) / 2)%nat) in *.
    destruct (nth_error a h) as [ah|] eqn:E; [|apply nth_error_None in E; lia].
    destruct (Z.leb_spec ah x) as [C|C].
    + apply IH; auto; try lia.
      intros k v Hk Ek. destruct (Nat.eq_dec k h) as [->|N]; [congruence|].
      assert (v < ah) by (apply (Inc k h); auto; lia). lia.
    + apply IH; auto; try lia.
      intros k v Hk Ek. destruct (Nat.eq_dec k h) as [->|N]; [congruence|].
      assert (ah < v) by (apply (Inc h k); auto; lia). lia.
  - exists i. repeat split; auto; try lia. intros k v Hk. apply Hi. lia.
Qed.

Lemma starts_le_firstn : forall a x r, (r <= length a)%nat ->
  (forall k v, (k < r)%nat -> nth_error a k = Some v -> v <= x) ->
  (forall k v, (r <= k)%nat -> nth_error a k = Some v -> x < v) ->
  starts_le a x = firstn r a.
Proof.
  induction a as [|v a IH]; intros x r L Lo Hi; [destruct r; reflexivity|].
  unfold starts_le in *. simpl. destruct r as [|r].
  - assert (x < v) by (apply (Hi 0%nat); [lia|reflexivity]).
    destruct (Z.leb_spec v x); [lia|]. rewrite (IH x 0%nat); simpl; auto; try lia.
    intros k w Hk Ek. apply (Hi (S k)); [lia|exact Ek].
  - assert (v <= x) by (apply (Lo 0%nat); [lia|reflexivity]).
    destruct (Z.leb_spec v x); [|lia]. simpl. f_equal. apply IH; simpl in L; try lia.
    + intros k w Hk Ek. apply (Lo (S k)); [lia|exact Ek].
    + intros k w Hk Ek. apply (Hi (S k)); [lia|exact Ek].
Qed.

Lemma search_ints_spec a x : incr a ->
  exists r, search_ints a x = Some (Z.of_nat r - 1) /\ (r <= length a)%nat /\ starts_le a x = firstn r a.
Proof.
  intros Inc. unfold search_ints.
  destruct (search_ints_loop_spec (S (length a)) a x 0 (length a)) as (r & E & L & Lo & Hi); auto; try lia.
  - intros k v Hk Ek. apply nth_error_None in Hk. congruence.
  - exists r. rewrite E. repeat split; auto. apply starts_le_firstn; auto.
Qed.

Lemma In_firstn_nth {A} : forall (a : list A) r y, In y (firstn r a) -> exists k, (k < r)%nat /\ nth_error a k = Some y.
Proof.
  induction a as [|v a IH]; intros r y H; destruct r; simpl in H; try contradiction.
  destruct H as [->|H]; [exists 0%nat; split; [lia|reflexivity]|].
  destruct (IH r y H) as (k & Hk & Ek). exists (S k). split; [lia|exact Ek].
Qed.

Lemma nth_In_firstn {A} : forall (a : list A) r k y, (k < r)%nat -> nth_error a k = Some y -> In y (firstn r a).
Proof.
  induction a as [|v a IH]; intros r k y Hk E; destruct k; simpl in E; try discriminate; destruct r; try lia; simpl.
  - left. congruence.
  - right. apply (IH r k); auto; lia.
Qed.

Lemma foldmax_ge : forall ls l0 y, In y (l0 :: ls) -> y <= fold_right Z.max l0 ls.
Proof.
  induction ls as [|x ls IH]; intros l0 y H; simpl in *.
  - destruct H as [->|[]]. lia.
  - destruct H as [->|[->|H]].
    + specialize (IH y y (or_introl eq_refl)). lia.
    + lia.
    + specialize (IH l0 y (or_intror H)). lia.
Qed.

Lemma foldmax_in : forall ls l0, In (fold_right Z.max l0 ls) (l0 :: ls).
Proof.
  induction ls as [|x ls IH]; intros l0; simpl; [auto|].
  destruct (Z.max_spec x (fold_right Z.max l0 ls)) as [[_ ->]|[_ ->]].
  - destruct (IH l0) as [H|H]; [left; exact H|right; right; exact H].
  - right; left; reflexivity.
Qed.

Lemma foldmax_is : forall ls l0 b, In b (l0 :: ls) -> (forall y, In y (l0 :: ls) -> y <= b) ->
  fold_right Z.max l0 ls = b.
Proof.
  intros ls l0 b Hb Hle. pose proof (foldmax_ge ls l0 b Hb). pose proof (Hle _ (foldmax_in ls l0)). lia.
Qed.

(* File.PositionFor as written = the documented position, for every sorted line table *)
Lemma file_position_std f p : incr (f_lines f) -> p <> 0 -> file_position f p = Some (std_position f p).
Proof.
  intros Inc Np. unfold file_position, std_position.
  destruct (Z.eqb_spec p 0); [contradiction|].
  set (off := fix_offset f (p - f_base f)).
  destruct (search_ints_spec (f_lines f) off Inc) as (r & E & L & St). rewrite E, St.
  destruct r as [|r].
  - simpl. reflexivity.
  - replace (0 <=? Z.of_nat (S r) - 1) with true by (symmetry; apply Z.leb_le; lia).
    replace (Z.to_nat (Z.of_nat (S r) - 1)) with r by lia.
    destruct (nth_error (f_lines f) r) as [l|] eqn:El; [|apply nth_error_None in El; lia].
    destruct (firstn (S r) (f_lines f)) as [|l0 ls] eqn:Ef.
    { destruct (f_lines f); simpl in *; [lia|discriminate]. }
    assert (Hlen : length (l0 :: ls) = S r) by (rewrite <- Ef, firstn_length; lia).
    f_equal. f_equal.
    + unfold len. rewrite Hlen. lia.
    + rewrite (foldmax_is ls l0 l); auto.
      * rewrite <- Ef. apply (nth_In_firstn _ _ r); auto.
      * intros y Hy. rewrite <- Ef in Hy. apply In_firstn_nth in Hy. destruct Hy as (k & Hk & Ek).
        destruct (Nat.eq_dec k r) as [->|N]; [assert (y = l) by congruence; lia|].
        assert (y < l) by (apply (Inc k r); auto; lia). lia.
Qed.

(* ------------------------------------------------------------------ file set invariant *)

Definition bs (f : file) : Z * Z := (f_base f, f_size f).

Fixpoint gaps (lo : Z) (l : list (Z * Z)) : Prop :=
  match l with
  | [] => True
  | (b, sz) :: l' => lo <= b /\ 0 <= sz /\ gaps (b + sz + 1) l'
  end.

Fixpoint end_of (lo : Z) (l : list (Z * Z)) : Z :=
  match l with
  | [] => lo
  | (b, sz) :: l' => end_of (b + sz + 1) l'
  end.

Record fs_inv (s : fileset) : Prop := mkInv {
  inv_gaps : gaps 1 (map bs (s_files s));
  inv_base : end_of 1 (map bs (s_files s)) <= s_base s;
  inv_lines : Forall (fun f => incr (f_lines f)) (s_files s);
  inv_last : match s_last s with Some li => (li < length (s_files s))%nat | None => True end }.

Lemma gaps_app : forall l lo b sz, gaps lo (l ++ [(b, sz)]) <-> gaps lo l /\ end_of lo l <= b /\ 0 <= sz.
Proof.
  induction l as [|[b0 s0] l IH]; intros lo b sz; simpl.
  - tauto.
  - rewrite IH. tauto.
Qed.

Lemma end_of_app : forall l lo b sz, end_of lo (l ++ [(b, sz)]) = b + sz + 1.
Proof. induction l as [|[b0 s0] l IH]; intros; simpl; auto. Qed.

Lemma gaps_lo : forall l lo j b sz, gaps lo l -> nth_error l j = Some (b, sz) -> lo <= b /\ 0 <= sz.
Proof.
  induction l as [|[b0 s0] l IH]; intros lo j b sz G E; destruct j; simpl in *; try discriminate.
  - inversion E; subst. tauto.
  - destruct G as (G1 & G2 & G3). destruct (IH _ _ _ _ G3 E). lia.
Qed.

Lemma gaps_nth : forall l lo i j bi si bj sj, gaps lo l ->
  nth_error l i = Some (bi, si) -> nth_error l j = Some (bj, sj) -> (i < j)%nat -> bi + si < bj.
Proof.
  induction l as [|[b0 s0] l IH]; intros lo i j bi si bj sj G Ei Ej L; destruct j; try lia; destruct i; simpl in *; try discriminate.
  - inversion Ei; subst. destruct G as (_ & _ & G3). destruct (gaps_lo _ _ _ _ _ G3 Ej). lia.
  - destruct G as (_ & _ & G3). apply (IH _ i j bi si bj sj G3); auto. lia.
Qed.

Lemma nth_bs fs i f : nth_error fs i = Some f -> nth_error (map bs fs) i = Some (f_base f, f_size f).
Proof. intros E. rewrite nth_error_map, E. reflexivity. Qed.

Lemma bsearch_files_loop_spec : forall fuel a x i j lo,
  (i <= j <= length a)%nat -> (j - i < fuel)%nat -> gaps lo (map bs a) ->
  (forall k f, (k < i)%nat -> nth_error a k = Some f -> f_base f < x) ->
  (forall k f, (j <= k)%nat -> nth_error a k = Some f -> x <= f_base f) ->
  exists r, bsearch_files_loop fuel a x i j = Some r /\ (r <= length a)%nat /\
    (forall k f, (k < r)%nat -> nth_error a k = Some f -> f_base f < x) /\
    (forall k f, (r <= k)%nat -> nth_error a k = Some f -> x <= f_base f).
Proof.
  induction fuel as [|fuel IH]; intros a x i j lo B F G Lo Hi; [lia|].
  cbn [bsearch_files_loop]. destruct (Nat.ltb_spec i j) as [L|L].
  - pose proof (half_bounds i j L) as Hh. set (h := ((i + j) / 2)%nat) in *.
    destruct (nth_error a h) as [fh|] eqn:E; [|apply nth_error_None in E; lia].
    destruct (Z.ltb_spec (f_base fh) x) as [C|C].
    + apply (IH a x (S h) j lo); auto; try lia.
      intros k f Hk Ek. destruct (Nat.eq_dec k h) as [->|N]; [congruence|].
      pose proof (gaps_nth _ _ k h _ _ _ _ G (nth_bs _ _ _ Ek) (nth_bs _ _ _ E) ltac:(lia)).
      destruct (gaps_lo _ _ _ _ _ G (nth_bs _ _ _ Ek)). lia.
    + apply (IH a x i h lo); auto; try lia.
      intros k f Hk Ek. destruct (Nat.eq_dec k h) as [->|N]; [congruence|].
      pose proof (gaps_nth _ _ h k _ _ _ _ G (nth_bs _ _ _ E) (nth_bs _ _ _ Ek) ltac:(lia)).
      destruct (gaps_lo _ _ _ _ _ G (nth_bs _ _ _ E)). lia.
  - exists i. repeat split; auto; try lia. intros k f Hk. apply Hi. lia.
Qed.

(* searchFiles returns the index of the last file whose base is <= x, or -1 *)
Lemma search_files_spec a x lo : gaps lo (map bs a) ->
  exists i, search_files a x = Some i /\ -1 <= i < len a /\
    (forall k f, Z.of_nat k <= i -> nth_error a k = Some f -> f_base f <= x) /\
    (forall k f, i < Z.of_nat k -> nth_error a k = Some f -> x < f_base f).
Proof.
  intros G. unfold search_files, len.
  destruct (bsearch_files_loop_spec (S (length a)) a x 0 (length a) lo) as (r & E & L & Lo & Hi); auto; try lia.
  - intros k f Hk Ek. apply nth_error_None in Hk. congruence.
  - rewrite E. destruct (nth_error a r) as [fr|] eqn:Er.
    + assert (r < length a)%nat by (apply nth_error_Some; congruence).
      destruct (Z.eqb_spec (f_base fr) x) as [C|C].
      * exists (Z.of_nat r). repeat split; auto; try lia.
        -- intros k f Hk Ek. destruct (Nat.eq_dec k r) as [->|N]; [assert (f = fr) by congruence; subst; lia|].
           assert (f_base f < x) by (apply (Lo k); auto; lia). lia.
        -- intros k f Hk Ek.
           pose proof (gaps_nth _ _ r k _ _ _ _ G (nth_bs _ _ _ Er) (nth_bs _ _ _ Ek) ltac:(lia)).
           destruct (gaps_lo _ _ _ _ _ G (nth_bs _ _ _ Er)). lia.
      * exists (Z.of_nat r - 1). repeat split; auto; try lia.
        -- intros k f Hk Ek. assert (f_base f < x) by (apply (Lo k); auto; lia). lia.
        -- intros k f Hk Ek. destruct (Nat.eq_dec k r) as [->|N].
           ++ assert (f = fr) by congruence; subst. assert (x <= f_base fr) by (apply (Hi r); auto). lia.
           ++ pose proof (gaps_nth _ _ r k _ _ _ _ G (nth_bs _ _ _ Er) (nth_bs _ _ _ Ek) ltac:(lia)).
              assert (x <= f_base fr) by (apply (Hi r); auto).
              destruct (gaps_lo _ _ _ _ _ G (nth_bs _ _ _ Er)). lia.
    + apply nth_error_None in Er. exists (Z.of_nat r - 1). repeat split; auto; try lia.
      * intros k f Hk Ek. assert (f_base f < x) by (apply (Lo k); auto; lia). lia.
      * intros k f Hk Ek. assert (k < length a)%nat by (apply nth_error_Some; congruence). lia.
Qed.

Definition same_files (s s' : fileset) : Prop := s_files s' = s_files s /\ s_base s' = s_base s.

Lemma contains_true f p : contains f p = true <-> f_base f <= p <= f_base f + f_size f.
Proof. unfold contains. rewrite andb_true_iff, !Z.leb_le. tauto. Qed.

(* FileSet.file(p): cache and binary search find the file containing p, if any *)
Lemma fs_file_spec s p : fs_inv s ->
  exists s' r, fs_file s p = Some (s', r) /\ same_files s s' /\ fs_inv s' /\
    match r with
    | Some i => exists f, nth_error (s_files s) i = Some f /\ contains f p = true
    | None => forall f, In f (s_files s) -> contains f p = false
    end.
Proof.
  intros [G B Ln La]. unfold fs_file.
  destruct (match s_last s with
            | Some li => match nth_error (s_files s) li with
                         | Some f => if contains f p then Some li else None
                         | None => None end
            | None => None end) as [li|] eqn:Ec.
  - exists s, (Some li). repeat split; auto. 
    destruct (s_last s) as [l0|]; [|discriminate]. destruct (nth_error (s_files s) l0) as [f|] eqn:Ef; [|discriminate].
    destruct (contains f p) eqn:C; [|discriminate]. inversion Ec; subst. exists f. auto.
  - clear Ec. destruct (search_files_spec (s_files s) p 1 G) as (i & E & Bi & Lo & Hi). rewrite E.
    destruct (Z.leb_spec 0 i) as [P|P].
    + destruct (nth_error (s_files s) (Z.to_nat i)) as [f|] eqn:Ef; [|apply nth_error_None in Ef; unfold len in Bi; lia].
      assert (f_base f <= p) by (apply (Lo (Z.to_nat i)); auto; lia).
      destruct (Z.leb_spec p (f_base f + f_size f)) as [C|C].
      * eexists _, (Some (Z.to_nat i)). split; [reflexivity|]. repeat split; simpl; auto.
        -- apply nth_error_Some. congruence.
        -- exists f. split; auto. apply contains_true. lia.
      * exists s, None. repeat split; auto.
        intros g Hg. apply In_nth_error in Hg. destruct Hg as (k & Ek).
        destruct (contains g p) eqn:Cg; auto. apply contains_true in Cg.
        destruct (Z_lt_le_dec i (Z.of_nat k)) as [Q|Q].
        -- assert (p < f_base g) by (apply (Hi k); auto). lia.
        -- destruct (Nat.eq_dec k (Z.to_nat i)) as [->|N]; [assert (g = f) by congruence; subst; lia|].
           pose proof (gaps_nth _ _ k (Z.to_nat i) _ _ _ _ G (nth_bs _ _ _ Ek) (nth_bs _ _ _ Ef) ltac:(lia)).
           destruct (gaps_lo _ _ _ _ _ G (nth_bs _ _ _ Ef)). lia.
    + exists s, None. repeat split; auto.
      intros g Hg. apply In_nth_error in Hg. destruct Hg as (k & Ek).
      destruct (contains g p) eqn:Cg; auto. apply contains_true in Cg.
      assert (p < f_base g) by (apply (Hi k); auto; lia). lia.
Qed.

(* at most one file contains a position: the linear-scan specification selects it *)
Lemma find_contains_unique : forall fs lo i f p, gaps lo (map bs fs) ->
  nth_error fs i = Some f -> contains f p = true -> find (fun g => contains g p) fs = Some f.
Proof.
  induction fs as [|g fs IH]; intros lo i f p G E C; destruct i; simpl in *; try discriminate.
  - inversion E; subst. rewrite C. reflexivity.
  - destruct (contains g p) eqn:Cg.
    + exfalso. apply contains_true in C, Cg.
      pose proof (gaps_nth (map bs (g :: fs)) lo 0 (S i) _ _ _ _ G eq_refl (nth_bs (g :: fs) (S i) f E) ltac:(lia)). lia.
    + destruct G as (_ & _ & G3). eapply IH; eauto.
Qed.

Lemma find_none_conv {A} (h : A -> bool) : forall l, (forall x, In x l -> h x = false) -> find h l = None.
Proof.
  induction l as [|x l IH]; intros H; simpl; auto. rewrite (H x (or_introl eq_refl)). apply IH. intros y Hy. apply H. right; exact Hy.
Qed.

Lemma Forall_nth {A} (P : A -> Prop) l i x : Forall P l -> nth_error l i = Some x -> P x.
Proof. intros F E. rewrite Forall_forall in F. apply F. eapply nth_error_In; eauto. Qed.

(* the fork's FileSet.PositionFor = standard position with the line shifted by the file's starting line *)
Lemma fork_position_for_spec s p : fs_inv s ->
  exists s', fork_position_for s p = Some (s', spec_position_for s p) /\ same_files s s' /\ fs_inv s'.
Proof.
  intros I. unfold fork_position_for, fork_file, spec_position_for.
  destruct (Z.eqb_spec p 0) as [->|Np].
  - exists s. split; [reflexivity|]. split; [split; reflexivity|exact I].
  - destruct (fs_file_spec s p I) as (s' & r & E & (Sf & Sb) & I' & R). rewrite E.
    destruct r as [i|].
    + destruct R as (f & Ef & C). rewrite Sf, Ef. unfold spec_file.
      rewrite (find_contains_unique (s_files s) 1 i f p (inv_gaps s I) Ef C).
      unfold efile_position. rewrite (file_position_std f p (Forall_nth _ _ _ _ (inv_lines s I) Ef) Np).
      exists s'. split; [reflexivity|]. split; [split; assumption|assumption].
    + unfold spec_file. rewrite (find_none_conv _ _ R). exists s'. split; [reflexivity|]. split; [split; assumption|assumption].
Qed.

(* ------------------------------------------------------------------ every history keeps the invariant *)

Lemma inv_new : fs_inv new_fileset.
Proof. constructor; simpl; auto; lia. Qed.

Lemma incr_single x : incr [x].
Proof. intros i j vi vj Ei Ej L. destruct i, j; simpl in *; try lia; destruct j; discriminate. Qed.

Lemma add_file_spec s name base size line s' : fs_inv s -> add_file s name base size line = Some s' ->
  exists b, s_base s <= b /\ 0 <= size /\ s_files s' = s_files s ++ [mkFile name b size [0] line] /\
            s_base s' = b + size + 1 /\ fs_inv s'.
Proof.
  intros [G B Ln La] E. unfold add_file in E.
  set (b := if base <? 0 then s_base s else base) in *.
  destruct (Z.ltb_spec b (s_base s)); [discriminate|].
  destruct (Z.ltb_spec size 0); [discriminate|].
  destruct (Z.ltb_spec max_int (b + size + 1)); [discriminate|].
  inversion E; subst s'; clear E. exists b. repeat split; simpl; auto.
  - rewrite map_app. unfold bs at 2. simpl. apply gaps_app. repeat split; auto; lia.
  - rewrite map_app. unfold bs at 2. simpl. rewrite end_of_app. lia.
  - apply Forall_app. split; auto. constructor; auto. simpl. apply incr_single.
  - rewrite app_length. simpl. lia.
Qed.

Lemma update_nth_length {A} (g : A -> A) : forall l i, length (update_nth l i g) = length l.
Proof. induction l; intros [|i]; simpl; auto. Qed.

Lemma update_nth_map {A B} (g : A -> A) (h : A -> B) : (forall x, h (g x) = h x) ->
  forall l i, map h (update_nth l i g) = map h l.
Proof. intros H. induction l; intros [|i]; simpl; auto; f_equal; auto. Qed.

Lemma update_nth_Forall {A} (g : A -> A) (P : A -> Prop) : (forall x, P x -> P (g x)) ->
  forall l i, Forall P l -> Forall P (update_nth l i g).
Proof.
  intros H. induction l; intros [|i] F; simpl; auto; inversion F; subst; constructor; auto.
Qed.

Lemma incr_snoc a off : incr a -> (forall l, nth_error a (length a - 1) = Some l -> l < off) -> incr (a ++ [off]).
Proof.
  intros Inc Hl i j vi vj Ei Ej L.
  assert (Hj : (j < length (a ++ [off]))%nat) by (apply nth_error_Some; congruence).
  rewrite app_length in Hj. simpl in Hj.
  rewrite nth_error_app1 in Ei by lia.
  destruct (Nat.eq_dec j (length a)) as [->|N].
  - rewrite nth_error_app2 in Ej by lia. rewrite Nat.sub_diag in Ej. simpl in Ej. inversion Ej; subst vj.
    destruct (nth_error a (length a - 1)) as [l|] eqn:El; [|apply nth_error_None in El; lia].
    specialize (Hl l eq_refl).
    destruct (Nat.eq_dec i (length a - 1)) as [->|N]; [assert (vi = l) by congruence; lia|].
    assert (vi < l) by (apply (Inc i (length a - 1)%nat); auto; lia). lia.
  - rewrite nth_error_app1 in Ej by lia. apply (Inc i j); auto.
Qed.

Lemma rev_head_last {A} (a : list A) l r : rev a = l :: r -> nth_error a (length a - 1) = Some l.
Proof.
  intros E. assert (a = rev r ++ [l]) by (rewrite <- (rev_involutive a), E; reflexivity). subst a.
  rewrite app_length. simpl. rewrite nth_error_app2 by lia.
  replace (length (rev r) + 1 - 1 - length (rev r))%nat with 0%nat by lia. reflexivity.
Qed.

Lemma file_add_line_facts f off :
  bs (file_add_line f off) = bs f /\ f_name (file_add_line f off) = f_name f /\
  f_line (file_add_line f off) = f_line f /\ (incr (f_lines f) -> incr (f_lines (file_add_line f off))).
Proof.
  unfold file_add_line.
  destruct ((match rev (f_lines f) with [] => true | l :: _ => l <? off end) && (off <? f_size f)) eqn:E; auto.
  repeat split; auto. simpl. intros Inc. apply incr_snoc; auto.
  intros l El. apply andb_true_iff in E. destruct E as [E _].
  destruct (rev (f_lines f)) as [|l0 r] eqn:Er.
  - assert (f_lines f = []) by (rewrite <- (rev_involutive (f_lines f)), Er; reflexivity).
    rewrite H in El. simpl in El. discriminate.
  - rewrite (rev_head_last _ _ _ Er) in El. inversion El; subst. apply Z.ltb_lt. exact E.
Qed.

Lemma lines_valid_incr size : forall l prev, lines_valid size prev l = true ->
  incr l /\ (forall q, prev = Some q -> forall y, In y l -> q < y).
Proof.
  induction l as [|o l IH]; intros prev H; simpl in H.
  - split; [intros i j vi vj Ei; destruct i; discriminate|intros q _ y []].
  - destruct ((match prev with Some q => o <=? q | None => false end) || (size <=? o)) eqn:E; [discriminate|].
    apply orb_false_iff in E. destruct E as [E1 E2].
    destruct (IH _ H) as [Inc Gt]. split.
    + intros i j vi vj Ei Ej L. destruct j; [lia|]. destruct i; simpl in *.
      * inversion Ei; subst. apply (Gt vi eq_refl). eapply nth_error_In; eauto.
      * apply (Inc i j); auto. lia.
    + intros q -> y [->|Hy].
      * apply Z.leb_gt. exact E1.
      * assert (o < y) by (apply (Gt o eq_refl); auto). apply Z.leb_gt in E1. lia.
Qed.

Lemma file_set_lines_facts f lines : let f' := fst (file_set_lines f lines) in
  bs f' = bs f /\ f_name f' = f_name f /\ f_line f' = f_line f /\ (incr (f_lines f) -> incr (f_lines f')).
Proof.
  unfold file_set_lines. destruct (lines_valid (f_size f) None lines) eqn:E; simpl; auto.
  repeat split; auto. intros _. apply (lines_valid_incr _ _ _ E).
Qed.

Lemma fstep_inv s o : fs_inv s -> fs_inv (fst (fstep s o)).
Proof.
  intros I. destruct o as [name base size line|i off|i lines]; simpl.
  - destruct (add_file s name base size line) as [s'|] eqn:E; simpl; auto.
    destruct (add_file_spec _ _ _ _ _ _ I E) as (b & _ & _ & _ & _ & I'). exact I'.
  - destruct I as [G B Ln La]. constructor; simpl.
    + rewrite update_nth_map; auto. intros x. apply file_add_line_facts.
    + rewrite update_nth_map; auto. intros x. apply file_add_line_facts.
    + apply update_nth_Forall; auto. intros x. apply file_add_line_facts.
    + rewrite update_nth_length. exact La.
  - destruct I as [G B Ln La]. constructor; simpl.
    + rewrite update_nth_map; auto. intros x. apply file_set_lines_facts.
    + rewrite update_nth_map; auto. intros x. apply file_set_lines_facts.
    + apply update_nth_Forall; auto. intros x. apply file_set_lines_facts.
    + rewrite update_nth_length. exact La.
Qed.

Lemma frun_inv : forall ops s, fs_inv s -> fs_inv (fst (frun s ops)).
Proof.
  induction ops as [|o ops IH]; intros s I; simpl; auto.
  pose proof (fstep_inv s o I) as I1. destruct (fstep s o) as [s1 b]. simpl in I1.
  specialize (IH s1 I1). destruct (frun s1 ops) as [s2 bs']. exact IH.
Qed.

(* C27_fileset_offset *)
Lemma fileset_offset : forall ops p, let s := fst (frun new_fileset ops) in
  exists s', fork_position_for s p = Some (s', spec_position_for s p) /\ s_files s' = s_files s /\ s_base s' = s_base s.
Proof.
  intros ops p s. destruct (fork_position_for_spec s p (frun_inv ops _ inv_new)) as (s' & E & (Sf & Sb) & _).
  exists s'. auto.
Qed.

(* a sequence of queries (each may move the cache) answers every one by the specification *)
Lemma fqueries_spec : forall ps s, fs_inv s -> fqueries s ps = Some (map (spec_position_for s) ps).
Proof.
  induction ps as [|p ps IH]; intros s I; simpl; auto.
  destruct (fork_position_for_spec s p I) as (s' & E & (Sf & Sb) & I'). rewrite E, (IH s' I').
  f_equal. f_equal. apply map_ext. intros q. unfold spec_position_for, spec_file. rewrite Sf. reflexivity.
Qed.

Lemma fileset_queries : forall ops ps, let s := fst (frun new_fileset ops) in
  fqueries s ps = Some (map (spec_position_for s) ps).
Proof. intros. apply fqueries_spec. apply frun_inv, inv_new. Qed.

(* file selection: two different files of a reachable set never contain the same position *)
Lemma files_disjoint : forall ops i j fi fj p, let s := fst (frun new_fileset ops) in
  nth_error (s_files s) i = Some fi -> nth_error (s_files s) j = Some fj ->
  contains fi p = true -> contains fj p = true -> i = j.
Proof.
  intros ops i j fi fj p s Ei Ej Ci Cj. pose proof (inv_gaps s (frun_inv ops _ inv_new)) as G.
  apply contains_true in Ci, Cj.
  destruct (lt_eq_lt_dec i j) as [[L|E]|L]; auto; exfalso.
  - pose proof (gaps_nth _ _ i j _ _ _ _ G (nth_bs _ _ _ Ei) (nth_bs _ _ _ Ej) L). lia.
  - pose proof (gaps_nth _ _ j i _ _ _ _ G (nth_bs _ _ _ Ej) (nth_bs _ _ _ Ei) L). lia.
Qed.

(* ------------------------------------------------------------------ part 2: bytes, newlines, columns *)

(* offsets of the line starts the scanner registers while reading src whose first byte has offset off *)
Fixpoint nl_starts (src : list N) (off : Z) : list Z :=
  match src with
  | [] => []
  | b :: r => (if N.eqb b NL then [off + 1] else []) ++ nl_starts r (off + 1)
  end.

Lemma nl_starts_gt : forall src off l, In l (nl_starts src off) -> off < l.
Proof.
  induction src as [|b r IH]; intros off l H; simpl in H; [contradiction|].
  apply in_app_or in H. destruct H as [H|H].
  - destruct (N.eqb b NL); simpl in H; [destruct H as [<-|[]]; lia|contradiction].
  - apply IH in H. lia.
Qed.

Lemma filter_all_false {A} (h : A -> bool) : forall l, (forall x, In x l -> h x = false) -> filter h l = [].
Proof.
  induction l as [|x l IH]; intros H; simpl; auto. rewrite (H x (or_introl eq_refl)). apply IH. intros y Hy. apply H. right; exact Hy.
Qed.

Lemma filter_filter_imp {A} (p q : A -> bool) : (forall x, p x = true -> q x = true) ->
  forall l, filter p (filter q l) = filter p l.
Proof.
  intros H. induction l as [|x l IH]; simpl; auto.
  destruct (q x) eqn:Q; simpl; [rewrite IH; reflexivity|].
  destruct (p x) eqn:P; [rewrite (H x P) in Q; discriminate|exact IH].
Qed.

Lemma nl_starts_prefix : forall src off k,
  filter (fun l => l <=? off + Z.of_nat k) (nl_starts src off) = nl_starts (firstn k src) off.
Proof.
  induction src as [|b r IH]; intros off k; [destruct k; reflexivity|].
  destruct k as [|k].
  - simpl firstn. simpl nl_starts at 2. apply filter_all_false. intros l Hl.
    apply (nl_starts_gt (b :: r)) in Hl. apply Z.leb_gt. lia.
  - simpl firstn. simpl nl_starts. rewrite filter_app. f_equal.
    + destruct (N.eqb b NL); [|reflexivity]. cbn [filter].
      replace (off + 1 <=? off + Z.of_nat (S k)) with true; auto. symmetry; apply Z.leb_le; lia.
    + replace (off + Z.of_nat (S k)) with (off + 1 + Z.of_nat k) by lia. apply IH.
Qed.

Lemma count_nl_app a b : count_nl (a ++ b) = count_nl a + count_nl b.
Proof. induction a as [|x a IH]; simpl; auto. rewrite IH. lia. Qed.

Lemma count_nl_nonneg a : 0 <= count_nl a.
Proof. induction a as [|x a IH]; simpl; [lia|]. destruct (N.eqb x NL); lia. Qed.

Lemma nl_starts_len : forall s off, len (nl_starts s off) = count_nl s.
Proof.
  unfold len. induction s as [|b r IH]; intros off; simpl; auto.
  rewrite app_length, Nat2Z.inj_add, IH. destruct (N.eqb b NL); simpl; lia.
Qed.

Lemma max_fold : forall T a b, Z.max a (fold_right Z.max b T) = fold_right Z.max (Z.max a b) T.
Proof. induction T as [|x T IH]; intros a b; simpl; auto. rewrite <- IH. lia. Qed.

Lemma col_by_max : forall s off c, 0 <= c ->
  off + len s - fold_right Z.max (off - c) (nl_starts s off) = col_scan s c.
Proof.
  unfold len. induction s as [|b r IH]; intros off c Hc; simpl.
  - lia.
  - destruct (N.eqb b NL); simpl.
    + rewrite max_fold. replace (Z.max (off + 1) (off - c)) with (off + 1 - 0) by lia.
      rewrite <- (IH (off + 1) 0) by lia. lia.
    + replace (off - c) with (off + 1 - (c + 1)) by lia. rewrite <- (IH (off + 1) (c + 1)) by lia. lia.
Qed.

Lemma col_scan_app a b c : col_scan (a ++ b) c = col_scan b (col_scan a c).
Proof. revert c. induction a as [|x a IH]; intros c; simpl; auto. Qed.

Lemma col_scan_nonneg : forall s c, 0 <= c -> 0 <= col_scan s c.
Proof. induction s as [|b r IH]; intros c Hc; simpl; auto. apply IH. destruct (N.eqb b NL); lia. Qed.

Lemma col_scan_blanks : forall n c, col_scan (repeat 32%N n) c = c + Z.of_nat n.
Proof. induction n as [|n IH]; intros c; simpl repeat; simpl col_scan; [lia|]. rewrite IH. change (N.eqb 32 NL) with false. lia. Qed.

Lemma count_nl_blanks : forall n, count_nl (repeat 32%N n) = 0.
Proof. induction n as [|n IH]; simpl; auto. Qed.

Lemma line_start_col : forall s i acc c, c = Z.of_nat i - Z.of_nat acc ->
  col_scan s c = Z.of_nat (i + length s) - Z.of_nat (line_start_of s i acc).
Proof.
  induction s as [|b r IH]; intros i acc c Hc; simpl.
  - rewrite Nat.add_0_r. exact Hc.
  - destruct (N.eqb b NL).
    + rewrite (IH (S i) (S i) 0) by lia. f_equal. lia.
    + rewrite (IH (S i) acc (c + 1)) by lia. f_equal. lia.
Qed.

Lemma firstn_ge_app {A} (a b : list A) k : (length a <= k)%nat -> firstn k (a ++ b) = a ++ firstn (k - length a) b.
Proof. intros H. rewrite firstn_app, firstn_all2 by lia. reflexivity. Qed.

Lemma firstn_split {A} (s : list A) ft k : (ft <= k)%nat -> (ft <= length s)%nat ->
  firstn k s = firstn ft s ++ firstn (k - ft) (skipn ft s).
Proof.
  intros H1 H2. rewrite <- (firstn_skipn ft s) at 1. rewrite firstn_ge_app; rewrite firstn_length_le by lia; auto.
Qed.

(* ------------------------------------------------------------------ the file created by parsing a text *)

Lemma file_add_line_ok f off : (forall l, In l (f_lines f) -> l < off) ->
  file_add_line f off = if off <? f_size f then mkFile (f_name f) (f_base f) (f_size f) (f_lines f ++ [off]) (f_line f) else f.
Proof.
  intros H. unfold file_add_line.
  replace (match rev (f_lines f) with [] => true | l :: _ => l <? off end) with true; auto.
  destruct (rev (f_lines f)) as [|l r] eqn:E; auto. symmetry. apply Z.ltb_lt. apply H.
  apply in_rev. rewrite E. left; reflexivity.
Qed.

Lemma scan_file_lines : forall src f off, (forall l, In l (f_lines f) -> l <= off) ->
  let f' := scan_file f src off in
  f_lines f' = f_lines f ++ filter (fun l => l <? f_size f) (nl_starts src off) /\
  bs f' = bs f /\ f_name f' = f_name f /\ f_line f' = f_line f.
Proof.
  induction src as [|b r IH]; intros f off H; simpl.
  - rewrite app_nil_r. auto.
  - destruct (N.eqb b NL); simpl.
    + rewrite file_add_line_ok by (intros l Hl; apply H in Hl; lia).
      destruct (Z.ltb_spec (off + 1) (f_size f)).
      * match goal with |- context [scan_file ?g r _] => destruct (IH g (off + 1)) as (E1 & E2 & E3 & E4) end.
        { simpl. intros l Hl. apply in_app_or in Hl. destruct Hl as [Hl|[<-|[]]]; [apply H in Hl|]; lia. }
        simpl in *. rewrite E1, <- app_assoc. auto.
      * destruct (IH f (off + 1)) as (E1 & E2 & E3 & E4); [intros l Hl; apply H in Hl; lia|]. auto.
    + destruct (IH f (off + 1)) as (E1 & E2 & E3 & E4); [intros l Hl; apply H in Hl; lia|]. auto.
Qed.

Lemma scan_file_facts : forall src f off, let f' := scan_file f src off in
  bs f' = bs f /\ (incr (f_lines f) -> incr (f_lines f')).
Proof.
  induction src as [|b r IH]; intros f off; simpl; auto.
  destruct (N.eqb b NL).
  - destruct (IH (file_add_line f (off + 1)) (off + 1)) as (E1 & E2).
    destruct (file_add_line_facts f (off + 1)) as (F1 & _ & _ & F4). split; [congruence|auto].
  - apply IH.
Qed.

Definition parsed_file (f : file) (name : N) (src : list N) (line : Z) : Prop :=
  f_name f = name /\ f_size f = len src /\ f_line f = line /\
  f_lines f = 0 :: filter (fun l => l <? len src) (nl_starts src 0).

(* the position reported for byte k of a parsed text *)
Lemma parsed_position s i f name src line k : fs_inv s -> nth_error (s_files s) i = Some f ->
  parsed_file f name src line -> (k < length src)%nat ->
  exists s', fork_position_for s (f_base f + Z.of_nat k) =
    Some (s', mkPos name (Z.of_nat k) (1 + count_nl (firstn k src) + line) (1 + col_scan (firstn k src) 0)).
Proof.
  intros I Ef (Pn & Ps & Pl & Plines) Hk.
  destruct (fork_position_for_spec s (f_base f + Z.of_nat k) I) as (s' & E & _ & _).
  exists s'. rewrite E. f_equal. f_equal.
  destruct (gaps_lo _ _ _ _ _ (inv_gaps s I) (nth_bs _ _ _ Ef)) as (Hb & Hs).
  unfold spec_position_for. destruct (Z.eqb_spec (f_base f + Z.of_nat k) 0); [lia|].
  unfold spec_file. rewrite (find_contains_unique (s_files s) 1 i f _ (inv_gaps s I) Ef)
    by (apply contains_true; unfold len in Ps; lia).
  unfold std_position, fix_offset.
  replace (f_base f + Z.of_nat k - f_base f) with (Z.of_nat k) by lia.
  destruct (Z.ltb_spec (Z.of_nat k) 0); [lia|].
  destruct (Z.ltb_spec (f_size f) (Z.of_nat k)); [unfold len in Ps; lia|].
  rewrite Plines. unfold starts_le. simpl filter.
  destruct (Z.leb_spec 0 (Z.of_nat k)); [|lia].
  rewrite filter_filter_imp by (intros x Hx; apply Z.leb_le in Hx; apply Z.ltb_lt; unfold len; lia).
  pose proof (nl_starts_prefix src 0 k) as Hp. simpl in Hp. rewrite Hp.
  pose proof (nl_starts_len (firstn k src) 0) as Hl.
  pose proof (col_by_max (firstn k src) 0 0 ltac:(lia)) as Hc. simpl in Hc.
  pose proof (count_nl_nonneg (firstn k src)).
  assert (Hlen : len (firstn k src) = Z.of_nat k) by (unfold len; rewrite firstn_length_le; lia).
  unfold shift_line. simpl p_line.
  assert (Hll : len (0 :: nl_starts (firstn k src) 0) = 1 + count_nl (firstn k src)).
  { unfold len in *. simpl length. lia. }
  rewrite Hll. destruct (Z.ltb_spec 0 (1 + count_nl (firstn k src))); [|lia].
  cbn [p_name p_off p_line p_col]. rewrite Pn, Pl. f_equal. rewrite <- Hc, Hlen. lia.
Qed.

Lemma update_nth_app_last {A} (g : A -> A) : forall l x, update_nth (l ++ [x]) (length l) g = l ++ [g x].
Proof. induction l as [|y l IH]; intros x; simpl; auto. rewrite IH. reflexivity. Qed.

Lemma parse_bytes_spec st name src st1 idx : fs_inv (i_fs st) -> parse_bytes st name src = Some (st1, idx) ->
  idx = length (s_files (i_fs st)) /\ i_line st1 = i_line st /\ fs_inv (i_fs st1) /\
  exists f, s_files (i_fs st1) = s_files (i_fs st) ++ [f] /\ parsed_file f name src (i_line st).
Proof.
  intros I E. unfold parse_bytes in E.
  destruct (add_file (i_fs st) name (-1) (len src) (i_line st)) as [fs|] eqn:Ea; [|discriminate].
  inversion E; subst; clear E.
  destruct (add_file_spec _ _ _ _ _ _ I Ea) as (b & Hb & Hs & Ef & Eb & I1).
  split; [reflexivity|]. split; [reflexivity|]. split.
  - destruct I1 as [G B Ln La]. constructor; simpl.
    + rewrite update_nth_map; auto. intros x. apply scan_file_facts.
    + rewrite update_nth_map; auto. intros x. apply scan_file_facts.
    + apply update_nth_Forall; auto. intros x. apply scan_file_facts.
    + rewrite update_nth_length. exact La.
  - simpl. rewrite Ef, update_nth_app_last. eexists. split; [reflexivity|].
    match goal with |- parsed_file (scan_file ?g src 0) _ _ _ => destruct (scan_file_lines src g 0) as (E1 & E2 & E3 & E4) end.
    { simpl. intros l [<-|[]]. lia. }
    unfold bs in E2. simpl in E1, E2, E3, E4. injection E2 as Hb1 Hs1. unfold parsed_file. rewrite E1, E3, E4, Hs1. repeat split; auto.
Qed.

(* ------------------------------------------------------------------ the chunk loop *)

Lemma input_of_cons c l : input_of (c :: l) = c_src c ++ input_of l.
Proof. reflexivity. Qed.

Definition rec_ok (cs : list chunk) (name : N) (line0 : Z) (ci0 : nat) (fs : fileset) (r : evalrec) : Prop :=
  exists j c f str lf,
    e_chunk r = (ci0 + j)%nat /\ nth_error cs j = Some c /\
    nth_error (s_files fs) (e_file r) = Some f /\ parsed_file f name str lf /\
    forall k, c_first c <= Z.of_nat k -> (k < length (c_src c))%nat ->
      (e_delta r <= k)%nat /\ (k - e_delta r < length str)%nat /\
      1 + count_nl (firstn (k - e_delta r) str) + lf =
        line0 + 1 + count_nl (input_of (firstn j cs)) + count_nl (firstn k (c_src c)) /\
      col_scan (firstn (k - e_delta r) str) 0 = col_scan (firstn k (c_src c)) 0.

Lemma rec_ok_shift c cs name line0 ci0 fs r :
  rec_ok cs name (line0 + count_nl (c_src c)) (S ci0) fs r -> rec_ok (c :: cs) name line0 ci0 fs r.
Proof.
  intros (j & c' & f & str & lf & E1 & E2 & E3 & E4 & H).
  exists (S j), c', f, str, lf.
  split; [lia|]. split; [exact E2|]. split; [exact E3|]. split; [exact E4|].
  intros k Hk1 Hk2. destruct (H k Hk1 Hk2) as (A & B & L & C). split; [exact A|]. split; [exact B|]. split; [|exact C].
  rewrite L. simpl firstn. rewrite input_of_cons, count_nl_app. lia.
Qed.

Lemma rec_ok_files cs name line0 ci0 fs fs' r extra :
  s_files fs' = s_files fs ++ extra -> rec_ok cs name line0 ci0 fs r -> rec_ok cs name line0 ci0 fs' r.
Proof.
  intros Ef (j & c & f & str & lf & E1 & E2 & E3 & E4 & H).
  exists j, c, f, str, lf.
  split; [exact E1|]. split; [exact E2|]. split; [|split; [exact E4|exact H]].
  rewrite Ef, nth_error_app1; auto. apply nth_error_Some. congruence.
Qed.

Lemma parse_eval_print_spec st name src st2 r : fs_inv (i_fs st) -> parse_eval_print st name src = Some (st2, r) ->
  fs_inv (i_fs st2) /\ i_line st2 = i_line st + count_nl src /\
  (exists extra, s_files (i_fs st2) = s_files (i_fs st) ++ extra) /\
  match r with
  | Some idx => exists f, nth_error (s_files (i_fs st2)) idx = Some f /\ parsed_file f name src (i_line st)
  | None => True
  end.
Proof.
  intros I E. unfold parse_eval_print in E. destruct (all_space src).
  - inversion E; subst; simpl. split; [exact I|]. split; [reflexivity|].
    split; [exists []; rewrite app_nil_r; reflexivity|trivial].
  - destruct (parse_bytes st name src) as [[st1 idx]|] eqn:Ep; [|discriminate].
    inversion E; subst; clear E. simpl.
    destruct (parse_bytes_spec _ _ _ _ _ I Ep) as (Ei & El & I1 & f & Ef & Pf).
    split; [exact I1|]. split; [lia|]. split; [exists [f]; exact Ef|].
    exists f. split; auto. rewrite Ef, Ei, nth_error_app2, Nat.sub_diag; auto.
Qed.

Lemma repl_loop_spec : forall cs st name ci st' recs, fs_inv (i_fs st) ->
  repl_loop st name cs ci = Some (st', recs) ->
  fs_inv (i_fs st') /\ (exists extra, s_files (i_fs st') = s_files (i_fs st) ++ extra) /\
  Forall (rec_ok cs name (i_line st) ci (i_fs st')) recs.
Proof.
  induction cs as [|c cs IH]; intros st name ci st' recs I E; simpl in E.
  - inversion E; subst. split; [exact I|]. split; [exists []; rewrite app_nil_r; reflexivity|constructor].
  - unfold read_step in E. destruct (Z.ltb_spec (c_first c) 0) as [Hf|Hf].
    + destruct (c_src c) as [|b0 src0] eqn:Es.
      * inversion E; subst. simpl. split; [exact I|]. split; [exists []; rewrite app_nil_r; reflexivity|constructor].
      * destruct (IH (inc_line st (b0 :: src0)) _ _ _ _ I E) as (I' & X & F). split; [exact I'|]. split; [exact X|].
        eapply Forall_impl; [|exact F]. intros r Hr. apply rec_ok_shift. rewrite Es. exact Hr.
    + destruct (parse_eval_print st name (c_src c)) as [[st2 r]|] eqn:Ep; [|discriminate].
      destruct (repl_loop st2 name cs (S ci)) as [[st3 recs3]|] eqn:El; [|discriminate].
      inversion E; subst; clear E.
      destruct (parse_eval_print_spec _ _ _ _ _ I Ep) as (I2 & L2 & (x2 & X2) & R).
      destruct (IH _ _ _ _ _ I2 El) as (I3 & (x3 & X3) & F).
      assert (F' : Forall (rec_ok (c :: cs) name (i_line st) ci (i_fs st')) recs3).
      { eapply Forall_impl; [|exact F]. intros r0 Hr. apply rec_ok_shift. rewrite <- L2. exact Hr. }
      split; auto. split; [exists (x2 ++ x3); rewrite X3, X2, app_assoc; reflexivity|].
      destruct r as [idx|]; auto. constructor; auto.
      destruct R as (f & Ef & Pf).
      exists 0%nat, c, f, (c_src c), (i_line st). cbn [e_chunk e_file e_delta nth_error].
      split; [lia|]. split; [reflexivity|]. split; [rewrite X3, nth_error_app1; auto; apply nth_error_Some; congruence|].
      split; [exact Pf|]. intros k Hk1 Hk2. rewrite Nat.sub_0_r.
      change (count_nl (input_of (firstn 0 (c :: cs)))) with 0. repeat split; auto; lia.
Qed.

(* EvalReader: the first chunk (prefix skipped and blanked) then the loop *)
Lemma reader_first_chunk src ft k : (0 < ft)%nat -> (ft <= k)%nat -> (k < length src)%nat ->
  let comments := firstn ft src in
  let start := line_start_of comments 0 0 in
  let str := repeat 32%N (ft - start) ++ skipn ft src in
  (start <= k)%nat /\ (k - start < length str)%nat /\
  count_nl (firstn (k - start) str) + count_nl comments = count_nl (firstn k src) /\
  col_scan (firstn (k - start) str) 0 = col_scan (firstn k src) 0 /\
  count_nl comments + count_nl str = count_nl src.
Proof.
  intros H0 H1 H2 comments start str.
  assert (Lc : length comments = ft) by (unfold comments; rewrite firstn_length_le; lia).
  pose proof (line_start_col comments 0 0 0 eq_refl) as Hc. fold start in Hc. rewrite Lc in Hc. simpl in Hc.
  pose proof (col_scan_nonneg comments 0 ltac:(lia)) as Hn.
  assert (Hs : (start <= ft)%nat) by lia.
  assert (Lb : length (repeat 32%N (ft - start)) = (ft - start)%nat) by apply repeat_length.
  assert (Ls : length str = (length src - start)%nat).
  { unfold str. rewrite app_length, Lb, skipn_length. lia. }
  assert (Ef : firstn (k - start) str = repeat 32%N (ft - start) ++ firstn (k - ft) (skipn ft src)).
  { unfold str. rewrite firstn_ge_app by lia. rewrite Lb. f_equal. f_equal. lia. }
  assert (Ek : firstn k src = comments ++ firstn (k - ft) (skipn ft src)) by (apply firstn_split; lia).
  repeat split; try lia.
  - rewrite Ef, Ek, !count_nl_app, count_nl_blanks. lia.
  - rewrite Ef, Ek, !col_scan_app, col_scan_blanks. f_equal. lia.
  - assert (count_nl src = count_nl comments + count_nl (skipn ft src))
      by (rewrite <- count_nl_app; unfold comments; rewrite firstn_skipn; reflexivity).
    unfold str. rewrite count_nl_app, count_nl_blanks. lia.
Qed.

Lemma eval_reader_spec st name cs st' recs : fs_inv (i_fs st) -> eval_reader st name cs = Some (st', recs) ->
  fs_inv (i_fs st') /\ Forall (rec_ok cs name 0 0 (i_fs st')) recs.
Proof.
  intros I E. unfold eval_reader in E. destruct cs as [|c cs].
  - inversion E; subst. split; auto.
  - destruct (Z.ltb_spec 0 (c_first c)) as [Hf|Hf].
    + set (ft := Z.to_nat (c_first c)) in *.
      set (comments := firstn ft (c_src c)) in *.
      set (start := line_start_of comments 0 0) in *.
      set (str := repeat 32%N (ft - start) ++ skipn ft (c_src c)) in *.
      destruct (parse_eval_print (inc_line (mkI 0 (i_fs st)) comments) name str) as [[st2 r]|] eqn:Ep; [|discriminate].
      destruct (repl_loop st2 name cs 1) as [[st3 recs3]|] eqn:El; [|discriminate].
      inversion E; subst; clear E.
      destruct (parse_eval_print_spec (inc_line (mkI 0 (i_fs st)) comments) _ _ _ _ I Ep) as (I2 & L2 & (x2 & X2) & R). simpl in L2, X2, R.
      destruct (repl_loop_spec _ _ _ _ _ _ I2 El) as (I3 & (x3 & X3) & F).
      split; auto.
      assert (F' : Forall (rec_ok (c :: cs) name 0 0 (i_fs st')) recs3).
      { eapply Forall_impl; [|exact F]. intros r0 Hr. apply rec_ok_shift.
        assert (count_nl (c_src c) = count_nl comments + count_nl (skipn ft (c_src c)))
          by (rewrite <- count_nl_app; unfold comments; rewrite firstn_skipn; reflexivity).
        assert (count_nl str = count_nl (skipn ft (c_src c)))
          by (unfold str; rewrite count_nl_app, count_nl_blanks; lia).
        replace (0 + count_nl (c_src c)) with (i_line st2) by lia. exact Hr. }
      destruct r as [idx|]; auto. constructor; auto.
      destruct R as (f & Ef & Pf).
      exists 0%nat, c, f, str, (count_nl comments). cbn [e_chunk e_file e_delta nth_error].
      split; [lia|]. split; [reflexivity|]. split; [rewrite X3, nth_error_app1; auto; apply nth_error_Some; congruence|].
      split; [exact Pf|]. intros k Hk1 Hk2.
      pose proof (reader_first_chunk (c_src c) ft k ltac:(lia) ltac:(lia) Hk2) as A. cbv zeta in A.
      fold comments in A. fold start in A. fold str in A. destruct A as (A1 & A2 & A3 & A4 & _).
      change (count_nl (input_of (firstn 0 (c :: cs)))) with 0.
      split; [exact A1|]. split; [exact A2|]. split; [lia|exact A4].
    + destruct (parse_eval_print (mkI 0 (i_fs st)) name (c_src c)) as [[st2 r]|] eqn:Ep; [|discriminate].
      destruct (repl_loop st2 name cs 1) as [[st3 recs3]|] eqn:El; [|discriminate].
      inversion E; subst; clear E.
      destruct (parse_eval_print_spec (mkI 0 (i_fs st)) _ _ _ _ I Ep) as (I2 & L2 & (x2 & X2) & R). simpl in L2, X2, R.
      destruct (repl_loop_spec _ _ _ _ _ _ I2 El) as (I3 & (x3 & X3) & F).
      split; auto.
      assert (F' : Forall (rec_ok (c :: cs) name 0 0 (i_fs st')) recs3).
      { eapply Forall_impl; [|exact F]. intros r0 Hr. apply rec_ok_shift. rewrite <- L2. exact Hr. }
      destruct r as [idx|]; auto. constructor; auto.
      destruct R as (f & Ef & Pf).
      exists 0%nat, c, f, (c_src c), 0. cbn [e_chunk e_file e_delta nth_error].
      split; [lia|]. split; [reflexivity|]. split; [rewrite X3, nth_error_app1; auto; apply nth_error_Some; congruence|].
      split; [exact Pf|]. intros k Hk1 Hk2. rewrite Nat.sub_0_r.
      change (count_nl (input_of (firstn 0 (c :: cs)))) with 0. repeat split; auto; lia.
Qed.

(* ------------------------------------------------------------------ reported position = true position *)

Inductive reachable : interp -> Prop :=
| reach_init : forall L ops, reachable (mkI L (fst (frun new_fileset ops)))
| reach_run : forall st m name cs st' recs,
    reachable st -> run_source st m name cs = Some (st', recs) -> reachable st'.

Definition line0 (m : mode) (st : interp) : Z := match m with Reader => 0 | Repl => i_line st end.

Lemma run_source_spec st m name cs st' recs : fs_inv (i_fs st) -> run_source st m name cs = Some (st', recs) ->
  fs_inv (i_fs st') /\ Forall (rec_ok cs name (line0 m st) 0 (i_fs st')) recs.
Proof.
  intros I E. destruct m; simpl in E.
  - apply (eval_reader_spec _ _ _ _ _ I E).
  - destruct (repl_loop_spec _ _ _ _ _ _ I E) as (I' & _ & F). split; auto.
Qed.

Lemma reachable_inv st : reachable st -> fs_inv (i_fs st).
Proof.
  induction 1 as [L ops|st m name cs st' recs R IH E].
  - simpl. apply frun_inv, inv_new.
  - apply (run_source_spec _ _ _ _ _ _ IH E).
Qed.

Definition ends_nl (c : chunk) : Prop := c_src c = [] \/ exists s, c_src c = s ++ [NL].

Lemma input_of_app a b : input_of (a ++ b) = input_of a ++ input_of b.
Proof. unfold input_of. rewrite map_app, concat_app. reflexivity. Qed.

Lemma input_split : forall cs ci c, nth_error cs ci = Some c ->
  input_of cs = input_of (firstn ci cs) ++ c_src c ++ input_of (skipn (S ci) cs).
Proof.
  induction cs as [|d cs IH]; intros ci c E; destruct ci; simpl in E; try discriminate.
  - inversion E; subst. reflexivity.
  - simpl firstn. simpl skipn. rewrite !input_of_cons, (IH ci c E) at 1. rewrite <- app_assoc. reflexivity.
Qed.

Lemma true_prefix cs ci c k : nth_error cs ci = Some c -> (k <= length (c_src c))%nat ->
  firstn (chunk_offset cs ci + k) (input_of cs) = input_of (firstn ci cs) ++ firstn k (c_src c).
Proof.
  intros E Hk. unfold chunk_offset. rewrite (input_split cs ci c E) at 1.
  rewrite firstn_ge_app by lia. f_equal. replace (length (input_of (firstn ci cs)) + k - length (input_of (firstn ci cs)))%nat with k by lia.
  rewrite firstn_app. replace (k - length (c_src c))%nat with 0%nat by lia. simpl. apply app_nil_r.
Qed.

Lemma col_after_lines : forall l, Forall ends_nl l -> col_scan (input_of l) 0 = 0.
Proof.
  induction l as [|c l IH]; intros F; [reflexivity|]. inversion F; subst.
  rewrite input_of_cons, col_scan_app. destruct H1 as [->|(s & ->)]; simpl; auto.
  rewrite col_scan_app. simpl. auto.
Qed.

Lemma report_true st m name cs st' recs ci k c pos :
  reachable st -> run_source st m name cs = Some (st', recs) ->
  nth_error cs ci = Some c -> c_first c <= Z.of_nat k -> (k < length (c_src c))%nat ->
  report st' recs ci k = Some pos ->
  p_name pos = name /\
  p_line pos = line0 m st + true_line (input_of cs) (chunk_offset cs ci + k) /\
  (Forall ends_nl (firstn ci cs) -> p_col pos = true_col (input_of cs) (chunk_offset cs ci + k)).
Proof.
  intros R E Ec Hk1 Hk2 Hr.
  destruct (run_source_spec _ _ _ _ _ _ (reachable_inv _ R) E) as (I' & F).
  unfold report, find_rec in Hr.
  destruct (find (fun r => Nat.eqb (e_chunk r) ci) recs) as [r|] eqn:Efind; [|discriminate].
  apply find_some in Efind. destruct Efind as (Hin & Heq). apply Nat.eqb_eq in Heq.
  rewrite Forall_forall in F. destruct (F r Hin) as (j & c' & f & str & lf & E1 & E2 & E3 & E4 & H).
  assert (j = ci) by lia. subst j. assert (c' = c) by congruence. subst c'.
  rewrite E3 in Hr. destruct (H k Hk1 Hk2) as (A1 & A2 & A3 & A4).
  destruct (Nat.ltb_spec k (e_delta r)); [lia|].
  destruct (parsed_position _ _ _ _ _ _ (k - e_delta r) I' E3 E4 A2) as (s' & Ep). rewrite Ep in Hr.
  assert (Epos : pos = mkPos name (Z.of_nat (k - e_delta r)) (1 + count_nl (firstn (k - e_delta r) str) + lf)
                             (1 + col_scan (firstn (k - e_delta r) str) 0)) by congruence.
  clear Hr Ep. rewrite Epos. cbv [p_name p_line p_col].
  unfold true_line, true_col. rewrite (true_prefix cs ci c k Ec) by lia.
  split; [reflexivity|]. split.
  - rewrite A3, count_nl_app. lia.
  - intros Fe. rewrite A4, col_scan_app, (col_after_lines _ Fe). reflexivity.
Qed.

(* monotonicity *)
Lemma count_nl_firstn_mono : forall s g g', (g <= g')%nat -> count_nl (firstn g s) <= count_nl (firstn g' s).
Proof.
  induction s as [|b s IH]; intros g g' H; [destruct g, g'; simpl; lia|].
  destruct g as [|g]; destruct g' as [|g']; try lia; simpl.
  - pose proof (count_nl_nonneg (firstn g' s)). destruct (N.eqb b NL); lia.
  - specialize (IH g g' ltac:(lia)). lia.
Qed.

Lemma chunk_offset_step : forall cs ci c, nth_error cs ci = Some c ->
  chunk_offset cs (S ci) = (chunk_offset cs ci + length (c_src c))%nat.
Proof.
  unfold chunk_offset. induction cs as [|d cs IH]; intros ci c E; destruct ci; simpl in E; try discriminate.
  - inversion E; subst. change (firstn 1 (c :: cs)) with [c]. change (firstn 0 (c :: cs)) with (@nil chunk).
    rewrite input_of_cons. unfold input_of at 1 2. simpl. rewrite app_nil_r. reflexivity.
  - change (firstn (S (S ci)) (d :: cs)) with (d :: firstn (S ci) cs).
    change (firstn (S ci) (d :: cs)) with (d :: firstn ci cs).
    rewrite !input_of_cons, !app_length, (IH ci c E). lia.
Qed.

Lemma chunk_offset_mono : forall cs i j, (i <= j)%nat -> (chunk_offset cs i <= chunk_offset cs j)%nat.
Proof.
  unfold chunk_offset. induction cs as [|d cs IH]; intros i j H; [destruct i, j; simpl; lia|].
  destruct i as [|i]; destruct j as [|j]; try lia; simpl firstn.
  - simpl. lia.
  - rewrite !input_of_cons, !app_length. specialize (IH i j ltac:(lia)). lia.
Qed.

Lemma lines_monotone st m name cs st' recs ci k c pos ci' k' c' pos' :
  reachable st -> run_source st m name cs = Some (st', recs) ->
  nth_error cs ci = Some c -> c_first c <= Z.of_nat k -> (k < length (c_src c))%nat ->
  nth_error cs ci' = Some c' -> c_first c' <= Z.of_nat k' -> (k' < length (c_src c'))%nat ->
  report st' recs ci k = Some pos -> report st' recs ci' k' = Some pos' ->
  (ci < ci')%nat \/ (ci = ci' /\ (k <= k')%nat) ->
  p_line pos <= p_line pos'.
Proof.
  intros R E Ec H1 H2 Ec' H1' H2' Hr Hr' Ord.
  destruct (report_true _ _ _ _ _ _ _ _ _ _ R E Ec H1 H2 Hr) as (_ & L & _).
  destruct (report_true _ _ _ _ _ _ _ _ _ _ R E Ec' H1' H2' Hr') as (_ & L' & _).
  rewrite L, L'. unfold true_line.
  assert (chunk_offset cs ci + k <= chunk_offset cs ci' + k')%nat.
  { destruct Ord as [Lt|(-> & Le)]; [|lia].
    pose proof (chunk_offset_step cs ci c Ec). pose proof (chunk_offset_mono cs (S ci) ci' ltac:(lia)). lia. }
  pose proof (count_nl_firstn_mono (input_of cs) _ _ H). lia.
Qed.

(* ------------------------------------------------------------------ a position is reported *)

(* a chunk that ends the loop: ReadMultiline returned "", -1 (EOF) *)
Definition stops (d : chunk) : Prop := c_first d < 0 /\ c_src d = [].

Lemma repl_loop_has_rec : forall cs st name ci0 st' recs j c,
  repl_loop st name cs ci0 = Some (st', recs) ->
  nth_error cs j = Some c -> 0 <= c_first c -> all_space (c_src c) = false ->
  (forall i d, (i < j)%nat -> nth_error cs i = Some d -> ~ stops d) ->
  exists r, In r recs /\ e_chunk r = (ci0 + j)%nat.
Proof.
  induction cs as [|d cs IH]; intros st name ci0 st' recs j c E Ec Hf Hs Hn; [destruct j; discriminate|].
  simpl in E. destruct j as [|j]; simpl in Ec.
  - inversion Ec; subst d. destruct (Z.ltb_spec (c_first c) 0); [lia|].
    unfold read_step in E. destruct (Z.ltb_spec (c_first c) 0); [lia|].
    unfold parse_eval_print in E. rewrite Hs in E.
    destruct (parse_bytes st name (c_src c)) as [[st1 idx]|]; [|discriminate].
    destruct (repl_loop (inc_line st1 (c_src c)) name cs (S ci0)) as [[st3 recs3]|]; [|discriminate].
    inversion E; subst. eexists. split; [left; reflexivity|]. simpl. lia.
  - assert (Hn' : forall i d0, (i < j)%nat -> nth_error cs i = Some d0 -> ~ stops d0)
      by (intros i d0 Hi Ei; apply (Hn (S i)); [lia|exact Ei]).
    destruct (Z.ltb_spec (c_first d) 0) as [Hd|Hd].
    + destruct (c_src d) as [|b0 s0] eqn:Es.
      * exfalso. apply (Hn 0%nat d); [lia|reflexivity|split; auto].
      * destruct (IH _ _ _ _ _ _ _ E Ec Hf Hs Hn') as (r & Hin & He). exists r. split; auto. lia.
    + destruct (parse_eval_print (read_step st d) name (c_src d)) as [[st2 r2]|]; [|discriminate].
      destruct (repl_loop st2 name cs (S ci0)) as [[st3 recs3]|] eqn:El; [|discriminate].
      inversion E; subst.
      destruct (IH _ _ _ _ _ _ _ El Ec Hf Hs Hn') as (r & Hin & He). exists r. split; [|lia].
      destruct r2; [right|]; exact Hin.
Qed.

Lemma source_has_rec st m name cs st' recs ci c :
  run_source st m name cs = Some (st', recs) ->
  (m = Repl \/ (1 <= ci)%nat) ->
  nth_error cs ci = Some c -> 0 <= c_first c -> all_space (c_src c) = false ->
  (forall i d, (i < ci)%nat -> nth_error cs i = Some d -> ~ stops d) ->
  exists r, In r recs /\ e_chunk r = ci.
Proof.
  intros E Hm Ec Hf Hs Hn. destruct m; simpl in E.
  - destruct Hm as [Hm|Hm]; [discriminate|]. unfold eval_reader in E.
    destruct cs as [|c0 cs]; [destruct ci; discriminate|].
    destruct ci as [|ci]; [lia|]. simpl in Ec.
    destruct (0 <? c_first c0);
    (match type of E with context [parse_eval_print ?a ?b ?d] => destruct (parse_eval_print a b d) as [[st2 r2]|]; [|discriminate] end;
     destruct (repl_loop st2 name cs 1) as [[st3 recs3]|] eqn:El; [|discriminate];
     inversion E; subst;
     destruct (repl_loop_has_rec _ _ _ _ _ _ _ _ El Ec Hf Hs) as (r & Hin & He);
     [intros i d Hi Ei; apply (Hn (S i)); [lia|exact Ei]
     |exists r; split; [destruct r2; [right|]; exact Hin|lia]]).
  - destruct (repl_loop_has_rec _ _ _ _ _ _ _ _ E Ec Hf Hs Hn) as (r & Hin & He). exists r. split; auto.
Qed.

(* a position is reported for every byte at or after firstToken of a chunk that is evaluated *)
Lemma report_defined st m name cs st' recs ci k c :
  reachable st -> run_source st m name cs = Some (st', recs) ->
  (m = Repl \/ (1 <= ci)%nat) ->
  nth_error cs ci = Some c -> 0 <= c_first c -> all_space (c_src c) = false ->
  (forall i d, (i < ci)%nat -> nth_error cs i = Some d -> ~ stops d) ->
  c_first c <= Z.of_nat k -> (k < length (c_src c))%nat ->
  exists pos, report st' recs ci k = Some pos.
Proof.
  intros R E Hm Ec Hf Hs Hn Hk1 Hk2.
  destruct (source_has_rec _ _ _ _ _ _ _ _ E Hm Ec Hf Hs Hn) as (r0 & Hin0 & He0).
  destruct (run_source_spec _ _ _ _ _ _ (reachable_inv _ R) E) as (I' & F).
  unfold report, find_rec.
  destruct (find (fun r => Nat.eqb (e_chunk r) ci) recs) as [r|] eqn:Efind.
  - apply find_some in Efind. destruct Efind as (Hin & Heq). apply Nat.eqb_eq in Heq.
    rewrite Forall_forall in F. destruct (F r Hin) as (j & c' & f & str & lf & E1 & E2 & E3 & E4 & H).
    assert (j = ci) by lia. subst j. assert (c' = c) by congruence. subst c'.
    rewrite E3. destruct (H k Hk1 Hk2) as (A1 & A2 & A3 & A4).
    destruct (Nat.ltb_spec k (e_delta r)); [lia|].
    destruct (parsed_position _ _ _ _ _ _ (k - e_delta r) I' E3 E4 A2) as (s' & Ep). rewrite Ep. eauto.
  - exfalso. pose proof (find_none _ _ Efind r0 Hin0) as Hx. simpl in Hx. apply Nat.eqb_neq in Hx. lia.
Qed.

(* C27 — property theorems only: each closed by [exact lemma], followed by Print Assumptions. *)
From Coq Require Import List NArith ZArith Bool.
From Verif Require Import C27.Model C27.Proof.
Import ListNotations.
Open Scope Z_scope.

(* non-vacuity: a 3-chunk source "x := 1\n" "/* a\nb */ y := u\n" "\n" "z := v" read by EvalReader;
   the token u (chunk 1, offset 14) is reported at 3:11, the token v (chunk 3, offset 5) at 5:6 *)
Definition ex_chunks : list chunk :=
  [ mkChunk (bytes_of 0x178203a3d20310a) 0;
    mkChunk (bytes_of 0x12f2a20610a62202a2f2079203a3d20750a) 10;
    mkChunk [10%N] (-1);
    mkChunk (bytes_of 0x17a203a3d2076) 0 ].
Example C27_example_reader :
  match run_source (mkI 7 new_fileset) Reader 1%N ex_chunks with
  | Some (st, recs) =>
      (report st recs 1 15, report st recs 3 5, i_line st)
  | None => (None, None, -1)
  end = (Some (mkPos 1 15 3 11), Some (mkPos 1 5 5 6), 4).
Proof. vm_compute. reflexivity. Qed.

(* C27 — property theorems only: each closed by [exact lemma], followed by Print Assumptions. *)
From Coq Require Import List NArith ZArith Bool.
From Verif Require Import C27.Model C27.Proof.
Import ListNotations.
Open Scope Z_scope.

(* For every history of AddFile(base,size,starting line)/AddLine/SetLines (panicking AddFile calls leave the set
   unchanged) and every Pos p, the fork's FileSet.PositionFor as written (last-file cache, binary search over
   files, binary search over the line table, line shift) returns the documented go/token position of the
   unique file containing p (Line = number of line starts <= offset, Column = offset - greatest such start + 1,
   file found by linear scan) with Line shifted by that file's starting line; the zero Position if no file
   contains p.  The file set itself is unchanged (only the cache moves). *)
Theorem C27_fileset_offset : forall ops p, let s := fst (frun new_fileset ops) in
  exists s', fork_position_for s p = Some (s', spec_position_for s p) /\
             s_files s' = s_files s /\ s_base s' = s_base s.
Proof. exact fileset_offset. Qed.
Print Assumptions C27_fileset_offset.

(* the same for any sequence of queries, whatever the cache holds in between *)
Theorem C27_fileset_queries : forall ops ps, let s := fst (frun new_fileset ops) in
  fqueries s ps = Some (map (spec_position_for s) ps).
Proof. exact fileset_queries. Qed.
Print Assumptions C27_fileset_queries.

(* file selection: in a reachable file set at most one file contains a given position *)
Theorem C27_file_selection_unique : forall ops i j fi fj p, let s := fst (frun new_fileset ops) in
  nth_error (s_files s) i = Some fi -> nth_error (s_files s) j = Some fj ->
  contains fi p = true -> contains fj p = true -> i = j.
Proof. exact files_disjoint. Qed.
Print Assumptions C27_file_selection_unique.

(* EvalReader/EvalFile, for every interpreter state reachable by any file-set history followed by any number of
   earlier sources, every list of chunks and every byte k at or after firstToken of chunk ci: the reported
   position has the file name given to the parser, line = 1 + number of '\n' before the byte in the
   concatenated input, and — when the chunks before ci end at a line end, as ReadMultiline delivers them —
   column = 1 + bytes since the last '\n'. *)
Theorem C27_line_is_true_line : forall st name cs st' recs ci k c pos,
  reachable st -> run_source st Reader name cs = Some (st', recs) ->
  nth_error cs ci = Some c -> c_first c <= Z.of_nat k -> (k < length (c_src c))%nat ->
  report st' recs ci k = Some pos ->
  p_name pos = name /\
  p_line pos = 0 + true_line (input_of cs) (chunk_offset cs ci + k) /\
  (Forall ends_nl (firstn ci cs) -> p_col pos = true_col (input_of cs) (chunk_offset cs ci + k)).
Proof. intros st name cs. exact (report_true st Reader name cs). Qed.
Print Assumptions C27_line_is_true_line.

(* Interp.Repl does not reset Globals.Line: the reported line is the counter's value at the start of the source
   (0 for a fresh interpreter) plus the true line; name and column as above *)
Theorem C27_repl_line_is_true_line : forall st name cs st' recs ci k c pos,
  reachable st -> run_source st Repl name cs = Some (st', recs) ->
  nth_error cs ci = Some c -> c_first c <= Z.of_nat k -> (k < length (c_src c))%nat ->
  report st' recs ci k = Some pos ->
  p_name pos = name /\
  p_line pos = i_line st + true_line (input_of cs) (chunk_offset cs ci + k) /\
  (Forall ends_nl (firstn ci cs) -> p_col pos = true_col (input_of cs) (chunk_offset cs ci + k)).
Proof. intros st name cs. exact (report_true st Repl name cs). Qed.
Print Assumptions C27_repl_line_is_true_line.

(* reported lines never decrease along the source (either mode) *)
Theorem C27_lines_monotone : forall st m name cs st' recs ci k c pos ci' k' c' pos',
  reachable st -> run_source st m name cs = Some (st', recs) ->
  nth_error cs ci = Some c -> c_first c <= Z.of_nat k -> (k < length (c_src c))%nat ->
  nth_error cs ci' = Some c' -> c_first c' <= Z.of_nat k' -> (k' < length (c_src c'))%nat ->
  report st' recs ci k = Some pos -> report st' recs ci' k' = Some pos' ->
  (ci < ci')%nat \/ (ci = ci' /\ (k <= k')%nat) ->
  p_line pos <= p_line pos'.
Proof. exact lines_monotone. Qed.
Print Assumptions C27_lines_monotone.

(* the theorems above are not vacuous: a position is reported for every byte at or after firstToken of every
   chunk that holds a token and is not white space only, as long as no earlier chunk is the empty end-of-input
   chunk (Interp.Repl: every chunk; EvalReader: every chunk after the first, the first one is covered by the Examples) *)
Theorem C27_report_defined : forall st m name cs st' recs ci k c,
  reachable st -> run_source st m name cs = Some (st', recs) ->
  (m = Repl \/ (1 <= ci)%nat) ->
  nth_error cs ci = Some c -> 0 <= c_first c -> all_space (c_src c) = false ->
  (forall i d, (i < ci)%nat -> nth_error cs i = Some d -> ~ stops d) ->
  c_first c <= Z.of_nat k -> (k < length (c_src c))%nat ->
  exists pos, report st' recs ci k = Some pos.
Proof. exact report_defined. Qed.
Print Assumptions C27_report_defined.

(* ---- non-vacuity ---- *)
(* a 4-chunk source  "x := 1\n"  "/* a\nb */ y := u\n"  "\n"  "z := v"  read by EvalReader on an interpreter whose
   counter stands at 7: u (chunk 1, byte 15) is reported at 3:11, v (chunk 3, byte 5) at 5:6, Globals.Line ends at 4 *)
Definition ex_chunks : list chunk :=
  [ mkChunk (bytes_of 0x178203a3d20310a) 0;
    mkChunk (bytes_of 0x12f2a20610a62202a2f2079203a3d20750a) 10;
    mkChunk [10%N] (-1);
    mkChunk (bytes_of 0x17a203a3d2076) 0 ].
Example C27_example_reader :
  match run_source (mkI 7 new_fileset) Reader 1%N ex_chunks with
  | Some (st, recs) => (report st recs 1 15, report st recs 3 5, i_line st)
  | None => (None, None, -1)
  end = (Some (mkPos 1 15 3 11), Some (mkPos 1 5 5 6), 4).
Proof. vm_compute. reflexivity. Qed.

(* the hypotheses of C27_line_is_true_line hold for that source and both tokens *)
Example C27_example_hypotheses :
  reachable (mkI 7 new_fileset) /\
  Forall ends_nl (firstn 3 ex_chunks) /\
  true_line (input_of ex_chunks) (chunk_offset ex_chunks 1 + 15) = 3 /\
  true_col (input_of ex_chunks) (chunk_offset ex_chunks 1 + 15) = 11 /\
  true_line (input_of ex_chunks) (chunk_offset ex_chunks 3 + 5) = 5 /\
  true_col (input_of ex_chunks) (chunk_offset ex_chunks 3 + 5) = 6.
Proof.
  split; [exact (reach_init 7 [])|]. split; [|vm_compute; repeat split; reflexivity].
  change (firstn 3 ex_chunks) with
    [mkChunk (bytes_of 0x178203a3d20310a) 0; mkChunk (bytes_of 0x12f2a20610a62202a2f2079203a3d20750a) 10; mkChunk [10%N] (-1)].
  constructor; [right; exists (bytes_of 0x178203a3d2031); vm_compute; reflexivity|].
  constructor; [right; exists (bytes_of 0x12f2a20610a62202a2f2079203a3d2075); vm_compute; reflexivity|].
  constructor; [right; exists []; reflexivity|constructor].
Qed.

(* first chunk of a reader with a comment prefix on the token's own line and a line before it:
   "// c\n/* d */ q := w\n"  (firstToken 13): w at byte 18 is reported at 2:14 *)
Example C27_example_first_chunk :
  match run_source (mkI 0 new_fileset) Reader 1%N [mkChunk (bytes_of 0x12f2f20630a2f2a2064202a2f2071203a3d20770a) 13] with
  | Some (st, recs) => report st recs 0 18
  | None => None
  end = Some (mkPos 1 13 2 14).
Proof. vm_compute. reflexivity. Qed.

(* a file set with starting lines 100 and 7: positions of both files, the gap before the explicit base, NoPos *)
Example C27_example_fileset :
  let s := fst (frun new_fileset [FAdd 1 (-1) 10 100; FAddLine 0 4; FAdd 2 20 5 7; FSetLines 1 [0; 2]; FAdd 3 3 1 0]) in
  fqueries s [6; 1; 12; 23; 0; 26] =
  Some [mkPos 1 5 102 2; mkPos 1 0 101 1; no_pos; mkPos 2 3 9 2; no_pos; no_pos].
Proof. vm_compute. reflexivity. Qed.

(* C10 — second group of lemmas: the UsedByClosure marks over all interleavings (fixed Comp.Go).
   Invariant inv2 (on top of inv1 of Proof.v):
     - the Env of every closure is FULLY marked (itself and every frame of its Outer chain),
     - the Outer of a stack frame is fully marked or lies deeper in the same goroutine's stack,
     - marked frames are active (never pooled) and allocated,
     - a marked frame that is not yet fully marked lies on the stack of a goroutine that is inside
       MarkUsedByClosure, and its chain of marked frames leads to that walk's cursor,
     - the cursor of a walk is fully marked or lies on the walker's own stack.
   Consequences: a frame reachable by two goroutines is fully marked; no step writes a field of a frame that
   another goroutine can reach; no two co-enabled steps of different goroutines conflict on any location. *)
From Coq Require Import List Arith Bool ZArith Lia.
From Verif Require Import C10.Model C10.Proof.
Import ListNotations.

(* ---------- Outer chains over a frame map ---------- *)
Inductive anc (F : nat -> frame) : nat -> nat -> Prop :=
| anc_refl : forall f, anc F f f
| anc_step : forall f o a, f_outer (F f) = Some o -> anc F o a -> anc F f a.

(* fully marked: the frame and all frames of its Outer chain have UsedByClosure set *)
Definition FM (F : nat -> frame) (f : nat) : Prop := forall a, anc F f a -> f_mark (F a) = true.

(* a chain of marked frames starting at f whose last Outer is [cur] (the loop variable of a walk in progress) *)
Inductive tocur (F : nat -> frame) (cur : option nat) : nat -> Prop :=
| tc_here : forall f, f_mark (F f) = true -> f_outer (F f) = cur -> tocur F cur f
| tc_step : forall f o, f_mark (F f) = true -> f_outer (F f) = Some o -> tocur F cur o -> tocur F cur f.

(* stack discipline: the Outer of a stack frame is fully marked or deeper in the same stack *)
Fixpoint chain_ok (F : nat -> frame) (l : list nat) : Prop :=
  match l with
  | [] => True
  | f :: l' => (forall o, f_outer (F f) = Some o -> FM F o \/ In o l') /\ chain_ok F l'
  end.

Lemma FM_marked : forall F f, FM F f -> f_mark (F f) = true.
Proof. intros F f H. apply H. constructor. Qed.

Lemma FM_outer : forall F f o, FM F f -> f_outer (F f) = Some o -> FM F o.
Proof. intros F f o H E a A. apply H. econstructor; eauto. Qed.

Lemma tocur_marked : forall F cur f, tocur F cur f -> f_mark (F f) = true.
Proof. intros F cur f H. destruct H; auto. Qed.

Lemma tocur_FM_aux : forall F cur x a, anc F x a -> (forall g, cur = Some g -> FM F g) -> tocur F cur x -> f_mark (F a) = true.
Proof.
  intros F cur x a A. induction A as [f|f o a E A IH]; intros Hc T.
  - eapply tocur_marked; eauto.
  - destruct T as [f M E'|f o' M E' T'].
    + rewrite E in E'. apply (Hc o); auto.
    + rewrite E in E'. inversion E'; subst. apply IH; auto.
Qed.

Lemma tocur_FM : forall F cur f, (forall g, cur = Some g -> FM F g) -> tocur F cur f -> FM F f.
Proof. intros F cur f Hc T a A. eapply tocur_FM_aux; eauto. Qed.

Lemma tocur_cycle_aux : forall F g x a, anc F x a -> tocur F (Some g) g -> tocur F (Some g) x -> f_mark (F a) = true.
Proof.
  intros F g x a A. induction A as [f|f o a E A IH]; intros Tg T.
  - eapply tocur_marked; eauto.
  - destruct T as [f M E'|f o' M E' T'].
    + rewrite E in E'. inversion E'; subst. apply IH; auto.
    + rewrite E in E'. inversion E'; subst. apply IH; auto.
Qed.

Lemma tocur_cycle : forall F g, tocur F (Some g) g -> FM F g.
Proof. intros F g T a A. eapply tocur_cycle_aux; eauto. Qed.

(* F' agrees with F on the marked frames of F (Outer kept, mark kept) *)
Definition keeps (F F' : nat -> frame) : Prop :=
  forall y, f_mark (F y) = true -> f_outer (F' y) = f_outer (F y) /\ f_mark (F' y) = true.

Lemma FM_keeps_aux : forall F F' f a, keeps F F' -> anc F' f a -> FM F f -> f_mark (F' a) = true.
Proof.
  intros F F' f a K A. induction A as [f|f o a E A IH]; intros H.
  - apply K. apply FM_marked; auto.
  - apply IH. destruct (K f (FM_marked _ _ H)) as [Eo _]. rewrite Eo in E. eapply FM_outer; eauto.
Qed.

Lemma FM_keeps : forall F F' f, keeps F F' -> FM F f -> FM F' f.
Proof. intros F F' f K H a A. eapply FM_keeps_aux; eauto. Qed.

Lemma tocur_keeps : forall F F' cur f, keeps F F' -> tocur F cur f -> tocur F' cur f.
Proof.
  intros F F' cur f K T. induction T as [f M E|f o M E T IH].
  - destruct (K f M) as [Eo Em]. apply tc_here; auto. congruence.
  - destruct (K f M) as [Eo Em]. eapply tc_step; eauto. congruence.
Qed.

Lemma keeps_upd_unmarked : forall F x v, f_mark (F x) = false -> keeps F (upd F x v).
Proof.
  intros F x v Hx y My. assert (y <> x) by (intros ->; congruence).
  rewrite upd_other; auto.
Qed.

Lemma keeps_upd_mark : forall F g, keeps F (upd F g (mkF (f_run (F g)) (f_outer (F g)) true (f_st (F g)))).
Proof.
  intros F g y My. destruct (Nat.eq_dec y g) as [->|N].
  - rewrite upd_same. simpl. auto.
  - rewrite upd_other; auto.
Qed.

Lemma keeps_refl : forall F, keeps F F.
Proof. intros F y My; auto. Qed.

(* the walk marks its cursor g and moves to g's Outer *)
Lemma tocur_extend : forall F g f,
  f_mark (F g) = false -> tocur F (Some g) f ->
  tocur (upd F g (mkF (f_run (F g)) (f_outer (F g)) true (f_st (F g)))) (f_outer (F g)) f.
Proof.
  intros F g f Hg T.
  assert (Tg : tocur (upd F g (mkF (f_run (F g)) (f_outer (F g)) true (f_st (F g)))) (f_outer (F g)) g).
  { apply tc_here; rewrite upd_same; reflexivity. }
  induction T as [f M E|f o M E T IH].
  - assert (f <> g) by (intros ->; congruence).
    eapply tc_step; [rewrite upd_other; auto | rewrite upd_other; eauto | exact Tg].
  - assert (f <> g) by (intros ->; congruence).
    eapply tc_step; [rewrite upd_other; auto | rewrite upd_other; eauto | exact IH].
Qed.

Lemma chain_ok_in : forall F l f o, chain_ok F l -> In f l -> f_outer (F f) = Some o -> FM F o \/ In o l.
Proof.
  intros F l. induction l as [|x l IH]; simpl; intros f o C I E; [contradiction|].
  destruct C as [C1 C2]. destruct I as [->|I].
  - destruct (C1 _ E); auto.
  - destruct (IH _ _ C2 I E); auto.
Qed.

Lemma chain_ok_change : forall F F' l,
  (forall f, In f l -> f_outer (F' f) = f_outer (F f)) -> (forall o, FM F o -> FM F' o) ->
  chain_ok F l -> chain_ok F' l.
Proof.
  intros F F' l. induction l as [|x l IH]; simpl; intros Hs Hm C; auto.
  destruct C as [C1 C2]. split.
  - intros o E. rewrite Hs in E by auto. destruct (C1 _ E); auto.
  - apply IH; auto.
Qed.

(* ---------- the invariant ---------- *)
Record inv2 (s : state) : Prop := {
  b_clos : forall c, In c (clos s) -> FM (fr s) c;
  b_chain : forall t, chain_ok (fr s) (t_stack (thr s t));
  b_act : forall f, f_mark (fr s f) = true -> f_st (fr s f) = FActive /\ f < nfr s;
  b_fm : forall f, f_mark (fr s f) = true ->
      FM (fr s) f \/
      exists t cur c, t_pc (thr s t) = TMark cur c /\ In f (t_stack (thr s t)) /\ tocur (fr s) cur f;
  b_walk : forall t cur c, t_pc (thr s t) = TMark cur c ->
      In c (t_stack (thr s t)) /\
      (cur = Some c \/ FM (fr s) c \/ tocur (fr s) cur c) /\
      (forall g, cur = Some g -> FM (fr s) g \/ In g (t_stack (thr s t)))
}.

Lemma init_inv2 : forall id0, inv2 (init id0).
Proof.
  intros id0.
  assert (A0 : forall a, anc (fr (init id0)) 0 a -> a = 0).
  { intros a A. inversion A; subst; auto. simpl in H. discriminate. }
  assert (A1 : forall a, anc (fr (init id0)) 1 a -> a = 1 \/ a = 0).
  { intros a A. inversion A; subst; auto. simpl in H. inversion H; subst. right. apply A0; auto. }
  assert (F0 : FM (fr (init id0)) 0) by (intros a A; apply A0 in A; subst; reflexivity).
  assert (F1 : FM (fr (init id0)) 1) by (intros a A; apply A1 in A; destruct A; subst; reflexivity).
  constructor.
  - simpl. intros c [<-|[<-|[]]]; auto.
  - intros t. simpl. unfold upd. destruct (Nat.eqb t 0); simpl; auto.
    split; [|split; auto].
    + intros o E. inversion E; subst. right. left. reflexivity.
    + intros o E. discriminate.
  - intros f. simpl. intros H. split; auto. apply Nat.ltb_lt in H. exact H.
  - intros f. simpl. intros H. left. apply Nat.ltb_lt in H.
    destruct f as [|[|f]]; auto. lia.
  - intros t cur c. simpl. unfold upd. destruct (Nat.eqb t 0); simpl; discriminate.
Qed.

(* a step of a goroutine that is not inside a walk and sets no mark: everything but the stack discipline follows *)
Lemma inv2_generic : forall s s',
  inv2 s ->
  (forall y, f_mark (fr s y) = true -> fr s' y = fr s y) ->
  (forall y, f_mark (fr s' y) = true -> f_mark (fr s y) = true) ->
  (forall t, t_pc (thr s' t) = t_pc (thr s t)) ->
  (forall t cur c, t_pc (thr s t) = TMark cur c -> t_stack (thr s' t) = t_stack (thr s t)) ->
  clos s' = clos s -> nfr s <= nfr s' ->
  (forall t, chain_ok (fr s') (t_stack (thr s' t))) ->
  inv2 s'.
Proof.
  intros s s' J HF Hm Hpc Hst Hcl Hn Hch.
  assert (K : keeps (fr s) (fr s')).
  { intros y My. rewrite (HF y My). auto. }
  constructor.
  - intros c Hc. rewrite Hcl in Hc. eapply FM_keeps; eauto. apply (b_clos _ J); auto.
  - exact Hch.
  - intros f M. pose proof (Hm _ M) as M0. rewrite (HF _ M0). destruct (b_act _ J _ M0). split; auto. lia.
  - intros f M. pose proof (Hm _ M) as M0. destruct (b_fm _ J _ M0) as [H|[t [cur [c [P [I T]]]]]].
    + left. eapply FM_keeps; eauto.
    + right. exists t, cur, c. rewrite Hpc, (Hst _ _ _ P). repeat split; auto. eapply tocur_keeps; eauto.
  - intros t cur c P. rewrite Hpc in P. destruct (b_walk _ J _ _ _ P) as [I [A B]].
    rewrite (Hst _ _ _ P). split; auto. split.
    + destruct A as [A|[A|A]]; auto.
      * right; left. eapply FM_keeps; eauto.
      * right; right. eapply tocur_keeps; eauto.
    + intros g E. destruct (B g E); auto. left. eapply FM_keeps; eauto.
Qed.

Lemma unmarked_pooled : forall s f r, inv2 s -> f_st (fr s f) = FPooled r -> f_mark (fr s f) = false.
Proof.
  intros s f r J H. destruct (f_mark (fr s f)) eqn:M; auto.
  destruct (b_act _ J _ M) as [A _]. congruence.
Qed.

Lemma unmarked_fresh : forall s f, inv2 s -> nfr s <= f -> f_mark (fr s f) = false.
Proof.
  intros s f J H. destruct (f_mark (fr s f)) eqn:M; auto.
  destruct (b_act _ J _ M) as [_ A]. lia.
Qed.

(* pushing a new (recycled or fresh) frame on the stack of a goroutine that is not inside a walk *)
Lemma push_inv2 : forall s t f r outer n',
  inv1 s -> inv2 s -> t_pc (thr s t) = TRun ->
  f_mark (fr s f) = false -> (forall t', ~ In f (t_stack (thr s t'))) ->
  (FM (fr s) outer \/ In outer (t_stack (thr s t))) -> nfr s <= n' ->
  inv2 (mkS (upd (fr s) f (mkF r (Some outer) false FActive)) n'
            (upd (thr s) t (mkT (t_live (thr s t)) (t_id (thr s t)) (f :: t_stack (thr s t)) (t_rec (thr s t)) (t_pc (thr s t))))
            (nthr s) (owner s) (nrec s) (clos s)).
Proof.
  intros s t f r outer n' I J P Mf Nf Ho Hn.
  assert (K : keeps (fr s) (upd (fr s) f (mkF r (Some outer) false FActive))) by (apply keeps_upd_unmarked; auto).
  apply (inv2_generic s); simpl; auto.
  - intros y My. apply upd_other. intros ->; congruence.
  - intros y. destruct (Nat.eq_dec y f) as [->|N]; [rewrite upd_same; simpl; discriminate|rewrite upd_other; auto].
  - intros x. destruct (Nat.eq_dec x t) as [->|N]; [rewrite upd_same; reflexivity|rewrite upd_other; auto].
  - intros x cur c Px. destruct (Nat.eq_dec x t) as [->|N]; [congruence|rewrite upd_other; auto].
  - intros x.
    assert (C : chain_ok (upd (fr s) f (mkF r (Some outer) false FActive)) (t_stack (thr s x))).
    { eapply chain_ok_change; [| |apply (b_chain _ J)].
      - intros g Hg. rewrite upd_other; auto. intros ->. eapply Nf; eauto.
      - intros o. apply FM_keeps; auto. }
    destruct (Nat.eq_dec x t) as [->|N]; [rewrite upd_same|rewrite upd_other; auto].
    simpl. split; auto.
    intros o E. rewrite upd_same in E. simpl in E. inversion E; subst.
    destruct Ho; auto. left. eapply FM_keeps; eauto.
Qed.

Lemma take_frame_inv2 : forall s t r outer reuse s',
  inv1 s -> inv2 s -> t_pc (thr s t) = TRun ->
  (FM (fr s) outer \/ In outer (t_stack (thr s t))) ->
  take_frame s t r outer reuse = Some s' -> inv2 s'.
Proof.
  intros s t r outer reuse s' I J P Ho H. unfold take_frame in H. destruct reuse as [f|].
  - destruct (f_st (fr s f)) as [|r'] eqn:Hst; [discriminate|].
    destruct (Nat.eqb r' r); [|discriminate]. inversion H; subst; clear H.
    unfold set_thr, set_fr. simpl.
    apply push_inv2; auto.
    + eapply unmarked_pooled; eauto.
    + intros t' Hin. destruct (a_stack _ I _ _ Hin) as [_ [A _]]. congruence.
  - inversion H; subst; clear H.
    apply push_inv2; auto.
    + apply unmarked_fresh; auto.
    + intros t' Hin. destruct (a_stack _ I _ _ Hin) as [_ [_ [A _]]]. lia.
Qed.

Lemma lookup_inv2 : forall s t s1 r, inv2 s -> lookup s t = (s1, r) ->
  inv2 s1 /\ fr s1 = fr s /\ clos s1 = clos s /\ t_pc (thr s1 t) = t_pc (thr s t) /\ t_stack (thr s1 t) = t_stack (thr s t).
Proof.
  intros s t s1 r J H. unfold lookup in H. destruct (t_rec (thr s t)).
  - inversion H; subst. auto.
  - inversion H; subst; clear H. simpl. rewrite upd_same. simpl. split; auto.
    apply (inv2_generic s); simpl; auto.
    + intros x. destruct (Nat.eq_dec x t) as [->|N]; [rewrite upd_same; reflexivity|rewrite upd_other; auto].
    + intros x cur c Px. destruct (Nat.eq_dec x t) as [->|N]; [rewrite upd_same; reflexivity|rewrite upd_other; auto].
    + intros x. destruct (Nat.eq_dec x t) as [->|N]; [rewrite upd_same|rewrite upd_other; auto]; apply (b_chain _ J).
Qed.

Lemma mem_In : forall x l, mem x l = true -> In x l.
Proof.
  induction l as [|y l IH]; simpl; intros H; [discriminate|].
  apply orb_true_iff in H. destruct H as [H|H]; auto. apply Nat.eqb_eq in H. auto.
Qed.

Lemma chain_ok_tail : forall F f l, chain_ok F (f :: l) -> chain_ok F l.
Proof. intros F f l [_ H]; exact H. Qed.

(* steps that leave the frame map alone and only shrink / create stacks of goroutines outside a walk *)
Lemma inv2_same_frames : forall s s',
  inv2 s -> fr s' = fr s -> clos s' = clos s -> nfr s' = nfr s ->
  (forall t, t_pc (thr s' t) = t_pc (thr s t)) ->
  (forall t cur c, t_pc (thr s t) = TMark cur c -> t_stack (thr s' t) = t_stack (thr s t)) ->
  (forall t, chain_ok (fr s) (t_stack (thr s' t))) ->
  inv2 s'.
Proof.
  intros s s' J Hf Hc Hn Hpc Hst Hch.
  apply (inv2_generic s); auto.
  - intros; rewrite Hf; auto.
  - intros y; rewrite Hf; auto.
  - lia.
  - intros t; rewrite Hf; auto.
Qed.

Lemma step_inv2 : forall s e s', inv1 s -> inv2 s -> step true s e = Some s' -> inv2 s'.
Proof.
  intros s e s' I J H. destruct e; unfold step in H.
  - (* ECall *)
    destruct (_ && _) eqn:Hc in H; [|discriminate]. bool_hyps. apply mem_In in H1.
    destruct (Nat.eqb (owner s (f_run (fr s c))) (t_id (thr s t))).
    + eapply take_frame_inv2; eauto. left. apply (b_clos _ J); auto.
    + destruct (lookup s t) as [s1 r] eqn:Hl.
      destruct (lookup_inv1 _ _ _ _ I H0 Hl) as [I1 _].
      destruct (lookup_inv2 _ _ _ _ J Hl) as [J1 [Ef [Ec [Ep Es]]]].
      eapply take_frame_inv2; eauto; [congruence|].
      left. rewrite Ef. apply (b_clos _ J); auto.
  - (* ESpawnBegin *)
    destruct (_ && _) eqn:Hc in H; [|discriminate]. bool_hyps.
    destruct (t_stack (thr s p)) as [|top rest] eqn:Hs; [discriminate|].
    eapply take_frame_inv2; eauto. right. rewrite Hs. left. reflexivity.
  - (* ESpawnGo *)
    destruct (_ && _) eqn:Hc in H; [|discriminate]. bool_hyps.
    destruct (t_stack (thr s p)) as [|env2 rest] eqn:Hs; [discriminate|]. inversion H; subst; clear H.
    assert (Hd : thr s (nthr s) = dead_thread) by (apply (a_unborn _ I); lia).
    pose proof (born_live _ _ I H0) as Hb.
    apply (inv2_same_frames s); simpl; auto.
    + intros x. destruct (Nat.eq_dec x (nthr s)) as [->|N]; [rewrite upd_same, Hd; reflexivity|rewrite upd_other; auto].
      destruct (Nat.eq_dec x p) as [->|N2]; [rewrite upd_same; simpl; auto|rewrite upd_other; auto].
    + intros x cur c Px. destruct (Nat.eq_dec x (nthr s)) as [->|N]; [rewrite Hd in Px; discriminate|rewrite upd_other; auto].
      destruct (Nat.eq_dec x p) as [->|N2]; [congruence|rewrite upd_other; auto].
    + intros x. destruct (Nat.eq_dec x (nthr s)) as [->|N]; [rewrite upd_same; simpl; auto|rewrite upd_other; auto].
      destruct (Nat.eq_dec x p) as [->|N2]; [rewrite upd_same; simpl|rewrite upd_other; auto; apply (b_chain _ J)].
      pose proof (b_chain _ J p) as C. rewrite Hs in C. eapply chain_ok_tail; eauto.
  - (* EChildSetRun *)
    destruct (t_pc (thr s c)) eqn:Hp; try discriminate. exfalso. eapply (a_nochild _ I); eauto.
  - (* ESpawnForeign *)
    destruct (Nat.eqb c (nthr s)) eqn:Hc; [|discriminate]. apply Nat.eqb_eq in Hc. subst c. inversion H; subst; clear H.
    assert (Hd : thr s (nthr s) = dead_thread) by (apply (a_unborn _ I); lia).
    apply (inv2_same_frames s); simpl; auto.
    + intros x. destruct (Nat.eq_dec x (nthr s)) as [->|N]; [rewrite upd_same, Hd; reflexivity|rewrite upd_other; auto].
    + intros x cur c0 Px. destruct (Nat.eq_dec x (nthr s)) as [->|N]; [rewrite Hd in Px; discriminate|rewrite upd_other; auto].
    + intros x. destruct (Nat.eq_dec x (nthr s)) as [->|N]; [rewrite upd_same; simpl; auto|rewrite upd_other; auto; apply (b_chain _ J)].
  - (* EMark *)
    destruct (_ && _) eqn:Hc in H; [|discriminate]. bool_hyps.
    destruct (t_stack (thr s t)) as [|top rest] eqn:Hs; [discriminate|]. rewrite <- Hs in H. inversion H; subst; clear H.
    constructor; simpl.
    + apply (b_clos _ J).
    + intros x. destruct (Nat.eq_dec x t) as [->|N]; [rewrite upd_same; simpl|rewrite upd_other; auto]; apply (b_chain _ J).
    + apply (b_act _ J).
    + intros f M. destruct (b_fm _ J _ M) as [A|[x [cur [c [P [In1 T]]]]]]; auto.
      right. exists x, cur, c. assert (x <> t) by (intros ->; congruence). rewrite upd_other; auto.
    + intros x cur c P. destruct (Nat.eq_dec x t) as [->|N].
      * rewrite upd_same in *. simpl in *. inversion P; subst. rewrite Hs. split; [left; auto|]. split; auto.
        intros g E. inversion E; subst. right. left. auto.
      * rewrite upd_other in *; auto. apply (b_walk _ J); auto.
  - (* EMarkStep *)
    destruct (t_pc (thr s t)) as [|cur c|] eqn:Hp; try discriminate.
    destruct (b_walk _ J _ _ _ Hp) as [Wc [Wa Wg]].
    assert (Fin : (forall g, cur = Some g -> FM (fr s) g) ->
                  inv2 (mkS (fr s) (nfr s) (upd (thr s) t (mkT (t_live (thr s t)) (t_id (thr s t)) (t_stack (thr s t)) (t_rec (thr s t)) TRun))
                            (nthr s) (owner s) (nrec s) (c :: clos s))).
    { intros Hg.
      assert (Hc : FM (fr s) c).
      { destruct Wa as [A|[A|A]]; auto. eapply tocur_FM; eauto. }
      constructor; simpl.
      - intros c0 [<-|Hin]; auto. apply (b_clos _ J); auto.
      - intros x. destruct (Nat.eq_dec x t) as [->|N]; [rewrite upd_same; simpl|rewrite upd_other; auto]; apply (b_chain _ J).
      - apply (b_act _ J).
      - intros f M. destruct (b_fm _ J _ M) as [A|[x [cur' [c' [P [In1 T]]]]]]; auto.
        destruct (Nat.eq_dec x t) as [->|N].
        + left. rewrite Hp in P. inversion P; subst. eapply tocur_FM; eauto.
        + right. exists x, cur', c'. rewrite upd_other; auto.
      - intros x cur' c' P. destruct (Nat.eq_dec x t) as [->|N].
        + rewrite upd_same in P. simpl in P. discriminate.
        + rewrite upd_other in *; auto. apply (b_walk _ J); auto. }
    destruct cur as [g0|].
    + destruct (f_mark (fr s g0)) eqn:Hm; inversion H; subst; clear H.
      * (* cursor already marked: the walk ends *)
        apply Fin. intros g E. inversion E; subst.
        destruct (b_fm _ J _ Hm) as [A|[x [cur' [c' [P [In1 T]]]]]]; auto.
        destruct (Wg g eq_refl) as [A|A]; auto.
        assert (x = t) by (eapply (a_disj _ I); eauto). subst x.
        rewrite Hp in P. inversion P; subst. apply tocur_cycle; auto.
      * (* mark the cursor, move to its Outer *)
        assert (Hon : In g0 (t_stack (thr s t))).
        { destruct (Wg g0 eq_refl) as [A|A]; auto. apply FM_marked in A. congruence. }
        pose proof (keeps_upd_mark (fr s) g0) as K.
        set (F' := upd (fr s) g0 (mkF (f_run (fr s g0)) (f_outer (fr s g0)) true (f_st (fr s g0)))) in *.
        assert (Ho : forall y, f_outer (F' y) = f_outer (fr s y)).
        { intros y. unfold F'. destruct (Nat.eq_dec y g0) as [->|N]; [rewrite upd_same; reflexivity|rewrite upd_other; auto]. }
        unfold set_thr, set_fr; simpl. fold F'.
        constructor; simpl.
        -- intros c0 Hin. eapply FM_keeps; eauto. apply (b_clos _ J); auto.
        -- intros x.
           assert (C : chain_ok F' (t_stack (thr s x))).
           { eapply chain_ok_change; [| |apply (b_chain _ J)]; auto. intros o. apply FM_keeps; auto. }
           destruct (Nat.eq_dec x t) as [->|N]; [rewrite upd_same; simpl|rewrite upd_other]; auto.
        -- intros f M. unfold F' in *. destruct (Nat.eq_dec f g0) as [->|N].
           ++ rewrite upd_same. simpl. destruct (a_stack _ I _ _ Hon) as [_ [A [B _]]]. auto.
           ++ rewrite upd_other in *; auto. apply (b_act _ J); auto.
        -- intros f M. destruct (Nat.eq_dec f g0) as [->|N].
           ++ right. exists t, (f_outer (fr s g0)), c. rewrite upd_same. simpl. repeat split; auto.
              apply tc_here; unfold F'; rewrite upd_same; reflexivity.
           ++ assert (M0 : f_mark (fr s f) = true) by (unfold F' in M; rewrite upd_other in M; auto).
              destruct (b_fm _ J _ M0) as [A|[x [cur' [c' [P [In1 T]]]]]].
              ** left. eapply FM_keeps; eauto.
              ** right. destruct (Nat.eq_dec x t) as [->|N2].
                 --- rewrite Hp in P. inversion P; subst. exists t, (f_outer (fr s g0)), c'.
                     rewrite upd_same. simpl. repeat split; auto. apply tocur_extend; auto.
                 --- exists x, cur', c'. rewrite upd_other; auto. repeat split; auto. eapply tocur_keeps; eauto.
        -- intros x cur' c' P. destruct (Nat.eq_dec x t) as [->|N].
           ++ rewrite upd_same in *. simpl in *. inversion P; subst. split; auto. split.
              ** destruct Wa as [A|[A|A]].
                 --- inversion A; subst. right; right. apply tc_here; unfold F'; rewrite upd_same; reflexivity.
                 --- right; left. eapply FM_keeps; eauto.
                 --- right; right. apply tocur_extend; auto.
              ** intros g E.
                 destruct (chain_ok_in _ _ _ _ (b_chain _ J t) Hon E) as [A|A]; auto.
                 left. eapply FM_keeps; eauto.
           ++ rewrite upd_other in *; auto. destruct (b_walk _ J _ _ _ P) as [A [B C]]. split; auto. split.
              ** destruct B as [B|[B|B]]; auto.
                 --- right; left. eapply FM_keeps; eauto.
                 --- right; right. eapply tocur_keeps; eauto.
              ** intros g E. destruct (C g E); auto. left. eapply FM_keeps; eauto.
    + inversion H; subst; clear H. apply Fin. intros g E. discriminate.
  - (* EReturn *)
    destruct (_ && _) eqn:Hc in H; [|discriminate]. bool_hyps.
    destruct (t_stack (thr s t)) as [|f rest] eqn:Hs; [discriminate|].
    assert (Hin : In f (t_stack (thr s t))) by (rewrite Hs; left; auto).
    pose proof (a_nodup _ I t) as Hnd. rewrite Hs in Hnd. inversion Hnd; subst.
    pose proof (b_chain _ J t) as C. rewrite Hs in C. apply chain_ok_tail in C.
    destruct (f_mark (fr s f)) eqn:Hm; inversion H; subst; clear H.
    + apply (inv2_same_frames s); simpl; auto.
      * intros x. destruct (Nat.eq_dec x t) as [->|N]; [rewrite upd_same; simpl; auto|rewrite upd_other; auto].
      * intros x cur c Px. destruct (Nat.eq_dec x t) as [->|N]; [congruence|rewrite upd_other; auto].
      * intros x. destruct (Nat.eq_dec x t) as [->|N]; [rewrite upd_same; simpl; auto|rewrite upd_other; auto; apply (b_chain _ J)].
    + pose proof (keeps_upd_unmarked (fr s) f (mkF (f_run (fr s f)) None false (FPooled (f_run (fr s f)))) Hm) as K.
      apply (inv2_generic s); simpl; auto.
      * intros y My. apply upd_other. intros ->; congruence.
      * intros y. destruct (Nat.eq_dec y f) as [->|N]; [rewrite upd_same; simpl; discriminate|rewrite upd_other; auto].
      * intros x. destruct (Nat.eq_dec x t) as [->|N]; [rewrite upd_same; simpl; auto|rewrite upd_other; auto].
      * intros x cur c Px. destruct (Nat.eq_dec x t) as [->|N]; [congruence|rewrite upd_other; auto].
      * intros x. destruct (Nat.eq_dec x t) as [->|N]; [rewrite upd_same; simpl|rewrite upd_other; auto].
        -- eapply chain_ok_change; [| |exact C].
           ++ intros g Hg. rewrite upd_other; auto. intros ->. contradiction.
           ++ intros o. apply FM_keeps; auto.
        -- eapply chain_ok_change; [| |apply (b_chain _ J)].
           ++ intros g Hg. rewrite upd_other; auto. intros ->. apply N. eapply (a_disj _ I); eauto.
           ++ intros o. apply FM_keeps; auto.
  - (* EExit *)
    destruct (_ && _) eqn:Hc in H; [|discriminate]. bool_hyps.
    destruct (t_stack (thr s t)) eqn:Hs; [|discriminate]. inversion H; subst; clear H.
    apply (inv2_same_frames s); simpl; auto.
    + intros x. destruct (Nat.eq_dec x t) as [->|N]; [rewrite upd_same; simpl; auto|rewrite upd_other; auto].
    + intros x cur c Px. destruct (Nat.eq_dec x t) as [->|N]; [congruence|rewrite upd_other; auto].
    + intros x. destruct (Nat.eq_dec x t) as [->|N]; [rewrite upd_same; simpl; auto|rewrite upd_other; auto; apply (b_chain _ J)].
Qed.

Lemma run_inv12 : forall tr s s', inv1 s -> inv2 s -> run true s tr = Some s' -> inv1 s' /\ inv2 s'.
Proof.
  induction tr as [|e tr IH]; simpl; intros s s' I J H.
  - inversion H; subst; auto.
  - destruct (step true s e) as [s1|] eqn:E; [|discriminate]. apply (IH s1 s'); auto.
    + eapply step_inv1; eauto.
    + eapply step_inv2; eauto.
Qed.

Lemma reach_inv : forall id0 tr s, run true (init id0) tr = Some s -> inv1 s /\ inv2 s.
Proof. intros. eapply run_inv12; eauto. apply init_inv1. apply init_inv2. Qed.

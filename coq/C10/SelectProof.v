(* C10 -- non-interference of select executions (lemmas). *)
From Coq Require Import List ZArith Bool Arith Lia.
From Verif Require Import C10.SelectOps.
Import ListNotations.
Open Scope Z_scope.

Lemma calls_of_app e a b : calls_of e (a ++ b) = calls_of e a ++ calls_of e b.
Proof. unfold calls_of. rewrite filter_app, map_app. reflexivity. Qed.

Lemma calls_of_cons_ne e e' s l : e' <> e -> calls_of e ((e', s) :: l) = calls_of e l.
Proof. intros H. unfold calls_of. cbn. destruct (Nat.eqb e' e) eqn:F; [apply Nat.eqb_eq in F; congruence | reflexivity]. Qed.

(* own arrays: the calls of execution e depend only on e's own steps and on the initial content of e's array *)
Lemma run_own n e : forall tr st1 st2,
  (forall i, st1 e i = st2 e i) ->
  calls_of e (run false n st1 tr) = calls_of e (run false n st2 (of_exec e tr)).
Proof.
  induction tr as [|x tr IH]; intros st1 st2 H; [reflexivity|].
  cbn [run of_exec filter].
  destruct (Nat.eqb (ev_exec x) e) eqn:E.
  - apply Nat.eqb_eq in E. cbn [run].
    destruct x as [e' i c|e' i v|e']; cbn [ev_exec] in E; subst e'; cbn [step key].
    + cbn [app]. apply IH. intros j. unfold upd, upd_arr. rewrite !Nat.eqb_refl.
      destruct (Nat.eqb j i); [rewrite H; reflexivity | apply H].
    + cbn [app]. apply IH. intros j. unfold upd, upd_arr. rewrite !Nat.eqb_refl.
      destruct (Nat.eqb j i); [rewrite H; reflexivity | apply H].
    + rewrite !calls_of_app. f_equal; [|apply IH; exact H].
      unfold calls_of. cbn. rewrite Nat.eqb_refl. cbn. f_equal.
      unfold snapshot. apply map_ext. intros j. apply H.
  - apply Nat.eqb_neq in E.
    destruct x as [e' i c|e' i v|e']; cbn [ev_exec] in E; cbn [step key app].
    + apply IH. intros j. unfold upd. destruct (Nat.eqb e e') eqn:F; [apply Nat.eqb_eq in F; congruence | apply H].
    + apply IH. intros j. unfold upd. destruct (Nat.eqb e e') eqn:F; [apply Nat.eqb_eq in F; congruence | apply H].
    + rewrite calls_of_cons_ne by congruence. apply IH. exact H.
Qed.

Lemma select_operands_private n e tr :
  calls_of e (run false n store0 tr) = calls_of e (run false n store0 (of_exec e tr)).
Proof. apply run_own. reflexivity. Qed.

(* shared array: execution 1 evaluates its channel (10), execution 2 runs the whole statement (channel 20, value 2),
   then execution 1 evaluates its value (1) and calls Select: it sends 1 on channel 20 *)
Definition shared_witness : list ev := [EChan 1 0 10; EChan 2 0 20; ESend 2 0 2; ECommit 2; ESend 1 0 1; ECommit 1].

Lemma select_shared_refuted :
  calls_of 1 (run true 1 store0 shared_witness) = [[(Some 20, Some 1)]] /\
  calls_of 1 (run true 1 store0 (of_exec 1 shared_witness)) = [[(Some 10, Some 1)]] /\
  calls_of 1 (run false 1 store0 shared_witness) = [[(Some 10, Some 1)]].
Proof. vm_compute. repeat split. Qed.

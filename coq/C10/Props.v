(* C10 — property theorems.  Model: C10/Model.v (frames, UsedByClosure marks, per-goroutine Run records and
   pools, closures; goroutines interleave call / go-statement / mark / return / exit steps; unbounded goroutines).
   [run true]: Comp.Go without the new goroutine's write `env2.Run = tg2` (fixes/C10-1.diff);
   [run false]: the current tree.
   Proved here: ownership of every Run / pool access on all interleavings (fixed code); the conflict on the
   current code (witness replayed under the race detector by the harness).
   NOT proved (hence `_partial`): absence of conflicts on frame fields (Env.Run / UsedByClosure / body) for the
   fixed code and the statement "a frame reachable by two goroutines is already marked" - the invariants
   (marks upward closed along Outer, pooled frames unmarked and unreachable) are stated in DESIGN but not yet
   carried through the mark-walk steps; Go's channel / scheduler implementation is outside the model. *)
From Coq Require Import List Arith Bool ZArith.
From Verif Require Import C10.Model C10.Proof.
Import ListNotations.

(* every access of every step to a Run (Pool, PoolSize, CurrEnv ...) is by the goroutine whose identity owns it,
   and a recycled frame is taken from the pool of exactly that Run *)
Theorem C10_run_owner_only : forall id0 tr s e s',
  run true (init id0) tr = Some s -> step true s e = Some s' ->
  (forall r w, In (LRun r, w) (acc s e) ->
     t_live (thr s (actor e)) = true /\ owner s' r = t_id (thr s (actor e)) /\
     (r < nrec s -> owner s r = t_id (thr s (actor e)))) /\
  (forall t c f, e = ECall t c (Some f) -> exists r, In (LRun r, true) (acc s e) /\ f_st (fr s f) = FPooled r) /\
  (forall p f, e = ESpawnBegin p (Some f) -> exists r, In (LRun r, true) (acc s e) /\ f_st (fr s f) = FPooled r).
Proof. exact owner_only. Qed.
Print Assumptions C10_run_owner_only.

(* frames on goroutine stacks: active, owned by the goroutine's identity, on one stack only *)
Theorem C10_stack_frames_owned : forall id0 tr s, run true (init id0) tr = Some s ->
  (forall t f, In f (t_stack (thr s t)) ->
     t_live (thr s t) = true /\ f_st (fr s f) = FActive /\ owner s (f_run (fr s f)) = t_id (thr s t)) /\
  (forall t1 t2 f, In f (t_stack (thr s t1)) -> In f (t_stack (thr s t2)) -> t1 = t2).
Proof.
  intros id0 tr s R. pose proof (run_inv1 _ _ _ (init_inv1 id0) R) as I. split.
  - intros t f H. destruct (a_stack _ I _ _ H) as [? [? [? [? ?]]]]. auto.
  - apply (a_disj _ I).
Qed.
Print Assumptions C10_stack_frames_owned.

(* no two co-enabled steps of different goroutines touch the same Run (identities distinct among live goroutines).
   Partial: covers the Run / pool locations only, see the header. *)
Theorem C10_no_model_race_partial : forall id0 tr s e1 e2 s1 s2 r w1 w2,
  run true (init id0) tr = Some s -> ids_inj s ->
  step true s e1 = Some s1 -> step true s e2 = Some s2 -> actor e1 <> actor e2 ->
  r < nrec s -> In (LRun r, w1) (acc s e1) -> In (LRun r, w2) (acc s e2) -> False.
Proof. exact no_run_conflict. Qed.
Print Assumptions C10_no_model_race_partial.

(* current tree: after `go f(g(func(){...}))` the new goroutine's write of env2.Run and a call of the closure
   (whose Env is env2) by another goroutine are both enabled and conflict on Env.Run of env2 *)
Theorem C10_no_model_race_refuted : exists s e1 e2 l,
  run false (init 0) race_trace = Some s /\ ids_inj s /\
  actor e1 <> actor e2 /\ enabled false s e1 /\ enabled false s e2 /\
  In (l, true) (acc s e1) /\ In (l, false) (acc s e2).
Proof. exact race_current. Qed.
Print Assumptions C10_no_model_race_refuted.

(* with the fix the writing step does not exist in any reachable state *)
Theorem C10_fix_removes_write : forall id0 tr s c,
  run true (init id0) tr = Some s -> step true s (EChildSetRun c) = None.
Proof. exact fixed_no_child_write. Qed.
Print Assumptions C10_fix_removes_write.

(* non-vacuity: a run with two goroutines, a recycled frame and a closure called across goroutines *)
Example C10_ex : exists s,
  run true (init 0) [ESpawnBegin 0 None; EMark 0; EMarkStep 0; EMarkStep 0; ESpawnGo 0 1 7;
                     ECall 1 2 None; EReturn 1; ECall 1 2 (Some 3); ECall 0 2 None; ESpawnForeign 2 9; ECall 2 1 None] = Some s /\
  t_stack (thr s 1) = [3] /\ t_stack (thr s 0) = [4; 1; 0] /\ t_stack (thr s 2) = [5] /\
  f_run (fr s 3) = 1 /\ f_run (fr s 4) = 0 /\ f_run (fr s 5) = 2 /\ owner s 2 = 9 /\ f_mark (fr s 2) = true.
Proof. eexists. split. vm_compute. reflexivity. vm_compute. repeat split; reflexivity. Qed.

(* C10 — property theorems.  Model: C10/Model.v (frames, UsedByClosure marks, per-goroutine Run records and
   pools, closures; goroutines interleave call / go-statement / mark / return / exit steps; unbounded goroutines;
   every loop iteration of MarkUsedByClosure is its own atomic step).
   [run true]: Comp.Go without the new goroutine's write `env2.Run = tg2` (fix 5b8a5c8, the tree as it is now);
   [run false]: the tree before the fix.
   Proved here, over all interleavings: ownership of every Run / pool access; a frame reachable by two
   goroutines is fully marked (itself and its whole Outer chain) and never pooled, no step of another
   goroutine modifies it or writes one of its fields (C10_shared_frames_are_marked); pooled frames are
   unreachable and freeEnv recycles only frames no other goroutine can reach; two co-enabled steps of
   different goroutines never conflict on ANY interpreter-owned location (C10_no_model_race: Run, pool,
   Env.Run, Env.UsedByClosure, Env body); the conflict on the pre-fix code (C10_no_model_race_refuted).
   Invariants (Proof2.v): closure Envs fully marked; Outer of a stack frame fully marked or deeper in the same
   stack; marked frames active; a marked frame not yet fully marked lies on the stack of the goroutine whose
   MarkUsedByClosure walk is in progress, chained to that walk's cursor; the cursor is fully marked or on the
   walker's own stack.
   Outside the model: Go's channel / scheduler implementation; user-level data (user programs are race free). *)
From Coq Require Import List Arith Bool ZArith.
From Verif Require Import C10.Model C10.Proof C10.Proof2 C10.Proof3.
Import ListNotations.

(* every access of every step to a Run (Pool, PoolSize, CurrEnv ...) is by the goroutine whose identity owns it,
   and a recycled frame is taken from the pool of exactly that Run *)
Theorem C10_run_owner_only : forall id0 tr s e s',
  run true (init id0) tr = Some s -> step true s e = Some s' ->
  (forall r w, In (LRun r, w) (acc s e) ->
     t_live (thr s (actor e)) = true /\ owner s' r = t_id (thr s (actor e)) /\
     (r < nrec s -> owner s r = t_id (thr s (actor e)))) /\
  (forall t c f, e = ECall t c (Some f) -> exists r, In (LRun r, true) (acc s e) /\ f_st (fr s f) = FPooled r) /\
  (forall p f, e = ESpawnBegin p (Some f) -> exists r, In (LRun r, true) (acc s e) /\ f_st (fr s f) = FPooled r).
Proof. exact owner_only. Qed.
Print Assumptions C10_run_owner_only.

(* frames on goroutine stacks: active, owned by the goroutine's identity, on one stack only *)
Theorem C10_stack_frames_owned : forall id0 tr s, run true (init id0) tr = Some s ->
  (forall t f, In f (t_stack (thr s t)) ->
     t_live (thr s t) = true /\ f_st (fr s f) = FActive /\ owner s (f_run (fr s f)) = t_id (thr s t)) /\
  (forall t1 t2 f, In f (t_stack (thr s t1)) -> In f (t_stack (thr s t2)) -> t1 = t2).
Proof.
  intros id0 tr s R. pose proof (run_inv1 _ _ _ (init_inv1 id0) R) as I. split.
  - intros t f H. destruct (a_stack _ I _ _ H) as [? [? [? [? ?]]]]. auto.
  - apply (a_disj _ I).
Qed.
Print Assumptions C10_stack_frames_owned.

(* no two co-enabled steps of different goroutines touch the same Run (identities distinct among live goroutines).
   Partial: covers the Run / pool locations only; the full statement is C10_no_model_race below. *)
Theorem C10_no_model_race_partial : forall id0 tr s e1 e2 s1 s2 r w1 w2,
  run true (init id0) tr = Some s -> ids_inj s ->
  step true s e1 = Some s1 -> step true s e2 = Some s2 -> actor e1 <> actor e2 ->
  r < nrec s -> In (LRun r, w1) (acc s e1) -> In (LRun r, w2) (acc s e2) -> False.
Proof. exact no_run_conflict. Qed.
Print Assumptions C10_no_model_race_partial.

(* current tree: after `go f(g(func(){...}))` the new goroutine's write of env2.Run and a call of the closure
   (whose Env is env2) by another goroutine are both enabled and conflict on Env.Run of env2 *)
Theorem C10_no_model_race_refuted : exists s e1 e2 l,
  run false (init 0) race_trace = Some s /\ ids_inj s /\
  actor e1 <> actor e2 /\ enabled false s e1 /\ enabled false s e2 /\
  In (l, true) (acc s e1) /\ In (l, false) (acc s e2).
Proof. exact race_current. Qed.
Print Assumptions C10_no_model_race_refuted.

(* with the fix the writing step does not exist in any reachable state *)
Theorem C10_fix_removes_write : forall id0 tr s c,
  run true (init id0) tr = Some s -> step true s (EChildSetRun c) = None.
Proof. exact fixed_no_child_write. Qed.
Print Assumptions C10_fix_removes_write.

(* non-vacuity: a run with two goroutines, a recycled frame and a closure called across goroutines *)
Example C10_ex : exists s,
  run true (init 0) [ESpawnBegin 0 None; EMark 0; EMarkStep 0; EMarkStep 0; ESpawnGo 0 1 7;
                     ECall 1 2 None; EReturn 1; ECall 1 2 (Some 3); ECall 0 2 None; ESpawnForeign 2 9; ECall 2 1 None] = Some s /\
  t_stack (thr s 1) = [3] /\ t_stack (thr s 0) = [4; 1; 0] /\ t_stack (thr s 2) = [5] /\
  f_run (fr s 3) = 1 /\ f_run (fr s 4) = 0 /\ f_run (fr s 5) = 2 /\ owner s 2 = 9 /\ f_mark (fr s 2) = true.
Proof. eexists. split. vm_compute. reflexivity. vm_compute. repeat split; reflexivity. Qed.

(* ---------- frames shared between goroutines (Proof2.v, Proof3.v) ---------- *)

(* [reach s t f]: goroutine t can touch frame f - a frame of its stack, the Env of any closure, the frames of its
   MarkUsedByClosure walk, and everything on their Outer chains.
   A frame reachable by two goroutines is marked UsedByClosure together with its whole Outer chain, is active (not in
   a pool) ; a step of a goroutine other than one of the two leaves it unchanged and writes none of its fields - in
   particular MarkUsedByClosure never writes to it and freeEnv never recycles it. Since t1 <> t2, every goroutine t
   satisfies t <> t1 \/ t <> t2: the conclusion covers the steps of t1 and t2 themselves. *)
Theorem C10_shared_frames_are_marked : forall id0 tr s t1 t2 f,
  run true (init id0) tr = Some s -> t1 <> t2 -> reach s t1 f -> reach s t2 f ->
  (forall a, anc (fr s) f a -> f_mark (fr s a) = true /\ f_st (fr s a) = FActive /\ a < nfr s) /\
  (forall e s' t, step true s e = Some s' -> actor e = t -> (t <> t1 \/ t <> t2) ->
     fr s' f = fr s f /\
     forall l, In (l, true) (acc s e) -> floc l <> Some f).
Proof. exact shared_frames_are_marked. Qed.
Print Assumptions C10_shared_frames_are_marked.

(* a step of one goroutine leaves every frame that ANOTHER goroutine can reach untouched (state-level non-interference,
   independent of the hand-written access lists) *)
Theorem C10_reachable_frames_stable : forall id0 tr s e s' t2 f,
  run true (init id0) tr = Some s -> step true s e = Some s' -> t2 <> actor e -> reach s t2 f -> fr s' f = fr s f.
Proof. exact reachable_frames_stable. Qed.
Print Assumptions C10_reachable_frames_stable.

(* frames sitting in a pool are reachable by nobody; the frame recycled by freeEnv was reachable by no other goroutine *)
Theorem C10_pooled_frames_unreachable : forall id0 tr s t f r,
  run true (init id0) tr = Some s -> f_st (fr s f) = FPooled r -> reach s t f -> False.
Proof. exact pooled_unreachable. Qed.
Print Assumptions C10_pooled_frames_unreachable.

Theorem C10_freeEnv_recycles_private : forall id0 tr s t s' f r t2,
  run true (init id0) tr = Some s -> step true s (EReturn t) = Some s' ->
  f_st (fr s f) = FActive -> f_st (fr s' f) = FPooled r -> t2 <> t -> reach s t2 f -> False.
Proof. exact return_recycles_private. Qed.
Print Assumptions C10_freeEnv_recycles_private.

(* the full statement: two co-enabled steps of different goroutines never access the same existing interpreter-owned
   location (Run + pool, Env.Run, Env.UsedByClosure, Env body) unless both only read it.
   [existing]: a Run allocated by one of the two steps themselves is private to it (fresh allocation). *)
Theorem C10_no_model_race : forall id0 tr s e1 e2 s1 s2 l w1 w2,
  run true (init id0) tr = Some s -> ids_inj s ->
  step true s e1 = Some s1 -> step true s e2 = Some s2 -> actor e1 <> actor e2 ->
  existing s l -> In (l, w1) (acc s e1) -> In (l, w2) (acc s e2) -> w1 = false /\ w2 = false.
Proof. exact no_conflict. Qed.
Print Assumptions C10_no_model_race.

(* non-vacuity: in the final state of C10_ex frame 2 (the Env of the closure made in the go statement) is reachable by
   goroutines 0 and 1 (both run a call of that closure), frame 1 by all three; a walk in progress is covered too *)
Example C10_ex_shared : exists s,
  run true (init 0) [ESpawnBegin 0 None; EMark 0; EMarkStep 0; EMarkStep 0; ESpawnGo 0 1 7;
                     ECall 1 2 None; ECall 0 2 None; ESpawnBegin 1 None; EMark 1; EMarkStep 1] = Some s /\
  reach s 0 2 /\ reach s 1 2 /\ reach s 1 1 /\ reach s 0 1 /\
  t_pc (thr s 1) = TMark (Some 3) 5 /\ f_mark (fr s 5) = true /\ f_mark (fr s 3) = false /\
  (exists e s', step true s e = Some s' /\ In (LFMark 3, true) (acc s e)).
Proof.
  eexists. split. vm_compute. reflexivity.
  split; [apply r_clos; vm_compute; auto|].
  split; [apply r_clos; vm_compute; auto|].
  split; [apply r_clos; vm_compute; auto|].
  split; [apply r_clos; vm_compute; auto|].
  split; [vm_compute; reflexivity|].
  split; [vm_compute; reflexivity|].
  split; [vm_compute; reflexivity|].
  exists (EMarkStep 1). eexists. split. vm_compute. reflexivity. vm_compute. auto.
Qed.

(* ---- operands of a select statement belong to one execution of it (fast/select.go Comp.Select; SelectOps.v) ----
   Executions of one compiled select statement (several goroutines running the same function, or an operand that
   re-enters the statement) interleave their operand evaluations arbitrarily.  run false: the scratch array of
   SelectCase is allocated by the execution (the code that exists); run true: one array per compiled statement. *)
From Verif Require Import C10.SelectOps C10.SelectProof.

(* for EVERY interleaving: what an execution passes to reflect.Select is what it would pass if it ran alone -
   its own channel and send operands, whatever other executions of the same statement do in between *)
Theorem C10_select_operands_private : forall n e tr,
  calls_of e (SelectOps.run false n store0 tr) = calls_of e (SelectOps.run false n store0 (of_exec e tr)).
Proof. exact select_operands_private. Qed.
Print Assumptions C10_select_operands_private.

(* with one array per statement the first execution sends its value on the other execution's channel *)
Theorem C10_select_shared_scratch_refuted :
  exists tr, calls_of 1 (SelectOps.run true 1 store0 tr) <> calls_of 1 (SelectOps.run true 1 store0 (of_exec 1%nat tr)) /\
             calls_of 1 (SelectOps.run true 1 store0 tr) = [[(Some 20%Z, Some 1%Z)]].
Proof.
  exists shared_witness. destruct select_shared_refuted as (A & B & _). rewrite A, B. split; [discriminate | reflexivity].
Qed.
Print Assumptions C10_select_shared_scratch_refuted.

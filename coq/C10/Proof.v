(* C10 — lemmas: ownership of records, pools and frames over all interleavings (fixed Comp.Go),
   and the conflict on the current Comp.Go. *)
From Coq Require Import List Arith Bool ZArith Lia.
From Verif Require Import C10.Model.
Import ListNotations.

Definition ids_inj (s : state) : Prop :=
  forall t1 t2, t_live (thr s t1) = true -> t_live (thr s t2) = true ->
                t_id (thr s t1) = t_id (thr s t2) -> t1 = t2.

Fixpoint run_inj (fixed : bool) (s : state) (tr : list event) : Prop :=
  match tr with
  | [] => True
  | e :: tr' => match step fixed s e with
                | Some s' => ids_inj s' /\ run_inj fixed s' tr'
                | None => True
                end
  end.

Lemma upd_same : forall A (f : nat -> A) k v, upd f k v k = v.
Proof. intros. unfold upd. rewrite Nat.eqb_refl. reflexivity. Qed.
Lemma upd_other : forall A (f : nat -> A) k v x, x <> k -> upd f k v x = f x.
Proof. intros. unfold upd. destruct (Nat.eqb x k) eqn:E; auto. apply Nat.eqb_eq in E. contradiction. Qed.

Record inv1 (s : state) : Prop := {
  a_stack : forall t f, In f (t_stack (thr s t)) ->
      t_live (thr s t) = true /\ f_st (fr s f) = FActive /\ f < nfr s /\
      f_run (fr s f) < nrec s /\ owner s (f_run (fr s f)) = t_id (thr s t);
  a_disj : forall t1 t2 f, In f (t_stack (thr s t1)) -> In f (t_stack (thr s t2)) -> t1 = t2;
  a_nodup : forall t, NoDup (t_stack (thr s t));
  a_rec : forall t r, t_rec (thr s t) = Some r -> r < nrec s /\ owner s r = t_id (thr s t);
  a_pool : forall f r, f_st (fr s f) = FPooled r -> r < nrec s /\ f < nfr s;
  a_unborn : forall t, nthr s <= t -> thr s t = dead_thread;
  a_dead : forall t, t_live (thr s t) = false -> t_stack (thr s t) = [];
  a_nochild : forall t env2, t_pc (thr s t) <> TChildInit env2;
  a_frun : forall f, f_run (fr s f) < nrec s
}.

Ltac bool_hyps :=
  repeat match goal with
  | H : _ && _ = true |- _ => apply andb_true_iff in H; destruct H
  | H : Nat.eqb _ _ = true |- _ => apply Nat.eqb_eq in H
  | H : Nat.eqb _ _ = false |- _ => apply Nat.eqb_neq in H
  | H : is_run ?p = true |- _ => destruct p eqn:?; simpl in H; try discriminate; clear H
  end.

Ltac upd_cases :=
  repeat match goal with
  | H : context [upd _ ?k _ ?x] |- _ =>
      let E := fresh "E" in destruct (Nat.eq_dec x k) as [E|E];
      [ first [subst x | subst k | rewrite E in *]; rewrite ?upd_same in * | rewrite (upd_other _ _ _ _ _ E) in * ]
  | |- context [upd _ ?k _ ?x] =>
      let E := fresh "E" in destruct (Nat.eq_dec x k) as [E|E];
      [ first [subst x | subst k | rewrite E in *]; rewrite ?upd_same in * | rewrite (upd_other _ _ _ _ _ E) in * ]
  end.

Lemma born_live : forall s t, inv1 s -> t_live (thr s t) = true -> t < nthr s.
Proof.
  intros s t I L. destruct (le_lt_dec (nthr s) t); auto.
  rewrite (a_unborn _ I t) in L; auto. discriminate.
Qed.

Lemma init_inv1 : forall id0, inv1 (init id0).
Proof.
  intros id0. constructor; simpl.
  - intros t f. unfold upd. destruct (Nat.eqb t 0) eqn:E; simpl; [|intros []].
    intros [<-|[<-|[]]]; repeat split; auto.
  - intros t1 t2 f. unfold upd. destruct (Nat.eqb t1 0) eqn:E1; destruct (Nat.eqb t2 0) eqn:E2; simpl; try (intros []; fail); try (intros _ []; fail).
    apply Nat.eqb_eq in E1, E2. congruence.
  - intros t. unfold upd. destruct (Nat.eqb t 0); simpl; [|constructor].
    constructor. intros [H|[]]; discriminate. constructor; auto. constructor.
  - intros t r. unfold upd. destruct (Nat.eqb t 0); simpl; [|discriminate]. intros H; inversion H; subst. auto.
  - intros f r; discriminate.
  - intros t H. unfold upd. destruct (Nat.eqb t 0) eqn:E; auto. apply Nat.eqb_eq in E. lia.
  - intros t. unfold upd. destruct (Nat.eqb t 0); simpl; auto. discriminate.
  - intros t env2. unfold upd. destruct (Nat.eqb t 0); simpl; discriminate.
  - intros f. lia.
Qed.

Ltac inv_use I :=
  repeat match goal with
  | H : In ?g (t_stack (thr ?s ?x)) |- _ =>
      lazymatch goal with
      | _ : f_st (fr s g) = FActive |- _ => fail
      | _ => let A := fresh in pose proof (a_stack _ I _ _ H) as A; destruct A as [? [? [? [? ?]]]]
      end
  end.

Ltac crush I :=
  simpl in *; upd_cases; simpl in *; inv_use I;
  repeat match goal with
  | H : _ \/ _ |- _ => destruct H; subst
  | H : Some _ = Some _ |- _ => inversion H; subst; clear H
  end; simpl in *; inv_use I;
  try solve [ repeat split; auto; try lia; try congruence
            | exfalso; lia | exfalso; congruence | discriminate ].

(* effect of take_frame on the invariant *)
Lemma take_frame_inv1 : forall s t r outer reuse s',
  inv1 s -> t_live (thr s t) = true -> r < nrec s -> owner s r = t_id (thr s t) ->
  take_frame s t r outer reuse = Some s' -> inv1 s'.
Proof.
  intros s t r outer reuse s' I L Hr Ho H.
  pose proof (born_live _ _ I L) as Hb.
  unfold take_frame in H. destruct reuse as [f|].
  - destruct (f_st (fr s f)) as [|r'] eqn:Hst; [discriminate|].
    destruct (Nat.eqb r' r) eqn:Er; [|discriminate]. apply Nat.eqb_eq in Er. subst r'.
    inversion H; subst; clear H.
    destruct (a_pool _ I _ _ Hst) as [_ Hf].
    constructor.
    + intros x g Hg. crush I.
    + intros x y g Hx Hy. crush I; try (eapply (a_disj _ I); eauto; fail).
    + intros x. crush I; try apply (a_nodup _ I); try (constructor; [|apply (a_nodup _ I)]; intros Hx; crush I).
    + intros x r0 Hx. crush I; try (apply (a_rec _ I); auto; fail).
    + intros g r0 Hg. crush I; try (apply (a_pool _ I); auto; fail).
    + intros x Hx. crush I; try (apply (a_unborn _ I); auto; lia).
    + intros x Hx. crush I; try (apply (a_dead _ I); auto; fail).
    + intros x e2. crush I; try (apply (a_nochild _ I)).
    + intros g. crush I; try (apply (a_frun _ I)).
  - inversion H; subst; clear H.
    constructor.
    + intros x g Hg. crush I.
    + intros x y g Hx Hy. crush I; try (eapply (a_disj _ I); eauto; fail).
    + intros x. crush I; try apply (a_nodup _ I); try (constructor; [|apply (a_nodup _ I)]; intros Hx; crush I).
    + intros x r0 Hx. crush I; try (apply (a_rec _ I); auto; fail).
    + intros g r0 Hg. crush I; try (apply (a_pool _ I) in Hg; lia).
    + intros x Hx. crush I; try (apply (a_unborn _ I); auto; lia).
    + intros x Hx. crush I; try (apply (a_dead _ I); auto; fail).
    + intros x e2. crush I; try (apply (a_nochild _ I)).
    + intros g. crush I; try (apply (a_frun _ I)).
Qed.

Lemma lookup_inv1 : forall s t s1 r, inv1 s -> t_live (thr s t) = true -> lookup s t = (s1, r) ->
  inv1 s1 /\ r < nrec s1 /\ owner s1 r = t_id (thr s1 t) /\ t_live (thr s1 t) = true.
Proof.
  intros s t s1 r I L H. unfold lookup in H. destruct (t_rec (thr s t)) as [r0|] eqn:Hr.
  - inversion H; subst. destruct (a_rec _ I _ _ Hr). auto.
  - inversion H; subst; clear H. pose proof (born_live _ _ I L) as Hb. split; [|simpl; rewrite !upd_same; simpl; auto].
    constructor.
    + intros x g Hg. crush I.
    + intros x y g Hx Hy. crush I; try (eapply (a_disj _ I); eauto; fail).
    + intros x. crush I; apply (a_nodup _ I).
    + intros x r0 Hx. crush I; try (apply (a_rec _ I) in Hx; destruct Hx; split; auto; lia).
    + intros g r0 Hg. crush I. apply (a_pool _ I) in Hg. lia.
    + intros x Hx. crush I; try (apply (a_unborn _ I); auto; lia).
    + intros x Hx. crush I; try (apply (a_dead _ I); auto; fail).
    + intros x e2. crush I; try (apply (a_nochild _ I)).
    + intros g. simpl. pose proof (a_frun _ I g). lia.
Qed.

Ltac finish I :=
  crush I;
  try (eapply (a_disj _ I); eauto; fail);
  try (apply (a_nodup _ I); fail);
  try (apply (a_rec _ I); auto; fail);
  try (apply (a_pool _ I); auto; fail);
  try (apply (a_unborn _ I); auto; lia);
  try (apply (a_dead _ I); auto; fail);
  try (apply (a_nochild _ I); fail);
  try (apply (a_frun _ I); fail).

Lemma step_inv1 : forall s e s', inv1 s -> step true s e = Some s' -> inv1 s'.
Proof.
  intros s e s' I H. destruct e; unfold step in H.
  - (* ECall *)
    destruct (_ && _) eqn:Hc in H; [|discriminate]. bool_hyps.
    destruct (Nat.eqb (owner s (f_run (fr s c))) (t_id (thr s t))) eqn:Ho.
    + apply Nat.eqb_eq in Ho. eapply take_frame_inv1; eauto. apply (a_frun _ I).
    + destruct (lookup s t) as [s1 r] eqn:Hl.
      destruct (lookup_inv1 _ _ _ _ I H0 Hl) as [I1 [A [B C]]].
      eapply take_frame_inv1; eauto.
  - (* ESpawnBegin *)
    destruct (_ && _) eqn:Hc in H; [|discriminate]. bool_hyps.
    destruct (t_stack (thr s p)) as [|top rest] eqn:Hs; [discriminate|].
    assert (Hin : In top (t_stack (thr s p))) by (rewrite Hs; left; auto).
    destruct (a_stack _ I _ _ Hin) as [? [? [? [? ?]]]].
    eapply take_frame_inv1; eauto.
  - (* ESpawnGo *)
    destruct (_ && _) eqn:Hc in H; [|discriminate]. bool_hyps.
    destruct (t_stack (thr s p)) as [|env2 rest] eqn:Hs; [discriminate|]. inversion H; subst; clear H.
    pose proof (born_live _ _ I H0) as Hb.
    assert (Hsub : forall g, In g rest -> In g (t_stack (thr s p))) by (intros; rewrite Hs; right; auto).
    pose proof (a_nodup _ I p) as Hnd. rewrite Hs in Hnd. inversion Hnd; subst.
    assert (Hd : thr s (nthr s) = dead_thread) by (apply (a_unborn _ I); lia).
    constructor.
    + intros x g Hg. crush I; try (rewrite Hd in Hg; destruct Hg); try (apply Hsub in Hg; inv_use I; repeat split; auto; lia).
    + intros x y g Hx Hy. finish I; try (rewrite Hd in *; simpl in *; tauto);
        try (apply Hsub in Hx); try (apply Hsub in Hy); eapply (a_disj _ I); eauto.
    + intros x. finish I; try constructor; try (rewrite Hd; constructor).
    + intros x r0 Hx. finish I; try (apply (a_rec _ I) in Hx; destruct Hx; split; auto; lia).
    + intros g r0 Hg. finish I. apply (a_pool _ I) in Hg. lia.
    + intros x Hx. finish I.
    + intros x Hx. finish I.
    + intros x e2. finish I; discriminate.
    + intros g. simpl. pose proof (a_frun _ I g). lia.
  - (* EChildSetRun *)
    destruct (t_pc (thr s c)) eqn:Hp; try discriminate. exfalso. eapply (a_nochild _ I); eauto.
  - (* ESpawnForeign *)
    destruct (Nat.eqb c (nthr s)) eqn:Hc; [|discriminate]. bool_hyps. inversion H; subst; clear H.
    assert (Hd : thr s (nthr s) = dead_thread) by (apply (a_unborn _ I); lia).
    constructor.
    + intros x g Hg. finish I.
    + intros x y g Hx Hy. finish I; try (rewrite Hd in *; simpl in *; tauto).
    + intros x. finish I. constructor.
    + intros x r0 Hx. finish I.
    + intros g r0 Hg. finish I.
    + intros x Hx. finish I.
    + intros x Hx. finish I.
    + intros x e2. finish I; discriminate.
    + intros g. finish I.
  - (* EMark *)
    destruct (_ && _) eqn:Hc in H; [|discriminate]. bool_hyps.
    destruct (t_stack (thr s t)) as [|top rest] eqn:Hs; [discriminate|]. rewrite <- Hs in H. inversion H; subst; clear H.
    pose proof (born_live _ _ I H0) as Hb.
    constructor;
      [ intros x g Hg; finish I
      | intros x y g Hx Hy; finish I
      | intros x; finish I
      | intros x r0 Hx; finish I
      | intros g r0 Hg; finish I
      | intros x Hx; finish I
      | intros x Hx; finish I
      | intros x e2; finish I; discriminate
      | intros g; finish I ].
  - (* EMarkStep *)
    destruct (t_pc (thr s t)) as [|cur c|] eqn:Hp; try discriminate.
    assert (Hlive : t < nthr s).
    { destruct (le_lt_dec (nthr s) t); auto. rewrite (a_unborn _ I) in Hp; auto. discriminate. }
    destruct cur as [g0|]; [destruct (f_mark (fr s g0)) eqn:Hm|]; inversion H; subst; clear H.
    all: constructor;
      [ intros x g Hg; finish I
      | intros x y g Hx Hy; finish I
      | intros x; finish I
      | intros x r0 Hx; finish I
      | intros g r0 Hg; finish I
      | intros x Hx; finish I
      | intros x Hx; finish I
      | intros x e2; finish I; discriminate
      | intros g; finish I ].
  - (* EReturn *)
    destruct (_ && _) eqn:Hc in H; [|discriminate]. bool_hyps.
    destruct (t_stack (thr s t)) as [|f rest] eqn:Hs; [discriminate|].
    pose proof (born_live _ _ I H0) as Hb.
    assert (Hsub : forall g, In g rest -> In g (t_stack (thr s t))) by (intros; rewrite Hs; right; auto).
    assert (Hin : In f (t_stack (thr s t))) by (rewrite Hs; left; auto).
    pose proof (a_nodup _ I t) as Hnd. rewrite Hs in Hnd. inversion Hnd; subst.
    destruct (a_stack _ I _ _ Hin) as [? [? [? [? ?]]]].
    destruct (f_mark (fr s f)); inversion H; subst; clear H.
    + constructor.
      * intros x g Hg. finish I. apply Hsub in Hg. inv_use I. repeat split; auto.
      * intros x y g Hx Hy. finish I; try (apply Hsub in Hx); try (apply Hsub in Hy); eapply (a_disj _ I); eauto.
      * intros x. finish I.
      * intros x r0 Hx. finish I.
      * intros g r0 Hg. finish I.
      * intros x Hx. finish I.
      * intros x Hx. finish I.
      * intros x e2. finish I; discriminate.
      * intros g. finish I.
    + constructor.
      * intros x g Hg. finish I; try (apply Hsub in Hg; inv_use I; repeat split; auto; fail).
        all: try (exfalso; apply H3; auto; fail).
        all: exfalso; assert (x = t) by (eapply (a_disj _ I); eauto); contradiction.
      * intros x y g Hx Hy. finish I; try (apply Hsub in Hx); try (apply Hsub in Hy); eapply (a_disj _ I); eauto.
      * intros x. finish I.
      * intros x r0 Hx. finish I.
      * intros g r0 Hg. finish I.
      * intros x Hx. finish I.
      * intros x Hx. finish I.
      * intros x e2. finish I; discriminate.
      * intros g. finish I.
  - (* EExit *)
    destruct (_ && _) eqn:Hc in H; [|discriminate]. bool_hyps.
    destruct (t_stack (thr s t)) eqn:Hs; [|discriminate]. inversion H; subst; clear H.
    pose proof (born_live _ _ I H0) as Hb.
    constructor.
    + intros x g Hg. finish I.
    + intros x y g Hx Hy. finish I.
    + intros x. finish I. constructor.
    + intros x r0 Hx. finish I.
    + intros g r0 Hg. finish I.
    + intros x Hx. finish I.
    + intros x Hx. finish I.
    + intros x e2. finish I; discriminate.
    + intros g. finish I.
Qed.

Lemma run_inv1 : forall tr s s', inv1 s -> run true s tr = Some s' -> inv1 s'.
Proof.
  induction tr as [|e tr IH]; simpl; intros s s' I H.
  - inversion H; subst; auto.
  - destruct (step true s e) as [s1|] eqn:E; [|discriminate]. apply (IH s1 s'); auto. apply (step_inv1 s e s1); auto.
Qed.

Lemma take_frame_owner : forall s t r o reuse s', take_frame s t r o reuse = Some s' -> owner s' = owner s.
Proof.
  intros s t r o reuse s' H. unfold take_frame in H. destruct reuse as [f|].
  - destruct (f_st (fr s f)); try discriminate. destruct (Nat.eqb r0 r); inversion H; reflexivity.
  - inversion H; reflexivity.
Qed.

(* every access of a step to a Run (pool, PoolSize, CurrEnv, ...) is made by the goroutine whose identity
   is the owner of that Run; a recycled frame comes from the pool of that same Run *)
Definition OwnerOnly (s : state) (e : event) (s' : state) : Prop :=
  (forall r w, In (LRun r, w) (acc s e) ->
     t_live (thr s (actor e)) = true /\ owner s' r = t_id (thr s (actor e)) /\
     (r < nrec s -> owner s r = t_id (thr s (actor e)))) /\
  (forall t c f, e = ECall t c (Some f) -> exists r, In (LRun r, true) (acc s e) /\ f_st (fr s f) = FPooled r) /\
  (forall p f, e = ESpawnBegin p (Some f) -> exists r, In (LRun r, true) (acc s e) /\ f_st (fr s f) = FPooled r).

Lemma take_reuse : forall s t r o f s', take_frame s t r o (Some f) = Some s' -> f_st (fr s f) = FPooled r.
Proof.
  intros s t r o f s' H. unfold take_frame in H. destruct (f_st (fr s f)); try discriminate.
  destruct (Nat.eqb r0 r) eqn:E; [|discriminate]. apply Nat.eqb_eq in E. congruence.
Qed.

Lemma step_owner_only : forall s e s', inv1 s -> step true s e = Some s' -> OwnerOnly s e s'.
Proof.
  intros s e s' I H. unfold OwnerOnly. destruct e; simpl acc; unfold step in H.
  - (* ECall *)
    destruct (_ && _) eqn:Hc in H; [|discriminate]. bool_hyps. simpl actor.
    destruct (Nat.eqb (owner s (f_run (fr s c))) (t_id (thr s t))) eqn:Ho.
    + apply Nat.eqb_eq in Ho. pose proof (take_frame_owner _ _ _ _ _ _ H) as Hw.
      split; [|split].
      * intros r w [Hr|[Hr|Hr]]; try (inversion Hr; subst; rewrite Hw; auto; fail).
        destruct reuse; simpl in Hr; intuition discriminate.
      * intros t0 c0 f He. inversion He; subst. eexists. split; [right; left; reflexivity|]. eapply take_reuse; eauto.
      * intros; discriminate.
    + unfold lookup in H. destruct (t_rec (thr s t)) as [r0|] eqn:Hr0.
      * pose proof (take_frame_owner _ _ _ _ _ _ H) as Hw. destruct (a_rec _ I _ _ Hr0).
        split; [|split].
        -- intros r w [Hr|[Hr|Hr]]; try (inversion Hr; subst; rewrite Hw; auto; fail).
           destruct reuse; simpl in Hr; intuition discriminate.
        -- intros t0 c0 f He. inversion He; subst. eexists. split; [right; left; reflexivity|]. eapply take_reuse; eauto.
        -- intros; discriminate.
      * pose proof (take_frame_owner _ _ _ _ _ _ H) as Hw. simpl in Hw.
        split; [|split].
        -- intros r w [Hr|[Hr|Hr]]; try (inversion Hr; fail).
           ++ inversion Hr; subst. rewrite Hw. rewrite upd_same. repeat split; auto. intros; lia.
           ++ destruct reuse; simpl in Hr; intuition discriminate.
        -- intros t0 c0 f He. inversion He; subst. eexists. split; [right; left; reflexivity|].
           apply take_reuse in H. simpl in H. exact H.
        -- intros; discriminate.
  - (* ESpawnBegin *)
    destruct (_ && _) eqn:Hc in H; [|discriminate]. bool_hyps. simpl actor.
    destruct (t_stack (thr s p)) as [|top rest] eqn:Hs; [discriminate|].
    assert (Hin : In top (t_stack (thr s p))) by (rewrite Hs; left; auto).
    destruct (a_stack _ I _ _ Hin) as [? [? [? [? ?]]]].
    pose proof (take_frame_owner _ _ _ _ _ _ H) as Hw.
    split; [|split].
    + intros r w [Hr|[Hr|Hr]]; try (inversion Hr; subst; rewrite Hw; auto; fail).
      destruct reuse; simpl in Hr; intuition discriminate.
    + intros; discriminate.
    + intros p0 f He. inversion He; subst. eexists. split; [right; left; reflexivity|]. eapply take_reuse; eauto.
  - split; [intros r w []|split; intros; discriminate].
  - split; [|split; intros; discriminate]. intros r w Hr. destruct (t_pc (thr s c)); simpl in Hr; intuition discriminate.
  - split; [intros r w []|split; intros; discriminate].
  - split; [intros r w []|split; intros; discriminate].
  - split; [|split; intros; discriminate]. intros r w Hr.
    destruct (t_pc (thr s t)) as [|[g|] c|]; simpl in Hr; try tauto.
    destruct (f_mark (fr s g)); simpl in Hr; intuition discriminate.
  - (* EReturn *)
    destruct (_ && _) eqn:Hc in H; [|discriminate]. bool_hyps. simpl actor.
    destruct (t_stack (thr s t)) as [|f rest] eqn:Hs; [discriminate|].
    assert (Hin : In f (t_stack (thr s t))) by (rewrite Hs; left; auto).
    destruct (a_stack _ I _ _ Hin) as [? [? [? [? ?]]]].
    split; [|split; intros; discriminate].
    intros r w [Hr|[Hr|[Hr|Hr]]]; try (inversion Hr; fail).
    + inversion Hr; subst. destruct (f_mark (fr s f)); inversion H; subst; simpl; auto.
    + destruct (f_mark (fr s f)); simpl in Hr; intuition discriminate.
  - split; [intros r w []|split; intros; discriminate].
Qed.

Lemma owner_only : forall id0 tr s e s', run true (init id0) tr = Some s -> step true s e = Some s' -> OwnerOnly s e s'.
Proof. intros. apply step_owner_only; auto. eapply run_inv1; eauto. apply init_inv1. Qed.

(* two steps of different goroutines that are both enabled never touch the same (existing) Run *)
Lemma no_run_conflict : forall id0 tr s e1 e2 s1 s2 r w1 w2,
  run true (init id0) tr = Some s -> ids_inj s ->
  step true s e1 = Some s1 -> step true s e2 = Some s2 -> actor e1 <> actor e2 ->
  r < nrec s -> In (LRun r, w1) (acc s e1) -> In (LRun r, w2) (acc s e2) -> False.
Proof.
  intros id0 tr s e1 e2 s1 s2 r w1 w2 R Inj H1 H2 Ha Hr A1 A2.
  destruct (owner_only _ _ _ _ _ R H1) as [O1 _]. destruct (owner_only _ _ _ _ _ R H2) as [O2 _].
  destruct (O1 _ _ A1) as [L1 [_ P1]]. destruct (O2 _ _ A2) as [L2 [_ P2]].
  apply Ha. apply Inj; auto. rewrite <- P1, <- P2; auto.
Qed.

(* ---------- the current Comp.Go: the new goroutine's write of env2.Run conflicts with a reader ---------- *)
Definition race_trace : list event :=
  [ESpawnBegin 0 None; EMark 0; EMarkStep 0; EMarkStep 0; ESpawnGo 0 1 7].

Definition enabled (fixed : bool) (s : state) (e : event) : Prop := step fixed s e <> None.

Lemma race_current : exists s e1 e2 l,
  run false (init 0) race_trace = Some s /\ ids_inj s /\
  actor e1 <> actor e2 /\ enabled false s e1 /\ enabled false s e2 /\
  In (l, true) (acc s e1) /\ In (l, false) (acc s e2).
Proof.
  destruct (run false (init 0) race_trace) as [s|] eqn:E; [|vm_compute in E; discriminate].
  exists s, (EChildSetRun 1), (ECall 0 2 None), (LFRun 2).
  vm_compute in E. inversion E; subst; clear E.
  split; auto. split.
  - intros t1 t2 L1 L2 E. simpl in *. unfold upd in *.
    destruct t1 as [|[|t1]]; destruct t2 as [|[|t2]]; simpl in *; try discriminate; auto.
  - split; [simpl; discriminate|]. split; [vm_compute; discriminate|]. split; [vm_compute; discriminate|].
    split; vm_compute; auto.
Qed.

(* with the write removed the same situation is conflict free on that location: the step does not exist *)
Lemma fixed_no_child_write : forall id0 tr s c, run true (init id0) tr = Some s -> step true s (EChildSetRun c) = None.
Proof.
  intros id0 tr s c R. pose proof (run_inv1 _ _ _ (init_inv1 id0) R) as I.
  unfold step. destruct (t_pc (thr s c)) eqn:Hp; auto. exfalso. eapply (a_nochild _ I); eauto.
Qed.

(* C10 — model of the interpreter-owned state that interpreted goroutines share: frames (fast.Env),
   their UsedByClosure marks, the per-goroutine records (fast.Run) with their frame pools, closures.
     fast/compile.go   newEnv4Func (choice of the Run: outer.Run if its goid is mine, else registry lookup),
                       newEnv, MarkUsedByClosure (loop up the Outer chain until a marked frame), freeEnv
     fast/statement.go Comp.Go: parent allocates env2 from ITS pool, evaluates function and arguments in env2,
                       the new goroutine creates and registers its own Run and calls the function
   The registry itself (lock, lookup-or-create) is the subject of C33 and appears here as one atomic,
   synchronised operation [lookup].  Definitions only.

   [fixed]: Comp.Go on the current tree lets the NEW goroutine execute `env2.Run = tg2`; with fixed = true
   that write is absent (fixes/C10-1.diff), with fixed = false it is the step EChildSetRun.

   Goroutines are unbounded in number; every loop iteration of MarkUsedByClosure is its own atomic step.
   Closures flow freely: any goroutine may call any closure that exists (over-approximation of data flow). *)
From Coq Require Import List Arith Bool ZArith.
Import ListNotations.

Definition upd {A : Type} (f : nat -> A) (k : nat) (v : A) : nat -> A :=
  fun x => if Nat.eqb x k then v else f x.

Inductive fstate := FActive | FPooled (r : nat).     (* FPooled r: sits in run r's Pool *)
Record frame := mkF { f_run : nat; f_outer : option nat; f_mark : bool; f_st : fstate }.

Inductive tpc :=
| TRun
| TMark (cur : option nat) (c : nat)     (* inside MarkUsedByClosure for the closure whose Env is c; cur = loop variable *)
| TChildInit (env2 : nat).               (* new goroutine of a go statement, before `env2.Run = tg2` (fixed = false only) *)

Record thread := mkT { t_live : bool; t_id : nat; t_stack : list nat; t_rec : option nat; t_pc : tpc }.
Definition dead_thread := mkT false 0 [] None TRun.

Record state := mkS {
  fr : nat -> frame; nfr : nat;
  thr : nat -> thread; nthr : nat;
  owner : nat -> nat; nrec : nat;       (* Run.goid of every record *)
  clos : list nat                       (* Envs captured by the closures that exist *)
}.

Inductive event :=
| ECall (t c : nat) (reuse : option nat)       (* t calls a closure with Env c; frame popped from the pool (Some f) or new *)
| ESpawnBegin (p : nat) (reuse : option nat)   (* go statement, parent: env2 := newEnv(env.Run, env, 0, 0); expressions are then evaluated in env2 *)
| ESpawnGo (p c id : nat)                      (* go statement, parent: `go func(){...}()`; goroutine c is created with identity id, allocates and registers its Run *)
| EChildSetRun (c : nat)                       (* child: env2.Run = tg2 (only when fixed = false) *)
| ESpawnForeign (c id : nat)
| EMark (t : nat)                              (* a function literal is evaluated in the innermost frame: MarkUsedByClosure starts *)
| EMarkStep (t : nat)                          (* one loop iteration / loop exit (the closure now exists) *)
| EReturn (t : nat)                            (* freeEnv of the innermost frame *)
| EExit (t : nat).

Definition actor (e : event) : nat :=
  match e with
  | ECall t _ _ | ESpawnBegin t _ | ESpawnGo t _ _ | EChildSetRun t | ESpawnForeign t _
  | EMark t | EMarkStep t | EReturn t | EExit t => t
  end.

Definition set_thr (s : state) (t : nat) (th : thread) : state :=
  mkS (fr s) (nfr s) (upd (thr s) t th) (nthr s) (owner s) (nrec s) (clos s).
Definition set_fr (s : state) (f : nat) (x : frame) : state :=
  mkS (upd (fr s) f x) (nfr s) (thr s) (nthr s) (owner s) (nrec s) (clos s).

Definition is_run (p : tpc) : bool := match p with TRun => true | _ => false end.

(* the Run a goroutine gets from the registry (getRun4Goid): its registered record, or a new one *)
Definition lookup (s : state) (t : nat) : state * nat :=
  let th := thr s t in
  match t_rec th with
  | Some r => (s, r)
  | None =>
      let r := nrec s in
      (mkS (fr s) (nfr s) (upd (thr s) t (mkT (t_live th) (t_id th) (t_stack th) (Some r) (t_pc th))) (nthr s)
           (upd (owner s) r (t_id th)) (S r) (clos s), r)
  end.

(* take a frame for record r: recycle pooled frame f, or allocate a new one; initialise and push it *)
Definition take_frame (s : state) (t r : nat) (outer : nat) (reuse : option nat) : option state :=
  let th := thr s t in
  match reuse with
  | Some f =>
      match f_st (fr s f) with
      | FPooled r' =>
          if Nat.eqb r' r then
            Some (set_thr (set_fr s f (mkF r (Some outer) false FActive)) t
                    (mkT (t_live th) (t_id th) (f :: t_stack th) (t_rec th) (t_pc th)))
          else None
      | FActive => None
      end
  | None =>
      let f := nfr s in
      Some (mkS (upd (fr s) f (mkF r (Some outer) false FActive)) (S f)
              (upd (thr s) t (mkT (t_live th) (t_id th) (f :: t_stack th) (t_rec th) (t_pc th))) (nthr s)
              (owner s) (nrec s) (clos s))
  end.

Fixpoint mem (x : nat) (l : list nat) : bool :=
  match l with [] => false | y :: l' => Nat.eqb x y || mem x l' end.

Definition step (fixed : bool) (s : state) (e : event) : option state :=
  match e with
  | ECall t c reuse =>
      let th := thr s t in
      if t_live th && is_run (t_pc th) && mem c (clos s) then
        if Nat.eqb (owner s (f_run (fr s c))) (t_id th) then take_frame s t (f_run (fr s c)) c reuse
        else let '(s1, r) := lookup s t in take_frame s1 t r c reuse
      else None
  | ESpawnBegin p reuse =>
      let th := thr s p in
      if t_live th && is_run (t_pc th) then
        match t_stack th with
        | top :: _ => take_frame s p (f_run (fr s top)) top reuse
        | [] => None
        end
      else None
  | ESpawnGo p c id =>
      let th := thr s p in
      if t_live th && is_run (t_pc th) && Nat.eqb c (nthr s) then
        match t_stack th with
        | env2 :: rest =>
            let r := nrec s in
            Some (mkS (fr s) (nfr s)
                    (upd (upd (thr s) p (mkT true (t_id th) rest (t_rec th) TRun)) c
                         (mkT true id [] (Some r) (if fixed then TRun else TChildInit env2)))
                    (S (nthr s)) (upd (owner s) r id) (S r) (clos s))
        | [] => None
        end
      else None
  | EChildSetRun c =>
      let th := thr s c in
      match t_pc th, t_rec th with
      | TChildInit env2, Some r =>
          let x := fr s env2 in
          Some (set_thr (set_fr s env2 (mkF r (f_outer x) (f_mark x) (f_st x))) c
                  (mkT (t_live th) (t_id th) (t_stack th) (t_rec th) TRun))
      | _, _ => None
      end
  | ESpawnForeign c id =>
      if Nat.eqb c (nthr s) then
        Some (mkS (fr s) (nfr s) (upd (thr s) c (mkT true id [] None TRun)) (S (nthr s)) (owner s) (nrec s) (clos s))
      else None
  | EMark t =>
      let th := thr s t in
      if t_live th && is_run (t_pc th) then
        match t_stack th with
        | top :: _ => Some (set_thr s t (mkT true (t_id th) (t_stack th) (t_rec th) (TMark (Some top) top)))
        | [] => None
        end
      else None
  | EMarkStep t =>
      let th := thr s t in
      match t_pc th with
      | TMark (Some g) c =>
          let x := fr s g in
          if f_mark x then
            Some (mkS (fr s) (nfr s) (upd (thr s) t (mkT (t_live th) (t_id th) (t_stack th) (t_rec th) TRun))
                      (nthr s) (owner s) (nrec s) (c :: clos s))
          else
            Some (set_thr (set_fr s g (mkF (f_run x) (f_outer x) true (f_st x))) t
                    (mkT (t_live th) (t_id th) (t_stack th) (t_rec th) (TMark (f_outer x) c)))
      | TMark None c =>
          Some (mkS (fr s) (nfr s) (upd (thr s) t (mkT (t_live th) (t_id th) (t_stack th) (t_rec th) TRun))
                    (nthr s) (owner s) (nrec s) (c :: clos s))
      | _ => None
      end
  | EReturn t =>
      let th := thr s t in
      if t_live th && is_run (t_pc th) then
        match t_stack th with
        | f :: rest =>
            let x := fr s f in
            let th' := mkT (t_live th) (t_id th) rest (t_rec th) TRun in
            if f_mark x then Some (set_thr s t th')
            else Some (set_thr (set_fr s f (mkF (f_run x) None false (FPooled (f_run x)))) t th')
        | [] => None
        end
      else None
  | EExit t =>
      let th := thr s t in
      if t_live th && is_run (t_pc th) then
        match t_stack th with
        | [] => Some (set_thr s t (mkT false (t_id th) [] (t_rec th) TRun))
        | _ => None
        end
      else None
  end.

(* after newTopInterp: goroutine 0 (identity id0) owns record 0; frame 0 is the top-level Env (marked: it is the
   Env of every top-level function, never recycled), frame 1 the file Env *)
Definition init (id0 : nat) : state :=
  mkS (fun f => mkF 0 (if Nat.eqb f 1 then Some 0 else None) (Nat.ltb f 2) FActive) 2
      (upd (fun _ => dead_thread) 0 (mkT true id0 [1; 0] (Some 0) TRun)) 1
      (fun _ => id0) 1 [1; 0].

Fixpoint run (fixed : bool) (s : state) (tr : list event) : option state :=
  match tr with
  | [] => Some s
  | e :: tr' => match step fixed s e with Some s' => run fixed s' tr' | None => None end
  end.

(* ---------- memory accesses of a step to interpreter-owned locations (allocation of a new object is private) ---------- *)
Inductive loc :=
| LRun (r : nat)          (* mutable fields of a Run: Pool, PoolSize, CurrEnv, ... *)
| LFRun (f : nat)         (* Env.Run *)
| LFMark (f : nat)        (* Env.UsedByClosure *)
| LFBody (f : nat).       (* the other fields of an Env: Outer, Vals, Ints, Caller, ... *)

Definition reuse_acc (reuse : option nat) : list (loc * bool) :=
  match reuse with
  | Some f => [(LFRun f, true); (LFBody f, true)]
  | None => []
  end.

(* (location, is_write) *)
Definition acc (s : state) (e : event) : list (loc * bool) :=
  match e with
  | ECall t c reuse =>
      let th := thr s t in
      let r := if Nat.eqb (owner s (f_run (fr s c))) (t_id th) then f_run (fr s c)
               else match t_rec th with Some r => r | None => nrec s end in
      (LFRun c, false) :: (LRun r, true) :: (LFBody c, false) :: reuse_acc reuse     (* outer.Run; run.Pool...; outer.FileEnv *)
  | ESpawnBegin p reuse =>
      match t_stack (thr s p) with
      | top :: _ => (LFRun top, false) :: (LRun (f_run (fr s top)), true) :: (LFBody top, false) :: reuse_acc reuse
      | [] => []
      end
  | EChildSetRun c =>
      match t_pc (thr s c) with TChildInit env2 => [(LFRun env2, true)] | _ => [] end
  | EMarkStep t =>
      match t_pc (thr s t) with
      | TMark (Some g) _ =>
          if f_mark (fr s g) then [(LFMark g, false)] else [(LFMark g, false); (LFMark g, true); (LFBody g, false)]
      | _ => []
      end
  | EReturn t =>
      match t_stack (thr s t) with
      | f :: _ =>
          (LFMark f, false) :: (LFRun f, false) :: (LRun (f_run (fr s f)), true) ::
          (if f_mark (fr s f) then [] else [(LFBody f, true); (LFRun f, true)])
      | [] => []
      end
  | _ => []
  end.

(* C10 -- operands of a select statement belong to ONE execution of it (fast/select.go Comp.Select).  Definitions only.

   The statement compiled for `select { case c0 <- v0: ... case x := <-c1: ... }` is one closure:

       func(env) { cases := make([]xr.SelectCase, n)                        // scratch array of THIS execution
                   for i := range entries { cases[i].Chan = entries[i].Chan(env); cases[i].Send = entries[i].Send(env) }
                   chosen, recv, ok := xr.Select(cases); ... }

   Evaluating an operand runs arbitrary interpreted code: it can block (another goroutine then executes the same
   statement meanwhile) or execute the same statement again (recursion).  An execution is therefore a sequence of steps
   EChan e i c / ESend e i v (operand of case i evaluated to c / v and stored) ending with ECommit e (xr.Select called
   with the array); steps of different executions e interleave ARBITRARILY.

   [shared = false] : the code that exists - the array is allocated by the execution (key = e).
   [shared = true]  : one array per compiled statement (allocated by Comp.Select, outside the closure): kept for the
                      refutation. *)
From Coq Require Import List ZArith Bool Arith.
Import ListNotations.
Open Scope Z_scope.

Inductive ev :=
| EChan (e i : nat) (c : Z)
| ESend (e i : nat) (v : Z)
| ECommit (e : nat).

Definition ev_exec (x : ev) : nat := match x with EChan e _ _ | ESend e _ _ | ECommit e => e end.

Definition slot : Type := (option Z * option Z)%type.     (* SelectCase.Chan, SelectCase.Send *)
Definition arr := nat -> slot.
Definition store := nat -> arr.                             (* array identity -> content *)

Definition arr0 : arr := fun _ => (None, None).
Definition store0 : store := fun _ => arr0.

Definition key (shared : bool) (e : nat) : nat := if shared then O else e.

Definition upd_arr (a : arr) (i : nat) (s : slot) : arr := fun j => if Nat.eqb j i then s else a j.
Definition upd (st : store) (k : nat) (a : arr) : store := fun j => if Nat.eqb j k then a else st j.

(* what an execution handed to xr.Select: the first n slots of its array *)
Definition snapshot (n : nat) (a : arr) : list slot := map a (seq 0 n).

Definition step (shared : bool) (n : nat) (st : store) (x : ev) : store * list (nat * list slot) :=
  match x with
  | EChan e i c => let k := key shared e in (upd st k (upd_arr (st k) i (Some c, snd (st k i))), [])
  | ESend e i v => let k := key shared e in (upd st k (upd_arr (st k) i (fst (st k i), Some v)), [])
  | ECommit e => (st, [(e, snapshot n (st (key shared e)))])
  end.

(* run: the Select calls made, in order: (execution, operands passed) *)
Fixpoint run (shared : bool) (n : nat) (st : store) (tr : list ev) : list (nat * list slot) :=
  match tr with
  | [] => []
  | x :: tr' => let '(st', out) := step shared n st x in out ++ run shared n st' tr'
  end.

Definition of_exec (e : nat) (tr : list ev) : list ev := filter (fun x => Nat.eqb (ev_exec x) e) tr.
Definition calls_of (e : nat) (l : list (nat * list slot)) : list (list slot) :=
  map snd (filter (fun p => Nat.eqb (fst p) e) l).

(* C10 — third group of lemmas: consequences of inv1 + inv2.
     reach s t f : frame f can be touched by goroutine t (its stack, every closure's Env, its walk, Outer chains)
     - a frame reachable by two goroutines is fully marked and active (never pooled)
     - a step of one goroutine changes no frame another goroutine can reach, and writes none of its fields
     - two co-enabled steps of different goroutines have no conflicting accesses (all locations) *)
From Coq Require Import List Arith Bool ZArith Lia.
From Verif Require Import C10.Model C10.Proof C10.Proof2.
Import ListNotations.

Inductive reach (s : state) (t : nat) : nat -> Prop :=
| r_stack : forall f, In f (t_stack (thr s t)) -> reach s t f
| r_clos : forall f, In f (clos s) -> reach s t f                       (* any goroutine may hold / call any closure *)
| r_cursor : forall g c, t_pc (thr s t) = TMark (Some g) c -> reach s t g
| r_walk : forall cur c, t_pc (thr s t) = TMark cur c -> reach s t c
| r_outer : forall f o, reach s t f -> f_outer (fr s f) = Some o -> reach s t o.

Lemma reach_cases : forall s t f, inv2 s -> reach s t f -> FM (fr s) f \/ In f (t_stack (thr s t)).
Proof.
  intros s t f J R. induction R as [f H|f H|g c P|cur c P|f o R IH E].
  - auto.
  - left. apply (b_clos _ J); auto.
  - destruct (b_walk _ J _ _ _ P) as [_ [_ W]]. apply W; auto.
  - destruct (b_walk _ J _ _ _ P) as [W _]. auto.
  - destruct IH as [A|A].
    + left. eapply FM_outer; eauto.
    + eapply chain_ok_in; eauto. apply (b_chain _ J).
Qed.

Lemma FM_all_active : forall s f a, inv2 s -> FM (fr s) f -> anc (fr s) f a ->
  f_mark (fr s a) = true /\ f_st (fr s a) = FActive /\ a < nfr s.
Proof.
  intros s f a J H A. pose proof (H _ A) as M. destruct (b_act _ J _ M). auto.
Qed.

Lemma shared_marked : forall s t1 t2 f, inv1 s -> inv2 s -> t1 <> t2 ->
  reach s t1 f -> reach s t2 f ->
  forall a, anc (fr s) f a -> f_mark (fr s a) = true /\ f_st (fr s a) = FActive /\ a < nfr s.
Proof.
  intros s t1 t2 f I J N R1 R2.
  assert (H : FM (fr s) f).
  { destruct (reach_cases _ _ _ J R1) as [A|A]; auto.
    destruct (reach_cases _ _ _ J R2) as [B|B]; auto.
    exfalso. apply N. eapply (a_disj _ I); eauto. }
  intros a A. eapply FM_all_active; eauto.
Qed.

(* ---------- which frames a step may modify ---------- *)
Definition private_of (s : state) (t : nat) (f : nat) : Prop :=
  (In f (t_stack (thr s t)) /\ f_mark (fr s f) = false) \/
  (exists r, f_st (fr s f) = FPooled r) \/
  nfr s <= f.

Lemma take_frame_changes : forall s t r o reuse s' f,
  take_frame s t r o reuse = Some s' -> fr s' f = fr s f \/ (exists r, f_st (fr s f) = FPooled r) \/ nfr s <= f.
Proof.
  intros s t r o reuse s' f H. unfold take_frame in H. destruct reuse as [x|].
  - destruct (f_st (fr s x)) as [|r'] eqn:Hst; [discriminate|]. destruct (Nat.eqb r' r); inversion H; subst; simpl.
    destruct (Nat.eq_dec f x) as [->|N]; [right; left; eauto|left; apply upd_other; auto].
  - inversion H; subst; simpl.
    destruct (Nat.eq_dec f (nfr s)) as [->|N]; [right; right; lia|left; apply upd_other; auto].
Qed.

Lemma lookup_fr : forall s t s1 r, lookup s t = (s1, r) -> fr s1 = fr s /\ nfr s1 = nfr s.
Proof. intros s t s1 r H. unfold lookup in H. destruct (t_rec (thr s t)); inversion H; subst; auto. Qed.

Lemma step_changes : forall s e s' f, inv1 s -> inv2 s -> step true s e = Some s' ->
  fr s' f = fr s f \/ private_of s (actor e) f.
Proof.
  intros s e s' f I J H. unfold private_of. destruct e; unfold step in H; simpl actor.
  - destruct (_ && _) in H; [|discriminate].
    destruct (Nat.eqb (owner s (f_run (fr s c))) (t_id (thr s t))).
    + destruct (take_frame_changes _ _ _ _ _ _ f H) as [A|A]; auto.
    + destruct (lookup s t) as [s1 r] eqn:Hl. destruct (lookup_fr _ _ _ _ Hl) as [Ef En].
      destruct (take_frame_changes _ _ _ _ _ _ f H) as [A|A]; rewrite Ef, ?En in A; auto.
  - destruct (_ && _) in H; [|discriminate]. destruct (t_stack (thr s p)); [discriminate|].
    destruct (take_frame_changes _ _ _ _ _ _ f H) as [A|A]; auto.
  - destruct (_ && _) in H; [|discriminate]. destruct (t_stack (thr s p)); inversion H; subst; auto.
  - destruct (t_pc (thr s c)) eqn:Hp; try discriminate. exfalso. eapply (a_nochild _ I); eauto.
  - destruct (Nat.eqb c (nthr s)); inversion H; subst; auto.
  - destruct (_ && _) in H; [|discriminate]. destruct (t_stack (thr s t)); inversion H; subst; auto.
  - destruct (t_pc (thr s t)) as [|[g|] c|] eqn:Hp; try discriminate.
    + destruct (f_mark (fr s g)) eqn:Hm; inversion H; subst; simpl; auto.
      destruct (Nat.eq_dec f g) as [->|N]; [|left; apply upd_other; auto].
      right. left. split; auto.
      destruct (b_walk _ J _ _ _ Hp) as [_ [_ W]]. destruct (W g eq_refl) as [A|A]; auto.
      apply FM_marked in A. congruence.
    + inversion H; subst; auto.
  - destruct (_ && _) in H; [|discriminate]. destruct (t_stack (thr s t)) as [|x rest] eqn:Hs; [discriminate|].
    destruct (f_mark (fr s x)) eqn:Hm; inversion H; subst; simpl; auto.
    destruct (Nat.eq_dec f x) as [->|N]; [|left; apply upd_other; auto].
    right. left. split; auto.
  - destruct (_ && _) in H; [|discriminate]. destruct (t_stack (thr s t)); inversion H; subst; auto.
Qed.

Lemma private_not_reached : forall s t1 t2 f, inv1 s -> inv2 s -> t1 <> t2 ->
  private_of s t1 f -> reach s t2 f -> False.
Proof.
  intros s t1 t2 f I J N P R.
  destruct (reach_cases _ _ _ J R) as [A|A].
  - apply FM_marked in A. destruct (b_act _ J _ A) as [B C].
    destruct P as [[_ P]|[[r P]|P]]; [congruence|congruence|lia].
  - destruct (a_stack _ I _ _ A) as [_ [B [C _]]].
    destruct P as [[P _]|[[r P]|P]]; [|congruence|lia].
    apply N. eapply (a_disj _ I); eauto.
Qed.

(* a step of goroutine t1 leaves every frame that another goroutine can reach untouched *)
Lemma step_frame_stable : forall s e s' t2 f, inv1 s -> inv2 s -> step true s e = Some s' ->
  t2 <> actor e -> reach s t2 f -> fr s' f = fr s f.
Proof.
  intros s e s' t2 f I J H N R. destruct (step_changes _ _ _ f I J H) as [A|A]; auto.
  exfalso. apply (private_not_reached s (actor e) t2 f I J); auto.
Qed.

(* ---------- accesses to frame fields ---------- *)
Definition floc (l : loc) : option nat :=
  match l with LRun _ => None | LFRun f | LFMark f | LFBody f => Some f end.

(* how a step may access a field of frame f: own unmarked stack frame (read/write), own stack frame or marked frame
   (read only), frame in the pool of a record owned by the actor's identity (read/write) *)
Definition acc_kind (s : state) (t : nat) (f : nat) (w : bool) : Prop :=
  (In f (t_stack (thr s t)) /\ (w = true -> f_mark (fr s f) = false)) \/
  (w = false /\ f_mark (fr s f) = true) \/
  (exists r, f_st (fr s f) = FPooled r /\ r < nrec s /\ owner s r = t_id (thr s t) /\ t_live (thr s t) = true).

Lemma reuse_kind : forall s e s' f, inv1 s -> OwnerOnly s e s' ->
  (exists r, In (LRun r, true) (acc s e) /\ f_st (fr s f) = FPooled r) ->
  forall w, acc_kind s (actor e) f w.
Proof.
  intros s e s' f I [O _] [r [A P]] w. right; right. exists r.
  destruct (O _ _ A) as [L [_ Q]]. destruct (a_pool _ I _ _ P) as [B _]. auto.
Qed.

Lemma acc_frame_cases : forall s e s' l w f, inv1 s -> inv2 s -> step true s e = Some s' ->
  In (l, w) (acc s e) -> floc l = Some f -> acc_kind s (actor e) f w.
Proof.
  intros s e s' l w f I J H A Fl.
  pose proof (step_owner_only _ _ _ I H) as OO.
  destruct e; simpl in A; simpl actor.
  - (* ECall *)
    assert (Hc : f_mark (fr s c) = true).
    { unfold step in H. destruct (_ && _) eqn:Hc in H; [|discriminate]. bool_hyps.
      apply FM_marked. apply (b_clos _ J). apply mem_In; auto. }
    destruct A as [A|[A|[A|A]]]; try (inversion A; subst; simpl in Fl; inversion Fl; subst; right; left; auto; fail).
    + destruct reuse as [x|]; [|destruct A].
      assert (f = x).
      { simpl in A. destruct A as [A|[A|[]]]; inversion A; subst; simpl in Fl; inversion Fl; auto. }
      subst x. destruct OO as [O1 [O2 O3]].
      apply (reuse_kind s (ECall t c (Some f)) s'); [auto|split; auto|]. eapply O2; eauto.
  - (* ESpawnBegin *)
    destruct (t_stack (thr s p)) as [|top rest] eqn:Hs; [destruct A|].
    destruct A as [A|[A|[A|A]]]; try (inversion A; subst; simpl in Fl; discriminate); try (inversion A; subst; simpl in Fl; inversion Fl; subst; left; rewrite Hs; split; [left; auto|discriminate]; fail).
    + destruct reuse as [x|]; [|destruct A].
      assert (f = x).
      { simpl in A. destruct A as [A|[A|[]]]; inversion A; subst; simpl in Fl; inversion Fl; auto. }
      subst x. destruct OO as [O1 [O2 O3]].
      apply (reuse_kind s (ESpawnBegin p (Some f)) s'); [auto|split; auto|]. eapply O3; eauto.
  - destruct A.
  - exfalso. unfold step in H. destruct (t_pc (thr s c)) eqn:Hp; try discriminate. eapply (a_nochild _ I); eauto.
  - destruct A.
  - destruct A.
  - (* EMarkStep *)
    destruct (t_pc (thr s t)) as [|[g|] c|] eqn:Hp; try (destruct A; fail).
    destruct (f_mark (fr s g)) eqn:Hm.
    + destruct A as [A|[]]. inversion A; subst. simpl in Fl. inversion Fl; subst. right; left; auto.
    + assert (f = g).
      { destruct A as [A|[A|[A|[]]]]; inversion A; subst; simpl in Fl; inversion Fl; auto. }
      subst g. left. split; auto.
      destruct (b_walk _ J _ _ _ Hp) as [_ [_ W]]. destruct (W f eq_refl) as [B|B]; auto.
      apply FM_marked in B. congruence.
  - (* EReturn *)
    destruct (t_stack (thr s t)) as [|x rest] eqn:Hs; [destruct A|].
    assert (Hx : In x (x :: rest)) by (left; auto).
    destruct A as [A|[A|[A|A]]]; try (inversion A; subst; simpl in Fl; discriminate); try (inversion A; subst; simpl in Fl; inversion Fl; subst; left; rewrite Hs; split; [auto|discriminate]; fail).
    + destruct (f_mark (fr s x)) eqn:Hm; [destruct A|].
      assert (f = x).
      { destruct A as [A|[A|[]]]; inversion A; subst; simpl in Fl; inversion Fl; auto. }
      subst x. left. rewrite Hs. split; auto.
  - destruct A.
Qed.

Lemma kinds_conflict : forall s t1 t2 f w2, inv1 s -> inv2 s -> ids_inj s -> t1 <> t2 ->
  acc_kind s t1 f true -> acc_kind s t2 f w2 -> False.
Proof.
  intros s t1 t2 f w2 I J Inj N K1 K2.
  destruct K1 as [[S1 M1]|[[W _]|[r1 [P1 [R1 [O1 L1]]]]]]; [specialize (M1 eq_refl)|discriminate|].
  - destruct K2 as [[S2 _]|[[_ M2]|[r2 [P2 _]]]].
    + apply N. eapply (a_disj _ I); eauto.
    + congruence.
    + destruct (a_stack _ I _ _ S1) as [_ [B _]]. congruence.
  - destruct K2 as [[S2 _]|[[_ M2]|[r2 [P2 [R2 [O2 L2]]]]]].
    + destruct (a_stack _ I _ _ S2) as [_ [B _]]. congruence.
    + destruct (b_act _ J _ M2) as [B _]. congruence.
    + rewrite P1 in P2. inversion P2; subst. apply N. apply Inj; auto. congruence.
Qed.

(* no step writes a field of a frame that another goroutine can reach *)
Lemma no_write_reached : forall s e s' l f t2, inv1 s -> inv2 s -> step true s e = Some s' ->
  In (l, true) (acc s e) -> floc l = Some f -> t2 <> actor e -> reach s t2 f -> False.
Proof.
  intros s e s' l f t2 I J H A Fl N R.
  destruct (acc_frame_cases _ _ _ _ _ _ I J H A Fl) as [[S M]|[[W _]|[r [P _]]]]; [specialize (M eq_refl)|discriminate|].
  - apply (private_not_reached s (actor e) t2 f I J); auto. left. auto.
  - apply (private_not_reached s (actor e) t2 f I J); auto. right. left. eauto.
Qed.

Definition existing (s : state) (l : loc) : Prop :=
  match l with LRun r => r < nrec s | _ => True end.

(* the full statement: two co-enabled steps of different goroutines never access the same existing
   interpreter-owned location unless both only read it *)
Lemma no_conflict : forall id0 tr s e1 e2 s1 s2 l w1 w2,
  run true (init id0) tr = Some s -> ids_inj s ->
  step true s e1 = Some s1 -> step true s e2 = Some s2 -> actor e1 <> actor e2 ->
  existing s l -> In (l, w1) (acc s e1) -> In (l, w2) (acc s e2) -> w1 = false /\ w2 = false.
Proof.
  intros id0 tr s e1 e2 s1 s2 l w1 w2 R Inj H1 H2 N Ex A1 A2.
  destruct (reach_inv _ _ _ R) as [I J].
  destruct (floc l) as [f|] eqn:Fl.
  - pose proof (acc_frame_cases _ _ _ _ _ _ I J H1 A1 Fl) as K1.
    pose proof (acc_frame_cases _ _ _ _ _ _ I J H2 A2 Fl) as K2.
    destruct w1.
    + exfalso. apply (kinds_conflict s (actor e1) (actor e2) f w2 I J Inj N K1 K2).
    + destruct w2; auto. exfalso.
      assert (N' : actor e2 <> actor e1) by auto.
      apply (kinds_conflict s (actor e2) (actor e1) f false I J Inj N' K2 K1).
  - destruct l; try discriminate. simpl in Ex. exfalso. apply (no_run_conflict id0 tr s e1 e2 s1 s2 r w1 w2 R Inj H1 H2 N Ex A1 A2).
Qed.

(* packaged for Props.v *)
Lemma shared_frames_are_marked : forall id0 tr s t1 t2 f,
  run true (init id0) tr = Some s -> t1 <> t2 -> reach s t1 f -> reach s t2 f ->
  (forall a, anc (fr s) f a -> f_mark (fr s a) = true /\ f_st (fr s a) = FActive /\ a < nfr s) /\
  (forall e s' t, step true s e = Some s' -> actor e = t -> (t <> t1 \/ t <> t2) ->
     fr s' f = fr s f /\
     forall l, In (l, true) (acc s e) -> floc l <> Some f).
Proof.
  intros id0 tr s t1 t2 f R N R1 R2. destruct (reach_inv _ _ _ R) as [I J]. split.
  - eapply shared_marked; eauto.
  - intros e s' t H Ea D. subst t.
    assert (X : exists t', t' <> actor e /\ reach s t' f).
    { destruct D as [D|D]; [exists t1|exists t2]; auto. }
    destruct X as [t' [N' R']]. split.
    + eapply step_frame_stable; eauto.
    + intros l A Fl. eapply no_write_reached; eauto.
Qed.

(* freeEnv recycles only frames nobody else can reach; the recycled frame of a call was reachable by nobody *)
Lemma pooled_unreachable : forall id0 tr s t f r,
  run true (init id0) tr = Some s -> f_st (fr s f) = FPooled r -> reach s t f -> False.
Proof.
  intros id0 tr s t f r R P Re. destruct (reach_inv _ _ _ R) as [I J].
  destruct (reach_cases _ _ _ J Re) as [A|A].
  - apply FM_marked in A. destruct (b_act _ J _ A). congruence.
  - destruct (a_stack _ I _ _ A) as [_ [B _]]. congruence.
Qed.

Lemma return_recycles_private : forall id0 tr s t s' f r t2,
  run true (init id0) tr = Some s -> step true s (EReturn t) = Some s' ->
  f_st (fr s f) = FActive -> f_st (fr s' f) = FPooled r -> t2 <> t -> reach s t2 f -> False.
Proof.
  intros id0 tr s t s' f r t2 R H A P N Re. destruct (reach_inv _ _ _ R) as [I J].
  pose proof (step_frame_stable _ _ _ t2 f I J H N Re) as E. rewrite E in P. congruence.
Qed.

Lemma reachable_frames_stable : forall id0 tr s e s' t2 f,
  run true (init id0) tr = Some s -> step true s e = Some s' -> t2 <> actor e -> reach s t2 f -> fr s' f = fr s f.
Proof. intros id0 tr s e s' t2 f R. destruct (reach_inv _ _ _ R). apply step_frame_stable; auto. Qed.

(* C34 -- soundness of the checker: a row accepted by entry_ok denotes, for ALL arguments of the
   parameter types, the Go operator named by its method at its kind (Model.spec_of_shape). *)
From Coq Require Import ZArith List Bool Lia.
From Verif Require Import Common.GoInt Common.GoStr GoLite.Syntax GoLite.Sem C34.Model.
Import ListNotations.
Open Scope Z_scope.

Section P.
  Variable F : Type.
  Variable fbin : gokind -> binop -> F -> F -> F.
  Variable fcmp : gokind -> binop -> F -> F -> bool.
  Variable fun1 : gokind -> unop -> F -> F.
  Variable fconv : gokind -> gokind -> F -> F.
  Variable fpart : gokind -> bool -> F -> F.
  Variable fofbits : gokind -> Z -> Z -> F.
  Notation value := (value F).
  Notation denote := (denote F fbin fcmp fun1 fconv fpart fofbits).
  Notation binop_val := (binop_val F fbin fcmp).
  Notation go_binop := (go_binop F fbin fcmp).
  Notation go_unop := (go_unop F fun1).
  Notation spec_of_shape := (spec_of_shape F fbin fcmp fun1 fpart).

  Lemma has_ty_inv k (v : value) : has_ty F (TK k) v = true ->
    (k = GBool /\ exists b, v = VBool b) \/ (k = GString /\ exists s, v = VStr s) \/
    (exists z, v = VInt k z /\ is_integer k = true) \/
    (exists f, v = VFlt k f /\ (is_float k || is_complex k) = true).
  Proof.
    destruct v; simpl; intros H; try discriminate.
    - left. apply gokind_beq_eq in H. eauto.
    - right. right. left. apply andb_true_iff in H as [H1 H2]. apply gokind_beq_eq in H1. subst. eauto.
    - right. left. apply gokind_beq_eq in H. eauto.
    - right. right. right. apply andb_true_iff in H as [H1 H2]. apply gokind_beq_eq in H1. subst. eauto.
  Qed.

  Definition is_shift (op : binop) := match op with Shl | Shr => true | _ => false end.

  (* the evaluator's dynamically dispatched operator is the Go operator of kind k on operands of kind k *)
  Lemma binop_val_spec k op (a b : value) : is_shift op = false ->
    has_ty F (TK k) a = true -> has_ty F (TK k) b = true -> binop_val op a b = go_binop k op a b.
  Proof.
    intros Hs Ha Hb.
    destruct (has_ty_inv _ _ Ha) as [[-> [x ->]]|[[-> [x ->]]|[[x [-> Hx]]|[x [-> Hx]]]]];
    destruct (has_ty_inv _ _ Hb) as [[E [y ->]]|[[E [y ->]]|[[y [-> Hy]]|[y [-> Hy]]]]]; try discriminate;
      try (subst; discriminate); try (destruct k; discriminate).
    - destruct op; try discriminate; reflexivity.
    - destruct op; try discriminate; reflexivity.
    - unfold Sem.binop_val, Sem.go_binop. rewrite !gokind_beq_refl. destruct op; try discriminate; reflexivity.
    - unfold Sem.binop_val, Sem.go_binop. rewrite !gokind_beq_refl. destruct op; try discriminate; reflexivity.
  Qed.

  Lemma shift_val_spec k op (a c : value) : is_shift op = true ->
    has_ty F (TK k) a = true -> has_ty F (TK GUint8) c = true -> binop_val op a c = go_shift F k op a c.
  Proof.
    intros Hs Ha Hc.
    destruct (has_ty_inv _ _ Hc) as [[E _]|[[E _]|[[n [-> Hn]]|[y [-> Hy]]]]]; try discriminate.
    destruct (has_ty_inv _ _ Ha) as [[-> [x ->]]|[[-> [x ->]]|[[x [-> Hx]]|[x [-> Hx]]]]];
      destruct op; try discriminate; simpl; try reflexivity; rewrite gokind_beq_refl; reflexivity.
  Qed.

  (* results of operators are typed values: the implicit conversion at return leaves them alone *)
  Lemma coerce_typed t (v : value) : (forall z, v <> VUntyped z) -> coerce F t v = Ok v.
  Proof. destruct v; intros H; try reflexivity. exfalso. eapply H. reflexivity. Qed.

  Lemma arith_typed k op x y (v : value) : arith F k op x y = Ok v -> forall z, v <> VUntyped z.
  Proof.
    unfold arith. destruct (ik_of k); [|discriminate].
    destruct op; try discriminate; try (intros [= <-]; discriminate);
      match goal with |- context[match ?q with _ => _ end] => destruct q end; try discriminate; intros [= <-]; discriminate.
  Qed.
  Lemma shift_typed k op x sg n (v : value) : shift F k op x sg n = Ok v -> forall z, v <> VUntyped z.
  Proof.
    unfold shift. destruct (ik_of k); [|discriminate]. destruct (sg && (n <? 0)); [discriminate|].
    destruct op; try discriminate; intros [= <-]; discriminate.
  Qed.
  Lemma go_binop_typed k op a b (v : value) : go_binop k op a b = Ok v -> forall z, v <> VUntyped z.
  Proof.
    unfold Sem.go_binop. destruct a; try discriminate; destruct b; try discriminate.
    - destruct k; try discriminate. destruct op; try discriminate; intros [= <-]; discriminate.
    - destruct (gokind_beq k0 k && gokind_beq k1 k); [|discriminate]. apply arith_typed.
    - destruct k; try discriminate. destruct op; try discriminate; intros [= <-]; discriminate.
    - destruct (gokind_beq k0 k && gokind_beq k1 k); [|discriminate].
      unfold flt_binop. destruct (is_farith op); [intros [= <-]; discriminate|].
      destruct (is_complex k); [destruct op; try discriminate; intros [= <-]; discriminate|].
      destruct (is_cmp op); [intros [= <-]; discriminate|discriminate].
  Qed.
  Lemma go_shift_typed k op a c (v : value) : go_shift F k op a c = Ok v -> forall z, v <> VUntyped z.
  Proof.
    unfold go_shift. destruct a; try discriminate; destruct c; try discriminate.
    destruct (gokind_beq k0 k && is_integer k1); [|discriminate]. apply shift_typed.
  Qed.

  Opaque has_ty.
  Arguments Sem.binop_val : simpl never.
  Arguments Sem.go_binop : simpl never.

  Definition pack (s : state F) (r : res value) : res (list value * state F) :=
    match r with Ok v => Ok ([v], s) | Panic p => Panic p | Stuck => Stuck | OutOfFuel => OutOfFuel end.

  Lemma bind_params1 x1 t1 (args : list value) le :
    bind_params F [(x1, t1)] args = Some le ->
    exists a, args = [a] /\ le = [(x1, a)] /\ has_ty F t1 a = true.
  Proof.
    destruct args as [|a [|b r]]; simpl; try discriminate;
      repeat (match goal with |- context[if ?x then _ else _] => destruct x eqn:? end; try discriminate).
    intros [= <-]. exists a. auto.
  Qed.
  Lemma bind_params2 x1 t1 x2 t2 (args : list value) le :
    bind_params F [(x1, t1); (x2, t2)] args = Some le ->
    exists a b, args = [a; b] /\ le = [(x1, a); (x2, b)] /\ has_ty F t1 a = true /\ has_ty F t2 b = true.
  Proof.
    destruct args as [|a [|b [|c r]]]; simpl; try discriminate;
      repeat (match goal with |- context[if ?x then _ else _] => destruct x eqn:? end; try discriminate).
    intros [= <-]. exists a, b. auto.
  Qed.
  Lemma bind_params3 x1 t1 x2 t2 x3 t3 (args : list value) le :
    bind_params F [(x1, t1); (x2, t2); (x3, t3)] args = Some le ->
    exists a b c, args = [a; b; c] /\ le = [(x1, a); (x2, b); (x3, c)] /\
                  has_ty F t1 a = true /\ has_ty F t2 b = true /\ has_ty F t3 c = true.
  Proof.
    destruct args as [|a [|b [|c [|d r]]]]; simpl; try discriminate;
      repeat (match goal with |- context[if ?x then _ else _] => destruct x eqn:? end; try discriminate).
    intros [= <-]. exists a, b, c. auto.
  Qed.

  Ltac finish_ok H lem := simpl; rewrite coerce_typed by (eapply lem; exact H); reflexivity.

  Lemma sound_bin k op args le s : is_shift op = false ->
    bind_params F (c_params (closure_of_shape k (ShBin op))) args = Some le ->
    denote 0 [] (closure_of_shape k (ShBin op)) args s = pack s (spec_of_shape k (ShBin op) args).
  Proof.
    intros Hs Hb. apply bind_params3 in Hb as (z & a & b & -> & -> & Hz & Ha & Hb).
    unfold Sem.denote. simpl. rewrite Hz, Ha, Hb. simpl. unfold bind, ret, lift. simpl.
    rewrite (binop_val_spec k) by assumption.
    destruct (go_binop k op a b) eqn:E; try reflexivity. finish_ok E go_binop_typed.
  Qed.

  Lemma sound_rel k op args le s : is_shift op = false ->
    bind_params F (c_params (closure_of_shape k (ShRel op))) args = Some le ->
    denote 0 [] (closure_of_shape k (ShRel op)) args s = pack s (spec_of_shape k (ShRel op) args).
  Proof.
    intros Hs Hb. apply bind_params2 in Hb as (a & b & -> & -> & Ha & Hb).
    unfold Sem.denote. simpl. rewrite Ha, Hb. simpl. unfold bind, ret, lift. simpl.
    rewrite (binop_val_spec k) by assumption.
    destruct (go_binop k op a b) eqn:E; try reflexivity. finish_ok E go_binop_typed.
  Qed.

  Lemma sound_shift k op args le s : is_shift op = true ->
    bind_params F (c_params (closure_of_shape k (ShShift op))) args = Some le ->
    denote 0 [] (closure_of_shape k (ShShift op)) args s = pack s (spec_of_shape k (ShShift op) args).
  Proof.
    intros Hs Hb. apply bind_params3 in Hb as (z & a & b & -> & -> & Hz & Ha & Hb).
    unfold Sem.denote. simpl. rewrite Hz, Ha, Hb. simpl. unfold bind, ret, lift. simpl.
    rewrite (shift_val_spec k) by assumption.
    destruct (go_shift F k op a b) eqn:E; try reflexivity. finish_ok E go_shift_typed.
  Qed.

  Lemma sound_un k op args le s :
    bind_params F (c_params (closure_of_shape k (ShUn op))) args = Some le ->
    denote 0 [] (closure_of_shape k (ShUn op)) args s = pack s (spec_of_shape k (ShUn op) args).
  Proof.
    intros Hb. apply bind_params2 in Hb as (z & a & -> & -> & Hz & Ha).
    unfold Sem.denote. simpl. rewrite Hz, Ha. simpl. unfold bind, ret, lift. simpl.
    destruct (go_unop op a) eqn:E; try reflexivity. simpl.
    rewrite coerce_typed; [reflexivity|].
    intros u ->. destruct (has_ty_inv _ _ Ha) as [[_ [x ->]]|[[_ [x ->]]|[[x [-> Hx]]|[x [-> Hx]]]]];
      destruct op; simpl in E; try discriminate; destruct (ik_of k); discriminate.
  Qed.

  Lemma sound_cmp k args le s :
    bind_params F (c_params (closure_of_shape k ShCmp)) args = Some le ->
    denote 0 [] (closure_of_shape k ShCmp) args s = pack s (spec_of_shape k ShCmp args).
  Proof.
    intros Hb. apply bind_params2 in Hb as (a & b & -> & -> & Ha & Hb).
    unfold Sem.denote. simpl. rewrite Ha, Hb. simpl. unfold bind, ret, lift, cmp_spec. simpl.
    rewrite !(binop_val_spec k) by (assumption || reflexivity).
    destruct (go_binop k Lss a b) as [[[]| | | | | | | | | | |]| | |]; try reflexivity.
    simpl. rewrite ?(binop_val_spec k) by (assumption || reflexivity).
    destruct (go_binop k Gtr a b) as [[[]| | | | | | | | | | |]| | |]; reflexivity.
  Qed.

  Lemma sound_part k g args le s :
    bind_params F (c_params (closure_of_shape k (ShPart g))) args = Some le ->
    denote 0 [] (closure_of_shape k (ShPart g)) args s = pack s (spec_of_shape k (ShPart g) args).
  Proof.
    intros Hb. apply bind_params1 in Hb as (a & -> & -> & Ha).
    unfold Sem.denote. simpl. rewrite Ha. simpl. unfold bind, ret, lift. simpl.
    destruct (gcall1 F fpart g a) eqn:E; try reflexivity. simpl.
    rewrite coerce_typed; [reflexivity|].
    intros u ->. destruct (has_ty_inv _ _ Ha) as [[_ [x ->]]|[[_ [x ->]]|[[x [-> Hx]]|[x [-> Hx]]]]];
      destruct g; simpl in E; try discriminate;
      repeat match type of E with context[match ?q with _ => _ end] => destruct q; try discriminate end.
  Qed.

  Lemma sound_index args le s :
    bind_params F (c_params (closure_of_shape GString ShIndex)) args = Some le ->
    denote 0 [] (closure_of_shape GString ShIndex) args s = pack s (spec_of_shape GString ShIndex args).
  Proof.
    intros Hb. apply bind_params2 in Hb as (a & b & -> & -> & Ha & Hb).
    destruct (has_ty_inv _ _ Ha) as [[E _]|[[_ [x ->]]|[[x [-> Hx]]|[x [-> Hx]]]]]; try discriminate.
    destruct (has_ty_inv _ _ Hb) as [[E _]|[[E _]|[[i [-> Hi]]|[y [-> Hy]]]]]; try discriminate.
    unfold Sem.denote. simpl. rewrite Ha, Hb. simpl. unfold bind, ret, lift. simpl.
    unfold str_index. destruct ((0 <=? i) && (i <? Z.of_nat (length x))); reflexivity.
  Qed.

  Lemma sound_len args le s :
    bind_params F (c_params (closure_of_shape GString ShLen)) args = Some le ->
    denote 0 [] (closure_of_shape GString ShLen) args s = pack s (spec_of_shape GString ShLen args).
  Proof.
    intros Hb. apply bind_params1 in Hb as (a & -> & -> & Ha).
    destruct (has_ty_inv _ _ Ha) as [[E _]|[[_ [x ->]]|[[x [-> Hx]]|[x [-> Hx]]]]]; try discriminate.
    unfold Sem.denote. simpl. rewrite Ha. reflexivity.
  Qed.

  Lemma sound_slice args le s :
    bind_params F (c_params (closure_of_shape GString ShSlice)) args = Some le ->
    denote 0 [] (closure_of_shape GString ShSlice) args s = pack s (spec_of_shape GString ShSlice args).
  Proof.
    intros Hb. apply bind_params3 in Hb as (a & b & c & -> & -> & Ha & Hb & Hc).
    destruct (has_ty_inv _ _ Ha) as [[E _]|[[_ [x ->]]|[[x [-> Hx]]|[x [-> Hx]]]]]; try discriminate.
    destruct (has_ty_inv _ _ Hb) as [[E _]|[[E _]|[[i [-> Hi]]|[y [-> Hy]]]]]; try discriminate.
    destruct (has_ty_inv _ _ Hc) as [[E _]|[[E _]|[[j [-> Hj]]|[y [-> Hy]]]]]; try discriminate.
    unfold Sem.denote. simpl. rewrite Ha, Hb, Hc. simpl. unfold bind, ret, lift. simpl.
    unfold str_slice. destruct ((0 <=? i) && (i <=? j) && (j <=? Z.of_nat (length x))); reflexivity.
  Qed.

  (* every shape that shape_of can produce is sound *)
  Theorem shape_sound k m sh args le s : shape_of k m = Some sh ->
    bind_params F (c_params (closure_of_shape k sh)) args = Some le ->
    denote 0 [] (closure_of_shape k sh) args s = pack s (spec_of_shape k sh args).
  Proof.
    intros Hsh Hb.
    destruct m; simpl in Hsh; try discriminate;
      repeat match type of Hsh with context[if ?c then _ else _] => destruct c eqn:? end;
      try discriminate;
      try (destruct k; try discriminate); injection Hsh as <-;
      first [ eapply sound_bin; [reflexivity|eassumption]
            | eapply sound_rel; [reflexivity|eassumption]
            | eapply sound_shift; [reflexivity|eassumption]
            | eapply sound_un; eassumption
            | eapply sound_cmp; eassumption
            | eapply sound_part; eassumption
            | eapply sound_index; eassumption
            | eapply sound_len; eassumption
            | eapply sound_slice; eassumption ].
  Qed.

  (* soundness of the per-row checker *)
  Theorem entry_ok_sound e : entry_ok e = true ->
    exists k m sh, classify (e_path e) = Some (k, m) /\ shape_of k m = Some sh /\
      forall args le s, bind_params F (e_params e) args = Some le ->
        denote 0 [] (closure_of e) args s = pack s (spec_of_shape k sh args).
  Proof.
    unfold entry_ok. destruct (e_func e); try discriminate.
    destruct (classify (e_path e)) as [[k m]|]; [|discriminate].
    destruct (shape_of k m) as [sh|] eqn:Hsh; [|discriminate].
    intros H. apply closure_beq_eq in H. exists k, m, sh. repeat split; auto.
    intros args le s Hb. rewrite H. eapply shape_sound; eauto.
    replace (e_params e) with (c_params (closure_of e)) in Hb by reflexivity. rewrite H in Hb. exact Hb.
  Qed.

  (* integers: the three-way comparison is GoInt.cmp3 *)
  Lemma cmp_spec_int k x y : is_integer k = true ->
    cmp_spec F fbin fcmp k (VInt k x) (VInt k y) = Ok (VInt GInt (GoInt.cmp3 x y)).
  Proof.
    intros Hk. unfold cmp_spec, Sem.go_binop. rewrite !gokind_beq_refl. simpl. unfold arith.
    destruct (ik_of k) eqn:E; [|destruct k; discriminate]. unfold GoInt.cmp3.
    destruct (x <? y); [reflexivity|]. destruct (y <? x); reflexivity.
  Qed.
End P.

(* C34 -- soundness of the checker: a row accepted by entry_ok denotes, for ALL arguments of the
   parameter types, the Go operator named by its method at its kind (Model.spec_of_shape). *)
From Coq Require Import ZArith List Bool Lia.
From Verif Require Import Common.GoInt Common.GoStr GoLite.Syntax GoLite.Sem GoLite.Templates C34.Model.
Import ListNotations.
Open Scope Z_scope.

Section P.
  Variable F : Type.
  Variable fbin : gokind -> binop -> F -> F -> F.
  Variable fcmp : gokind -> binop -> F -> F -> bool.
  Variable fun1 : gokind -> unop -> F -> F.
  Variable fconv : gokind -> gokind -> F -> F.
  Variable fpart : gokind -> bool -> F -> F.
  Variable fofbits : gokind -> Z -> Z -> F.
  Notation value := (value F).
  Notation denote := (denote F fbin fcmp fun1 fconv fpart fofbits).
  Notation binop_val := (binop_val F fbin fcmp).
  Notation go_binop := (go_binop F fbin fcmp).
  Notation go_unop := (go_unop F fun1).
  Notation spec_of_shape := (spec_of_shape F fbin fcmp fun1 fpart).
  Notation pack := (pack F).
  Opaque has_ty.
  Arguments Sem.binop_val : simpl never.
  Arguments Sem.go_binop : simpl never.

  Ltac finish_ok H lem := simpl; rewrite coerce_typed by (eapply lem; exact H); reflexivity.

  Lemma sound_bin k op args le s : is_shift op = false ->
    bind_params F (c_params (closure_of_shape k (ShBin op))) args = Some le ->
    denote 0 [] (closure_of_shape k (ShBin op)) args s = pack s (spec_of_shape k (ShBin op) args).
  Proof.
    intros Hs Hb. apply bind_params3 in Hb as (z & a & b & -> & -> & Hz & Ha & Hb).
    unfold Sem.denote. simpl. rewrite Hz, Ha, Hb. simpl. unfold bind, ret, lift. simpl.
    rewrite (binop_val_spec k) by assumption.
    destruct (go_binop k op a b) eqn:E; try reflexivity. finish_ok E @go_binop_typed.
  Qed.

  Lemma sound_rel k op args le s : is_shift op = false ->
    bind_params F (c_params (closure_of_shape k (ShRel op))) args = Some le ->
    denote 0 [] (closure_of_shape k (ShRel op)) args s = pack s (spec_of_shape k (ShRel op) args).
  Proof.
    intros Hs Hb. apply bind_params2 in Hb as (a & b & -> & -> & Ha & Hb).
    unfold Sem.denote. simpl. rewrite Ha, Hb. simpl. unfold bind, ret, lift. simpl.
    rewrite (binop_val_spec k) by assumption.
    destruct (go_binop k op a b) eqn:E; try reflexivity. finish_ok E @go_binop_typed.
  Qed.

  Lemma sound_shift k op args le s : is_shift op = true ->
    bind_params F (c_params (closure_of_shape k (ShShift op))) args = Some le ->
    denote 0 [] (closure_of_shape k (ShShift op)) args s = pack s (spec_of_shape k (ShShift op) args).
  Proof.
    intros Hs Hb. apply bind_params3 in Hb as (z & a & b & -> & -> & Hz & Ha & Hb).
    unfold Sem.denote. simpl. rewrite Hz, Ha, Hb. simpl. unfold bind, ret, lift. simpl.
    rewrite (shift_val_spec k) by assumption.
    destruct (go_shift F k op a b) eqn:E; try reflexivity. finish_ok E @go_shift_typed.
  Qed.

  Lemma sound_un k op args le s :
    bind_params F (c_params (closure_of_shape k (ShUn op))) args = Some le ->
    denote 0 [] (closure_of_shape k (ShUn op)) args s = pack s (spec_of_shape k (ShUn op) args).
  Proof.
    intros Hb. apply bind_params2 in Hb as (z & a & -> & -> & Hz & Ha).
    unfold Sem.denote. simpl. rewrite Hz, Ha. simpl. unfold bind, ret, lift. simpl.
    destruct (go_unop op a) eqn:E; try reflexivity. simpl.
    rewrite coerce_typed; [reflexivity|].
    intros u ->. destruct (has_ty_inv _ _ Ha) as [[_ [x ->]]|[[_ [x ->]]|[[x [-> Hx]]|[x [-> Hx]]]]];
      destruct op; simpl in E; try discriminate; destruct (ik_of k); discriminate.
  Qed.

  Lemma sound_cmp k args le s :
    bind_params F (c_params (closure_of_shape k ShCmp)) args = Some le ->
    denote 0 [] (closure_of_shape k ShCmp) args s = pack s (spec_of_shape k ShCmp args).
  Proof.
    intros Hb. apply bind_params2 in Hb as (a & b & -> & -> & Ha & Hb).
    unfold Sem.denote. simpl. rewrite Ha, Hb. simpl. unfold bind, ret, lift, cmp_spec. simpl.
    rewrite !(binop_val_spec k) by (assumption || reflexivity).
    destruct (go_binop k Lss a b) as [[[]| | | | | | | | | | |]| | |]; try reflexivity.
    simpl. rewrite ?(binop_val_spec k) by (assumption || reflexivity).
    destruct (go_binop k Gtr a b) as [[[]| | | | | | | | | | |]| | |]; reflexivity.
  Qed.

  Lemma sound_part k g args le s :
    bind_params F (c_params (closure_of_shape k (ShPart g))) args = Some le ->
    denote 0 [] (closure_of_shape k (ShPart g)) args s = pack s (spec_of_shape k (ShPart g) args).
  Proof.
    intros Hb. apply bind_params1 in Hb as (a & -> & -> & Ha).
    unfold Sem.denote. simpl. rewrite Ha. simpl. unfold bind, ret, lift. simpl.
    destruct (gcall1 F fpart g a) eqn:E; try reflexivity. simpl.
    rewrite coerce_typed; [reflexivity|].
    intros u ->. destruct (has_ty_inv _ _ Ha) as [[_ [x ->]]|[[_ [x ->]]|[[x [-> Hx]]|[x [-> Hx]]]]];
      destruct g; simpl in E; try discriminate;
      repeat match type of E with context[match ?q with _ => _ end] => destruct q; try discriminate end.
  Qed.

  Lemma sound_index args le s :
    bind_params F (c_params (closure_of_shape GString ShIndex)) args = Some le ->
    denote 0 [] (closure_of_shape GString ShIndex) args s = pack s (spec_of_shape GString ShIndex args).
  Proof.
    intros Hb. apply bind_params2 in Hb as (a & b & -> & -> & Ha & Hb).
    destruct (has_ty_inv _ _ Ha) as [[E _]|[[_ [x ->]]|[[x [-> Hx]]|[x [-> Hx]]]]]; try discriminate.
    destruct (has_ty_inv _ _ Hb) as [[E _]|[[E _]|[[i [-> Hi]]|[y [-> Hy]]]]]; try discriminate.
    unfold Sem.denote. simpl. rewrite Ha, Hb. simpl. unfold bind, ret, lift. simpl.
    unfold str_index. destruct ((0 <=? i) && (i <? Z.of_nat (length x))); reflexivity.
  Qed.

  Lemma sound_len args le s :
    bind_params F (c_params (closure_of_shape GString ShLen)) args = Some le ->
    denote 0 [] (closure_of_shape GString ShLen) args s = pack s (spec_of_shape GString ShLen args).
  Proof.
    intros Hb. apply bind_params1 in Hb as (a & -> & -> & Ha).
    destruct (has_ty_inv _ _ Ha) as [[E _]|[[_ [x ->]]|[[x [-> Hx]]|[x [-> Hx]]]]]; try discriminate.
    unfold Sem.denote. simpl. rewrite Ha. reflexivity.
  Qed.

  Lemma sound_slice args le s :
    bind_params F (c_params (closure_of_shape GString ShSlice)) args = Some le ->
    denote 0 [] (closure_of_shape GString ShSlice) args s = pack s (spec_of_shape GString ShSlice args).
  Proof.
    intros Hb. apply bind_params3 in Hb as (a & b & c & -> & -> & Ha & Hb & Hc).
    destruct (has_ty_inv _ _ Ha) as [[E _]|[[_ [x ->]]|[[x [-> Hx]]|[x [-> Hx]]]]]; try discriminate.
    destruct (has_ty_inv _ _ Hb) as [[E _]|[[E _]|[[i [-> Hi]]|[y [-> Hy]]]]]; try discriminate.
    destruct (has_ty_inv _ _ Hc) as [[E _]|[[E _]|[[j [-> Hj]]|[y [-> Hy]]]]]; try discriminate.
    unfold Sem.denote. simpl. rewrite Ha, Hb, Hc. simpl. unfold bind, ret, lift. simpl.
    unfold str_slice. destruct ((0 <=? i) && (i <=? j) && (j <=? Z.of_nat (length x))); reflexivity.
  Qed.

  (* every shape that shape_of can produce is sound *)
  Theorem shape_sound k m sh args le s : shape_of k m = Some sh ->
    bind_params F (c_params (closure_of_shape k sh)) args = Some le ->
    denote 0 [] (closure_of_shape k sh) args s = pack s (spec_of_shape k sh args).
  Proof.
    intros Hsh Hb.
    destruct m; simpl in Hsh; try discriminate;
      repeat match type of Hsh with context[if ?c then _ else _] => destruct c eqn:? end;
      try discriminate;
      try (destruct k; try discriminate); injection Hsh as <-;
      first [ eapply sound_bin; [reflexivity|eassumption]
            | eapply sound_rel; [reflexivity|eassumption]
            | eapply sound_shift; [reflexivity|eassumption]
            | eapply sound_un; eassumption
            | eapply sound_cmp; eassumption
            | eapply sound_part; eassumption
            | eapply sound_index; eassumption
            | eapply sound_len; eassumption
            | eapply sound_slice; eassumption ].
  Qed.

  (* soundness of the per-row checker *)
  Theorem entry_ok_sound e : entry_ok e = true ->
    exists k m sh, classify (e_path e) = Some (k, m) /\ shape_of k m = Some sh /\
      forall args le s, bind_params F (e_params e) args = Some le ->
        denote 0 [] (closure_of e) args s = pack s (spec_of_shape k sh args).
  Proof.
    unfold entry_ok. destruct (e_func e); try discriminate.
    destruct (classify (e_path e)) as [[k m]|]; [|discriminate].
    destruct (shape_of k m) as [sh|] eqn:Hsh; [|discriminate].
    intros H. apply closure_beq_eq in H. exists k, m, sh. repeat split; auto.
    intros args le s Hb. rewrite H. eapply shape_sound; eauto.
    replace (e_params e) with (c_params (closure_of e)) in Hb by reflexivity. rewrite H in Hb. exact Hb.
  Qed.

  (* integers: the three-way comparison is GoInt.cmp3 *)
  Lemma cmp_spec_int k x y : is_integer k = true ->
    cmp_spec F fbin fcmp k (VInt k x) (VInt k y) = Ok (VInt GInt (GoInt.cmp3 x y)).
  Proof.
    intros Hk. unfold cmp_spec, Sem.go_binop. rewrite !gokind_beq_refl. simpl. unfold arith.
    destruct (ik_of k) eqn:E; [|destruct k; discriminate]. unfold GoInt.cmp3.
    destruct (x <? y); [reflexivity|]. destruct (y <? x); reflexivity.
  Qed.
End P.

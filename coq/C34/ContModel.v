(* C34 — executable model of the slice-shaped container methods of xreflect/cti_method.go
   (ctiLen, ctiCap, ctiSlice, ctiSlice3, ctiAppend on a slice receiver) together with the reflect.Value
   operations they delegate to, and the Go specification of the corresponding operators.  Definitions only.

   A slice value is the descriptor (offset into its backing array, length, capacity); elements do not matter
   for Len/Cap/Slice/Slice3 and for the aliasing decision of append.  [d_off] is relative to the backing
   array, so two descriptors of the same array can be compared. *)
From Coq Require Import List ZArith Bool.
Import ListNotations.
Open Scope Z_scope.

Record desc := mkD { d_off : Z; d_len : Z; d_cap : Z }.

Inductive cres := COk (r : desc) | CPanic.                (* panic = run-time error "slice bounds out of range" *)
Inductive ares := AAlias (r : desc) | AFresh (len : Z).   (* append: result in the same array / in a new array *)

(* ---- the implementation: reflect.Value.Slice / Slice3 / AppendSlice as called by cti_method.go ---- *)
(* reflect.Value.Slice(i, j): panics unless 0 <= i <= j <= cap *)
Definition r_slice (s : desc) (i j : Z) : cres :=
  if (i <? 0) || (j <? i) || (d_cap s <? j) then CPanic
  else COk (mkD (d_off s + i) (j - i) (d_cap s - i)).
(* reflect.Value.Slice3(i, j, k): panics unless 0 <= i <= j <= k <= cap *)
Definition r_slice3 (s : desc) (i j k : Z) : cres :=
  if (i <? 0) || (j <? i) || (k <? j) || (d_cap s <? k) then CPanic
  else COk (mkD (d_off s + i) (j - i) (k - i)).
(* reflect.AppendSlice(s, t) with len t = n: grows in place when the capacity suffices *)
Definition r_append (s : desc) (n : Z) : ares :=
  if d_len s + n <=? d_cap s then AAlias (mkD (d_off s) (d_len s + n) (d_cap s)) else AFresh (d_len s + n).

(* cti_method.go:  ctiSlice(v) = Indirect(v[0]).Slice(int(v[1]), int(v[2]))
                   ctiSlice3(v) = Indirect(v[0]).Slice3(int(v[1]), int(v[2]), int(v[3]))
                   ctiAppend(v) = AppendSlice(v[0], v[1]);  ctiLen / ctiCap = Indirect(v[0]).Len() / .Cap() *)
Definition cti_slice (s : desc) (lo hi : Z) : cres := r_slice s lo hi.
Definition cti_slice3 (s : desc) (lo hi max : Z) : cres := r_slice3 s lo hi max.
Definition cti_append (s : desc) (n : Z) : ares := r_append s n.
Definition cti_len (s : desc) : Z := d_len s.
Definition cti_cap (s : desc) : Z := d_cap s.

(* ---- the specification: Go's s[lo:hi], s[lo:hi:max], append (The Go Programming Language Specification,
   "Slice expressions", "Appending to and copying slices") ---- *)
Definition in_range2 (s : desc) (lo hi : Z) : Prop := 0 <= lo <= hi /\ hi <= d_cap s.
Definition in_range3 (s : desc) (lo hi max : Z) : Prop := 0 <= lo <= hi /\ hi <= max /\ max <= d_cap s.

(* [r] is the Go result of s[lo:hi:max]: same array, starts lo elements further, length hi-lo, capacity max-lo *)
Definition go_slice3 (s : desc) (lo hi max : Z) (r : desc) : Prop :=
  d_off r = d_off s + lo /\ d_len r = hi - lo /\ d_cap r = max - lo.
Definition go_slice (s : desc) (lo hi : Z) (r : desc) : Prop := go_slice3 s lo hi (d_cap s) r.

(* elements of the backing array that [s] can reach by re-slicing: [off, off+cap) *)
Definition reach_lo (s : desc) : Z := d_off s.
Definition reach_hi (s : desc) : Z := d_off s + d_cap s.

(* ---- correspondence cases: descriptor of the operand as observed on the real reflect.Value before the call
   (offset 0 by convention), operands, and the observed result (offset relative to the operand) ---- *)
Inductive cobs := OSl (doff len cap : Z) | OFresh (len : Z) | OPanic.
Inductive ccase :=
| KSlice (idx : Z) (len cap : Z) (lo hi : Z) (o : cobs)
| KSlice3 (idx : Z) (len cap : Z) (lo hi max : Z) (o : cobs)
| KAppend (idx : Z) (len cap : Z) (n : Z) (o : cobs)
| KLenCap (idx : Z) (len cap : Z) (olen ocap : Z).

Definition ccase_idx (c : ccase) : Z :=
  match c with KSlice i _ _ _ _ _ | KSlice3 i _ _ _ _ _ _ | KAppend i _ _ _ _ | KLenCap i _ _ _ _ => i end.

Definition desc_obs (r : desc) (o : cobs) : bool :=
  match o with
  | OSl doff len cap => (d_len r =? len) && (d_cap r =? cap) && ((cap =? 0) || (d_off r =? doff))
  | _ => false
  end.
Definition cres_obs (r : cres) (o : cobs) : bool :=
  match r, o with
  | COk d, _ => desc_obs d o
  | CPanic, OPanic => true
  | _, _ => false
  end.
Definition ares_obs (r : ares) (o : cobs) : bool :=
  match r, o with
  | AAlias d, _ => desc_obs d o
  | AFresh n, OFresh m => n =? m
  | _, _ => false
  end.

Definition ccase_ok (c : ccase) : bool :=
  match c with
  | KSlice _ len cap lo hi o => cres_obs (cti_slice (mkD 0 len cap) lo hi) o
  | KSlice3 _ len cap lo hi max o => cres_obs (cti_slice3 (mkD 0 len cap) lo hi max) o
  | KAppend _ len cap n o => ares_obs (cti_append (mkD 0 len cap) n) o
  | KLenCap _ len cap ol oc => (cti_len (mkD 0 len cap) =? ol) && (cti_cap (mkD 0 len cap) =? oc)
  end.
Definition cmismatches (cs : list ccase) : list Z :=
  map ccase_idx (filter (fun c => negb (ccase_ok c)) cs).

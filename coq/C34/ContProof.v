(* C34 — lemmas about the container-method model (ContModel.v) *)
From Coq Require Import List ZArith Bool Lia.
From Verif Require Import C34.ContModel.
Import ListNotations.
Open Scope Z_scope.

Ltac zb := repeat match goal with
  | H : (_ || _)%bool = false |- _ => apply orb_false_iff in H; destruct H
  | H : (_ <? _) = false |- _ => apply Z.ltb_ge in H
  | H : (_ <? _) = true |- _ => apply Z.ltb_lt in H
  | H : (_ <=? _) = true |- _ => apply Z.leb_le in H
  | H : (_ <=? _) = false |- _ => apply Z.leb_gt in H
  end.

(* Slice3 succeeds exactly on Go's index range and returns Go's s[lo:hi:max] *)
Lemma cti_slice3_spec s lo hi max :
  (in_range3 s lo hi max -> exists r, cti_slice3 s lo hi max = COk r /\ go_slice3 s lo hi max r)
  /\ (~ in_range3 s lo hi max -> cti_slice3 s lo hi max = CPanic).
Proof.
  unfold cti_slice3, r_slice3, in_range3, go_slice3.
  destruct ((lo <? 0) || (hi <? lo) || (max <? hi) || (d_cap s <? max))%bool eqn:E; split; intros H.
  - exfalso. repeat (apply orb_true_iff in E; destruct E as [E|E]); apply Z.ltb_lt in E; lia.
  - reflexivity.
  - eexists; split; [reflexivity|]. simpl. lia.
  - exfalso. apply H. zb. lia.
Qed.

Lemma cti_slice_spec s lo hi :
  (in_range2 s lo hi -> exists r, cti_slice s lo hi = COk r /\ go_slice s lo hi r)
  /\ (~ in_range2 s lo hi -> cti_slice s lo hi = CPanic).
Proof.
  unfold cti_slice, r_slice, in_range2, go_slice, go_slice3.
  destruct ((lo <? 0) || (hi <? lo) || (d_cap s <? hi))%bool eqn:E; split; intros H.
  - exfalso. repeat (apply orb_true_iff in E; destruct E as [E|E]); apply Z.ltb_lt in E; lia.
  - reflexivity.
  - eexists; split; [reflexivity|]. simpl. lia.
  - exfalso. apply H. zb. lia.
Qed.

(* length and capacity seen through the methods Len and Cap *)
Lemma cti_slice3_len_cap s lo hi max r :
  cti_slice3 s lo hi max = COk r -> cti_len r = hi - lo /\ cti_cap r = max - lo /\ 0 <= cti_len r <= cti_cap r.
Proof.
  unfold cti_slice3, r_slice3.
  destruct ((lo <? 0) || (hi <? lo) || (max <? hi) || (d_cap s <? max))%bool eqn:E; [discriminate|].
  intros H. inversion H; subst. unfold cti_len, cti_cap; simpl. zb. lia.
Qed.

(* whatever is re-sliced from the result of s[lo:hi:max] stays inside [off+lo, off+max) of the original *)
Lemma cti_slice3_reach s lo hi max r :
  cti_slice3 s lo hi max = COk r -> reach_lo r = d_off s + lo /\ reach_hi r = d_off s + max /\ reach_hi r <= reach_hi s.
Proof.
  unfold cti_slice3, r_slice3.
  destruct ((lo <? 0) || (hi <? lo) || (max <? hi) || (d_cap s <? max))%bool eqn:E; [discriminate|].
  intros H. inversion H; subst. unfold reach_lo, reach_hi; simpl. zb. lia.
Qed.

Lemma slice_reach_mono s i j r : cti_slice s i j = COk r -> reach_lo s <= reach_lo r /\ reach_hi r = reach_hi s.
Proof.
  unfold cti_slice, r_slice.
  destruct ((i <? 0) || (j <? i) || (d_cap s <? j))%bool eqn:E; [discriminate|].
  intros H. inversion H; subst. unfold reach_lo, reach_hi; simpl. zb. lia.
Qed.

(* Append after Slice3: an in-place append writes only below off+max; when hi-lo+n exceeds max-lo a new array is used *)
Lemma append_after_slice3 s lo hi max r n : 0 <= n ->
  cti_slice3 s lo hi max = COk r ->
  match cti_append r n with
  | AAlias q => hi - lo + n <= max - lo /\ d_off q = d_off s + lo /\ d_off q + d_len q <= d_off s + max /\ d_cap q = max - lo
  | AFresh m => max - lo < hi - lo + n /\ m = hi - lo + n
  end.
Proof.
  intros Hn H. destruct (cti_slice3_len_cap _ _ _ _ _ H) as [L [C _]].
  destruct (cti_slice3_reach _ _ _ _ _ H) as [R1 [R2 _]]. unfold reach_lo, reach_hi in *.
  unfold cti_len, cti_cap in *. unfold cti_append, r_append.
  destruct (d_len r + n <=? d_cap r) eqn:E; zb; simpl; lia.
Qed.

(* C34 -- property theorems (static part): each closed by [exact lemma], followed by Print Assumptions.
   The theorems over the table regenerated from xreflect/cti_basic_method.go are in PropsGen.v
   (compiled on every run after the translator). *)
From Coq Require Import ZArith List Bool.
From Verif Require Import Common.GoInt Common.GoStr GoLite.Syntax GoLite.Sem GoLite.Templates C34.Model C34.Proof C34.ContModel C34.ContProof.
Import ListNotations.
Open Scope Z_scope.

(* For every kind k and method m that the kind's category has, the closure the checker expects under
   case r.k / case "m" computes -- for ALL arguments of the parameter types, receiver z ignored -- the Go
   operator named m at kind k.  F and the f* operators are an arbitrary interpretation of float/complex
   arithmetic: for float kinds the statement is "the closure applies the Go operator of that name". *)
Theorem C34_closure_sound :
  forall F fbin fcmp fun1 fconv fpart fofbits k m sh args le s,
    shape_of k m = Some sh ->
    bind_params F (c_params (closure_of_shape k sh)) args = Some le ->
    denote F fbin fcmp fun1 fconv fpart fofbits 0 [] (closure_of_shape k sh) args s
    = pack F s (spec_of_shape F fbin fcmp fun1 fpart k sh args).
Proof. exact shape_sound. Qed.
Print Assumptions C34_closure_sound.

(* soundness of the boolean checker that is run on every regenerated table row *)
Theorem C34_entry_ok_sound :
  forall F fbin fcmp fun1 fconv fpart fofbits e, entry_ok e = true ->
    exists k m sh, classify (e_path e) = Some (k, m) /\ shape_of k m = Some sh /\
      forall args le s, bind_params F (e_params e) args = Some le ->
        denote F fbin fcmp fun1 fconv fpart fofbits 0 [] (closure_of e) args s
        = pack F s (spec_of_shape F fbin fcmp fun1 fpart k sh args).
Proof. exact entry_ok_sound. Qed.
Print Assumptions C34_entry_ok_sound.

(* Cmp on integers is the three-way comparison -1 / 0 / 1 *)
Theorem C34_cmp_three_way :
  forall F fbin fcmp k x y, is_integer k = true ->
    cmp_spec F fbin fcmp k (VInt k x) (VInt k y) = Ok (VInt GInt (GoInt.cmp3 x y)).
Proof. exact cmp_spec_int. Qed.
Print Assumptions C34_cmp_three_way.

(* the hypotheses are satisfiable and the statement is not vacuous: int8 Add wraps, Quo by zero panics,
   the receiver is ignored *)
Example C34_example_add_wraps :
  spec_of_shape unit ubin ucmp uun upart GInt8 (ShBin Add) [VInt GInt8 55; VInt GInt8 127; VInt GInt8 1]
  = Ok (VInt GInt8 (-128)).
Proof. reflexivity. Qed.
Example C34_example_quo_zero :
  spec_of_shape unit ubin ucmp uun upart GUint16 (ShBin Quo) [VInt GUint16 0; VInt GUint16 7; VInt GUint16 0]
  = Panic PDiv0.
Proof. reflexivity. Qed.
Example C34_example_denote :
  denote unit ubin ucmp uun uconv upart ubits 0 [] (closure_of_shape GInt16 ShCmp) [VInt GInt16 (-3); VInt GInt16 9] []
  = Ok ([VInt GInt (-1)], []).
Proof. reflexivity. Qed.

(* ---- container methods of xreflect/cti_method.go on slices (model ContModel.v, tied to the code by the
   correspondence run on the implementation's own reflect.Values) ---- *)

(* x.Slice3(lo, hi, max) succeeds exactly on Go's index range 0 <= lo <= hi <= max <= cap(x) and is Go's
   x[lo:hi:max]: same array, offset +lo, length hi-lo, CAPACITY max-lo; otherwise it panics *)
Theorem C34_slice3_is_go_slice3 : forall s lo hi max,
  (in_range3 s lo hi max -> exists r, cti_slice3 s lo hi max = COk r /\ go_slice3 s lo hi max r)
  /\ (~ in_range3 s lo hi max -> cti_slice3 s lo hi max = CPanic).
Proof. exact cti_slice3_spec. Qed.
Print Assumptions C34_slice3_is_go_slice3.

Theorem C34_slice_is_go_slice : forall s lo hi,
  (in_range2 s lo hi -> exists r, cti_slice s lo hi = COk r /\ go_slice s lo hi r)
  /\ (~ in_range2 s lo hi -> cti_slice s lo hi = CPanic).
Proof. exact cti_slice_spec. Qed.
Print Assumptions C34_slice_is_go_slice.

(* what Len() and Cap() report on the result of Slice3 *)
Theorem C34_slice3_len_cap : forall s lo hi max r,
  cti_slice3 s lo hi max = COk r -> cti_len r = hi - lo /\ cti_cap r = max - lo /\ 0 <= cti_len r <= cti_cap r.
Proof. exact cti_slice3_len_cap. Qed.
Print Assumptions C34_slice3_len_cap.

(* the purpose of the third index: the result can reach (by re-slicing) exactly the elements [lo, max) of x *)
Theorem C34_slice3_reach : forall s lo hi max r,
  cti_slice3 s lo hi max = COk r -> reach_lo r = d_off s + lo /\ reach_hi r = d_off s + max /\ reach_hi r <= reach_hi s.
Proof. exact cti_slice3_reach. Qed.
Print Assumptions C34_slice3_reach.

(* ... and Append on it writes into x only below index max: in place iff hi-lo+n <= max-lo, else a new array *)
Theorem C34_append_after_slice3 : forall s lo hi max r n, 0 <= n ->
  cti_slice3 s lo hi max = COk r ->
  match cti_append r n with
  | AAlias q => hi - lo + n <= max - lo /\ d_off q = d_off s + lo /\ d_off q + d_len q <= d_off s + max /\ d_cap q = max - lo
  | AFresh m => max - lo < hi - lo + n /\ m = hi - lo + n
  end.
Proof. exact append_after_slice3. Qed.
Print Assumptions C34_append_after_slice3.

Example C34_example_slice3 :
  cti_slice3 (mkD 0 8 8) 2 5 7 = COk (mkD 2 3 5)
  /\ cti_append (mkD 2 3 5) 2 = AAlias (mkD 2 5 5) /\ cti_append (mkD 2 3 5) 3 = AFresh 6
  /\ cti_slice3 (mkD 0 8 8) 2 5 9 = CPanic /\ cti_slice (mkD 2 3 5) 0 5 = COk (mkD 2 5 5).
Proof. vm_compute. repeat split. Qed.

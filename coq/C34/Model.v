(* C34 -- generic-contract (CTI) methods on the basic types: xreflect/cti_basic_method.go.
   Executable definitions only (no proofs here).
   The table of closures is regenerated from the source on every run by translators/tr_golite
   (build/C34/Gen_cti_basic_method.v); this file says, for a row found under
        switch xt.kind { case r.K: for ... { switch xt.Method(i).Name { case "M": <closure> } } }
   which closure is expected there (closure_of_shape) and which Go operator it has to be (spec_of_shape). *)
From Coq Require Import ZArith List Bool.
From Verif Require Import Common.GoInt Common.GoStr GoLite.Syntax GoLite.Sem.
Import ListNotations.
Open Scope Z_scope.

(* where a row sits: (kind, method name) *)
Definition classify (p : list pcond) : option (gokind * sname) :=
  match p with
  | [PCase (ESel (EVar V_xt) F_kind) [EKindLit k]; PLoop;
     PCase (ESel (ECall1 (EMeth (EVar V_xt) M_Method) (EVar V_i)) F_Name) [EStr m]] => Some (k, m)
  | _ => None
  end.

Inductive shape :=
  | ShBin (op : binop)      (* func(z, a, b T) T { return a op b } *)
  | ShShift (op : binop)    (* func(z, a T, b uint8) T { return a op b } *)
  | ShUn (op : unop)        (* func(z, a T) T { return op a } *)
  | ShRel (op : binop)      (* func(a, b T) bool { return a op b } *)
  | ShCmp                   (* func(a, b T) int { if a < b { return -1 }; if a > b { return 1 }; return 0 } *)
  | ShPart (g : gname)      (* func(a T) F { return real(a) } *)
  | ShIndex | ShLen | ShSlice.

Definition numeric (k : gokind) : bool := is_integer k || is_float k || is_complex k.
Definition ordered (k : gokind) : bool :=
  is_integer k || is_float k || match k with GString => true | _ => false end.

(* which method a kind has, and its shape: the Go operator of that name, defined for that kind *)
Definition shape_of (k : gokind) (m : sname) : option shape :=
  match m with
  | S_Equal => Some (ShRel Eql)
  | S_Less => if ordered k then Some (ShRel Lss) else None
  | S_Cmp => if ordered k then Some ShCmp else None
  | S_Add => if numeric k || match k with GString => true | _ => false end then Some (ShBin Add) else None
  | S_Sub => if numeric k then Some (ShBin Sub) else None
  | S_Mul => if numeric k then Some (ShBin Mul) else None
  | S_Quo => if numeric k then Some (ShBin Quo) else None
  | S_Neg => if numeric k then Some (ShUn Neg) else None
  | S_Rem => if is_integer k then Some (ShBin Rem) else None
  | S_And => if is_integer k then Some (ShBin And) else None
  | S_AndNot => if is_integer k then Some (ShBin AndNot) else None
  | S_Or => if is_integer k then Some (ShBin Or) else None
  | S_Xor => if is_integer k then Some (ShBin Xor) else None
  | S_Not => if is_integer k then Some (ShUn Compl) else match k with GBool => Some (ShUn LNot) | _ => None end
  | S_Lsh => if is_integer k then Some (ShShift Shl) else None
  | S_Rsh => if is_integer k then Some (ShShift Shr) else None
  | S_Real => if is_complex k then Some (ShPart G_real) else None
  | S_Imag => if is_complex k then Some (ShPart G_imag) else None
  | S_Index => match k with GString => Some ShIndex | _ => None end
  | S_Len => match k with GString => Some ShLen | _ => None end
  | S_Slice => match k with GString => Some ShSlice | _ => None end
  | _ => None
  end.

Definition all_methods : list sname :=
  [S_Equal; S_Cmp; S_Less; S_Add; S_Sub; S_Mul; S_Quo; S_Rem; S_Neg; S_And; S_AndNot; S_Or; S_Xor; S_Not;
   S_Lsh; S_Rsh; S_Real; S_Imag; S_Index; S_Len; S_Slice].

Definition va := EVar V_a.
Definition vb := EVar V_b.

Definition closure_of_shape (k : gokind) (sh : shape) : closure :=
  let T := TK k in
  match sh with
  | ShBin op => mkClosure [] [(V_z, T); (V_a, T); (V_b, T)] [T] (SReturn (EBin op va vb))
  | ShShift op => mkClosure [] [(V_z, T); (V_a, T); (V_b, TK GUint8)] [T] (SReturn (EBin op va vb))
  | ShUn op => mkClosure [] [(V_z, T); (V_a, T)] [T] (SReturn (EUn op va))
  | ShRel op => mkClosure [] [(V_a, T); (V_b, T)] [TK GBool] (SReturn (EBin op va vb))
  | ShCmp => mkClosure [] [(V_a, T); (V_b, T)] [TK GInt]
      (SSeq (SIf (EBin Lss va vb) (SReturn (EUn Neg (ELit 1))) SSkip)
      (SSeq (SIf (EBin Gtr va vb) (SReturn (ELit 1)) SSkip)
            (SReturn (ELit 0))))
  | ShPart g => mkClosure [] [(V_a, T)] [TK (part_kind k)] (SReturn (ECall1 (EGlob g) va))
  | ShIndex => mkClosure [] [(V_a, T); (V_b, TK GInt)] [TK GUint8] (SReturn (EIndex va vb))
  | ShLen => mkClosure [] [(V_a, T)] [TK GInt] (SReturn (ECall1 (EGlob G_len) va))
  | ShSlice => mkClosure [] [(V_a, T); (V_b, TK GInt); (V_c, TK GInt)] [T] (SReturn (ESlice va vb (EVar V_c)))
  end.

(* the checker run on every regenerated row *)
Definition entry_ok (e : entry) : bool :=
  match e_func e, classify (e_path e) with
  | FN_addBasicTypeMethodsCTI, Some (k, m) =>
      match shape_of k m with
      | Some sh => closure_beq (closure_of e) (closure_of_shape k sh)
      | None => false
      end
  | _, _ => false
  end.

(* every kind has every method of its category *)
Definition has_row (table : list entry) (k : gokind) (m : sname) : bool :=
  existsb (fun e => match classify (e_path e) with
                    | Some (k', m') => gokind_beq k k' && sname_beq m m'
                    | None => false end) table.
Definition coverage_ok (table : list entry) : bool :=
  forallb (fun k => forallb (fun m => match shape_of k m with Some _ => has_row table k m | None => true end) all_methods) all_kinds.

Section Spec.
  Variable F : Type.
  Variable fbin : gokind -> binop -> F -> F -> F.
  Variable fcmp : gokind -> binop -> F -> F -> bool.
  Variable fun1 : gokind -> unop -> F -> F.
  Variable fconv : gokind -> gokind -> F -> F.
  Variable fpart : gokind -> bool -> F -> F.
  Variable fofbits : gokind -> Z -> Z -> F.

  Notation value := (value F).
  Notation go_binop := (go_binop F fbin fcmp).
  Notation go_unop := (go_unop F fun1).

  (* three-way comparison from the Go operators < and > of kind k *)
  Definition cmp_spec (k : gokind) (a b : value) : res value :=
    match go_binop k Lss a b with
    | Ok (VBool true) => Ok (VInt GInt (-1))
    | Ok (VBool false) =>
        match go_binop k Gtr a b with
        | Ok (VBool true) => Ok (VInt GInt 1)
        | Ok (VBool false) => Ok (VInt GInt 0)
        | Ok _ => Stuck
        | r => r
        end
    | Ok _ => Stuck
    | r => r
    end.

  (* THE specification: the Go operator named by the method, at kind k; the receiver z is ignored *)
  Definition spec_of_shape (k : gokind) (sh : shape) (args : list value) : res value :=
    match sh, args with
    | ShBin op, [z; a; b] => go_binop k op a b
    | ShShift op, [z; a; b] => go_shift F k op a b
    | ShUn op, [z; a] => go_unop op a
    | ShRel op, [a; b] => go_binop k op a b
    | ShCmp, [a; b] => cmp_spec k a b
    | ShPart g, [a] => gcall1 F fpart g a
    | ShIndex, [VStr s; VInt GInt i] => str_index F s i
    | ShLen, [VStr s] => Ok (VInt GInt (Z.of_nat (length s)))
    | ShSlice, [VStr s; VInt GInt lo; VInt GInt hi] => str_slice F s lo hi
    | _, _ => Stuck
    end.

  Definition denote_row (e : entry) (args : list value) : res value :=
    match denote F fbin fcmp fun1 fconv fpart fofbits 0 [] (closure_of e) args [] with
    | Ok ([v], _) => Ok v
    | Ok _ => Stuck
    | Panic p => Panic p
    | Stuck => Stuck
    | OutOfFuel => OutOfFuel
    end.
End Spec.

(* ---------------------------------------------------------------- correspondence run (integers, bools, strings) *)
(* floats never occur in these cases, so the abstract float carrier is instantiated with unit *)
Definition uval := value unit.
Definition ubin (_ : gokind) (_ : binop) (_ _ : unit) := tt.
Definition ucmp (_ : gokind) (_ : binop) (_ _ : unit) := false.
Definition uun (_ : gokind) (_ : unop) (_ : unit) := tt.
Definition uconv (_ _ : gokind) (_ : unit) := tt.
Definition upart (_ : gokind) (_ : bool) (_ : unit) := tt.
Definition ubits (_ : gokind) (_ _ : Z) := tt.

Inductive obs := ObsVal (v : uval) | ObsPanic (p : panic).
Record case := mkCase { c_idx : Z; c_kind : gokind; c_meth : sname; c_args : list uval; c_obs : obs }.

Definition uval_eqb (a b : uval) : bool :=
  match a, b with
  | VBool x, VBool y => Bool.eqb x y
  | VInt k x, VInt k' y => gokind_beq k k' && (x =? y)
  | VStr x, VStr y => str_eqb x y
  | _, _ => false
  end.
Definition panic_eqb (a b : panic) : bool :=
  match a, b with
  | PDiv0, PDiv0 | PNegShift, PNegShift | PIndex, PIndex | PNil, PNil | POther, POther => true
  | _, _ => false
  end.
Definition obs_matches (r : res uval) (o : obs) : bool :=
  match r, o with
  | Ok v, ObsVal w => uval_eqb v w
  | Panic p, ObsPanic q => panic_eqb p q
  | _, _ => false
  end.

Definition find_row (table : list entry) (k : gokind) (m : sname) : option entry :=
  find (fun e => match classify (e_path e) with
                 | Some (k', m') => gokind_beq k k' && sname_beq m m'
                 | None => false end) table.

(* a case agrees when BOTH the denotation of the regenerated row and the specification reproduce the observation *)
Definition case_ok (table : list entry) (c : case) : bool :=
  match find_row table (c_kind c) (c_meth c), shape_of (c_kind c) (c_meth c) with
  | Some e, Some sh =>
      obs_matches (denote_row unit ubin ucmp uun uconv upart ubits e (c_args c)) (c_obs c)
      && obs_matches (spec_of_shape unit ubin ucmp uun upart (c_kind c) sh (c_args c)) (c_obs c)
  | _, _ => false
  end.
Definition mismatches (table : list entry) (cs : list case) : list Z :=
  map c_idx (filter (fun c => negb (case_ok table c)) cs).

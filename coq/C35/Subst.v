(* C35 — injectBinds = textual substitution *)
From Coq Require Import List NArith ZArith Bool Arith Lia.
From Verif Require Import C29.Model C29.Proof C35.Model C35.Proof.
Import ListNotations.

Lemma subst_func : forall sg ins outs, subst sg (TyFunc ins outs) = TyFunc (map (subst sg) ins) (map (subst sg) outs).
Proof.
  intros. reflexivity.
Qed.
Lemma subst_inst : forall sg g args, subst sg (TyInst g args) = TyInst g (map (subst sg) args).
Proof. intros. reflexivity. Qed.
Lemma subst_struct : forall sg fs, subst sg (TyStruct fs) = TyStruct (map (fun p => (fst p, subst sg (snd p))) fs).
Proof. intros. simpl. f_equal. induction fs as [|[n x] fs IH]; simpl; f_equal; auto. Qed.

Lemma res_list_ext : forall r r' (f : ty -> ty) l, Forall (fun x => forall s, r x s = r' (f x) s) l ->
  forall s, res_list r l s = res_list r' (map f l) s.
Proof.
  induction 1 as [|x l Hx Hl IH]; intros s; simpl; [reflexivity|].
  rewrite Hx. destruct (r' (f x) s) as [[s1 c]|]; [|reflexivity]. rewrite IH. reflexivity.
Qed.
Lemma res_fields_ext : forall r r' (f : ty -> ty) l, Forall (fun p => forall s, r (snd p) s = r' (f (snd p)) s) l ->
  forall s, res_fields r l s = res_fields r' (map (fun p => (fst p, f (snd p))) l) s.
Proof.
  induction 1 as [|[n x] l Hx Hl IH]; intros s; simpl; [reflexivity|].
  simpl in Hx. rewrite Hx. destruct (as_type (r' (f x) s)) as [[s1 c]|]; [|reflexivity]. rewrite IH. reflexivity.
Qed.

Section substitution.
  Variable ds : list decl.
  Variable f : nat.
  Variable sc : scope.               (* the fresh scope: parameters bound to the resolved arguments *)
  Variable sg : list (N * ty).       (* the textual substitution: parameters bound to the argument expressions *)

  (* capture-freedom / stability: wherever the body mentions a parameter, compiling the argument expression instead
     (at package level, in any state reached meanwhile) yields the very object the parameter is bound to and changes
     nothing.  For an argument without generic references this is immediate; for Name#[...] it is memoisation. *)
  Hypothesis bound : forall x a, tassoc x sg = Some a ->
    exists c, assoc x sc = Some c /\ forall xp s, resolve (S f) ds xp [] a s = Some (s, c).
  (* the fresh scope binds nothing but the parameters (shadowing: a parameter hides an outer name in both readings) *)
  Hypothesis unbound : forall x, tassoc x sg = None -> assoc x sc = None.
  (* the type names of constant arguments are not parameters *)

  Lemma name_case : forall xp x s, resolve (S f) ds xp sc (TyName x) s = resolve (S f) ds xp [] (subst sg (TyName x)) s.
  Proof.
    intros. simpl subst. destruct (tassoc x sg) as [a|] eqn:E.
    - destruct (bound x a E) as [c [Ha Hr]]. rewrite Hr. rewrite resolve_S. unfold resolve_name. rewrite Ha. reflexivity.
    - rewrite !resolve_S. unfold resolve_name. rewrite (unbound x E). reflexivity.
  Qed.

  Fixpoint no_param_const (t : ty) : Prop :=
    let all := fix all (l : list ty) : Prop := match l with [] => True | x :: l' => no_param_const x /\ all l' end in
    match t with
    | TyName _ => True
    | TyConst tn _ => tassoc tn sg = None
    | TyPtr e | TySlice e | TyChan e => no_param_const e
    | TyArray n e | TyMap n e => no_param_const n /\ no_param_const e
    | TyFunc ins outs => all ins /\ all outs
    | TyStruct fs => (fix allf (l : list (N * ty)) : Prop := match l with [] => True | p :: l' => no_param_const (snd p) /\ allf l' end) fs
    | TyInst _ args => all args
    end.

  Lemma all_Forall : forall l,
    (fix all (l : list ty) : Prop := match l with [] => True | x :: l' => no_param_const x /\ all l' end) l ->
    Forall no_param_const l.
  Proof. induction l; simpl; intros; constructor; tauto. Qed.

  Lemma alias_is_substitution : forall t, no_param_const t ->
    forall xp s, resolve (S f) ds xp sc t s = resolve (S f) ds xp [] (subst sg t) s.
  Proof.
    induction t using ty_ind_nested; intros NP xp s.
    - apply name_case.
    - simpl in NP. simpl subst. rewrite !resolve_S. unfold resolve_name. rewrite (unbound t NP). reflexivity.
    - simpl subst. rewrite !resolve_S. cbv zeta. rewrite IHt by exact NP. reflexivity.
    - simpl subst. rewrite !resolve_S. cbv zeta. rewrite IHt by exact NP. reflexivity.
    - simpl subst. rewrite !resolve_S. cbv zeta. rewrite IHt by exact NP. reflexivity.
    - destruct NP as [N1 N2]. simpl subst. rewrite !resolve_S. cbv zeta. rewrite IHt1 by exact N1.
      destruct (resolve (S f) ds false [] (subst sg t1) s) as [[s1 [c1|c1 len]]|]; try reflexivity.
      rewrite IHt2 by exact N2. reflexivity.
    - destruct NP as [N1 N2]. simpl subst. rewrite !resolve_S. cbv zeta. rewrite IHt1 by exact N1.
      destruct (as_type (resolve (S f) ds false [] (subst sg t1) s)) as [[s1 c1]|]; try reflexivity.
      rewrite IHt2 by exact N2. reflexivity.
    - destruct NP as [N1 N2]. apply all_Forall in N1. apply all_Forall in N2.
      rewrite subst_func. rewrite !resolve_S. cbv zeta.
      rewrite (res_list_ext _ (resolve (S f) ds false []) (subst sg) ins).
      2:{ rewrite Forall_forall in *. intros x Hx s0. apply H; auto. }
      destruct (res_list _ (map (subst sg) ins) s) as [[s1 ci]|]; [|reflexivity].
      rewrite (res_list_ext _ (resolve (S f) ds false []) (subst sg) outs).
      2:{ rewrite Forall_forall in *. intros x Hx s0. apply H0; auto. }
      reflexivity.
    - rewrite subst_struct. rewrite !resolve_S. cbv zeta.
      rewrite (res_fields_ext _ (resolve (S f) ds false []) (subst sg) fs); [reflexivity|].
      simpl in NP. clear -H NP. induction fs as [|p fs IH]; constructor.
      + inversion H; subst. intros s0. apply H2. tauto.
      + apply IH; [inversion H; assumption|tauto].
    - simpl in NP. apply all_Forall in NP. rewrite subst_inst. rewrite !resolve_S. cbv zeta.
      rewrite (res_list_ext _ (resolve (S f) ds false []) (subst sg) args).
      2:{ rewrite Forall_forall in *. intros x Hx s0. apply H; auto. }
      reflexivity.
  Qed.
End substitution.

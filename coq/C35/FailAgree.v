(* C35 — the model with failures (FailModel.resolveE) restricted to successful compilations IS the model without
   (Model.resolve), when every declaration is available from the start and none is a plain late declaration:
   the theorems about [resolve] (memoisation, alias = substitution) speak about the successful runs of [resolveE]. *)
From Coq Require Import List NArith ZArith Bool Arith.
From Verif Require Import C29.Model C35.Model C35.Proof C35.FailModel C35.FailProof.
Import ListNotations.

Definition erase {A} (r : res A) : option (st * A) := match r with Ok s a => Some (s, a) | Err _ => None end.

Definition all_declared (ds : list decl) (av : list bool) : Prop :=
  forall g d, nth_error ds g = Some d -> is_avail av g = true /\ N.eqb (dkind d) 3 = false.

Lemma erase_as_typeE : forall r, erase (as_typeE r) = as_type (erase r).
Proof. intros [s [t|t v]|s]; reflexivity. Qed.

Section lists.
  Variable rE : ty -> st -> res carg.
  Variable r : ty -> st -> option (st * carg).

  Lemma res_listE_agrees : forall l, Forall (fun x => forall s, erase (rE x s) = r x s) l ->
    forall s, erase (res_listE rE l s) = res_list r l s.
  Proof.
    induction 1 as [|x l Hx Hl IH]; intros s; simpl; [reflexivity|].
    rewrite <- Hx. destruct (rE x s) as [s1 c|s1]; simpl; [|reflexivity].
    rewrite <- IH. destruct (res_listE rE l s1); reflexivity.
  Qed.

  Lemma res_fieldsE_agrees : forall l, Forall (fun p => forall s, erase (rE (snd p) s) = r (snd p) s) l ->
    forall s, erase (res_fieldsE rE l s) = res_fields r l s.
  Proof.
    induction 1 as [|[n x] l Hx Hl IH]; intros s; simpl; [reflexivity|].
    simpl in Hx. rewrite <- Hx. rewrite <- erase_as_typeE. destruct (as_typeE (rE x s)) as [s1 c|s1]; simpl; [|reflexivity].
    rewrite <- IH. destruct (res_fieldsE rE l s1); reflexivity.
  Qed.

  Lemma res_refsE_agrees : forall l, (forall x s, erase (rE x s) = r x s) ->
    forall s, match res_refsE rE l s with Ok s' _ => Some s' | Err _ => None end = res_refs r l s.
  Proof.
    induction l as [|x l IH]; intros H s; simpl; [reflexivity|].
    rewrite <- H. destruct (rE x s) as [s1 c|s1]; simpl; [|reflexivity]. apply IH. exact H.
  Qed.
End lists.

Lemma instantiateE_agrees : forall recE recxE rec recx ds g cargs s,
  (forall sc t s, erase (recE sc t s) = rec sc t s) ->
  (forall sc t s, erase (recxE sc t s) = recx sc t s) ->
  (forall d, nth_error ds g = Some d -> N.eqb (dkind d) 3 = false) ->
  erase (instantiateE recE recxE ds g cargs s) = instantiate rec recx ds g cargs s.
Proof.
  intros recE recxE rec recx ds g cargs s Hrec Hrecx Hk. unfold instantiateE, instantiate.
  destruct (nth_error ds g) as [d|]; [|reflexivity].
  rewrite (Hk d eq_refl).
  destruct (negb (length (dparams d) =? length cargs)); [reflexivity|].
  destruct (lookup s g (key_of cargs)); [reflexivity|].
  destruct (N.eqb (dkind d) 1).
  { rewrite <- Hrec. rewrite <- erase_as_typeE. destruct (as_typeE _); reflexivity. }
  destruct (N.eqb (dkind d) 0).
  { simpl. rewrite <- Hrec. destruct (recE _ _ _); reflexivity. }
  rewrite <- Hrec. destruct (recE _ _ _) as [s1 c|s1]; [|reflexivity]. simpl.
  rewrite <- (res_refsE_agrees (recxE (inject (dparams d) cargs)) (recx (inject (dparams d) cargs)) (drefs d)
                (fun x s => Hrecx _ x s)).
  destruct (res_refsE _ _ _); reflexivity.
Qed.

Lemma is_funcE_eq : forall ds g, (forall d, nth_error ds g = Some d -> N.eqb (dkind d) 3 = false) ->
  is_funcE ds g = is_func ds g.
Proof.
  intros ds g H. unfold is_funcE, is_func. destruct (nth_error ds g) as [d|]; [|reflexivity].
  rewrite (H d eq_refl). rewrite orb_false_r. reflexivity.
Qed.

Lemma resolveE_agrees : forall ds av, all_declared ds av ->
  forall fuel xp sc t s, erase (resolveE fuel ds av xp sc t s) = resolve fuel ds xp sc t s.
Proof.
  intros ds av AD. induction fuel as [|f IHf]; [reflexivity|].
  intros xp sc t. revert xp.
  induction t using ty_ind_nested; intros xp s; rewrite resolveE_S, resolve_S; cbv zeta.
  - reflexivity.
  - destruct (resolve_name sc t); reflexivity.
  - rewrite <- IHt. rewrite <- erase_as_typeE. destruct (as_typeE _); reflexivity.
  - rewrite <- IHt. rewrite <- erase_as_typeE. destruct (as_typeE _); reflexivity.
  - rewrite <- IHt. rewrite <- erase_as_typeE. destruct (as_typeE _); reflexivity.
  - rewrite <- IHt1. destruct (resolveE (S f) ds av false sc t1 s) as [s1 [c1|c1 len]|s1]; cbn [erase]; try reflexivity.
    rewrite <- IHt2. rewrite <- erase_as_typeE. destruct (as_typeE _); reflexivity.
  - rewrite <- IHt1. rewrite <- erase_as_typeE.
    destruct (as_typeE (resolveE (S f) ds av false sc t1 s)) as [s1 c1|s1]; cbn [erase]; [|reflexivity].
    rewrite <- IHt2. rewrite <- erase_as_typeE. destruct (as_typeE _); reflexivity.
  - rewrite <- (res_listE_agrees (resolveE (S f) ds av false sc) (resolve (S f) ds false sc) ins (fa_false _ _ _ H)).
    destruct (res_listE _ ins s) as [s1 ci|s1]; cbn [erase]; [|reflexivity].
    rewrite <- (res_listE_agrees (resolveE (S f) ds av false sc) (resolve (S f) ds false sc) outs (fa_false _ _ _ H0)).
    destruct (res_listE _ outs s1) as [s2 co|s2]; cbn [erase]; [|reflexivity].
    destruct (all_types ci); [destruct (all_types co)|]; reflexivity.
  - rewrite <- (res_fieldsE_agrees (resolveE (S f) ds av false sc) (resolve (S f) ds false sc) fs (fa_false _ _ _ H)).
    destruct (res_fieldsE _ fs s); reflexivity.
  - rewrite <- (res_listE_agrees (resolveE (S f) ds av false sc) (resolve (S f) ds false sc) args (fa_false _ _ _ H)).
    destruct (nth_error ds g) as [d|] eqn:Hd.
    + destruct (AD g d Hd) as [Hav Hk3]. rewrite Hav. cbn [erase negb].
      assert (Hk : forall d0, nth_error ds g = Some d0 -> N.eqb (dkind d0) 3 = false) by (intros d0 E; congruence).
      rewrite (is_funcE_eq ds g Hk).
      destruct (is_func ds g && negb xp); [reflexivity|].
      destruct (res_listE _ args s) as [s1 cargs|s1]; cbn [erase]; [|reflexivity].
      rewrite <- (instantiateE_agrees (resolveE f ds av false) (resolveE f ds av true) (resolve f ds false) (resolve f ds true)
                    ds g cargs s1 (fun sc0 t0 s0 => IHf false sc0 t0 s0) (fun sc0 t0 s0 => IHf true sc0 t0 s0) Hk).
      destruct (instantiateE _ _ ds g cargs s1); reflexivity.
    + assert (HfE : is_funcE ds g = false) by (unfold is_funcE; rewrite Hd; reflexivity).
      assert (Hf : is_func ds g = false) by (unfold is_func; rewrite Hd; reflexivity).
      rewrite HfE, Hf. cbn [erase negb].
      assert (R : forall s1 cargs, instantiate (resolve f ds false) (resolve f ds true) ds g cargs s1 = None)
        by (intros; unfold instantiate; rewrite Hd; reflexivity).
      assert (RE : forall s1 cargs, erase (instantiateE (resolveE f ds av false) (resolveE f ds av true) ds g cargs s1) = None)
        by (intros; unfold instantiateE; rewrite Hd; reflexivity).
      destruct (negb (is_avail av g)); cbn [erase negb].
      * destruct (res_listE _ args s) as [s1 cargs|s1]; cbn [erase]; [rewrite R|]; reflexivity.
      * destruct (res_listE _ args s) as [s1 cargs|s1]; cbn [erase]; [|reflexivity].
        rewrite R. specialize (RE s1 cargs). destruct (instantiateE _ _ ds g cargs s1); [discriminate|reflexivity].
Qed.

(* C35 — lemmas about failing instantiations (model: FailModel.v) *)
From Coq Require Import List NArith ZArith Bool Arith Lia.
From Verif Require Import C29.Model C35.Model C35.Proof C35.FailModel.
Import ListNotations.

(* ---------------------------------------------------------------- delete(Instances, key) *)
Lemma remove_length : forall s g k, length (caches (remove s g k)) = length (caches s).
Proof. intros. unfold remove. simpl. apply set_nth_length. Qed.

Lemma set_nth_overflow : forall A (l : list A) i x, length l <= i -> set_nth l i x = l.
Proof.
  induction l as [|y l IH]; intros i x H; simpl; [reflexivity|].
  destruct i; simpl in H; [lia|]. f_equal. apply IH. lia.
Qed.

Lemma lookup_remove : forall s g k g' k',
  lookup (remove s g k) g' k' = if Nat.eqb g g' && key_eqb k k' then None else lookup s g' k'.
Proof.
  intros. unfold lookup, cache_of, remove. simpl.
  destruct (Nat.eqb g g') eqn:Eg.
  - apply Nat.eqb_eq in Eg. subst g'. simpl.
    destruct (Nat.lt_ge_cases g (length (caches s))) as [Hlt|Hge].
    + rewrite nth_set_nth_same by assumption. apply clookup_cremove.
    + rewrite set_nth_overflow by assumption. rewrite nth_overflow by assumption. simpl.
      destruct (key_eqb k k'); reflexivity.
  - apply Nat.eqb_neq in Eg. simpl. rewrite nth_set_nth_other by assumption. reflexivity.
Qed.

Lemma lookup_remove_same : forall s g k, lookup (remove s g k) g k = None.
Proof. intros. rewrite lookup_remove. rewrite Nat.eqb_refl, key_eqb_refl. reflexivity. Qed.

Lemma keeps_remove : forall ds s0 s2 g k, keeps ds s0 s2 -> lookup s0 g k = None -> keeps ds s0 (remove s2 g k).
Proof.
  intros ds s0 s2 g k [L K] Hn. split; [rewrite remove_length; exact L|].
  intros g' d k' v Hd Hk Hl. rewrite lookup_remove.
  destruct (Nat.eqb g g' && key_eqb k k') eqn:E.
  - apply andb_true_iff in E. destruct E as [E1 E2]. apply Nat.eqb_eq in E1. apply key_eqb_eq in E2. subst. congruence.
  - eapply K; eauto.
Qed.

Lemma same_funcs_remove : forall ds s g k, is_func ds g = false -> same_funcs ds s (remove s g k).
Proof.
  intros ds s g k Hg g' Hg'. unfold cache_of, remove. simpl.
  rewrite nth_set_nth_other; [reflexivity|]. intros ->. congruence.
Qed.

Lemma state_of_as_typeE : forall r, state_of (as_typeE r) = state_of r.
Proof. intros [s [t|t v]|s]; reflexivity. Qed.

(* ---------------------------------------------------------------- T1: the failed instantiation is rolled back *)
(* whatever the compilation of the body does (arbitrary [rec], [recx]): when the instantiation of (g, cargs) fails,
   its key is absent from the cache of g afterwards, exactly as before the attempt *)
Lemma instantiateE_err_rolled_back : forall rec recx ds g cargs s s',
  lookup s g (key_of cargs) = None ->
  instantiateE rec recx ds g cargs s = Err s' ->
  lookup s' g (key_of cargs) = None.
Proof.
  intros rec recx ds g cargs s s' Hn H. unfold instantiateE in H.
  destruct (nth_error ds g) as [d|]; [|injection H as <-; exact Hn].
  destruct (N.eqb (dkind d) 3).
  { destruct cargs; [discriminate|]. injection H as <-. exact Hn. }
  destruct (negb (length (dparams d) =? length cargs)); [injection H as <-; exact Hn|].
  rewrite Hn in H.
  destruct (N.eqb (dkind d) 1).
  { destruct (as_typeE _) as [s1 v|s1]; [discriminate|]. injection H as <-. apply lookup_remove_same. }
  destruct (N.eqb (dkind d) 0).
  { simpl in H. destruct (rec _ _ _) as [s1 c|s1]; [discriminate|]. injection H as <-. apply lookup_remove_same. }
  destruct (rec _ _ _) as [s1 c|s1]; [|injection H as <-; apply lookup_remove_same].
  simpl in H. destruct (res_refsE _ _ _) as [s3 u|s3]; [discriminate|]. injection H as <-. apply lookup_remove_same.
Qed.

(* and a later attempt in a state where the key is still absent does not see any leftover: it takes the
   "instantiate" branch again (stated on the one-step function: the result no longer depends on a cached value) *)
Lemma instantiateE_retry_recompiles : forall rec recx ds g d cargs s s1,
  nth_error ds g = Some d -> dkind d = 0%N -> length (dparams d) = length cargs ->
  lookup s g (key_of cargs) = None ->
  instantiateE rec recx ds g cargs s = Err s1 ->
  forall rec' recx', instantiateE rec' recx' ds g cargs s1 =
    let '(s0, id) := alloc s1 g (key_of cargs) in
    let v := TNamed (N.of_nat id) in
    match rec' (inject (dparams d) cargs) (dbody d) (store s0 g (key_of cargs) v) with
    | Ok s2 _ => Ok s2 v
    | Err s2 => Err (remove s2 g (key_of cargs))
    end.
Proof.
  intros rec recx ds g d cargs s s1 Hd K0 Hlen Hn H rec' recx'.
  pose proof (instantiateE_err_rolled_back _ _ _ _ _ _ _ Hn H) as Hn1.
  unfold instantiateE. rewrite Hd, K0, Hlen, Nat.eqb_refl. simpl. rewrite Hn1. reflexivity.
Qed.

(* ---------------------------------------------------------------- T3: the caches only grow, also across failures *)
Section listsE.
  Variable ds : list decl.
  Variable r : ty -> st -> res carg.
  Variable xp : bool.

  Lemma res_listE_good : forall l, Forall (fun x => forall s, G ds xp s (state_of (r x s))) l ->
    forall s, G ds xp s (state_of (res_listE r l s)).
  Proof.
    induction 1 as [|x l Hx Hl IH]; intros s; simpl.
    - apply G_refl.
    - specialize (Hx s). destruct (r x s) as [s1 c|s1]; simpl in *; [|exact Hx].
      specialize (IH s1). destruct (res_listE r l s1) as [s2 cs|s2]; simpl in *; eapply G_trans; eauto.
  Qed.

  Lemma res_fieldsE_good : forall l, Forall (fun p => forall s, G ds xp s (state_of (r (snd p) s))) l ->
    forall s, G ds xp s (state_of (res_fieldsE r l s)).
  Proof.
    induction 1 as [|[n x] l Hx Hl IH]; intros s; simpl.
    - apply G_refl.
    - simpl in Hx. specialize (Hx s). rewrite <- state_of_as_typeE in Hx.
      destruct (as_typeE (r x s)) as [s1 c|s1]; simpl in *; [|exact Hx].
      specialize (IH s1). destruct (res_fieldsE r l s1) as [s2 cs|s2]; simpl in *; eapply G_trans; eauto.
  Qed.

  Lemma res_refsE_good : forall l, (forall x s, G ds xp s (state_of (r x s))) ->
    forall s, G ds xp s (state_of (res_refsE r l s)).
  Proof.
    induction l as [|x l IH]; intros Hr s; simpl.
    - apply G_refl.
    - pose proof (Hr x s) as Hx. destruct (r x s) as [s1 c|s1]; simpl in *; [|exact Hx].
      eapply G_trans; [exact Hx|]. apply IH. exact Hr.
  Qed.
End listsE.

Lemma is_funcE_is_func : forall ds g d, nth_error ds g = Some d -> N.eqb (dkind d) 3 = false ->
  is_funcE ds g = false -> is_func ds g = false.
Proof.
  intros ds g d Hd K3 H. unfold is_funcE in H. unfold is_func. rewrite Hd in *. rewrite K3 in H.
  rewrite orb_false_r in H. exact H.
Qed.

Lemma instantiateE_good : forall ds rec recx,
  (forall sc t s, G ds false s (state_of (rec sc t s))) ->
  (forall sc t s, G ds true s (state_of (recx sc t s))) ->
  forall g cargs s, length (caches s) = length ds ->
  keeps ds s (state_of (instantiateE rec recx ds g cargs s)) /\
  (is_funcE ds g = false -> same_funcs ds s (state_of (instantiateE rec recx ds g cargs s))).
Proof.
  intros ds rec recx Hrec Hrecx g cargs s Hwf.
  assert (TRIV : keeps ds s s /\ (is_funcE ds g = false -> same_funcs ds s s)).
  { split; [apply keeps_refl|]. intros _ g' _. reflexivity. }
  unfold instantiateE.
  destruct (nth_error ds g) as [d|] eqn:Hd; [|exact TRIV].
  assert (Hlt : g < length (caches s)). { rewrite Hwf. apply nth_error_Some. congruence. }
  destruct (N.eqb (dkind d) 3) eqn:K3.
  { destruct cargs; exact TRIV. }
  destruct (negb (length (dparams d) =? length cargs)); [exact TRIV|].
  destruct (lookup s g (key_of cargs)) as [v0|] eqn:Hl; [exact TRIV|].
  pose proof (is_func_kind ds g d Hd) as Hf.
  pose proof (is_funcE_is_func ds g d Hd K3) as HfE.
  destruct (N.eqb (dkind d) 1) eqn:K1.
  - (* alias *)
    apply N.eqb_eq in K1.
    pose proof (Hrec (inject (dparams d) cargs) (dbody d) s Hwf) as E. rewrite <- state_of_as_typeE in E.
    destruct E as [Kp Fn].
    destruct (as_typeE _) as [s1 v1|s1]; simpl in *.
    + split.
      * eapply keeps_trans; [exact Kp|]. eapply keeps_store_alias; eauto.
      * intros Hnf g' Hg'. rewrite <- (Fn eq_refl g' Hg'). apply (same_funcs_store ds s1 g _ _ (HfE Hnf) g' Hg').
    + split.
      * apply keeps_remove; assumption.
      * intros Hnf g' Hg'. rewrite <- (Fn eq_refl g' Hg'). apply (same_funcs_remove ds s1 g _ (HfE Hnf) g' Hg').
  - destruct (N.eqb (dkind d) 0) eqn:K0.
    + (* generic type *)
      simpl. set (s0 := mkSt (caches s) (owners s ++ [(g, key_of cargs)])) in *.
      set (v0 := TNamed (N.of_nat (length (owners s)))) in *.
      assert (W0 : length (caches (store s0 g (key_of cargs) v0)) = length ds). { rewrite store_length. exact Hwf. }
      pose proof (Hrec (inject (dparams d) cargs) (dbody d) (store s0 g (key_of cargs) v0) W0) as E.
      destruct E as [Kp Fn].
      assert (Ks : keeps ds s (store s0 g (key_of cargs) v0)).
      { eapply keeps_trans with (b := s0); [split; [reflexivity|auto]|]. apply keeps_store_fresh; [exact Hlt|exact Hl]. }
      destruct (rec _ _ _) as [s1 c1|s1]; simpl in *.
      * split; [eapply keeps_trans; eauto|].
        intros Hnf g' Hg'. rewrite (Fn eq_refl g' Hg'). apply (same_funcs_store ds s0 g _ _ (HfE Hnf) g' Hg').
      * split; [apply keeps_remove; [eapply keeps_trans; eauto|exact Hl]|].
        intros Hnf g' Hg'. rewrite (same_funcs_remove ds s1 g _ (HfE Hnf) g' Hg').
        rewrite (Fn eq_refl g' Hg'). apply (same_funcs_store ds s0 g _ _ (HfE Hnf) g' Hg').
    + (* generic function *)
      assert (Hisf : is_func ds g = true). { rewrite Hf. reflexivity. }
      assert (HisfE : is_funcE ds g = false -> False).
      { intros HH. apply HfE in HH. congruence. }
      pose proof (Hrec (inject (dparams d) cargs) (dbody d) s Hwf) as E. destruct E as [Kp Fn].
      destruct (rec _ _ _) as [s1 c1|s1]; simpl in *.
      * set (s2 := mkSt (caches s1) (owners s1 ++ [(g, key_of cargs)])) in *.
        set (v0 := TNamed (N.of_nat (length (owners s1)))) in *.
        assert (Hl1 : lookup s1 g (key_of cargs) = None). { unfold lookup. rewrite (Fn eq_refl g Hisf). exact Hl. }
        assert (Hlt1 : g < length (caches s1)). { destruct Kp as [L _]. rewrite L. exact Hlt. }
        assert (W2 : length (caches (store s2 g (key_of cargs) v0)) = length ds).
        { rewrite store_length. simpl. destruct Kp as [L _]. congruence. }
        pose proof (res_refsE_good ds (recx (inject (dparams d) cargs)) true (drefs d)
                      (fun x s => Hrecx _ x s) (store s2 g (key_of cargs) v0) W2) as E3.
        assert (K13 : keeps ds s (state_of (res_refsE (recx (inject (dparams d) cargs)) (drefs d) (store s2 g (key_of cargs) v0)))).
        { eapply keeps_trans; [exact Kp|]. eapply keeps_trans; [|exact (proj1 E3)].
          eapply keeps_trans with (b := s2); [split; [reflexivity|auto]|]. apply keeps_store_fresh; assumption. }
        destruct (res_refsE _ _ _) as [s3 u|s3]; simpl in *.
        -- split; [exact K13|]. intros HH. destruct (HisfE HH).
        -- split; [apply keeps_remove; assumption|]. intros HH. destruct (HisfE HH).
      * split; [apply keeps_remove; assumption|]. intros HH. destruct (HisfE HH).
Qed.

(* one unfolding step of [resolveE] *)
Lemma resolveE_S : forall f ds av xp sc t s, resolveE (S f) ds av xp sc t s =
  let res := resolveE (S f) ds av false sc in
  match t with
  | TyName x => Ok s (resolve_name sc x)
  | TyConst tn v => match resolve_name sc tn with AType ct => Ok s (AConst ct v) | _ => Err s end
  | TyPtr e => match as_typeE (res e s) with Ok s1 c => Ok s1 (AType (TPtr c)) | Err s1 => Err s1 end
  | TySlice e => match as_typeE (res e s) with Ok s1 c => Ok s1 (AType (TSlice c)) | Err s1 => Err s1 end
  | TyChan e => match as_typeE (res e s) with Ok s1 c => Ok s1 (AType (TChan 3 c)) | Err s1 => Err s1 end
  | TyArray n e =>
      match res n s with
      | Ok s1 (AConst _ len) =>
          match as_typeE (res e s1) with Ok s2 c => Ok s2 (AType (TArray len c)) | Err s2 => Err s2 end
      | Ok s1 (AType _) => Err s1
      | Err s1 => Err s1
      end
  | TyMap k e =>
      match as_typeE (res k s) with
      | Ok s1 ck => match as_typeE (res e s1) with Ok s2 ce => Ok s2 (AType (TMap ck ce)) | Err s2 => Err s2 end
      | Err s1 => Err s1
      end
  | TyFunc ins outs =>
      match res_listE res ins s with
      | Ok s1 ci =>
          match res_listE res outs s1 with
          | Ok s2 co =>
              match all_types ci, all_types co with
              | Some ti, Some tout => Ok s2 (AType (TFunc ti tout false))
              | _, _ => Err s2
              end
          | Err s2 => Err s2
          end
      | Err s1 => Err s1
      end
  | TyStruct fs => match res_fieldsE res fs s with Ok s1 cf => Ok s1 (AType (TStruct cf)) | Err s1 => Err s1 end
  | TyInst g args =>
      if negb (is_avail av g) then Err s
      else if is_funcE ds g && negb xp then Err s
      else
      match res_listE res args s with
      | Ok s1 cargs =>
          match instantiateE (resolveE f ds av false) (resolveE f ds av true) ds g cargs s1 with
          | Ok s2 v => Ok s2 (AType v)
          | Err s2 => Err s2
          end
      | Err s1 => Err s1
      end
  end.
Proof. intros. destruct t; reflexivity. Qed.

Lemma fa_false : forall A (P : A -> bool -> Prop) (l : list A),
  Forall (fun x => forall xp, P x xp) l -> Forall (fun x => P x false) l.
Proof. intros A P l H. eapply Forall_impl; [|exact H]. intros x Hx. apply Hx. Qed.

Lemma resolveE_G : forall ds av fuel xp sc t s, G ds xp s (state_of (resolveE fuel ds av xp sc t s)).
Proof.
  intros ds av. induction fuel as [|f IHf]; [intros; simpl; apply G_refl|].
  intros xp sc t. revert xp.
  induction t using ty_ind_nested; intros xp s; rewrite resolveE_S; cbv zeta.
  - apply G_refl.
  - destruct (resolve_name sc t); apply G_refl.
  - pose proof (IHt false s) as E. rewrite <- state_of_as_typeE in E.
    destruct (as_typeE _) as [s1 c1|s1]; simpl in *; intros W; apply good_weaken; exact (E W).
  - pose proof (IHt false s) as E. rewrite <- state_of_as_typeE in E.
    destruct (as_typeE _) as [s1 c1|s1]; simpl in *; intros W; apply good_weaken; exact (E W).
  - pose proof (IHt false s) as E. rewrite <- state_of_as_typeE in E.
    destruct (as_typeE _) as [s1 c1|s1]; simpl in *; intros W; apply good_weaken; exact (E W).
  - pose proof (IHt1 false s) as E1.
    destruct (resolveE (S f) ds av false sc t1 s) as [s1 [c1|c1 len]|s1]; simpl in *;
      try (intros W; apply good_weaken; exact (E1 W)).
    pose proof (IHt2 false s1) as E2. rewrite <- state_of_as_typeE in E2.
    destruct (as_typeE _) as [s2 c2|s2]; simpl in *; intros W; apply good_weaken; exact (G_trans _ _ _ _ _ E1 E2 W).
  - pose proof (IHt1 false s) as E1. rewrite <- state_of_as_typeE in E1.
    destruct (as_typeE (resolveE (S f) ds av false sc t1 s)) as [s1 c1|s1]; simpl in *;
      try (intros W; apply good_weaken; exact (E1 W)).
    pose proof (IHt2 false s1) as E2. rewrite <- state_of_as_typeE in E2.
    destruct (as_typeE _) as [s2 c2|s2]; simpl in *; intros W; apply good_weaken; exact (G_trans _ _ _ _ _ E1 E2 W).
  - pose proof (res_listE_good ds (resolveE (S f) ds av false sc) false ins
                  (fa_false _ _ _ H) s) as E1.
    destruct (res_listE _ ins s) as [s1 ci|s1]; simpl in *; try (intros W; apply good_weaken; exact (E1 W)).
    pose proof (res_listE_good ds (resolveE (S f) ds av false sc) false outs
                  (fa_false _ _ _ H0) s1) as E2.
    destruct (res_listE _ outs s1) as [s2 co|s2]; simpl in *;
      [destruct (all_types ci); [destruct (all_types co)|]|]; simpl;
      intros W; apply good_weaken; exact (G_trans _ _ _ _ _ E1 E2 W).
  - pose proof (res_fieldsE_good ds (resolveE (S f) ds av false sc) false fs
                  (fa_false _ _ _ H) s) as E1.
    destruct (res_fieldsE _ fs s) as [s1 cf|s1]; simpl in *; intros W; apply good_weaken; exact (E1 W).
  - destruct (negb (is_avail av g)); [apply G_refl|].
    destruct (is_funcE ds g && negb xp) eqn:Efn; [apply G_refl|].
    pose proof (res_listE_good ds (resolveE (S f) ds av false sc) false args
                  (fa_false _ _ _ H) s) as E1.
    destruct (res_listE _ args s) as [s1 cargs|s1]; simpl in *; try (intros W; apply good_weaken; exact (E1 W)).
    intros W. specialize (E1 W). destruct E1 as [K1 F1].
    assert (W1 : length (caches s1) = length ds). { destruct K1 as [L _]. congruence. }
    pose proof (instantiateE_good ds (resolveE f ds av false) (resolveE f ds av true)
                  (fun sc t s => IHf false sc t s) (fun sc t s => IHf true sc t s) g cargs s1 W1) as E2.
    assert (GOAL : good ds xp s (state_of (instantiateE (resolveE f ds av false) (resolveE f ds av true) ds g cargs s1))).
    { destruct E2 as [K2 F2]. split; [eapply keeps_trans; eauto|].
      intros ->. rewrite andb_true_r in Efn.
      intros g' Hg'. rewrite (F2 Efn g' Hg'). apply F1; auto. }
    destruct (instantiateE _ _ ds g cargs s1) as [s2 v|s2]; simpl in *; exact GOAL.
Qed.

(* every evaluation, successful or failed, keeps every cached instance of generic types and functions *)
Lemma run_refsE_keeps : forall ds av fuel l s last, length (caches s) = length ds ->
  keeps ds s (state_of (run_refsE fuel ds av l s last)) /\
  length (caches (state_of (run_refsE fuel ds av l s last))) = length ds.
Proof.
  induction l as [|x l IH]; intros s last W; simpl.
  - split; [apply keeps_refl|assumption].
  - pose proof (resolveE_G ds av fuel true [] x s W) as [[L K] _].
    destruct (resolveE fuel ds av true [] x s) as [s1 c|s1]; simpl in *.
    + assert (W1 : length (caches s1) = length ds) by congruence.
      destruct (IH s1 (Some c) W1) as [K2 W2]. split; [|exact W2].
      eapply keeps_trans; [split; [exact L|exact K]|exact K2].
    + split; [split; assumption|congruence].
Qed.

Lemma runE_keeps : forall ds fuel ops av s, length (caches s) = length ds ->
  keeps ds s (fst (runE fuel ds ops av s)).
Proof.
  induction ops as [|o ops IH]; intros av s W; simpl.
  - apply keeps_refl.
  - destruct o as [refs pr|g].
    + destruct (run_refsE_keeps ds av fuel refs s None W) as [K1 W1].
      eapply keeps_trans; [exact K1|]. apply IH. exact W1.
    + apply IH. exact W.
Qed.

(* the instance returned by a successful instantiation of a generic type or function is found again, unchanged, after
   any later history of evaluations - failed ones included - and late declarations *)
Lemma memo_across_failures : forall ds fuel g d k v s ops av,
  length (caches s) = length ds -> nth_error ds g = Some d -> dkind d <> 1%N ->
  lookup s g k = Some v -> lookup (fst (runE fuel ds ops av s)) g k = Some v.
Proof.
  intros ds fuel g d k v s ops av W Hd Hk Hl.
  destruct (runE_keeps ds fuel ops av s W) as [_ K]. eapply K; eauto.
Qed.

Lemma resolveE_keeps : forall ds av fuel xp sc t s, length (caches s) = length ds ->
  keeps ds s (state_of (resolveE fuel ds av xp sc t s)).
Proof. intros ds av fuel xp sc t s W. exact (proj1 (resolveE_G ds av fuel xp sc t s W)). Qed.

(* C35 — lemmas: GenericKey is injective, the instantiation caches only grow, memoisation *)
From Coq Require Import List NArith ZArith Bool Arith Lia.
From Verif Require Import C29.Model C29.Proof C35.Model.
Import ListNotations.

(* ---------------------------------------------------------------- GenericKey *)
Lemma generic_key_inj : forall types vals types' vals',
  length vals = length types -> length vals' = length types' ->
  generic_key vals types = generic_key vals' types' -> vals = vals' /\ types = types'.
Proof.
  induction types as [|t types IH]; intros vals types' vals' H1 H2 H.
  - destruct vals; [|discriminate]. destruct types' as [|t' types'].
    + destruct vals'; [auto|discriminate].
    + destruct vals' as [|o vals']; [discriminate|]. simpl in H. destruct o; discriminate.
  - destruct vals as [|o vals]; [discriminate|].
    destruct types' as [|t' types'].
    + destruct vals'; [|discriminate]. simpl in H. destruct o; discriminate.
    + destruct vals' as [|o' vals']; [discriminate|].
      simpl in H1, H2. injection H1 as H1. injection H2 as H2.
      simpl in H. destruct o as [v|], o' as [v'|]; try discriminate; injection H as; subst;
        destruct (IH vals types' vals' H1 H2 ltac:(assumption)); subst; auto.
Qed.

Lemma split_arg_inj : forall a b, split_arg a = split_arg b -> a = b.
Proof. destruct a, b; simpl; intros H; try discriminate; injection H as; subst; auto. Qed.

Lemma key_of_inj : forall a b, key_of a = key_of b -> a = b.
Proof.
  unfold key_of. intros a b H.
  apply generic_key_inj in H; [|now rewrite !map_length ..].
  destruct H as [Hv Ht]. revert b Hv Ht.
  induction a as [|x a IH]; destruct b as [|y b]; simpl; intros; try discriminate; auto.
  injection Hv as Hx Hv. injection Ht as Hy Ht.
  f_equal; [|auto]. apply split_arg_inj. destruct (split_arg x), (split_arg y); simpl in *; congruence.
Qed.

(* the key before fix C35-1 identifies constants of distinct types *)
Lemma key_old_collision : exists a b, key_of_old a = key_of_old b /\ a <> b.
Proof.
  exists [AConst (TNamed 1) 3%Z], [AConst (TNamed 2) 3%Z]. split; [reflexivity|discriminate].
Qed.

(* ---------------------------------------------------------------- key equality *)
Lemma kelem_eqb_eq : forall a b, kelem_eqb a b = true <-> a = b.
Proof.
  destruct a, b; simpl; split; intros H; try discriminate; try congruence.
  - apply term_eqb_eq in H. congruence.
  - injection H as ->. apply term_eqb_eq. reflexivity.
  - apply andb_true_iff in H as [H1 H2]. apply Z.eqb_eq in H1. apply term_eqb_eq in H2. congruence.
  - injection H as -> ->. apply andb_true_iff. split; [apply Z.eqb_refl|apply term_eqb_eq; reflexivity].
  - apply Z.eqb_eq in H. congruence.
  - injection H as ->. apply Z.eqb_refl.
Qed.

Lemma key_eqb_eq : forall a b, key_eqb a b = true <-> a = b.
Proof.
  induction a as [|x a IH]; destruct b as [|y b]; simpl; split; intros H; try discriminate; auto.
  - apply andb_true_iff in H as [H1 H2]. apply kelem_eqb_eq in H1. apply IH in H2. congruence.
  - injection H as -> ->. apply andb_true_iff. split; [apply kelem_eqb_eq|apply IH]; reflexivity.
Qed.

Lemma key_eqb_refl : forall a, key_eqb a a = true.
Proof. intros. apply key_eqb_eq. reflexivity. Qed.

Lemma key_eqb_neq : forall a b, a <> b -> key_eqb a b = false.
Proof. intros a b H. destruct (key_eqb a b) eqn:E; auto. apply key_eqb_eq in E. contradiction. Qed.

(* ---------------------------------------------------------------- caches *)
Lemma clookup_cremove : forall c k k', clookup (cremove c k) k' = if key_eqb k k' then None else clookup c k'.
Proof.
  induction c as [|[k0 v0] c IH]; intros k k'; simpl.
  - destruct (key_eqb k k'); reflexivity.
  - destruct (key_eqb k0 k) eqn:E.
    + apply key_eqb_eq in E. subst k0. rewrite IH. destruct (key_eqb k k'); reflexivity.
    + simpl. rewrite IH. destruct (key_eqb k k') eqn:E2; [|reflexivity].
      apply key_eqb_eq in E2. subst k'. rewrite E. reflexivity.
Qed.

Lemma clookup_cstore : forall c k v k', clookup (cstore c k v) k' = if key_eqb k k' then Some v else clookup c k'.
Proof. intros. unfold cstore. simpl. rewrite clookup_cremove. destruct (key_eqb k k'); reflexivity. Qed.

Lemma set_nth_length : forall A (l : list A) i x, length (set_nth l i x) = length l.
Proof. induction l; destruct i; simpl; intros; auto. Qed.

Lemma nth_set_nth_same : forall A (l : list A) i x d, i < length l -> nth i (set_nth l i x) d = x.
Proof. induction l; destruct i; simpl; intros; try lia; auto. apply IHl. lia. Qed.

Lemma nth_set_nth_other : forall A (l : list A) i j x d, i <> j -> nth j (set_nth l i x) d = nth j l d.
Proof. induction l; destruct i, j; simpl; intros; try congruence; auto. Qed.

Lemma lookup_store_same : forall s g k v k', g < length (caches s) ->
  lookup (store s g k v) g k' = if key_eqb k k' then Some v else lookup s g k'.
Proof.
  intros. unfold lookup, store, cache_of. simpl. rewrite nth_set_nth_same by assumption. apply clookup_cstore.
Qed.

Lemma lookup_store_other : forall s g g' k v k', g <> g' -> lookup (store s g k v) g' k' = lookup s g' k'.
Proof. intros. unfold lookup, store, cache_of. simpl. rewrite nth_set_nth_other by assumption. reflexivity. Qed.

Lemma store_length : forall s g k v, length (caches (store s g k v)) = length (caches s).
Proof. intros. unfold store. simpl. apply set_nth_length. Qed.

(* memoisation, one step: a cached (generic, key) is returned as it is, the state is untouched *)
Lemma instantiate_hit : forall rec recx ds g cargs s d v,
  nth_error ds g = Some d -> length (dparams d) = length cargs ->
  lookup s g (key_of cargs) = Some v ->
  instantiate rec recx ds g cargs s = Some (s, v).
Proof.
  intros. unfold instantiate. rewrite H. rewrite H0. rewrite Nat.eqb_refl. simpl. rewrite H1. reflexivity.
Qed.

(* the state only grows: entries of the caches of generic types and functions are never removed nor changed
   (an alias generic stores the resolved type after resolving its body: no claim for those) *)
Definition keeps (ds : list decl) (s s' : st) : Prop :=
  length (caches s') = length (caches s) /\
  forall g d k v, nth_error ds g = Some d -> dkind d <> 1%N -> lookup s g k = Some v -> lookup s' g k = Some v.

Lemma keeps_refl : forall ds s, keeps ds s s.
Proof. split; auto. Qed.
Lemma keeps_trans : forall ds a b c, keeps ds a b -> keeps ds b c -> keeps ds a c.
Proof. intros ds a b c [L1 H1] [L2 H2]. split; [congruence|]. eauto. Qed.

Lemma keeps_store_fresh : forall ds s g k v, g < length (caches s) -> lookup s g k = None -> keeps ds s (store s g k v).
Proof.
  intros. split; [apply store_length|]. intros g' d k' v' Hd Hk Hl.
  destruct (Nat.eq_dec g g') as [<-|Hne].
  - rewrite lookup_store_same by assumption. destruct (key_eqb k k') eqn:E; auto.
    apply key_eqb_eq in E. subst. congruence.
  - rewrite lookup_store_other by assumption. assumption.
Qed.

Lemma keeps_store_alias : forall ds s g d k v, nth_error ds g = Some d -> dkind d = 1%N -> keeps ds s (store s g k v).
Proof.
  intros. split; [apply store_length|]. intros g' d' k' v' Hd Hk Hl.
  destruct (Nat.eq_dec g g') as [<-|Hne]; [congruence|].
  rewrite lookup_store_other by assumption. assumption.
Qed.

Lemma keeps_alloc : forall ds s g k, keeps ds s (fst (alloc s g k)).
Proof. intros. unfold alloc. simpl. split; auto. Qed.

(* ---------------------------------------------------------------- induction principle for type expressions *)
Section ty_ind_nested.
  Variable P : ty -> Prop.
  Hypothesis Hname : forall x, P (TyName x).
  Hypothesis Hconst : forall t v, P (TyConst t v).
  Hypothesis Hptr : forall e, P e -> P (TyPtr e).
  Hypothesis Hslice : forall e, P e -> P (TySlice e).
  Hypothesis Hchan : forall e, P e -> P (TyChan e).
  Hypothesis Harray : forall n e, P n -> P e -> P (TyArray n e).
  Hypothesis Hmap : forall k e, P k -> P e -> P (TyMap k e).
  Hypothesis Hfunc : forall ins outs, Forall P ins -> Forall P outs -> P (TyFunc ins outs).
  Hypothesis Hstruct : forall fs, Forall (fun p => P (snd p)) fs -> P (TyStruct fs).
  Hypothesis Hinst : forall g args, Forall P args -> P (TyInst g args).

  Fixpoint ty_ind_nested (t : ty) : P t :=
    let all := fix all (l : list ty) : Forall P l :=
      match l with [] => Forall_nil _ | x :: l' => Forall_cons _ (ty_ind_nested x) (all l') end in
    match t with
    | TyName x => Hname x
    | TyConst t v => Hconst t v
    | TyPtr e => Hptr e (ty_ind_nested e)
    | TySlice e => Hslice e (ty_ind_nested e)
    | TyChan e => Hchan e (ty_ind_nested e)
    | TyArray n e => Harray n e (ty_ind_nested n) (ty_ind_nested e)
    | TyMap k e => Hmap k e (ty_ind_nested k) (ty_ind_nested e)
    | TyFunc ins outs => Hfunc ins outs (all ins) (all outs)
    | TyStruct fs => Hstruct fs ((fix allf (l : list (N * ty)) : Forall (fun p => P (snd p)) l :=
                                   match l with [] => Forall_nil _ | p :: l' => Forall_cons _ (ty_ind_nested (snd p)) (allf l') end) fs)
    | TyInst g args => Hinst g args (all args)
    end.
End ty_ind_nested.

(* one unfolding step of [resolve] *)
Lemma resolve_S : forall f ds xp sc t s, resolve (S f) ds xp sc t s =
  let res := resolve (S f) ds false sc in
  match t with
  | TyName x => Some (s, resolve_name sc x)
  | TyConst tn v => match resolve_name sc tn with AType ct => Some (s, AConst ct v) | _ => None end
  | TyPtr e => match as_type (res e s) with Some (s1, c) => Some (s1, AType (TPtr c)) | None => None end
  | TySlice e => match as_type (res e s) with Some (s1, c) => Some (s1, AType (TSlice c)) | None => None end
  | TyChan e => match as_type (res e s) with Some (s1, c) => Some (s1, AType (TChan 3 c)) | None => None end
  | TyArray n e =>
      match res n s with
      | Some (s1, AConst _ len) =>
          match as_type (res e s1) with Some (s2, c) => Some (s2, AType (TArray len c)) | None => None end
      | _ => None
      end
  | TyMap k e =>
      match as_type (res k s) with
      | Some (s1, ck) => match as_type (res e s1) with Some (s2, ce) => Some (s2, AType (TMap ck ce)) | None => None end
      | None => None
      end
  | TyFunc ins outs =>
      match res_list res ins s with
      | Some (s1, ci) =>
          match res_list res outs s1 with
          | Some (s2, co) =>
              match all_types ci, all_types co with
              | Some ti, Some tout => Some (s2, AType (TFunc ti tout false))
              | _, _ => None
              end
          | None => None
          end
      | None => None
      end
  | TyStruct fs => match res_fields res fs s with Some (s1, cf) => Some (s1, AType (TStruct cf)) | None => None end
  | TyInst g args =>
      if is_func ds g && negb xp then None else
      match res_list res args s with
      | Some (s1, cargs) =>
          match instantiate (resolve f ds false) (resolve f ds true) ds g cargs s1 with
          | Some (s2, v) => Some (s2, AType v)
          | None => None
          end
      | None => None
      end
  end.
Proof. intros. destruct t; reflexivity. Qed.

(* ---------------------------------------------------------------- the state only grows *)
Definition same_funcs (ds : list decl) (s s' : st) : Prop :=
  forall g, is_func ds g = true -> cache_of s' g = cache_of s g.

(* what one resolution step guarantees: [keeps], and in type position the caches of generic functions are untouched *)
Definition good (ds : list decl) (xp : bool) (s s' : st) : Prop :=
  keeps ds s s' /\ (xp = false -> same_funcs ds s s').

Lemma good_refl : forall ds xp s, good ds xp s s.
Proof. split; [apply keeps_refl|]. intros _ g _. reflexivity. Qed.
Lemma good_trans : forall ds xp a b c, good ds xp a b -> good ds xp b c -> good ds xp a c.
Proof.
  intros ds xp a b c [K1 F1] [K2 F2]. split; [eapply keeps_trans; eauto|].
  intros E g Hg. rewrite (F2 E g Hg). apply F1; auto.
Qed.
Lemma good_weaken : forall ds xp s s', good ds false s s' -> good ds xp s s'.
Proof. intros ds xp s s' [K F]. split; auto. Qed.

(* the same, for states whose cache vector matches the declarations *)
Definition G (ds : list decl) (xp : bool) (s s' : st) : Prop := length (caches s) = length ds -> good ds xp s s'.
Lemma G_refl : forall ds xp s, G ds xp s s.
Proof. intros ds xp s _. apply good_refl. Qed.
Lemma G_trans : forall ds xp a b c, G ds xp a b -> G ds xp b c -> G ds xp a c.
Proof.
  intros ds xp a b c H1 H2 W. specialize (H1 W). eapply good_trans; [exact H1|]. apply H2.
  destruct H1 as [[L _] _]. congruence.
Qed.

Section lists.
  Variable ds : list decl.
  Variable r : ty -> st -> option (st * carg).
  Variable xp : bool.

  Lemma res_list_good : forall l, Forall (fun x => forall s s' c, r x s = Some (s', c) -> G ds xp s s') l ->
    forall s s' cs, res_list r l s = Some (s', cs) -> G ds xp s s'.
  Proof.
    induction 1 as [|x l Hx Hl IH]; intros s s' cs H; simpl in H.
    - injection H as <- _. apply G_refl.
    - destruct (r x s) as [[s1 c]|] eqn:E; [|discriminate].
      destruct (res_list r l s1) as [[s2 cs']|] eqn:E2; [|discriminate]. injection H as <- _.
      eapply G_trans; eauto.
  Qed.

  Lemma res_fields_good : forall l, Forall (fun p => forall s s' c, r (snd p) s = Some (s', c) -> G ds xp s s') l ->
    forall s s' cs, res_fields r l s = Some (s', cs) -> G ds xp s s'.
  Proof.
    induction 1 as [|[n x] l Hx Hl IH]; intros s s' cs H; simpl in H.
    - injection H as <- _. apply G_refl.
    - simpl in Hx. destruct (r x s) as [[s1 [c|c v]]|] eqn:E; simpl in H; try discriminate.
      destruct (res_fields r l s1) as [[s2 cs']|] eqn:E2; [|discriminate]. injection H as <- _.
      eapply G_trans; eauto.
  Qed.

  Lemma res_refs_good : forall l, (forall x s s' c, r x s = Some (s', c) -> G ds xp s s') ->
    forall s s', res_refs r l s = Some s' -> G ds xp s s'.
  Proof.
    induction l as [|x l IH]; intros Hr s s' H; simpl in H.
    - injection H as <-. apply G_refl.
    - destruct (r x s) as [[s1 c]|] eqn:E; [|discriminate]. eapply G_trans; eauto.
  Qed.
End lists.

Lemma as_type_some : forall r s t, as_type r = Some (s, t) -> r = Some (s, AType t).
Proof. intros [[s0 [t0|t0 v]]|] s t H; simpl in H; try discriminate. injection H as -> ->. reflexivity. Qed.

Lemma is_func_kind : forall ds g d, nth_error ds g = Some d ->
  is_func ds g = negb (N.eqb (dkind d) 0 || N.eqb (dkind d) 1).
Proof. intros. unfold is_func. rewrite H. reflexivity. Qed.

Lemma same_funcs_store : forall ds s g k v, is_func ds g = false -> same_funcs ds s (store s g k v).
Proof.
  intros ds s g k v Hg g' Hg'. unfold cache_of, store. simpl.
  rewrite nth_set_nth_other; [reflexivity|]. intros ->. congruence.
Qed.

(* instantiation, given that the resolvers it calls (one level of fuel below) are [good] *)
Lemma instantiate_good : forall ds rec recx,
  (forall sc t s s' c, rec sc t s = Some (s', c) -> G ds false s s') ->
  (forall sc t s s' c, recx sc t s = Some (s', c) -> G ds true s s') ->
  forall g cargs s s' v, length (caches s) = length ds ->
  instantiate rec recx ds g cargs s = Some (s', v) ->
  keeps ds s s' /\ (is_func ds g = false -> same_funcs ds s s').
Proof.
  intros ds rec recx Hrec Hrecx g cargs s s' v Hwf H. unfold instantiate in H.
  destruct (nth_error ds g) as [d|] eqn:Hd; [|discriminate].
  assert (Hlt : g < length (caches s)). { rewrite Hwf. apply nth_error_Some. congruence. }
  destruct (negb (length (dparams d) =? length cargs)); [discriminate|].
  destruct (lookup s g (key_of cargs)) as [v0|] eqn:Hl.
  { injection H as <- _. split; [apply keeps_refl|]. intros _ g' _. reflexivity. }
  pose proof (is_func_kind ds g d Hd) as Hf.
  destruct (N.eqb (dkind d) 1) eqn:K1.
  - (* alias *)
    apply N.eqb_eq in K1.
    destruct (as_type (rec (inject (dparams d) cargs) (dbody d) s)) as [[s1 v1]|] eqn:E; [|discriminate].
    apply as_type_some in E. apply Hrec in E. specialize (E Hwf). destruct E as [Kp Fn]. injection H as <- _.
    split.
    + eapply keeps_trans; [exact Kp|]. eapply keeps_store_alias; eauto.
    + intros Hnf g' Hg'. rewrite <- (Fn eq_refl g' Hg'). apply (same_funcs_store ds s1 g _ _ Hnf g' Hg').
  - destruct (N.eqb (dkind d) 0) eqn:K0.
    + (* generic type *)
      simpl in H. set (s0 := mkSt (caches s) (owners s ++ [(g, key_of cargs)])) in *.
      set (v0 := TNamed (N.of_nat (length (owners s)))) in *.
      destruct (rec (inject (dparams d) cargs) (dbody d) (store s0 g (key_of cargs) v0)) as [[s1 c1]|] eqn:E; [|discriminate].
      injection H as <- _. apply Hrec in E.
      assert (W0 : length (caches (store s0 g (key_of cargs) v0)) = length ds). { rewrite store_length. exact Hwf. }
      specialize (E W0). destruct E as [Kp Fn].
      assert (Ks : keeps ds s (store s0 g (key_of cargs) v0)).
      { eapply keeps_trans with (b := s0); [split; [reflexivity|auto]|]. apply keeps_store_fresh; [exact Hlt|exact Hl]. }
      split; [eapply keeps_trans; eauto|].
      intros Hnf g' Hg'. rewrite (Fn eq_refl g' Hg'). apply (same_funcs_store ds s0 g _ _ Hnf g' Hg').
    + (* generic function *)
      destruct (rec (inject (dparams d) cargs) (dbody d) s) as [[s1 c1]|] eqn:E; [|discriminate].
      apply Hrec in E. specialize (E Hwf). destruct E as [Kp Fn].
      simpl in H. set (s2 := mkSt (caches s1) (owners s1 ++ [(g, key_of cargs)])) in *.
      set (v0 := TNamed (N.of_nat (length (owners s1)))) in *.
      destruct (res_refs (recx (inject (dparams d) cargs)) (drefs d) (store s2 g (key_of cargs) v0)) as [s3|] eqn:E3; [|discriminate].
      injection H as <- _.
      assert (Hisf : is_func ds g = true). { rewrite Hf. reflexivity. }
      assert (Hl1 : lookup s1 g (key_of cargs) = None). { unfold lookup. rewrite (Fn eq_refl g Hisf). exact Hl. }
      assert (Hlt1 : g < length (caches s1)). { destruct Kp as [L _]. rewrite L. exact Hlt. }
      apply res_refs_good with (ds := ds) (xp := true) in E3; [|intros; eapply Hrecx; eauto].
      assert (W2 : length (caches (store s2 g (key_of cargs) v0)) = length ds).
      { rewrite store_length. simpl. destruct Kp as [L _]. congruence. }
      specialize (E3 W2).
      split; [|congruence].
      eapply keeps_trans; [exact Kp|]. eapply keeps_trans; [|exact (proj1 E3)].
      eapply keeps_trans with (b := s2); [split; [reflexivity|auto]|]. apply keeps_store_fresh; assumption.
Qed.

Lemma resolve_G : forall ds fuel xp sc t s s' c, resolve fuel ds xp sc t s = Some (s', c) -> G ds xp s s'.
Proof.
  intros ds. induction fuel as [|f IHf]; [discriminate|].
  intros xp sc t. revert xp.
  induction t using ty_ind_nested; intros xp s s' c HR; rewrite resolve_S in HR; cbv zeta in HR.
  - injection HR as <- _. apply G_refl.
  - destruct (resolve_name sc t); [|discriminate]. injection HR as <- _. apply G_refl.
  - destruct (as_type _) as [[s1 c1]|] eqn:E; [|discriminate]. injection HR as <- _.
    apply as_type_some in E. apply IHt in E. intros W. apply good_weaken. exact (E W).
  - destruct (as_type _) as [[s1 c1]|] eqn:E; [|discriminate]. injection HR as <- _.
    apply as_type_some in E. apply IHt in E. intros W. apply good_weaken. exact (E W).
  - destruct (as_type _) as [[s1 c1]|] eqn:E; [|discriminate]. injection HR as <- _.
    apply as_type_some in E. apply IHt in E. intros W. apply good_weaken. exact (E W).
  - destruct (resolve (S f) ds false sc t1 s) as [[s1 [c1|c1 len]]|] eqn:E1; try discriminate.
    destruct (as_type (resolve (S f) ds false sc t2 s1)) as [[s2 c2]|] eqn:E2; [|discriminate]. injection HR as <- _.
    apply as_type_some in E2. apply IHt1 in E1. apply IHt2 in E2.
    intros W. apply good_weaken. exact (G_trans _ _ _ _ _ E1 E2 W).
  - destruct (as_type (resolve (S f) ds false sc t1 s)) as [[s1 c1]|] eqn:E1; [|discriminate].
    destruct (as_type (resolve (S f) ds false sc t2 s1)) as [[s2 c2]|] eqn:E2; [|discriminate]. injection HR as <- _.
    apply as_type_some in E1. apply as_type_some in E2. apply IHt1 in E1. apply IHt2 in E2.
    intros W. apply good_weaken. exact (G_trans _ _ _ _ _ E1 E2 W).
  - destruct (res_list _ ins s) as [[s1 ci]|] eqn:E1; [|discriminate].
    destruct (res_list _ outs s1) as [[s2 co]|] eqn:E2; [|discriminate].
    destruct (all_types ci); [|discriminate]. destruct (all_types co); [|discriminate]. injection HR as <- _.
    apply res_list_good with (ds := ds) (xp := false) in E1; [|eapply Forall_impl; [|exact H]; intros; eauto].
    apply res_list_good with (ds := ds) (xp := false) in E2; [|eapply Forall_impl; [|exact H0]; intros; eauto].
    intros W. apply good_weaken. exact (G_trans _ _ _ _ _ E1 E2 W).
  - destruct (res_fields _ fs s) as [[s1 cf]|] eqn:E1; [|discriminate]. injection HR as <- _.
    apply res_fields_good with (ds := ds) (xp := false) in E1; [|eapply Forall_impl; [|exact H]; intros; eauto].
    intros W. apply good_weaken. exact (E1 W).
  - destruct (is_func ds g && negb xp) eqn:Efn; [discriminate|].
    destruct (res_list _ args s) as [[s1 cargs]|] eqn:E1; [|discriminate].
    destruct (instantiate _ _ ds g cargs s1) as [[s2 v]|] eqn:E2; [|discriminate]. injection HR as <- _.
    apply res_list_good with (ds := ds) (xp := false) in E1; [|eapply Forall_impl; [|exact H]; intros; eauto].
    intros W. specialize (E1 W). destruct E1 as [K1 F1].
    assert (W1 : length (caches s1) = length ds). { destruct K1 as [L _]. congruence. }
    apply instantiate_good in E2; [| intros; eapply IHf; eauto | intros; eapply IHf; eauto | exact W1].
    destruct E2 as [K2 F2]. split; [eapply keeps_trans; eauto|].
    intros ->. rewrite andb_true_r in Efn.
    intros g' Hg'. rewrite (F2 Efn g' Hg'). apply F1; auto.
Qed.

Lemma resolve_keeps : forall ds fuel xp sc t s s' c, length (caches s) = length ds ->
  resolve fuel ds xp sc t s = Some (s', c) -> keeps ds s s' /\ length (caches s') = length ds.
Proof.
  intros. apply resolve_G in H0. destruct (H0 H) as [[L K] _]. split; [split; assumption|congruence].
Qed.

(* ---------------------------------------------------------------- memoisation over histories *)
Lemma run_refs_keeps : forall ds fuel l s last s' r, length (caches s) = length ds ->
  run_refs fuel ds l s last = Some (s', r) -> keeps ds s s' /\ length (caches s') = length ds.
Proof.
  induction l as [|x l IH]; intros s last s' r W H; simpl in H.
  - injection H as <- _. split; [apply keeps_refl|assumption].
  - destruct (resolve fuel ds true [] x s) as [[s1 c]|] eqn:E; [|discriminate].
    apply resolve_keeps in E; [|assumption]. destruct E as [K1 W1].
    apply IH in H; [|assumption]. destruct H as [K2 W2]. split; [eapply keeps_trans; eauto|assumption].
Qed.

Lemma run_keeps : forall ds fuel ops s s', length (caches s) = length ds ->
  run fuel ds ops s = Some s' -> keeps ds s s' /\ length (caches s') = length ds.
Proof.
  induction ops as [|o ops IH]; intros s s' W H; simpl in H.
  - injection H as <-. split; [apply keeps_refl|assumption].
  - destruct (run_refs fuel ds (o_refs o) s None) as [[s1 r]|] eqn:E; [|discriminate].
    apply run_refs_keeps in E; [|assumption]. destruct E as [K1 W1].
    apply IH in H; [|assumption]. destruct H as [K2 W2]. split; [eapply keeps_trans; eauto|assumption].
Qed.

(* a successful instantiation of a generic type or function leaves its result in the cache *)
Lemma instantiate_stored : forall ds f g d cargs s s' v, length (caches s) = length ds ->
  nth_error ds g = Some d -> dkind d <> 1%N ->
  instantiate (resolve f ds false) (resolve f ds true) ds g cargs s = Some (s', v) ->
  lookup s' g (key_of cargs) = Some v /\ length (dparams d) = length cargs.
Proof.
  intros ds f g d cargs s s' v W Hd Hk H. unfold instantiate in H. rewrite Hd in H.
  assert (Hlt : g < length (caches s)). { rewrite W. apply nth_error_Some. congruence. }
  destruct (length (dparams d) =? length cargs) eqn:Ar; [|discriminate]. apply Nat.eqb_eq in Ar. simpl in H.
  split; [|exact Ar].
  destruct (lookup s g (key_of cargs)) as [v0|] eqn:Hl.
  { injection H as <- <-. assumption. }
  destruct (N.eqb (dkind d) 1) eqn:K1; [apply N.eqb_eq in K1; contradiction|].
  destruct (N.eqb (dkind d) 0) eqn:K0.
  - simpl in H. set (s0 := mkSt (caches s) (owners s ++ [(g, key_of cargs)])) in *.
    set (v0 := TNamed (N.of_nat (length (owners s)))) in *.
    destruct (resolve f ds false (inject (dparams d) cargs) (dbody d) (store s0 g (key_of cargs) v0)) as [[s1 c1]|] eqn:E; [|discriminate].
    injection H as <- <-. apply resolve_keeps in E; [|rewrite store_length; exact W].
    destruct E as [[_ K] _]. apply (K g d); auto.
    rewrite lookup_store_same by exact Hlt. rewrite key_eqb_refl. reflexivity.
  - destruct (resolve f ds false (inject (dparams d) cargs) (dbody d) s) as [[s1 c1]|] eqn:E; [|discriminate].
    apply resolve_keeps in E; [|exact W]. destruct E as [[L1 _] W1].
    simpl in H. set (s2 := mkSt (caches s1) (owners s1 ++ [(g, key_of cargs)])) in *.
    set (v0 := TNamed (N.of_nat (length (owners s1)))) in *.
    destruct (res_refs (resolve f ds true (inject (dparams d) cargs)) (drefs d) (store s2 g (key_of cargs) v0)) as [s3|] eqn:E3; [|discriminate].
    injection H as <- <-.
    apply res_refs_good with (ds := ds) (xp := true) in E3; [|intros; eapply resolve_G; eauto].
    assert (W2 : length (caches (store s2 g (key_of cargs) v0)) = length ds). { rewrite store_length. exact W1. }
    destruct (E3 W2) as [[_ K] _]. apply (K g d); auto.
    rewrite lookup_store_same by (simpl; rewrite L1; exact Hlt). rewrite key_eqb_refl. reflexivity.
Qed.

(* C35_memo: whatever is evaluated in between, the same generic type / function with the same resolved arguments
   yields the object of the first instantiation and leaves the state untouched *)
Lemma memo : forall ds f1 f2 f3 g d cargs s0 s1 v1 ops s2 s3 v2,
  length (caches s0) = length ds -> nth_error ds g = Some d -> dkind d <> 1%N ->
  instantiate (resolve f1 ds false) (resolve f1 ds true) ds g cargs s0 = Some (s1, v1) ->
  run f2 ds ops s1 = Some s2 ->
  instantiate (resolve f3 ds false) (resolve f3 ds true) ds g cargs s2 = Some (s3, v2) ->
  v2 = v1 /\ s3 = s2.
Proof.
  intros ds f1 f2 f3 g d cargs s0 s1 v1 ops s2 s3 v2 W Hd Hk H1 Hr H2.
  pose proof H1 as H1'. apply instantiate_stored with (d := d) in H1'; auto. destruct H1' as [Hl Ar].
  assert (W1 : length (caches s1) = length ds).
  { apply instantiate_good in H1; [|intros; eapply resolve_G; eauto|intros; eapply resolve_G; eauto|exact W].
    destruct H1 as [[L _] _]. congruence. }
  apply run_keeps in Hr; [|exact W1]. destruct Hr as [[_ K] _].
  rewrite (instantiate_hit _ _ ds g cargs s2 d v1 Hd Ar (K g d _ _ Hd Hk Hl)) in H2.
  injection H2 as <- <-. auto.
Qed.

(* distinct resolved argument lists occupy distinct cache slots; a miss allocates a fresh object *)
Lemma distinct_keys : forall a b, a <> b -> key_eqb (key_of a) (key_of b) = false.
Proof. intros a b H. apply key_eqb_neq. intros E. apply key_of_inj in E. contradiction. Qed.

(* C35 — failing instantiations: extension of C35.Model with the error path of Comp.GenericType / Comp.genericFunc
   (fast/generic_type.go instantiateType, fast/generic_func.go instantiateFunc):

     panicking := true
     defer func() { if panicking { delete(X.Instances, key); c.ErrorAt(...) } }()      // re-panics
     ... X.Instances[key] = forward-declared instance ... compile the body ...
     panicking = false

   and with declarations that appear DURING a history (a generic body may name something that is declared only
   later: the instantiation fails with "undefined identifier", succeeds after the declaration).
   Definitions only (no proofs).

   A compilation either succeeds ([Ok s v]) or panics ([Err s]): in both cases the state of the instance caches at that
   point is known (Go maps are mutated in place; a panic does not undo anything except what the deferred functions undo).
   An error raised inside the body of an instantiation in progress unwinds through the deferred function of EVERY
   instantiation in progress; each removes its own key. Instantiations that completed before the error stay cached. *)
From Coq Require Import List NArith ZArith Bool Arith.
From Verif Require Import C29.Model C35.Model.
Import ListNotations.

Inductive res (A : Type) : Type :=
| Ok (s : st) (a : A)
| Err (s : st).
Arguments Ok {A} s a.
Arguments Err {A} s.

Definition state_of {A} (r : res A) : st := match r with Ok s _ => s | Err s => s end.

(* delete(X.Instances, key) *)
Definition remove (s : st) (g : nat) (k : key) : st :=
  mkSt (set_nth (caches s) g (cremove (cache_of s g) k)) (owners s).

(* which declarations of [ds] were evaluated so far (Comp.Binds[name] != nil); dkind 3 = a plain (non generic)
   package-level declaration - type, function or variable - that generic bodies refer to by name: in the
   type-expression language the reference is written [TyInst g []] *)
Definition is_avail (av : list bool) (g : nat) : bool := nth g av false.
Definition is_funcE (ds : list decl) (g : nat) : bool :=
  match nth_error ds g with
  | Some d => negb (N.eqb (dkind d) 0 || N.eqb (dkind d) 1 || N.eqb (dkind d) 3)
  | None => false
  end.
Definition plain_term (g : nat) : term := TBasic (N.of_nat g + 1000000)%N.

Definition as_typeE (r : res carg) : res term :=
  match r with
  | Ok s (AType t) => Ok s t
  | Ok s (AConst _ _) => Err s
  | Err s => Err s
  end.

Definition res_refsE (r : ty -> st -> res carg) : list ty -> st -> res unit :=
  fix go (l : list ty) (s : st) {struct l} : res unit :=
  match l with
  | [] => Ok s tt
  | x :: l' => match r x s with Ok s1 _ => go l' s1 | Err s1 => Err s1 end
  end.

Definition res_listE (r : ty -> st -> res carg) : list ty -> st -> res (list carg) :=
  fix go (l : list ty) (s : st) {struct l} : res (list carg) :=
  match l with
  | [] => Ok s []
  | x :: l' =>
      match r x s with
      | Ok s1 c => match go l' s1 with Ok s2 cs => Ok s2 (c :: cs) | Err s2 => Err s2 end
      | Err s1 => Err s1
      end
  end.

Definition res_fieldsE (r : ty -> st -> res carg) : list (N * ty) -> st -> res (list (N * term)) :=
  fix go (l : list (N * ty)) (s : st) {struct l} : res (list (N * term)) :=
  match l with
  | [] => Ok s []
  | (n, x) :: l' =>
      match as_typeE (r x s) with
      | Ok s1 c => match go l' s1 with Ok s2 cs => Ok s2 ((n, c) :: cs) | Err s2 => Err s2 end
      | Err s1 => Err s1
      end
  end.

(* Comp.GenericType / Comp.genericFunc after the generic was found and its arguments were resolved *)
Definition instantiateE (rec recx : scope -> ty -> st -> res carg) (ds : list decl)
    (g : nat) (cargs : list carg) (s : st) : res term :=
  match nth_error ds g with
  | None => Err s
  | Some d =>
      if N.eqb (dkind d) 3 then
        match cargs with [] => Ok s (plain_term g) | _ => Err s end       (* a plain name takes no #[...] *)
      else if negb (Nat.eqb (length (dparams d)) (length cargs)) then Err s
      else
        let k := key_of cargs in
        match lookup s g k with
        | Some v => Ok s v                                  (* found instantiated generic *)
        | None =>
            let sc := inject (dparams d) cargs in
            if N.eqb (dkind d) 1 then
              (* alias: t = c.Type(decl); typ.Instances[key] = t   -- on a panic delete(key) finds nothing *)
              match as_typeE (rec sc (dbody d) s) with
              | Ok s1 v => Ok (store s1 g k v) v
              | Err s1 => Err (remove s1 g k)
              end
            else if N.eqb (dkind d) 0 then
              (* t = NamedOf(...); typ.Instances[key] = t; u := c.Type(decl); SetUnderlyingType(t, u) *)
              let '(s0, id) := alloc s g k in
              let v := TNamed (N.of_nat id) in
              match rec sc (dbody d) (store s0 g k v) with
              | Ok s1 _ => Ok s1 v
              | Err s1 => Err (remove s1 g k)
              end
            else
              (* t := c.TypeFunction(decl.Type); fun.Instances[key] = instance; c.FuncLit(decl) *)
              match rec sc (dbody d) s with
              | Ok s1 _ =>
                  let '(s2, id) := alloc s1 g k in
                  let v := TNamed (N.of_nat id) in
                  match res_refsE (recx sc) (drefs d) (store s2 g k v) with
                  | Ok s3 _ => Ok s3 v
                  | Err s3 => Err (remove s3 g k)
                  end
              | Err s1 => Err (remove s1 g k)
              end
        end
  end.

(* Comp.Type / Expr1OrType with the error path; [av]: the declarations evaluated so far.  genericMaker resolves the
   name of the generic BEFORE it compiles the arguments ("undefined identifier"). *)
Fixpoint resolveE (fuel : nat) (ds : list decl) (av : list bool) (xpos : bool) (sc : scope) (t : ty) (s : st) {struct fuel}
    : res carg :=
  match fuel with
  | O => Err s
  | S f =>
      (fix res (xp : bool) (t : ty) (s : st) {struct t} : res carg :=
         let res := res false in
         match t with
         | TyName x => Ok s (resolve_name sc x)
         | TyConst tn v => match resolve_name sc tn with AType ct => Ok s (AConst ct v) | _ => Err s end
         | TyPtr e => match as_typeE (res e s) with Ok s1 c => Ok s1 (AType (TPtr c)) | Err s1 => Err s1 end
         | TySlice e => match as_typeE (res e s) with Ok s1 c => Ok s1 (AType (TSlice c)) | Err s1 => Err s1 end
         | TyChan e => match as_typeE (res e s) with Ok s1 c => Ok s1 (AType (TChan 3 c)) | Err s1 => Err s1 end
         | TyArray n e =>
             match res n s with
             | Ok s1 (AConst _ len) =>
                 match as_typeE (res e s1) with Ok s2 c => Ok s2 (AType (TArray len c)) | Err s2 => Err s2 end
             | Ok s1 (AType _) => Err s1
             | Err s1 => Err s1
             end
         | TyMap k e =>
             match as_typeE (res k s) with
             | Ok s1 ck => match as_typeE (res e s1) with Ok s2 ce => Ok s2 (AType (TMap ck ce)) | Err s2 => Err s2 end
             | Err s1 => Err s1
             end
         | TyFunc ins outs =>
             match res_listE (fun x s0 => res x s0) ins s with
             | Ok s1 ci =>
                 match res_listE (fun x s0 => res x s0) outs s1 with
                 | Ok s2 co =>
                     match all_types ci, all_types co with
                     | Some ti, Some tout => Ok s2 (AType (TFunc ti tout false))
                     | _, _ => Err s2
                     end
                 | Err s2 => Err s2
                 end
             | Err s1 => Err s1
             end
         | TyStruct fs => match res_fieldsE (fun x s0 => res x s0) fs s with Ok s1 cf => Ok s1 (AType (TStruct cf)) | Err s1 => Err s1 end
         | TyInst g args =>
             if negb (is_avail av g) then Err s                       (* undefined identifier *)
             else if is_funcE ds g && negb xp then Err s                (* symbol is not a generic type *)
             else
             match res_listE (fun x s0 => res x s0) args s with
             | Ok s1 cargs =>
                 match instantiateE (resolveE f ds av false) (resolveE f ds av true) ds g cargs s1 with
                 | Ok s2 v => Ok s2 (AType v)
                 | Err s2 => Err s2
                 end
             | Err s1 => Err s1
             end
         end) xpos t s
  end.

(* ---------------------------------------------------------------- histories with failures and late declarations *)
(* one evaluated source text (its generic references, compiled in order at package level; the first error aborts the
   evaluation) or the evaluation of declaration number g of [ds] *)
Inductive opE :=
| EEval (refs : list ty) (probe : bool)
| EDeclare (g : nat).

Fixpoint run_refsE (fuel : nat) (ds : list decl) (av : list bool) (l : list ty) (s : st) (last : option carg)
    : res (option carg) :=
  match l with
  | [] => Ok s last
  | x :: l' =>
      match resolveE fuel ds av true [] x s with
      | Ok s1 c => run_refsE fuel ds av l' s1 (Some c)
      | Err s1 => Err s1
      end
  end.

Fixpoint runE (fuel : nat) (ds : list decl) (ops : list opE) (av : list bool) (s : st) : st * list bool :=
  match ops with
  | [] => (s, av)
  | EEval refs _ :: ops' => runE fuel ds ops' av (state_of (run_refsE fuel ds av refs s None))
  | EDeclare g :: ops' => runE fuel ds ops' (set_nth av g true) s
  end.

(* ---------------------------------------------------------------- correspondence *)
(* observation: the sizes of all instance caches after the operation; ob_first: index of the first probe that
   returned the same type (probes), -1 (other successful evaluation), -3 (the evaluation failed to compile),
   -4 (declaration) *)
Record caseE := mkCaseE { ce_idx : Z; ce_decls : list decl; ce_avail : list bool; ce_ops : list opE; ce_obs : list obs }.

Fixpoint observeE (fuel : nat) (ds : list decl) (ops : list opE) (av : list bool) (s : st) (i : Z) (seen : list (Z * carg))
    : list obs :=
  match ops with
  | [] => []
  | EDeclare g :: ops' => mkObs (sizes s) (-4)%Z :: observeE fuel ds ops' (set_nth av g true) s (i + 1)%Z seen
  | EEval refs probe :: ops' =>
      match run_refsE fuel ds av refs s None with
      | Ok s1 (Some c) =>
          if probe then mkObs (sizes s1) (first_probe seen c i) :: observeE fuel ds ops' av s1 (i + 1)%Z (seen ++ [(i, c)])
          else mkObs (sizes s1) (-1)%Z :: observeE fuel ds ops' av s1 (i + 1)%Z seen
      | Ok s1 None => mkObs (sizes s1) (-1)%Z :: observeE fuel ds ops' av s1 (i + 1)%Z seen
      | Err s1 => mkObs (sizes s1) (-3)%Z :: observeE fuel ds ops' av s1 (i + 1)%Z seen
      end
  end.

Definition caseE_ok (c : caseE) : bool :=
  obs_eqb (observeE 64 (ce_decls c) (ce_ops c) (ce_avail c) (empty (ce_decls c)) 0%Z []) (ce_obs c).
Definition mismatchesE (cs : list caseE) : list Z := map ce_idx (filter (fun c => negb (caseE_ok c)) cs).

(* C35 — executable model of generic instantiation in the fast interpreter
   (fast/generic_maker.go: genericMaker, GenericKey, injectBinds; fast/generic_type.go: Comp.GenericType,
   instantiateType; fast/generic_func.go: Comp.genericFunc, instantiateFunc).  Definitions only (no proofs).

   Type expressions [ty] are what the parser hands to Comp.Type / Comp.Expr1OrType: identifiers (resolved through
   the scope chain), constant expressions used as generic arguments, the composite type constructors and generic
   references Name#[a, b, ...].  Resolved types are xreflect.Type objects; xreflect guarantees one object per type
   identity (property C29), so a resolved type is modelled by the canonical term of coq/C29 ([C29.Model.term], whose
   structural equality is typeutil.Identical on the fragment, theorem C29_term_identity).  The named type created by
   instantiating a generic is [TNamed id], id = allocation number of the instance (Universe.NamedOf allocates a fresh
   *types.Named: identity = object); a compiled function instance (pointer to GenericFuncInstance) is identified the same way.

   GenericKey is modelled on the code AFTER fix C35-1 (the key element of a constant argument is the pair
   value, MakeKey(type)); [generic_key_old] is the key as it was (value only). *)
From Coq Require Import List NArith ZArith Bool Arith.
From Verif Require Import C29.Model.
Import ListNotations.

(* ---------------------------------------------------------------- syntax *)
Inductive ty :=
| TyName (x : N)                       (* identifier: basic type, named type of the session, or a type parameter *)
| TyConst (t : N) (v : Z)              (* constant generic argument of type t (an identifier) and value v *)
| TyPtr (e : ty) | TySlice (e : ty) | TyChan (e : ty)
| TyArray (n e : ty)                   (* [n]e: n is a constant argument or a parameter bound to one *)
| TyMap (k e : ty)
| TyFunc (ins outs : list ty)
| TyStruct (fs : list (N * ty))
| TyInst (g : nat) (args : list ty).   (* Name#[args]: g = index of the generic declaration *)

(* a resolved generic argument: genericMaker fills vals[i] (constants) or only types[i] *)
Inductive carg :=
| AType (t : term)
| AConst (t : term) (v : Z).

(* ---------------------------------------------------------------- GenericKey *)
Inductive kelem :=
| KType (t : term)                     (* xr.MakeKey(t): the canonical object of the type *)
| KConst (v : Z) (t : term)            (* genericConstKey{val, MakeKey(t)}  (fix C35-1) *)
| KConstOld (v : Z).                   (* before the fix: the value alone *)

Definition key := list kelem.

Definition split_arg (a : carg) : option Z * term :=
  match a with AType t => (None, t) | AConst t v => (Some v, t) end.

(* func GenericKey(vals []I, types []xr.Type) I  -- one element per entry of types *)
Fixpoint generic_key (vals : list (option Z)) (types : list term) : key :=
  match types, vals with
  | t :: types', Some v :: vals' => KConst v t :: generic_key vals' types'
  | t :: types', None :: vals' => KType t :: generic_key vals' types'
  | _, _ => []
  end.

Fixpoint generic_key_old (vals : list (option Z)) (types : list term) : key :=
  match types, vals with
  | t :: types', Some v :: vals' => KConstOld v :: generic_key_old vals' types'
  | t :: types', None :: vals' => KType t :: generic_key_old vals' types'
  | _, _ => []
  end.

Definition key_of (cargs : list carg) : key :=
  generic_key (map (fun a => fst (split_arg a)) cargs) (map (fun a => snd (split_arg a)) cargs).
Definition key_of_old (cargs : list carg) : key :=
  generic_key_old (map (fun a => fst (split_arg a)) cargs) (map (fun a => snd (split_arg a)) cargs).

Definition kelem_eqb (a b : kelem) : bool :=
  match a, b with
  | KType x, KType y => term_eqb x y
  | KConst v x, KConst w y => Z.eqb v w && term_eqb x y
  | KConstOld v, KConstOld w => Z.eqb v w
  | _, _ => false
  end.
Fixpoint key_eqb (a b : key) : bool :=
  match a, b with
  | [], [] => true
  | x :: a', y :: b' => kelem_eqb x y && key_eqb a' b'
  | _, _ => false
  end.

(* ---------------------------------------------------------------- declarations and state *)
(* dkind: 0 = generic type (a new named type per instance), 1 = generic alias, 2 = generic function.
   dbody: the declared type (types, aliases) or the signature (functions); drefs: the further generic references the
   function body contains, in source order. *)
Record decl := mkDecl { dkind : N; dparams : list N; dbody : ty; drefs : list ty }.

(* GenericType.Instances / GenericFunc.Instances of every generic: association lists with unique keys (Go maps);
   owners: (generic, key) of every allocated instance, by allocation number *)
Record st := mkSt { caches : list (list (key * term)); owners : list (nat * key) }.

Fixpoint clookup (c : list (key * term)) (k : key) : option term :=
  match c with
  | [] => None
  | (k', v) :: c' => if key_eqb k' k then Some v else clookup c' k
  end.
Fixpoint cremove (c : list (key * term)) (k : key) : list (key * term) :=
  match c with
  | [] => []
  | (k', v) :: c' => if key_eqb k' k then cremove c' k else (k', v) :: cremove c' k
  end.
(* m[k] = v *)
Definition cstore (c : list (key * term)) (k : key) (v : term) : list (key * term) := (k, v) :: cremove c k.

Definition cache_of (s : st) (g : nat) : list (key * term) := nth g (caches s) [].
Definition lookup (s : st) (g : nat) (k : key) : option term := clookup (cache_of s g) k.
Definition store (s : st) (g : nat) (k : key) (v : term) : st :=
  mkSt (set_nth (caches s) g (cstore (cache_of s g) k v)) (owners s).
Definition alloc (s : st) (g : nat) (k : key) : st * nat :=
  (mkSt (caches s) (owners s ++ [(g, k)]), length (owners s)).

(* ---------------------------------------------------------------- scopes: injectBinds *)
Definition scope := list (N * carg).
Fixpoint assoc (x : N) (sc : scope) : option carg :=
  match sc with
  | [] => None
  | (y, c) :: sc' => if N.eqb y x then Some c else assoc x sc'
  end.
(* special.injectBinds(c): for i, name := range Params { declTypeAlias(name, types[i]) / DeclConst0(name, t, val, t) }
   in the fresh Comp created by NewComp(maker.comp, nil): a later declaration of the same name replaces the earlier *)
Definition inject (params : list N) (cargs : list carg) : scope := rev (combine params cargs).
(* an identifier not bound by the fresh scope is resolved in the enclosing scopes: there every name denotes its own
   canonical type (TBasic x: opaque identity) *)
Definition resolve_name (sc : scope) (x : N) : carg :=
  match assoc x sc with Some c => c | None => AType (TBasic x) end.

(* ---------------------------------------------------------------- resolution and instantiation *)
Definition as_type (r : option (st * carg)) : option (st * term) :=
  match r with Some (s, AType t) => Some (s, t) | _ => None end.
Fixpoint all_types (l : list carg) : option (list term) :=
  match l with
  | [] => Some []
  | AType t :: l' => match all_types l' with Some ts => Some (t :: ts) | None => None end
  | AConst _ _ :: _ => None
  end.

(* the generic references of a function body, compiled in order *)
Definition res_refs (r : ty -> st -> option (st * carg)) : list ty -> st -> option st :=
  fix go (l : list ty) (s : st) {struct l} : option st :=
  match l with
  | [] => Some s
  | x :: l' => match r x s with Some (s1, _) => go l' s1 | None => None end
  end.

Definition is_func (ds : list decl) (g : nat) : bool :=
  match nth_error ds g with Some d => negb (N.eqb (dkind d) 0 || N.eqb (dkind d) 1) | None => false end.

(* Comp.GenericType / Comp.genericFunc after the arguments were resolved.  [rec] compiles a type expression in a given
   scope (the recursive call of the compiler on the body of the generic). *)
Definition instantiate (rec recx : scope -> ty -> st -> option (st * carg)) (ds : list decl)
    (g : nat) (cargs : list carg) (s : st) : option (st * term) :=
  match nth_error ds g with
  | None => None                                         (* "undefined identifier" *)
  | Some d =>
      if negb (Nat.eqb (length (dparams d)) (length cargs)) then None   (* "expects exactly n generic parameters" *)
      else
        let k := key_of cargs in
        match lookup s g k with
        | Some v => Some (s, v)                          (* found instantiated generic *)
        | None =>
            let sc := inject (dparams d) cargs in
            let res_refs := res_refs (recx sc) in
            if N.eqb (dkind d) 1 then
              (* alias: t = c.Type(decl); typ.Instances[key] = t *)
              match as_type (rec sc (dbody d) s) with
              | Some (s1, v) => Some (store s1 g k v, v)
              | None => None
              end
            else if N.eqb (dkind d) 0 then
              (* t = NamedOf(...); typ.Instances[key] = t; u := c.Type(decl); SetUnderlyingType(t, u) *)
              let '(s0, id) := alloc s g k in
              let v := TNamed (N.of_nat id) in
              match rec sc (dbody d) (store s0 g k v) with
              | Some (s1, _) => Some (s1, v)
              | None => None
              end
            else
              (* t := c.TypeFunction(decl.Type); fun.Instances[key] = instance; c.FuncLit(decl) *)
              match rec sc (dbody d) s with
              | Some (s1, _) =>
                  let '(s2, id) := alloc s1 g k in
                  let v := TNamed (N.of_nat id) in
                  match res_refs (drefs d) (store s2 g k v) with
                  | Some s3 => Some (s3, v)
                  | None => None
                  end
              | None => None
              end
        end
  end.

(* resolution of a list of expressions / of struct fields, left to right, threading the state
   ([r] = the resolver of one expression; top-level so that the nested recursion of [resolve] unfolds them) *)
Definition res_list (r : ty -> st -> option (st * carg)) : list ty -> st -> option (st * list carg) :=
  fix go (l : list ty) (s : st) {struct l} : option (st * list carg) :=
  match l with
  | [] => Some (s, [])
  | x :: l' =>
      match r x s with
      | Some (s1, c) => match go l' s1 with Some (s2, cs) => Some (s2, c :: cs) | None => None end
      | None => None
      end
  end.
Definition res_fields (r : ty -> st -> option (st * carg)) : list (N * ty) -> st -> option (st * list (N * term)) :=
  fix go (l : list (N * ty)) (s : st) {struct l} : option (st * list (N * term)) :=
  match l with
  | [] => Some (s, [])
  | (n, x) :: l' =>
      match as_type (r x s) with
      | Some (s1, c) => match go l' s1 with Some (s2, cs) => Some (s2, (n, c) :: cs) | None => None end
      | None => None
      end
  end.

(* Comp.Type / Expr1OrType on the modelled fragment.  fuel bounds the depth of nested instantiations (a generic whose
   body instantiates itself with ever larger arguments does not terminate in the interpreter either): None = error
   or fuel exhausted, never a value.
   xpos = true: the expression is a generic reference in expression position (Comp.GenericFunc, or a type used in an
   expression): only there the generic may be a function; its arguments and every nested expression are in type
   position. *)
Fixpoint resolve (fuel : nat) (ds : list decl) (xpos : bool) (sc : scope) (t : ty) (s : st) {struct fuel}
    : option (st * carg) :=
  match fuel with
  | O => None
  | S f =>
      (fix res (xp : bool) (t : ty) (s : st) {struct t} : option (st * carg) :=
         let res := res false in
         match t with
         | TyName x => Some (s, resolve_name sc x)
         | TyConst tn v => match resolve_name sc tn with AType ct => Some (s, AConst ct v) | _ => None end
         | TyPtr e => match as_type (res e s) with Some (s1, c) => Some (s1, AType (TPtr c)) | None => None end
         | TySlice e => match as_type (res e s) with Some (s1, c) => Some (s1, AType (TSlice c)) | None => None end
         | TyChan e => match as_type (res e s) with Some (s1, c) => Some (s1, AType (TChan 3 c)) | None => None end
         | TyArray n e =>
             match res n s with
             | Some (s1, AConst _ len) =>
                 match as_type (res e s1) with Some (s2, c) => Some (s2, AType (TArray len c)) | None => None end
             | _ => None
             end
         | TyMap k e =>
             match as_type (res k s) with
             | Some (s1, ck) => match as_type (res e s1) with Some (s2, ce) => Some (s2, AType (TMap ck ce)) | None => None end
             | None => None
             end
         | TyFunc ins outs =>
             match res_list (fun x s0 => res x s0) ins s with
             | Some (s1, ci) =>
                 match res_list (fun x s0 => res x s0) outs s1 with
                 | Some (s2, co) =>
                     match all_types ci, all_types co with
                     | Some ti, Some tout => Some (s2, AType (TFunc ti tout false))
                     | _, _ => None
                     end
                 | None => None
                 end
             | None => None
             end
         | TyStruct fs => match res_fields (fun x s0 => res x s0) fs s with Some (s1, cf) => Some (s1, AType (TStruct cf)) | None => None end
         | TyInst g args =>
             (* Comp.Type -> Comp.GenericType: genericMaker(node, GenericTypeBind) rejects a generic function
                ("symbol is not a generic type, cannot use #[...] on it") *)
             if is_func ds g && negb xp then None else
             match res_list (fun x s0 => res x s0) args s with
             | Some (s1, cargs) =>
                 match instantiate (resolve f ds false) (resolve f ds true) ds g cargs s1 with
                 | Some (s2, v) => Some (s2, AType v)
                 | None => None
                 end
             | None => None
             end
         end) xpos t s
  end.

(* textual substitution of the parameters by argument expressions (no binders occur in type expressions) *)
Fixpoint tassoc (x : N) (sg : list (N * ty)) : option ty :=
  match sg with
  | [] => None
  | (y, a) :: sg' => if N.eqb y x then Some a else tassoc x sg'
  end.
Fixpoint subst (sg : list (N * ty)) (t : ty) : ty :=
  let subst_list := fix subst_list (l : list ty) : list ty :=
    match l with [] => [] | x :: l' => subst sg x :: subst_list l' end in
  match t with
  | TyName x => match tassoc x sg with Some a => a | None => TyName x end
  | TyConst tn v => TyConst tn v
  | TyPtr e => TyPtr (subst sg e)
  | TySlice e => TySlice (subst sg e)
  | TyChan e => TyChan (subst sg e)
  | TyArray n e => TyArray (subst sg n) (subst sg e)
  | TyMap k e => TyMap (subst sg k) (subst sg e)
  | TyFunc ins outs => TyFunc (subst_list ins) (subst_list outs)
  | TyStruct fs => TyStruct ((fix sf (l : list (N * ty)) : list (N * ty) :=
                                match l with [] => [] | (n, x) :: l' => (n, subst sg x) :: sf l' end) fs)
  | TyInst g args => TyInst g (subst_list args)
  end.
(* the substitution that corresponds to injectBinds (later parameters of the same name win) *)
Definition tinject (params : list N) (args : list ty) : list (N * ty) := rev (combine params args).

(* ---------------------------------------------------------------- histories *)
(* one evaluated source text: the generic references it contains, compiled in order at package level;
   o_probe marks the identity probes (sources consisting of one reference whose resulting type is observed) *)
Record op := mkOp { o_refs : list ty; o_probe : bool }.

Definition empty (ds : list decl) : st := mkSt (map (fun _ => []) ds) [].

Fixpoint run_refs (fuel : nat) (ds : list decl) (l : list ty) (s : st) (last : option carg) : option (st * option carg) :=
  match l with
  | [] => Some (s, last)
  | x :: l' =>
      match resolve fuel ds true [] x s with
      | Some (s1, c) => run_refs fuel ds l' s1 (Some c)
      | None => None
      end
  end.

Fixpoint run (fuel : nat) (ds : list decl) (ops : list op) (s : st) : option st :=
  match ops with
  | [] => Some s
  | o :: ops' =>
      match run_refs fuel ds (o_refs o) s None with
      | Some (s1, _) => run fuel ds ops' s1
      | None => None
      end
  end.

(* ---------------------------------------------------------------- correspondence *)
Definition carg_eqb (a b : carg) : bool :=
  match a, b with
  | AType x, AType y => term_eqb x y
  | AConst x v, AConst y w => term_eqb x y && Z.eqb v w
  | _, _ => false
  end.

Record obs := mkObs { ob_sizes : list N; ob_first : Z }.
Record case := mkCase { c_idx : Z; c_decls : list decl; c_ops : list op; c_obs : list obs }.

Definition sizes (s : st) : list N := map (fun c => N.of_nat (length c)) (caches s).

(* probes seen so far: (index of the op, resulting type) *)
Fixpoint first_probe (seen : list (Z * carg)) (c : carg) (self : Z) : Z :=
  match seen with
  | [] => self
  | (i, c') :: seen' => if carg_eqb c' c then i else first_probe seen' c self
  end.

Fixpoint observe (fuel : nat) (ds : list decl) (ops : list op) (s : st) (i : Z) (seen : list (Z * carg)) : list obs :=
  match ops with
  | [] => []
  | o :: ops' =>
      match run_refs fuel ds (o_refs o) s None with
      | Some (s1, Some c) =>
          if o_probe o then mkObs (sizes s1) (first_probe seen c i) :: observe fuel ds ops' s1 (i + 1)%Z (seen ++ [(i, c)])
          else mkObs (sizes s1) (-1)%Z :: observe fuel ds ops' s1 (i + 1)%Z seen
      | Some (s1, None) => mkObs (sizes s1) (-1)%Z :: observe fuel ds ops' s1 (i + 1)%Z seen
      | None => [mkObs [] (-2)%Z]      (* error / fuel exhausted: never equal to an observation *)
      end
  end.

Fixpoint ns_eqb (a b : list N) : bool :=
  match a, b with
  | [], [] => true
  | x :: a', y :: b' => N.eqb x y && ns_eqb a' b'
  | _, _ => false
  end.
Fixpoint obs_eqb (a b : list obs) : bool :=
  match a, b with
  | [], [] => true
  | x :: a', y :: b' => ns_eqb (ob_sizes x) (ob_sizes y) && Z.eqb (ob_first x) (ob_first y) && obs_eqb a' b'
  | _, _ => false
  end.

Definition case_ok (c : case) : bool :=
  obs_eqb (observe 64 (c_decls c) (c_ops c) (empty (c_decls c)) 0%Z []) (c_obs c).
Definition mismatches (cs : list case) : list Z := map c_idx (filter (fun c => negb (case_ok c)) cs).

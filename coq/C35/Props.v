(* C35 — property theorems only: each closed by [exact lemma], followed by Print Assumptions. *)
From Coq Require Import List NArith ZArith Bool.
From Verif Require Import C29.Model C29.Proof C35.Model C35.Proof C35.Subst C35.FailModel C35.FailProof C35.FailAgree.
Import ListNotations.

(* GenericKey (after fix C35-1) determines the argument list: for every pair of (vals, types) vectors of the lengths
   genericMaker builds, equal keys mean identical constants and identical (canonical) types *)
Theorem C35_key_injective : forall types vals types' vals',
  length vals = length types -> length vals' = length types' ->
  generic_key vals types = generic_key vals' types' -> vals = vals' /\ types = types'.
Proof. exact generic_key_inj. Qed.
Print Assumptions C35_key_injective.

Theorem C35_key_injective_args : forall a b, key_of a = key_of b -> a = b.
Proof. exact key_of_inj. Qed.
Print Assumptions C35_key_injective_args.

(* the key as it was before fix C35-1 (constant arguments by value only) is NOT injective: the witness
   [MyInt(3)] / [OtherInt(3)] is finding C35-1, replayed on the interpreter by harness/cmd/c35 (corpus/C35, file 01) *)
Theorem C35_key_old_refuted : exists a b, key_of_old a = key_of_old b /\ a <> b.
Proof. exact key_old_collision. Qed.
Print Assumptions C35_key_old_refuted.

(* distinct resolved argument lists never share a cache slot *)
Theorem C35_memo_distinct_keys : forall a b, a <> b -> key_eqb (key_of a) (key_of b) = false.
Proof. exact distinct_keys. Qed.
Print Assumptions C35_memo_distinct_keys.

(* one step: a cached (generic, arguments) is returned unchanged and nothing is compiled *)
Theorem C35_memo_hit : forall rec recx ds g cargs s d v,
  nth_error ds g = Some d -> length (dparams d) = length cargs ->
  lookup s g (key_of cargs) = Some v ->
  instantiate rec recx ds g cargs s = Some (s, v).
Proof. exact instantiate_hit. Qed.
Print Assumptions C35_memo_hit.

(* every compilation step (any expression, any scope, any fuel) only adds entries to the caches of generic types and
   functions: no instance is ever dropped or replaced.  Induction on the nesting of instantiations and on the
   structure of the expression. *)
Theorem C35_caches_only_grow : forall ds fuel xp sc t s s' c, length (caches s) = length ds ->
  resolve fuel ds xp sc t s = Some (s', c) -> keeps ds s s' /\ length (caches s') = length ds.
Proof. exact resolve_keeps. Qed.
Print Assumptions C35_caches_only_grow.

(* C35_memo: for EVERY history [ops] evaluated in between (any generics, any arguments, nested and recursive
   instantiations included), instantiating the same generic type or function with the same resolved arguments again
   returns the object of the first instantiation and does not touch the state *)
Theorem C35_memo : forall ds f1 f2 f3 g d cargs s0 s1 v1 ops s2 s3 v2,
  length (caches s0) = length ds -> nth_error ds g = Some d -> dkind d <> 1%N ->
  instantiate (resolve f1 ds false) (resolve f1 ds true) ds g cargs s0 = Some (s1, v1) ->
  run f2 ds ops s1 = Some s2 ->
  instantiate (resolve f3 ds false) (resolve f3 ds true) ds g cargs s2 = Some (s3, v2) ->
  v2 = v1 /\ s3 = s2.
Proof. exact memo. Qed.
Print Assumptions C35_memo.

(* C35_alias_is_substitution: compiling an expression of the generic's body in the fresh scope where injectBinds
   declared the parameters gives the same object and the same state as compiling the textually substituted
   expression at package level - by structural induction, for every expression, state and position.
   Premises (stated for an arbitrary fresh scope sc and substitution sg over the same names):
     bound    the argument expression put in place of a parameter denotes, wherever it is compiled, the object the
              parameter was bound to and compiling it changes nothing (capture-freedom: the argument means in the
              declaring scope what it meant at the instantiation site; for Name#[..] arguments this is memoisation);
     unbound  the fresh scope binds only the parameters (a parameter shadows an outer name in both readings);
     no_param_const  the type name of a constant expression inside the body is not itself a parameter. *)
Theorem C35_alias_is_substitution : forall ds f sc sg,
  (forall x a, tassoc x sg = Some a ->
     exists c, assoc x sc = Some c /\ forall xp s, resolve (S f) ds xp [] a s = Some (s, c)) ->
  (forall x, tassoc x sg = None -> assoc x sc = None) ->
  forall t, no_param_const sg t ->
  forall xp s, resolve (S f) ds xp sc t s = resolve (S f) ds xp [] (subst sg t) s.
Proof. exact alias_is_substitution. Qed.
Print Assumptions C35_alias_is_substitution.

(* ---------------- non-vacuity ---------------- *)
(* names: 10 int, 11 string, 1 = parameter A, 2 = parameter B.
   generic 0: type Pair#[A,B] struct{First A; Second B};  generic 1: type List#[A] struct{First A; Rest *List#[A]};
   generic 2: func Swap#[A,B](p Pair#[A,B]) Pair#[B,A] *)
Definition ex_ds : list decl :=
  [mkDecl 0 [1%N; 2%N] (TyStruct [(0%N, TyName 1); (1%N, TyName 2)]) [];
   mkDecl 0 [1%N] (TyStruct [(0%N, TyName 1); (1%N, TyPtr (TyInst 1 [TyName 1]))]) [];
   mkDecl 2 [1%N; 2%N] (TyFunc [TyInst 0 [TyName 1; TyName 2]] [TyInst 0 [TyName 2; TyName 1]]) [TyInst 0 [TyName 2; TyName 1]]].
Definition ex_ops : list op :=
  [mkOp [TyInst 0 [TyName 10; TyName 11]] true;          (* Pair#[int,string] *)
   mkOp [TyInst 2 [TyName 10; TyName 11]] false;         (* Swap#[int,string]: instantiates Pair#[string,int] *)
   mkOp [TyInst 0 [TyName 11; TyName 10]] true;          (* Pair#[string,int]: cached, a different object *)
   mkOp [TyInst 1 [TyInst 0 [TyName 10; TyName 11]]] true; (* List#[Pair#[int,string]]: recursive *)
   mkOp [TyInst 0 [TyName 10; TyName 11]] true].         (* Pair#[int,string] again: the first object *)
Example C35_ex_observe : observe 8 ex_ds ex_ops (empty ex_ds) 0%Z [] =
  [mkObs [1;0;0]%N 0; mkObs [2;0;1]%N (-1); mkObs [2;0;1]%N 2; mkObs [2;1;1]%N 3; mkObs [2;1;1]%N 0]%Z.
Proof. vm_compute. reflexivity. Qed.

(* the body of Swap under the injected aliases A := int, B := Pair#[int,string] = the substituted body *)
Example C35_ex_subst :
  let s := match run 8 ex_ds ex_ops (empty ex_ds) with Some s => s | None => empty ex_ds end in
  let body := TyFunc [TyInst 0 [TyName 1; TyName 2]] [TyInst 1 [TyName 2]] in
  resolve 8 ex_ds false (inject [1%N; 2%N] [AType (TBasic 10); AType (TNamed 0)]) body s =
  resolve 8 ex_ds false [] (subst (tinject [1%N; 2%N] [TyName 10; TyInst 0 [TyName 10; TyName 11]]) body) s
  /\ resolve 8 ex_ds false [] (subst (tinject [1%N; 2%N] [TyName 10; TyInst 0 [TyName 10; TyName 11]]) body) s <> None.
Proof. vm_compute. split; [reflexivity|discriminate]. Qed.

(* ---------------- failing instantiations and late declarations (FailModel.v: instantiateE / resolveE return
   [Ok s v] or [Err s], the state of the instance caches when the compilation panicked, after the deferred
   delete(Instances, key) of every instantiation in progress) ---------------- *)

(* a failed instantiation is rolled back: whatever compiling the body did (ANY rec/recx, i.e. any body, any nesting of
   further instantiations, any error), the key of the failed (generic, arguments) is absent from the cache of the
   generic afterwards, as it was before the attempt - no half-built instance stays behind *)
Theorem C35_failed_instantiation_rolled_back : forall rec recx ds g cargs s s',
  lookup s g (key_of cargs) = None ->
  instantiateE rec recx ds g cargs s = Err s' ->
  lookup s' g (key_of cargs) = None.
Proof. exact instantiateE_err_rolled_back. Qed.
Print Assumptions C35_failed_instantiation_rolled_back.

(* hence the next attempt with identical arguments (e.g. after the missing name was declared) does not return a
   leftover: it allocates a fresh instance and compiles the body again *)
Theorem C35_failed_instantiation_retry_recompiles : forall rec recx ds g d cargs s s1,
  nth_error ds g = Some d -> dkind d = 0%N -> length (dparams d) = length cargs ->
  lookup s g (key_of cargs) = None ->
  instantiateE rec recx ds g cargs s = Err s1 ->
  forall rec' recx', instantiateE rec' recx' ds g cargs s1 =
    let '(s0, id) := alloc s1 g (key_of cargs) in
    let v := TNamed (N.of_nat id) in
    match rec' (inject (dparams d) cargs) (dbody d) (store s0 g (key_of cargs) v) with
    | Ok s2 _ => Ok s2 v
    | Err s2 => Err (remove s2 g (key_of cargs))
    end.
Proof. exact instantiateE_retry_recompiles. Qed.
Print Assumptions C35_failed_instantiation_retry_recompiles.

(* a compilation that fails - at any depth of nested instantiations, for every expression, scope and set of
   declarations evaluated so far - removes or changes NO instance of a generic type or function that was cached before
   it started (instances completed before the error also stay) *)
Theorem C35_failure_keeps_instances : forall ds av fuel xp sc t s, length (caches s) = length ds ->
  keeps ds s (state_of (resolveE fuel ds av xp sc t s)).
Proof. exact resolveE_keeps. Qed.
Print Assumptions C35_failure_keeps_instances.

(* memoisation over histories that contain failed evaluations and late declarations *)
Theorem C35_memo_across_failures : forall ds fuel g d k v s ops av,
  length (caches s) = length ds -> nth_error ds g = Some d -> dkind d <> 1%N ->
  lookup s g k = Some v -> lookup (fst (runE fuel ds ops av s)) g k = Some v.
Proof. exact memo_across_failures. Qed.
Print Assumptions C35_memo_across_failures.

(* the two models agree: when every declaration is available from the start and none is a plain late declaration,
   the successful compilations of the model with failures are exactly those of C35.Model (same state, same result), so
   C35_memo / C35_alias_is_substitution / C35_caches_only_grow speak about the successful runs of resolveE *)
Theorem C35_fail_model_agrees : forall ds av, all_declared ds av ->
  forall fuel xp sc t s, erase (resolveE fuel ds av xp sc t s) = resolve fuel ds xp sc t s.
Proof. exact resolveE_agrees. Qed.
Print Assumptions C35_fail_model_agrees.

(* non-vacuity: generic 0: type Hold#[T] struct{V T; L LateRec};  1: the plain type LateRec, declared LATE;
   generic 2: func Use#[T](x T) { ... Hold#[T] ... LateRec ... }.  Hold#[int] fails, Use#[int] fails inside the nested
   Hold#[int] (both keys removed again: all caches empty), LateRec is declared, Use#[int] now compiles (and leaves
   Hold#[int] cached), Hold#[int] is the cached object on both later probes *)
Definition ex_ds_late : list decl :=
  [ mkDecl 0 [1%N] (TyStruct [(0%N, TyName 1); (1%N, TyInst 1 [])]) [];
    mkDecl 3 [] (TyName 0) [];
    mkDecl 2 [1%N] (TyFunc [TyName 1] []) [TyInst 0 [TyName 1]; TyInst 1 []] ].
Definition ex_ops_late : list opE :=
  [ EEval [TyInst 0 [TyName 5]] true; EEval [TyInst 2 [TyName 5]] false; EDeclare 1;
    EEval [TyInst 2 [TyName 5]] false; EEval [TyInst 0 [TyName 5]] true; EEval [TyInst 0 [TyName 5]] true ].
Example C35_ex_fail_then_succeed :
  observeE 64 ex_ds_late ex_ops_late [true; false; true] (empty ex_ds_late) 0%Z [] =
  [mkObs [0;0;0]%N (-3); mkObs [0;0;0]%N (-3); mkObs [0;0;0]%N (-4); mkObs [1;0;1]%N (-1); mkObs [1;0;1]%N 4; mkObs [1;0;1]%N 4]%Z.
Proof. vm_compute. reflexivity. Qed.
Example C35_ex_rolled_back_hyp :
  exists s', instantiateE (resolveE 8 ex_ds_late [true; false; true] false) (resolveE 8 ex_ds_late [true; false; true] true)
               ex_ds_late 0 [AType (TBasic 5)] (empty ex_ds_late) = Err s'
             /\ lookup (empty ex_ds_late) 0 (key_of [AType (TBasic 5)]) = None.
Proof. eexists. vm_compute. split; reflexivity. Qed.
Example C35_ex_all_declared : all_declared ex_ds [true; true; true].
Proof. intros g d H. destruct g as [|[|[|g]]]; simpl in H; try (injection H as <-; split; reflexivity). destruct g; discriminate. Qed.

(* C11 — lemmas about the conversion closure (Model.v, section "conversion closure") *)
From Coq Require Import List NArith ZArith Bool Arith Lia.
From Verif Require Import C31.Model C11.Model.
Import ListNotations.

Lemma crun_app a : forall b vs h,
  crun (a ++ b) vs h = crun b (fst (crun a vs h)) (snd (crun a vs h)).
Proof.
  induction a as [|o a IH]; intros b vs h; [reflexivity|].
  destruct o; simpl; apply IH.
Qed.

(* the heap only grows at its end: what was allocated stays *)
Lemma crun_heap_prefix ops : forall vs h, exists t, snd (crun ops vs h) = h ++ t /\ length t = nconv ops.
Proof.
  induction ops as [|o ops IH]; intros vs h.
  - exists []. split; [symmetry; apply app_nil_r|reflexivity].
  - destruct o; simpl.
    + destruct (IH vs (h ++ [nth x vs 0%N])) as (t & E & L). exists (nth x vs 0%N :: t).
      split; [rewrite E, <- app_assoc; reflexivity|simpl; rewrite L; reflexivity].
    + apply IH.
Qed.

Lemma crun_heap_length ops vs : length (cread ops vs) = nconv ops.
Proof.
  unfold cread. destruct (crun_heap_prefix ops vs []) as (t & E & L). rewrite E. simpl. exact L.
Qed.

(* the interface value produced by a conversion holds the value the variable had AT the conversion, whatever happens
   afterwards: later assignments to the variable, later executions of the same conversion site *)
Lemma conversion_snapshot pre x post vs0 :
  nth_error (cread (pre ++ CConv x :: post) vs0) (nconv pre) = Some (nth x (fst (crun pre vs0 [])) 0%N).
Proof.
  unfold cread. rewrite crun_app. simpl.
  destruct (crun_heap_prefix pre vs0 []) as (t & E & L). rewrite E. simpl.
  set (vs1 := fst (crun pre vs0 [])).
  destruct (crun_heap_prefix post vs1 (t ++ [nth x vs1 0%N])) as (t2 & E2 & L2). rewrite E2.
  rewrite <- app_assoc. rewrite nth_error_app2; [|lia]. rewrite L, Nat.sub_diag. reflexivity.
Qed.

(* two executions of the site never share their object: each has its own cell *)
Lemma conversions_distinct_cells ops vs0 : length (cread ops vs0) = nconv ops.
Proof. apply crun_heap_length. Qed.

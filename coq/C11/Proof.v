(* C11 — lemmas about the vtable fill. *)
From Coq Require Import List NArith ZArith Bool.
From Verif Require Import C31.Model C31.Proof C11.Model.
Import ListNotations.
Open Scope N_scope.

Section VT.
Variable M : Type.

Lemma fill_ok_slots tm : forall ims slots, fill M ims tm = FillOk M slots ->
  length slots = length ims /\
  forall i n, nth_error ims i = Some n -> exists impl, nth_error slots i = Some impl /\ method_by_name M tm n = [impl].
Proof.
  induction ims as [|n r IH]; simpl; intros slots H.
  - injection H as <-. split; [reflexivity|]. intros [|i] x Hx; discriminate.
  - destruct (method_by_name M tm n) as [|m [|m' l]] eqn:E; try discriminate.
    destruct (fill M r tm) as [s| |] eqn:F; try discriminate. injection H as <-.
    destruct (IH s eq_refl) as [L N]. split; [simpl; congruence|].
    intros [|i] x Hx; simpl in *.
    + injection Hx as <-. eauto.
    + apply N. exact Hx.
Qed.

Lemma fill_missing tm : forall ims n, fill M ims tm = FillMissing M n -> In n ims /\ method_by_name M tm n = [].
Proof.
  induction ims as [|x r IH]; simpl; intros n H; [discriminate|].
  destruct (method_by_name M tm x) as [|m [|m' l]] eqn:E; try discriminate.
  - injection H as <-. auto.
  - destruct (fill M r tm) as [s|y|y] eqn:F; try discriminate. injection H as <-.
    destruct (IH y eq_refl). auto.
Qed.

Lemma fill_ambiguous tm : forall ims n, fill M ims tm = FillAmbiguous M n ->
  In n ims /\ (length (method_by_name M tm n) >= 2)%nat.
Proof.
  induction ims as [|x r IH]; simpl; intros n H; [discriminate|].
  destruct (method_by_name M tm x) as [|m [|m' l]] eqn:E; try discriminate.
  - destruct (fill M r tm) as [s|y|y] eqn:F; try discriminate. injection H as <-.
    destruct (IH y eq_refl). auto.
  - injection H as <-. split; [auto|]. rewrite E. simpl. auto with arith.
Qed.
End VT.

(* the i-th interface method of a checked proxy, a vtable filled by name: slot i (= Field(i+1)) holds the source type's
   unique method of the SAME NAME as the proxy method whose body calls exactly the field Field(i+1) is *)
Lemma vtable_by_name idO idB (M : Type) px : c11_proxy_ok idO idB px = true ->
  forall i m, nth_error (px_methods px) i = Some m ->
  forall (tm : mtable M) slots, fill M (map m_name (px_methods px)) tm = FillOk M slots ->
  (exists f, nth_error (px_fields px) (S i) = Some f /\ fd_base f = m_name m /\ fd_us f = true)
  /\ (exists impl, nth_error slots i = Some impl /\ method_by_name M tm (m_name m) = [impl])
  /\ (forall (V : Type) (object : V) (args : list V), length args = length (m_params m) ->
        exec V m object args = Some (mkCall V (m_name m) true (object :: args) true))
  /\ NoDup (map m_name (px_methods px)) /\ NoDup (map fd_name (px_fields px)).
Proof.
  unfold c11_proxy_ok. intros H i m Hm tm slots F.
  apply andb_true_iff in H as [H H3]. apply andb_true_iff in H as [H1 H2].
  unfold proxy_ok in H1. apply andb_true_iff in H1 as [S MS]. rewrite forallb_forall in MS.
  pose proof (struct_ok_layout idO px S) as L. split; [|split; [|split; [|split]]].
  - eapply layout_field_of_method; eauto.
  - destruct (fill_ok_slots M tm _ _ F) as [_ N]. apply N. rewrite nth_error_map, Hm. reflexivity.
  - intros V. apply (method_ok_exec idB V px m). apply MS. eapply nth_error_In; eauto.
  - apply nodupN_NoDup. exact H2.
  - unfold struct_ok in S. destruct (px_fields px); [discriminate|].
    repeat match type of S with (_ && _ = true) => apply andb_true_iff in S as [S ?] end.
    apply nodupN_NoDup. assumption.
Qed.

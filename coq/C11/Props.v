(* C11 — property theorems, part 1 (closed).  Part 2 (/verif/coq_gen/C11/TableProps.v) instantiates them on the proxy
   tables regenerated from $VERIF_REPO/imports on every run.
   C11_foreign_goroutine_gets_own_run is C33's theorem (coq/C33: C33_owner_invariant — every frame allocation by a
   goroutine uses the run record owned by that goroutine, over all interleavings); it is not restated here. *)
From Coq Require Import List NArith ZArith Bool.
From Verif Require Import C31.Model C31.Proof C11.Model C11.Proof C11.Conv.
Import ListNotations.
Open Scope N_scope.

(* converterToProxy's loop: when it succeeds, the value stored in Field(i+1) is THE method of the source type whose name
   is the name of interface method i (found exactly once); when it fails, the named method is missing / ambiguous *)
Theorem C11_vtable_fill_by_name : forall (M : Type) (tm : mtable M) ims slots, fill M ims tm = FillOk M slots ->
  length slots = length ims /\
  forall i n, nth_error ims i = Some n -> exists impl, nth_error slots i = Some impl /\ method_by_name M tm n = [impl].
Proof. exact (fun M tm => fill_ok_slots M tm). Qed.
Print Assumptions C11_vtable_fill_by_name.

Theorem C11_vtable_fill_missing : forall (M : Type) (tm : mtable M) ims n, fill M ims tm = FillMissing M n ->
  In n ims /\ method_by_name M tm n = [].
Proof. exact (fun M tm => fill_missing M tm). Qed.
Print Assumptions C11_vtable_fill_missing.

Theorem C11_vtable_fill_ambiguous : forall (M : Type) (tm : mtable M) ims n, fill M ims tm = FillAmbiguous M n ->
  In n ims /\ (length (method_by_name M tm n) >= 2)%nat.
Proof. exact (fun M tm => fill_ambiguous M tm). Qed.
Print Assumptions C11_vtable_fill_ambiguous.

(* a checked proxy + a vtable filled by name: calling interface method i reaches the source type's method of that name,
   with the wrapped object first and the arguments in order, results returned unchanged *)
Theorem C11_proxy_call_reaches_named_method_sound : forall idO idB (M : Type) px, c11_proxy_ok idO idB px = true ->
  forall i m, nth_error (px_methods px) i = Some m ->
  forall (tm : mtable M) slots, fill M (map m_name (px_methods px)) tm = FillOk M slots ->
  (exists f, nth_error (px_fields px) (S i) = Some f /\ fd_base f = m_name m /\ fd_us f = true)
  /\ (exists impl, nth_error slots i = Some impl /\ method_by_name M tm (m_name m) = [impl])
  /\ (forall (V : Type) (object : V) (args : list V), length args = length (m_params m) ->
        exec V m object args = Some (mkCall V (m_name m) true (object :: args) true))
  /\ NoDup (map m_name (px_methods px)) /\ NoDup (map fd_name (px_fields px)).
Proof. exact vtable_by_name. Qed.
Print Assumptions C11_proxy_call_reaches_named_method_sound.

(* non-vacuity: sort.Interface-like proxy (Len, Less, Swap) and a type declaring Swap, Extra, Len, Less in that order *)
Example fill_example :
  fill N [1; 2; 3] [(3, 30); (9, 90); (1, 10); (2, 20)] = FillOk N [10; 20; 30].
Proof. reflexivity. Qed.
Example fill_missing_example : fill N [1; 2; 3] [(3, 30); (1, 10)] = FillMissing N 2.
Proof. reflexivity. Qed.
Example fill_ambiguous_example : fill N [1] [(1, 10); (1, 11)] = FillAmbiguous N 1.
Proof. reflexivity. Qed.

(* ---------- the closure returned by converterToProxy (one execution of a conversion to a compiled interface) ----------
   for every sequence of executions of ONE conversion site (CConv x: convert the current value of variable x) interleaved
   with assignments to the variables (CSet): the interface value produced by an execution holds the value the variable had
   at that moment - independent of everything that happens afterwards (later assignments to the variable: the value was
   copied by MakeInterfaceHeader; later executions of the same site: each execution allocates its own proxy object) *)
Theorem C11_conversion_snapshot : forall pre x post vs0,
  nth_error (cread (pre ++ CConv x :: post) vs0) (nconv pre) = Some (nth x (fst (crun pre vs0 [])) 0).
Proof. exact conversion_snapshot. Qed.
Print Assumptions C11_conversion_snapshot.

Theorem C11_conversion_one_object_per_execution : forall ops vs0, length (cread ops vs0) = nconv ops.
Proof. exact conversions_distinct_cells. Qed.
Print Assumptions C11_conversion_one_object_per_execution.

Example conversion_example : cread [CConv 0; CSet 0 7; CConv 0; CSet 0 9] [1] = [1; 7].
Proof. reflexivity. Qed.

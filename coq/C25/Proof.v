(* C25 — lemmas: the printer's parenthesisation composed with the C24 parser model. *)
From Coq Require Import List NArith ZArith Bool Lia.
From Verif Require Import C24.Model C24.Proof C25.Model.
Import ListNotations.
Open Scope Z_scope.

Lemma flatten_pwrap : forall b e, flatten (pwrap b e) = wrap b (flatten e).
Proof. destruct b; reflexivity. Qed.

(* the printed tokens are the in-order traversal of the normalised tree *)
Lemma print_is_flatten_norm : forall e p, print e p = flatten (norm e p).
Proof.
  unfold print. induction e as [n|x IH|x IH|o x IH|x IHx o y IHy]; intros p; simpl.
  - reflexivity.
  - specialize (IH LowestPrec). remember (print_gen UnaryPrec x LowestPrec) as P. remember (norm x LowestPrec) as Nn.
    destruct x; simpl; rewrite IH; reflexivity.
  - rewrite flatten_pwrap. simpl. rewrite IH. reflexivity.
  - rewrite flatten_pwrap. simpl. rewrite IH. reflexivity.
  - rewrite flatten_pwrap. simpl. rewrite IHx, IHy. reflexivity.
Qed.

Lemma strip_pwrap : forall b e, strip_parens (pwrap b e) = strip_parens e.
Proof. destruct b; reflexivity. Qed.

Lemma strip_norm : forall e p, strip_parens (norm e p) = strip_parens e.
Proof.
  induction e as [n|x IH|x IH|o x IH|x IHx o y IHy]; intros p; simpl.
  - reflexivity.
  - specialize (IH LowestPrec). remember (norm x LowestPrec) as Nn. remember (strip_parens x) as Sx.
    destruct x; simpl; exact IH.
  - rewrite strip_pwrap. simpl. rewrite IH. reflexivity.
  - rewrite strip_pwrap. simpl. rewrite IH. reflexivity.
  - rewrite strip_pwrap. simpl. rewrite IHx, IHy. reflexivity.
Qed.

Lemma lvl_pwrap_true : forall e, lvl (pwrap true e) = UnaryPrec.
Proof. reflexivity. Qed.

Lemma lvl_le6 : forall e, lvl e <= 6.
Proof. destruct e; simpl; unfold UnaryPrec; try lia. pose proof (prec_le5 o). lia. Qed.

(* the normalised tree binds at least as tightly as the context demands *)
Lemma norm_paren_lvl : forall x p, lvl (norm (EParen x) p) = UnaryPrec.
Proof.
  induction x as [n|x2 IH|x2 IH|o x2 IH|x2 IHx o y2 IHy]; intros p; try reflexivity.
  change (norm (EParen (EParen x2)) p) with (norm (EParen x2) LowestPrec). apply IH.
Qed.

Lemma lvl_norm : forall e p, p <= 6 -> p <= lvl (norm e p).
Proof.
  destruct e as [n|x|x|o x|x o y]; intros p Hp.
  - simpl. unfold UnaryPrec. lia.
  - rewrite norm_paren_lvl. unfold UnaryPrec. lia.
  - simpl. destruct (UnaryPrec <? p); simpl; unfold UnaryPrec; lia.
  - simpl. destruct (UnaryPrec <? p); simpl; unfold UnaryPrec; lia.
  - simpl. destruct (prec o <? p) eqn:C; simpl; unfold UnaryPrec; [lia|]. apply Z.ltb_ge in C. lia.
Qed.

Lemma wf_pwrap : forall b e, wf e -> wf (pwrap b e).
Proof. destruct b; simpl; auto. Qed.

Lemma norm_wf : forall e p, ops_ok e -> p <= 6 -> wf (norm e p).
Proof.
  induction e as [n|x IH|x IH|o x IH|x IHx o y IHy]; intros p O Hp; simpl in *.
  - exact I.
  - specialize (IH LowestPrec O ltac:(unfold LowestPrec; lia)). remember (norm x LowestPrec) as Nn.
    destruct x; simpl; exact IH.
  - apply wf_pwrap. simpl. split; [apply IH; [exact O | unfold UnaryPrec; lia]|].
    pose proof (lvl_norm x UnaryPrec ltac:(unfold UnaryPrec; lia)). pose proof (lvl_le6 (norm x UnaryPrec)). unfold UnaryPrec in *. lia.
  - destruct O as [Oo Ox]. apply wf_pwrap. simpl. split; [exact Oo|]. split; [apply IH; [exact Ox | unfold UnaryPrec; lia]|].
    pose proof (lvl_norm x UnaryPrec ltac:(unfold UnaryPrec; lia)). pose proof (lvl_le6 (norm x UnaryPrec)). unfold UnaryPrec in *. lia.
  - destruct O as [Po [Ox Oy]]. pose proof (prec_le5 o). apply wf_pwrap. simpl.
    split; [exact Po|]. split; [apply IHx; [exact Ox | lia]|]. split; [apply IHy; [exact Oy | lia]|].
    split.
    + apply lvl_norm. lia.
    + pose proof (lvl_norm y (prec o + 1) ltac:(lia)). lia.
Qed.

(* print, reparse: the parser model returns exactly the normalised tree, which equals the original modulo ParenExpr *)
Lemma reparse_expr : forall inRhs e, ops_ok e ->
  parseWhole inRhs (printExpr e) = Some (norm e LowestPrec) /\ strip_parens (norm e LowestPrec) = strip_parens e.
Proof.
  intros b e O. split; [|apply strip_norm].
  apply parseWhole_spec. split.
  - apply norm_wf; [exact O | unfold LowestPrec; lia].
  - unfold printExpr. symmetry. apply print_is_flatten_norm.
Qed.

(* ------------------------------------------------------------------ idempotence *)

Definition not_paren (e : expr) : Prop := match e with EParen _ => False | _ => True end.
Fixpoint nodbl (e : expr) : Prop :=
  match e with
  | EAtom _ => True
  | EParen x => not_paren x /\ nodbl x
  | EStar x => nodbl x
  | EUnary _ x => nodbl x
  | EBinary x _ y => nodbl x /\ nodbl y
  end.

(* a precedence-consistent tree without doubled parentheses is printed without any further parenthesis *)
Lemma norm_fix : forall t q, wf t -> nodbl t -> q <= lvl t -> norm t q = t.
Proof.
  induction t as [n|x IH|x IH|o x IH|x IHx o y IHy]; intros q W N Hq; simpl in *.
  - reflexivity.
  - destruct N as [NP N].
    assert (E : norm x LowestPrec = x) by (apply IH; [exact W | exact N | pose proof (wf_lvl _ W); unfold LowestPrec; lia]).
    remember (norm x LowestPrec) as Nn. destruct x; simpl in NP; try contradiction; simpl; rewrite E; reflexivity.
  - destruct W as [W L]. unfold UnaryPrec in Hq.
    assert (C : UnaryPrec <? q = false) by (apply Z.ltb_ge; unfold UnaryPrec; lia). rewrite C. simpl.
    rewrite IH; [reflexivity | exact W | exact N | lia].
  - destruct W as [_ [W L]]. unfold UnaryPrec in Hq.
    assert (C : UnaryPrec <? q = false) by (apply Z.ltb_ge; unfold UnaryPrec; lia). rewrite C. simpl.
    rewrite IH; [reflexivity | exact W | exact N | lia].
  - destruct W as [Po [Wx [Wy [Lx Ly]]]]. destruct N as [Nx Ny].
    assert (C : prec o <? q = false) by (apply Z.ltb_ge; lia). rewrite C. simpl.
    rewrite IHx; [| exact Wx | exact Nx | lia]. rewrite IHy; [reflexivity | exact Wy | exact Ny | lia].
Qed.

Lemma not_paren_norm0 : forall x, not_paren x -> not_paren (norm x LowestPrec).
Proof.
  destruct x; simpl; intros H; try exact I; try contradiction.
  pose proof (prec_nonneg o). assert (C : prec o <? LowestPrec = false) by (apply Z.ltb_ge; unfold LowestPrec; lia).
  rewrite C. exact I.
Qed.

Lemma nodbl_pwrap : forall b e, not_paren e -> nodbl e -> nodbl (pwrap b e).
Proof. destruct b; simpl; auto. Qed.

Lemma norm_nodbl : forall e p, nodbl (norm e p).
Proof.
  induction e as [n|x IH|x IH|o x IH|x IHx o y IHy]; intros p; simpl.
  - exact I.
  - specialize (IH LowestPrec). pose proof (not_paren_norm0 x) as NP. remember (norm x LowestPrec) as Nn.
    destruct x; simpl; try (split; [apply NP; exact I | exact IH]). exact IH.
  - apply nodbl_pwrap; simpl; auto.
  - apply nodbl_pwrap; simpl; auto.
  - apply nodbl_pwrap; simpl; auto.
Qed.

(* printing the reparsed tree gives the same token sequence again *)
Lemma print_idempotent : forall e, ops_ok e -> printExpr (norm e LowestPrec) = printExpr e.
Proof.
  intros e O. unfold printExpr. rewrite !print_is_flatten_norm. f_equal.
  apply norm_fix.
  - apply norm_wf; [exact O | unfold LowestPrec; lia].
  - apply norm_nodbl.
  - apply lvl_norm. unfold LowestPrec. lia.
Qed.

(* a tree that came out of the parser (precedence-consistent, parser-made parentheses, no doubled ones) is printed
   exactly: no parenthesis added or removed *)
Lemma print_parsed_exact : forall inRhs t, wf t -> nodbl t -> parseWhole inRhs (printExpr t) = Some t.
Proof.
  intros b t W N. apply parseWhole_spec. split; [exact W|].
  unfold printExpr. rewrite print_is_flatten_norm. f_equal. symmetry.
  rewrite norm_fix; [reflexivity | exact W | exact N | pose proof (wf_lvl _ W); unfold LowestPrec; lia].
Qed.

(* before fix C25-1: star applied to [a0 + a1], built without ParenExpr, is printed as [* a0 + a1] and comes back as
   the sum of [* a0] and [a1] *)
Lemma star_binary_unfixed : exists e, ops_ok e /\
  forall e', parseWhole true (print_unfixed e LowestPrec) = Some e' -> strip_parens e' <> strip_parens e.
Proof.
  exists (EStar (EBinary (EAtom 0) ADD (EAtom 1))). split.
  - simpl. repeat split; auto. lia.
  - intros e' H. vm_compute in H. inversion H; subst. vm_compute. discriminate.
Qed.

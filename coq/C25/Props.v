(* C25 — property theorems only: each closed by [exact lemma], followed by Print Assumptions.
   PARTIAL: only the parenthesisation decisions of the printer are modelled (nodes.go expr1 / binaryExpr for
   Ident, BasicLit, BinaryExpr, UnaryExpr, StarExpr, ParenExpr); the layout engine (blanks, depth/cutoff, line
   breaks, comments, tabwriter) and all other node kinds are tied by the differential run only.  In particular the
   needed parentheses that are not unary/binary nesting (fix C25-6: composite literal starting with a type name in an
   if/for/switch/range header - printer field exprLev -, conversions (<-chan T)(c), chan (<-chan T)) have no theorem:
   the C24 parser model has no braces, statements or exprLev; harness stream D + headers generator check them. *)
From Coq Require Import List NArith ZArith Bool.
From Verif Require Import C24.Model C24.Proof C25.Model C25.Proof.
Import ListNotations.
Open Scope Z_scope.

(* For EVERY expression tree over operands, the binary and unary operators, StarExpr and ParenExpr - of ANY shape,
   in particular nested against precedence without ParenExpr nodes as macro expansion builds them - the token
   sequence the printer writes is parsed back (C24 parser model) to a tree that equals the original modulo ParenExpr:
   the reparsed tree is [norm e], the original with a ParenExpr wherever the printer wrote parentheses. *)
Theorem C25_reparse_expr : forall inRhs e, ops_ok e ->
  parseWhole inRhs (printExpr e) = Some (norm e LowestPrec) /\ strip_parens (norm e LowestPrec) = strip_parens e.
Proof. exact reparse_expr. Qed.
Print Assumptions C25_reparse_expr.

(* printing the reparsed tree writes the same token sequence again *)
Theorem C25_print_idempotent : forall e, ops_ok e -> printExpr (norm e LowestPrec) = printExpr e.
Proof. exact print_idempotent. Qed.
Print Assumptions C25_print_idempotent.

(* a tree as the parser produces it (precedence-consistent, no doubled parentheses) is printed without adding or
   dropping any parenthesis: it is reparsed EXACTLY *)
Theorem C25_reparse_parsed_exact : forall inRhs t, wf t -> nodbl t -> parseWhole inRhs (printExpr t) = Some t.
Proof. exact print_parsed_exact. Qed.
Print Assumptions C25_reparse_parsed_exact.

(* the printed tokens are the in-order traversal of the normalised tree, at every precedence context *)
Theorem C25_print_is_traversal : forall e p, print e p = flatten (norm e p).
Proof. exact print_is_flatten_norm. Qed.
Print Assumptions C25_print_is_traversal.

(* the code before fix C25-1 (operand of a StarExpr printed at the lowest precedence) violates the property:
   witness StarExpr{BinaryExpr{a0 + a1}} *)
Theorem C25_star_binary_unfixed_refuted : exists e, ops_ok e /\
  forall e', parseWhole true (print_unfixed e LowestPrec) = Some e' -> strip_parens e' <> strip_parens e.
Proof. exact star_binary_unfixed. Qed.
Print Assumptions C25_star_binary_unfixed_refuted.

(* ---------------- non-vacuity ---------------- *)
Open Scope N_scope.
(* BinaryExpr{*, BinaryExpr{+, a0, a1}, a2}: the printer adds the parentheses, the parser gives them back as ParenExpr *)
Example C25_ex_macro_shape : printExpr (EBinary (EBinary (EAtom 0) ADD (EAtom 1)) MUL (EAtom 2))
  = [TLparen; TAtom 0; TOp ADD; TAtom 1; TRparen; TOp MUL; TAtom 2]
  /\ parseWhole true (printExpr (EBinary (EBinary (EAtom 0) ADD (EAtom 1)) MUL (EAtom 2)))
     = Some (EBinary (EParen (EBinary (EAtom 0) ADD (EAtom 1))) MUL (EAtom 2)).
Proof. vm_compute. split; reflexivity. Qed.
(* right-nested subtraction a0 - (a1 - a2); unary over binary; star over binary (fixed); doubled parentheses collapse *)
Example C25_ex_right_nested : printExpr (EBinary (EAtom 0) SUB (EBinary (EAtom 1) SUB (EAtom 2)))
  = [TAtom 0; TOp SUB; TLparen; TAtom 1; TOp SUB; TAtom 2; TRparen].
Proof. vm_compute. reflexivity. Qed.
Example C25_ex_unary_star : printExpr (EUnary SUB (EBinary (EAtom 0) ADD (EAtom 1))) = [TOp SUB; TLparen; TAtom 0; TOp ADD; TAtom 1; TRparen]
  /\ printExpr (EStar (EBinary (EAtom 0) ADD (EAtom 1))) = [TOp MUL; TLparen; TAtom 0; TOp ADD; TAtom 1; TRparen]
  /\ print_unfixed (EStar (EBinary (EAtom 0) ADD (EAtom 1))) 0 = [TOp MUL; TAtom 0; TOp ADD; TAtom 1]
  /\ printExpr (EParen (EParen (EAtom 0))) = [TLparen; TAtom 0; TRparen].
Proof. vm_compute. repeat split; reflexivity. Qed.
Example C25_ex_left_assoc_no_parens : printExpr (EBinary (EBinary (EAtom 0) SUB (EAtom 1)) SUB (EAtom 2))
  = [TAtom 0; TOp SUB; TAtom 1; TOp SUB; TAtom 2].
Proof. vm_compute. reflexivity. Qed.

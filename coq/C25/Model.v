(* C25 — executable model of the printer's PARENTHESISATION of unary/binary expressions
   (go/printer/nodes.go: expr1, binaryExpr; spacing, line breaks, depth/cutoff are layout and not modelled),
   over the token and tree types of the C24 parser model.  Definitions only.

     expr1(expr, prec1, depth):
       BinaryExpr: binaryExpr(x, prec1, ...): prec := x.Op.Precedence();
                   if prec < prec1 { "(" expr0(x) ")" }           -- expr0 = expr1(x, LowestPrec): prints x without parentheses
                   else { expr1(x.X, prec) ; op ; expr1(x.Y, prec+1) }
       StarExpr:   prec = UnaryPrec; if prec < prec1 { "(" "*" OPERAND ")" } else { "*" OPERAND }
                   OPERAND = expr1(x.X, UnaryPrec, 1)   (fixed code, fix C25-1);  p.expr(x.X) = expr1(x.X, LowestPrec) before the fix
       UnaryExpr:  prec = UnaryPrec; if prec < prec1 { "(" expr(x) ")" } else { op ; expr1(x.X, prec) }
       ParenExpr:  if x.X is a ParenExpr { expr0(x.X) } else { "(" expr0(x.X) ")" }
       Ident/BasicLit: the token *)
From Coq Require Import List NArith ZArith Bool.
From Verif Require Import C24.Model.
Import ListNotations.
Open Scope Z_scope.

Definition wrap (b : bool) (l : list token) : list token := if b then TLparen :: l ++ [TRparen] else l.

(* [sp]: the precedence passed for the operand of a StarExpr: UnaryPrec in the fixed code, LowestPrec before *)
Fixpoint print_gen (sp : Z) (e : expr) (prec1 : Z) : list token :=
  match e with
  | EAtom n => [TAtom n]
  | EBinary x o y =>
      let p := prec o in
      wrap (p <? prec1) (print_gen sp x p ++ TOp o :: print_gen sp y (p + 1))
  | EStar x => wrap (UnaryPrec <? prec1) (TOp MUL :: print_gen sp x sp)
  | EUnary o x => wrap (UnaryPrec <? prec1) (TOp o :: print_gen sp x UnaryPrec)
  | EParen x =>
      match x with
      | EParen _ => print_gen sp x LowestPrec
      | _ => TLparen :: print_gen sp x LowestPrec ++ [TRparen]
      end
  end.

Definition print (e : expr) (prec1 : Z) : list token := print_gen UnaryPrec e prec1.          (* the code as fixed *)
Definition print_unfixed (e : expr) (prec1 : Z) : list token := print_gen LowestPrec e prec1. (* before fix C25-1 *)

(* p.expr(x) *)
Definition printExpr (e : expr) : list token := print e LowestPrec.

(* the tree with a ParenExpr wherever the printer writes parentheses (and doubled parentheses collapsed) *)
Definition pwrap (b : bool) (e : expr) : expr := if b then EParen e else e.
Fixpoint norm (e : expr) (prec1 : Z) : expr :=
  match e with
  | EAtom n => EAtom n
  | EBinary x o y => let p := prec o in pwrap (p <? prec1) (EBinary (norm x p) o (norm y (p + 1)))
  | EStar x => pwrap (UnaryPrec <? prec1) (EStar (norm x UnaryPrec))
  | EUnary o x => pwrap (UnaryPrec <? prec1) (EUnary o (norm x UnaryPrec))
  | EParen x =>
      match x with
      | EParen _ => norm x LowestPrec
      | _ => EParen (norm x LowestPrec)
      end
  end.

Fixpoint strip_parens (e : expr) : expr :=
  match e with
  | EAtom n => EAtom n
  | EParen x => strip_parens x
  | EStar x => EStar (strip_parens x)
  | EUnary o x => EUnary o (strip_parens x)
  | EBinary x o y => EBinary (strip_parens x) o (strip_parens y)
  end.

(* the operators of the tree are operators of the right kind (any SHAPE is allowed: nesting against precedence,
   with or without ParenExpr nodes - what macro expansion builds) *)
Fixpoint ops_ok (e : expr) : Prop :=
  match e with
  | EAtom _ => True
  | EParen x => ops_ok x
  | EStar x => ops_ok x
  | EUnary o x => (is_unary_op o = true \/ o = ARROW) /\ ops_ok x
  | EBinary x o y => 1 <= prec o /\ ops_ok x /\ ops_ok y
  end.

(* ------------------------------------------------------------------ correspondence *)
Fixpoint toks_eqb (a b : list token) : bool :=
  match a, b with
  | [], [] => true
  | x :: a', y :: b' => token_eqb x y && toks_eqb a' b'
  | _, _ => false
  end.

Record case := mkCase { c_idx : Z; c_tree : expr; c_toks : list token }.
Definition case_ok (c : case) : bool := toks_eqb (printExpr (c_tree c)) (c_toks c).
Definition mismatches (cs : list case) : list Z := map c_idx (filter (fun c => negb (case_ok c)) cs).

(* C18 — property theorems only.  PARTIAL: the theorem is about the option-parameterised compile function and machine of
   the mini statement language of Model.v.  Consult sites inside the model: Comp.pushEnvIfFlag, funcCreate/func*ret*
   (debugC -> newEnv4Func), Interp.prepareEnv, Interp.Parse -> CollectAst, beforeEval/afterEval, CompileAst (KeepUntyped).
   Everything else (parser mode under OptDebugger, Comp.Go, import, debugger Eval, every etoken.GENERICS test,
   COptKeepUntyped inside expression compilation, all statements/expressions outside the mini language) is tied only by
   the cross-configuration differential of harness/cmd/c18. *)
From Coq Require Import List ZArith Bool.
From Verif Require Import C18.Model C18.Proof.
Import ListNotations.
Open Scope Z_scope.

(* for every program of the mini language, every fuel and every two option sets: same emit log, same value / same panic *)
Theorem C18_options_neutral_partial : forall o1 o2 fuel prog,
  observable (eval_repl o1 fuel prog) = observable (eval_repl o2 fuel prog).
Proof. exact options_neutral. Qed.
Print Assumptions C18_options_neutral_partial.

(* fuel exhaustion of the model is itself independent of the options (it cannot hide a difference) *)
Theorem C18_fuel_neutral : forall o1 o2 fuel prog,
  run_main fuel (map (compile_fun o1) prog) = RFuel <-> run_main fuel (map (compile_fun o2) prog) = RFuel.
Proof. exact fuel_neutral. Qed.
Print Assumptions C18_fuel_neutral.

(* the compiled code of two option sets differs only in the DebugComp annotations *)
Theorem C18_compile_differs_only_in_annotations : forall o1 o2 s depth,
  erase (compile o1 depth s) = erase (compile o2 depth s).
Proof. exact erase_compile. Qed.
Print Assumptions C18_compile_differs_only_in_annotations.

(* the machine never reads the annotations: running erased code on erased environments gives the erased result *)
Theorem C18_machine_ignores_annotations : forall fuel funs c en g ev,
  exec fuel (map erase_fun funs) (erase c) (erase_env en) g ev = erase_result (exec fuel funs c en g ev).
Proof. exact exec_erase. Qed.
Print Assumptions C18_machine_ignores_annotations.

(* a breakpoint statement ("break", _ = "break") is compiled independently of the options, with the compiling Comp
   (never the nil-able Env.DebugComp), and without an installed debugger it is a no-op of the machine: programs with
   breakpoints are covered by C18_options_neutral_partial like any other *)
Theorem C18_breakpoint_option_independent : forall o depth fuel funs en g ev,
  compile o depth SBreak = CBreak (Some depth) /\
  exec (S fuel) funs (compile o depth SBreak) en g ev = ROk en g ev.
Proof. exact breakpoint_option_independent. Qed.
Print Assumptions C18_breakpoint_option_independent.

(* OptKeepUntyped changes how the final untyped constant is returned, never its value *)
Theorem C18_keep_untyped_value : forall o1 o2 c, final_value (final_const o1 c) = final_value (final_const o2 c).
Proof. exact keep_untyped_value. Qed.
Print Assumptions C18_keep_untyped_value.

(* non-vacuity: the options do change the compiled code and the (non-observable part of the) report *)
Example C18_ex_code_differs : map (compile_fun all_on) ex_prog <> map (compile_fun all_off) ex_prog.
Proof. exact ex_code_differs. Qed.
Example C18_ex_report_differs : eval_repl all_on 100 ex_prog <> eval_repl all_off 100 ex_prog.
Proof. exact ex_report_differs. Qed.
Example C18_ex_observable : observable (eval_repl all_on 100 ex_prog) = ([8], OPanicDiv0).
Proof. exact ex_observable. Qed.

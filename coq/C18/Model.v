(* C18 — model of where gomacro consults the "semantics-neutral" options, as a parameter of the compile function of a
   mini statement language (the class "mini" of harness/cmd/c18), and of the machine that runs the compiled code.
   Consult sites INSIDE the model:
     OptDebugger            fast/statement.go Comp.pushEnvIfFlag  (debugC stored in the Env pushed by a block with locals)
                            fast/function.go  funcCreate / func*ret* (debugC handed to newEnv4Func for every call)
                            fast/repl.go      Interp.prepareEnv   (env.DebugComp of the top-level Env)
     OptCollectDeclarations / OptCollectStatements   fast/repl.go Interp.Parse -> base/global.go CollectAst/CollectNode (side table only)
     OptTrapPanic / OptPanicStackTrace               fast/repl.go beforeEval/afterEval (how an escaping panic is reported)
     OptKeepUntyped         fast/repl.go CompileAst (final `expr.ConstTo(expr.DefaultType())` skipped)
   Consult sites OUTSIDE the model (tied by the cross-configuration differential only): base/global.go ParseBytes (parser
   mode CopySources under OptDebugger), fast/statement.go Comp.Go, fast/import.go, fast/debug/debugger.go Eval, every
   etoken.GENERICS test in go/parser, go/types, fast/*.go, Comp.CompileOptions (COptKeepUntyped inside expression compilation).
   Definitions only (no proofs). *)
From Coq Require Import List ZArith Bool.
Import ListNotations.
Open Scope Z_scope.

Record opts := mkOpts {
  o_debugger : bool; o_collect_decl : bool; o_collect_stmt : bool;
  o_trap : bool; o_trace : bool; o_keep_untyped : bool }.

(* ---------- source language ---------- *)
Inductive expr :=
| EConst (z : Z)
| EVar (upn idx : nat)        (* variable idx of the Env reached by upn `.Outer` hops *)
| EGlob                       (* the package-level variable acc *)
| EAdd (a b : expr) | ESub (a b : expr) | EMul (a b : expr) | EDiv (a b : expr).

Inductive stmt :=
| SSkip
| SSeq (a b : stmt)
| SAssign (upn idx : nat) (e : expr)
| SGlob (e : expr)
| SEmit (e : expr)
| SLocal (init : expr) (body : stmt)      (* { l := init; body } : block with one local => PushEnv / PopEnv *)
| SIf (e : expr) (a b : stmt)             (* if e > 0 { a } else { b } *)
| SCall (f : nat)                         (* f() : function without parameters and results *)
| SBreak.                                 (* breakpoint statement: "break" or _ = "break" (fast/debug.go isBreakpoint) *)

(* ---------- compiled code; `dbg` is the DebugComp pointer that only OptDebugger makes non-nil ---------- *)
Inductive code :=
| CSkip
| CSeq (a b : code)
| CAssign (upn idx : nat) (e : expr)
| CGlob (e : expr)
| CEmit (e : expr)
| CPushEnv (dbg : option nat) (init : expr) (body : code)
| CIf (e : expr) (a b : code)
| CCall (f : nat)
| CBreak (comp : option nat).  (* Comp.breakpoint(): the closure captures the COMPILING Comp c (never nil, whatever the
                                  options) - it does not go through Env.DebugComp, which only OptDebugger fills in *)

Record cfunc := mkFun { f_dbg : option nat; f_body : code }.

(* `var debugC *Comp; if c.Globals.Options&base.OptDebugger != 0 { debugC = c }` ; the Comp is identified by its nesting depth *)
Definition debugC (o : opts) (depth : nat) : option nat := if o_debugger o then Some depth else None.

Fixpoint compile (o : opts) (depth : nat) (s : stmt) : code :=
  match s with
  | SSkip => CSkip
  | SSeq a b => CSeq (compile o depth a) (compile o depth b)
  | SAssign u i e => CAssign u i e
  | SGlob e => CGlob e
  | SEmit e => CEmit e
  | SLocal init body => CPushEnv (debugC o (S depth)) init (compile o (S depth) body)
  | SIf e a b => CIf e (compile o depth a) (compile o depth b)
  | SCall f => CCall f
  | SBreak => CBreak (Some depth)
  end.

Definition compile_fun (o : opts) (s : stmt) : cfunc := mkFun (debugC o 0) (compile o 0 s).

(* Interp.Parse: collection side table (never read by compile or by the machine) *)
Definition collected (o : opts) (prog : list stmt) : nat :=
  (if o_collect_decl o then length prog else 0)%nat.

(* ---------- machine ---------- *)
Record frame := mkFrame { fr_vals : list Z; fr_dcomp : option nat }.
Definition env := list frame.   (* innermost first *)

Definition wrap64 (z : Z) : Z := (z + 9223372036854775808) mod 18446744073709551616 - 9223372036854775808.

Inductive val := VOk (z : Z) | VDiv0 | VStuck.

Fixpoint eval (en : env) (glob : Z) (e : expr) : val :=
  let bin (f : Z -> Z -> val) a b :=
    match eval en glob a with
    | VOk x => match eval en glob b with VOk y => f x y | r => r end
    | r => r
    end in
  match e with
  | EConst z => VOk z
  | EVar u i => match nth_error en u with
                | Some fr => match nth_error (fr_vals fr) i with Some z => VOk z | None => VStuck end
                | None => VStuck
                end
  | EGlob => VOk glob
  | EAdd a b => bin (fun x y => VOk (wrap64 (x + y))) a b
  | ESub a b => bin (fun x y => VOk (wrap64 (x - y))) a b
  | EMul a b => bin (fun x y => VOk (wrap64 (x * y))) a b
  | EDiv a b => bin (fun x y => if y =? 0 then VDiv0 else VOk (wrap64 (Z.quot x y))) a b
  end.

Fixpoint set_nth {A} (l : list A) (i : nat) (x : A) : option (list A) :=
  match l, i with
  | [], _ => None
  | _ :: l', O => Some (x :: l')
  | y :: l', S i' => match set_nth l' i' x with Some r => Some (y :: r) | None => None end
  end.

Definition set_var (en : env) (u i : nat) (z : Z) : option env :=
  match nth_error en u with
  | Some fr => match set_nth (fr_vals fr) i z with
               | Some vs => set_nth en u (mkFrame vs (fr_dcomp fr))
               | None => None
               end
  | None => None
  end.

Inductive result :=
| ROk (en : env) (glob : Z) (evs : list Z)
| RPanic (evs : list Z)          (* runtime error: integer divide by zero, escaping (the language has no recover) *)
| RFuel
| RStuck.

Definition init_vals : list Z := [1; 2; 3; 4].
Definition sum4 (fr : frame) : Z := wrap64 (fold_left (fun a b => wrap64 (a + b)) (fr_vals fr) 0).

Fixpoint exec (fuel : nat) (funs : list cfunc) (c : code) (en : env) (glob : Z) (evs : list Z) : result :=
  match fuel with
  | O => RFuel
  | S f =>
      match c with
      | CSkip => ROk en glob evs
      | CSeq a b =>
          match exec f funs a en glob evs with
          | ROk en1 g1 ev1 => exec f funs b en1 g1 ev1
          | r => r
          end
      | CAssign u i e =>
          match eval en glob e with
          | VOk z => match set_var en u i z with Some en1 => ROk en1 glob evs | None => RStuck end
          | VDiv0 => RPanic evs
          | VStuck => RStuck
          end
      | CGlob e =>
          match eval en glob e with
          | VOk z => ROk en z evs
          | VDiv0 => RPanic evs
          | VStuck => RStuck
          end
      | CEmit e =>
          match eval en glob e with
          | VOk z => ROk en glob (evs ++ [z])
          | VDiv0 => RPanic evs
          | VStuck => RStuck
          end
      | CPushEnv dbg init body =>
          match eval en glob init with
          | VOk z =>
              (* NewEnv(env, ...); inner.DebugComp = debugC *)
              match exec f funs body (mkFrame [z] dbg :: en) glob evs with
              | ROk (_ :: en1) g1 ev1 => ROk en1 g1 ev1     (* popEnv *)
              | ROk [] _ _ => RStuck
              | r => r
              end
          | VDiv0 => RPanic evs
          | VStuck => RStuck
          end
      | CIf e a b =>
          match eval en glob e with
          | VOk z => if 0 <? z then exec f funs a en glob evs else exec f funs b en glob evs
          | VDiv0 => RPanic evs
          | VStuck => RStuck
          end
      | CCall k =>
          match nth_error funs k with
          | Some fn =>
              (* newEnv4Func(env, nbind, nintbind, debugC) *)
              match exec f funs (f_body fn) [mkFrame init_vals (f_dbg fn)] glob evs with
              | ROk [fr] g1 ev1 => ROk en g1 (ev1 ++ [sum4 fr])   (* the callee's trailing emit(x0+x1+x2+x3) *)
              | ROk _ _ _ => RStuck
              | r => r
              end
          | None => RStuck
          end
      | CBreak comp =>
          (* ir := Interp{c, env}; ir.debug(true): no debugger was installed with SetDebugger => Comp.Warnf (once),
             run.Debugger = stubDebugger{} => DebugOpContinue => SigNone: env.IP++, next statement.
             Warnf dereferences the Comp: a nil Comp is a nil-pointer panic (not a value of the mini language) *)
          match comp with
          | Some _ => ROk en glob evs
          | None => RStuck
          end
      end
  end.

(* ---------- REPL level: ParseEvalPrint of `res(run())` ---------- *)
Inductive outcome := OVal (z : Z) | OPanicDiv0 | OOther.

Record report := mkReport {
  r_events : list Z;          (* emit log *)
  r_outcome : outcome;        (* value handed to res(), or the panic *)
  r_trapped : bool;           (* afterEval recovered the panic and printed it (OptTrapPanic) instead of letting it propagate *)
  r_stack : bool;             (* ... followed by debug.Stack() (OptPanicStackTrace) *)
  r_collected : nat           (* declarations appended to Globals.Decls *)
}.

Definition run_main (fuel : nat) (funs : list cfunc) : result :=
  match nth_error funs 0 with
  | Some fn =>
      (* run(): acc = 0; x0..x3 := 1,2,3,4; body; emit(x0); emit(x1); emit(x2); emit(x3); return acc *)
      match exec fuel funs (f_body fn) [mkFrame init_vals (f_dbg fn)] 0 [] with
      | ROk [fr] g ev => ROk [fr] g (ev ++ fr_vals fr)
      | ROk _ _ _ => RStuck
      | r => r
      end
  | None => RStuck
  end.

Definition eval_repl (o : opts) (fuel : nat) (prog : list stmt) : report :=
  let funs := map (compile_fun o) prog in
  match run_main fuel funs with
  | ROk _ g ev => mkReport ev (OVal g) false false (collected o prog)
  | RPanic ev => mkReport ev OPanicDiv0 (o_trap o) (o_trap o && o_trace o) (collected o prog)
  | _ => mkReport [] OOther false false (collected o prog)
  end.

(* what the property calls "any value the program computes or any panic it raises" *)
Definition observable (r : report) : list Z * outcome := (r_events r, r_outcome r).

(* ---------- OptKeepUntyped: the final untyped constant ---------- *)
Inductive final := FUntyped (c : Z) | FTyped (c : Z).
(* CompileAst: `if g.Options&OptKeepUntyped == 0 && expr.Untyped() { expr.ConstTo(expr.DefaultType()) }`
   (ConstTo of an integer constant that fits its default type keeps the value) *)
Definition final_const (o : opts) (c : Z) : final := if o_keep_untyped o then FUntyped c else FTyped c.
Definition final_value (f : final) : Z := match f with FUntyped c => c | FTyped c => c end.

(* ---------- erasure of the option-dependent annotations (used by the proofs) ---------- *)
Fixpoint erase (c : code) : code :=
  match c with
  | CSeq a b => CSeq (erase a) (erase b)
  | CPushEnv _ init body => CPushEnv None init (erase body)
  | CIf e a b => CIf e (erase a) (erase b)
  | c => c
  end.
Definition erase_fun (f : cfunc) : cfunc := mkFun None (erase (f_body f)).
Definition erase_frame (fr : frame) : frame := mkFrame (fr_vals fr) None.
Definition erase_env (en : env) : env := map erase_frame en.
Definition erase_result (r : result) : result :=
  match r with
  | ROk en g ev => ROk (erase_env en) g ev
  | r => r
  end.

(* ---------- correspondence support ---------- *)
Record case := mkCase { c_idx : Z; c_prog : list stmt; c_events : list Z; c_outcome : outcome }.

Definition all_off := mkOpts false false false false false false.
Definition all_on := mkOpts true true true true true true.

Fixpoint zs_eqb (a b : list Z) : bool :=
  match a, b with
  | [], [] => true
  | x :: a', y :: b' => (x =? y) && zs_eqb a' b'
  | _, _ => false
  end.
Definition outcome_eqb (a b : outcome) : bool :=
  match a, b with
  | OVal x, OVal y => x =? y
  | OPanicDiv0, OPanicDiv0 => true
  | _, _ => false
  end.
Definition report_ok (r : report) (c : case) : bool :=
  outcome_eqb (r_outcome r) (c_outcome c) &&
  (* when the run panics the harness still sees the emits made before the panic *)
  zs_eqb (r_events r) (c_events c).
Definition fuel0 : nat := 100 * 1000.
Definition case_ok (c : case) : bool :=
  report_ok (eval_repl all_off fuel0 (c_prog c)) c && report_ok (eval_repl all_on fuel0 (c_prog c)) c.

Definition mismatches (cs : list case) : list Z :=
  map c_idx (filter (fun c => negb (case_ok c)) cs).

(* C18 — the options only produce annotations that the machine never reads: erasure proof *)
From Coq Require Import List ZArith Bool Lia.
From Verif Require Import C18.Model.
Import ListNotations.
Open Scope Z_scope.

(* ---------- compile: the option set influences nothing but the erased annotations ---------- *)
Lemma erase_compile o1 o2 : forall s depth, erase (compile o1 depth s) = erase (compile o2 depth s).
Proof.
  induction s; intros depth; simpl; try reflexivity.
  - rewrite (IHs1 depth), (IHs2 depth). reflexivity.
  - rewrite (IHs (S depth)). reflexivity.
  - rewrite (IHs1 depth), (IHs2 depth). reflexivity.
Qed.

Lemma erase_compile_fun o1 o2 s : erase_fun (compile_fun o1 s) = erase_fun (compile_fun o2 s).
Proof. unfold erase_fun, compile_fun. simpl. rewrite (erase_compile o1 o2 s 0%nat). reflexivity. Qed.

Lemma erase_funs o1 o2 prog : map erase_fun (map (compile_fun o1) prog) = map erase_fun (map (compile_fun o2) prog).
Proof.
  induction prog as [|s prog IH]; simpl; [reflexivity|].
  rewrite IH, (erase_compile_fun o1 o2 s). reflexivity.
Qed.

(* ---------- the machine never reads DebugComp ---------- *)
Lemma nth_error_erase_env en u :
  nth_error (erase_env en) u = option_map erase_frame (nth_error en u).
Proof. unfold erase_env. apply nth_error_map. Qed.

Lemma eval_erase en g e : eval (erase_env en) g e = eval en g e.
Proof.
  induction e; simpl; try reflexivity;
    try (rewrite IHe1, IHe2; reflexivity).
  rewrite nth_error_erase_env. destruct (nth_error en upn); reflexivity.
Qed.

Lemma set_nth_map {A B} (f : A -> B) : forall (l : list A) i x,
  set_nth (map f l) i (f x) = option_map (map f) (set_nth l i x).
Proof.
  induction l as [|y l IH]; intros i x; destruct i; simpl; try reflexivity.
  rewrite IH. destruct (set_nth l i x); reflexivity.
Qed.

Lemma set_var_erase en u i z :
  set_var (erase_env en) u i z = option_map erase_env (set_var en u i z).
Proof.
  unfold set_var. rewrite nth_error_erase_env.
  destruct (nth_error en u) as [fr|]; simpl; [|reflexivity].
  destruct (set_nth (fr_vals fr) i z) as [vs|]; simpl; [|reflexivity].
  change (mkFrame vs None) with (erase_frame (mkFrame vs (fr_dcomp fr))).
  unfold erase_env. apply set_nth_map.
Qed.

Lemma nth_error_erase_funs funs k :
  nth_error (map erase_fun funs) k = option_map erase_fun (nth_error funs k).
Proof. apply nth_error_map. Qed.

Lemma exec_erase : forall fuel funs c en g ev,
  exec fuel (map erase_fun funs) (erase c) (erase_env en) g ev = erase_result (exec fuel funs c en g ev).
Proof.
  induction fuel as [|f IH]; intros funs c en g ev; [reflexivity|].
  destruct c; simpl.
  - reflexivity.
  - rewrite IH. destruct (exec f funs c1 en g ev); simpl; try reflexivity. apply IH.
  - rewrite eval_erase. destruct (eval en g e); try reflexivity.
    rewrite set_var_erase. destruct (set_var en upn idx z); reflexivity.
  - rewrite eval_erase. destruct (eval en g e); reflexivity.
  - rewrite eval_erase. destruct (eval en g e); reflexivity.
  - rewrite eval_erase. destruct (eval en g init); try reflexivity.
    change (mkFrame [z] None :: erase_env en) with (erase_env (mkFrame [z] dbg :: en)).
    rewrite IH. destruct (exec f funs c (mkFrame [z] dbg :: en) g ev) as [en1 g1 ev1| | |]; simpl; try reflexivity.
    destruct en1; reflexivity.
  - rewrite eval_erase. destruct (eval en g e); try reflexivity.
    destruct (0 <? z); apply IH.
  - rewrite nth_error_erase_funs. destruct (nth_error funs f0) as [fn|]; simpl; [|reflexivity].
    change [mkFrame init_vals None] with (erase_env [mkFrame init_vals (f_dbg fn)]).
    rewrite IH. destruct (exec f funs (f_body fn) [mkFrame init_vals (f_dbg fn)] g ev) as [en1 g1 ev1| | |]; simpl; try reflexivity.
    destruct en1 as [|fr en1]; simpl; [reflexivity|]. destruct en1; reflexivity.
  - destruct comp; reflexivity.
Qed.

(* a breakpoint statement compiles to the same code under every option set, and that code never is the nil-Comp form *)
Lemma compile_break o depth : compile o depth SBreak = CBreak (Some depth).
Proof. reflexivity. Qed.

Lemma exec_break fuel funs d en g ev : exec (S fuel) funs (CBreak (Some d)) en g ev = ROk en g ev.
Proof. reflexivity. Qed.

Lemma breakpoint_option_independent : forall o depth fuel funs en g ev,
  compile o depth SBreak = CBreak (Some depth) /\
  exec (S fuel) funs (compile o depth SBreak) en g ev = ROk en g ev.
Proof. intros; split; [apply compile_break | apply exec_break]. Qed.

Lemma run_main_erase fuel funs :
  run_main fuel (map erase_fun funs) = erase_result (run_main fuel funs).
Proof.
  unfold run_main. rewrite nth_error_erase_funs.
  destruct (nth_error funs 0) as [fn|]; simpl; [|reflexivity].
  change [mkFrame init_vals None] with (erase_env [mkFrame init_vals (f_dbg fn)]).
  rewrite exec_erase.
  destruct (exec fuel funs (f_body fn) [mkFrame init_vals (f_dbg fn)] 0 []) as [en1 g1 ev1| | |]; simpl; try reflexivity.
  destruct en1 as [|fr en1]; simpl; [reflexivity|]. destruct en1; reflexivity.
Qed.

(* what eval_repl extracts from a result does not depend on the erased part *)
Definition proj (r : result) : list Z * outcome :=
  match r with
  | ROk _ g ev => (ev, OVal g)
  | RPanic ev => (ev, OPanicDiv0)
  | _ => ([], OOther)
  end.

Lemma proj_erase r : proj (erase_result r) = proj r.
Proof. destruct r; reflexivity. Qed.

Lemma observable_proj o fuel prog :
  observable (eval_repl o fuel prog) = proj (run_main fuel (map (compile_fun o) prog)).
Proof.
  unfold eval_repl, observable. destruct (run_main fuel (map (compile_fun o) prog)); reflexivity.
Qed.

Lemma options_neutral o1 o2 fuel prog :
  observable (eval_repl o1 fuel prog) = observable (eval_repl o2 fuel prog).
Proof.
  rewrite !observable_proj.
  rewrite <- (proj_erase (run_main fuel (map (compile_fun o1) prog))).
  rewrite <- (proj_erase (run_main fuel (map (compile_fun o2) prog))).
  rewrite <- !run_main_erase. rewrite (erase_funs o1 o2 prog). reflexivity.
Qed.

(* fuel exhaustion cannot masquerade: it is the same for both option sets *)
Lemma fuel_neutral o1 o2 fuel prog :
  run_main fuel (map (compile_fun o1) prog) = RFuel <-> run_main fuel (map (compile_fun o2) prog) = RFuel.
Proof.
  assert (H : forall r, erase_result r = RFuel <-> r = RFuel).
  { intros r; destruct r; simpl; split; intros E; try discriminate; reflexivity. }
  rewrite <- (H (run_main fuel (map (compile_fun o1) prog))), <- (H (run_main fuel (map (compile_fun o2) prog))).
  rewrite <- !run_main_erase. rewrite (erase_funs o1 o2 prog). reflexivity.
Qed.

Lemma keep_untyped_value o1 o2 c : final_value (final_const o1 c) = final_value (final_const o2 c).
Proof. unfold final_const. destruct (o_keep_untyped o1), (o_keep_untyped o2); reflexivity. Qed.

Lemma keep_untyped_form o c : final_const o c = if o_keep_untyped o then FUntyped c else FTyped c.
Proof. reflexivity. Qed.

(* the options are not vacuous in the model: they do change the compiled code and the report *)
Definition ex_prog : list stmt :=
  [SSeq (SLocal (EConst 5) (SSeq SBreak (SSeq (SEmit (EAdd (EVar 0 0) (EVar 1 2))) (SCall 1)))) (SGlob (EDiv (EConst 7) (EVar 0 0)));
   SSeq (SAssign 0 0 (EConst 0)) (SEmit (EDiv (EConst 1) (EVar 0 0)))].

Lemma ex_code_differs : map (compile_fun all_on) ex_prog <> map (compile_fun all_off) ex_prog.
Proof. vm_compute. discriminate. Qed.

Lemma ex_report_differs : eval_repl all_on 100 ex_prog <> eval_repl all_off 100 ex_prog.
Proof. vm_compute. discriminate. Qed.

Lemma ex_observable : observable (eval_repl all_on 100 ex_prog) = ([8], OPanicDiv0).
Proof. vm_compute. reflexivity. Qed.

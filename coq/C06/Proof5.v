(* C06 — every operation preserves the simulation relation [Sim] (Proof4.v) and produces refining outputs;
   hence the frame machine refines the Go-spec machine on ALL histories, for every pool capacity. *)
From Coq Require Import List Arith ZArith Bool Lia.
From Verif Require Import C06.Model C06.Proof C06.Proof2 C06.Proof3 C06.Proof4.
Import ListNotations.

Lemma nth_error_map' {A B} (g : A -> B) l n : nth_error (map g l) n = option_map g (nth_error l n).
Proof. revert n; induction l as [|x l IH]; intros [|n]; simpl; auto. Qed.

(* ---------- a transition that keeps arrays, activations and the spec heap ---------- *)
Lemma sim_same_heap st s st' s' :
  Sim st s ->
  nact st' = nact st -> arrs st' = arrs st ->
  s_outer s' = s_outer s -> s_nints s' = s_nints s -> s_store s' = s_store s ->
  (forall g, act st' g = act st g) ->
  (forall f, live st' f -> live st f /\ f_outer (getf st' f) = f_outer (getf st f) /\
             f_nints (getf st' f) = f_nints (getf st f) /\ f_arr (getf st' f) = f_arr (getf st f)) ->
  s_stack s' = map (map (act st')) (stack st') ->
  s_clos s' = map (act st') (clos st') ->
  Forall2 (ptr_rel st) (ptrs st') (s_ptrs s') ->
  Sim st' s'.
Proof.
  intros S N A O NI ST ACT LV SK CL PT. destruct S as [S1 S2 S3 S4 S5 S6 S7 S8 S9 S10 S11 S12 S13].
  assert (G : forall a, geta st' a = geta st a) by (intros; unfold geta; rewrite A; reflexivity).
  assert (NA : narr st' = narr st) by (unfold narr; rewrite A; reflexivity).
  assert (AC : forall a, acap st' a = acap st a) by (intros; unfold acap; rewrite G; reflexivity).
  constructor.
  - rewrite O, N; auto.
  - rewrite NI, N; auto.
  - exact SK.
  - exact CL.
  - eapply Forall2_imp; [|exact PT]. intros p k (P1 & P2 & P3 & P4). unfold ptr_rel. rewrite NA, G, AC. auto.
  - intros f L. destruct (LV f L) as (L0 & _). rewrite ACT, N. auto.
  - intros f L. destruct (LV f L) as (L0 & E1 & E2 & E3). rewrite O, ACT, E1. rewrite (S7 f L0).
    destruct (f_outer (getf st f)); simpl; [rewrite ACT|]; reflexivity.
  - intros f L. destruct (LV f L) as (L0 & E1 & E2 & E3). rewrite NI, ACT, E2. auto.
  - intros f L. destruct (LV f L) as (L0 & E1 & E2 & E3). rewrite E3, E2, ACT. specialize (S9 f L0).
    destruct (f_arr (getf st f)); auto. rewrite G, AC. auto.
  - intros a slot v Ha. rewrite NA in Ha. rewrite ST, G. auto.
  - intros a b. rewrite NA, !G. auto.
  - intros a. rewrite NA, G, N. auto.
  - intros n j. rewrite N, ST. auto.
Qed.

(* ---------- MarkUsedByClosure only marks frames on the Outer chain of its start ---------- *)
Lemma up_upd_used fs f n : forall h, up (upd fs f (set_used (nth f fs dframe))) n h = up fs n h.
Proof.
  induction n as [|n IH]; intros h; simpl; auto.
  assert (E : f_outer (nth h (upd fs f (set_used (nth f fs dframe))) dframe) = f_outer (nth h fs dframe)).
  { destruct (Nat.eq_dec f h) as [->|N].
    - destruct (lt_dec h (length fs)).
      + rewrite nth_upd_eq by auto. reflexivity.
      + rewrite !nth_overflow; auto; try rewrite upd_length; lia.
    - rewrite nth_upd_neq by auto. reflexivity. }
  rewrite E. destruct (f_outer (nth h fs dframe)); auto.
Qed.

Lemma mark_used_src fuel : forall fs o g, f_used (nth g (mark fuel fs o) dframe) = true ->
  f_used (nth g fs dframe) = true \/ exists n f, o = Some f /\ up fs n f = Some g.
Proof.
  induction fuel as [|k IH]; intros fs o g H; [left; exact H|].
  destruct o as [f|]; [|left; exact H]. rewrite mark_S in H.
  destruct (f_used (nth f fs dframe)) eqn:U; [left; exact H|].
  destruct (IH _ _ _ H) as [H1|(n & f' & O & Up)].
  - destruct (Nat.eq_dec f g) as [->|N].
    + right. exists 0, g. split; reflexivity.
    + left. rewrite nth_upd_neq in H1 by auto. exact H1.
  - right. exists (S n), f. split; [reflexivity|]. simpl. rewrite O. rewrite up_upd_used in Up. exact Up.
Qed.

(* ---------- newEnv ---------- *)
Lemma new_env_owner st outer nv ni st' f a : new_env st outer nv ni = (st', f) -> a < narr st ->
  a_owner (geta st' a) = a_owner (geta st a) \/ (a_owner (geta st' a) = nact st /\ narr st' = narr st).
Proof.
  unfold new_env. destruct (take st) as [st1 f0] eqn:T.
  assert (E1 : arrs st1 = arrs st /\ nact st1 = nact st).
  { unfold take in T. destruct (pool st); inversion T; subst; split; reflexivity. }
  destruct E1 as [EA EN]. cbv zeta.
  destruct (ni <=? arr_cap st1 (f_arr (getf st1 f0))).
  - destruct (f_arr (getf st1 f0)) as [b|].
    + intros H Ha. inversion H; subst st' f. unfold geta, narr. simpl. rewrite EA, EN.
      destruct (Nat.eq_dec b a) as [->|N].
      * right. rewrite nth_upd_eq by exact Ha. simpl. split; [reflexivity|apply upd_length].
      * left. rewrite nth_upd_neq by auto. reflexivity.
    + intros H Ha. inversion H; subst. left. unfold geta. simpl. rewrite EA. reflexivity.
  - intros H Ha. inversion H; subst. left. unfold geta; simpl. rewrite EA. rewrite app_nth1 by exact Ha. reflexivity.
Qed.

Lemma sim_new_env st s outer nv ni st1 f ns :
  Inv1 st -> Sim st s -> new_env st outer nv ni = (st1, f) -> live st outer ->
  (forall x, In x (concat ns) -> x = f \/ In x (concat (stack st))) ->
  Sim (set_stack st1 ns) (s_set_stack (fst (snew s (act st outer) ni)) (map (map (act st1)) ns)).
Proof.
  intros I S N Lo Hns.
  destruct (new_env_fresh _ _ _ _ _ _ I N) as (P & Fs & Fp & Flt & Flive & Fu & Fi & Fn).
  pose proof (fun a => new_env_owner _ _ _ _ _ _ a N) as OW.
  destruct P as [ne_f0 ne_pool0 ne_nfr0 ne_stack0 ne_clos0 ne_ptrs0 ne_nact0 ne_other0 ne_outer0 ne_used0 ne_iat0 ne_nints0 ne_act0 ne_narr0 ne_data0 ne_owner0 ne_newarr0 ne_arr0 ne_arr_none0].
  destruct S as [S1 S2 S3 S4 S5 S6 S7 S8 S9 S10 S11 S12 S13].
  set (st' := set_stack st1 ns).
  (* frames other than f that existed before are untouched *)
  assert (OTH : forall g, live st g -> g <> f /\ g < nfr st /\ getf st1 g = getf st g /\ act st1 g = act st g).
  { intros g L. pose proof (Flive g L). pose proof (live_lt _ _ I L). repeat split; auto.
    unfold act. rewrite ne_other0; auto. }
  assert (LV : forall g, live st' g -> g = f \/ live st g).
  { intros g [H|[H U]].
    - change (stack st') with ns in H. destruct (Hns g H); auto. right; left; auto.
    - destruct (Nat.eq_dec g f) as [->|NE]; auto. right. right.
      change (nfr st') with (nfr st1) in H. unfold used in U. change (getf st' g) with (getf st1 g) in U.
      assert (g < nfr st).
      { rewrite ne_nfr0 in H. destruct (pool st) eqn:PL; auto. unfold taken in ne_f0. rewrite PL in ne_f0. lia. }
      rewrite ne_other0 in U by auto. split; auto. }
  assert (F_arr_old : forall a, a < narr st -> f_arr (getf st f) = Some a -> pool st <> [] -> f_iat (getf st f) = false).
  { intros; exact Fi. }
  (* owners of arrays attached to live frames or pointed to are unchanged *)
  assert (OWL : forall g a, live st g -> f_arr (getf st g) = Some a ->
                            a_owner (geta st1 a) = a_owner (geta st a) /\ acap st1 a = acap st a).
  { intros g a L FA. destruct (OTH g L) as (NE & Lt & _ & _).
    assert (Ha : a < narr st) by (eapply (i_arr_lt _ I); eauto). split.
    - apply ne_owner0; auto. destruct (pool st) eqn:PL; auto. left. intros C.
      assert (f < nfr st).
      { unfold taken in ne_f0. rewrite PL in ne_f0. subst f. apply (i_pool_lt _ I). rewrite PL. left; auto. }
      apply NE. eapply (i_arr_inj _ I); eauto.
    - unfold acap. rewrite ne_data0; auto. }
  assert (ACAP : forall a, a < narr st -> acap st1 a = acap st a).
  { intros a Ha. unfold acap. rewrite ne_data0; auto. }
  constructor.
  - (* nact *) simpl. rewrite app_length. simpl. rewrite S1, ne_nact0. lia.
  - simpl. rewrite app_length. simpl. rewrite S2, ne_nact0. lia.
  - reflexivity.
  - (* clos *) simpl. change (clos st') with (clos st1). rewrite ne_clos0, S4. apply map_ext_in.
    intros c Hc. destruct (i_clos _ I c Hc) as [Lt U]. destruct (OTH c (or_intror (conj Lt U))) as (_ & _ & _ & E).
    symmetry. exact E.
  - (* ptrs *) simpl. change (ptrs st') with (ptrs st1). rewrite ne_ptrs0.
    assert (PIN : forall p, In p (ptrs st) -> fst p < narr st /\
                   forall g, g < nfr st -> f_arr (getf st g) = Some (fst p) -> f_iat (getf st g) = true).
    { intros [a i] Hp. apply (i_ptr _ I a i Hp). }
    revert PIN. generalize (ptrs st) (s_ptrs s) S5. clear - ne_owner0 ne_data0 ne_narr0 Fi ne_f0 I.
    induction 1 as [|p k ps ks R F IH]; intros PIN; constructor.
    + destruct R as (P1 & P2 & P3 & P4). destruct (PIN p (or_introl eq_refl)) as [_ IAT].
      unfold ptr_rel. unfold st'. change (narr (set_stack st1 ns)) with (narr st1).
      change (geta (set_stack st1 ns)) with (geta st1). change (acap (set_stack st1 ns)) with (acap st1).
      split; [lia|]. split.
      * rewrite ne_owner0; auto. destruct (pool st) eqn:PL; auto. left. intros C.
        assert (f < nfr st).
        { unfold taken in ne_f0. rewrite PL in ne_f0. subst f. apply (i_pool_lt _ I). rewrite PL. left; auto. }
        specialize (IAT f H C). congruence.
      * split; auto. unfold acap. rewrite ne_data0; auto.
    + apply IH. intros q Hq. apply PIN. right; auto.
  - (* act_lt *) intros g L. change (act st' g) with (act st1 g). change (nact st') with (nact st1). rewrite ne_nact0.
    destruct (LV g L) as [->|L0].
    + unfold act. rewrite ne_act0. lia.
    + destruct (OTH g L0) as (_ & _ & _ & E). rewrite E. specialize (S6 g L0). lia.
  - (* outer *) intros g L. change (act st' g) with (act st1 g). change (getf st' g) with (getf st1 g).
    change (act st') with (act st1). simpl s_outer.
    destruct (LV g L) as [->|L0].
    + unfold act at 1. rewrite ne_act0, <- S1, nth_app_last, ne_outer0. simpl.
      destruct (OTH outer Lo) as (_ & _ & _ & E). rewrite E. reflexivity.
    + destruct (OTH g L0) as (_ & _ & EG & E). rewrite E, EG.
      rewrite app_nth1 by (rewrite S1; apply S6; auto). rewrite (S7 g L0).
      destruct (f_outer (getf st g)) as [h|] eqn:O; simpl; auto.
      destruct (live_outer _ _ _ I L0 O) as [Lh _]. destruct (OTH h Lh) as (_ & _ & _ & Eh). rewrite Eh. reflexivity.
  - (* nints *) intros g L. change (act st' g) with (act st1 g). change (getf st' g) with (getf st1 g). simpl s_nints.
    destruct (LV g L) as [->|L0].
    + unfold act. rewrite ne_act0, <- S2, nth_app_last, ne_nints0. reflexivity.
    + destruct (OTH g L0) as (_ & _ & EG & E). rewrite E, EG.
      rewrite app_nth1 by (rewrite S2; apply S6; auto). auto.
  - (* arr *) intros g L. change (act st' g) with (act st1 g). change (getf st' g) with (getf st1 g).
    change (geta st') with (geta st1). change (acap st') with (acap st1).
    destruct (LV g L) as [->|L0].
    + destruct (f_arr (getf st1 f)) as [a|].
      * destruct (ne_arr0 a eq_refl) as (A1 & A2 & A3 & _). unfold act. rewrite ne_act0, ne_nints0. auto.
      * rewrite ne_nints0. auto.
    + destruct (OTH g L0) as (_ & _ & EG & E). rewrite E, EG. specialize (S9 g L0).
      destruct (f_arr (getf st g)) as [a|] eqn:FA; auto.
      destruct (OWL g a L0 FA) as [O1 O2]. rewrite O1, O2. auto.
  - (* store *) intros a slot v Ha. change (narr st') with (narr st1) in Ha. change (geta st') with (geta st1).
    simpl s_store.
    destruct (lt_dec a (narr st)) as [Lt|Ge].
    + destruct (OW a Lt) as [E|[E _]]; rewrite E.
      * rewrite ne_data0 by auto. auto.
      * rewrite S13 by lia. discriminate.
    + destruct (ne_newarr0 a) as (E & _); [lia|auto|]. rewrite E. rewrite S13 by lia. discriminate.
  - (* owner inj *) intros a b Ha Hb. change (narr st') with (narr st1) in *. change (geta st') with (geta st1).
    assert (CH : forall c, c < narr st -> a_owner (geta st1 c) = nact st ->
                 f_arr (getf st f) = Some c /\ narr st1 = narr st).
    { intros c Hc E. destruct (OW c Hc) as [E'|[_ E']].
      - specialize (S12 c Hc). lia.
      - split; auto. destruct (f_arr (getf st f)) as [c'|] eqn:FA.
        + destruct (Nat.eq_dec c' c) as [->|NE]; auto. exfalso.
          rewrite ne_owner0 in E; auto. specialize (S12 c Hc). lia. left. congruence.
        + exfalso. rewrite ne_owner0 in E; auto. specialize (S12 c Hc). lia. left. discriminate. }
    intros E.
    destruct (lt_dec a (narr st)) as [La|Ga]; destruct (lt_dec b (narr st)) as [Lb|Gb].
    + destruct (OW a La) as [Ea|[Ea _]]; destruct (OW b Lb) as [Eb|[Eb _]].
      * rewrite Ea, Eb in E. auto.
      * rewrite Ea, Eb in E. specialize (S12 a La). lia.
      * rewrite Ea, Eb in E. specialize (S12 b Lb). lia.
      * destruct (CH a La Ea) as [X _]. destruct (CH b Lb Eb) as [Y _]. congruence.
    + destruct (ne_newarr0 b) as (Eb & _); [lia|auto|]. rewrite Eb in E.
      destruct (CH a La E) as [_ X]. lia.
    + destruct (ne_newarr0 a) as (Ea & _); [lia|auto|]. rewrite Ea in E. symmetry in E.
      destruct (CH b Lb E) as [_ X]. lia.
    + destruct (ne_newarr0 a) as (_ & Ea & _); [lia|auto|]. destruct (ne_newarr0 b) as (_ & Eb & _); [lia|auto|].
      congruence.
  - (* owner lt *) intros a Ha. change (narr st') with (narr st1) in Ha. change (geta st') with (geta st1).
    change (nact st') with (nact st1). rewrite ne_nact0.
    destruct (lt_dec a (narr st)) as [Lt|Ge].
    + destruct (OW a Lt) as [E|[E _]]; rewrite E; [specialize (S12 a Lt)|]; lia.
    + destruct (ne_newarr0 a) as (E & _); [lia|auto|]. rewrite E. lia.
  - (* fresh *) intros n j Hn. simpl s_store. change (nact st') with (nact st1) in Hn. rewrite ne_nact0 in Hn.
    apply S13. lia.
Qed.

(* ---------- argument copy-in ---------- *)
Lemma sim_write_args args : forall st s f i, Inv1 st -> Sim st s -> live st f ->
  Sim (write_args st f i args) (swrite_args s (act st f) i args).
Proof.
  induction args as [|v args IH]; intros st s f i I Sm L; simpl; auto.
  pose proof (sim_loc st s f 0 i I Sm L) as H.
  destruct (loc_of st f 0 i) as [[a j]|].
  - destruct H as (H1 & H2 & H3). simpl in H1, H2, H3. rewrite H3.
    apply (IH (wr st (a, j) v) (swr s (a_owner (geta st a), j) v) f (S i)).
    + apply inv1_wr; auto.
    + apply sim_wr; auto.
    + exact L.
  - rewrite H. apply IH; auto.
Qed.

Lemma swrite_args_set_stack args : forall s a i ns,
  swrite_args (s_set_stack s ns) a i args = s_set_stack (swrite_args s a i args) ns.
Proof.
  induction args as [|v args IH]; intros s a i ns; simpl; auto.
  change (svar (s_set_stack s ns) a 0 i) with (svar s a 0 i).
  destruct (svar s a 0 i) as [k|]; [|apply IH].
  change (swr (s_set_stack s ns) k v) with (s_set_stack (swr s k v) ns). apply IH.
Qed.

Lemma swrite_args_stack args : forall s a i, s_stack (swrite_args s a i args) = s_stack s.
Proof.
  induction args as [|v args IH]; intros s a i; simpl; auto. rewrite IH. destruct (svar s a 0 i); reflexivity.
Qed.

(* ================= the operations ================= *)
Definition step_ok (K : nat) (st : state) (s : sstate) (o : op) : Prop :=
  Sim (fst (step K st o)) (fst (sstep s o)) /\ out_refines (snd (step K st o)) (snd (sstep s o)) = true.

Lemma sim_cur st s : Inv1 st -> stack st <> [] -> Sim st s -> s_cur s = act st (cur st).
Proof.
  intros I NE Sm. unfold s_cur, cur, cur_call. rewrite (sm_stack _ _ Sm).
  destruct (stack st) as [|call rest] eqn:E; [congruence|].
  destruct (stack_head_call st call rest I E) as (_ & _ & _ & NEc & _).
  destruct call as [|x c]; [congruence|]. reflexivity.
Qed.

Lemma last_map_ne {A B} (g : A -> B) l d d' : l <> [] -> last (map g l) d' = g (last l d).
Proof.
  induction l as [|x l IH]; [congruence|]. intros _. destruct l as [|y l]; [reflexivity|].
  change (last (map g (y :: l)) d' = g (last (y :: l) d)). apply IH. discriminate.
Qed.

Lemma skipn_map' {A B} (g : A -> B) l : forall k, skipn k (map g l) = map g (skipn k l).
Proof. induction l as [|x l IH]; intros [|k]; simpl; auto. Qed.

Lemma Forall2_nth_error {A B} (R : A -> B -> Prop) l1 l2 n : Forall2 R l1 l2 ->
  match nth_error l1 n, nth_error l2 n with
  | Some a, Some b => R a b
  | None, None => True
  | _, _ => False
  end.
Proof. intros F. revert n. induction F; intros [|n]; simpl; auto. apply IHF. Qed.

Lemma new_env_act_stack st outer nv ni st1 f : Inv1 st -> new_env st outer nv ni = (st1, f) ->
  map (map (act st1)) (stack st) = map (map (act st)) (stack st) /\ act st1 f = nact st /\ stack st1 = stack st.
Proof.
  intros I N. destruct (new_env_fresh _ _ _ _ _ _ I N) as (P & Fs & Fp & Flt & Flive & Fu & Fi & Fn).
  destruct P as [ne_f0 ne_pool0 ne_nfr0 ne_stack0 ne_clos0 ne_ptrs0 ne_nact0 ne_other0 ne_outer0 ne_used0 ne_iat0 ne_nints0 ne_act0 ne_narr0 ne_data0 ne_owner0 ne_newarr0 ne_arr0 ne_arr_none0].
  split; [|split; auto].
  apply map_ext_in. intros call Hc. apply map_ext_in. intros x Hx.
  assert (L : live st x) by (left; apply in_concat; eauto).
  unfold act. rewrite ne_other0; auto. eapply live_lt; eauto.
Qed.

(* ---------- call ---------- *)
Lemma step_call K st s c nv ni args : Inv1 st -> stack st <> [] -> Sim st s -> step_ok K st s (OCall c nv ni args).
Proof.
  intros I NE Sm. unfold step_ok.
  pose proof (inv1_step K st (OCall c nv ni []) I NE) as [X _].
  cbn [step sstep] in *. rewrite (sm_clos _ _ Sm), nth_error_map'.
  destruct (nth_error (clos st) c) as [outer|] eqn:C; cbn [option_map].
  2:{ cbn [fst snd]. split; auto. }
  destruct (new_env st outer nv ni) as [st1 f] eqn:N. unfold snew. cbv beta iota zeta in *. cbn [fst snd write_args] in *.
  split; [|reflexivity].
  destruct (new_env_act_stack _ _ _ _ _ _ I N) as (E1 & E2 & E3).
  assert (Lo : live st outer).
  { assert (Co : In outer (clos st)) by (eapply nth_error_In; eauto). destruct (i_clos _ I outer Co). right; auto. }
  pose proof (sim_new_env st s outer nv ni st1 f ([f] :: stack st) I Sm N Lo) as S1.
  assert (Hns : forall x, In x (concat ([f] :: stack st)) -> x = f \/ In x (concat (stack st))).
  { intros x Hx. simpl in Hx. destruct Hx as [->|Hx]; auto. }
  specialize (S1 Hns). rewrite E3 in X.
  rewrite write_args_stack, swrite_args_stack. rewrite <- write_args_set_stack, <- swrite_args_set_stack.
  rewrite E3.
  replace (length (s_outer s)) with (act (set_stack st1 ([f] :: stack st)) f)
    by (change (act (set_stack st1 ([f] :: stack st)) f) with (act st1 f); rewrite E2; symmetry; apply (sm_nact _ _ Sm)).
  apply sim_write_args.
  - exact X.
  - unfold snew in S1. cbn [fst map] in S1. rewrite E1 in S1. cbn [s_stack].
    rewrite <- (sm_stack _ _ Sm) in S1. exact S1.
  - left. simpl. auto.
Qed.

(* ---------- block entry ---------- *)
Lemma step_block K st s nv ni : Inv1 st -> stack st <> [] -> Sim st s -> step_ok K st s (OBlock nv ni).
Proof.
  intros I NE Sm. unfold step_ok.
  assert (Lo : live st (cur st)) by (apply cur_live; auto).
  cbn [step sstep]. rewrite (sm_stack _ _ Sm), (sim_cur st s I NE Sm).
  destruct (stack st) as [|call rest] eqn:E; [congruence|]. cbn [map].
  destruct (new_env st (cur st) nv ni) as [st1 f] eqn:N. unfold snew. cbv beta iota zeta. cbn [fst snd].
  split; [|reflexivity].
  destruct (new_env_act_stack _ _ _ _ _ _ I N) as (E1 & E2 & E3). rewrite E in E1. cbn [map] in E1.
  pose proof (sim_new_env st s (cur st) nv ni st1 f ((f :: call) :: rest) I Sm N Lo) as S1.
  assert (Hns : forall x, In x (concat ((f :: call) :: rest)) -> x = f \/ In x (concat (stack st))).
  { intros x Hx. rewrite E. simpl in *. destruct Hx as [->|Hx]; auto. }
  specialize (S1 Hns). unfold snew in S1. cbn [fst map] in S1.
  injection E1 as E1a E1b. rewrite E1a, E1b, E2 in S1. rewrite <- (sm_nact _ _ Sm) in S1. exact S1.
Qed.

(* ---------- freeEnv ---------- *)
Lemma free_env_nact K st x : nact (free_env K st x) = nact st.
Proof. unfold free_env. destruct (f_used (getf st x)); auto. destruct (K <=? length (pool st)); auto. Qed.
Lemma free_env_clos K st x : clos (free_env K st x) = clos st.
Proof. unfold free_env. destruct (f_used (getf st x)); auto. destruct (K <=? length (pool st)); auto. Qed.

Lemma free_env_getf K st x g :
  getf (free_env K st x) g = getf st g \/
  (g = x /\ f_used (getf (free_env K st x) g) = false /\ f_act (getf (free_env K st x) g) = f_act (getf st g)).
Proof.
  unfold free_env. destruct (f_used (getf st x)) eqn:U; auto. destruct (K <=? length (pool st)); auto.
  match goal with |- context [set_pool (setf st x ?fr) ?p] => set (fr' := fr); change (getf (set_pool (setf st x fr') p) g) with (getf (setf st x fr') g) end.
  destruct (Nat.eq_dec x g) as [->|NE].
  - destruct (lt_dec g (nfr st)).
    + right. rewrite getf_setf_eq by auto. unfold fr'. destruct (f_iat (getf st g)); simpl; auto.
    + left. unfold getf, setf. simpl. rewrite !nth_overflow; auto; try rewrite upd_length; unfold nfr in *; lia.
  - left. apply getf_setf_neq; auto.
Qed.

Lemma sim_free K st s f ns : Inv1 st -> Sim st s ->
  (forall x, In x (concat ns) -> In x (concat (stack st)) /\ x <> f) ->
  Sim (set_stack (free_env K st f) ns) (s_set_stack s (map (map (act st)) ns)).
Proof.
  intros I Sm Hns.
  assert (ACT : forall g, act (set_stack (free_env K st f) ns) g = act st g).
  { intros g. change (act (set_stack (free_env K st f) ns) g) with (f_act (getf (free_env K st f) g)).
    destruct (free_env_getf K st f g) as [E|(_ & _ & E)]; rewrite E; reflexivity. }
  eapply sim_same_heap; eauto.
  - apply free_env_nact.
  - apply free_env_arrs.
  - intros g L. change (getf (set_stack (free_env K st f) ns) g) with (getf (free_env K st f) g).
    destruct L as [H|[H U]].
    + change (stack (set_stack (free_env K st f) ns)) with ns in H. destruct (Hns g H) as [H1 H2].
      destruct (free_env_getf K st f g) as [E|(E & _)]; [|congruence]. rewrite E. split; auto. left; auto.
    + change (nfr (set_stack (free_env K st f) ns)) with (nfr (free_env K st f)) in H. rewrite free_env_nfr in H.
      unfold used in U. change (getf (set_stack (free_env K st f) ns) g) with (getf (free_env K st f) g) in U.
      destruct (free_env_getf K st f g) as [E|(_ & E & _)]; [|congruence]. rewrite E in *. split; auto. right; auto.
  - cbn [s_stack s_set_stack]. change (stack (set_stack (free_env K st f) ns)) with ns.
    apply map_ext. intros call. apply map_ext. intros x. symmetry. apply ACT.
  - cbn [s_clos s_set_stack]. change (clos (set_stack (free_env K st f) ns)) with (clos (free_env K st f)).
    rewrite free_env_clos, (sm_clos _ _ Sm). apply map_ext. intros x. symmetry. apply ACT.
  - change (ptrs (set_stack (free_env K st f) ns)) with (ptrs (free_env K st f)). rewrite free_env_ptrs.
    apply (sm_ptrs _ _ Sm).
Qed.

(* results are read before the frame is freed *)
Lemma sim_results st s f rs : Inv1 st -> Sim st s -> live st f ->
  vals_refine (map (fun r => match loc_of st f 0 r with Some l => rd st l | None => None end) rs)
              (map (fun r => match svar s (act st f) 0 r with Some k => slookup (s_store s) k | None => None end) rs) = true.
Proof.
  intros I Sm L. induction rs as [|r rs IH]; [reflexivity|]. cbn [map vals_refine]. rewrite IH, andb_true_r.
  pose proof (sim_loc st s f 0 r I Sm L) as H. destruct (loc_of st f 0 r) as [[a i]|].
  - destruct H as (H1 & _ & H3). simpl in H1, H3. rewrite H3. apply sim_rd; auto.
  - rewrite H. reflexivity.
Qed.

Lemma step_ret K st s rs : Inv1 st -> stack st <> [] -> Sim st s -> step_ok K st s (ORet rs).
Proof.
  intros I NE Sm. unfold step_ok. cbn [step sstep]. rewrite (sm_stack _ _ Sm).
  destruct (stack st) as [|call [|caller rest]] eqn:E; cbn [map fst snd]; try (split; auto; fail).
  destruct (stack_head_call st call (caller :: rest) I E) as (_ & _ & _ & NEc & _).
  assert (Hlast : In (last_frame call) call).
  { unfold last_frame. destruct (@exists_last _ call NEc) as (l' & a & El). rewrite El, last_last.
    apply in_or_app. right; left; auto. }
  assert (Lf : live st (last_frame call)).
  { left. rewrite E. simpl. apply in_or_app. left; auto. }
  rewrite (last_map_ne (act st) call 0 0 NEc). fold (last_frame call).
  split.
  - change (map (act st) caller :: map (map (act st)) rest) with (map (map (act st)) (caller :: rest)).
    apply sim_free; auto. intros x Hx. split.
    + rewrite E. simpl. apply in_or_app. right. exact Hx.
    + intros ->. pose proof (i_stack_nodup _ I) as ND. rewrite E in ND. simpl in ND.
      eapply NoDup_app_disj; eauto.
  - cbn [out_refines]. apply sim_results; auto.
Qed.

Lemma step_blockend K st s : Inv1 st -> stack st <> [] -> Sim st s -> step_ok K st s OBlockEnd.
Proof.
  intros I NE Sm. unfold step_ok. cbn [step sstep]. rewrite (sm_stack _ _ Sm).
  destruct (stack st) as [|[|b [|g call']] rest] eqn:E; cbn [map fst snd]; try (split; auto; fail).
  split; [|reflexivity].
  change ((act st g :: map (act st) call') :: map (map (act st)) rest) with (map (map (act st)) ((g :: call') :: rest)).
  apply sim_free; auto. intros x Hx. pose proof (i_stack_nodup _ I) as ND. rewrite E in ND. simpl in ND. split.
  - rewrite E. simpl. right. exact Hx.
  - intros ->. inversion ND; subst. auto.
Qed.

(* ---------- break / continue / goto out of blocks ---------- *)
Lemma step_leave K st s k : Inv1 st -> stack st <> [] -> Sim st s -> step_ok K st s (OLeave k).
Proof.
  intros I NE Sm. unfold step_ok. cbn [step sstep]. rewrite (sm_stack _ _ Sm).
  destruct (stack st) as [|call rest] eqn:E; [congruence|]. cbn [map]. rewrite map_length.
  destruct (k <? length call) eqn:Kk; cbn [fst snd]; [|split; auto].
  split; [|reflexivity]. rewrite skipn_map'.
  eapply sim_same_heap; eauto; try reflexivity.
  - intros g L. split; [|auto]. destruct L as [H|H]; [|right; exact H]. left. rewrite E.
    simpl in *. apply in_app_or in H. apply in_or_app. destruct H as [H|H]; auto. left. eapply in_skipn; eauto.
  - cbn [s_clos s_set_stack]. apply (sm_clos _ _ Sm).
  - apply (sm_ptrs _ _ Sm).
Qed.

(* ---------- closure creation ---------- *)
Lemma step_closure K st s : Inv1 st -> stack st <> [] -> Sim st s -> step_ok K st s OClosure.
Proof.
  intros I NE Sm. unfold step_ok. cbn [step sstep fst snd]. split; [|reflexivity].
  set (fs' := mark (length (frames st)) (frames st) (Some (cur st))).
  set (st' := set_clos (set_frames st fs') (clos st ++ [cur st])).
  assert (GF : forall g, getf st' g = getf st g \/ getf st' g = set_used (getf st g)).
  { intros g. change (getf st' g) with (nth g fs' dframe). unfold getf. apply mark_frame. }
  assert (ACT : forall g, act st' g = act st g).
  { intros g. unfold act. destruct (GF g) as [E|E]; rewrite E; reflexivity. }
  eapply sim_same_heap; eauto; try reflexivity.
  - intros g L. assert (L0 : live st g).
    { destruct L as [H|[H U]]; [left; exact H|].
      change (nfr st') with (length fs') in H. unfold fs' in H. rewrite mark_length in H.
      unfold used in U. change (getf st' g) with (nth g fs' dframe) in U.
      destruct (mark_used_src _ _ _ _ U) as [U0|(n & f & Ef & Up)].
      - right. split; auto.
      - inversion Ef; subst f. eapply up_live; eauto. apply cur_live; auto. }
    split; auto. destruct (GF g) as [Eg|Eg]; rewrite Eg; auto.
  - cbn [s_stack]. change (stack st') with (stack st). rewrite (sm_stack _ _ Sm).
    apply map_ext. intros call. apply map_ext. intros x. symmetry. apply ACT.
  - cbn [s_clos]. change (clos st') with (clos st ++ [cur st]). rewrite map_app, (sm_clos _ _ Sm).
    cbn [map]. rewrite (sim_cur st s I NE Sm), ACT. f_equal. apply map_ext. intros x. symmetry. apply ACT.
  - apply (sm_ptrs _ _ Sm).
Qed.

(* ---------- &x ---------- *)
Lemma Forall2_snoc {A B} (R : A -> B -> Prop) l1 l2 a b : Forall2 R l1 l2 -> R a b -> Forall2 R (l1 ++ [a]) (l2 ++ [b]).
Proof. intros F H. induction F; simpl; constructor; auto. Qed.

Lemma step_addr K st s upn slot : Inv1 st -> stack st <> [] -> Sim st s -> step_ok K st s (OAddr upn slot).
Proof.
  intros I NE Sm. unfold step_ok. cbn [step sstep]. rewrite (sim_cur st s I NE Sm).
  assert (Lc : live st (cur st)) by (apply cur_live; auto).
  pose proof (sim_loc st s (cur st) upn slot I Sm Lc) as H.
  destruct (loc_of st (cur st) upn slot) as [l|] eqn:EL.
  2:{ rewrite H. destruct (up (frames st) upn (cur st)); cbn [fst snd]; split; auto. }
  destruct H as (H1 & H2 & H3). rewrite H3.
  destruct l as [a i]. destruct (loc_of_arr _ _ _ _ _ _ EL) as (g & U & FA & _ & _). rewrite U. cbn [fst snd] in *.
  split; [|reflexivity].
  assert (Lg : live st g) by (eapply up_live; eauto). pose proof (live_lt _ _ I Lg) as Ltg.
  match goal with |- Sim (set_ptrs (setf st g ?fr) _) _ => set (fr' := fr) end.
  set (st' := set_ptrs (setf st g fr') (ptrs st ++ [(a, i)])).
  assert (GF : forall h, getf st' h = getf st h \/ (h = g /\ getf st' h = fr')).
  { intros h. change (getf st' h) with (getf (setf st g fr') h). destruct (Nat.eq_dec g h) as [->|N].
    - right. split; auto. apply getf_setf_eq; auto.
    - left. apply getf_setf_neq; auto. }
  assert (ACT : forall h, act st' h = act st h).
  { intros h. unfold act. destruct (GF h) as [E|[-> E]]; rewrite E; reflexivity. }
  eapply sim_same_heap; eauto; try reflexivity.
  - intros h L. assert (L0 : live st h).
    { destruct L as [X|[X Y]]; [left; exact X|]. right. change (nfr st') with (nfr (setf st g fr')) in X.
      rewrite nfr_setf in X. split; auto. unfold used in *. destruct (GF h) as [E|[-> E]]; rewrite E in Y; auto. }
    split; auto. destruct (GF h) as [E|[-> E]]; rewrite E; auto.
  - cbn [s_stack]. change (stack st') with (stack st). rewrite (sm_stack _ _ Sm).
    apply map_ext. intros call. apply map_ext. intros x. symmetry. apply ACT.
  - cbn [s_clos]. change (clos st') with (clos st). rewrite (sm_clos _ _ Sm).
    apply map_ext. intros x. symmetry. apply ACT.
  - cbn [s_ptrs]. change (ptrs st') with (ptrs st ++ [(a, i)]). apply Forall2_snoc; [apply (sm_ptrs _ _ Sm)|].
    unfold ptr_rel. cbn [fst snd]. auto.
Qed.

(* ---------- variable and pointer accesses ---------- *)
Lemma step_set K st s upn slot v : Inv1 st -> stack st <> [] -> Sim st s -> step_ok K st s (OSet upn slot v).
Proof.
  intros I NE Sm. unfold step_ok. cbn [step sstep]. rewrite (sim_cur st s I NE Sm).
  pose proof (sim_loc st s (cur st) upn slot I Sm (cur_live _ I NE)) as H.
  destruct (loc_of st (cur st) upn slot) as [[a i]|].
  - destruct H as (H1 & H2 & H3). rewrite H3. cbn [fst snd] in *. split; [|reflexivity]. apply sim_wr; auto.
  - rewrite H. cbn [fst snd]. split; auto.
Qed.

Lemma step_get K st s upn slot : Inv1 st -> stack st <> [] -> Sim st s -> step_ok K st s (OGet upn slot).
Proof.
  intros I NE Sm. unfold step_ok. cbn [step sstep]. rewrite (sim_cur st s I NE Sm).
  pose proof (sim_loc st s (cur st) upn slot I Sm (cur_live _ I NE)) as H.
  destruct (loc_of st (cur st) upn slot) as [[a i]|].
  - destruct H as (H1 & H2 & H3). rewrite H3. cbn [fst snd out_refines] in *. split; auto. apply sim_rd; auto.
  - rewrite H. cbn [fst snd]. split; auto.
Qed.

Lemma step_pset K st s p v : Inv1 st -> stack st <> [] -> Sim st s -> step_ok K st s (OPSet p v).
Proof.
  intros I NE Sm. unfold step_ok. cbn [step sstep].
  pose proof (Forall2_nth_error _ _ _ p (sm_ptrs _ _ Sm)) as H.
  destruct (nth_error (ptrs st) p) as [[a i]|]; destruct (nth_error (s_ptrs s) p) as [[n j]|]; try contradiction.
  - destruct H as (H1 & H2 & H3 & H4). cbn [fst snd] in *. subst n j. split; [|reflexivity]. apply sim_wr; auto.
  - cbn [fst snd]. split; auto.
Qed.

Lemma step_pget K st s p : Inv1 st -> stack st <> [] -> Sim st s -> step_ok K st s (OPGet p).
Proof.
  intros I NE Sm. unfold step_ok. cbn [step sstep].
  pose proof (Forall2_nth_error _ _ _ p (sm_ptrs _ _ Sm)) as H.
  destruct (nth_error (ptrs st) p) as [[a i]|]; destruct (nth_error (s_ptrs s) p) as [[n j]|]; try contradiction.
  - destruct H as (H1 & H2 & H3 & H4). cbn [fst snd out_refines] in *. subst n j. split; auto. apply sim_rd; auto.
  - cbn [fst snd]. split; auto.
Qed.

Lemma step_sim K st s o : Inv1 st -> stack st <> [] -> Sim st s -> step_ok K st s o.
Proof.
  intros I NE Sm. destruct o.
  - apply step_call; auto.
  - apply step_ret; auto.
  - apply step_block; auto.
  - apply step_blockend; auto.
  - apply step_leave; auto.
  - apply step_closure; auto.
  - apply step_addr; auto.
  - apply step_set; auto.
  - apply step_get; auto.
  - apply step_pset; auto.
  - apply step_pget; auto.
Qed.

(* ================= all histories ================= *)
Lemma run_refines K ops : forall st s, Inv1 st -> stack st <> [] -> Sim st s ->
  outs_refine (snd (run K st ops)) (snd (srun s ops)) = true.
Proof.
  induction ops as [|o ops IH]; intros st s I NE Sm; [reflexivity|].
  cbn [run srun]. destruct (step_sim K st s o I NE Sm) as [S1 O1].
  destruct (inv1_step K st o I NE) as [I1 NE1].
  destruct (step K st o) as [st1 r] eqn:E1. destruct (sstep s o) as [s1 r'] eqn:E2. cbn [fst snd] in *.
  specialize (IH st1 s1 I1 NE1 S1).
  destruct (run K st1 ops) as [st2 rs]. destruct (srun s1 ops) as [s2 rs']. cbn [fst snd outs_refine] in *.
  rewrite O1, IH. reflexivity.
Qed.

Lemma outputs_refine K ops : outs_refine (outputs K ops) (soutputs ops) = true.
Proof.
  unfold outputs, soutputs. apply run_refines.
  - apply inv1_init.
  - simpl. discriminate.
  - apply sim_init.
Qed.

(* C06 — lemmas about the frame machine: primitive state transformers. *)
From Coq Require Import List Arith ZArith Bool Lia.
From Verif Require Import C06.Model.
Import ListNotations.

(* ---------- lists ---------- *)
Lemma upd_length {A} (l : list A) i x : length (upd l i x) = length l.
Proof. revert i; induction l; intros [|i]; simpl; auto. Qed.

Lemma nth_upd_eq {A} (l : list A) i x d : i < length l -> nth i (upd l i x) d = x.
Proof. revert i; induction l; intros [|i] H; simpl in *; try lia; auto. apply IHl. lia. Qed.

Lemma nth_upd_neq {A} (l : list A) i j x d : i <> j -> nth j (upd l i x) d = nth j l d.
Proof. revert i j; induction l; intros [|i] [|j] H; simpl; auto; try congruence. Qed.

Lemma nth_error_upd_eq {A} (l : list A) i x : i < length l -> nth_error (upd l i x) i = Some x.
Proof. revert i; induction l; intros [|i] H; simpl in *; try lia; auto. apply IHl. lia. Qed.

Lemma nth_error_upd_neq {A} (l : list A) i j x : i <> j -> nth_error (upd l i x) j = nth_error l j.
Proof. revert i j; induction l; intros [|i] [|j] H; simpl; auto; try congruence. Qed.

Lemma nth_app_last {A} (l : list A) x d : nth (length l) (l ++ [x]) d = x.
Proof. rewrite app_nth2 by lia. rewrite Nat.sub_diag. reflexivity. Qed.

Lemma nodup_bound_length (l : list nat) n : NoDup l -> (forall x, In x l -> x < n) -> length l <= n.
Proof.
  intros ND H. rewrite <- (seq_length n 0). apply NoDup_incl_length; auto.
  intros x Hx. apply in_seq. specialize (H x Hx). lia.
Qed.

(* ---------- accessors through the setters ---------- *)
Definition nfr (st : state) := length (frames st).
Definition narr (st : state) := length (arrs st).
Definition act (st : state) (f : nat) := f_act (getf st f).
Definition acap (st : state) (a : nat) := length (a_data (geta st a)).

Lemma getf_setf_eq st f fr : f < nfr st -> getf (setf st f fr) f = fr.
Proof. intros; unfold getf, setf; simpl. apply nth_upd_eq; auto. Qed.
Lemma getf_setf_neq st f g fr : f <> g -> getf (setf st f fr) g = getf st g.
Proof. intros; unfold getf, setf; simpl. apply nth_upd_neq; auto. Qed.
Lemma nfr_setf st f fr : nfr (setf st f fr) = nfr st.
Proof. unfold nfr, setf; simpl. apply upd_length. Qed.

(* ---------- wr: a store into an Ints array changes nothing but that cell ---------- *)
Lemma wr_frames st l v : frames (wr st l v) = frames st. Proof. reflexivity. Qed.
Lemma wr_pool st l v : pool (wr st l v) = pool st. Proof. reflexivity. Qed.
Lemma wr_stack st l v : stack (wr st l v) = stack st. Proof. reflexivity. Qed.
Lemma wr_clos st l v : clos (wr st l v) = clos st. Proof. reflexivity. Qed.
Lemma wr_ptrs st l v : ptrs (wr st l v) = ptrs st. Proof. reflexivity. Qed.
Lemma wr_nact st l v : nact (wr st l v) = nact st. Proof. reflexivity. Qed.
Lemma wr_getf st l v f : getf (wr st l v) f = getf st f. Proof. reflexivity. Qed.
Lemma wr_narr st l v : narr (wr st l v) = narr st.
Proof. unfold narr, wr; simpl. apply upd_length. Qed.

Lemma wr_geta_eq st a i v : a < narr st ->
  geta (wr st (a, i) v) a = mkArr (a_owner (geta st a)) (upd (a_data (geta st a)) i v).
Proof. intros; unfold geta, wr; simpl. apply nth_upd_eq; auto. Qed.
Lemma wr_geta_neq st a i v b : a <> b -> geta (wr st (a, i) v) b = geta st b.
Proof. intros; unfold geta, wr; simpl. apply nth_upd_neq; auto. Qed.

Lemma wr_owner st l v b : a_owner (geta (wr st l v) b) = a_owner (geta st b).
Proof.
  destruct l as [a i]. destruct (Nat.eq_dec a b) as [->|N].
  - destruct (lt_dec b (narr st)).
    + rewrite wr_geta_eq; auto.
    + unfold geta, wr; simpl. rewrite !nth_overflow; auto; try rewrite upd_length; unfold narr in *; lia.
  - rewrite wr_geta_neq; auto.
Qed.
Lemma wr_acap st l v b : acap (wr st l v) b = acap st b.
Proof.
  unfold acap. destruct l as [a i]. destruct (Nat.eq_dec a b) as [->|N].
  - destruct (lt_dec b (narr st)).
    + rewrite wr_geta_eq; auto. simpl. apply upd_length.
    + unfold geta, wr; simpl. rewrite !nth_overflow; auto; try rewrite upd_length; unfold narr in *; lia.
  - rewrite wr_geta_neq; auto.
Qed.

Lemma wr_up st l v n f : up (frames (wr st l v)) n f = up (frames st) n f.
Proof. reflexivity. Qed.
Lemma wr_loc_of st l v f upn slot : loc_of (wr st l v) f upn slot = loc_of st f upn slot.
Proof. reflexivity. Qed.

(* ---------- new_env ---------- *)
(* the frame handed out, and what it looked like before *)
Definition taken (st : state) : nat := match pool st with f :: _ => f | [] => nfr st end.

Record new_env_post (st : state) (outer nv ni : nat) (st' : state) (f : nat) : Prop := {
  ne_f : f = taken st;
  ne_pool : pool st' = tl (pool st);
  ne_nfr : nfr st' = match pool st with _ :: _ => nfr st | [] => S (nfr st) end;
  ne_stack : stack st' = stack st;
  ne_clos : clos st' = clos st;
  ne_ptrs : ptrs st' = ptrs st;
  ne_nact : nact st' = S (nact st);
  ne_other : forall g, g <> f -> g < nfr st -> getf st' g = getf st g;
  ne_outer : f_outer (getf st' f) = Some outer;
  ne_used : f_used (getf st' f) = f_used (getf st f);
  ne_iat : f_iat (getf st' f) = f_iat (getf st f);
  ne_nints : f_nints (getf st' f) = ni;
  ne_act : f_act (getf st' f) = nact st;
  ne_narr : narr st <= narr st';
  ne_data : forall a, a < narr st -> a_data (geta st' a) = a_data (geta st a);
  ne_owner : forall a, a < narr st -> f_arr (getf st f) <> Some a \/ pool st = [] -> a_owner (geta st' a) = a_owner (geta st a);
  ne_newarr : forall a, narr st <= a -> a < narr st' -> a_owner (geta st' a) = nact st /\ f_arr (getf st' f) = Some a /\ acap st' a = ni;
  ne_arr : forall a, f_arr (getf st' f) = Some a ->
           a < narr st' /\ ni <= acap st' a /\ a_owner (geta st' a) = nact st /\
           (a < narr st -> f_arr (getf st f) = Some a /\ pool st <> []);
  ne_arr_none : f_arr (getf st' f) = None -> ni = 0
}.

Lemma getf_fresh st : getf st (nfr st) = dframe.
Proof. unfold getf, nfr. apply nth_overflow. lia. Qed.

Lemma repeat_length' {A} (x : A) n : length (repeat x n) = n.
Proof. apply repeat_length. Qed.

Lemma new_env_spec st outer nv ni st' f :
  (forall g, In g (pool st) -> g < nfr st) ->
  (forall g a, g < nfr st -> f_arr (getf st g) = Some a -> a < narr st) ->
  new_env st outer nv ni = (st', f) -> new_env_post st outer nv ni st' f.
Proof.
  intros Hpool Harr H. unfold new_env in H.
  destruct (take st) as [st1 f1] eqn:T.
  assert (T1 : f1 = taken st /\ arrs st1 = arrs st /\ stack st1 = stack st /\ clos st1 = clos st /\ ptrs st1 = ptrs st /\
               nact st1 = nact st /\ pool st1 = tl (pool st) /\ f1 < nfr st1 /\
               nfr st1 = (match pool st with _ :: _ => nfr st | [] => S (nfr st) end) /\
               (forall g, g < nfr st -> getf st1 g = getf st g) /\ getf st1 f1 = getf st f1).
  { unfold take, taken in *. destruct (pool st) as [|p ps] eqn:P; inversion T; subst; simpl.
    - repeat split; auto; unfold nfr; simpl; try rewrite app_length; simpl; try lia.
      + intros g Hg. unfold getf; simpl. apply app_nth1. exact Hg.
      + unfold getf; simpl. rewrite nth_app_last. symmetry. apply nth_overflow. lia.
    - repeat split; auto. apply Hpool. try rewrite P. left; auto. }
  destruct T1 as (Ef & Ea & Es & Ec & Ep & En & Epool & Flt & Enfr & Eoth & Eself).
  remember (getf st1 f1) as fr eqn:Efr.
  assert (Hcap1 : forall o, arr_cap st1 o = arr_cap st o).
  { intros [a|]; simpl; auto. unfold geta. rewrite Ea. reflexivity. }
  assert (Hcommon : forall ar st2, frames st2 = frames st1 -> pool st2 = pool st1 -> stack st2 = stack st1 ->
     clos st2 = clos st1 -> ptrs st2 = ptrs st1 -> nact st2 = nact st1 ->
     let fr' := mkFrame (Some outer) (f_used fr) (f_iat fr) ar ni nv (if nv <=? f_vcap fr then f_vcap fr else nv) (nact st2) in
     let stx := set_nact (setf st2 f1 fr') (S (nact st2)) in
     pool stx = tl (pool st) /\ nfr stx = (match pool st with _ :: _ => nfr st | [] => S (nfr st) end) /\
     stack stx = stack st /\ clos stx = clos st /\ ptrs stx = ptrs st /\ nact stx = S (nact st) /\
     (forall g, g <> f1 -> g < nfr st -> getf stx g = getf st g) /\ getf stx f1 = fr' /\ arrs stx = arrs st2).
  { intros ar st2 F2 P2 S2 C2 Pt2 N2 fr' stx. subst stx. simpl.
    rewrite P2, S2, C2, Pt2, N2, En. repeat split; auto.
    - unfold nfr; simpl. rewrite upd_length, F2. exact Enfr.
    - intros g Ng Hg. unfold getf; simpl. rewrite nth_upd_neq by auto. rewrite F2. apply Eoth; auto.
    - unfold getf; simpl. rewrite nth_upd_eq; [reflexivity|rewrite F2; exact Flt]. }
  destruct (ni <=? arr_cap st1 (f_arr fr)) eqn:C.
  - (* the backing array is kept *)
    apply Nat.leb_le in C. rewrite Hcap1 in C.
    destruct (f_arr fr) as [a|] eqn:FA.
    + (* re-owned *)
      assert (Alt : a < narr st).
      { destruct (pool st) as [|p ps] eqn:P.
        - exfalso. unfold taken in Ef. rewrite P in Ef. subst f1. rewrite Eself, getf_fresh in FA. discriminate.
        - apply (Harr f1); [|rewrite Eself in FA; exact FA].
          unfold taken in Ef. rewrite P in Ef. subst f1. apply Hpool. try rewrite P. left; auto. }
      assert (Alt1 : a < length (arrs st1)) by (rewrite Ea; exact Alt).
      specialize (Hcommon (Some a) (set_arrs st1 (upd (arrs st1) a (mkArr (nact st1) (a_data (geta st1 a))))) eq_refl eq_refl eq_refl eq_refl eq_refl eq_refl).
      simpl in Hcommon. inversion H; subst st' f; clear H.
      destruct Hcommon as (Q1 & Q2 & Q3 & Q4 & Q5 & Q6 & Q7 & Q8 & Q9).
      assert (G : forall b, geta (set_nact (setf (set_arrs st1 (upd (arrs st1) a (mkArr (nact st1) (a_data (geta st1 a))))) f1
                 (mkFrame (Some outer) (f_used fr) (f_iat fr) (Some a) ni nv (if nv <=? f_vcap fr then f_vcap fr else nv) (nact st1))) (S (nact st1))) b
                 = nth b (upd (arrs st1) a (mkArr (nact st1) (a_data (geta st1 a)))) darr) by reflexivity.
      constructor; [exact Ef|exact Q1|exact Q2|exact Q3|exact Q4|exact Q5|exact Q6|exact Q7|..].
      * rewrite Q8. reflexivity.
      * rewrite Q8. simpl. rewrite Eself. reflexivity.
      * rewrite Q8. simpl. rewrite Eself. reflexivity.
      * rewrite Q8. reflexivity.
      * rewrite Q8. simpl. exact En.
      * unfold narr. simpl. rewrite upd_length, Ea. lia.
      * intros b Hb. rewrite G. destruct (Nat.eq_dec a b) as [->|N].
        -- rewrite nth_upd_eq by exact Alt1. simpl. unfold geta. rewrite Ea. reflexivity.
        -- rewrite nth_upd_neq by auto. unfold geta. rewrite Ea. reflexivity.
      * intros b Hb Hor. rewrite G. destruct (Nat.eq_dec a b) as [->|N].
        -- exfalso. destruct Hor as [Hn|Hn].
           ++ apply Hn. rewrite Eself in FA. exact FA.
           ++ unfold taken in Ef. rewrite Hn in Ef. subst f1. rewrite Eself, getf_fresh in FA. discriminate.
        -- rewrite nth_upd_neq by auto. unfold geta. rewrite Ea. reflexivity.
      * intros b Hb1 Hb2. unfold narr in Hb2. simpl in Hb2. rewrite upd_length, Ea in Hb2. unfold narr in Hb1. lia.
      * intros b Hb. rewrite Q8 in Hb. simpl in Hb. inversion Hb; subst b.
        repeat split.
        -- unfold narr. simpl. rewrite upd_length. exact Alt1.
        -- unfold acap. rewrite G. rewrite nth_upd_eq by exact Alt1. simpl. unfold arr_cap, geta in C. unfold geta. rewrite Ea. exact C.
        -- rewrite G. rewrite nth_upd_eq by exact Alt1. simpl. exact En.
        -- rewrite Eself in FA. exact FA.
        -- intros P. unfold taken in Ef. rewrite P in Ef. subst f1. rewrite Eself, getf_fresh in FA. discriminate.
      * intros Hb. rewrite Q8 in Hb. simpl in Hb. discriminate.
    + (* nil slice kept: ni = 0 *)
      specialize (Hcommon None st1 eq_refl eq_refl eq_refl eq_refl eq_refl eq_refl).
      simpl in Hcommon. inversion H; subst st' f; clear H. simpl in C.
      destruct Hcommon as (Q1 & Q2 & Q3 & Q4 & Q5 & Q6 & Q7 & Q8 & Q9).
      assert (G : forall b, geta (set_nact (setf st1 f1
                 (mkFrame (Some outer) (f_used fr) (f_iat fr) None ni nv (if nv <=? f_vcap fr then f_vcap fr else nv) (nact st1))) (S (nact st1))) b
                 = geta st b) by (intros; unfold geta; simpl; rewrite Ea; reflexivity).
      constructor; [exact Ef|exact Q1|exact Q2|exact Q3|exact Q4|exact Q5|exact Q6|exact Q7|..].
      * rewrite Q8. reflexivity.
      * rewrite Q8. simpl. rewrite Eself. reflexivity.
      * rewrite Q8. simpl. rewrite Eself. reflexivity.
      * rewrite Q8. reflexivity.
      * rewrite Q8. simpl. exact En.
      * unfold narr. simpl. rewrite Ea. lia.
      * intros b Hb. rewrite G. reflexivity.
      * intros b Hb _. rewrite G. reflexivity.
      * intros b Hb1 Hb2. unfold narr in *. simpl in Hb2. rewrite Ea in Hb2. lia.
      * intros b Hb. rewrite Q8 in Hb. simpl in Hb. discriminate.
      * intros _. lia.
  - (* a fresh array *)
    apply Nat.leb_gt in C.
    specialize (Hcommon (Some (length (arrs st1))) (set_arrs st1 (arrs st1 ++ [mkArr (nact st1) (repeat 0%Z ni)])) eq_refl eq_refl eq_refl eq_refl eq_refl eq_refl).
    simpl in Hcommon. inversion H; subst st' f; clear H.
    destruct Hcommon as (Q1 & Q2 & Q3 & Q4 & Q5 & Q6 & Q7 & Q8 & Q9).
    assert (G : forall b, geta (set_nact (setf (set_arrs st1 (arrs st1 ++ [mkArr (nact st1) (repeat 0%Z ni)])) f1
                 (mkFrame (Some outer) (f_used fr) (f_iat fr) (Some (length (arrs st1))) ni nv (if nv <=? f_vcap fr then f_vcap fr else nv) (nact st1))) (S (nact st1))) b
                 = nth b (arrs st ++ [mkArr (nact st) (repeat 0%Z ni)]) darr) by (intros; unfold geta; simpl; rewrite Ea, En; reflexivity).
    constructor; [exact Ef|exact Q1|exact Q2|exact Q3|exact Q4|exact Q5|exact Q6|exact Q7|..].
    * rewrite Q8. reflexivity.
    * rewrite Q8. simpl. rewrite Eself. reflexivity.
    * rewrite Q8. simpl. rewrite Eself. reflexivity.
    * rewrite Q8. reflexivity.
    * rewrite Q8. simpl. exact En.
    * unfold narr. simpl. rewrite app_length, Ea. lia.
    * intros b Hb. rewrite G. rewrite app_nth1 by exact Hb. reflexivity.
    * intros b Hb _. rewrite G. rewrite app_nth1 by exact Hb. reflexivity.
    * intros b Hb1 Hb2. unfold narr in *. simpl in Hb2. rewrite app_length, Ea in Hb2. simpl in Hb2.
      assert (b = length (arrs st)) by lia. subst b.
      unfold acap. rewrite G, nth_app_last. simpl.
      repeat split; auto.
      -- rewrite Q8. simpl. rewrite Ea. reflexivity.
      -- apply repeat_length.
    * intros b Hb. rewrite Q8 in Hb. simpl in Hb. inversion Hb; subst b.
      unfold narr, acap. rewrite G. simpl. rewrite Ea, nth_app_last. simpl. rewrite app_length, repeat_length. simpl.
      repeat split; auto; try lia.
    * intros Hb. rewrite Q8 in Hb. simpl in Hb. discriminate.
Qed.

(* ====================== structural invariant ====================== *)
Definition used st f := f_used (getf st f) = true.

Fixpoint linked (st : state) (call : list nat) : Prop :=
  match call with
  | [] => False
  | x :: rest =>
      match rest with
      | [] => exists u, f_outer (getf st x) = Some u /\ u < nfr st /\ used st u
      | y :: _ => f_outer (getf st x) = Some y /\ linked st rest
      end
  end.

Definition live st f := In f (concat (stack st)) \/ (f < nfr st /\ used st f).

Record Inv1 (st : state) : Prop := {
  i_pool_lt : forall f, In f (pool st) -> f < nfr st;
  i_pool_flags : forall f, In f (pool st) -> f_used (getf st f) = false /\ f_iat (getf st f) = false;
  i_pool_nodup : NoDup (pool st);
  i_stack_lt : forall f, In f (concat (stack st)) -> f < nfr st;
  i_stack_pool : forall f, In f (concat (stack st)) -> ~ In f (pool st);
  i_stack_nodup : NoDup (concat (stack st));
  i_linked : Forall (linked st) (stack st);
  i_up : forall f g, f < nfr st -> used st f -> f_outer (getf st f) = Some g -> g < nfr st /\ used st g;
  i_clos : forall f, In f (clos st) -> f < nfr st /\ used st f;
  i_arr_lt : forall f a, f < nfr st -> f_arr (getf st f) = Some a -> a < narr st;
  i_arr_inj : forall f g a, f < nfr st -> g < nfr st -> f_arr (getf st f) = Some a -> f_arr (getf st g) = Some a -> f = g;
  i_ptr : forall a i, In (a, i) (ptrs st) -> a < narr st /\ forall f, f < nfr st -> f_arr (getf st f) = Some a -> f_iat (getf st f) = true
}.

Lemma inv1_init : Inv1 init.
Proof.
  constructor; simpl.
  - intros f [].
  - intros f [].
  - constructor.
  - intros f [<-|[]]. unfold nfr; simpl; lia.
  - intros f _ [].
  - repeat constructor; simpl; intuition.
  - constructor; [|constructor]. simpl. exists 0. unfold getf, nfr, used; simpl. repeat split; auto.
  - intros f g Hf U O. unfold nfr, used, getf in *; simpl in *.
    destruct f as [|[|f]]; simpl in *; try lia; try discriminate. inversion O; subst. split; auto.
  - intros f [<-|[]]. unfold nfr, used, getf; simpl. split; auto.
  - intros f a Hf A. unfold nfr, getf in *; simpl in *. destruct f as [|[|f]]; simpl in *; try lia; discriminate.
  - intros f g a Hf Hg A. unfold nfr, getf in *; simpl in *. destruct f as [|[|f]]; simpl in *; try lia; discriminate.
  - intros a i [].
Qed.

(* ---- linked: extension, membership ---- *)
Lemma linked_ext st st' call :
  (forall x, In x call -> f_outer (getf st' x) = f_outer (getf st x)) ->
  (forall u, u < nfr st -> used st u -> u < nfr st' /\ used st' u) ->
  linked st call -> linked st' call.
Proof.
  induction call as [|x rest IH]; intros Ho Hu L; simpl in *; auto.
  destruct rest as [|y rest'].
  - destruct L as (u & O & Lt & U). exists u. rewrite Ho by auto. destruct (Hu u Lt U). auto.
  - destruct L as (O & L). split.
    + rewrite Ho by auto. exact O.
    + apply IH; auto; intros z Hz; apply Ho; right; exact Hz.
Qed.

Lemma linked_outer st call x g : linked st call -> In x call -> f_outer (getf st x) = Some g ->
  In g call \/ (g < nfr st /\ used st g).
Proof.
  induction call as [|y rest IH]; intros L I O; simpl in *; [contradiction|].
  destruct rest as [|z rest'].
  - destruct I as [->|[]]. destruct L as (u & O' & Lt & U). rewrite O in O'. inversion O'; subst. right; auto.
  - destruct L as (O' & L). destruct I as [->|I].
    + rewrite O in O'. inversion O'; subst. left. right. left. reflexivity.
    + destruct (IH L I O) as [H|H]; auto.
Qed.

Lemma linked_skipn st call k : linked st call -> k < length call -> linked st (skipn k call).
Proof.
  revert call; induction k as [|k IH]; intros call L H; [exact L|].
  destruct call as [|x rest]; simpl in *; [lia|].
  destruct rest as [|y rest']; simpl in *; [lia|]. destruct L as (_ & L). apply IH; auto. simpl. lia.
Qed.

Lemma linked_nonempty st call : linked st call -> call <> [].
Proof. destruct call; simpl; auto. discriminate. Qed.

Lemma in_stack_call st f : In f (concat (stack st)) -> exists call, In call (stack st) /\ In f call.
Proof. intros H. apply in_concat in H. destruct H as (c & A & B). eauto. Qed.

Lemma live_outer st f g : Inv1 st -> live st f -> f_outer (getf st f) = Some g -> live st g /\ g < nfr st.
Proof.
  intros I [S|[Lt U]] O.
  - destruct (in_stack_call _ _ S) as (call & Hc & Hf).
    assert (L : linked st call). { pose proof (i_linked _ I) as F. rewrite Forall_forall in F. auto. }
    destruct (linked_outer _ _ _ _ L Hf O) as [H|[H1 H2]].
    + assert (In g (concat (stack st))) by (apply in_concat; eauto). split; [left; auto|]. apply (i_stack_lt _ I); auto.
    + split; auto. right; auto.
  - destruct (i_up _ I f g Lt U O). split; auto. right; auto.
Qed.

Lemma up_live st n f g : Inv1 st -> live st f -> up (frames st) n f = Some g -> live st g.
Proof.
  intros I. revert f; induction n as [|n IH]; intros f L U; simpl in U.
  - inversion U; subst; auto.
  - fold (getf st f) in U. destruct (f_outer (getf st f)) as [h|] eqn:O; [|discriminate].
    apply (IH h); auto. apply (live_outer st f h); auto.
Qed.

Lemma live_lt st f : Inv1 st -> live st f -> f < nfr st.
Proof. intros I [S|[Lt _]]; auto. apply (i_stack_lt _ I); auto. Qed.

Lemma live_not_pooled st f : Inv1 st -> live st f -> ~ In f (pool st).
Proof.
  intros I [S|[Lt U]] P.
  - apply (i_stack_pool _ I f S P).
  - destruct (i_pool_flags _ I f P) as [H _]. unfold used in U. congruence.
Qed.

Lemma cur_live st : Inv1 st -> stack st <> [] -> live st (cur st).
Proof.
  intros I N. left. unfold cur, cur_call. destruct (stack st) as [|call rest] eqn:S; [congruence|]. simpl.
  pose proof (i_linked _ I) as F. rewrite S in F. inversion F; subst.
  destruct call as [|x c]; simpl in *; [contradiction|]. left; reflexivity.
Qed.

(* ---- writes do not touch the structure ---- *)
Lemma inv1_wr st l v : Inv1 st -> Inv1 (wr st l v).
Proof.
  intros I. destruct I. constructor; simpl; auto.
  - eapply Forall_impl; [|exact i_linked0]. intros call L. apply (linked_ext st); auto.
  - intros f a. rewrite wr_narr. apply i_arr_lt0.
  - intros a i H. rewrite wr_narr. apply (i_ptr0 a i H).
Qed.
